import Gonuts.Gen.Code
import Gonuts.Lemmas.GoSem
import Gonuts.Lemmas.Amount
import Gonuts.Model.Select
import Gonuts.Model.Spend
/-!
  The TRANSLATED code (`Gonuts/Gen/Code.lean`, regenerated from /repo's Go source by `extract/translate.go` on every
  run) equals the hand-written model — for ALL inputs.  These are the proof obligations that tie the arithmetic /
  decision helpers of `cashu/cashu.go`, `wallet/wallet.go` and `mint/mint.go` to `Model/Amount.lean` and
  `Model/Select.lean` (C02, C06, C09, C16, C18), the wallet's `inputsWithoutDLEQ` (C08), `nut11.IsSigAll` /
  `DuplicateSignatures` to `Model/Spend.lean` (C12, C13) and the state enumerations of NUT-04/05/07 (C15, C20):

  * a semantic change of one of these Go functions (a `<` that becomes `<=`, a dropped overflow check, a fee rounded
    down, a wrong shift, a duplicate test on another field) changes the regenerated definition, and the theorem about it
    here no longer checks — a broken obligation for the properties that list this module;
  * a harmless rewrite that the same proof script still discharges stays silent (unlike the frozen source text of
    `Tie/Select.lean`, which it complements);
  * a function that leaves the translator's subset becomes `untranslatable_<F> : String` and the theorem about `<F>`
    no longer elaborates.
  The second half states the consequences directly about the regenerated code (no model in the statement).
-/
namespace Gonuts.Tie.Code
open Gonuts.Gen.Code Gonuts.Model Gonuts.Model.Go

theorem amountWrap_map {α : Type} (g : α → UInt64) (xs : List α) :
    amountWrap (xs.map g) = xs.foldl (fun s x => s + g x) 0 := by
  simp only [amountWrap, List.foldl_map]

/-! ## cashu/cashu.go -/
/-- proved through the meaning of the two tests (not by syntactic equality), so that an equivalent way of writing
    the overflow test in the Go source is accepted -/
theorem OverflowAddUint64_eq (a b : UInt64) : OverflowAddUint64 a b = overflowAdd a b := by
  unfold OverflowAddUint64 overflowAdd
  have hm : (18446744073709551615 : UInt64) = UInt64.ofNat (2 ^ 64 - 1) := rfl
  by_cases h : a.toNat + b.toNat < 2 ^ 64
  · have e : (a + b).toNat = a.toNat + b.toNat := by rw [UInt64.toNat_add]; exact Nat.mod_eq_of_lt h
    have h1 : ¬ (a + b < a) := by rw [UInt64.lt_iff_toNat_lt]; omega
    have h2 : ¬ (a + b < b) := by rw [UInt64.lt_iff_toNat_lt]; omega
    simp [h1, h2]
  · have e : (a + b).toNat = a.toNat + b.toNat - 2 ^ 64 := by
      rw [UInt64.toNat_add]
      have := a.toNat_lt; have := b.toNat_lt
      omega
    have := a.toNat_lt; have := b.toNat_lt
    have h1 : a + b < a := by rw [UInt64.lt_iff_toNat_lt]; omega
    have h2 : a + b < b := by rw [UInt64.lt_iff_toNat_lt]; omega
    simp [h1, h2, hm]

theorem UnderflowSubUint64_eq (a b : UInt64) : UnderflowSubUint64 a b = underflowSub a b := by
  unfold UnderflowSubUint64 underflowSub
  by_cases h : a < b
  · have h' : ¬ (b ≤ a) := by rw [UInt64.le_iff_toNat_le]; rw [UInt64.lt_iff_toNat_lt] at h; omega
    simp [h, h']
  · have h' : b ≤ a := by rw [UInt64.le_iff_toNat_le]; rw [UInt64.lt_iff_toNat_lt] at h; omega
    simp [h, h']

theorem BlindedMessages_Amount_eq (bm : List BlindedMessage) :
    BlindedMessages_Amount bm = amountWrap (bm.map (·.Amount)) := by
  unfold BlindedMessages_Amount
  simp only [rangeLoop_fold _ (fun (s : UInt64) (x : BlindedMessage) => s + x.Amount) (fun _ _ _ => rfl), amountWrap_map]

theorem BlindedSignatures_Amount_eq (bs : List BlindedSignature) :
    BlindedSignatures_Amount bs = amountWrap (bs.map (·.Amount)) := by
  unfold BlindedSignatures_Amount
  simp only [rangeLoop_fold _ (fun (s : UInt64) (x : BlindedSignature) => s + x.Amount) (fun _ _ _ => rfl), amountWrap_map]

theorem Proofs_Amount_eq (ps : List Proof) : Proofs_Amount ps = amountWrap (ps.map (·.Amount)) := by
  unfold Proofs_Amount
  simp only [rangeLoop_fold _ (fun (s : UInt64) (x : Proof) => s + x.Amount) (fun _ _ _ => rfl), amountWrap_map]

theorem Max_spec (x y : UInt64) :
    x ≤ Gen.Code.Max x y ∧ y ≤ Gen.Code.Max x y ∧ (Gen.Code.Max x y = x ∨ Gen.Code.Max x y = y) := by
  unfold Gen.Code.Max
  simp only [decide_eq_true_eq, UInt64.lt_iff_toNat_lt, UInt64.le_iff_toNat_le, gt_iff_lt]
  split
  · exact ⟨Nat.le_refl _, by omega, .inl rfl⟩
  · exact ⟨by omega, Nat.le_refl _, .inr rfl⟩

theorem Count_eq (amounts : List UInt64) (amount : UInt64) :
    Count amounts amount = UInt64.ofNat (countEq amounts amount) := by
  unfold Count
  dsimp only
  rw [rangeLoop_fold _ (fun (s : UInt64) (x : UInt64) => if x == amount then s + 1 else s)]
  · suffices h : ∀ (s : UInt64), amounts.foldl (fun s x => if x == amount then s + 1 else s) s =
        s + UInt64.ofNat (countEq amounts amount) by simpa using h 0
    induction amounts with
    | nil => intro s; simp [countEq]
    | cons x xs ih =>
      intro s
      simp only [List.foldl_cons, ih, countEq, List.filter_cons]
      by_cases h : (x == amount) = true
      · simp only [h, if_true, List.length_cons, UInt64.ofNat_add]
        rw [UInt64.add_assoc, UInt64.add_comm 1]; rfl
      · simp only [h]; rfl
  · intro _ x s
    by_cases h : (x == amount) = true <;> simp [h]

/-! ## cashu/cashu.go: TokenV3.Proofs / TokenV3.Amount (C14) -/

/-- the proofs of a V3 token are the proofs of its entries, in order -/
theorem TokenV3_Proofs_eq (t : TokenV3) : TokenV3_Proofs t = t.Token.flatMap (·.Proofs) := by
  unfold TokenV3_Proofs
  dsimp only
  rw [rangeLoop_fold _ (fun (acc : List Proof) (tp : TokenV3Proof) => acc ++ tp.Proofs) (fun _ _ _ => rfl)]
  simp only
  suffices h : ∀ (acc : List Proof), t.Token.foldl (fun acc tp => acc ++ tp.Proofs) acc = acc ++ t.Token.flatMap (·.Proofs) by
    simpa using h []
  generalize t.Token = l
  induction l with
  | nil => intro acc; simp
  | cons x xs ih => intro acc; simp [ih, List.append_assoc]

/-- the amount of a V3 token is the (wrapping) sum over all its proofs -/
theorem TokenV3_Amount_eq (t : TokenV3) :
    TokenV3_Amount t = amountWrap ((TokenV3_Proofs t).map (·.Amount)) := by
  rw [TokenV3_Proofs_eq]
  unfold TokenV3_Amount
  dsimp only
  rw [rangeLoop_fold _ (fun (s : UInt64) (tp : TokenV3Proof) => tp.Proofs.foldl (fun s p => s + p.Amount) s)]
  · simp only [amountWrap, List.foldl_map]
    generalize (0 : UInt64) = acc
    generalize t.Token = l
    induction l generalizing acc with
    | nil => rfl
    | cons x xs ih => simp [List.flatMap_cons, List.foldl_append, ih]
  · intro i tp s
    simp only [rangeLoop_fold _ (fun (s : UInt64) (p : Proof) => s + p.Amount) (fun _ _ _ => rfl)]

/-! ## fees: wallet/wallet.go, mint/mint.go -/
theorem foldl_replicate_unit (ppk : UInt64) (n : Nat) (s : UInt64) :
    (List.replicate n ()).foldl (fun s _ => s + ppk) s = (List.replicate n ppk).foldl (· + ·) s := by
  induction n generalizing s with
  | zero => rfl
  | succ n ih => simp only [List.replicate_succ, List.foldl_cons, ih]

/-- `feesForCount(count, keyset)` is the model's `feesOfPpks` of `count` copies of the keyset's fee -/
theorem feesForCount_eq (count : Int) (ks : WalletKeyset) :
    Gen.Code.feesForCount count ks = Model.Select.feesForCount count.toNat ks.InputFeePpk := by
  unfold Gen.Code.feesForCount Model.Select.feesForCount feesOfPpks amountWrap
  simp only [countLoop_fold _ (fun (s : UInt64) => s + ks.InputFeePpk) (fun _ _ => rfl), Int.sub_zero, foldl_replicate_unit]

/-- the fee `feesForProofs` adds for a proof of keyset `id`: active keyset first, then the inactive map, else nothing -/
def ppkOf (mint : walletMint) (id : String) : UInt64 :=
  if mint.activeKeyset.Id == id then mint.activeKeyset.InputFeePpk
  else match mint.inactiveKeysets.lookup id with
    | some ks => ks.InputFeePpk
    | none => 0

theorem feesForProofs_eq (proofs : List Proof) (mint : walletMint) :
    Gen.Code.feesForProofs proofs mint = feesOfPpks (proofs.map (fun p => ppkOf mint p.Id)) := by
  unfold Gen.Code.feesForProofs feesOfPpks
  dsimp only
  rw [rangeLoop_fold _ (fun (s : UInt64) (p : Proof) => s + ppkOf mint p.Id), amountWrap_map]
  intro _ p s
  unfold ppkOf mapGet2
  by_cases h : (mint.activeKeyset.Id == p.Id) = true
  · simp only [h, if_true]
  · simp only [h]
    cases hl : mint.inactiveKeysets.lookup p.Id <;> simp

theorem Mint_TransactionFees_eq (m : Mint) (inputs : List Proof) :
    Mint_TransactionFees m inputs = feesOfPpks (inputs.map (fun p => (mapGet m.keysets p.Id).InputFeePpk)) := by
  unfold Mint_TransactionFees feesOfPpks
  simp only [rangeLoop_fold _ (fun (s : UInt64) (p : Proof) => s + (mapGet m.keysets p.Id).InputFeePpk) (fun _ _ _ => rfl),
    amountWrap_map]

/-! ## loops with an early return -/

/-- `BlindedMessages.AmountChecked` is the model's `amountChecked` over the amounts: the checked sum, or
    `(0, ErrAmountOverflows)` as soon as a partial sum overflows. -/
theorem BlindedMessages_AmountChecked_eq (bm : List BlindedMessage) :
    BlindedMessages_AmountChecked bm =
      match amountChecked (bm.map (·.Amount)) with
      | some r => (r, none)
      | none => (0, some "ErrAmountOverflows") := by
  unfold BlindedMessages_AmountChecked amountChecked rangeLoop
  dsimp only
  generalize hL : rangeLoopFrom _ 0 bm ((0 : UInt64), false) = L
  have h : (∀ r, amountChecked.go 0 (bm.map (·.Amount)) = some r → ∃ ov', L = (.next, (r, ov'))) ∧
      (amountChecked.go 0 (bm.map (·.Amount)) = none → ∃ st', L = (.ret (0, some "ErrAmountOverflows"), st')) := by
    rw [← hL]
    refine rangeLoopFrom_spec _
      (fun (xs : List BlindedMessage) (st : UInt64 × Bool) (res : Ctl (UInt64 × Option String) × UInt64 × Bool) =>
        (∀ r, amountChecked.go st.1 (xs.map (·.Amount)) = some r → ∃ ov', res = (.next, (r, ov'))) ∧
        (amountChecked.go st.1 (xs.map (·.Amount)) = none → ∃ st', res = (.ret (0, some "ErrAmountOverflows"), st')))
      ?_ ?_ 0 bm ((0 : UInt64), false)
    · intro s; rcases s with ⟨a, o⟩; simp [amountChecked.go]
    · intro i x xs s
      rcases s with ⟨acc, ov⟩
      simp only [OverflowAddUint64_eq, List.map_cons, amountChecked.go]
      rcases hoa : overflowAdd acc x.Amount with ⟨s, o⟩
      cases o <;> simp
  cases hg : amountChecked.go 0 (bm.map (·.Amount)) with
  | some r => obtain ⟨ov', e⟩ := h.1 r hg; simp [e]
  | none => obtain ⟨st', e⟩ := h.2 hg; simp [e]

theorem dupLoop_spec (bms : List BlindedMessage) : ∀ (i : Nat) (m : List (String × Bool)) (seen : List String),
    (∀ k, mapGet m k = true ↔ k ∈ seen) → seen.Nodup →
    ((¬ (seen ++ bms.map (·.B_)).Nodup → ∃ m', rangeLoopFrom (ρ := Bool) (fun _ (bm : BlindedMessage) (st : List (String × Bool)) =>
        if mapGet st bm.B_ = true then (Ctl.ret true, st) else (Ctl.next, mapSet st bm.B_ true)) i bms m = (Ctl.ret true, m')) ∧
     ((seen ++ bms.map (·.B_)).Nodup → ∃ m', rangeLoopFrom (ρ := Bool) (fun _ (bm : BlindedMessage) (st : List (String × Bool)) =>
        if mapGet st bm.B_ = true then (Ctl.ret true, st) else (Ctl.next, mapSet st bm.B_ true)) i bms m = (Ctl.next, m'))) := by
  induction bms with
  | nil => intro i m seen _ hn; simp [rangeLoopFrom, hn]
  | cons x xs ih =>
    intro i m seen hm hn
    simp only [rangeLoopFrom, List.map_cons]
    by_cases hx : mapGet m x.B_ = true
    · simp only [hx, if_true]
      refine ⟨fun _ => ⟨m, rfl⟩, fun hnd => ?_⟩
      have := (hm x.B_).mp hx
      rw [List.nodup_append] at hnd
      exact absurd rfl (hnd.2.2 _ this _ List.mem_cons_self)
    · simp only [hx]
      have hnot : x.B_ ∉ seen := fun h => hx ((hm x.B_).mpr h)
      have := ih (i + 1) (mapSet m x.B_ true) (seen ++ [x.B_]) (by
        intro k
        simp only [mapSet, mapGet, List.lookup_cons, List.mem_append, List.mem_singleton]
        by_cases hk : k = x.B_
        · simp [hk]
        · have hk' : (k == x.B_) = false := by simpa using hk
          simp only [hk', hk, or_false]
          exact hm k) (by
        rw [List.nodup_append]
        exact ⟨hn, by simp, by intro a ha b hb; simp at hb; subst hb; intro h; exact hnot (h ▸ ha)⟩)
      simpa [List.append_assoc] using this

/-- `CheckDuplicateBlindedMessages` answers true exactly when two blinded messages of the list have the same `B_` -/
theorem CheckDuplicateBlindedMessages_iff (bms : List BlindedMessage) :
    CheckDuplicateBlindedMessages bms = true ↔ ¬ (bms.map (·.B_)).Nodup := by
  unfold CheckDuplicateBlindedMessages rangeLoop
  dsimp only
  have h := dupLoop_spec bms 0 [] [] (by intro k; simp [mapGet]) List.nodup_nil
  simp only [List.nil_append] at h
  by_cases hn : (bms.map (·.B_)).Nodup
  · obtain ⟨m', hm⟩ := h.2 hn
    simp [hm, hn]
  · obtain ⟨m', hm⟩ := h.1 hn
    simp [hm, hn]

/-! ## a general loop (fuel) -/

/-- `AmountSplit` with 64 rounds of fuel always terminates, and returns the model's `amountSplit` -/
theorem AmountSplit_eq (a : UInt64) : AmountSplit 64 a = some (amountSplit a) := by
  unfold AmountSplit amountSplit
  dsimp only
  generalize hL : whileLoop _ _ 64 (([] : List UInt64), a, (0 : Int)) = L
  have h : a.toNat < 2 ^ 64 → (0 : Int) ≤ 0 → ∃ a' p', L = some (.next,
      (([] : List UInt64) ++ (amountSplitAux 64 (0 : Int).toNat a.toNat).map UInt64.ofNat, a', p')) := by
    rw [← hL]
    refine whileLoop_spec _ _
      (fun (fuel : Nat) (st : List UInt64 × UInt64 × Int) (res : Option (Ctl (List UInt64) × List UInt64 × UInt64 × Int)) =>
        st.2.1.toNat < 2 ^ fuel → 0 ≤ st.2.2 → ∃ a' p', res = some (.next,
          (st.1 ++ (amountSplitAux fuel st.2.2.toNat st.2.1.toNat).map UInt64.ofNat, a', p')))
      ?_ ?_ ?_ 64 (([] : List UInt64), a, (0 : Int))
    · rintro fuel ⟨rv, amt, pos⟩ hc _ _
      have h0 : amt.toNat = 0 := by
        simp only [decide_eq_false_iff_not, UInt64.lt_iff_toNat_lt, gt_iff_lt] at hc
        simpa using hc
      refine ⟨amt, pos, ?_⟩
      cases fuel <;> simp [amountSplitAux, h0]
    · rintro ⟨rv, amt, pos⟩ hc hlt _
      simp only [decide_eq_true_eq, UInt64.lt_iff_toNat_lt, gt_iff_lt] at hc
      simp at hlt hc
      omega
    · rintro fuel ⟨rv, amt, pos⟩ hc
      simp only [decide_eq_true_eq, UInt64.lt_iff_toNat_lt, gt_iff_lt] at hc
      have hpos : 0 < amt.toNat := by simpa using hc
      simp only [and_one_eq_one_iff]
      by_cases hb : amt.toNat % 2 = 1
      · simp only [hb, decide_true, if_true]
        intro r hr hlt hp
        obtain ⟨a', p', e⟩ := hr (by rw [shr_one_toNat]; omega) (by omega)
        refine ⟨a', p', ?_⟩
        rw [e]
        simp only [shr_one_toNat, shl_one]
        have e2 : (pos + 1).toNat = pos.toNat + 1 := by omega
        rw [e2]
        conv => rhs; rw [amountSplitAux]
        simp [Nat.ne_of_gt hpos, hb]
      · simp only [hb, decide_false, Bool.false_eq_true, if_false]
        intro r hr hlt hp
        obtain ⟨a', p', e⟩ := hr (by rw [shr_one_toNat]; omega) (by omega)
        refine ⟨a', p', ?_⟩
        rw [e]
        simp only [shr_one_toNat]
        have e2 : (pos + 1).toNat = pos.toNat + 1 := by omega
        rw [e2]
        conv => rhs; rw [amountSplitAux]
        simp [Nat.ne_of_gt hpos, hb]
  obtain ⟨a', p', e⟩ := h a.toNat_lt (Int.le_refl 0)
  simp [e]


/-! ## what the regenerated code does, stated without the model -/

/-- `OverflowAddUint64` reports no overflow exactly when the true sum fits in 64 bits, and then returns it -/
theorem OverflowAddUint64_spec (a b : UInt64) :
    ((OverflowAddUint64 a b).2 = false ↔ a.toNat + b.toNat < 2 ^ 64) ∧
    ((OverflowAddUint64 a b).2 = false → (OverflowAddUint64 a b).1.toNat = a.toNat + b.toNat) := by
  rw [OverflowAddUint64_eq]
  exact ⟨overflowAdd_ok_iff a b, overflowAdd_ok_val a b⟩

/-- `UnderflowSubUint64` reports no underflow exactly when `b ≤ a`, and then returns the true difference -/
theorem UnderflowSubUint64_spec (a b : UInt64) :
    ((UnderflowSubUint64 a b).2 = false ↔ b.toNat ≤ a.toNat) ∧
    ((UnderflowSubUint64 a b).2 = false → (UnderflowSubUint64 a b).1.toNat = a.toNat - b.toNat) := by
  rw [UnderflowSubUint64_eq]
  exact ⟨underflowSub_ok_iff a b, underflowSub_ok_val a b⟩

/-- `BlindedMessages.AmountChecked` returns an error exactly when the true sum of the amounts does not fit in 64
    bits, and otherwise the true sum -/
theorem BlindedMessages_AmountChecked_spec (bm : List BlindedMessage) :
    ((BlindedMessages_AmountChecked bm).2 ≠ none ↔ 2 ^ 64 ≤ natSum (bm.map (·.Amount))) ∧
    ((BlindedMessages_AmountChecked bm).2 = none → (BlindedMessages_AmountChecked bm).1.toNat = natSum (bm.map (·.Amount))) := by
  rw [BlindedMessages_AmountChecked_eq]
  cases h : amountChecked (bm.map (·.Amount)) with
  | none => simp [(amountChecked_none_iff _).mp h]
  | some r =>
    have hs := amountChecked_some _ r h
    have hn : ¬ (2 ^ 64 ≤ natSum (bm.map (·.Amount))) := fun hh => by
      rw [(amountChecked_none_iff _).mpr hh] at h; cases h
    simp [hs, hn]

/-- the unchecked `Amount()` sums are the true sum modulo 2^64 -/
theorem Proofs_Amount_spec (ps : List Proof) : (Proofs_Amount ps).toNat = natSum (ps.map (·.Amount)) % 2 ^ 64 := by
  rw [Proofs_Amount_eq, amountWrap_toNat]

/-- `AmountSplit` returns strictly increasing powers of two that add up to the amount -/
theorem AmountSplit_spec (a : UInt64) : ∃ l, AmountSplit 64 a = some l ∧ natSum l = a.toNat ∧
    l.Pairwise (· < ·) ∧ ∀ x ∈ l, ∃ e, e < 64 ∧ x.toNat = 2 ^ e :=
  ⟨amountSplit a, AmountSplit_eq a, amountSplit_natSum a, amountSplit_pairwise_lt a, amountSplit_mem_pow2 a⟩

/-- the three fee functions charge ⌈Σ ppk / 1000⌉ whenever the sum of the per-input fees does not wrap -/
theorem Mint_TransactionFees_spec (m : Mint) (inputs : List Proof)
    (h : natSum (inputs.map (fun p => (mapGet m.keysets p.Id).InputFeePpk)) + 999 < 2 ^ 64) :
    (Mint_TransactionFees m inputs).toNat = ceilDiv1000 (natSum (inputs.map (fun p => (mapGet m.keysets p.Id).InputFeePpk))) := by
  rw [Mint_TransactionFees_eq]; exact feesOfPpks_exact _ h

theorem feesForProofs_spec (proofs : List Proof) (mint : walletMint)
    (h : natSum (proofs.map (fun p => ppkOf mint p.Id)) + 999 < 2 ^ 64) :
    (Gen.Code.feesForProofs proofs mint).toNat = ceilDiv1000 (natSum (proofs.map (fun p => ppkOf mint p.Id))) := by
  rw [feesForProofs_eq]; exact feesOfPpks_exact _ h

/-! ## wallet/wallet.go: inputsWithoutDLEQ (C08) -/

theorem set_append_replicate {α : Type} (pre : List α) (d v : α) (n : Nat) :
    (pre ++ List.replicate (n + 1) d).set pre.length v = (pre ++ [v]) ++ List.replicate n d := by
  induction pre with
  | nil => simp [List.replicate_succ]
  | cons a pre ih => simp [ih]

theorem stripLoop (f : Proof → Proof) (body : Nat → Proof → List Proof → Ctl (List Proof) × List Proof)
    (hb : ∀ i p st, body i p st = (.next, st.set i (f p))) :
    ∀ (xs pre : List Proof), rangeLoopFrom body pre.length xs (pre ++ List.replicate xs.length default) =
      (.next, pre ++ xs.map f) := by
  intro xs
  induction xs with
  | nil => intro pre; simp [rangeLoopFrom]
  | cons x xs ih =>
    intro pre
    simp only [rangeLoopFrom, hb, List.length_cons, set_append_replicate]
    have := ih (pre ++ [f x])
    simp only [List.length_append, List.length_singleton] at this
    rw [this]
    simp

/-- the copies that go into a swap / melt request are the stored proofs with the DLEQ proof removed, in order -/
theorem inputsWithoutDLEQ_eq (ps : List Proof) :
    inputsWithoutDLEQ ps = ps.map (fun p => { p with DLEQ := none }) := by
  unfold inputsWithoutDLEQ rangeLoop
  cases ps with
  | nil => rfl
  | cons p ps =>
    simp only [List.isEmpty_cons, Bool.false_eq_true, if_false, Int.toNat_natCast]
    have := stripLoop (fun p => { p with DLEQ := none })
      (fun i_n proof st => (Ctl.next, st.set (Int.toNat (Int.ofNat i_n)) { proof with DLEQ := none }))
      (fun i p st => by simp) (p :: ps) []
    simp only [List.length_nil, List.nil_append] at this
    exact congrArg (fun r => match r with | (Ctl.ret r__, _) => r__ | (_, inputs) => inputs) this |>.trans (by rfl)

/-- no DLEQ proof (hence no blinding factor `r`) is left in what `inputsWithoutDLEQ` returns; everything else is kept -/
theorem inputsWithoutDLEQ_spec (ps : List Proof) :
    (inputsWithoutDLEQ ps).length = ps.length ∧ (∀ q ∈ inputsWithoutDLEQ ps, q.DLEQ = none) ∧
    (inputsWithoutDLEQ ps).map (fun p => (p.Amount, p.Id, p.Secret, p.C, p.Witness)) =
      ps.map (fun p => (p.Amount, p.Id, p.Secret, p.C, p.Witness)) := by
  rw [inputsWithoutDLEQ_eq]
  refine ⟨by simp, ?_, by simp [List.map_map, Function.comp_def]⟩
  intro q hq
  obtain ⟨p, _, rfl⟩ := List.mem_map.mp hq
  rfl

/-! ## cashu/nuts/nut11: IsSigAll, DuplicateSignatures (C12, C13) -/

theorem anyLoop {α : Type} (t : α → Bool) (body : Nat → α → Unit → Ctl Bool × Unit)
    (hb : ∀ i x, body i x () = if t x then (.ret true, ()) else (.next, ())) :
    ∀ (i : Nat) (xs : List α), rangeLoopFrom body i xs () = if xs.any t then (.ret true, ()) else (.next, ()) := by
  intro i xs
  induction xs generalizing i with
  | nil => simp [rangeLoopFrom]
  | cons x xs ih =>
    simp only [rangeLoopFrom, hb, List.any_cons]
    by_cases h : t x = true
    · rw [if_pos h]; simp [h]
    · rw [if_neg h]; simp [h, ih]

/-- `nut11.IsSigAll` = the model's `Spend.isSigAll`: some tag is exactly `["sigflag", "SIG_ALL"]` -/
theorem nut11_IsSigAll_eq (s : WellKnownSecret) (k : Spend.Kind) :
    nut11_IsSigAll s = Spend.isSigAll { kind := k, data := s.Data.Data, tags := s.Data.Tags } := by
  unfold nut11_IsSigAll rangeLoop Spend.isSigAll
  rw [anyLoop (fun tag => match tag with
      | [a, b] => decide (a = Spend.SIGFLAG) && decide (b = Spend.SIGALL)
      | _ => false)]
  · cases h : s.Data.Tags.any _ <;> simp [h]
  · intro i tag
    match tag with
    | [] => simp
    | [a] => simp
    | [a, b] =>
      simp only [List.length_cons, List.length_nil, Go.idx, Spend.SIGFLAG, Spend.SIGALL]
      by_cases h1 : a = "sigflag" <;> by_cases h2 : b = "SIG_ALL" <;> simp [h1, h2]
    | a :: b :: c :: rest =>
      have hlen : ¬ ((Int.ofNat ((a :: b :: c :: rest).length)) == (2 : Int)) = true := by
        simp only [beq_iff_eq, List.length_cons, Int.ofNat_eq_natCast]; omega
      simp only [hlen]
      simp

theorem dupStrLoop_spec (xs : List String) : ∀ (i : Nat) (m : List (String × Bool)) (seen : List String),
    (∀ k, mapGet m k = true ↔ k ∈ seen) → seen.Nodup →
    ((¬ (seen ++ xs).Nodup → ∃ m', rangeLoopFrom (ρ := Bool) (fun _ (x : String) (st : List (String × Bool)) =>
        if mapGet st x = true then (Ctl.ret true, st) else (Ctl.next, mapSet st x true)) i xs m = (Ctl.ret true, m')) ∧
     ((seen ++ xs).Nodup → ∃ m', rangeLoopFrom (ρ := Bool) (fun _ (x : String) (st : List (String × Bool)) =>
        if mapGet st x = true then (Ctl.ret true, st) else (Ctl.next, mapSet st x true)) i xs m = (Ctl.next, m'))) := by
  induction xs with
  | nil => intro i m seen _ hn; simp [rangeLoopFrom, hn]
  | cons x xs ih =>
    intro i m seen hm hn
    simp only [rangeLoopFrom]
    by_cases hx : mapGet m x = true
    · simp only [hx, if_true]
      refine ⟨fun _ => ⟨m, rfl⟩, fun hnd => ?_⟩
      have := (hm x).mp hx
      rw [List.nodup_append] at hnd
      exact absurd rfl (hnd.2.2 _ this _ List.mem_cons_self)
    · simp only [hx]
      have hnot : x ∉ seen := fun h => hx ((hm x).mpr h)
      have := ih (i + 1) (mapSet m x true) (seen ++ [x]) (by
        intro k
        simp only [mapSet, mapGet, List.lookup_cons, List.mem_append, List.mem_singleton]
        by_cases hk : k = x
        · simp [hk]
        · have hk' : (k == x) = false := by simpa using hk
          simp only [hk', hk, or_false]
          exact hm k) (by
        rw [List.nodup_append]
        exact ⟨hn, by simp, by intro a ha b hb; simp at hb; subst hb; intro h; exact hnot (h ▸ ha)⟩)
      simpa [List.append_assoc] using this

/-- `nut11.DuplicateSignatures` answers true exactly when a signature string occurs twice in the witness -/
theorem nut11_DuplicateSignatures_iff (sigs : List String) :
    nut11_DuplicateSignatures sigs = true ↔ ¬ sigs.Nodup := by
  unfold nut11_DuplicateSignatures rangeLoop
  dsimp only
  have h := dupStrLoop_spec sigs 0 [] [] (by intro k; simp [mapGet]) List.nodup_nil
  simp only [List.nil_append] at h
  by_cases hn : sigs.Nodup
  · obtain ⟨m', hm⟩ := h.2 hn
    simp [hm, hn]
  · obtain ⟨m', hm⟩ := h.1 hn
    simp [hm, hn]

/-! ## the state enumerations of NUT-04 / NUT-05 / NUT-07 and the NUT-10 kinds (C15, C20): `String` and
    `StringToState` are inverse on the listed states, and every other string is the Unknown state -/

theorem nut07_state_roundtrip (s : Int) (h : s = 0 ∨ s = 1 ∨ s = 2) :
    nut07_StringToState (nut07_State_String s) = s := by rcases h with rfl | rfl | rfl <;> decide

theorem nut07_string_roundtrip (str : String) :
    (str ∈ ["UNSPENT", "PENDING", "SPENT"] → nut07_State_String (nut07_StringToState str) = str) ∧
    (str ∉ ["UNSPENT", "PENDING", "SPENT"] → nut07_StringToState str = 3) := by
  unfold nut07_StringToState
  constructor
  · intro h
    simp only [List.mem_cons, List.not_mem_nil, or_false] at h
    rcases h with rfl | rfl | rfl <;> decide
  · intro h
    simp only [List.mem_cons, List.not_mem_nil, or_false, not_or] at h
    simp [h.1, h.2.1, h.2.2]

theorem nut04_state_roundtrip (s : Int) (h : s = 0 ∨ s = 1 ∨ s = 2 ∨ s = 3) :
    nut04_StringToState (nut04_State_String s) = s := by rcases h with rfl | rfl | rfl | rfl <;> decide

theorem nut04_string_roundtrip (str : String) :
    (str ∈ ["UNPAID", "PAID", "ISSUED", "PENDING"] → nut04_State_String (nut04_StringToState str) = str) ∧
    (str ∉ ["UNPAID", "PAID", "ISSUED", "PENDING"] → nut04_StringToState str = 4) := by
  unfold nut04_StringToState
  constructor
  · intro h
    simp only [List.mem_cons, List.not_mem_nil, or_false] at h
    rcases h with rfl | rfl | rfl | rfl <;> decide
  · intro h
    simp only [List.mem_cons, List.not_mem_nil, or_false, not_or] at h
    simp [h.1, h.2.1, h.2.2.1, h.2.2.2]

theorem nut05_state_roundtrip (s : Int) (h : s = 0 ∨ s = 1 ∨ s = 2) :
    nut05_StringToState (nut05_State_String s) = s := by rcases h with rfl | rfl | rfl <;> decide

theorem nut05_string_roundtrip (str : String) :
    (str ∈ ["UNPAID", "PENDING", "PAID"] → nut05_State_String (nut05_StringToState str) = str) ∧
    (str ∉ ["UNPAID", "PENDING", "PAID"] → nut05_StringToState str = 3) := by
  unfold nut05_StringToState
  constructor
  · intro h
    simp only [List.mem_cons, List.not_mem_nil, or_false] at h
    rcases h with rfl | rfl | rfl <;> decide
  · intro h
    simp only [List.mem_cons, List.not_mem_nil, or_false, not_or] at h
    simp [h.1, h.2.1, h.2.2]

/-- the spellings the extracted switch tables list (Gen/Facts) are the ones the translated functions answer -/
theorem nut10_kind_strings : nut10_SecretKind_String 1 = "P2PK" ∧ nut10_SecretKind_String 2 = "HTLC" ∧
    ∀ k : Int, k ≠ 1 → k ≠ 2 → nut10_SecretKind_String k = "anyonecanspend" := by
  refine ⟨by decide, by decide, ?_⟩
  intro k h1 h2
  unfold nut10_SecretKind_String
  simp [h1, h2]

section ParseTags
open Gonuts.Model.Spend
set_option linter.unusedSimpArgs false

/-! ## cashu/nuts/nut11: ParseP2PKTags (C12, C13) -/

/-- `strconv.ParseInt(s, 10, bits)` as the model has it (`Spend.parseInt`) -/
def extPI : String → Int → Int → Int × Option String :=
  fun s _ bits => match parseInt s bits.toNat with
    | some n => (n, none)
    | none => (0, some "strconv.ParseInt")

/-- `nut11.ParsePublicKey` as the model's environment has it; its error is the built "invalid public key" error -/
def extPK (env : Env) : String → PublicKey × Option String :=
  fun s => match env.parseKey s with
    | some k => (k, none)
    | none => (0, some "invalid public key: %v")

/-- the error values of `ParseP2PKTags` (identified by name / by the format of the message they are built from) -/
def errOf (e : String) : Err :=
  if e = "TooManyTagsErr" then .tooManyTags
  else if e = "InvalidTagErr" then .invalidTag
  else if e = "NSigsMustBePositiveErr" then .nSigsMustBePositive
  else if e = "invalig sigflag: %v" then .badSigflag
  else if e = "invalig n_sigs value: %v" then .badNSigs
  else if e = "invalid locktime: %v" then .badLocktime
  else if e = "InvalidWitness" then .invalidWitness
  else if e = "NotEnoughSignaturesErr" then .notEnoughSignatures
  else if e = "EmptyPubkeysErr" then .emptyPubkeys
  else if e = "DuplicateSignaturesErr" then .duplicateSignatures
  else if e = "InvalidPreimageErr" then .invalidPreimage
  else if e = "InvalidHashErr" then .invalidHash
  else if e = "NoSignaturesErr" then .noSignatures
  else .badPublicKey

def tagsOf (t : P2PKTags) : Tags :=
  { sigflag := t.Sigflag, nSigs := t.NSigs.toNat, pubkeys := t.Pubkeys, locktime := t.Locktime, refund := t.Refund }

/-- `(*P2PKTags, error)` read as the model's result type -/
def absRes : Option P2PKTags × Option String → Res Tags
  | (_, some e) => .err (errOf e)
  | (some t, none) => .ok (tagsOf t)
  | (none, none) => .err .invalidTag

theorem set_append_replicate' {α : Type} (pre : List α) (d v : α) (n k : Nat) (hk : pre.length = k) :
    (pre ++ List.replicate (n + 1) d).set k v = (pre ++ [v]) ++ List.replicate n d := by
  subst hk
  induction pre with
  | nil => simp [List.replicate_succ]
  | cons a pre ih => simp [ih]

/-- the `for i := 1; i < len(tag); i++ { pubkey, err := ParsePublicKey(tag[i]); … keys[j] = pubkey; j++ }` loops
    are the model's `parseKeys` over the tag's values -/
theorem keyLoopAux (env : Env) (tag : List String) {ρ : Type} (body : Int → List PublicKey × Int → Ctl ρ × (List PublicKey × Int))
    (mkRet : Option String → ρ)
    (hb : ∀ i ks j, body i (ks, j) =
      if (!(Option.isNone (extPK env (idx tag i)).2)) = true then (.ret (mkRet (extPK env (idx tag i)).2), (ks, j))
      else (.next, (ks.set j.toNat (extPK env (idx tag i)).1, j + 1))) :
    ∀ (n k : Nat) (pre : List PublicKey), pre.length = k → k + n + 1 = tag.length →
      (∀ ks, parseKeys env (tag.drop (1 + k)) = .ok ks →
        rangeLoopFrom (fun m (_ : Unit) st => body (1 + Int.ofNat m) st) k (List.replicate n ())
          (pre ++ List.replicate n default, Int.ofNat k) = (.next, (pre ++ ks, Int.ofNat (k + n)))) ∧
      (∀ e, parseKeys env (tag.drop (1 + k)) = .err e → e = .badPublicKey ∧
        ∃ st, rangeLoopFrom (fun m (_ : Unit) st => body (1 + Int.ofNat m) st) k (List.replicate n ())
          (pre ++ List.replicate n default, Int.ofNat k) = (.ret (mkRet (some "invalid public key: %v")), st)) := by
  intro n
  induction n with
  | zero =>
    intro k pre hk hlen
    have hd : tag.drop (1 + k) = [] := List.drop_eq_nil_of_le (by omega)
    simp [hd, parseKeys, rangeLoopFrom]
  | succ n ih =>
    intro k pre hk hlen
    have hlt : 1 + k < tag.length := by omega
    have hd : tag.drop (1 + k) = tag[1 + k] :: tag.drop (1 + k + 1) := List.drop_eq_getElem_cons hlt
    have hidx : idx tag (1 + Int.ofNat k) = tag[1 + k] := by
      unfold idx
      have : (1 + Int.ofNat k).toNat = 1 + k := by simp; omega
      rw [this]; simp [List.getD, hlt]
    have hset : ∀ key : PublicKey, (pre ++ List.replicate (n + 1) default).set (Int.ofNat k).toNat key =
        (pre ++ [key]) ++ List.replicate n default := by
      intro key
      have : (Int.ofNat k).toNat = k := by simp
      rw [this]; exact set_append_replicate' pre default key n k hk
    have hbody := hb (1 + Int.ofNat k) (pre ++ List.replicate (n + 1) default) (Int.ofNat k)
    rw [hidx] at hbody
    rw [hd]
    simp only [parseKeys]
    cases hp : env.parseKey tag[1 + k] with
    | none =>
      have hx : extPK env tag[1 + k] = (0, some "invalid public key: %v") := by unfold extPK; rw [hp]
      rw [hx] at hbody
      simp only [Option.isNone_some, Bool.not_false, if_true] at hbody
      rw [List.replicate_succ (a := ()), rangeLoopFrom_cons_ret hbody]
      simp
    | some key =>
      have hx : extPK env tag[1 + k] = (key, none) := by unfold extPK; rw [hp]
      rw [hx] at hbody
      simp only [Option.isNone_none, Bool.not_true, Bool.false_eq_true, if_false] at hbody
      have ih' := ih (k + 1) (pre ++ [key]) (by simp [hk]) (by omega)
      have e1 : 1 + (k + 1) = 1 + k + 1 := by omega
      rw [e1] at ih'
      have e2 : (Int.ofNat k + 1) = Int.ofNat (k + 1) := by simp
      rw [hset key, e2] at hbody
      rw [List.replicate_succ (a := ()), rangeLoopFrom_cons_next hbody]
      constructor
      · intro ks hks
        cases hr : parseKeys env (tag.drop (1 + k + 1)) with
        | err e => simp [hr] at hks
        | ok ks' =>
          simp only [hr, Res.ok.injEq] at hks
          subst hks
          rw [ih'.1 ks' hr]
          simp [Nat.add_assoc, Nat.add_comm 1 n]
      · intro e he
        cases hr : parseKeys env (tag.drop (1 + k + 1)) with
        | ok ks' => simp [hr] at he
        | err e' =>
          simp only [hr, Res.err.injEq] at he
          subst he
          obtain ⟨h1, st, h2⟩ := ih'.2 e' hr
          exact ⟨h1, st, h2⟩

theorem keyLoop (env : Env) (ty v : String) (more : List String) :
    (∀ ks, parseKeys env (v :: more) = .ok ks → ∃ j,
      countLoop (ρ := Option P2PKTags × Option String) 1 (Int.ofNat (ty :: v :: more).length)
        (List.replicate (Int.ofNat (ty :: v :: more).length - 1).toNat (default : PublicKey), (0 : Int)) (fun i st =>
          if (!(extPK env (idx (ty :: v :: more) i)).snd.isNone) = true then
            (Ctl.ret (none, (extPK env (idx (ty :: v :: more) i)).snd), st.fst, st.snd)
          else (Ctl.next, st.fst.set st.snd.toNat (extPK env (idx (ty :: v :: more) i)).fst, st.snd + 1)) = (.next, (ks, j))) ∧
    (∀ e, parseKeys env (v :: more) = .err e → e = .badPublicKey ∧ ∃ st,
      countLoop (ρ := Option P2PKTags × Option String) 1 (Int.ofNat (ty :: v :: more).length)
        (List.replicate (Int.ofNat (ty :: v :: more).length - 1).toNat (default : PublicKey), (0 : Int)) (fun i st =>
          if (!(extPK env (idx (ty :: v :: more) i)).snd.isNone) = true then
            (Ctl.ret (none, (extPK env (idx (ty :: v :: more) i)).snd), st.fst, st.snd)
          else (Ctl.next, st.fst.set st.snd.toNat (extPK env (idx (ty :: v :: more) i)).fst, st.snd + 1)) =
        (.ret (none, some "invalid public key: %v"), st)) := by
  have h := keyLoopAux env (ty :: v :: more) (ρ := Option P2PKTags × Option String) (fun i st =>
      if (!(extPK env (idx (ty :: v :: more) i)).snd.isNone) = true then
        (Ctl.ret (none, (extPK env (idx (ty :: v :: more) i)).snd), st.fst, st.snd)
      else (Ctl.next, st.fst.set st.snd.toNat (extPK env (idx (ty :: v :: more) i)).fst, st.snd + 1))
    (fun e => (none, e)) (fun i ks j => rfl) (more.length + 1) 0 [] rfl (by simp)
  have e1 : (Int.ofNat (ty :: v :: more).length - 1).toNat = more.length + 1 := by simp
  have e2 : (Int.ofNat (ty :: v :: more).length - 1 : Int).toNat = more.length + 1 := e1
  unfold countLoop
  rw [e1]
  simp only [List.drop_succ_cons, List.drop_zero, Nat.add_zero, List.nil_append] at h
  constructor
  · intro ks hks
    exact ⟨_, h.1 ks hks⟩
  · intro e he
    exact h.2 e he

/-- what the loop over the tags has produced so far, read as the model's result -/
def fin : Ctl (Option P2PKTags × Option String) × P2PKTags → Res Tags
  | (.ret r, _) => absRes r
  | (.next, t) => .ok (tagsOf t)
  | (.brk, t) => .ok (tagsOf t)

theorem ParseP2PKTags_eq (env : Env) (tags : List (List String)) :
    absRes (nut11_ParseP2PKTags extPI (extPK env) tags) = parseTags env tags := by
  unfold nut11_ParseP2PKTags parseTags rangeLoop
  by_cases hlen : tags.length > 5
  · have : (Int.ofNat tags.length > 5) := by simp; omega
    simp only [this, decide_true, if_true, hlen]
    rfl
  · have : ¬ (Int.ofNat tags.length > 5) := by simp; omega
    simp only [this, decide_false, Bool.false_eq_true, if_false, hlen]
    generalize hL : rangeLoopFrom _ 0 tags (default : P2PKTags) = L
    have h : fin L = parseTagsLoop env tags (tagsOf default) := by
      rw [← hL]
      refine rangeLoopFrom_spec _
        (fun (xs : List (List String)) (t : P2PKTags) (res : Ctl (Option P2PKTags × Option String) × P2PKTags) =>
          fin res = parseTagsLoop env xs (tagsOf t)) ?_ ?_ 0 tags default
      · intro s; rfl
      · intro i x xs s
        match x with
        | [] => simp [fin, absRes, errOf, parseTagsLoop]
        | [a] => simp [fin, absRes, errOf, parseTagsLoop]
        | ty :: v :: more =>
          have hl : ¬ (Int.ofNat (ty :: v :: more).length < 2) := by simp; omega
          simp only [hl, decide_false, Bool.false_eq_true, if_false]
          have i0 : idx (ty :: v :: more) 0 = ty := rfl
          have i1 : idx (ty :: v :: more) 1 = v := rfl
          simp only [i0, i1]
          have hsp : ∀ f : String, sprintf f = f := fun _ => rfl
          simp only [hsp]
          by_cases h1 : ty = "sigflag"
          · subst h1
            by_cases hv : v = "SIG_INPUTS" ∨ v = "SIG_ALL"
            · have hb : (v == "SIG_INPUTS" || v == "SIG_ALL") = true := by
                rcases hv with rfl | rfl <;> decide
              simp only [beq_self_eq_true, if_true, hb]
              intro r hr
              rw [hr]
              simp only [parseTagsLoop, SIGFLAG, SIGINPUTS, SIGALL, if_true, hv]
              rfl
            · have hb : (v == "SIG_INPUTS" || v == "SIG_ALL") = false := by
                simp only [not_or] at hv
                simp [hv.1, hv.2]
              simp only [beq_self_eq_true, if_true, hb, Bool.false_eq_true, if_false]
              simp only [parseTagsLoop, SIGFLAG, SIGINPUTS, SIGALL, if_true, hv, if_false]
              rfl
          · have b1 : (ty == "sigflag") = false := by simpa using h1
            simp only [b1, Bool.false_eq_true, if_false]
            by_cases h2 : ty = "n_sigs"
            · subst h2
              simp only [beq_self_eq_true, if_true]
              simp only [parseTagsLoop, SIGFLAG, NSIGS, h1, if_false, if_true]
              unfold extPI
              cases hp : parseInt v (Int.toNat 8) with
              | none =>
                have hp' : parseInt v 8 = none := hp
                simp only [hp']
                simp [fin, absRes, errOf]
              | some n =>
                have hp' : parseInt v 8 = some n := hp
                simp only [hp', Option.isNone_none, Bool.not_true, Bool.false_eq_true, if_false]
                by_cases hn : n < 0
                · simp [hn, fin, absRes, errOf]
                · simp only [hn, decide_false, Bool.false_eq_true, if_false]
                  intro r hr
                  rw [hr]
                  rfl
            · have b2 : (ty == "n_sigs") = false := by simpa using h2
              simp only [b2, Bool.false_eq_true, if_false]
              by_cases h3 : ty = "pubkeys"
              · subst h3
                simp only [beq_self_eq_true, if_true]
                simp only [parseTagsLoop, SIGFLAG, NSIGS, PUBKEYS, h1, h2, if_false, if_true]
                obtain ⟨hok, herr⟩ := keyLoop env "pubkeys" v more
                cases hp : parseKeys env (v :: more) with
                | ok ks =>
                  obtain ⟨j, e⟩ := hok ks hp
                  rw [e]
                  intro r hr
                  rw [hr]
                  rfl
                | err e =>
                  obtain ⟨he, st, e'⟩ := herr e hp
                  rw [e']
                  subst he
                  rfl
              · have b3 : (ty == "pubkeys") = false := by simpa using h3
                simp only [b3, Bool.false_eq_true, if_false]
                by_cases h4 : ty = "locktime"
                · subst h4
                  simp only [beq_self_eq_true, if_true]
                  simp only [parseTagsLoop, SIGFLAG, NSIGS, PUBKEYS, LOCKTIME, h1, h2, h3, if_false, if_true]
                  unfold extPI
                  cases hp : parseInt v (Int.toNat 64) with
                  | none =>
                    have hp' : parseInt v 64 = none := hp
                    simp only [hp']
                    simp [fin, absRes, errOf]
                  | some n =>
                    have hp' : parseInt v 64 = some n := hp
                    simp only [hp', Option.isNone_none, Bool.not_true, Bool.false_eq_true, if_false]
                    intro r hr
                    rw [hr]
                    rfl
                · have b4 : (ty == "locktime") = false := by simpa using h4
                  simp only [b4, Bool.false_eq_true, if_false]
                  by_cases h5 : ty = "refund"
                  · subst h5
                    simp only [beq_self_eq_true, if_true]
                    simp only [parseTagsLoop, SIGFLAG, NSIGS, PUBKEYS, LOCKTIME, REFUND, h1, h2, h3, h4, if_false, if_true]
                    obtain ⟨hok, herr⟩ := keyLoop env "refund" v more
                    cases hp : parseKeys env (v :: more) with
                    | ok ks =>
                      obtain ⟨j, e⟩ := hok ks hp
                      rw [e]
                      intro r hr
                      rw [hr]
                      rfl
                    | err e =>
                      obtain ⟨he, st, e'⟩ := herr e hp
                      rw [e']
                      subst he
                      rfl
                  · have b5 : (ty == "refund") = false := by simpa using h5
                    simp only [b5, Bool.false_eq_true, if_false]
                    simp only [parseTagsLoop, SIGFLAG, NSIGS, PUBKEYS, LOCKTIME, REFUND, h1, h2, h3, h4, h5, if_false]
                    intro r hr
                    exact hr
    have hd : tagsOf default = ({} : Tags) := rfl
    rw [hd] at h
    rw [← h]
    rcases L with ⟨c, t⟩
    cases c <;> rfl

/-- a loop step of `ParseP2PKTags` that returns, returns an error -/
def retOk : Ctl (Option P2PKTags × Option String) × P2PKTags → Prop
  | (.ret r, _) => r.2.isSome = true
  | _ => True

/-- `ParseP2PKTags` never returns `(nil, nil)`: without tags there is an error -/
theorem ParseP2PKTags_wf (env : Env) (tags : List (List String)) :
    (nut11_ParseP2PKTags extPI (extPK env) tags).1 = none → (nut11_ParseP2PKTags extPI (extPK env) tags).2.isSome = true := by
  unfold nut11_ParseP2PKTags rangeLoop
  by_cases hlen0 : tags.length > 5
  · have hlen : (Int.ofNat tags.length > 5) := by simp; omega
    simp only [hlen, decide_true, if_true]
    intro _; rfl
  · have hlen : ¬ (Int.ofNat tags.length > 5) := by simp; omega
    simp only [hlen, decide_false, Bool.false_eq_true, if_false]
    generalize hL : rangeLoopFrom _ 0 tags (default : P2PKTags) = L
    have h : retOk L := by
      rw [← hL]
      refine rangeLoopFrom_spec' _ (fun _ _ res => retOk res) ?_ ?_ ?_ ?_ 0 tags default
      · intro s; trivial
      · intro i x xs s s' _ r hr; exact hr
      · intro i x xs s s' _; trivial
      · intro i x xs s w s' hb
        show w.2.isSome = true
        match x with
        | [] => simp at hb; rw [← hb.1]; rfl
        | [a] => simp at hb; rw [← hb.1]; rfl
        | ty :: v :: more =>
          have hl : ¬ (Int.ofNat (ty :: v :: more).length < 2) := by simp; omega
          simp only [hl, decide_false, Bool.false_eq_true, if_false] at hb
          obtain ⟨hok, herr⟩ := keyLoop env ty v more
          have hkl : ∀ (P : Ctl (Option P2PKTags × Option String) × (List PublicKey × Int) → Prop),
              (∀ ks j, P (.next, (ks, j))) → (∀ st, P (.ret (none, some "invalid public key: %v"), st)) →
              P (countLoop (ρ := Option P2PKTags × Option String) 1 (Int.ofNat (ty :: v :: more).length)
                (List.replicate (Int.ofNat (ty :: v :: more).length - 1).toNat (default : PublicKey), (0 : Int)) (fun i st =>
                  if (!(extPK env (idx (ty :: v :: more) i)).snd.isNone) = true then
                    (Ctl.ret (none, (extPK env (idx (ty :: v :: more) i)).snd), st.fst, st.snd)
                  else (Ctl.next, st.fst.set st.snd.toNat (extPK env (idx (ty :: v :: more) i)).fst, st.snd + 1))) := by
            intro P h1 h2
            cases hp : parseKeys env (v :: more) with
            | ok ks => obtain ⟨j, e⟩ := hok ks hp; rw [e]; exact h1 _ _
            | err e => obtain ⟨_, st, e'⟩ := herr e hp; rw [e']; exact h2 _
          split at hb
          · split at hb
            · cases hb
            · cases hb; rfl
          · split at hb
            · split at hb
              · cases hb; rfl
              · split at hb
                · cases hb; rfl
                · cases hb
            · split at hb
              · revert hb
                refine hkl (fun L => (match L with
                    | (Ctl.ret r__, _) => (Ctl.ret r__, s)
                    | (_, pubkeys, _) => (Ctl.next, ({ s with Pubkeys := pubkeys } : P2PKTags))) = (Ctl.ret w, s') → w.2.isSome = true) ?_ ?_
                · intro ks j hb; cases hb
                · intro st hb; cases hb; rfl
              · split at hb
                · split at hb
                  · cases hb; rfl
                  · cases hb
                · split at hb
                  · revert hb
                    refine hkl (fun L => (match L with
                        | (Ctl.ret r__, _) => (Ctl.ret r__, s)
                        | (_, refundKeys, _) => (Ctl.next, ({ s with Refund := refundKeys } : P2PKTags))) = (Ctl.ret w, s') → w.2.isSome = true) ?_ ?_
                    · intro ks j hb; cases hb
                    · intro st hb; cases hb; rfl
                  · cases hb
    rcases L with ⟨c, t⟩
    cases c with
    | next => simp
    | brk => simp
    | ret r => intro _; exact h

/-! ## cashu/nuts/nut11: HasValidSignatures (C12, C13) -/

theorem copySlice_fresh {α : Type} [Inhabited α] (src : List α) :
    copySlice (List.replicate (Int.toNat (Int.ofNat src.length)) (default : α)) src = src := by
  unfold copySlice
  simp

theorem sliceDelete_one {α : Type} (l : List α) (i : Nat) :
    sliceDelete l (Int.toNat (Int.ofNat i)) (Int.toNat (Int.ofNat i + 1)) = l.eraseIdx i := by
  unfold sliceDelete
  have e1 : Int.toNat (Int.ofNat i) = i := by simp
  have e2 : Int.toNat (Int.ofNat i + 1) = i + 1 := by simp
  rw [e1, e2, List.eraseIdx_eq_take_drop_succ]

/-- the inner loop: the first key under which the signature verifies is counted and removed -/
theorem hvsInner (valid : Sig → Key → Msg → Bool) (m : Msg) (sg : Sig) (test : PublicKey → Bool)
    (body : Nat → PublicKey → Int × List PublicKey → Ctl Bool × (Int × List PublicKey))
    (hb : ∀ i k v all, body i k (v, all) =
      if test k = true then (.brk, (v + 1, sliceDelete all (Int.toNat (Int.ofNat i)) (Int.toNat (Int.ofNat i + 1))))
      else (.next, (v, all)))
    (ht : ∀ k, test k = valid sg k m) :
    ∀ (rest : List PublicKey) (i0 : Nat) (v : Int) (all : List PublicKey),
      rangeLoopFrom body i0 rest (v, all) =
        match findKey valid m sg rest with
        | none => (.next, (v, all))
        | some j => (.next, (v + 1, all.eraseIdx (i0 + j))) := by
  intro rest
  induction rest with
  | nil => intro i0 v all; simp [rangeLoopFrom, findKey]
  | cons k ks ih =>
    intro i0 v all
    by_cases hk : test k = true
    · have hbody := hb i0 k v all
      rw [if_pos hk, sliceDelete_one] at hbody
      rw [rangeLoopFrom_cons_brk hbody]
      have : valid sg k m = true := by rw [← ht]; exact hk
      simp [findKey, this]
    · have hbody := hb i0 k v all
      rw [if_neg hk] at hbody
      rw [rangeLoopFrom_cons_next hbody, ih]
      have : valid sg k m = false := by rw [← ht]; simpa using hk
      simp only [findKey, this, Bool.false_eq_true, if_false]
      cases findKey valid m sg ks with
      | none => rfl
      | some j => simp [Nat.add_assoc, Nat.add_comm 1 j]

/-- `nut11.HasValidSignatures` is the model's `hasValidSignatures`: `valid (enc s) k m` says that the signature string
    `s` parses and verifies for the hashed message under key `k` -/
theorem HasValidSignatures_eq (extP : String → Signature × Option String) (extV : Signature → List UInt8 → PublicKey → Bool)
    (hash : List UInt8) (sigs : List String) (n : Int) (keys : List PublicKey)
    (valid : Sig → Key → Msg → Bool) (m : Msg) (enc : String → Sig)
    (hv : ∀ s k, valid (enc s) k m = ((extP s).2.isNone && extV (extP s).1 hash k)) :
    nut11_HasValidSignatures extP extV hash sigs n keys = decide (Int.ofNat (hvsCount valid m (sigs.map enc) keys) ≥ n) := by
  unfold nut11_HasValidSignatures rangeLoop
  simp only [copySlice_fresh]
  generalize hL : rangeLoopFrom _ 0 sigs ((0 : Int), keys) = L
  have h : ∃ ks', L = (.next, ((0 : Int) + Int.ofNat (hvsCount valid m (sigs.map enc) keys), ks')) := by
    rw [← hL]
    refine rangeLoopFrom_spec _
      (fun (xs : List String) (st : Int × List PublicKey) (res : Ctl Bool × (Int × List PublicKey)) =>
        ∃ ks', res = (.next, (st.1 + Int.ofNat (hvsCount valid m (xs.map enc) st.2), ks')))
      ?_ ?_ 0 sigs ((0 : Int), keys)
    · rintro ⟨v, ks⟩; exact ⟨ks, by simp [hvsCount]⟩
    · rintro i x xs ⟨v, ks⟩
      rcases hp : extP x with ⟨sg, err⟩
      cases err with
      | some e =>
        -- the signature does not parse: skipped; in the model it verifies under no key
        have hnone : findKey valid m (enc x) ks = none := by
          have : ∀ k, valid (enc x) k m = false := by intro k; rw [hv, hp]; rfl
          induction ks with
          | nil => rfl
          | cons k ks ih => simp [findKey, this k, ih]
        simp only [Option.isNone_some, Bool.not_false, if_true]
        rintro r ⟨ks', e'⟩
        exact ⟨ks', by simp [e', hvsCount, hnone]⟩
      | none =>
        simp only [Option.isNone_none, Bool.not_true, Bool.false_eq_true, if_false]
        have hin := hvsInner valid m (enc x) (fun k => extV sg hash k)
          (fun i_n pubkey st => if extV sg hash pubkey = true then
              (Ctl.brk, st.fst + 1, sliceDelete st.snd (Int.toNat (Int.ofNat i_n)) (Int.toNat (Int.ofNat i_n + 1)))
            else (Ctl.next, st.fst, st.snd))
          (fun i k v all => rfl) (fun k => by rw [hv, hp]; rfl) ks 0 v ks
        rw [hin]
        cases hf : findKey valid m (enc x) ks with
        | none =>
          simp only
          rintro r ⟨ks', e'⟩
          exact ⟨ks', by simp [e', hvsCount, hf]⟩
        | some j =>
          simp only [Nat.zero_add]
          rintro r ⟨ks', e'⟩
          refine ⟨ks', ?_⟩
          rw [e']
          simp only [List.map_cons, hvsCount, hf, removeMatchedKey, if_true]
          congr 2
          simp only [Int.ofNat_eq_natCast]
          omega
  obtain ⟨ks', e⟩ := h
  simp [e]

/-! ## cashu/nuts/nut11: VerifyP2PKLockedProof (C12) -/

/-- an `error` result read as the model's outcome -/
def absErr : Option String → Outcome
  | none => .ok ()
  | some e => .err (errOf e)

theorem dupSigs_model : ∀ (l : List Sig), duplicateSignatures l = false ↔ l.Nodup
  | [] => by simp [duplicateSignatures]
  | s :: rest => by
    simp only [duplicateSignatures, Bool.or_eq_false_iff, List.nodup_cons, dupSigs_model rest]
    simp

theorem nodup_map_inj_iff (enc : String → Sig) (henc : Function.Injective enc) (sigs : List String) :
    (sigs.map enc).Nodup ↔ sigs.Nodup := by
  induction sigs with
  | nil => simp
  | cons a l ih =>
    simp only [List.map_cons, List.nodup_cons, List.mem_map]
    rw [ih]
    constructor
    · rintro ⟨h1, h2⟩; exact ⟨fun hm => h1 ⟨a, hm, rfl⟩, h2⟩
    · rintro ⟨h1, h2⟩; exact ⟨fun ⟨b, hb, e⟩ => h1 (henc e ▸ hb), h2⟩

theorem dupSigs_enc (enc : String → Sig) (henc : Function.Injective enc) (sigs : List String) :
    nut11_DuplicateSignatures sigs = duplicateSignatures (sigs.map enc) := by
  have h1 := nut11_DuplicateSignatures_iff sigs
  have h2 := dupSigs_model (sigs.map enc)
  have h3 := nodup_map_inj_iff enc henc sigs
  cases ha : nut11_DuplicateSignatures sigs <;> cases hb : duplicateSignatures (sigs.map enc) <;> simp_all

theorem ofNat_beq_zero (n : Nat) : (Int.ofNat n == 0) = decide (n = 0) := by
  cases n with
  | zero => rfl
  | succ n =>
    have : ¬ ((n : Int) + 1 = 0) := by omega
    simp [this]

theorem hvs_cast (c : Nat) (n : Int) (hn : 0 < n) : decide (Int.ofNat c ≥ n) = decide (c ≥ n.toNat) := by
  have : (Int.ofNat c ≥ n) ↔ (c ≥ n.toNat) := by
    constructor <;> intro h <;> simp only [Int.ofNat_eq_natCast, ge_iff_le] at * <;> omega
  simp only [this]

/-- the regenerated `nut11.VerifyP2PKLockedProof` IS the model's `verifyP2PK`: `enc` names the signature strings, the
    model's `valid (enc s) key msg` says "s parses and verifies for sha256(secret) under key", the witness is whatever
    `json.Unmarshal` leaves (error ignored, as in the code), the clock is the environment's -/
theorem VerifyP2PKLockedProof_eq (env : Env) (extU : String → P2PKWitness → P2PKWitness) (sh : String → List UInt8)
    (extP : String → Signature × Option String) (extV : Signature → List UInt8 → PublicKey → Bool)
    (enc : String → Sig) (henc : Function.Injective enc) (proof : Gen.Code.Proof) (secret : WellKnownSecret)
    (mp : Spend.Proof) (k : Kind)
    (hsig : mp.witness.signatures = (extU proof.Witness default).Signatures.map enc)
    (hv : ∀ s key, env.valid (enc s) key mp.msg = ((extP s).2.isNone && extV (extP s).1 (sh proof.Secret) key)) :
    absErr (nut11_VerifyP2PKLockedProof extU extPI (extPK env) env.now sh extP extV proof secret) =
      verifyP2PK env mp { kind := k, data := secret.Data.Data, tags := secret.Data.Tags } := by
  unfold nut11_VerifyP2PKLockedProof verifyP2PK
  have hpe := ParseP2PKTags_eq env secret.Data.Tags
  have hwf := ParseP2PKTags_wf env secret.Data.Tags
  rcases hr : nut11_ParseP2PKTags extPI (extPK env) secret.Data.Tags with ⟨ot, oe⟩
  rw [hr] at hpe hwf
  cases oe with
  | some e =>
    simp only [absRes] at hpe
    simp only [← hpe, Option.isNone_some, Bool.not_false, if_true]
    rfl
  | none =>
    cases ot with
    | none => simp at hwf
    | some t =>
      simp only [absRes] at hpe
      simp only [← hpe, Option.isNone_none, Bool.not_true, Bool.false_eq_true, if_false, Option.getD_some]
      generalize hS : (extU proof.Witness default).Signatures = sigs at *
      rw [hsig]
      have hHV : ∀ (n : Int) keys, 0 < n → nut11_HasValidSignatures extP extV (sh proof.Secret) sigs n keys =
          hasValidSignatures env.valid mp.msg (sigs.map enc) n.toNat keys := by
        intro n keys hn
        rw [HasValidSignatures_eq extP extV _ sigs n keys env.valid mp.msg enc hv, hvs_cast _ _ hn]; rfl
      have hdup := dupSigs_enc enc henc sigs
      have hlen : decide (Int.ofNat sigs.length < 1) = decide ((sigs.map enc).length < 1) := by
        simp only [List.length_map, Int.ofNat_eq_natCast]
        congr 1; apply propext; omega
      simp only [hHV 1 _ (by decide), hdup, hlen, ofNat_beq_zero]
      unfold expired tagsOf
      simp only
      by_cases hexp : (decide (t.Locktime > 0) && decide (env.now > t.Locktime)) = true
      · simp only [hexp, if_true]
        split <;> split <;> (try split) <;> (try split) <;> simp_all [absErr, errOf]
      · simp only [hexp, if_false, Bool.false_eq_true]
        cases hk : env.parseKey secret.Data.Data with
        | none => simp [extPK, hk, absErr, errOf]
        | some key =>
          have hx : extPK env secret.Data.Data = (key, none) := by unfold extPK; rw [hk]
          simp only [hx, Option.isNone_none, Bool.not_true, Bool.false_eq_true, if_false]
          by_cases hN : t.NSigs > 0
          · have hN' : t.NSigs.toNat > 0 := by omega
            simp only [hHV t.NSigs _ hN]
            simp only [hN, hN', decide_true, if_true, true_and, List.singleton_append]
            split <;> split <;> (try split) <;> (try split) <;> (try split) <;> simp_all [absErr, errOf]
          · have hN' : ¬ t.NSigs.toNat > 0 := by omega
            simp only [hN, hN', decide_false, Bool.false_eq_true, if_false, false_and]
            split <;> split <;> (try split) <;> (try split) <;> (try split) <;> simp_all [absErr, errOf]

/-! ## cashu/nuts/nut14: VerifyHTLCProof (C13) -/

/-- `hex.DecodeString` as the model has it (`Spend.hexDecode`) -/
def extHexD : String → List UInt8 × Option String :=
  fun s => match hexDecode s with
    | some b => (b, none)
    | none => ([], some "encoding/hex")

/-- the regenerated `nut14.VerifyHTLCProof` IS the model's `verifyHTLC` -/
theorem VerifyHTLCProof_eq (env : Env) (extU : String → HTLCWitness → HTLCWitness) (sh : String → List UInt8)
    (extP : String → Signature × Option String) (extV : Signature → List UInt8 → PublicKey → Bool)
    (shaB : List UInt8 → List UInt8) (hexE : List UInt8 → String)
    (enc : String → Sig) (henc : Function.Injective enc) (proof : Gen.Code.Proof) (secret : WellKnownSecret)
    (mp : Spend.Proof) (k : Kind)
    (hsig : mp.witness.signatures = (extU proof.Witness default).Signatures.map enc)
    (hpre : mp.witness.preimage = (extU proof.Witness default).Preimage)
    (hsha : ∀ b, hexE (shaB b) = env.sha256hex b)
    (hv : ∀ s key, env.valid (enc s) key mp.msg = ((extP s).2.isNone && extV (extP s).1 (sh proof.Secret) key)) :
    absErr (nut14_VerifyHTLCProof extU extPI (extPK env) env.now sh extP extV extHexD shaB hexE proof secret) =
      verifyHTLC env mp { kind := k, data := secret.Data.Data, tags := secret.Data.Tags } := by
  unfold nut14_VerifyHTLCProof verifyHTLC
  have hpe := ParseP2PKTags_eq env secret.Data.Tags
  have hwf := ParseP2PKTags_wf env secret.Data.Tags
  rcases hr : nut11_ParseP2PKTags extPI (extPK env) secret.Data.Tags with ⟨ot, oe⟩
  rw [hr] at hpe hwf
  cases oe with
  | some e =>
    simp only [absRes] at hpe
    simp only [← hpe, Option.isNone_some, Bool.not_false, if_true]
    rfl
  | none =>
    cases ot with
    | none => simp at hwf
    | some t =>
      simp only [absRes] at hpe
      simp only [← hpe, Option.isNone_none, Bool.not_true, Bool.false_eq_true, if_false, Option.getD_some]
      generalize hS : (extU proof.Witness default).Signatures = sigs at *
      rw [hsig, hpre]
      have hHV : ∀ (n : Int) keys, 0 < n → nut11_HasValidSignatures extP extV (sh proof.Secret) sigs n keys =
          hasValidSignatures env.valid mp.msg (sigs.map enc) n.toNat keys := by
        intro n keys hn
        rw [HasValidSignatures_eq extP extV _ sigs n keys env.valid mp.msg enc hv, hvs_cast _ _ hn]; rfl
      have hdup := dupSigs_enc enc henc sigs
      have hlen : decide (Int.ofNat sigs.length < 1) = decide ((sigs.map enc).length < 1) := by
        simp only [List.length_map, Int.ofNat_eq_natCast]
        congr 1; apply propext; omega
      simp only [hHV 1 _ (by decide), hdup, hlen, ofNat_beq_zero]
      unfold expired tagsOf checkPreimage
      simp only
      by_cases hexp : (decide (t.Locktime > 0) && decide (env.now > t.Locktime)) = true
      · simp only [hexp, if_true]
        split <;> split <;> (try split) <;> (try split) <;> simp_all [absErr, errOf]
      · simp only [hexp, if_false, Bool.false_eq_true]
        unfold extHexD
        cases hd : hexDecode (extU proof.Witness default).Preimage with
        | none => simp [absErr, errOf]
        | some bytes =>
          simp only [Option.isNone_none, Bool.not_true, Bool.false_eq_true, if_false, hsha]
          have h64 : (Int.ofNat secret.Data.Data.utf8ByteSize != 64) = decide (secret.Data.Data.utf8ByteSize ≠ 64) := by
            by_cases h : secret.Data.Data.utf8ByteSize = 64
            · simp [h]
            · have : ¬ ((secret.Data.Data.utf8ByteSize : Int) = 64) := by omega
              simp [h, this]
          simp only [h64]
          by_cases hN : t.NSigs > 0
          · have hN' : t.NSigs.toNat > 0 := by omega
            simp only [hHV t.NSigs _ hN]
            simp only [hN, hN', decide_true, if_true]
            split <;> split <;> (try split) <;> (try split) <;> (try split) <;> simp_all [absErr, errOf]
          · have hN' : ¬ t.NSigs.toNat > 0 := by omega
            simp only [hN, hN', decide_false, Bool.false_eq_true, if_false]
            split <;> split <;> (try split) <;> (try split) <;> simp_all [absErr, errOf]

/-! ## cashu/nuts/nut11: PublicKeys (the keys that may sign the outputs of a SIG_ALL swap; C12, C13) -/

/-- `([]*btcec.PublicKey, error)` read as the model's result -/
def absKeys : List PublicKey × Option String → Res (List Key)
  | (_, some e) => .err (errOf e)
  | (ks, none) => .ok ks

/-- the regenerated `nut11.PublicKeys` is the model's `publicKeys`: the `pubkeys` tag, followed by the key of `data`
    for a P2PK secret (kind 1) and by nothing else — in particular never by the refund keys -/
theorem PublicKeys_eq (env : Env) (secret : WellKnownSecret) (k : Kind) (hk : (k = .p2pk) ↔ secret.Kind = 1) :
    absKeys (nut11_PublicKeys extPI (extPK env) secret) =
      publicKeys env { kind := k, data := secret.Data.Data, tags := secret.Data.Tags } := by
  unfold nut11_PublicKeys publicKeys
  have hpe := ParseP2PKTags_eq env secret.Data.Tags
  have hwf := ParseP2PKTags_wf env secret.Data.Tags
  rcases hr : nut11_ParseP2PKTags extPI (extPK env) secret.Data.Tags with ⟨ot, oe⟩
  rw [hr] at hpe hwf
  cases oe with
  | some e =>
    simp only [absRes] at hpe
    simp only [← hpe, Option.isNone_some, Bool.not_false, if_true]
    rfl
  | none =>
    cases ot with
    | none => simp at hwf
    | some t =>
      simp only [absRes] at hpe
      simp only [← hpe, Option.isNone_none, Bool.not_true, Bool.false_eq_true, if_false, Option.getD_some]
      by_cases h1 : secret.Kind = 1
      · have hk' : k = .p2pk := hk.mpr h1
        simp only [h1, hk', beq_self_eq_true, if_true]
        unfold extPK
        cases hp : env.parseKey secret.Data.Data with
        | none => simp [absKeys, errOf]
        | some key => simp [absKeys, tagsOf]
      · have hk' : ¬ (k = .p2pk) := fun h => h1 (hk.mp h)
        have hb : (secret.Kind == 1) = false := by simpa using h1
        simp [hb, hk', absKeys, tagsOf]

/-! ## cashu/nuts/nut11: ProofsSigAll (which swaps need signed outputs; the repaired F7) -/

/-- a proof as `ProofsSigAll` sees it: the NUT-10 reading of its secret, if it has one -/
def sigAllView (extDS : String → WellKnownSecret × Option String) (k : Kind) (p : Gen.Code.Proof) : Spend.Proof :=
  { secret := match extDS p.Secret with
      | (_, some _) => none
      | (s, none) => some { kind := k, data := s.Data.Data, tags := s.Data.Tags },
    msg := 0, witness := default }

/-- the regenerated `nut11.ProofsSigAll` is the model's `proofsSigAll`: a secret that is not NUT-10 is SKIPPED (F7: it
    used to end the search), a SIG_ALL secret at any position answers true -/
theorem ProofsSigAll_eq (extDS : String → WellKnownSecret × Option String) (k : Kind) (proofs : List Gen.Code.Proof) :
    nut11_ProofsSigAll extDS proofs = proofsSigAll (proofs.map (sigAllView extDS k)) := by
  unfold nut11_ProofsSigAll rangeLoop
  generalize hL : rangeLoopFrom _ 0 proofs () = L
  have h : L = if proofsSigAll (proofs.map (sigAllView extDS k)) then (.ret true, ()) else (.next, ()) := by
    rw [← hL]
    refine rangeLoopFrom_spec' _
      (fun (xs : List Gen.Code.Proof) (_ : Unit) (res : Ctl Bool × Unit) =>
        res = if proofsSigAll (xs.map (sigAllView extDS k)) then (.ret true, ()) else (.next, ())) ?_ ?_ ?_ ?_ 0 proofs ()
    · intro s; simp [proofsSigAll]
    · intro i x xs s s' hb r hr
      rw [hr]
      rcases hd : extDS x.Secret with ⟨sec, err⟩
      simp only [hd] at hb
      cases err with
      | some e => simp [proofsSigAll, sigAllView, hd, sigAllOnPlainSecret]
      | none =>
        simp only [Option.isNone_none, Bool.not_true, Bool.false_eq_true, if_false] at hb
        by_cases hs : nut11_IsSigAll sec = true
        · simp [hs] at hb
        · have hm := nut11_IsSigAll_eq sec k
          simp only [List.map_cons, proofsSigAll, sigAllView, hd]
          rw [← hm]
          simp [hs]
    · intro i x xs s s' hb
      rcases hd : extDS x.Secret with ⟨sec, err⟩
      simp only [hd] at hb
      cases err with
      | some e => simp at hb
      | none =>
        simp only [Option.isNone_none, Bool.not_true, Bool.false_eq_true, if_false] at hb
        by_cases hs : nut11_IsSigAll sec = true <;> simp [hs] at hb
    · intro i x xs s v s' hb
      rcases hd : extDS x.Secret with ⟨sec, err⟩
      simp only [hd] at hb
      cases err with
      | some e => simp at hb
      | none =>
        simp only [Option.isNone_none, Bool.not_true, Bool.false_eq_true, if_false] at hb
        by_cases hs : nut11_IsSigAll sec = true
        · simp only [hs, if_true] at hb
          have hm := nut11_IsSigAll_eq sec k
          simp only [List.map_cons, proofsSigAll, sigAllView, hd]
          rw [← hm, hs]
          cases hb; rfl
        · simp [hs] at hb
  rw [h]
  cases proofsSigAll (proofs.map (sigAllView extDS k)) <;> rfl

end ParseTags

/-! ## non-vacuity: the regenerated definitions compute (closed instances, evaluated by the kernel) -/
example : AmountSplit 64 13 = some [1, 4, 8] := by decide
example : OverflowAddUint64 18446744073709551615 1 = (18446744073709551615, true) := by decide
example : CheckDuplicateBlindedMessages
    [{ Amount := 1, B_ := "02aa", Id := "00", Witness := "" }, { Amount := 2, B_ := "02aa", Id := "00", Witness := "w" }] = true := by decide
example : inputsWithoutDLEQ [{ Amount := 4, Id := "00ab", Secret := "s", C := "02cc", Witness := "", DLEQ := some { E := "e", S := "s", R := "r" } }] =
    [{ Amount := 4, Id := "00ab", Secret := "s", C := "02cc", Witness := "", DLEQ := none }] := by decide
example : nut11_IsSigAll { Kind := 1, Data := { Nonce := "n", Data := "02aa", Tags := [["locktime", "5"], ["sigflag", "SIG_ALL"]] } } = true := by decide
example : nut11_DuplicateSignatures ["aa", "bb", "aa"] = true := by decide
example : (nut11_ParseP2PKTags (fun _ _ _ => (2, none)) (fun _ => (7, none))
    [["sigflag", "SIG_ALL"], ["n_sigs", "2"], ["pubkeys", "02aa", "02bb"], ["zzz"]]).2 = some "InvalidTagErr" := by decide
example : (nut11_ParseP2PKTags (fun _ _ _ => (2, none)) (fun _ => (7, none))
    [["sigflag", "SIG_ALL"], ["n_sigs", "2"], ["pubkeys", "02aa", "02bb"]]).1.map (fun t => (t.Sigflag, t.NSigs, t.Pubkeys)) =
    some ("SIG_ALL", 2, [7, 7]) := by decide
example : Gen.Code.feesForCount 3 { Id := "", MintURL := "", Unit := "sat", Active := true, Counter := 0, InputFeePpk := 100 } = 1 := by decide

end Gonuts.Tie.Code
