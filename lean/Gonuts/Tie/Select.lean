import Gonuts.Gen.Facts
import Gonuts.Model.Select
/-!
  Ties for `Model/Select.lean` (C18): the extracted facts about the wallet's pure selection / fee / split code equal,
  literally, the Go text and call sequences the model was written against.  If /repo changes one of these
  functions, `lake build` fails at the named theorem here (a broken obligation for C18) until the model is
  re-read against the new text.  All proofs are `rfl` on closed string data.
-/
namespace Gonuts.Tie.Select

/-! ## call skeletons -/
/-- loop with one `feesForProofs` per iteration (guarded by includeFees) and one after the loop -/
theorem wskel_selectProofsToSend : Gen.wskel_selectProofsToSend =
    ["for{", "if{", "feesForProofs", "}", "}", "if{", "feesForProofs", "}"] := rfl

/-- inactive block (whole list or inner `selectProofsToSend`, then `feesForProofs`), early return, else `selectProofsToSend` over the active proofs -/
theorem wskel_selectProofsForAmount : Gen.wskel_selectProofsForAmount =
    ["if{", "if{", "}else{", "selectProofsToSend", "}", "if{", "feesForProofs", "}", "}", "if{", "}else{", "selectProofsToSend", "}"] := rfl

/-- `AmountSplit`, guarded `feesForCount`, `selectProofsForAmount`, `AmountSplit` of the fee, outputs, `feesForProofs`, guarded `splitWalletTarget`, then the swap -/
theorem wskel_swapToSend : Gen.wskel_swapToSend =
    ["getActiveKeyset", "cashu.AmountSplit", "if{", "feesForCount", "}", "selectProofsForAmount", "cashu.AmountSplit", "if{", "counterForKeyset", "createBlindedMessages", "}else{", "blindedMessagesFromSpendingCondition", "counterForKeyset", "}", "feesForProofs", "if{", "splitWalletTarget", "createBlindedMessages", "}", "client.PostSwap", "for{", "db.DeleteProof", "}", "constructProofs", "db.SaveProofs", "db.IncrementKeysetCounter"] := rfl

/-- `selectProofsForAmount`, guarded `feesForProofs`, exact → delete and return, else `swapToSend` -/
theorem wskel_getProofsForAmount : Gen.wskel_getProofsForAmount =
    ["selectProofsForAmount", "if{", "feesForProofs", "}", "if{", "for{", "db.DeleteProof", "}", "}", "swapToSend"] := rfl

/-- Receive side: `feesForProofs`, `splitWalletTarget` -/
theorem wskel_createSwapRequest : Gen.wskel_createSwapRequest =
    ["counterForKeyset", "feesForProofs", "splitWalletTarget", "createBlindedMessages"] := rfl

/-- `Send` = `getProofsForAmount` then `AddPendingProofs` -/
theorem wskel_Send : Gen.wskel_Send =
    ["getProofsForAmount", "db.AddPendingProofs"] := rfl

/-! ## source text -/
/-- mirrored by `Model.Select.selectProofsToSend` (`initSt`, `loopStep`/`afterPick`, `selectLoop`, `finish`) -/
theorem src_selectProofsToSend : Gen.src_selectProofsToSend = [
  "func selectProofsToSend(",
  "proofs cashu.Proofs,",
  "amount uint64,",
  "mint *walletMint,",
  "includeFees bool,",
  ") (cashu.Proofs, error) {",
  "proofsSum := proofs.Amount()",
  "if proofsSum < amount {",
  "return nil, ErrInsufficientMintBalance",
  "}",
  "var selectedProofs cashu.Proofs",
  "sort.Slice(proofs, func(i, j int) bool { return proofs[i].Amount < proofs[j].Amount })",
  "var smallerProofs, biggerProofs cashu.Proofs",
  "for _, proof := range proofs {",
  "if proof.Amount <= amount {",
  "smallerProofs = append(smallerProofs, proof)",
  "} else {",
  "biggerProofs = append(biggerProofs, proof)",
  "}",
  "}",
  "remainingAmount := amount",
  "var selectedProofsSum uint64 = 0",
  "for remainingAmount > 0 {",
  "sort.Slice(smallerProofs, func(i, j int) bool { return smallerProofs[i].Amount > smallerProofs[j].Amount })",
  "var selectedProof cashu.Proof",
  "if len(smallerProofs) > 0 {",
  "selectedProof = smallerProofs[0]",
  "smallerProofs = smallerProofs[1:]",
  "} else if len(biggerProofs) > 0 {",
  "selectedProof = biggerProofs[0]",
  "biggerProofs = biggerProofs[1:]",
  "} else {",
  "break",
  "}",
  "selectedProofs = append(selectedProofs, selectedProof)",
  "selectedProofsSum += selectedProof.Amount",
  "var fees uint64 = 0",
  "if includeFees {",
  "fees = uint64(feesForProofs(selectedProofs, mint))",
  "}",
  "if selectedProof.Amount >= remainingAmount+fees {",
  "break",
  "}",
  "remainingAmount = amount + fees - selectedProofsSum",
  "var tempSmaller cashu.Proofs",
  "for _, small := range smallerProofs {",
  "if small.Amount <= remainingAmount {",
  "tempSmaller = append(tempSmaller, small)",
  "} else {",
  "biggerProofs = slices.Insert(biggerProofs, 0, small)",
  "}",
  "}",
  "smallerProofs = tempSmaller",
  "}",
  "var fees uint64 = 0",
  "if includeFees {",
  "fees = uint64(feesForProofs(selectedProofs, mint))",
  "}",
  "if selectedProofsSum < amount+fees {",
  "return nil, fmt.Errorf(",
  "\"insufficient funds for transaction. Amount needed %v + %v(fees) = %v\",",
  "amount, fees, amount+fees)",
  "}",
  "return selectedProofs, nil",
  "}"
] := rfl

/-- mirrored by `Model.Select.selectProofsForAmount` (`inactivePart`, `SelResult.proofsDroppingError` for `selectedProofs, _ =`) -/
theorem src_selectProofsForAmount : Gen.src_selectProofsForAmount = [
  "func (w *Wallet) selectProofsForAmount(",
  "amount uint64,",
  "mint *walletMint,",
  "includeFees bool,",
  ") (cashu.Proofs, error) {",
  "var selectedProofs cashu.Proofs",
  "var fees uint64 = 0",
  "inactiveKeysetProofs := w.getInactiveProofsByMint(mint.mintURL)",
  "if len(inactiveKeysetProofs) > 0 {",
  "if inactiveKeysetProofs.Amount() < amount {",
  "selectedProofs = inactiveKeysetProofs",
  "} else {",
  "selectedProofs, _ = selectProofsToSend(inactiveKeysetProofs, amount, mint, includeFees)",
  "}",
  "if includeFees {",
  "fees = uint64(feesForProofs(selectedProofs, mint))",
  "}",
  "}",
  "totalAmountNeeded := amount + fees",
  "selectedAmount := selectedProofs.Amount()",
  "if selectedAmount >= totalAmountNeeded {",
  "return selectedProofs, nil",
  "} else {",
  "remainingAmount := totalAmountNeeded - selectedAmount",
  "activeKeysetProofs := w.getActiveProofsByMint(mint.mintURL)",
  "proofsForRemainingAmount, err := selectProofsToSend(activeKeysetProofs, remainingAmount, mint, includeFees)",
  "if err != nil {",
  "return nil, err",
  "}",
  "selectedProofs = append(selectedProofs, proofsForRemainingAmount...)",
  "}",
  "return selectedProofs, nil",
  "}"
] := rfl

/-- mirrored by `Model.Select.getProofsForAmount` (the `== totalAmount` exactness test) -/
theorem src_getProofsForAmount : Gen.src_getProofsForAmount = [
  "func (w *Wallet) getProofsForAmount(",
  "amount uint64,",
  "mint *walletMint,",
  "includeFees bool,",
  ") (cashu.Proofs, error) {",
  "selectedProofs, err := w.selectProofsForAmount(amount, mint, includeFees)",
  "if err != nil {",
  "return nil, err",
  "}",
  "var fees uint64 = 0",
  "if includeFees {",
  "fees = uint64(feesForProofs(selectedProofs, mint))",
  "}",
  "totalAmount := amount + uint64(fees)",
  "if selectedProofs.Amount() == totalAmount {",
  "for _, proof := range selectedProofs {",
  "w.db.DeleteProof(proof.Secret)",
  "}",
  "return selectedProofs, nil",
  "}",
  "proofsToSend, err := w.swapToSend(amount, mint, nil, includeFees)",
  "if err != nil {",
  "return nil, err",
  "}",
  "return proofsToSend, nil",
  "}"
] := rfl

/-- mirrored by `Model.Select.splitWalletTarget` (`allPossibleAmounts`, `timesToAdd`, `neededAmounts`, `fillNeeded`) -/
theorem src_splitWalletTarget : Gen.src_splitWalletTarget = [
  "func (w *Wallet) splitWalletTarget(amountToSplit uint64, mint string) []uint64 {",
  "target := 3",
  "proofs := w.getProofsFromMint(mint)",
  "amountsInWallet := make([]uint64, len(proofs))",
  "for i, proof := range proofs {",
  "amountsInWallet[i] = proof.Amount",
  "}",
  "slices.Sort(amountsInWallet)",
  "allPosibleAmounts := make([]uint64, crypto.MAX_ORDER)",
  "for i := 0; i < crypto.MAX_ORDER; i++ {",
  "amount := uint64(math.Pow(2, float64(i)))",
  "allPosibleAmounts[i] = amount",
  "}",
  "var neededAmounts []uint64",
  "for _, amount := range allPosibleAmounts {",
  "count := cashu.Count(amountsInWallet, amount)",
  "timesToAdd := cashu.Max(0, uint64(target)-uint64(count))",
  "for i := 0; i < int(timesToAdd); i++ {",
  "neededAmounts = append(neededAmounts, amount)",
  "}",
  "}",
  "slices.Sort(neededAmounts)",
  "var amounts []uint64",
  "var amountsSum uint64 = 0",
  "for amountsSum < amountToSplit {",
  "if len(neededAmounts) > 0 {",
  "if amountsSum+neededAmounts[0] > amountToSplit {",
  "break",
  "}",
  "amounts = append(amounts, neededAmounts[0])",
  "amountsSum += neededAmounts[0]",
  "neededAmounts = slices.Delete(neededAmounts, 0, 1)",
  "} else {",
  "break",
  "}",
  "}",
  "remainingAmount := amountToSplit - amountsSum",
  "if remainingAmount > 0 {",
  "amounts = append(amounts, cashu.AmountSplit(remainingAmount)...)",
  "}",
  "slices.Sort(amounts)",
  "return amounts",
  "}"
] := rfl

/-- mirrored by `Model.Select.calculateBlankOutputs` (float evaluation, see `blankOutputsCertain`) -/
theorem src_calculateBlankOutputs : Gen.src_calculateBlankOutputs = [
  "func calculateBlankOutputs(feeReserve uint64) int {",
  "if feeReserve == 0 {",
  "return 0",
  "}",
  "return int(math.Max(math.Ceil(math.Log2(float64(feeReserve))), 1))",
  "}"
] := rfl

/-- mirrored by `Model.Select.feesForProofs` / `Mint.ppkOf` -/
theorem src_feesForProofs : Gen.src_feesForProofs = [
  "func feesForProofs(proofs cashu.Proofs, mint *walletMint) uint {",
  "var fees uint = 0",
  "for _, proof := range proofs {",
  "if mint.activeKeyset.Id == proof.Id {",
  "fees += mint.activeKeyset.InputFeePpk",
  "continue",
  "}",
  "if keyset, ok := mint.inactiveKeysets[proof.Id]; ok {",
  "fees += keyset.InputFeePpk",
  "}",
  "}",
  "return (fees + 999) / 1000",
  "}"
] := rfl

/-- mirrored by `Model.Select.feesForCount` -/
theorem src_feesForCount : Gen.src_feesForCount = [
  "func feesForCount(count int, keyset *crypto.WalletKeyset) uint {",
  "var fees uint = 0",
  "for i := 0; i < count; i++ {",
  "fees += keyset.InputFeePpk",
  "}",
  "return (fees + 999) / 1000",
  "}"
] := rfl

/-- mirrored by the wallet amounts passed to `splitWalletTarget`: inactive ++ active -/
theorem src_getProofsFromMint : Gen.src_getProofsFromMint = [
  "func (w *Wallet) getProofsFromMint(mintURL string) cashu.Proofs {",
  "proofs := w.getInactiveProofsByMint(mintURL)",
  "proofs = append(proofs, w.getActiveProofsByMint(mintURL)...)",
  "return proofs",
  "}"
] := rfl

/-- mirrored by `Model.amountSplit` -/
theorem src_AmountSplit : Gen.src_AmountSplit = [
  "func AmountSplit(amount uint64) []uint64 {",
  "rv := make([]uint64, 0)",
  "for pos := 0; amount > 0; pos++ {",
  "if amount&1 == 1 {",
  "rv = append(rv, 1<<pos)",
  "}",
  "amount >>= 1",
  "}",
  "return rv",
  "}"
] := rfl

/-- mirrored by `Model.countEq` -/
theorem src_Count : Gen.src_Count = [
  "func Count(amounts []uint64, amount uint64) uint {",
  "var count uint = 0",
  "for _, amt := range amounts {",
  "if amt == amount {",
  "count++",
  "}",
  "}",
  "return count",
  "}"
] := rfl

/-- mirrored by `cashu.Max(0, x)` in `Model.Select.timesToAdd` -/
theorem src_Max : Gen.src_Max = [
  "func Max(x, y uint64) uint64 {",
  "if x > y {",
  "return x",
  "}",
  "return y",
  "}"
] := rfl

/-- mirrored by `Model.Select.proofsAmount` = `amountWrap` -/
theorem src_ProofsAmount : Gen.src_ProofsAmount = [
  "func (proofs Proofs) Amount() uint64 {",
  "var totalAmount uint64 = 0",
  "for _, proof := range proofs {",
  "totalAmount += proof.Amount",
  "}",
  "return totalAmount",
  "}"
] := rfl

/-- mirrored by `Model.Select.transactionFees` -/
theorem src_TransactionFees : Gen.src_TransactionFees = [
  "func (m *Mint) TransactionFees(inputs cashu.Proofs) uint {",
  "var fees uint = 0",
  "for _, proof := range inputs {",
  "fees += m.keysets[proof.Id].InputFeePpk",
  "}",
  "return (fees + 999) / 1000",
  "}"
] := rfl

/-- mirrored by `Model.Select.feesToReceive`, `sendSplit`, `swapToSend` (amount', split, change with the unchecked subtraction) -/
theorem stmts_swapToSend_amounts : Gen.stmts_swapToSend_amounts = [
  "splitForSendAmount := cashu.AmountSplit(amount)",
  "call cashu.AmountSplit(amount)",
  "var feesToReceive uint = 0",
  "feesToReceive = feesForCount(len(splitForSendAmount)+1, activeSatKeyset)",
  "call feesForCount(len(splitForSendAmount)+1, activeSatKeyset)",
  "amount += uint64(feesToReceive)",
  "proofsToSwap, err := w.selectProofsForAmount(amount, mint, true)",
  "call w.selectProofsForAmount(amount, mint, true)",
  "split := append(splitForSendAmount, cashu.AmountSplit(uint64(feesToReceive))...)",
  "call cashu.AmountSplit(uint64(feesToReceive))",
  "call slices.Sort(split)",
  "call w.createBlindedMessages(split, activeSatKeyset.Id, &counter)",
  "call blindedMessagesFromSpendingCondition(split, activeSatKeyset.Id, *spendingCondition)",
  "proofsAmount := proofsToSwap.Amount()",
  "fees := feesForProofs(proofsToSwap, mint)",
  "call feesForProofs(proofsToSwap, mint)",
  "if proofsAmount-amount-uint64(fees) > 0",
  "changeAmount := proofsAmount - amount - uint64(fees)",
  "changeSplit := w.splitWalletTarget(changeAmount, mint.mintURL)",
  "call w.splitWalletTarget(changeAmount, mint.mintURL)",
  "call w.createBlindedMessages(changeSplit, activeSatKeyset.Id, &counter)"
] := rfl

/-- mirrored by the Receive-side use of the same helpers (`feesForProofs`, `splitWalletTarget`) -/
theorem stmts_createSwapRequest_amounts : Gen.stmts_createSwapRequest_amounts = [
  "fees := feesForProofs(proofs, mint)",
  "call feesForProofs(proofs, mint)",
  "split := w.splitWalletTarget(proofs.Amount()-uint64(fees), mint.mintURL)",
  "call w.splitWalletTarget(proofs.Amount()-uint64(fees), mint.mintURL)"
] := rfl

/-! ## constants the model uses -/

/-- `splitWalletTarget` considers `crypto.MAX_ORDER` powers of two. -/
theorem maxOrder_model : Model.Select.allPossibleAmounts.length = Gen.maxOrder := by decide

end Gonuts.Tie.Select
