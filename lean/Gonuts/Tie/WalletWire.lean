import Gonuts.Gen.Facts
import Gonuts.Model.WalletWire
/-!
  Ties for `Model/WalletWire.lean` (C08): the extracted facts about what the wallet puts on the wire equal, literally,
  what the model was written against.  If /repo changes a JSON tag of `Proof` / `DLEQProof` / `BlindedMessage` or of a
  request struct, the call sequence of a wallet operation path, or WHAT IS PUT INTO a request literal
  (e.g. `Inputs:proofsToSwap`), `lake build` fails at the named theorem here (a broken obligation for C08) until the
  model is re-read against the new code.  All proofs are `rfl` / `decide` / case analysis on closed data.
-/
namespace Gonuts.Tie.WalletWire
open Gonuts.Model.WalletWire

/-! ## JSON tags (cashu/cashu.go, cashu/nuts/nut0x) = the model's field tables -/

theorem fields_Proof : Gen.fields_Proof.map (·.2.2) = proofFields.map goTag := rfl
/-- `omitempty` acts on a string (`Witness`) and on a POINTER (`DLEQ`): the field is emitted whenever the pointer is set -/
theorem fields_Proof_types : Gen.fields_Proof.map (fun f => (f.1, f.2.1)) =
    [("Amount", "uint64"), ("Id", "string"), ("Secret", "string"), ("C", "string"), ("Witness", "string"),
     ("DLEQ", "*DLEQProof")] := rfl
theorem fields_DLEQProof : Gen.fields_DLEQProof.map (·.2.2) = dleqFields.map goTag := rfl
theorem fields_DLEQProof_types : Gen.fields_DLEQProof.map (fun f => (f.1, f.2.1)) =
    [("E", "string"), ("S", "string"), ("R", "string")] := rfl
theorem fields_BlindedMessage : Gen.fields_BlindedMessage.map (·.2.2) = blindedMessageFields.map goTag := rfl
theorem fields_BlindedMessage_types : Gen.fields_BlindedMessage.map (fun f => (f.1, f.2.1)) =
    [("Amount", "uint64"), ("B_", "string"), ("Id", "string"), ("Witness", "string")] := rfl
theorem fields_PostSwapRequest : Gen.fields_PostSwapRequest.map (·.2.2) = swapReqFields.map goTag := rfl
theorem fields_PostMintBolt11Request : Gen.fields_PostMintBolt11Request.map (·.2.2) = mintReqFields.map goTag := rfl
theorem fields_PostMintQuoteBolt11Request :
    Gen.fields_PostMintQuoteBolt11Request.map (·.2.2) = mintQuoteReqFields.map goTag := rfl
theorem fields_PostMeltBolt11Request : Gen.fields_PostMeltBolt11Request.map (·.2.2) = meltReqFields.map goTag := rfl
theorem fields_PostMeltQuoteBolt11Request :
    Gen.fields_PostMeltQuoteBolt11Request.map (·.2.2) = meltQuoteReqFields.map goTag := rfl
theorem fields_PostCheckStateRequest : Gen.fields_PostCheckStateRequest.map (·.2.2) = checkStateReqFields.map goTag := rfl
theorem fields_PostRestoreRequest : Gen.fields_PostRestoreRequest.map (·.2.2) = restoreReqFields.map goTag := rfl
/-- the inputs of swap and melt requests are `cashu.Proofs`: rendered with the Proof tags above -/
theorem inputs_are_Proofs :
    (Gen.fields_PostSwapRequest.map fun f => (f.1, f.2.1)) = [("Inputs", "cashu.Proofs"), ("Outputs", "cashu.BlindedMessages")] ∧
    (Gen.fields_PostMeltBolt11Request.map fun f => (f.1, f.2.1)) =
      [("Quote", "string"), ("Inputs", "cashu.Proofs"), ("Outputs", "cashu.BlindedMessages")] := ⟨rfl, rfl⟩

/-! ## the renderers emit exactly the keys encoding/json emits for those tables -/

/-- `dleq` present iff the pointer is set, `witness` iff non-empty -/
theorem renderProof_keys (role : Role) (p : WProof) :
    (renderProof role p).keys =
      emitted proofFields fun k => (k == "witness" && p.witness) || (k == "dleq" && p.dleq.isSome) := by
  cases hw : p.witness <;> cases hd : p.dleq <;> simp [renderProof, Tree.keys, hw, hd] <;> decide

/-- `r` present iff non-empty -/
theorem renderDLEQ_keys (d : DLEQ) : (renderDLEQ d).keys = emitted dleqFields fun k => k == "r" && d.r.isSome := by
  cases hr : d.r <;> simp [renderDLEQ, Tree.keys, hr] <;> decide

theorem renderOutput_keys (o : Output) :
    (renderOutput o).keys = emitted blindedMessageFields fun k => k == "witness" && o.witness := by
  cases hw : o.witness <;> simp [renderOutput, Tree.keys, hw] <;> decide

theorem postSwapReq_keys (ins : List WProof) (outs : List Output) :
    (postSwapReq ins outs).body.keys = emitted swapReqFields fun _ => false := rfl

theorem postMintReq_keys (q : String) (outs : List Output) (sg : Bool) :
    (postMintReq q outs sg).body.keys = emitted mintReqFields fun k => k == "signature" && sg := by
  cases sg <;> simp [postMintReq, Tree.keys] <;> decide

theorem postMeltReq_keys (q : String) (ins : List WProof) (outs : List Output) :
    (postMeltReq q ins outs).body.keys = emitted meltReqFields fun k => k == "outputs" && !outs.isEmpty := by
  cases h : outs.isEmpty <;> simp [postMeltReq, Tree.keys, h] <;> decide

theorem postMintQuoteReq_keys (a : Nat) : (postMintQuoteReq a).body.keys = emitted mintQuoteReqFields fun _ => true := rfl
theorem postMeltQuoteReq_keys : postMeltQuoteReq.body.keys = emitted meltQuoteReqFields fun _ => false := rfl
theorem postCheckStateReq_keys (ss : List Nat) : (postCheckStateReq ss).body.keys = emitted checkStateReqFields fun _ => false := rfl
theorem postRestoreReq_keys (outs : List Output) : (postRestoreReq outs).body.keys = emitted restoreReqFields fun _ => false := rfl

/-! ## what is put into the request literals (wallet/wallet.go, wallet/restore.go) -/

/-- `swap()` and `swapToSend` send DLEQ-less COPIES of the payload's inputs / the selected stored proofs (fix of F5): `Model.swap`, `Model.swapToSend` -/
theorem wlit_PostSwapRequest : Gen.wlit_PostSwapRequest =
    [("swap", ["Inputs:inputsWithoutDLEQ(swapRequest.inputs)", "Outputs:swapRequest.outputs"]), ("swapToSend", ["Inputs:inputsWithoutDLEQ(proofsToSwap)", "Outputs:blindedMessages"])] := rfl

/-- `Melt` sends DLEQ-less copies of the proofs of getProofsForAmount and the blank outputs, `swapProofs` copies of its argument and no outputs (fix of F5): `Model.melt`, `Model.swapProofs` -/
theorem wlit_PostMeltBolt11Request : Gen.wlit_PostMeltBolt11Request =
    [("Melt", ["Quote:quote.QuoteId", "Inputs:inputsWithoutDLEQ(proofs)", "Outputs:outputs"]), ("swapProofs", ["Quote:meltQuoteResponse.Quote", "Inputs:inputsWithoutDLEQ(proofs)"])] := rfl

/-- `Model.mintTokens` -/
theorem wlit_PostMintBolt11Request : Gen.wlit_PostMintBolt11Request =
    [("MintTokens", ["Quote:quoteId", "Outputs:blindedMessages", "Signature:signature"])] := rfl

/-- `Model.restoreBatches`, `Model.removeSpentProofs`, `Model.reclaimUnspentProofs` -/
theorem wlit_PostCheckStateRequest : Gen.wlit_PostCheckStateRequest =
    [("Restore", ["Ys:Ys"]), ("RemoveSpentProofs", ["Ys:Ys"]), ("ReclaimUnspentProofs", ["Ys:Ys"])] := rfl

/-- `Model.restoreBatches` -/
theorem wlit_PostRestoreRequest : Gen.wlit_PostRestoreRequest =
    [("Restore", ["Outputs:blindedMessages"])] := rfl

/-- `Model.postMintQuoteReq`: amount, unit, NUT-20 public key -/
theorem wlit_PostMintQuoteBolt11Request : Gen.wlit_PostMintQuoteBolt11Request =
    [("RequestMint", ["Amount:amount", "Unit:w.unit.String()", "Pubkey:hex.EncodeToString(privateKey.PubKey().SerializeCompressed())"])] := rfl

/-- `Model.postMeltQuoteReq` (the MPP option of MultiMintPayment is an amount) -/
theorem wlit_PostMeltQuoteBolt11Request : Gen.wlit_PostMeltQuoteBolt11Request =
    [("RequestMeltQuote", ["Request:request", "Unit:w.unit.String()"]), ("MultiMintPayment", ["Request:invoice", "Unit:w.unit.String()", "Options:map[string]nut05.MppOption{…}"]), ("swapProofs", ["Request:mintResponse.Request", "Unit:cashu.Sat.String()"])] := rfl

/-- `createSwapRequest` hands its argument on as the inputs of the payload -/
theorem wlit_swapRequestPayload : Gen.wlit_swapRequestPayload =
    [("createSwapRequest", []), ("createSwapRequest", ["inputs:proofs", "outputs:outputs", "secrets:secrets", "rs:rs", "keyset:&mint.activeKeyset"])] := rfl

/-- proofs built by the wallet: Restore and ReclaimUnspentProofs WITHOUT DLEQ (`Model.reclaimCopy`), CheckMeltQuoteState and constructProofs WITH it -/
theorem wlit_Proof : Gen.wlit_Proof =
    [("Restore", ["Amount:signature.Amount", "Secret:secrets[blindMessageIdx]", "C:C", "Id:signature.Id"]), ("CheckMeltQuoteState", ["Amount:pendingProof.Amount", "Id:pendingProof.Id", "Secret:pendingProof.Secret", "C:pendingProof.C", "DLEQ:pendingProof.DLEQ"]), ("constructProofs", ["Amount:blindedSignature.Amount", "Secret:secrets[i]", "C:C", "Id:blindedSignature.Id", "DLEQ:dleq"]), ("ReclaimUnspentProofs", ["Amount:proof.Amount", "Id:proof.Id", "Secret:proof.Secret", "C:proof.C"])] := rfl

/-- Restore sends `B_` and the keyset id only (`Model.postRestoreReq`) -/
theorem wlit_BlindedMessage : Gen.wlit_BlindedMessage =
    [("Restore", ["B_:B_str", "Id:keyset.Id"])] := rfl

/-- `constructProofs` stores the blinding factor next to the mint's (e, s) (`Model.constructProofs`) -/
theorem wlit_DLEQProof : Gen.wlit_DLEQProof =
    [("constructProofs", ["E:blindedSignature.DLEQ.E", "S:blindedSignature.DLEQ.S", "R:hex.EncodeToString(rs[i].Serialize())"])] := rfl


/-- which proofs reach `swap()`: the token's proofs (Receive, ReceiveHTLC, swapToTrusted) or the DLEQ-less copies of
    ReclaimUnspentProofs -/
theorem wcall_createSwapRequest : Gen.wcall_createSwapRequest =
    [("Receive", ["proofsToSwap", "&mint"]), ("ReceiveHTLC", ["proofs", "&mint"]), ("swapToTrusted", ["proofs", "mint"]),
     ("ReclaimUnspentProofs", ["proofsToReclaim", "&mint"])] := rfl
theorem wcall_swap : Gen.wcall_swap =
    [("Receive", ["tokenMint", "req"]), ("ReceiveHTLC", ["tokenMint", "req"]), ("swapToTrusted", ["mint.mintURL", "req"]),
     ("ReclaimUnspentProofs", ["mintURL", "req"])] := rfl
/-- which proofs reach `swapProofs`: the selection of MintSwap, the token's (or freshly swapped) proofs of swapToTrusted -/
theorem wcall_swapProofs : Gen.wcall_swapProofs =
    [("MintSwap", ["proofsToSwap", "&fromMint", "&toMint"]), ("swapToTrusted", ["proofsToSwap", "mint", "&defaultMint"])] := rfl
theorem wcall_getProofsForAmount : Gen.wcall_getProofsForAmount =
    [("Send", ["amount", "&selectedMint", "includeFees"]), ("Melt", ["amountNeeded", "&mint", "true"]),
     ("MintSwap", ["amount", "&fromMint", "true"])] := rfl

/-- the text of the only function that strips DLEQs for the caller (`Model.newTokenV3`) -/
theorem src_NewTokenV3 : Gen.src_NewTokenV3 = [
  "func NewTokenV3(proofs Proofs, mint string, unit Unit, includeDLEQ bool) (TokenV3, error) {",
  "if !includeDLEQ {",
  "for i := 0; i < len(proofs); i++ {",
  "proofs[i].DLEQ = nil",
  "}",
  "}",
  "if unit != Sat {",
  "return TokenV3{}, ErrInvalidUnit",
  "}",
  "tokenProof := TokenV3Proof{Mint: mint, Proofs: proofs}",
  "return TokenV3{Token: []TokenV3Proof{tokenProof}, Unit: unit.String()}, nil",
  "}"
] := rfl

/-- `NewBlindedMessage`: amount, hex(B_), id — nothing else (`Model.renderOutput`) -/
theorem src_NewBlindedMessage : Gen.src_NewBlindedMessage = [
  "func NewBlindedMessage(id string, amount uint64, B_ *secp256k1.PublicKey) BlindedMessage {",
  "B_str := hex.EncodeToString(B_.SerializeCompressed())",
  "return BlindedMessage{Amount: amount, B_: B_str, Id: id}",
  "}"
] := rfl

/-- the helper of the fix: a fresh slice, `proof` is a loop COPY, only its `DLEQ` is cleared (`Model.inputsWithoutDLEQ`) -/
theorem src_inputsWithoutDLEQ : Gen.src_inputsWithoutDLEQ = [
  "func inputsWithoutDLEQ(proofs cashu.Proofs) cashu.Proofs {",
  "if proofs == nil {",
  "return nil",
  "}",
  "inputs := make(cashu.Proofs, len(proofs))",
  "for i, proof := range proofs {",
  "proof.DLEQ = nil",
  "inputs[i] = proof",
  "}",
  "return inputs",
  "}"
] := rfl

/-! ## call skeletons of the operation paths the model mirrors -/

/-- `Model.mintTokens`: quote state, outputs from the counter, POST mint, constructProofs, save -/
theorem wskel_MintTokens : Gen.wskel_MintTokens =
    ["db.GetMintQuoteById", "MintQuoteState", "getActiveKeyset", "counterForKeyset", "splitWalletTarget", "createBlindedMessages", "client.PostMintBolt11", "constructProofs", "db.SaveProofs", "db.IncrementKeysetCounter", "db.SaveMintQuote"] := rfl

/-- `Model.swapToSend`: selection, outputs, POST swap, delete inputs, constructProofs, save change -/
theorem wskel_swapToSend : Gen.wskel_swapToSend =
    ["getActiveKeyset", "cashu.AmountSplit", "if{", "feesForCount", "}", "selectProofsForAmount", "cashu.AmountSplit", "if{", "counterForKeyset", "createBlindedMessages", "}else{", "blindedMessagesFromSpendingCondition", "counterForKeyset", "}", "feesForProofs", "if{", "splitWalletTarget", "createBlindedMessages", "}", "client.PostSwap", "for{", "db.DeleteProof", "}", "constructProofs", "db.SaveProofs", "db.IncrementKeysetCounter"] := rfl

/-- `Model.getProofsForAmount`: exact selection (delete, no request) or swapToSend -/
theorem wskel_getProofsForAmount : Gen.wskel_getProofsForAmount =
    ["selectProofsForAmount", "if{", "feesForProofs", "}", "if{", "for{", "db.DeleteProof", "}", "}", "swapToSend"] := rfl

/-- `Model.send` -/
theorem wskel_Send : Gen.wskel_Send =
    ["getProofsForAmount", "db.AddPendingProofs"] := rfl

/-- `Model.melt`: optional state check, getProofsForAmount, pending, blank outputs, POST melt, change -/
theorem wskel_Melt : Gen.wskel_Melt =
    ["db.GetMeltQuoteById", "if{", "CheckMeltQuoteState", "}", "getProofsForAmount", "db.AddPendingProofsByQuoteId", "getActiveKeyset", "counterForKeyset", "createBlindedMessages", "client.PostMeltBolt11", "if{", "if{", "db.SaveProofs", "db.DeletePendingProofsByQuoteId", "}", "}", "switch{", "case nut05.Unpaid{", "db.SaveProofs", "db.DeletePendingProofsByQuoteId", "}", "case nut05.Pending{", "db.SaveMeltQuote", "}", "case nut05.Paid{", "db.DeletePendingProofsByQuoteId", "db.SaveMeltQuote", "if{", "constructProofs", "db.SaveProofs", "db.IncrementKeysetCounter", "}", "}", "}"] := rfl

/-- `Model.swapProofs`: quote loop, POST melt at `from`, MintTokens at `to` -/
theorem wskel_swapProofs : Gen.wskel_swapProofs =
    ["feesForProofs", "for{", "RequestMint", "client.PostMeltQuoteBolt11", "}", "client.PostMeltBolt11", "if{", "MintTokens", "}"] := rfl

/-- `Model.mintSwap` -/
theorem wskel_MintSwap : Gen.wskel_MintSwap =
    ["getProofsForAmount", "swapProofs"] := rfl

/-- `Model.swap` -/
theorem wskel_swap : Gen.wskel_swap =
    ["client.PostSwap", "constructProofs"] := rfl

/-- `createSwapRequest`: outputs from the counter for amount - fees -/
theorem wskel_createSwapRequest : Gen.wskel_createSwapRequest =
    ["counterForKeyset", "feesForProofs", "splitWalletTarget", "createBlindedMessages"] := rfl

/-- `Model.receive`, swap-to-trusted branch: SIG_ALL pre-swap, then swapProofs -/
theorem wskel_swapToTrusted : Gen.wskel_swapToTrusted =
    ["if{", "createSwapRequest", "nut11.AddSignatureToOutputs", "swap", "}", "swapProofs"] := rfl

/-- (F19) the DLEQ check of Receive / ReceiveHTLC: per proof with a DLEQ, the keys of a keyset not seen yet are fetched
    (`GetKeysetKeys`, which also checks the derived keyset id), then `nut12.VerifyProofsDLEQ` under THAT keyset -/
theorem wskel_verifyProofsDLEQ : Gen.wskel_verifyProofsDLEQ =
    ["for{", "if{", "GetKeysetKeys", "}", "nut12.VerifyProofsDLEQ", "}"] := rfl

/-- `Model.receive` -/
theorem wskel_Receive : Gen.wskel_Receive =
    ["getActiveKeyset", "verifyProofsDLEQ", "if{", "nut11.AddSignatureToInputs", "}", "if{", "swapToTrusted", "}else{", "if{", "AddMint", "}", "createSwapRequest", "if{", "nut11.AddSignatureToOutputs", "}", "swap", "db.IncrementKeysetCounter", "db.SaveProofs", "}"] := rfl

/-- `Model.receiveHTLC` -/
theorem wskel_ReceiveHTLC : Gen.wskel_ReceiveHTLC =
    ["getActiveKeyset", "verifyProofsDLEQ", "if{", "nut14.AddWitnessHTLC", "if{", "AddMint", "}", "createSwapRequest", "if{", "nut14.AddWitnessHTLCToOutputs", "}", "swap", "db.IncrementKeysetCounter", "db.SaveProofs", "}"] := rfl

/-- `Model.restoreBatches`: per batch POST restore, then POST checkstate -/
theorem wskel_Restore : Gen.wskel_Restore =
    ["db.SaveMnemonicSeed", "for{", "client.GetMintInfo", "client.GetAllKeysets", "for{", "db.SaveKeyset", "for{", "for{", "generateDeterministicSecret", "}", "client.PostRestore", "client.PostCheckProofState", "db.SaveProofs", "if{", "db.AddPendingProofs", "}", "db.IncrementKeysetCounter", "}", "}", "}", "db.Close"] := rfl

/-- `Model.reclaimUnspentProofs` -/
theorem wskel_ReclaimUnspentProofs : Gen.wskel_ReclaimUnspentProofs =
    ["for{", "client.PostCheckProofState", "if{", "createSwapRequest", "swap", "db.IncrementKeysetCounter", "db.SaveProofs", "db.DeletePendingProofs", "}", "}"] := rfl

/-- `Model.removeSpentProofs` -/
theorem wskel_RemoveSpentProofs : Gen.wskel_RemoveSpentProofs =
    ["for{", "client.PostCheckProofState", "db.DeletePendingProofs", "}"] := rfl

/-- `Model.postMintQuoteReq` -/
theorem wskel_RequestMint : Gen.wskel_RequestMint =
    ["client.PostMintQuoteBolt11", "db.SaveMintQuote"] := rfl

/-- `Model.postMeltQuoteReq` -/
theorem wskel_RequestMeltQuote : Gen.wskel_RequestMeltQuote =
    ["client.PostMeltQuoteBolt11", "db.SaveMeltQuote"] := rfl

/-- the GET in `Model.mintTokens` -/
theorem wskel_MintQuoteState : Gen.wskel_MintQuoteState =
    ["db.GetMintQuoteById", "client.GetMintQuoteState", "db.SaveMintQuote"] := rfl

/-- the GET in `Model.melt` / `Op.checkMeltQuoteState` -/
theorem wskel_CheckMeltQuoteState : Gen.wskel_CheckMeltQuoteState =
    ["db.GetMeltQuoteById", "client.GetMeltQuoteState", "if{", "if{", "db.SaveMeltQuote", "db.GetPendingProofsByQuoteId", "db.DeletePendingProofsByQuoteId", "if{", "db.IncrementKeysetCounter", "}", "}else{", "if{", "db.GetPendingProofsByQuoteId", "if{", "db.DeletePendingProofsByQuoteId", "db.SaveProofs", "}", "db.SaveMeltQuote", "}", "}", "}"] := rfl


end Gonuts.Tie.WalletWire
