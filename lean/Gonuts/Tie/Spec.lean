import Gonuts.Gen.Facts
import Gonuts.Spec.HashToCurve
import Gonuts.Spec.KeysetId
import Gonuts.Spec.Nut13
import Gonuts.Spec.MintKeys
/-!
  Ties for C11 (reused by C10 and C09): the glue that is gonuts' own around the library calls in
  `crypto.HashToCurve`, `crypto.DeriveKeysetId`, `crypto.DeriveKeysetPath`, `crypto.GenerateKeyset`,
  `nut13.DeriveKeysetPath/DeriveSecret/DeriveBlindingFactor` and `wallet.DeriveP2PK`, extracted from the Go
  source on every run (`Gonuts.Gen.spec_*`, canonical go/printer text and evaluated constants), equals what
  `Gonuts.Spec.*` uses.  A change of any of these expressions in /repo breaks the corresponding theorem.

  The left conjuncts pin the Go text; the right conjuncts are the matching facts about the specification
  (by `rfl`/`decide`), so that both sides of the correspondence are visible in one statement.
  `hdkeychain.HardenedKeyStart` is a constant of the btcutil dependency, outside /repo; the extractor reads it
  from the version go.mod pins, in the module cache (`hardenedKeyStart` below), and the stream `deriv` checks the
  behaviour.
-/
namespace Gonuts.Tie
open Gonuts.Spec

set_option maxRecDepth 20000

/-- `crypto.HashToCurve`: domain separator, `sha256(sep ‖ msg)`, `sha256(msgHash ‖ c)` with `c` = 4 bytes written
by `binary.LittleEndian.PutUint32` (never `BigEndian`), `uint32` counter from 0 while `< 2^16`, candidate
`[]byte{0x02} ‖ hash` handed to `secp256k1.ParsePubKey`. -/
theorem h2cFacts :
    (Gen.domainSeparator = "Secp256k1_HashToCurve_Cashu_" ∧ ascii Gen.domainSeparator = HashToCurve.domainSeparator) ∧
    (Gen.spec_h2c_sha256Args = [["append([]byte(DomainSeparator), message...)"], ["append(msgToHash[:], c...)"]] ∧
      (∀ msg, HashToCurve.msgHash msg = sha256 (HashToCurve.domainSeparator ++ msg)) ∧
      (∀ mh c, HashToCurve.counterHash mh c = sha256 (mh ++ le32 c))) ∧
    (Gen.spec_h2c_counterDecl = ["uint32 = 0"] ∧ Gen.spec_h2c_for = ["; counter < uint32(math.Exp2(16)); "] ∧
      Gen.spec_h2c_bound = HashToCurve.maxIterations ∧
      (∀ msg, HashToCurve.hashToCurveCounter msg = HashToCurve.search (HashToCurve.msgHash msg) (2 ^ 16) 0)) ∧
    (Gen.spec_h2c_counterBuf = ["make([]byte, 4)"] ∧ Gen.spec_h2c_putLE = [["c", "counter"]] ∧ Gen.spec_h2c_putBE = [] ∧
      (∀ c, (le32 c).length = 4) ∧ le32 1 = [1, 0, 0, 0]) ∧
    (Gen.spec_h2c_pkHash = ["append([]byte{0x02}, hash[:]...)"] ∧ Gen.spec_h2c_parse = [["pkHash"]] ∧
      (∀ mh c, HashToCurve.candidate mh c = 0x02 :: HashToCurve.counterHash mh c)) :=
  ⟨⟨rfl, rfl⟩, ⟨rfl, fun _ => rfl, fun _ _ => rfl⟩, ⟨rfl, rfl, by decide, fun _ => rfl⟩,
   ⟨rfl, rfl, rfl, fun _ => rfl, by decide⟩, ⟨rfl, rfl, fun _ _ => rfl⟩⟩

/-- NUT-00 gives the separator also as `bytes.fromhex("5365…755f")`: the same 28 bytes. -/
theorem domainSeparatorHex :
    hexChars HashToCurve.domainSeparator = "536563703235366b315f48617368546f43757276655f43617368755f".toList ∧
    HashToCurve.domainSeparator.length = 28 := by decide

/-- `crypto.DeriveKeysetId`: `sort.Slice` by `amount <`, append `SerializeCompressed()` of each key, SHA-256, and
`"00" + hex(...)[:14]`. -/
theorem keysetIdFacts :
    (Gen.spec_keysetId_less = ["pubkeys[i].amount < pubkeys[j].amount"] ∧
      (∀ a b : Nat × Bytes, KeysetId.amountLe a b = decide (a.1 ≤ b.1))) ∧
    (Gen.spec_keysetId_append = [["keys", "key.pk.SerializeCompressed()..."]] ∧
      Gen.spec_keysetId_hash = ["sha256.New()"] ∧ Gen.spec_keysetId_write = [["keys"]] ∧
      (∀ ks, KeysetId.concatKeys ks = (KeysetId.sortByAmount ks).flatMap (·.2))) ∧
    (Gen.spec_keysetId_return = ["\"00\" + hex.EncodeToString(hash.Sum(nil))[:14]"] ∧ Gen.spec_keysetId_hexChars = 14 ∧
      (∀ ks, KeysetId.keysetIdChars ks =
        '0' :: '0' :: (hexChars (sha256 (KeysetId.concatKeys ks))).take Gen.spec_keysetId_hexChars)) :=
  ⟨⟨rfl, fun _ _ => rfl⟩, ⟨rfl, rfl, rfl, fun _ => rfl⟩, ⟨rfl, rfl, fun _ => rfl⟩⟩

/-- `nut13.DeriveKeysetPath / DeriveSecret / DeriveBlindingFactor`: `binary.BigEndian.Uint64` of the decoded id,
`% (1<<31 - 1)`, purpose 129372, coin type 0, hardened keyset and counter levels, then child 0 (secret, hex of
`Serialize()`) or child 1 (blinding factor, the key itself). -/
theorem nut13Facts :
    (Gen.spec_nut13_keysetBytes = ["hex.DecodeString(keysetId)"] ∧
      Gen.spec_nut13_bigEndian = ["binary.BigEndian.Uint64(keysetBytes)"] ∧
      Gen.spec_nut13_keysetIdInt = ["bigEndianBytes % (1<<31 - 1)"] ∧
      Gen.spec_nut13_modulus = Nut13.idModulus ∧
      (∀ id, Nut13.keysetIdInt id = beNat id % Gen.spec_nut13_modulus)) ∧
    (Gen.args_nut13_Derive = [["hdkeychain.HardenedKeyStart+129372"]] ∧
      Gen.args_nut13_Derive2 = [["hdkeychain.HardenedKeyStart+0"], ["hdkeychain.HardenedKeyStart+uint32(keysetIdInt)"]] ∧
      Gen.spec_nut13_pathDerive = [["hdkeychain.HardenedKeyStart + 129372"], ["hdkeychain.HardenedKeyStart + 0"],
        ["hdkeychain.HardenedKeyStart + uint32(keysetIdInt)"]] ∧
      Gen.spec_nut13_purpose = Nut13.purpose ∧ Nut13.coinType = 0 ∧
      (∀ id, Nut13.keysetPath id =
        [Bip32.hardenedStart + Gen.spec_nut13_purpose, Bip32.hardenedStart + 0, Bip32.hardenedStart + Nut13.keysetIdInt id])) ∧
    (Gen.args_nut13_secret = [["0"]] ∧ Gen.args_nut13_r = [["1"]] ∧
      Gen.spec_nut13_secretDerive = [["hdkeychain.HardenedKeyStart + counter"], ["0"]] ∧
      Gen.spec_nut13_rDerive = [["hdkeychain.HardenedKeyStart + counter"], ["1"]] ∧
      (∀ id c, Nut13.secretPath id c = Nut13.keysetPath id ++ [Bip32.hardenedStart + c, 0]) ∧
      (∀ id c, Nut13.blindingFactorPath id c = Nut13.keysetPath id ++ [Bip32.hardenedStart + c, 1])) ∧
    (Gen.spec_nut13_secretBytes = ["secretKey.Serialize()"] ∧ Gen.spec_nut13_secret = ["hex.EncodeToString(secretBytes)"] ∧
      Gen.spec_nut13_rReturns = ["nil, err", "nil, err", "nil, err", "rkey, nil"]) :=
  ⟨⟨rfl, rfl, rfl, by decide, fun _ => rfl⟩, ⟨rfl, rfl, rfl, rfl, rfl, fun _ => rfl⟩,
   ⟨rfl, rfl, rfl, rfl, fun _ _ => rfl, fun _ _ => rfl⟩, ⟨rfl, rfl, rfl⟩⟩

/-- `crypto.DeriveKeysetPath` (m/0'/0'/index') and `crypto.GenerateKeyset` (60 keys, child `i'`, amount `2^i`,
id of the public keys). -/
theorem mintKeysFacts :
    (Gen.spec_mintPath_Derive = [["hdkeychain.HardenedKeyStart + 0"], ["hdkeychain.HardenedKeyStart + 0"],
        ["hdkeychain.HardenedKeyStart + index"]] ∧
      (∀ idx, MintKeys.keysetPath idx = [Bip32.hardenedStart + 0, Bip32.hardenedStart + 0, Bip32.hardenedStart + idx])) ∧
    (Gen.maxOrder = 60 ∧ Gen.maxOrder = MintKeys.maxOrder ∧ Gen.spec_genKeyset_for = ["i := 0; i < MAX_ORDER; i++"]) ∧
    (Gen.spec_genKeyset_amount = ["uint64(math.Pow(2, float64(i)))"] ∧
      Gen.spec_genKeyset_Derive = [["hdkeychain.HardenedKeyStart + uint32(i)"]] ∧
      Gen.spec_genKeyset_path = [["master", "index"]] ∧ Gen.spec_genKeyset_id = [["pks"]] ∧
      (∀ M ks j, MintKeys.keyAt M ks j =
        (Bip32.ckdPriv M ks (Bip32.hardenedStart + j)).map (fun c => ⟨2 ^ j, c.key, M c.key Secp256k1.G⟩))) :=
  ⟨⟨rfl, fun _ => rfl⟩, ⟨rfl, rfl, rfl⟩, ⟨rfl, rfl, rfl, rfl, fun _ _ _ => rfl⟩⟩

/-- `hdkeychain.HardenedKeyStart` of the pinned btcutil is BIP32's `2^31`. -/
theorem hardenedKeyStart : Gen.spec_hardenedKeyStart = Bip32.hardenedStart ∧ Bip32.hardenedStart = 2 ^ 31 := by decide

/-- `wallet.DeriveP2PK`: m/129372'/0'/1'/0. -/
theorem p2pkFacts :
    Gen.spec_p2pk_Derive = [["hdkeychain.HardenedKeyStart + 129372"], ["hdkeychain.HardenedKeyStart + 0"],
      ["hdkeychain.HardenedKeyStart + 1"], ["0"]] ∧
    Nut13.p2pkPath = [Bip32.hardenedStart + 129372, Bip32.hardenedStart + 0, Bip32.hardenedStart + 1, 0] :=
  ⟨rfl, rfl⟩

/-- C10: operands of the group operations in `BlindMessage` (Y + rG), `SignBlindedMessage` (k·B_),
`UnblindSignature` (C_ + (−r)·K) and the hash input of `HashE` (hex of the uncompressed points). -/
theorem bdhkeFacts :
    Gen.spec_blind_add = [["&ypoint", "&rpoint", "&blindedMessage"]] ∧
    Gen.spec_sign_mult = [["&k.Key", "&bpoint", "&result"]] ∧
    Gen.spec_unblind_neg = [["&r.Key"]] ∧ Gen.spec_unblind_mult = [["&rNeg", "&Kpoint", "&rKPoint"]] ∧
    Gen.spec_unblind_add = [["&C_Point", "&rKPoint", "&CPoint"]] ∧
    Gen.spec_hashE_hex = [["pk.SerializeUncompressed()"]] ∧ Gen.spec_hashE_sha256 = [["[]byte(keys)"]] :=
  ⟨rfl, rfl, rfl, rfl, rfl, rfl, rfl⟩

end Gonuts.Tie
