import Gonuts.Gen.Facts
import Gonuts.Model.Spend
/-!
  Tie.Spend — the facts extracted from the current source tree that `Model.Spend` relies on, proved equal
  (rfl / decide) to what the model uses.

  1. wire constants and the error-variable table;
  2. the call skeletons of `verifyProofs` (NUT-10 dispatch), `verifyBlindedMessages`, and the positions of
     `ProofsSigAll` in `Swap` / `MeltTokens`;
  3. the three marked model lines (F6, F7, F8), each tied to the source line it mirrors in a form that holds
     whichever way the source reads — so the model MUST follow the source when the defect is repaired;
  4. the pinned bodies (go/printer text, comments stripped) of every function the model mirrors line by line:
     any edit of one of them breaks this file until the model has been re-read against the new text.
-/
/-
  (round 6) The bodies of nut11.HasValidSignatures, ProofsSigAll, ParseP2PKTags, PublicKeys, IsSigAll, DuplicateSignatures,
  VerifyP2PKLockedProof and nut14.VerifyHTLCProof are no longer frozen as text here: they are TRANSLATED on every run and
  proved equal to the model in Tie/Code.lean, which rejects a semantic change and accepts a harmless rewrite.
-/
namespace Gonuts.Tie.Spend
open Gonuts Gonuts.Model.Spend

/-! ## 1. constants, error table -/
theorem tagNames :
    (Gen.nut11_SIGFLAG, Gen.nut11_NSIGS, Gen.nut11_PUBKEYS, Gen.nut11_LOCKTIME, Gen.nut11_REFUND, Gen.nut11_SIGINPUTS, Gen.nut11_SIGALL)
      = (SIGFLAG, NSIGS, PUBKEYS, LOCKTIME, REFUND, SIGINPUTS, SIGALL) := rfl

theorem errCodes : Gen.nut11ErrCode = 30001 ∧ Gen.nut14ErrCode = 30004 := ⟨rfl, rfl⟩

/-- every nut11 error variable of the source is an outcome of the model, under the same name and with the same text -/
theorem nut11Errs : Gen.nut11Errs = nut11ErrTable.map (fun r => (r.1.name, r.2, 30001)) := by decide

theorem nut14Errs : Gen.nut14Errs = nut14ErrTable.map (fun r => (r.1.name, r.2, 30004)) := by decide

/-- `nut10.SecretKind.String` / `DeserializeSecret`: exactly the kinds P2PK and HTLC, everything else is `anyonecanspend` -/
theorem kinds : Gen.nut10_KindString = [("P2PK", "P2PK"), ("HTLC", "HTLC"), ("default", "anyonecanspend")]
    ∧ Gen.nut10_KindParse.map Prod.fst = ["P2PK", "HTLC", "default"] := ⟨rfl, rfl⟩

/-! ## 2. skeletons -/

/-- `verifyProofs`: inside the per-proof loop, `if err == nil { if P2PK { VerifyP2PKLockedProof } else if HTLC { VerifyHTLCProof } }`,
    before `crypto.Verify` — the shape of `Model.Spend.verifySpendCond` / `verifyProofs`. -/
theorem skel_verifyProofs : Gen.skel_verifyProofs =
    ["db.GetPendingProofs", "db.GetProofsUsed", "cashu.CheckDuplicateProofs", "for{", "if{", "if{",
     "nut11.VerifyP2PKLockedProof", "}else{", "if{", "nut14.VerifyHTLCProof", "}", "}", "}", "crypto.Verify", "}"] := rfl

theorem skel_verifyBlindedMessages : Gen.skel_verifyBlindedMessages =
    ["nut10.DeserializeSecret", "nut11.PublicKeys", "nut11.ParseP2PKTags", "for{", "nut10.DeserializeSecret", "nut11.IsSigAll",
     "nut11.ParseP2PKTags", "nut11.PublicKeys", "reflect.DeepEqual", "}", "for{", "nut11.DuplicateSignatures",
     "nut11.HasValidSignatures", "}"] := rfl

/-- the spending-condition calls of a skeleton, in order -/
def spendCalls (sk : List String) : List String :=
  sk.filter fun s => s = "verifyProofs" ∨ s = "nut11.ProofsSigAll" ∨ s = "verifyBlindedMessages" ∨ s = "signBlindedMessages"
    ∨ s = "db.AddPendingProofs" ∨ s = "db.SaveProofs"

/-- `Swap`: verifyProofs, then ProofsSigAll guarding verifyBlindedMessages, all before anything is signed or stored
    (`Model.Spend.swapSpendCheck`). -/
theorem skel_Swap : spendCalls Gen.skel_Swap =
    ["verifyProofs", "nut11.ProofsSigAll", "verifyBlindedMessages", "signBlindedMessages", "db.SaveProofs"] := by decide

theorem skel_Swap_guard : (Gen.skel_Swap.dropWhile (· ≠ "nut11.ProofsSigAll")).take 4 =
    ["nut11.ProofsSigAll", "if{", "verifyBlindedMessages", "}"] := by decide

/-- `MeltTokens`: verifyProofs, then the ProofsSigAll refusal, before the proofs are marked pending (`meltSpendCheck`). -/
theorem skel_MeltTokens : (spendCalls Gen.skel_MeltTokens).take 3 = ["verifyProofs", "nut11.ProofsSigAll", "db.AddPendingProofs"] := by decide

/-- the wallet's use of the signing helpers: what an honest holder sends is what the helpers write, inputs first,
    then (under a condition: SIG_ALL) the outputs, then the swap request -/
def helperCalls (sk : List String) : List String :=
  sk.filter fun s => s = "nut11.AddSignatureToInputs" ∨ s = "nut11.AddSignatureToOutputs" ∨ s = "nut14.AddWitnessHTLC"
    ∨ s = "nut14.AddWitnessHTLCToOutputs" ∨ s = "swap"

theorem wskel_ReceiveHTLC : helperCalls Gen.wskel_ReceiveHTLC = ["nut14.AddWitnessHTLC", "nut14.AddWitnessHTLCToOutputs", "swap"] := by decide
theorem wskel_Receive : helperCalls Gen.wskel_Receive = ["nut11.AddSignatureToInputs", "nut11.AddSignatureToOutputs", "swap"] := by decide
theorem wskel_swapToTrusted : helperCalls Gen.wskel_swapToTrusted = ["nut11.AddSignatureToOutputs", "swap"] := by decide

/-! ## 3. the three marked lines -/

/-- F6: is `pubkeysCopy = slices.Delete(…)` guarded by `if len(pubkeysCopy) > 1` in the source? -/
def srcDeleteGuarded : Bool := Gen.body_nut11_HasValidSignatures.contains "if len(pubkeysCopy) > 1 {"

theorem F6_line (keys : List Key) :
    removeMatchedKey keys = (if srcDeleteGuarded then decide (keys.length > 1) else true) := by
  have h : srcDeleteGuarded = false := by decide
  simp [h, removeMatchedKey]

/-- F7: the statement executed by ProofsSigAll when `DeserializeSecret` fails (the line after `if err != nil {`). -/
def srcOnPlainSecret : Option String := Gen.body_nut11_ProofsSigAll[4]?

theorem F7_line :
    (srcOnPlainSecret = some "return false" ∨ srcOnPlainSecret = some "continue") ∧
    sigAllOnPlainSecret = (if srcOnPlainSecret = some "continue" then some () else none) := by decide

/-- F8: what AddWitnessHTLCToOutputs hashes. -/
def srcHtlcSignsText : Bool := decide (Gen.args_htlcOutputsHash = [["[]byte(output.B_)"]])

theorem F8_line (o : Output) :
    htlcOutputMsg o = (if srcHtlcSignsText then some o.msgText else o.msgDecoded) ∧
    (srcHtlcSignsText = false →
      Gen.args_htlcOutputsHash = Gen.args_p2pkOutputsHash ∧ Gen.args_htlcOutputsDecode = Gen.args_p2pkOutputsDecode) := by
  have h : srcHtlcSignsText = false := by decide
  refine ⟨by simp [h, htlcOutputMsg], fun _ => ⟨rfl, rfl⟩⟩

/-- AddSignatureToOutputs hashes the hex-decoded `B_` (`Model.Spend.addSignatureToOutputs` signs `msgDecoded`). -/
theorem p2pkOutputsHash : Gen.args_p2pkOutputsHash = [["msgToSign"]] ∧ Gen.args_p2pkOutputsDecode = [["output.B_"]] := ⟨rfl, rfl⟩

/-! ## 4. pinned bodies -/



theorem body_AddWitnessHTLCToOutputs : Gen.body_nut14_AddWitnessHTLCToOutputs =
    [
      "{",
      "for i, output := range outputs {",
      "msgToSign, err := hex.DecodeString(output.B_)",
      "if err != nil {",
      "return nil, err",
      "}",
      "hash := sha256.Sum256(msgToSign)",
      "signature, err := schnorr.Sign(signingKey, hash[:])",
      "if err != nil {",
      "return nil, err",
      "}",
      "htlcWitness := HTLCWitness{",
      "Preimage: preimage,",
      "Signatures: []string{hex.EncodeToString(signature.Serialize())},",
      "}",
      "witness, err := json.Marshal(htlcWitness)",
      "if err != nil {",
      "return nil, err",
      "}",
      "output.Witness = string(witness)",
      "outputs[i] = output",
      "}",
      "return outputs, nil",
      "}"] := rfl






theorem body_AddSignatureToInputs : Gen.body_nut11_AddSignatureToInputs =
    [
      "{",
      "for i, proof := range inputs {",
      "hash := sha256.Sum256([]byte(proof.Secret))",
      "signature, err := schnorr.Sign(signingKey, hash[:])",
      "if err != nil {",
      "return nil, err",
      "}",
      "signatureBytes := signature.Serialize()",
      "p2pkWitness := P2PKWitness{",
      "Signatures: []string{hex.EncodeToString(signatureBytes)},",
      "}",
      "witness, err := json.Marshal(p2pkWitness)",
      "if err != nil {",
      "return nil, err",
      "}",
      "proof.Witness = string(witness)",
      "inputs[i] = proof",
      "}",
      "return inputs, nil",
      "}"] := rfl

theorem body_AddSignatureToOutputs : Gen.body_nut11_AddSignatureToOutputs =
    [
      "{",
      "for i, output := range outputs {",
      "msgToSign, err := hex.DecodeString(output.B_)",
      "if err != nil {",
      "return nil, err",
      "}",
      "hash := sha256.Sum256(msgToSign)",
      "signature, err := schnorr.Sign(signingKey, hash[:])",
      "if err != nil {",
      "return nil, err",
      "}",
      "signatureBytes := signature.Serialize()",
      "p2pkWitness := P2PKWitness{",
      "Signatures: []string{hex.EncodeToString(signatureBytes)},",
      "}",
      "witness, err := json.Marshal(p2pkWitness)",
      "if err != nil {",
      "return nil, err",
      "}",
      "output.Witness = string(witness)",
      "outputs[i] = output",
      "}",
      "return outputs, nil",
      "}"] := rfl


theorem body_AddWitnessHTLC : Gen.body_nut14_AddWitnessHTLC =
    [
      "{",
      "tags, err := nut11.ParseP2PKTags(secret.Data.Tags)",
      "if err != nil {",
      "return nil, err",
      "}",
      "signatureNeeded := false",
      "if tags.NSigs > 0 {",
      "if tags.NSigs > 1 {",
      "return nil, errors.New(\"unable to provide enough signatures\")",
      "}",
      "publicKey := signingKey.PubKey().SerializeCompressed()",
      "canSign := false",
      "for _, pk := range tags.Pubkeys {",
      "if slices.Equal(pk.SerializeCompressed(), publicKey) {",
      "canSign = true",
      "break",
      "}",
      "}",
      "if !canSign {",
      "return nil, errors.New(\"signing key is not part of public keys list that can provide signatures\")",
      "}",
      "signatureNeeded = true",
      "}",
      "for i, proof := range proofs {",
      "htlcWitness := HTLCWitness{Preimage: preimage}",
      "if signatureNeeded {",
      "hash := sha256.Sum256([]byte(proof.Secret))",
      "signature, err := schnorr.Sign(signingKey, hash[:])",
      "if err != nil {",
      "return nil, err",
      "}",
      "htlcWitness.Signatures = []string{hex.EncodeToString(signature.Serialize())}",
      "}",
      "witness, err := json.Marshal(htlcWitness)",
      "if err != nil {",
      "return nil, err",
      "}",
      "proof.Witness = string(witness)",
      "proofs[i] = proof",
      "}",
      "return proofs, nil",
      "}"] := rfl

theorem body_verifyBlindedMessages : Gen.body_mint_verifyBlindedMessages =
    [
      "{",
      "secret, err := nut10.DeserializeSecret(proofs[0].Secret)",
      "if err != nil {",
      "return cashu.BuildCashuError(err.Error(), cashu.StandardErrCode)",
      "}",
      "pubkeys, err := nut11.PublicKeys(secret)",
      "if err != nil {",
      "return err",
      "}",
      "signaturesRequired := 1",
      "p2pkTags, err := nut11.ParseP2PKTags(secret.Data.Tags)",
      "if err != nil {",
      "return err",
      "}",
      "if p2pkTags.NSigs > 0 {",
      "signaturesRequired = p2pkTags.NSigs",
      "}",
      "for _, proof := range proofs {",
      "secret, err := nut10.DeserializeSecret(proof.Secret)",
      "if err != nil {",
      "return cashu.BuildCashuError(err.Error(), cashu.StandardErrCode)",
      "}",
      "if !nut11.IsSigAll(secret) {",
      "return nut11.AllSigAllFlagsErr",
      "}",
      "currentSignaturesRequired := 1",
      "p2pkTags, err := nut11.ParseP2PKTags(secret.Data.Tags)",
      "if err != nil {",
      "return err",
      "}",
      "if p2pkTags.NSigs > 0 {",
      "currentSignaturesRequired = p2pkTags.NSigs",
      "}",
      "currentKeys, err := nut11.PublicKeys(secret)",
      "if err != nil {",
      "return err",
      "}",
      "if !reflect.DeepEqual(pubkeys, currentKeys) {",
      "return nut11.SigAllKeysMustBeEqualErr",
      "}",
      "if signaturesRequired != currentSignaturesRequired {",
      "return nut11.NSigsMustBeEqualErr",
      "}",
      "}",
      "for _, bm := range blindedMessages {",
      "B_bytes, err := hex.DecodeString(bm.B_)",
      "if err != nil {",
      "return cashu.BuildCashuError(err.Error(), cashu.StandardErrCode)",
      "}",
      "hash := sha256.Sum256(B_bytes)",
      "var signatures []string",
      "switch secret.Kind {",
      "case nut10.P2PK:",
      "var witness nut11.P2PKWitness",
      "if err := json.Unmarshal([]byte(bm.Witness), &witness); err != nil {",
      "return nut11.InvalidWitness",
      "}",
      "signatures = witness.Signatures",
      "case nut10.HTLC:",
      "var witness nut14.HTLCWitness",
      "if err := json.Unmarshal([]byte(bm.Witness), &witness); err != nil {",
      "return nut11.InvalidWitness",
      "}",
      "preimageBytes, err := hex.DecodeString(witness.Preimage)",
      "if err != nil {",
      "return nut14.InvalidPreimageErr",
      "}",
      "hashBytes := sha256.Sum256(preimageBytes)",
      "hash := hex.EncodeToString(hashBytes[:])",
      "if len(secret.Data.Data) != 64 {",
      "return nut14.InvalidHashErr",
      "}",
      "if hash != secret.Data.Data {",
      "return nut14.InvalidPreimageErr",
      "}",
      "signatures = witness.Signatures",
      "default:",
      "return nut11.InvalidKindErr",
      "}",
      "if nut11.DuplicateSignatures(signatures) {",
      "return nut11.DuplicateSignaturesErr",
      "}",
      "if !nut11.HasValidSignatures(hash[:], signatures, signaturesRequired, pubkeys) {",
      "return nut11.NotEnoughSignaturesErr",
      "}",
      "}",
      "return nil",
      "}"] := rfl

/-! ## 5. the text of a secret: `nut10.DeserializeSecret` as mirrored by `Model.Nut10Parse` -/

/-- the three steps of `Model.Nut10Parse.decodeSecret`: Unmarshal into `[]json.RawMessage` (error, or fewer than two
    elements: not a NUT-10 secret), element 0 into a Go string compared with exactly "P2PK" / "HTLC", element 1 into
    `SecretData` — nothing else (no pre-check of the text, no limit on tags) -/
theorem body_DeserializeSecret : Gen.body_nut10_DeserializeSecret =
    ["{",
      "var rawJsonSecret []json.RawMessage",
      "if err := json.Unmarshal([]byte(serializedSecret), &rawJsonSecret); err != nil {",
      "return WellKnownSecret{}, err",
      "}",
      "if len(rawJsonSecret) < 2 {",
      "return WellKnownSecret{}, errors.New(\"invalid secret: length < 2\")",
      "}",
      "var kind string",
      "var secret WellKnownSecret",
      "if err := json.Unmarshal(rawJsonSecret[0], &kind); err != nil {",
      "return WellKnownSecret{}, errors.New(\"invalid kind for secret\")",
      "}",
      "switch kind {",
      "case \"P2PK\":",
      "secret.Kind = P2PK",
      "case \"HTLC\":",
      "secret.Kind = HTLC",
      "default:",
      "secret.Kind = AnyoneCanSpend",
      "}",
      "if err := json.Unmarshal(rawJsonSecret[1], &secret.Data); err != nil {",
      "return WellKnownSecret{}, fmt.Errorf(\"invalid secret: %v\", err)",
      "}",
      "return secret, nil",
      "}"] := rfl

theorem body_SerializeSecret : Gen.body_nut10_SerializeSecret =
    ["{",
      "jsonSecret, err := json.Marshal(secret.Data)",
      "if err != nil {",
      "return \"\", err",
      "}",
      "serializedSecret := fmt.Sprintf(\"[\\\"%s\\\", %v]\", secret.Kind, string(jsonSecret))",
      "return serializedSecret, nil",
      "}"] := rfl

/-- `nut10.SecretData`: the member names and Go types that `Model.Nut10Parse.setMember` decodes into -/
theorem fields_SecretData : Gen.fields_nut10_SecretData =
    [("Nonce", "string", "nonce"), ("Data", "string", "data"), ("Tags", "[][]string", "tags")] := rfl

end Gonuts.Tie.Spend
