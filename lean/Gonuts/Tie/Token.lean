import Gonuts.Gen.Facts
import Gonuts.Model.Token
import Gonuts.Model.TokenWire
/-!
  Ties between the facts extracted from `cashu/cashu.go` and what `Model.Token` uses (C14).
  Every theorem is closed by `rfl`/`decide`: when the source changes, the regenerated `Gen/Facts.lean`
  makes the corresponding theorem fail and the model has to follow.
-/
namespace Gonuts.Tie.Token
open Gonuts.Model.Token

/-! ## struct fields: (Go field, Go type, JSON/CBOR tag) in declaration order = the model's structures -/

/-- `cashu.Proof` ↔ `Model.Token.Proof` (`amount id secret c witness dleq`); `witness`/`dleq` are `omitempty`,
    `DLEQ` is a pointer (`Option`). -/
theorem fields_Proof : Gen.fields_Proof =
    [("Amount", "uint64", "amount"), ("Id", "string", "id"), ("Secret", "string", "secret"), ("C", "string", "C"),
     ("Witness", "string", "witness,omitempty"), ("DLEQ", "*DLEQProof", "dleq,omitempty")] := rfl

/-- `cashu.DLEQProof` ↔ `Model.Token.DLEQ` (`e s r`); `r` is `omitempty`. -/
theorem fields_DLEQProof : Gen.fields_DLEQProof =
    [("E", "string", "e"), ("S", "string", "s"), ("R", "string", "r,omitempty")] := rfl

/-- `cashu.TokenV3` ↔ `Model.Token.TokenV3` (`token unit memo`). -/
theorem fields_TokenV3 : Gen.fields_TokenV3 =
    [("Token", "[]TokenV3Proof", "token"), ("Unit", "string", "unit"), ("Memo", "string", "memo,omitempty")] := rfl

/-- `cashu.TokenV3Proof` ↔ `Model.Token.TokenV3Proof` (`mint proofs`). -/
theorem fields_TokenV3Proof : Gen.fields_TokenV3Proof =
    [("Mint", "string", "mint"), ("Proofs", "Proofs", "proofs")] := rfl

/-- `cashu.TokenV4` ↔ `Model.Token.TokenV4` (`tokenProofs memo mintURL unit`). -/
theorem fields_TokenV4 : Gen.fields_TokenV4 =
    [("TokenProofs", "[]TokenV4Proof", "t"), ("Memo", "string", "d,omitempty"), ("MintURL", "string", "m"),
     ("Unit", "string", "u")] := rfl

/-- `cashu.TokenV4Proof` ↔ `Model.Token.TokenV4Proof` (`id : Bytes`, `proofs`). -/
theorem fields_TokenV4Proof : Gen.fields_TokenV4Proof =
    [("Id", "[]byte", "i"), ("Proofs", "[]ProofV4", "p")] := rfl

/-- `cashu.ProofV4` ↔ `Model.Token.ProofV4` (`amount secret c : Bytes witness dleq`); no keyset id per proof. -/
theorem fields_ProofV4 : Gen.fields_ProofV4 =
    [("Amount", "uint64", "a"), ("Secret", "string", "s"), ("C", "[]byte", "c"), ("Witness", "string", "w,omitempty"),
     ("DLEQ", "*DLEQV4", "d,omitempty")] := rfl

/-- `cashu.DLEQV4` ↔ `Model.Token.DLEQV4` (`e s r : Bytes`, none `omitempty`). -/
theorem fields_DLEQV4 : Gen.fields_DLEQV4 =
    [("E", "[]byte", "e"), ("S", "[]byte", "s"), ("R", "[]byte", "r")] := rfl

/-- The modelled marshallers (`Model.TokenWire`) take field names and `omitempty` from exactly these tags, in
    declaration order. -/
theorem wire_tags :
    Gen.fields_Proof.map (·.2.2) = Wire.tagsProof.map Wire.tagText ∧
    Gen.fields_DLEQProof.map (·.2.2) = Wire.tagsDLEQProof.map Wire.tagText ∧
    Gen.fields_TokenV3.map (·.2.2) = Wire.tagsTokenV3.map Wire.tagText ∧
    Gen.fields_TokenV3Proof.map (·.2.2) = Wire.tagsTokenV3Proof.map Wire.tagText ∧
    Gen.fields_TokenV4.map (·.2.2) = Wire.tagsTokenV4.map Wire.tagText ∧
    Gen.fields_TokenV4Proof.map (·.2.2) = Wire.tagsTokenV4Proof.map Wire.tagText ∧
    Gen.fields_ProofV4.map (·.2.2) = Wire.tagsProofV4.map Wire.tagText ∧
    Gen.fields_DLEQV4.map (·.2.2) = Wire.tagsDLEQV4.map Wire.tagText := by decide

/-- `Unit.String()`: `Sat` ↦ `"sat"`, anything else `"unknown"`. -/
theorem unitString_table : Gen.unit_String = [("Sat", unitString 0), ("default", unitString 1)] := rfl

/-! ## DecodeToken: V4 first, then V3 -/

theorem decodeToken_order : Gen.tok_DecodeToken_calls = ["DecodeTokenV4", "DecodeTokenV3"] := rfl
theorem decodeToken_wrap : Gen.tok_DecodeToken_strings = ["invalid token: %v"] := rfl

/-! ## DecodeTokenV3 / DecodeTokenV4: the `[:6]` cut, the prefixes, the two base64 attempts -/

/-- The slice expressions are `tokenstr[:cut]` and `tokenstr[cut:]` with the model's `cut`. -/
theorem slices_V3 : Gen.tok_DecodeTokenV3_slices =
    [("tokenstr", "", toString cut), ("tokenstr", toString cut, "")] := by decide
theorem slices_V4 : Gen.tok_DecodeTokenV4_slices =
    [("tokenstr", "", toString cut), ("tokenstr", toString cut, "")] := by decide

/-- The only string literal compared with the prefix is the model's prefix. -/
theorem prefix_V3 : Gen.tok_DecodeTokenV3_strings.head? = some prefixStrV3 ∧
    Gen.tok_TokenV3_Serialize_strings = ["", prefixStrV3] ∧ prefixV3 = strBytes "cashuA" ∧ prefixV3.length = cut := by
  decide
theorem prefix_V4 : Gen.tok_DecodeTokenV4_strings.head? = some prefixStrV4 ∧
    Gen.tok_TokenV4_Serialize_strings = ["", prefixStrV4] ∧ prefixV4 = strBytes "cashuB" ∧ prefixV4.length = cut := by
  decide

/-- The conditions of the two decoders, in source order: the length check `len(tokenstr) < cut` comes first
    (before the slice expressions; added by the F9 fix), then the prefix comparison, the three error checks
    and — V3 only — the check for a token without entries (`checkV3`). -/
theorem conds_V3 : Gen.tok_DecodeTokenV3_conds =
    ["len(tokenstr)<" ++ toString cut, "prefixVersion!=\"cashuA\"", "err!=nil", "err!=nil", "err!=nil",
     "len(token.Token)==0"] := by decide
theorem conds_V4 : Gen.tok_DecodeTokenV4_conds =
    ["len(tokenstr)<" ++ toString cut, "prefixVersion!=\"cashuB\"", "err!=nil", "err!=nil", "err!=nil"] := by decide

/-- Padding flag of a `base64` encoding named in the source. -/
def padOf (callee : String) : Option Bool :=
  if callee = "base64.URLEncoding.DecodeString" ∨ callee = "base64.URLEncoding.EncodeToString" then
    some padURLEncoding
  else if callee = "base64.RawURLEncoding.DecodeString" ∨ callee = "base64.RawURLEncoding.EncodeToString" then
    some padRawURLEncoding
  else none

/-- Decoding tries `URLEncoding` then `RawURLEncoding` (`b64Stage`), then unmarshals. -/
theorem decode_calls_V3 : Gen.tok_DecodeTokenV3_calls =
    ["base64.URLEncoding.DecodeString", "base64.RawURLEncoding.DecodeString", "json.Unmarshal"] := rfl
theorem decode_calls_V4 : Gen.tok_DecodeTokenV4_calls =
    ["base64.URLEncoding.DecodeString", "base64.RawURLEncoding.DecodeString", "cbor.Unmarshal"] := rfl
theorem decode_attempts : Gen.tok_DecodeTokenV3_calls.filterMap padOf = [padURLEncoding, padRawURLEncoding] ∧
    Gen.tok_DecodeTokenV4_calls.filterMap padOf = [padURLEncoding, padRawURLEncoding] := by decide

/-- `TokenV3.Serialize` uses the padded encoding, `TokenV4.Serialize` the raw one (as `serializeV3/V4`). -/
theorem serialize_calls : Gen.tok_TokenV3_Serialize_calls = ["json.Marshal", "base64.URLEncoding.EncodeToString"] ∧
    Gen.tok_TokenV4_Serialize_calls = ["cbor.Marshal", "base64.RawURLEncoding.EncodeToString"] := ⟨rfl, rfl⟩
theorem serialize_pad : Gen.tok_TokenV3_Serialize_calls.filterMap padOf = [padURLEncoding] ∧
    Gen.tok_TokenV4_Serialize_calls.filterMap padOf = [padRawURLEncoding] := by decide

/-! ## accessors: where a panic can come from -/

/-- `TokenV3.Mint()` contains the index expression `t.Token[0]` and no guard (`mintV3` panics on an empty list;
    since the F9 fix `DecodeTokenV3` does not return such a token). -/
theorem mintV3_index : Gen.tok_TokenV3_Mint_indexes = ["t.Token[0]"] ∧ Gen.tok_TokenV3_Mint_conds = [] := ⟨rfl, rfl⟩

/-- No other accessor contains an index or slice expression; the only pointer dereferenced
    (`proofV4.DLEQ`) is nil-checked — which is why `proofs`/`amount` are total functions in the model. -/
theorem accessors_no_index :
    Gen.tok_TokenV3_Proofs_indexes = [] ∧ Gen.tok_TokenV3_Proofs_slices = [] ∧
    Gen.tok_TokenV4_Proofs_indexes = [] ∧ Gen.tok_TokenV4_Proofs_slices = [] ∧
    Gen.tok_TokenV3_Amount_indexes = [] ∧ Gen.tok_TokenV3_Amount_slices = [] ∧
    Gen.tok_TokenV4_Amount_indexes = [] ∧ Gen.tok_TokenV4_Amount_slices = [] ∧
    Gen.tok_TokenV4_Mint_indexes = [] ∧ Gen.tok_TokenV4_Mint_slices = [] ∧
    Gen.tok_TokenV3_Serialize_indexes = [] ∧ Gen.tok_TokenV4_Serialize_indexes = [] ∧
    Gen.tok_TokenV4_Proofs_conds = ["proofV4.DLEQ!=nil"] := by decide

/-! ## cmd/nutw: the command-line argument goes straight into DecodeToken (anchor nutw.go:194, :969) -/

/-- `nutw receive <arg>`: `serializedToken := args.First()`, `cashu.DecodeToken(serializedToken)`, then `token.Mint()`
    on the result — i.e. `decodeToken` applied to an arbitrary user-supplied string, followed by `Token.mint`. -/
theorem nutw_receive : Gen.tok_nutw_receive_decodeArgs = [["serializedToken"]] ∧
    Gen.tok_nutw_receive_assigns = ["serializedToken:=args.First()"] ∧
    Gen.tok_nutw_receive_tokenUses = ["token.Mint", "nutw.ReceiveHTLC(token)", "nutw.Receive(token)"] := by decide

/-- `nutw decode <arg>`: the same, followed by `json.MarshalIndent(token)` (the custom `MarshalJSON` methods). -/
theorem nutw_decode : Gen.tok_nutw_decode_decodeArgs = [["serializedToken"]] ∧
    Gen.tok_nutw_decode_assigns = ["serializedToken:=args.First()"] ∧
    Gen.tok_nutw_decode_tokenUses = ["json.MarshalIndent(token)"] := by decide

/-! ## NewTokenV3 / NewTokenV4: order of the checks and the error texts -/

theorem newV3_conds : Gen.tok_NewTokenV3_conds = ["!includeDLEQ", "unit!=Sat"] := rfl

/-- Order of the checks in `NewTokenV4` = order of the `NewErr` alternatives `toV4`/`buildGroups` return. -/
theorem newV4_errors : Gen.tok_NewTokenV4_strings =
    ["invalid C: %v", "invalid e in DLEQ proof: %v", "invalid s in DLEQ proof: %v", "invalid r in DLEQ proof: %v",
     "r in DLEQ proof cannot be empty", "invalid keyset id: %v"] := rfl
theorem newV4_conds : Gen.tok_NewTokenV4_conds =
    ["unit!=Sat", "err!=nil", "includeDLEQ", "proof.DLEQ!=nil", "err!=nil", "err!=nil", "len(proof.DLEQ.R)>0",
     "err!=nil", "err!=nil"] := rfl
theorem newV4_map : Gen.tok_NewTokenV4_indexes = ["proofsMap[proof.Id]", "proofsMap[proof.Id]", "proofsV4[i]"] := rfl
theorem newV4_hex_calls : Gen.tok_NewTokenV4_calls = List.replicate 5 "hex.DecodeString" ∧
    Gen.tok_TokenV4_Proofs_calls = List.replicate 5 "hex.EncodeToString" := by decide

end Gonuts.Tie.Token
