import Gonuts.Gen.Facts
import Gonuts.Model.Mint
/-!
  Ties between the mint sources and `Model.Mint`: the storage / Lightning / helper call skeleton of every
  function the model mirrors (the literal below is what the model was written against: any change of the
  order, presence or nesting of these calls in /repo breaks the corresponding theorem), the SQL text of the
  storage methods whose constraint semantics `MintEff.execDb` encodes, the error table rows the model
  returns, and the argument expressions of the Lightning payment calls (F1).
-/
namespace Gonuts.Tie.Mint
open Gonuts.Model.Mint

theorem skel_RequestMintQuote : Gen.skel_RequestMintQuote = ["if{", "TotalBalance", "}", "requestInvoice", "db.SaveMintQuote", "go{", "checkInvoicePaid", "}"] := rfl
theorem skel_GetMintQuoteState : Gen.skel_GetMintQuoteState = ["db.GetMintQuote", "if{", "ln.InvoiceStatus", "if{", "db.UpdateMintQuoteState", "}", "}"] := rfl
theorem skel_MintTokens : Gen.skel_MintTokens = ["GetMintQuoteState", "switch{", "case nut04.Paid{", "func{", "db.UpdateMintQuoteState", "blindedMessages.AmountChecked", "cashu.CheckDuplicateBlindedMessages", "db.GetBlindSignatures", "if{", "nut20.VerifyMintQuoteSignature", "}", "signBlindedMessages", "db.UpdateMintQuoteState", "db.SaveBlindSignatures", "}", "if{", "db.UpdateMintQuoteState", "}", "}", "}"] := rfl
theorem skel_Swap : Gen.skel_Swap = ["blindedMessages.AmountChecked", "cashu.CheckDuplicateBlindedMessages", "TransactionFees", "cashu.UnderflowSubUint64", "verifyProofs", "db.GetBlindSignatures", "nut11.ProofsSigAll", "if{", "verifyBlindedMessages", "}", "signBlindedMessages", "db.SaveProofs", "db.SaveBlindSignatures"] := rfl
theorem skel_RequestMeltQuote : Gen.skel_RequestMeltQuote = ["db.GetMintQuoteByPaymentHash", "db.GetMeltQuoteByPaymentRequest", "ln.FeeReserve", "db.SaveMeltQuote"] := rfl
theorem skel_GetMeltQuoteState : Gen.skel_GetMeltQuoteState = ["db.GetMeltQuote", "if{", "ln.OutgoingPaymentStatus", "switch{", "case lightning.Succeeded{", "removePendingProofsForQuote", "db.SaveProofs", "db.UpdateMeltQuote", "}", "case lightning.Failed{", "db.UpdateMeltQuote", "removePendingProofsForQuote", "}", "}", "}"] := rfl
theorem skel_MeltTokens : Gen.skel_MeltTokens = ["db.GetMeltQuote", "verifyProofs", "TransactionFees", "nut11.ProofsSigAll", "db.AddPendingProofs", "db.UpdateMeltQuote", "db.GetMintQuoteByPaymentHash", "if{", "settleQuotesInternally", "if{", "if{", "db.UpdateMeltQuote", "db.RemovePendingProofs", "}", "}", "db.RemovePendingProofs", "db.SaveProofs", "}else{", "if{", "ln.PayPartialAmount", "}else{", "ln.SendPayment", "}", "switch{", "case lightning.Succeeded{", "settleProofs", "db.UpdateMeltQuote", "}", "case lightning.Failed{", "ln.OutgoingPaymentStatus", "if{", "db.UpdateMeltQuote", "db.RemovePendingProofs", "}", "switch{", "case lightning.Failed{", "db.UpdateMeltQuote", "db.RemovePendingProofs", "}", "case lightning.Succeeded{", "settleProofs", "db.UpdateMeltQuote", "}", "}", "}", "}", "}"] := rfl
theorem skel_settleQuotesInternally : Gen.skel_settleQuotesInternally = ["ln.InvoiceStatus", "db.UpdateMeltQuote", "db.UpdateMintQuoteState"] := rfl
theorem skel_settleProofs : Gen.skel_settleProofs = ["db.RemovePendingProofs", "db.SaveProofs"] := rfl
theorem skel_removePendingProofsForQuote : Gen.skel_removePendingProofsForQuote = ["db.GetPendingProofsByQuote", "db.RemovePendingProofs"] := rfl
theorem skel_ProofsStateCheck : Gen.skel_ProofsStateCheck = ["db.GetPendingProofs", "for{", "GetMeltQuoteState", "}", "db.GetPendingProofs", "db.GetProofsUsed"] := rfl
theorem skel_RestoreSignatures : Gen.skel_RestoreSignatures = ["for{", "db.GetBlindSignature", "}"] := rfl
theorem skel_verifyProofs : Gen.skel_verifyProofs = ["db.GetPendingProofs", "db.GetProofsUsed", "cashu.CheckDuplicateProofs", "for{", "if{", "if{", "nut11.VerifyP2PKLockedProof", "}else{", "if{", "nut14.VerifyHTLCProof", "}", "}", "}", "crypto.Verify", "}"] := rfl
theorem skel_RotateKeyset : Gen.skel_RotateKeyset = ["db.GetSeed", "crypto.GenerateKeyset", "db.UpdateKeysetActive", "db.SaveKeyset"] := rfl
theorem skel_checkInvoicePaid : Gen.skel_checkInvoicePaid = ["db.GetMintQuote", "ln.SubscribeInvoice", "go{", "func{", "for{", "invoiceSub.Recv", "}", "}", "}", "select{", "comm{", "if{", "db.GetMintQuote", "db.UpdateMintQuoteState", "}", "}", "}"] := rfl
theorem skel_TotalBalance : Gen.skel_TotalBalance = ["db.GetIssuedEcash", "db.GetRedeemedEcash"] := rfl
theorem skel_signBlindedMessages : Gen.skel_signBlindedMessages = [] := rfl
theorem skel_RetrieveMintInfo : Gen.skel_RetrieveMintInfo = ["db.GetSeed", "TotalBalance"] := rfl
theorem skel_LoadMint : Gen.skel_LoadMint = ["db.GetSeed", "if{", "if{", "db.SaveSeed", "}", "}", "db.GetKeysets", "if{", "crypto.GenerateKeyset", "db.SaveKeyset", "}else{", "for{", "crypto.GenerateKeyset", "}", "if{", "RotateKeyset", "}", "}", "ln.ConnectionStatus"] := rfl

/-- Every error the model returns by name is the `cashu.Error` variable of that name, with its detail and code. -/
theorem errRows :
    Gen.errTable.contains ("StandardErr", eStandard.2, eStandard.1) = true ∧
    Gen.errTable.contains ("UnknownKeysetErr", eUnknownKeyset.2, eUnknownKeyset.1) = true ∧
    Gen.errTable.contains ("InvalidBlindedMessageAmount", eInvalidBMAmount.2, eInvalidBMAmount.1) = true ∧
    Gen.errTable.contains ("InvalidProofAmount", eInvalidProofAmount.2, eInvalidProofAmount.1) = true ∧
    Gen.errTable.contains ("BlindedMessageAlreadySigned", eAlreadySigned.2, eAlreadySigned.1) = true ∧
    Gen.errTable.contains ("MintQuoteRequestNotPaid", eNotPaid.2, eNotPaid.1) = true ∧
    Gen.errTable.contains ("MintQuoteAlreadyIssued", eAlreadyIssued.2, eAlreadyIssued.1) = true ∧
    Gen.errTable.contains ("MintingDisabled", eMintingDisabled.2, eMintingDisabled.1) = true ∧
    Gen.errTable.contains ("MintAmountExceededErr", eMintAmountExceeded.2, eMintAmountExceeded.1) = true ∧
    Gen.errTable.contains ("MintQuoteInvalidSigErr", eInvalidSig.2, eInvalidSig.1) = true ∧
    Gen.errTable.contains ("OutputsOverQuoteAmountErr", eOutputsOverQuote.2, eOutputsOverQuote.1) = true ∧
    Gen.errTable.contains ("ProofAlreadyUsedErr", eProofUsed.2, eProofUsed.1) = true ∧
    Gen.errTable.contains ("ProofPendingErr", eProofPending.2, eProofPending.1) = true ∧
    Gen.errTable.contains ("InvalidProofErr", eInvalidProof.2, eInvalidProof.1) = true ∧
    Gen.errTable.contains ("SecretTooLongErr", eSecretTooLong.2, eSecretTooLong.1) = true ∧
    Gen.errTable.contains ("NoProofsProvided", eNoProofs.2, eNoProofs.1) = true ∧
    Gen.errTable.contains ("DuplicateProofs", eDupProofs.2, eDupProofs.1) = true ∧
    Gen.errTable.contains ("DuplicateOutputs", eDupOutputs.2, eDupOutputs.1) = true ∧
    Gen.errTable.contains ("QuoteNotExistErr", eQuoteNotExist.2, eQuoteNotExist.1) = true ∧
    Gen.errTable.contains ("QuotePending", eQuotePending.2, eQuotePending.1) = true ∧
    Gen.errTable.contains ("MeltQuoteAlreadyPaid", eMeltAlreadyPaid.2, eMeltAlreadyPaid.1) = true ∧
    Gen.errTable.contains ("MeltAmountExceededErr", eMeltAmountExceeded.2, eMeltAmountExceeded.1) = true ∧
    Gen.errTable.contains ("MeltQuoteForRequestExists", eMeltQuoteExists.2, eMeltQuoteExists.1) = true ∧
    Gen.errTable.contains ("InsufficientProofsAmount", eInsufficient.2, eInsufficient.1) = true ∧
    Gen.errTable.contains ("InactiveKeysetSignatureRequest", eInactiveKeyset.2, eInactiveKeyset.1) = true := by decide

theorem eSigAllOnlySwap_row : Gen.nut11Errs.contains ("SigAllOnlySwap", eSigAllOnlySwap.2, eSigAllOnlySwap.1) = true := by decide

/-- F1: the fee limit handed to the backend is the quote's fee reserve. -/
theorem args_SendPayment : Gen.args_SendPayment = [["ctx", "meltQuote.InvoiceRequest", "meltQuote.FeeReserve"]] := rfl
/-- F1: the fee limit handed to the backend is the quote's fee reserve. -/
theorem args_PayPartialAmount : Gen.args_PayPartialAmount = [["ctx", "meltQuote.InvoiceRequest", "meltQuote.AmountMsat", "meltQuote.FeeReserve"]] := rfl

/-- SQL of every storage method (plain INSERT / UPDATE / DELETE / SELECT, no `OR IGNORE` / `OR REPLACE`): the
    constraint and rollback semantics in `execDb` assume exactly these statements. -/
theorem sqlText : Gen.sqlText = [
  ("AddPendingProofs", ["INSERT INTO pending_proofs (y, amount, keyset_id, secret, c, witness, melt_quote_id) VALUES (?, ?, ?, ?, ?, ?, ?)"]),
  ("Close", []),
  ("GetBlindSignature", ["SELECT amount, c_, keyset_id, e, s FROM blind_signatures WHERE b_ = ?"]),
  ("GetBlindSignatures", ["SELECT amount, c_, keyset_id, e, s FROM blind_signatures WHERE b_ in (?"]),
  ("GetIssuedEcash", ["SELECT * FROM total_issued"]),
  ("GetKeysets", ["SELECT * FROM keysets"]),
  ("GetMeltQuote", ["SELECT * FROM melt_quotes WHERE id = ?"]),
  ("GetMeltQuoteByPaymentRequest", ["SELECT * FROM melt_quotes WHERE request = ?"]),
  ("GetMintQuote", ["SELECT * FROM mint_quotes WHERE id = ?"]),
  ("GetMintQuoteByPaymentHash", ["SELECT * FROM mint_quotes WHERE payment_hash = ?"]),
  ("GetPendingProofs", ["SELECT * FROM pending_proofs WHERE y in (?"]),
  ("GetPendingProofsByQuote", ["SELECT y, amount, keyset_id, secret, c, witness FROM pending_proofs WHERE melt_quote_id = ?"]),
  ("GetProofsUsed", ["SELECT * FROM proofs WHERE y in (?"]),
  ("GetRedeemedEcash", ["SELECT * FROM total_redeemed"]),
  ("GetSeed", ["SELECT seed FROM seed WHERE id = id"]),
  ("RemovePendingProofs", ["DELETE FROM pending_proofs WHERE y = ?"]),
  ("SaveBlindSignatures", ["INSERT INTO blind_signatures (b_, c_, keyset_id, amount, e, s) VALUES (?, ?, ?, ?, ?, ?)"]),
  ("SaveKeyset", ["INSERT INTO keysets (id, unit, active, seed, derivation_path_idx, input_fee_ppk) VALUES (?, ?, ?, ?, ?, ?)"]),
  ("SaveMeltQuote", ["INSERT INTO melt_quotes (id, request, payment_hash, amount, fee_reserve, state, expiry, preimage, is_mpp, amount_msat) VALUES (?, ?, ?, ?, ?, ?, ?, ?, ?, ?)"]),
  ("SaveMintQuote", ["INSERT INTO mint_quotes (id, payment_request, payment_hash, amount, state, expiry, pubkey) VALUES (?, ?, ?, ?, ?, ?, ?)"]),
  ("SaveProofs", ["INSERT INTO proofs (y, amount, keyset_id, secret, c, witness) VALUES (?, ?, ?, ?, ?, ?)"]),
  ("SaveSeed", ["INSERT INTO seed (id, seed) VALUES (?, ?)"]),
  ("UpdateKeysetActive", ["UPDATE keysets SET active = ? WHERE id = ?", "keyset was not updated"]),
  ("UpdateMeltQuote", ["UPDATE melt_quotes SET state = ?, preimage = ? WHERE id = ?", "melt quote was not updated"]),
  ("UpdateMintQuoteState", ["UPDATE mint_quotes SET state = ? WHERE id = ?", "mint quote was not updated"])
] := rfl

/-- Schema: primary keys / UNIQUE constraints and the two balance views. -/
theorem migrations : Gen.migrations = [
  ("000001_init.up.sql", "CREATE TABLE IF NOT EXISTS seed ( id TEXT NOT NULL PRIMARY KEY, seed TEXT ); CREATE TABLE IF NOT EXISTS keysets ( id TEXT NOT NULL PRIMARY KEY, unit TEXT NOT NULL, active BOOLEAN NOT NULL, seed TEXT NOT NULL, derivation_path_idx INTEGER NOT NULL, input_fee_ppk INTEGER NOT NULL ); CREATE TABLE IF NOT EXISTS proofs ( y TEXT PRIMARY KEY, amount INTEGER NOT NULL, keyset_id TEXT NOT NULL, secret TEXT NOT NULL UNIQUE, c TEXT NOT NULL ); CREATE INDEX IF NOT EXISTS idx_proofs_y ON proofs(y); CREATE TABLE IF NOT EXISTS mint_quotes ( id TEXT PRIMARY KEY, payment_request TEXT NOT NULL, payment_hash TEXT, amount INTEGER NOT NULL, state TEXT NOT NULL, expiry INTEGER ); CREATE INDEX IF NOT EXISTS idx_mint_quotes_id ON mint_quotes(id); CREATE TABLE IF NOT EXISTS melt_quotes ( id TEXT NOT NULL PRIMARY KEY, request TEXT NOT NULL, payment_hash TEXT, amount INTEGER NOT NULL, fee_reserve INTEGER NOT NULL, state TEXT NOT NULL, expiry INTEGER, preimage TEXT ); CREATE INDEX IF NOT EXISTS idx_melt_quotes_id ON melt_quotes(id);"),
  ("000002_balance_view.up.sql", "CREATE VIEW IF NOT EXISTS minted_ecash (amount) AS SELECT COALESCE((SELECT SUM(amount) FROM mint_quotes WHERE state = 'ISSUED'), 0); CREATE VIEW IF NOT EXISTS melted_ecash (amount) AS SELECT COALESCE((SELECT SUM(amount) FROM melt_quotes WHERE state = 'PAID'), 0); CREATE VIEW IF NOT EXISTS balance (balance) AS SELECT (SELECT amount FROM minted_ecash) - (SELECT amount FROM melted_ecash);"),
  ("000003_blind_signatures.up.sql", "CREATE TABLE IF NOT EXISTS blind_signatures ( b_ TEXT NOT NULL PRIMARY KEY, c_ TEXT NOT NULL, keyset_id TEXT NOT NULL, amount INTEGER NOT NULL ); CREATE INDEX IF NOT EXISTS idx_blind_signatures_b ON blind_signatures(b_);"),
  ("000004_add_dleq_blind_signatures.up.sql", "ALTER TABLE blind_signatures ADD COLUMN e TEXT; ALTER TABLE blind_signatures ADD COLUMN s TEXT;"),
  ("000005_add_pending_proofs_table.up.sql", "CREATE TABLE IF NOT EXISTS pending_proofs ( y TEXT PRIMARY KEY, amount INTEGER NOT NULL, keyset_id TEXT NOT NULL, secret TEXT NOT NULL UNIQUE, c TEXT NOT NULL, melt_quote_id TEXT NOT NULL ); CREATE INDEX IF NOT EXISTS idx_pending_proofs_y ON pending_proofs(y);"),
  ("000006_melt_quote_request_idx.up.sql", "CREATE INDEX IF NOT EXISTS idx_melt_quotes_request ON melt_quotes(request);"),
  ("000007_add_witness_proofs.up.sql", "ALTER TABLE proofs ADD COLUMN witness TEXT; ALTER TABLE pending_proofs ADD COLUMN witness TEXT;"),
  ("000008_mpp_melt_quote.up.sql", "ALTER TABLE melt_quotes ADD COLUMN is_mpp BOOLEAN; ALTER TABLE melt_quotes ADD COLUMN amount_msat INTEGER;"),
  ("000009_mint_quote_pubkey.up.sql", "ALTER TABLE mint_quotes ADD COLUMN pubkey TEXT;"),
  ("000010_keyset_balance_view.up.sql", "-- drop previous balance views DROP VIEW minted_ecash; DROP VIEW melted_ecash; DROP VIEW balance; -- create new balance views by keyset CREATE VIEW IF NOT EXISTS total_issued AS SELECT keyset_id, COALESCE(amount, 0) AS balance FROM ( SELECT keyset_id, SUM(amount) AS amount FROM blind_signatures GROUP BY keyset_id ); CREATE VIEW IF NOT EXISTS total_redeemed AS SELECT keyset_id, COALESCE(amount, 0) AS balance FROM ( SELECT keyset_id, SUM(amount) AS amount FROM proofs GROUP BY keyset_id );")
] := rfl

theorem maxOrder : Gen.maxOrder = 60 := rfl
theorem maxSecretLength : Gen.maxSecretLength = 512 := rfl

end Gonuts.Tie.Mint
