import Gonuts.Lemmas.WalletBooksRestoreProg
/-!
  C19 — seed backup complete: no counter reused, restore recovers all funds.

  Model: `Gonuts/Model/WalletBooks.lean`.  Outputs are identified by `(seed, keyset, counter)`; the mint records
  in the ghost field `reuse` every output of a request that was already signed.
-/
namespace Gonuts.Props.C19
open Gonuts.Model Gonuts.Model.WalletBooks

def selK : Sel := { selStable with swapAmount := fun a n => a * 99 / 100 - UInt64.ofNat n }
def w0 : World := initWorld selK [0, 0] [(0, 0), (1, 1)]

/-! ## counter_discipline — FALSE on the code as it is -/

/-- Full statement: after every history no request ever contained an output that was signed before, and every
    stored counter is past every signed counter of that (seed, keyset). -/
def counter_discipline_full : Prop := ∀ (sel : Sel) (ops : List Op), cDiscipline (runHist sel w0 ops) = true

/-- F13: two SIG_ALL tokens of mint 0 received by wallet 1 (home: mint 1) with swap-to-trusted: the second
    receive derives its swap outputs for mint 0's keyset from counter 0 again. -/
def opsF13 : List Op :=
  [.mintReq 0 0 64, .settle 0 0, .mintTokens 0 0,
   .sendLocked 0 0 8 1 true false, .receive 1 0 true false [.succ 0],
   .sendLocked 0 0 8 1 true false, .receive 1 1 true false [.succ 0]]

theorem F13_witness :
    ((runHist selK w0 opsF13).mint 0).reuse = [.det 1 0 0, .det 1 0 1, .det 1 0 2, .det 1 0 3, .det 1 0 4, .det 1 0 5] ∧
    cDiscipline (runHist selK w0 opsF13) = false := by decide +kernel

/-- F15: the wallet notices a keyset rotation: its in-memory copy of the old keyset (counter 0, as of
    `LoadWallet`) is written over the stored one (counter 15). -/
def opsF15 : List Op :=
  [.mintReq 0 0 64, .settle 0 0, .mintTokens 0 0, .rotate 0 1 0, .mintReq 0 0 8, .settle 0 1, .mintTokens 0 1]

theorem F15_witness :
    ((runHist selK w0 (opsF15.take 3)).wallet 0).db.keysets.map (fun r => (r.id, r.counter)) = [(0, 15)] ∧
    ((runHist selK w0 opsF15).wallet 0).db.keysets.map (fun r => (r.id, r.counter)) = [(0, 0), (1, 1)] ∧
    ((runHist selK w0 opsF15).mint 0).reuse = [] ∧
    cDiscipline (runHist selK w0 opsF15) = false ∧ cDisciplineActive (runHist selK w0 opsF15) = true := by decide +kernel

theorem counter_discipline_full_false : ¬ counter_discipline_full := fun h => by
  have := h selK opsF13
  rw [F13_witness.2] at this
  cases this

/-! ## restore_counter -/

/-- The batch loop of Restore (fixed code) as a function of which batches the mint has signatures for: the
    stored counter ends past every non-empty batch visited and at the end of a non-empty batch — i.e. past every
    signed counter seen and less than 100 past one of them. -/
theorem restore_counter (nonEmpty : Nat → Bool) (fuel : Nat) :
    let r := scan nonEmpty true fuel {}
    (∀ b < r.batch, nonEmpty b = true → 100 * (b + 1) ≤ r.stored) ∧
    (r.stored = 0 ∨ ∃ b < r.batch, nonEmpty b = true ∧ r.stored = 100 * (b + 1)) :=
  scan_counter nonEmpty fuel

/-- The code before the `fix:` commit (cumulative counter added after every non-empty batch): 250 outputs
    (three non-empty batches) leave the counter at 600 instead of 300. -/
def restore_counter_old : Prop :=
  ∀ (nonEmpty : Nat → Bool) (fuel : Nat), let r := scan nonEmpty false fuel {}
    (r.stored = 0 ∨ ∃ b < r.batch, nonEmpty b = true ∧ r.stored = 100 * (b + 1))

theorem restore_counter_old_false : ¬ restore_counter_old := fun h => by
  have h1 := h (fun b => decide (b < 3)) 10
  have h2 : (scan (fun b => decide (b < 3)) false 10 {}).stored = 600 := scan_old_cumulative
  have h3 : (scan (fun b => decide (b < 3)) false 10 {}).batch = 6 := by decide
  simp only at h1
  rw [h2, h3] at h1
  rcases h1 with h1 | ⟨b, _, hne, hs⟩
  · omega
  · simp only [decide_eq_true_eq] at hne
    omega

/-- One batch of the `restore` PROGRAM (its storage and client calls, fault-free, no Lightning answer scripted)
    does what `batchSpec` says: the counter is advanced by the counters consumed since the last update. -/
theorem restore_batch_program (cx : Cx) (mi : Nat) (k : KsInfo) (b : BatchSt) (w : World)
    (hmi : mi < w.mints.length) (hs : w.script = []) :
    runPM cx.wi (restoreBatch cx mi k true b) w = batchSpec cx mi k true b w :=
  runPM_restoreBatch cx mi k true b w hmi hs

/-! ## restore_complete (pure core) -/

/-- If no three consecutive batches below a non-empty batch are empty (a gap of 300 unsigned counters below a
    signed one), the scan reaches every non-empty batch. -/
theorem restore_complete_scan (nonEmpty : Nat → Bool) (hg : NoGap3 nonEmpty) (fuel : Nat) (b : Nat)
    (hb : nonEmpty b = true) (hfuel : b < fuel) : b < (scan nonEmpty true fuel {}).batch :=
  scan_complete nonEmpty hg fuel b hb hfuel

example : NoGap3 (fun b => decide (b < 3)) := by
  intro b hb j hj
  simp only [decide_eq_true_eq] at hb
  simp only [decide_eq_false_iff_not, not_and]
  intro h1
  omega

/-- Restore into an empty store after a history (concrete): everything the mint holds for the seed comes back. -/
example :
    let w := runHist selK w0 [.mintReq 0 0 64, .settle 0 0, .mintTokens 0 0, .send 0 0 20 false, .restore 0 [0, 1]]
    walletValue (w.wallet 0) = seedTruth w 0 ∧ seedTruth w 0 = 64 := by decide +kernel

end Gonuts.Props.C19
