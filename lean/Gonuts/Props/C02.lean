import Gonuts.Lemmas.MintSeq
import Gonuts.Props.C01
/-!
  C02 — no inflation.  Per-operation value bounds of the mint model, for every input (`UInt64` semantics with
  Go's wrap-around where the Go is unchecked), every fee configuration and every Lightning answer script:

  * `swap_out_le_in_minus_fee` — swap outputs never exceed inputs minus input fees (in ℕ; no size hypothesis: the
    unchecked input sum can only wrap DOWN);
  * `mint_out_le_quote` — issued outputs never exceed the quote amount and the quote was PAID;
  * `melt_burns_amount_reserve_fees` — an accepted melt locks at least amount + fee reserve + input fees;
  * `fee_limit_eq_reserve` — the fee limit handed to the backend is the quote's fee reserve, and the msat amount
    attempted is the quote's (F1);
  * `meltquote_covers_msat` — 1000·(quoted amount) ≥ msat to be paid, full and MPP (F2);
  * `signatures_match_outputs` — every signature is for exactly the requested output amount on the active keyset.

  The history-level ledger inequality of DESIGN §5/C02 is NOT proved in this file (see DESIGN.md); it is checked on
  the implementation after every operation by the model-free ledger monitor of streams mint-seq / mint-mon.
-/
namespace Gonuts.Props.C02
open Gonuts.Model Gonuts.Model.Mint

theorem natSum_wrap_le (xs : List UInt64) : (amountWrap xs).toNat ≤ natSum xs := by
  rw [amountWrap_toNat]; exact Nat.mod_le _ _

/-- Swap: Σ outputs + input fee ≤ Σ inputs, as natural numbers. -/
theorem swap_out_le_in_minus_fee (cx : Cx) (ps : List Proof) (outs : List BMsg) (v : Option E) (s s' : DL) (sigs : List BSig)
    (h : runM (swap cx ps outs v) s = (s', .ok sigs)) :
    natSum (outs.map (·.amount)) + (transactionFees cx.mem ps).toNat ≤ natSum (ps.map (·.amount)) := by
  rcases swap_cases cx ps outs v s s' _ h with ⟨e, he, _⟩ | ⟨sigs', _, hok⟩
  · cases he
  · obtain ⟨outTotal, hac, hbal⟩ := hok.balance
    have h1 := amountChecked_some _ _ hac
    have h2 := (underflowSub_ok_iff _ _).1 hok.noUnder
    have h3 := underflowSub_ok_val _ _ hok.noUnder
    have h4 : outTotal.toNat ≤ (underflowSub (amountWrap (ps.map (·.amount))) (transactionFees cx.mem ps)).1.toNat := by
      rw [UInt64.lt_iff_toNat_lt] at hbal; omega
    have h5 := natSum_wrap_le (ps.map (·.amount))
    simp only [outAmounts] at h1
    omega

/-- Every signature returned is for exactly the amount of the output in the same position, on the active keyset. -/
theorem signatures_match_outputs (cx : Cx) (ps : List Proof) (outs : List BMsg) (v : Option E) (s s' : DL) (sigs : List BSig)
    (h : runM (swap cx ps outs v) s = (s', .ok sigs)) :
    sigs.map (·.amount) = outs.map (·.amount) ∧ sigs.map (·.b) = outs.map (·.b.sid) ∧ ∀ sg ∈ sigs, sg.ks = cx.mem.active := by
  rcases swap_cases cx ps outs v s s' _ h with ⟨e, he, _⟩ | ⟨sigs', he, hok⟩
  · cases he
  · injection he with he; subst he
    obtain ⟨h1, h2, h3, _⟩ := signAll_ok hok.signed
    exact ⟨h2, h1, fun sg hsg => (h3 sg hsg).1⟩

/-- Mint: the quote was PAID when the inner issuance ran, Σ outputs ≤ quote amount (ℕ), and the NUT-20 check passed. -/
theorem mint_out_le_quote (cx : Cx) (qid : Int) (outs : List BMsg) (sig : QSig) (s s' : DL) (sigs : List BSig)
    (h : runM (mintTokens cx qid outs sig) s = (s', .ok sigs)) :
    ∃ q, (gmqsSpec qid s).2 = .ok q ∧ q.state = .paid ∧ natSum (outs.map (·.amount)) ≤ q.amount.toNat ∧
      sigs.map (·.amount) = outs.map (·.amount) ∧ quoteSigOk q (outs.map (·.b.sid)) sig = true := by
  rcases mintTokens_cases cx qid outs sig s s' _ h with ⟨e, _, he, _⟩ | ⟨q, hq, hc⟩
  · cases he
  · refine ⟨q, hq, ?_⟩
    rcases hc with ⟨_, he, _⟩ | ⟨_, he, _⟩ | ⟨_, he, _⟩ | ⟨hp, ⟨e, he, _⟩ | ⟨sigs', he, hok⟩⟩
    · cases he
    · cases he
    · cases he
    · cases he
    · injection he with he; subst he
      obtain ⟨total, hac, hle⟩ := hok.amount
      have h1 := amountChecked_some _ _ hac
      have h2 : total.toNat ≤ q.amount.toNat := by
        have : ¬ q.amount < total := hle
        rw [UInt64.lt_iff_toNat_lt] at this; omega
      simp only [outAmounts] at h1
      exact ⟨hp, by omega, (signAll_ok hok.signed).2.1, hok.nut20⟩

/-- Melt: an accepted melt (inputs locked) holds at least amount + fee reserve + input fees in inputs
    (`UInt64` comparison as the Go performs it; exact in ℕ when the right-hand side does not wrap). -/
theorem melt_burns_amount_reserve_fees (cx : Cx) (qid : Int) (ps : List Proof) (s : DL) (q : MeltQ)
    (hacc : MeltAccepted cx qid ps s q)
    (hnw : q.amount.toNat + q.feeReserve.toNat + (transactionFees cx.mem ps).toNat < 2 ^ 64) :
    q.amount.toNat + q.feeReserve.toNat + (transactionFees cx.mem ps).toNat ≤ natSum (ps.map (·.amount)) := by
  have h := hacc.enough
  rw [UInt64.lt_iff_toNat_lt] at h
  have e1 : (q.amount + q.feeReserve + transactionFees cx.mem ps).toNat =
      q.amount.toNat + q.feeReserve.toNat + (transactionFees cx.mem ps).toNat := by
    rw [UInt64.toNat_add, UInt64.toNat_add]
    have : (q.amount.toNat + q.feeReserve.toNat) % 2 ^ 64 = q.amount.toNat + q.feeReserve.toNat :=
      Nat.mod_eq_of_lt (by omega)
    rw [this]; exact Nat.mod_eq_of_lt hnw
  have := natSum_wrap_le (ps.map (·.amount))
  omega

/-- The fee limit handed to the Lightning backend is the fee reserve of the quote (the user paid for it), the
    attempt is for the quote's invoice and msat amount, and a melt makes at most one attempt. -/
theorem fee_limit_eq_reserve (cx : Cx) (qid : Int) (ps : List Proof) (s s' : DL) (r : Except E MeltQ)
    (h : runM (meltTokens cx qid ps) s = (s', r)) :
    payCalls s'.2 = payCalls s.2 ∨
    ∃ q c, dbGetMeltQ s.1 qid = .ok q ∧ payCalls s'.2 = payCalls s.2 ++ [c] ∧ c.maxFee = q.feeReserve ∧
      c.hash = (q.inv : Int) ∧
      c.msat = (if q.isMpp then (if q.amountMsat == 0 then invMsat s.2 q.inv else q.amountMsat) else invMsat s.2 q.inv) :=
  melt_payCalls cx qid ps s s' r h

/-- The quoted amount covers the msat that will be paid (invoice amount, or the MPP partial amount), for msat < 2^63;
    `ii` is the invoice of the request (`hh` its payment hash: the same id unless the invoice was made by somebody else
    with the hash of another invoice). -/
theorem meltquote_covers_msat (cx : Cx) (qid : Nat) (inv : InvReq) (msatOf : Nat → UInt64) (u : Bool) (mpp : Option UInt64)
    (s s' : DL) (q : MeltQ) (h : runM (requestMeltQuote cx qid inv msatOf u mpp) s = (s', .ok q))
    (hlt : ∀ hh, (msatOf hh).toNat < 2 ^ 63) :
    ∃ ii hh, (inv = .inv hh ∧ ii = hh ∨ inv = .forged ii hh) ∧ q.inv = ii ∧
      (match mpp with
       | none => (msatOf ii).toNat ≤ q.amount.toNat * 1000
       | some m => m.toNat ≤ q.amount.toNat * 1000 ∧ m < msatOf ii ∧ q.isMpp = true ∧ q.amountMsat = m) := by
  rcases requestMeltQuote_cases cx qid inv msatOf u mpp s s' _ h with ⟨e, he, _⟩ | ⟨ii, hh, q', hinv, he, hok⟩
  · cases he
  · injection he with he; subst he
    refine ⟨ii, hh, hinv, hok.id.2.1, ?_⟩
    rcases meltQuotePlan_ok hok.plan with ⟨rfl, hp⟩ | ⟨m, rfl, _, _, hlt', hp⟩
    · simp only []
      have : q.amount = ceilSat (msatOf ii) := by injection hp with _ hp; injection hp
      rw [this]; exact ceilSat_covers _ (hlt ii)
    · simp only []
      injection hp with h1 hp; injection hp with h2 h3
      refine ⟨?_, hlt', h1, h2⟩
      rw [h3]
      apply ceilSat_covers
      have := hlt ii
      rw [UInt64.lt_iff_toNat_lt] at hlt'
      omega

/-- The fee reserve never exceeds what the quote says; an internally settled quote has none. -/
theorem meltquote_reserve (cx : Cx) (qid : Nat) (inv : InvReq) (msatOf : Nat → UInt64) (u : Bool) (mpp : Option UInt64)
    (s s' : DL) (q : MeltQ) (h : runM (requestMeltQuote cx qid inv msatOf u mpp) s = (s', .ok q)) :
    ∃ hh, q.hash = hh ∧ q.feeReserve = reserveFor (dbGetMintQByHash s.1 hh).toBool (lnFee s.2 q.amount) := by
  rcases requestMeltQuote_cases cx qid inv msatOf u mpp s s' _ h with ⟨e, he, _⟩ | ⟨ii, hh, q', hinv, he, hok⟩
  · cases he
  · injection he with he; subst he
    exact ⟨hh, hok.id.2.2.1, hok.reserve⟩

/-- F17 (repaired): a melt quote whose payment hash is that of a mint quote of this mint — the only quotes that are settled
    internally — is for that mint quote's OWN invoice; an invoice made by somebody else with that payment hash (and any
    amount) is refused, whatever else the request says. -/
theorem internal_only_for_own_invoice (cx : Cx) (qid : Nat) (inv : InvReq) (msatOf : Nat → UInt64) (u : Bool) (mpp : Option UInt64)
    (s s' : DL) (q : MeltQ) (h : runM (requestMeltQuote cx qid inv msatOf u mpp) s = (s', .ok q))
    (hm : (dbGetMintQByHash s.1 q.hash).toBool = true) : q.inv = q.hash := by
  rcases requestMeltQuote_cases cx qid inv msatOf u mpp s s' _ h with ⟨e, he, _⟩ | ⟨ii, hh, q', hinv, he, hok⟩
  · cases he
  · injection he with he; subst he
    obtain ⟨_, hi, hhh, _, _⟩ := hok.id
    rw [hhh] at hm
    rw [hi, hhh, hok.own hm]

theorem foreign_invoice_refused (cx : Cx) (qid : Nat) (f hh : Nat) (hne : f ≠ hh) (msatOf : Nat → UInt64) (u : Bool) (mpp : Option UInt64)
    (s s' : DL) (r : Except E MeltQ) (h : runM (requestMeltQuote cx qid (.forged f hh) msatOf u mpp) s = (s', r))
    (hm : (dbGetMintQByHash s.1 hh).toBool = true) : ∃ e, r = .error e ∧ s' = s := by
  rcases requestMeltQuote_cases cx qid _ msatOf u mpp s s' _ h with h1 | ⟨ii, hh', q', hinv, he, hok⟩
  · exact h1
  · rcases hinv with ⟨h1, _⟩ | h1
    · cases h1
    · injection h1 with h1 h2; subst h1; subst h2
      exact absurd (hok.own hm) hne

/-! Non-vacuity. -/
example : ceilSat 110488 = 111 := by decide
example : (transactionFees { keysets := [⟨0, true, 100⟩], active := 0 } [C01.k0, C01.k0, C01.k0]) = 1 := by decide

end Gonuts.Props.C02
