import Gonuts.Lemmas.Send
import Gonuts.Lemmas.Sorter
import Gonuts.Lemmas.SelectFixed
import Gonuts.Lemmas.Blank
/-!
  C18 — send hands over exactly the requested amount, fees included when asked.
  Pure part: coin selection, fee and split arithmetic of the wallet (`Model.Select`, `Model.Amount`),
  `UInt64` semantics, for every multiset of proofs, every amount, every `input_fee_ppk`, and every
  tie-breaking of Go's unstable `sort.Slice` (`srt : Sorter` with `srt.OK`: the two sort calls return a
  permutation of their input — nothing else about them is used).

  ℕ-valued notions (`Lemmas/Select.lean`): `amountN ps` = Σ amounts, `ppkSum m ps` = Σ input_fee_ppk as the
  wallet looks them up, `feeN m ps = ⌈ppkSum / 1000⌉`, `feeOptN m inc ps` = `feeN` if fees are included else 0,
  `NoWrap m inc ps` = "Σ amounts + fee of spending all of `ps` < 2^64 and (if fees) Σ ppk + 999 < 2^64".

  Known findings (the code as it is violates the full property; model = code):
  * `send_exact_fee_full_false`  — K6 `C18/swapToSend/fee-split-popcount`;
  * `send_succeeds_full_false`   — `C18/selectProofsForAmount/inactive-selection-discarded` and
    `C18/selectProofsForAmount/per-call-fee-ceilings` (both need proofs of an inactive keyset).
  Only property theorems here; helper lemmas are in `Gonuts/Lemmas/{Amount,Select,Send}.lean`.
-/
namespace Gonuts.Props.C18
open Gonuts.Model Gonuts.Model.Select

-- the closed witnesses below are evaluated by `decide`
set_option maxRecDepth 100000

theorem amountChecked_exact (xs : List UInt64) (r : UInt64) (h : amountChecked xs = some r) :
    r.toNat = natSum xs := amountChecked_some xs r h

example : amountChecked [1, 2, 3] = some 6 := by decide

/-! ## AmountSplit -/

/-- Σ AmountSplit(a) = a (in ℕ: no entry and no partial sum wraps). -/
theorem amountSplit_sum (a : UInt64) : natSum (amountSplit a) = a.toNat := amountSplit_natSum a

/-- The entries are distinct powers of two below 2^64, in strictly ascending order. -/
theorem amountSplit_pow2_strictMono (a : UInt64) :
    ∃ exps : List Nat, exps.Pairwise (· < ·) ∧ (∀ e ∈ exps, e < 64) ∧
      amountSplit a = exps.map (fun e => UInt64.ofNat (2 ^ e)) ∧
      (amountSplit a).map UInt64.toNat = exps.map (2 ^ ·) ∧
      (amountSplit a).Pairwise (· < ·) := by
  refine ⟨amountSplitExps a, amountSplitExps_pairwise a, amountSplitExps_lt a, amountSplit_eq_map a, ?_,
    amountSplit_pairwise_lt a⟩
  rw [amountSplit_eq_map, List.map_map]
  exact List.map_congr_left (fun e he => toNat_ofNat_pow2 (amountSplitExps_lt a e he))

example : amountSplit 13 = [1, 4, 8] := by decide
example : amountSplit (UInt64.ofNat (2 ^ 64 - 1)) = (List.range 64).map (fun e => UInt64.ofNat (2 ^ e)) := by decide

/-! ## fees -/

/-- `(s + 999) / 1000` is the ceiling of `s / 1000`: the least `n` with `s ≤ 1000 n`. -/
theorem ceilDiv1000_is_ceiling (s : Nat) :
    s ≤ 1000 * ceilDiv1000 s ∧ ∀ n, s ≤ 1000 * n → ceilDiv1000 s ≤ n :=
  ⟨(ceilDiv1000_spec s).1, fun n h => ceilDiv1000_least s n h⟩

/-- `⌈a⌉ + ⌈b⌉ ≥ ⌈a + b⌉` (and at most one more). -/
theorem ceil_add_le (a b : Nat) :
    ceilDiv1000 (a + b) ≤ ceilDiv1000 a + ceilDiv1000 b ∧ ceilDiv1000 a + ceilDiv1000 b ≤ ceilDiv1000 (a + b) + 1 :=
  ⟨ceilDiv1000_add_le a b, ceilDiv1000_add_ge a b⟩

example : ceilDiv1000 (500 + 500) = 1 ∧ ceilDiv1000 500 + ceilDiv1000 500 = 2 := by decide

/-- `feesForCount(n, keyset) = ⌈n · ppk / 1000⌉` when `n · ppk + 999` fits 64 bits … -/
theorem feesForCount_eq (n : Nat) (ppk : UInt64) (h : n * ppk.toNat + 999 < 2 ^ 64) :
    (feesForCount n ppk).toNat = ceilDiv1000 (n * ppk.toNat) := feesForCount_exact h

/-- … and for every input: the accumulation and the `+ 999` both wrap modulo 2^64. -/
theorem feesForCount_wrap (n : Nat) (ppk : UInt64) :
    (feesForCount n ppk).toNat = (((n * ppk.toNat) % 2 ^ 64 + 999) % 2 ^ 64) / 1000 := feesForCount_toNat n ppk

example : feesForCount 3 1000 = 3 ∧ feesForCount 3 250 = 1 ∧ feesForCount 0 2500 = 0 := by decide
example : 3 * (1000 : UInt64).toNat + 999 < 2 ^ 64 := by decide
/-- wrap: `2 · 2^63` accumulates to 0. -/
example : feesForCount 2 (UInt64.ofNat (2 ^ 63)) = 0 := by decide

/-- `feesForProofs = ⌈Σ ppk / 1000⌉` over the proofs' keysets (active id first, then the inactive map,
    unknown keyset: 0) when `Σ ppk + 999` fits 64 bits … -/
theorem feesForProofs_eq (m : Mint) (ps : List P) (h : ppkSum m ps + 999 < 2 ^ 64) :
    (feesForProofs m ps).toNat = ceilDiv1000 (ppkSum m ps) := feesForProofs_exact h

/-- … and for every input. -/
theorem feesForProofs_wrap (m : Mint) (ps : List P) :
    (feesForProofs m ps).toNat = ((ppkSum m ps % 2 ^ 64 + 999) % 2 ^ 64) / 1000 := feesForProofs_toNat m ps

example : feesForProofs { activeId := 1, activePpk := 250, inactive := [(2, 999)] }
    [⟨4, 1, 0⟩, ⟨4, 2, 1⟩, ⟨1, 7, 2⟩] = 2 := by decide
example : ppkSum { activeId := 1, activePpk := 250, inactive := [(2, 999)] }
    [⟨4, 1, 0⟩, ⟨4, 2, 1⟩, ⟨1, 7, 2⟩] + 999 < 2 ^ 64 := by decide

/-- The mint's `TransactionFees` is `⌈Σ ppk / 1000⌉` over its own keyset table (no wrap) … -/
theorem transactionFees_eq_ceil (ppkOfKeyset : Nat → UInt64) (inputs : List P)
    (h : natSum (inputs.map (fun p => ppkOfKeyset p.ks)) + 999 < 2 ^ 64) :
    (transactionFees ppkOfKeyset inputs).toNat = ceilDiv1000 (natSum (inputs.map (fun p => ppkOfKeyset p.ks))) :=
  feesOfPpks_exact _ h

/-- … and the wallet computes the same number whenever its keyset table agrees with the mint's on the
    proofs' keysets (same code shape, `fees += ppk; (fees + 999) / 1000`), wrap-around included. -/
theorem wallet_fee_eq_mint_fee (m : Mint) (ppkOfKeyset : Nat → UInt64) (ps : List P)
    (h : ∀ p ∈ ps, m.ppkOf p.ks = ppkOfKeyset p.ks) : feesForProofs m ps = transactionFees ppkOfKeyset ps := by
  unfold feesForProofs transactionFees ppks
  rw [List.map_congr_left h]

example : transactionFees (fun _ => 1000) [⟨1, 1, 0⟩, ⟨1, 1, 1⟩, ⟨2, 1, 2⟩, ⟨2, 1, 3⟩] = 4 := by decide
example : natSum (([⟨1, 1, 0⟩, ⟨1, 1, 1⟩, ⟨2, 1, 2⟩, ⟨2, 1, 3⟩] : List P).map (fun _ => (1000 : UInt64))) + 999
    < 2 ^ 64 := by decide
/-- a wallet table that agrees with the mint's on the keysets of the proofs -/
example : ∀ p ∈ ([⟨4, 1, 0⟩, ⟨4, 2, 1⟩] : List P),
    ({ activeId := 1, activePpk := 250, inactive := [(2, 999)] } : Mint).ppkOf p.ks
      = (fun k => if k = 1 then 250 else 999) p.ks := by decide

/-! ## select_sound -/

/-- A successful `selectProofsToSend` returns a sub-multiset of the proofs it was given that passes the
    code's own `uint64` tests — for every input, nothing assumed about sizes. -/
theorem select_sound_u64 {srt : Sorter} (hs : srt.OK) {m : Mint} {proofs sel : List P} {amount : UInt64}
    {inc : Bool} (h : selectProofsToSend srt m proofs amount inc = .ok sel) :
    (∃ rest, (sel ++ rest).Perm proofs) ∧ ¬ (proofsAmount sel < amount + feeOpt m inc sel) :=
  ⟨(selectProofsToSend_ok_u64 hs h).1, (selectProofsToSend_ok_u64 hs h).2.1⟩

example : selectProofsToSend stableSorter { activeId := 1, activePpk := 1000, inactive := [] }
    [⟨1, 1, 0⟩, ⟨2, 1, 1⟩, ⟨8, 1, 2⟩] 2 true = .ok [⟨2, 1, 1⟩, ⟨1, 1, 0⟩, ⟨8, 1, 2⟩] := by decide

/-- In ℕ: a successful `selectProofsToSend` returns a sub-multiset of the holdings worth at least
    `amount + fee(selected)`, provided the holdings' value plus the fee of spending all of them, the ppk sum
    and `amount + that fee` fit 64 bits. -/
theorem select_sound_toSend {srt : Sorter} (hs : srt.OK) {m : Mint} {proofs sel : List P} {amount : UInt64}
    {inc : Bool} (h : selectProofsToSend srt m proofs amount inc = .ok sel)
    (hn : NoWrap m inc proofs) (hA : amount.toNat + feeOptN m inc proofs < 2 ^ 64) :
    (∃ rest, (sel ++ rest).Perm proofs) ∧ amount.toNat + feeOptN m inc sel ≤ amountN sel :=
  selectProofsToSend_ok_nat hs h hn hA

example : NoWrap { activeId := 1, activePpk := 1000, inactive := [] } true [⟨1, 1, 0⟩, ⟨2, 1, 1⟩, ⟨8, 1, 2⟩] ∧
    (2 : UInt64).toNat + feeOptN { activeId := 1, activePpk := 1000, inactive := [] } true
      [⟨1, 1, 0⟩, ⟨2, 1, 1⟩, ⟨8, 1, 2⟩] < 2 ^ 64 := ⟨⟨by decide, fun _ => by decide⟩, by decide⟩

/-- What happens on wrap-around: without `hA` the ℕ statement fails. `amount = 2^64-1`, one proof of
    `2^64-1` at ppk 1000: `remainingAmount + fees` and `amount + fees` wrap to 0, both tests pass, and the
    proof is returned although it does not cover `amount + 1`. -/
example :
    selectProofsToSend stableSorter { activeId := 1, activePpk := 1000, inactive := [] }
      [⟨UInt64.ofNat (2 ^ 64 - 1), 1, 0⟩] (UInt64.ofNat (2 ^ 64 - 1)) true
      = .ok [⟨UInt64.ofNat (2 ^ 64 - 1), 1, 0⟩] ∧
    ¬ ((UInt64.ofNat (2 ^ 64 - 1)).toNat + feeOptN { activeId := 1, activePpk := 1000, inactive := [] } true
        [⟨UInt64.ofNat (2 ^ 64 - 1), 1, 0⟩] ≤ amountN [⟨UInt64.ofNat (2 ^ 64 - 1), 1, 0⟩]) := by decide

/-- `select_sound`: a successful `selectProofsForAmount` (inactive keysets first, then the active one)
    returns a sub-multiset of the holdings whose value is at least `amount + fee(selected)`; the inactive
    and the active part are joined by `⌈a⌉ + ⌈b⌉ ≥ ⌈a + b⌉`. -/
theorem select_sound {srt : Sorter} (hs : srt.OK) {m : Mint} {inactive active sel : List P}
    {amount : UInt64} {inc : Bool} (h : selectProofsForAmount srt m inactive active amount inc = .ok sel)
    (hn : NoWrap m inc (inactive ++ active))
    (hA : amount.toNat + feeOptN m inc inactive + feeOptN m inc active < 2 ^ 64) :
    (∃ rest, (sel ++ rest).Perm (inactive ++ active)) ∧ amount.toNat + feeOptN m inc sel ≤ amountN sel :=
  selectProofsForAmount_ok_nat hs h hn hA

/-! Non-vacuity: a wallet with two inactive keysets and fees; the selection takes all inactive proofs and
    tops up from the active keyset. -/
def exMint : Mint := { activeId := 1, activePpk := 500, inactive := [(2, 1000), (3, 250)] }
def exInactive : List P := [⟨2, 2, 0⟩, ⟨1, 3, 1⟩]
def exActive : List P := [⟨1, 1, 2⟩, ⟨4, 1, 3⟩, ⟨8, 1, 4⟩]

example : selectProofsForAmount stableSorter exMint exInactive exActive 6 true
    = .ok [⟨2, 2, 0⟩, ⟨1, 3, 1⟩, ⟨4, 1, 3⟩, ⟨1, 1, 2⟩, ⟨8, 1, 4⟩] := by decide
example : NoWrap exMint true (exInactive ++ exActive) := ⟨by decide, fun _ => by decide⟩
example : (6 : UInt64).toNat + feeOptN exMint true exInactive + feeOptN exMint true exActive < 2 ^ 64 := by decide
example : stableSorter.OK := stableSorter_ok

/-- Selected proofs are pairwise distinct whenever the holdings are (a sub-multiset of a duplicate-free list). -/
theorem select_distinct {sel rest holdings : List P} (h : (sel ++ rest).Perm holdings) (hd : holdings.Nodup) :
    sel.Nodup :=
  ((h.nodup_iff.2 hd).sublist (List.sublist_append_left sel rest))

example : (exInactive ++ exActive).Nodup := by decide

/-- The iteration bound of the model's loop is immaterial: every fuel above the number of proofs gives the
    state the unbounded Go loop ends in. -/
theorem loop_fuel_irrelevant {srt : Sorter} (hs : srt.OK) (m : Mint) (proofs : List P) (amount : UInt64)
    (inc : Bool) (fuel : Nat) (hf : proofs.length < fuel) :
    selectLoop srt m amount inc fuel (initSt srt proofs amount) = finalSt srt m proofs amount inc :=
  selectProofsToSend_fuel hs m proofs amount inc fuel hf

/-! ## send_exact -/

/-- `send_exact_offline`: when `getProofsForAmount` hands over stored proofs, the explicit
    `selectedProofs.Amount() == amount + fees` test makes them worth exactly `amount + fee(those proofs)`
    (`uint64` equality for every input; ℕ equality and sub-multiset under the no-wrap hypotheses). -/
theorem send_exact_offline {srt : Sorter} (hs : srt.OK) {m : Mint} {inactive active sel : List P}
    {amount : UInt64} {inc : Bool} (h : getProofsForAmount srt m inactive active amount inc = .offline sel) :
    proofsAmount sel = amount + feeOpt m inc sel ∧
    (NoWrap m inc (inactive ++ active) →
      amount.toNat + feeOptN m inc inactive + feeOptN m inc active < 2 ^ 64 →
      (∃ rest, (sel ++ rest).Perm (inactive ++ active)) ∧ amountN sel = amount.toNat + feeOptN m inc sel) := by
  rcases getProofsForAmount_cases srt m inactive active amount inc with
    ⟨e, _, _, he⟩ | ⟨sel', hsel, heq, ho⟩ | ⟨sel', _, _, hsw⟩
  · rw [he] at h; exact SendOutcome.noConfusion h
  · rw [ho] at h
    injection h with h
    subst h
    refine ⟨heq, fun hn hA => ?_⟩
    obtain ⟨⟨rest, hp⟩, _⟩ := selectProofsForAmount_ok_nat hs hsel hn hA
    refine ⟨⟨rest, hp⟩, ?_⟩
    obtain ⟨_, s2, s3, s4⟩ := hn.sub hp
    have i2 := feeOptN_le_of_sub m inc (sel := inactive) (rest := active) (List.Perm.refl _)
    have := congrArg UInt64.toNat heq
    rw [UInt64.toNat_add, s3, s4] at this
    have a2 := feeOptN_append_le m inc inactive active
    rw [this, Nat.mod_eq_of_lt (by omega)]
  · rw [hsw] at h
    rcases swapToSend_cases srt m inactive active amount inc with ⟨e, he, _⟩ | ⟨plan, hp, _⟩
    · rw [he] at h; exact SendOutcome.noConfusion h
    · rw [hp] at h; exact SendOutcome.noConfusion h

/-- amount 5 with fees: `[2,1,4,1]` = 8 = 5 + ⌈(1000+250+500+500)/1000⌉. -/
example : getProofsForAmount stableSorter exMint exInactive exActive 5 true
    = .offline [⟨2, 2, 0⟩, ⟨1, 3, 1⟩, ⟨4, 1, 3⟩, ⟨1, 1, 2⟩] := by decide
example : (5 : UInt64).toNat + feeOptN exMint true exInactive + feeOptN exMint true exActive < 2 ^ 64 := by decide

/-- `send_exact_swap_nofee`: without fees the proofs created by the swap for the recipient are worth exactly
    `amount` (ℕ sum; they are the set bits of `amount`). -/
theorem send_exact_swap_nofee {srt : Sorter} {m : Mint} {inactive active : List P} {amount : UInt64}
    {plan : SwapPlan} (h : getProofsForAmount srt m inactive active amount false = .swap plan) :
    natSum plan.send = amount.toNat ∧ plan.send = sortU64 (amountSplit amount) := by
  have hsend : plan.send = sendSplit m.activePpk amount false := by
    rcases getProofsForAmount_cases srt m inactive active amount false with
      ⟨e, _, _, he⟩ | ⟨sel', _, _, ho⟩ | ⟨sel', _, _, hsw⟩
    · rw [he] at h; exact SendOutcome.noConfusion h
    · rw [ho] at h; exact SendOutcome.noConfusion h
    · rw [hsw] at h
      rcases swapToSend_cases srt m inactive active amount false with ⟨e, he, _⟩ | ⟨plan', hp, hs, _⟩
      · rw [he] at h; exact SendOutcome.noConfusion h
      · rw [hp] at h; injection h with h; subst h; exact hs
  refine ⟨?_, ?_⟩
  · rw [hsend, sendSplit_natSum, feesToReceive_nofee]; simp
  · rw [hsend]; simp [sendSplit, feesToReceive, amountSplit_zero]

example : getProofsForAmount stableSorter exMint exInactive exActive 5 false =
    .swap { amount' := 5, feesToReceive := 0, inputs := [⟨2, 2, 0⟩, ⟨1, 3, 1⟩, ⟨4, 1, 3⟩, ⟨1, 1, 2⟩], send := [1, 4],
            proofsAmount := 8, fees := 3, changeAmount := 0, change := [] } := by decide

/-- The fee the mint charges when the recipient redeems the sent proofs (all of the active keyset):
    `TransactionFees` of `send.length` proofs at the active keyset's ppk. -/
def redeemFee (m : Mint) (send : List UInt64) : UInt64 := feesForCount send.length m.activePpk

theorem redeemFee_eq_transactionFees (m : Mint) (ppkOfKeyset : Nat → UInt64) (send : List UInt64)
    (h : ppkOfKeyset m.activeId = m.activePpk) :
    redeemFee m send = transactionFees ppkOfKeyset (send.map (fun a => { amount := a, ks := m.activeId })) := by
  unfold redeemFee feesForCount transactionFees
  congr 1
  rw [List.map_map]
  induction send with
  | nil => rfl
  | cons x xs ih => simp [List.replicate_succ, ih, h]

example : (fun (_ : Nat) => (1000 : UInt64)) (Mint.mk 1 1000 []).activeId = (Mint.mk 1 1000 []).activePpk := rfl

/-- `send_exact_fee`, the full property: with `includeFees` the proofs handed over by the swap path are worth
    `amount +` the fee the mint will charge for those very proofs. -/
def send_exact_fee_full : Prop :=
  ∀ (srt : Sorter) (m : Mint) (inactive active : List P) (amount : UInt64) (plan : SwapPlan), srt.OK →
    getProofsForAmount srt m inactive active amount true = .swap plan →
    natSum plan.send = amount.toNat + (redeemFee m plan.send).toNat

def k6Mint : Mint := { activeId := 1, activePpk := 1000, inactive := [] }
def k6Active : List P := [⟨1, 1, 0⟩, ⟨2, 1, 1⟩, ⟨4, 1, 2⟩, ⟨8, 1, 3⟩]
def k6Plan : SwapPlan :=
  { amount' := 6, feesToReceive := 3, inputs := [⟨4, 1, 2⟩, ⟨2, 1, 1⟩, ⟨1, 1, 0⟩, ⟨8, 1, 3⟩], send := [1, 1, 2, 2],
    proofsAmount := 15, fees := 4, changeAmount := 5, change := [1, 1, 1, 2] }

/-- K6 witness, evaluated: ppk 1000, amount 3: the estimate `feesForCount(2+1) = 3` is itself split into
    `[1,2]`; four proofs `[1,1,2,2]` worth 6 are sent, the mint charges 4 for them, the recipient nets 2. -/
theorem k6_witness : getProofsForAmount stableSorter k6Mint [] k6Active 3 true = .swap k6Plan := by decide

/-- The code as it is violates `send_exact_fee` (known finding `C18/swapToSend/fee-split-popcount`). -/
theorem send_exact_fee_full_false : ¬ send_exact_fee_full := fun h =>
  absurd (h stableSorter k6Mint [] k6Active 3 k6Plan stableSorter_ok k6_witness) (by decide)

/-- `send_exact_fee_partial`: the property holds exactly when the estimate is a fixed point of the fee of the
    number of proofs really sent: `fee(popcount(amount) + popcount(f)) = f` for `f = feesForCount(popcount(amount)+1)`. -/
theorem send_exact_fee_partial {srt : Sorter} {m : Mint} {inactive active : List P} {amount : UInt64}
    {plan : SwapPlan} (h : getProofsForAmount srt m inactive active amount true = .swap plan)
    (hfix : feesForCount ((amountSplit amount).length + (amountSplit (feesToReceive m.activePpk amount true)).length)
              m.activePpk = feesToReceive m.activePpk amount true) :
    natSum plan.send = amount.toNat + (redeemFee m plan.send).toNat := by
  have hsend : plan.send = sendSplit m.activePpk amount true := by
    rcases getProofsForAmount_cases srt m inactive active amount true with
      ⟨e, _, _, he⟩ | ⟨sel', _, _, ho⟩ | ⟨sel', _, _, hsw⟩
    · rw [he] at h; exact SendOutcome.noConfusion h
    · rw [ho] at h; exact SendOutcome.noConfusion h
    · rw [hsw] at h
      rcases swapToSend_cases srt m inactive active amount true with ⟨e, he, _⟩ | ⟨plan', hp, hs, _⟩
      · rw [he] at h; exact SendOutcome.noConfusion h
      · rw [hp] at h; injection h with h; subst h; exact hs
  rw [hsend, sendSplit_natSum, redeemFee, sendSplit_length, hfix]

/-- The hypothesis is necessary as well (given the swap path was taken): exactness fails whenever it fails. -/
theorem send_exact_fee_partial_converse {srt : Sorter} {m : Mint} {inactive active : List P} {amount : UInt64}
    {plan : SwapPlan} (h : getProofsForAmount srt m inactive active amount true = .swap plan)
    (hex : natSum plan.send = amount.toNat + (redeemFee m plan.send).toNat) :
    feesForCount ((amountSplit amount).length + (amountSplit (feesToReceive m.activePpk amount true)).length)
      m.activePpk = feesToReceive m.activePpk amount true := by
  have hsend : plan.send = sendSplit m.activePpk amount true := by
    rcases getProofsForAmount_cases srt m inactive active amount true with
      ⟨e, _, _, he⟩ | ⟨sel', _, _, ho⟩ | ⟨sel', _, _, hsw⟩
    · rw [he] at h; exact SendOutcome.noConfusion h
    · rw [ho] at h; exact SendOutcome.noConfusion h
    · rw [hsw] at h
      rcases swapToSend_cases srt m inactive active amount true with ⟨e, he, _⟩ | ⟨plan', hp, hs, _⟩
      · rw [he] at h; exact SendOutcome.noConfusion h
      · rw [hp] at h; injection h with h; subst h; exact hs
  rw [hsend, sendSplit_natSum, redeemFee, sendSplit_length] at hex
  exact UInt64.toNat_inj.1 (by omega)

/-- Non-vacuity of the partial theorem: ppk 1000, amount 4 from `[8]`: estimate 2 = one proof, two proofs sent,
    the mint charges 2. -/
example : getProofsForAmount stableSorter k6Mint [] [⟨8, 1, 0⟩] 4 true =
      .swap { amount' := 6, feesToReceive := 2, inputs := [⟨8, 1, 0⟩], send := [2, 4], proofsAmount := 8, fees := 1,
              changeAmount := 1, change := [1] } ∧
    feesForCount ((amountSplit 4).length + (amountSplit (feesToReceive k6Mint.activePpk 4 true)).length)
      k6Mint.activePpk = feesToReceive k6Mint.activePpk 4 true := ⟨by decide, by decide⟩
/-- … and of the converse: `[2,4]` is worth 6 = 4 + the mint's fee 2 for two proofs. -/
example : natSum ([2, 4] : List UInt64) = (4 : UInt64).toNat + (redeemFee k6Mint [2, 4]).toNat := by decide

/-! ## send_succeeds -/

/-- `selectProofsToSend` never refuses what its input can pay for: if `amount +` the fee of spending EVERY
    proof given is covered by those proofs, it returns proofs.  Full `uint64` strength: every ppk, every
    tie-breaking; the proof goes through the wrapping `remainingAmount = amount + fees - selectedProofsSum`
    (when it wraps, the loop either breaks on the also-wrapping `remainingAmount+fees` or selects everything,
    and both pass the final test). -/
theorem send_succeeds_toSend {srt : Sorter} (hs : srt.OK) {m : Mint} {proofs : List P} {amount : UInt64}
    {inc : Bool} (hn : NoWrap m inc proofs) (hA : amount.toNat + feeOptN m inc proofs ≤ amountN proofs) :
    ∃ sel, selectProofsToSend srt m proofs amount inc = .ok sel :=
  selectProofsToSend_succeeds hs hn hA

/-- Non-vacuity, through the wrap-around: holdings `[1,2,4,8]`, amount 3, ppk 1000 (DESIGN C18): after 2, 1, 4
    are taken `remainingAmount = 3 + 3 - 7` wraps to 2^64-1 and the loop takes the 8 as well. -/
example : selectProofsToSend stableSorter k6Mint k6Active 3 true
    = .ok [⟨2, 1, 1⟩, ⟨1, 1, 0⟩, ⟨4, 1, 2⟩, ⟨8, 1, 3⟩] := by decide
example : NoWrap k6Mint true k6Active ∧ (3 : UInt64).toNat + feeOptN k6Mint true k6Active ≤ amountN k6Active :=
  ⟨⟨by decide, fun _ => by decide⟩, by decide⟩

/-- `send_succeeds`, the full property: a send of no more than the balance at that mint minus the fees of
    spending every proof held there (and of the fee added for the proofs sent) does not fail. -/
def send_succeeds_full : Prop :=
  ∀ (srt : Sorter) (m : Mint) (inactive active : List P) (amount : UInt64) (inc : Bool), srt.OK →
    NoWrap m true (inactive ++ active) →
    amount.toNat + (feesToReceive m.activePpk amount inc).toNat + feeN m (inactive ++ active)
      ≤ amountN (inactive ++ active) →
    ∀ e, getProofsForAmount srt m inactive active amount inc ≠ .err e

def discMint : Mint := { activeId := 1, activePpk := 1000, inactive := [(2, 1000)] }
def discInactive : List P := [⟨4, 2, 0⟩, ⟨4, 2, 1⟩]
def discActive : List P := [⟨2, 1, 2⟩]

/-- Witness 1 (`…/inactive-selection-discarded`): inactive `[4,4]`, active `[2]`, ppk 1000, Send(7): balance 10,
    fee of all three proofs 3; the inner selection over `[4,4]` fails (8 < 7+2), its error is dropped together
    with both proofs, and the active `[2]` cannot pay 7. -/
theorem discarded_witness :
    getProofsForAmount stableSorter discMint discInactive discActive 7 false = .err .errBalance := by decide

def ceilMint : Mint := { activeId := 1, activePpk := 500, inactive := [(2, 500)] }

/-- Witness 2 (`…/per-call-fee-ceilings`): inactive `[1]`, active `[2]`, both ppk 500, amount 2 as `swapToSend`
    asks for it: balance 3, fee of both proofs `⌈1000/1000⌉ = 1`; the code wants `⌈500/1000⌉ + ⌈500/1000⌉ = 2`. -/
theorem ceilings_witness :
    selectProofsForAmount stableSorter ceilMint [⟨1, 2, 0⟩] [⟨2, 1, 1⟩] 2 true = .errFunds 2 1 3 ∧
    (2 : UInt64).toNat + feeN ceilMint ([⟨1, 2, 0⟩] ++ [⟨2, 1, 1⟩]) ≤ amountN ([⟨1, 2, 0⟩] ++ [⟨2, 1, 1⟩]) := by
  decide

/-- The code as it is violates `send_succeeds` when proofs of an inactive keyset are held. -/
theorem send_succeeds_full_false : ¬ send_succeeds_full := fun h =>
  h stableSorter discMint discInactive discActive 7 false stableSorter_ok
    ⟨by decide, fun _ => by decide⟩ (by decide) _ discarded_witness

/-- `send_succeeds_partial`: `selectProofsForAmount` returns proofs under the exact extra condition
    `Affordable` (`Lemmas/Select.lean`): if the inactive proofs are worth less than the amount, the holdings
    must cover the amount plus the two SEPARATELY rounded-up fees; otherwise either the inactive proofs cover
    amount + their fee or the active proofs alone cover amount + theirs.  Every ppk, every tie-breaking. -/
theorem send_succeeds_partial {srt : Sorter} (hs : srt.OK) {m : Mint} {inactive active : List P}
    {amount : UInt64} {inc : Bool} (hn : NoWrap m inc (inactive ++ active))
    (hA : amount.toNat + feeOptN m inc inactive + feeOptN m inc active < 2 ^ 64)
    (haff : Affordable m inc inactive active amount) :
    ∃ sel, selectProofsForAmount srt m inactive active amount inc = .ok sel :=
  selectProofsForAmount_succeeds hs hn hA haff

example : Affordable exMint true exInactive exActive 6 :=
  ⟨fun _ => by decide, fun h => absurd h (by decide)⟩

/-- `send_succeeds` at full strength for a wallet that holds no proofs of inactive keysets (the normal case:
    inactive keysets only exist after the mint rotated): if `amount + feesToReceive +` the fee of spending
    every proof held is covered by the balance, `getProofsForAmount` (offline selection, else `swapToSend`'s
    selection) does not fail. -/
theorem send_succeeds_no_inactive {srt : Sorter} (hs : srt.OK) {m : Mint} {active : List P}
    {amount : UInt64} {inc : Bool} (hn : NoWrap m true active)
    (h : amount.toNat + (feesToReceive m.activePpk amount inc).toNat + feeN m active ≤ amountN active) :
    ∀ e, getProofsForAmount srt m [] active amount inc ≠ .err e := by
  intro e he
  have hv := hn.value
  have hfe : feeOptN m true active = feeN m active := rfl
  have hfi : feeOptN m inc active ≤ feeN m active := by cases inc <;> simp [feeOptN]
  have hnil : ∀ b, feeOptN m b ([] : List P) = 0 := by intro b; cases b <;> simp [feeOptN, feeN, ceilDiv1000]
  have hn' : NoWrap m inc ([] ++ active) := by
    refine ⟨by simp only [List.nil_append]; omega, fun hi => ?_⟩
    simpa using hn.ppk rfl
  have aff : ∀ (a : UInt64) (b : Bool), a.toNat + feeOptN m b active ≤ amountN active → Affordable m b [] active a := by
    intro a b hab
    refine ⟨fun _ => by simp only [hnil, amountN_nil]; omega, fun h0 => Or.inl ?_⟩
    simp only [hnil, amountN_nil] at h0 ⊢; omega
  rcases getProofsForAmount_cases srt m [] active amount inc with
    ⟨e', he', hne, _⟩ | ⟨sel', _, _, ho⟩ | ⟨sel', _, _, hsw⟩
  · obtain ⟨sel, hsel⟩ := selectProofsForAmount_succeeds hs hn' (by simp only [hnil]; omega)
      (aff amount inc (by omega))
    rw [hsel] at he'
    exact hne sel he'.symm
  · rw [ho] at he; exact SendOutcome.noConfusion he
  · rw [hsw] at he
    rcases swapToSend_cases srt m [] active amount inc with ⟨e', _, hsel', hne⟩ | ⟨plan, hp, _⟩
    · have hsum : (amount + feesToReceive m.activePpk amount inc).toNat
          = amount.toNat + (feesToReceive m.activePpk amount inc).toNat := by
        rw [UInt64.toNat_add, Nat.mod_eq_of_lt (by omega)]
      obtain ⟨sel, hsel⟩ := selectProofsForAmount_succeeds (inc := true) hs (by simpa using hn)
        (by simp only [hnil]; omega) (aff (amount + feesToReceive m.activePpk amount inc) true (by omega))
      rw [hsel] at hsel'
      exact hne sel hsel'.symm
    · rw [hp] at he; exact SendOutcome.noConfusion he

/-- The same in the property's words: `amount +` the fee of the proofs actually SENT `+` the fee of spending
    every proof held `≤` balance suffices (the estimate added never exceeds the fee of the proofs sent). -/
theorem send_succeeds_no_inactive' {srt : Sorter} (hs : srt.OK) {m : Mint} {active : List P}
    {amount : UInt64} {inc : Bool} (hn : NoWrap m true active)
    (hc : (sendSplit m.activePpk amount inc).length * m.activePpk.toNat + 999 < 2 ^ 64)
    (h : amount.toNat + (redeemFee m (sendSplit m.activePpk amount inc)).toNat + feeN m active ≤ amountN active) :
    ∀ e, getProofsForAmount srt m [] active amount inc ≠ .err e := by
  have := feesToReceive_le_sent m.activePpk amount inc hc
  exact send_succeeds_no_inactive hs hn (by unfold redeemFee at h; omega)

example : NoWrap k6Mint true k6Active ∧
    (3 : UInt64).toNat + (feesToReceive k6Mint.activePpk 3 true).toNat + feeN k6Mint k6Active ≤ amountN k6Active :=
  ⟨⟨by decide, fun _ => by decide⟩, by decide⟩
/-- in the property's words: amount 3 + fee of the four proofs sent 4 + fee of the four proofs held 4 ≤ 15 -/
example : (sendSplit k6Mint.activePpk 3 true).length * k6Mint.activePpk.toNat + 999 < 2 ^ 64 ∧
    (3 : UInt64).toNat + (redeemFee k6Mint (sendSplit k6Mint.activePpk 3 true)).toNat + feeN k6Mint k6Active
      ≤ amountN k6Active := by decide

/-! ## splitWalletTarget and the swap request -/

/-- `splitWalletTarget_sum`: for every wallet content and every amount, the returned amounts are powers of
    two, sorted, and sum to `amountToSplit` (in ℕ; `walletAmounts.length < 2^63` holds of every Go slice and
    is what keeps `uint64(target)-uint64(count)` from wrapping twice). -/
theorem splitWalletTarget_sum (walletAmounts : List UInt64) (amountToSplit : UInt64)
    (hw : walletAmounts.length < 2 ^ 63) :
    natSum (splitWalletTarget walletAmounts amountToSplit) = amountToSplit.toNat ∧
    (∀ x ∈ splitWalletTarget walletAmounts amountToSplit, ∃ e, e < 64 ∧ x.toNat = 2 ^ e) ∧
    (splitWalletTarget walletAmounts amountToSplit).Pairwise (· ≤ ·) :=
  splitWalletTarget_spec walletAmounts amountToSplit hw

/-- wallet `[1,1,1,1,2]`, 13 to split: wanted below 13 are `2,2,4,4` (three 1s are there), rest 1. -/
example : splitWalletTarget [1, 1, 1, 1, 2] 13 = [1, 2, 2, 4, 4] := by decide
/-- the largest amount: 3·(2^0+…+2^58) + 2·2^59 taken from the targets, the remainder split by bits. -/
example : natSum (splitWalletTarget [] (UInt64.ofNat (2 ^ 64 - 1))) = 2 ^ 64 - 1 := by decide

/-- `swap_balanced`: the swap request built by `swapToSend` is exactly balanced in ℕ — inputs = send outputs
    + change outputs + fee of the inputs — so the unchecked `proofsAmount - amount - uint64(fees)` does not
    wrap, the mint's `proofsAmount - fees ≥ Σ outputs` test passes, and nothing is left at the mint; the send
    outputs are worth `amount + feesToReceive`. -/
theorem swap_balanced {srt : Sorter} (hs : srt.OK) {m : Mint} {inactive active : List P} {amount : UInt64}
    {inc : Bool} {plan : SwapPlan} (h : getProofsForAmount srt m inactive active amount inc = .swap plan)
    (hn : NoWrap m true (inactive ++ active))
    (hA : amount.toNat + (feesToReceive m.activePpk amount inc).toNat + feeOptN m true inactive
            + feeOptN m true active < 2 ^ 64)
    (hw : (inactive ++ active).length < 2 ^ 63) :
    (∃ rest, (plan.inputs ++ rest).Perm (inactive ++ active)) ∧
    natSum plan.send = amount.toNat + (feesToReceive m.activePpk amount inc).toNat ∧
    natSum plan.send + natSum plan.change + feeN m plan.inputs = amountN plan.inputs :=
  swapToSend_balanced hs (getProofsForAmount_swap h) hn hA hw

/-- `k6_witness` meets the hypotheses: inputs `[4,2,1,8]` = 15 = send 6 + change 5 + fee 4. -/
example : NoWrap k6Mint true ([] ++ k6Active) ∧
    (3 : UInt64).toNat + (feesToReceive k6Mint.activePpk 3 true).toNat + feeOptN k6Mint true []
      + feeOptN k6Mint true k6Active < 2 ^ 64 ∧ (([] : List P) ++ k6Active).length < 2 ^ 63 :=
  ⟨⟨by decide, fun _ => by decide⟩, by decide, by decide⟩

/-! ## calculateBlankOutputs (used by Melt; same file of pure helpers) -/

/-- The integer function `calculateBlankOutputs` computes — exactly for `feeReserve < 2^48` and for powers of
    two, where the float evaluation is provably this function (`blankOutputsCertain`; compared with the real
    code on every run) — provides enough blank outputs: `feeReserve ≤ 2^n`. -/
theorem blankOutputs_enough (feeReserve : UInt64) (h : feeReserve.toNat < 2 ^ 53) :
    feeReserve.toNat ≤ 2 ^ calculateBlankOutputs feeReserve := calculateBlankOutputs_enough feeReserve h

example : calculateBlankOutputs 0 = 0 ∧ calculateBlankOutputs 1 = 1 ∧ calculateBlankOutputs 5 = 3 ∧
    calculateBlankOutputs 1024 = 10 ∧ calculateBlankOutputs 1025 = 11 := by decide
/-- where Go's float evaluation is one short of the exact value (observed: 2^49 + 1 ↦ 49) the model says
    "not certain" -/
example : calculateBlankOutputs (UInt64.ofNat (2 ^ 49 + 1)) = 50 ∧
    blankOutputsCertain (UInt64.ofNat (2 ^ 49 + 1)) = false ∧ blankOutputsCertain (UInt64.ofNat (2 ^ 63)) = true := by
  decide

/-! ## the sorters the correspondence uses -/

/-- Both sorters the driver runs the model with satisfy the hypothesis `Sorter.OK` of the theorems above and
    sort by amount: the stable one (blind prediction) and, for every observed selection order, the oracle
    one (replay of Go's tie-breaking) — so a replay can differ from the stable run only in the order of
    proofs of equal amount. -/
theorem driver_sorters_ok (chosen : List Nat) :
    stableSorter.OK ∧ stableSorter.Sorted ∧ (oracleSorter chosen).OK ∧ (oracleSorter chosen).Sorted :=
  ⟨stableSorter_ok, stableSorter_sorted, oracleSorter_ok chosen, oracleSorter_sorted chosen⟩

/-- three proofs of amount 2: the oracle order `[2, 0]` makes the model pick uid 2, then 0 (stable: 0, 1). -/
example : selectProofsToSend (oracleSorter [2, 0]) k6Mint [⟨2, 1, 0⟩, ⟨2, 1, 1⟩, ⟨2, 1, 2⟩] 3 true
    = .ok [⟨2, 1, 2⟩, ⟨2, 1, 0⟩, ⟨2, 1, 1⟩] := by decide

/-! ## why K6 is recorded, and the proposed repair of `send_succeeds` -/

/-- For the K6 witness no fee estimate at all is exact: with ppk 1000 and amount 3 there is no `f` whose own
    split makes the fee of the proofs sent equal to `f` (`2 + popcount f = f` has no solution; the natural
    iteration oscillates 3 ↔ 4).  So `send_exact_fee` cannot be repaired by a better estimate alone. -/
theorem k6_no_exact_fee (f : UInt64) :
    feesForCount ((amountSplit 3).length + (amountSplit f).length) 1000 ≠ f := by
  intro h
  have hlen := amountSplit_length_le f
  have h3 : (amountSplit 3).length = 2 := by decide
  have hk : (1000 : UInt64).toNat = 1000 := rfl
  have hfee := feesForCount_exact (n := (amountSplit 3).length + (amountSplit f).length) (ppk := 1000)
    (by rw [h3, hk]; omega)
  rw [h, h3, hk] at hfee
  have hf : f.toNat = 2 + (amountSplit f).length := by
    rw [hfee]; unfold ceilDiv1000; omega
  have hsmall : f.toNat < 67 := by omega
  have key : ∀ k : Nat, k < 67 → k ≠ 2 + (amountSplit (UInt64.ofNat k)).length := by decide
  exact key f.toNat hsmall (by rw [UInt64.ofNat_toNat]; exact hf)

/-- The proposed repair (findings/C18-send-succeeds-fallback.patch, not applied): with the fallback to every
    proof held, `selectProofsForAmount` keeps `select_sound` … -/
theorem repair_sound {srt : Sorter} (hs : srt.OK) {m : Mint} {inactive active sel : List P}
    {amount : UInt64} {inc : Bool} (h : selectProofsForAmountFixed srt m inactive active amount inc = .ok sel)
    (hn : NoWrap m inc (inactive ++ active))
    (hA : amount.toNat + feeOptN m inc inactive + feeOptN m inc active < 2 ^ 64) :
    (∃ rest, (sel ++ rest).Perm (inactive ++ active)) ∧ amount.toNat + feeOptN m inc sel ≤ amountN sel :=
  selectProofsForAmountFixed_ok_nat hs h hn hA

/-- … and satisfies `send_succeeds` at full strength: whatever is covered by the holdings minus the fee of
    spending every proof held is selected, with inactive keysets and any ppk. -/
theorem repair_succeeds {srt : Sorter} {m : Mint} {inactive active : List P} {amount : UInt64} {inc : Bool}
    (hn : NoWrap m inc (inactive ++ active))
    (hA : amount.toNat + feeOptN m inc (inactive ++ active) ≤ amountN (inactive ++ active)) :
    ∃ sel, selectProofsForAmountFixed srt m inactive active amount inc = .ok sel :=
  selectProofsForAmountFixed_succeeds hn hA

example : NoWrap discMint true (discInactive ++ discActive) ∧
    (7 : UInt64).toNat + feeOptN discMint true (discInactive ++ discActive) ≤ amountN (discInactive ++ discActive) ∧
    (7 : UInt64).toNat + feeOptN discMint true discInactive + feeOptN discMint true discActive < 2 ^ 64 :=
  ⟨⟨by decide, fun _ => by decide⟩, by decide, by decide⟩

/-- both recorded witnesses are selected by the repaired function -/
example : selectProofsForAmountFixed stableSorter discMint discInactive discActive 7 true
    = .ok (discInactive ++ discActive) := by decide
example : selectProofsForAmountFixed stableSorter ceilMint [⟨1, 2, 0⟩] [⟨2, 1, 1⟩] 2 true
    = .ok [⟨1, 2, 0⟩, ⟨2, 1, 1⟩] := by decide

end Gonuts.Props.C18
