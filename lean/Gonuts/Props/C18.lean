import Gonuts.Lemmas.Amount
namespace Gonuts.Props.C18
open Gonuts.Model

theorem amountChecked_exact (xs : List UInt64) (r : UInt64) (h : amountChecked xs = some r) :
    r.toNat = natSum xs := amountChecked_some xs r h

end Gonuts.Props.C18
