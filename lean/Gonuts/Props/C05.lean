import Gonuts.Lemmas.MintSeq
import Gonuts.Lemmas.MeltPay
/-!
  C05 — melt inputs follow the Lightning outcome.  For every melt that passed validation, every pay-call answer
  `a0`, every extra status answer `a1` and EVERY LIST of later poll answers (no length bound; induction on the list):
  the quote state and the fate of the inputs are given by the closed tables `meltOutcome` / `pollOutcome`, which are
  proved to adopt only DEFINITIVE answers.  "Definitive" is read off the `lightning.Client` contract: `succ` = the
  payment succeeded; `failed` without error = it failed for good; not-found on the in-melt check = no such payment
  exists; everything else (error, timeout, still in flight) is ambiguous.
-/
namespace Gonuts.Props.C05
open Gonuts.Model Gonuts.Model.Mint

/-- An answer that carries no final verdict (as a status answer). -/
def ambiguousStatus : LnAns → Bool
  | .pending | .err | .failedErr => true
  | _ => false

/-- (b),(c),(d) in one table, melt itself: PAID iff the pay call succeeded or (after a failed/erroring pay call) the
    status lookup says succeeded; UNPAID iff the pay call neither succeeded nor is pending AND the lookup says failed
    or not-found; PENDING otherwise — in particular an ambiguous answer never releases and never spends. -/
theorem melt_table (a0 a1 : LnAns) :
    (meltOutcome a0 a1 = .paid ↔ a0 = .succ ∨ (a0 ≠ .succ ∧ a0 ≠ .pending ∧ a1 = .succ)) ∧
    (meltOutcome a0 a1 = .unpaid ↔ a0 ≠ .succ ∧ a0 ≠ .pending ∧ (a1 = .failed ∨ a1 = .notfound ∨ a1 = .notfoundGrpc)) ∧
    (meltOutcome a0 a1 = .pending ↔ a0 = .pending ∨ (a0 ≠ .succ ∧ a0 ≠ .pending ∧ ambiguousStatus a1 = true)) := by
  cases a0 <;> cases a1 <;> simp [meltOutcome, ambiguousStatus]

/-- The same for a poll (melt-quote state request or proof-state check): only a clean `succ` / `failed` is adopted. -/
theorem poll_table (a : LnAns) :
    (pollOutcome a = .paid ↔ a = .succ) ∧ (pollOutcome a = .unpaid ↔ a = .failed) ∧
    (pollOutcome a = .pending ↔ a ≠ .succ ∧ a ≠ .failed) := by
  cases a <;> simp [pollOutcome]

theorem mem_ys_lockRows (q : MeltQ) (ps : List Proof) (p : Proof) (hp : p ∈ ps) : p.secret ∈ ysOf (lockRows q ps) := by
  simp only [ysOf, lockRows, List.map_map, List.mem_map, Function.comp]
  exact ⟨p, hp, rfl⟩

theorem filter_removes (t : List PRow) (ys : List Nat) (y : Nat) (hy : y ∈ ys) :
    y ∉ ysOf (t.filter (fun r => !ys.contains r.y)) := by
  intro hm
  simp only [ysOf, List.mem_map, List.mem_filter] at hm
  obtain ⟨r, ⟨_, hn⟩, rfl⟩ := hm
  simp [hy] at hn

/-- Fate of the inputs by final state, starting from the locked tables. -/
theorem tail_inputs (db : DB) (q q' : MeltQ) (ps : List Proof) (pre : Nat) (o : LQState) :
    let d := tailDb (lockedDb db q ps) q' ps pre o
    (o = .paid → (∀ p ∈ ps, p.secret ∈ ysOf d.spent) ∧ (∀ p ∈ ps, p.secret ∉ ysOf d.pending)) ∧
    (o = .pending → (∀ p ∈ ps, p.secret ∈ ysOf d.pending) ∧ d.spent = db.spent) ∧
    (o = .unpaid → (∀ p ∈ ps, p.secret ∉ ysOf d.pending) ∧ d.spent = db.spent) := by
  intro d
  refine ⟨?_, ?_, ?_⟩
  · rintro rfl
    refine ⟨fun p hp => ?_, fun p hp => ?_⟩
    · simp only [d, tailDb, lockedDb, ysOf_append, ysOf_rows, List.mem_append]
      exact Or.inr (List.mem_map.2 ⟨p, hp, rfl⟩)
    · exact filter_removes _ _ _ (List.mem_map.2 ⟨p, hp, rfl⟩)
  · rintro rfl
    refine ⟨fun p hp => ?_, rfl⟩
    simp only [d, tailDb, lockedDb, ysOf_append, List.mem_append]
    exact Or.inr (mem_ys_lockRows q ps p hp)
  · rintro rfl
    exact ⟨fun p hp => filter_removes _ _ _ (List.mem_map.2 ⟨p, hp, rfl⟩), rfl⟩

/-- (a)–(c) for the melt call: a melt is either refused with nothing changed, or its inputs were locked and then —
    when it is paid over Lightning — the quote ends in the state the table says, with the inputs SPENT (paid, with
    the payment's preimage), still LOCKED (pending), or RELEASED (unpaid); nothing else can happen. -/
theorem melt_follows_outcome (cx : Cx) (qid : Int) (ps : List Proof) (s s' : DL) (r : Except E MeltQ)
    (h : runM (meltTokens cx qid ps) s = (s', r)) :
    (∃ e, r = .error e ∧ s' = s) ∨
    ∃ q, MeltAccepted cx qid ps s q ∧
      ((∃ e, dbGetMintQByHash s.1 q.hash = .error e) →
        let o := meltOutcome (ans0 s.2) (ans1 s.2)
        (∃ mq, r = .ok mq ∧ mq.state = o ∧ (o = .paid → mq.preimage = q.hash + 1)) ∧
        (o = .paid → (∀ p ∈ ps, p.secret ∈ ysOf s'.1.spent) ∧ (∀ p ∈ ps, p.secret ∉ ysOf s'.1.pending)) ∧
        (o = .pending → (∀ p ∈ ps, p.secret ∈ ysOf s'.1.pending) ∧ s'.1.spent = s.1.spent) ∧
        (o = .unpaid → (∀ p ∈ ps, p.secret ∉ ysOf s'.1.pending) ∧ s'.1.spent = s.1.spent)) := by
  rcases melt_cases cx qid ps s s' r h with ⟨e, he, hs⟩ | ⟨q, hacc, hcase⟩
  · exact Or.inl ⟨e, he, hs⟩
  · right
    refine ⟨q, hacc, ?_⟩
    rintro ⟨e, hext⟩
    rcases hcase with ⟨_, hr, hdb⟩ | ⟨mq, hint, _⟩
    · intro o
      have ht := tail_inputs s.1 q { q with state := .pending } ps (q.hash + 1) o
      rw [← hdb] at ht
      refine ⟨⟨_, hr, ?_, ?_⟩, ht⟩
      · cases ho : meltOutcome (ans0 s.2) (ans1 s.2) <;> simp [tailQuote, o, ho]
      · intro ho; simp only [o] at ho; simp [tailQuote, ho]
    · rw [hext] at hint; cases hint

/-- Internal settlement (the invoice belongs to a mint quote of this mint): PAID with the inputs SPENT, or — when the
    backend cannot deliver the invoice — refused with the inputs released again (F15). -/
theorem melt_internal (cx : Cx) (qid : Int) (ps : List Proof) (s s' : DL) (r : Except E MeltQ)
    (h : runM (meltTokens cx qid ps) s = (s', r)) :
    (∃ e, r = .error e ∧ s' = s) ∨
    ∃ q, MeltAccepted cx qid ps s q ∧ ∀ mq, dbGetMintQByHash s.1 q.hash = .ok mq →
      ((∃ m, r = .ok m ∧ m.state = .paid) ∧ (∀ p ∈ ps, p.secret ∈ ysOf s'.1.spent) ∧ (∀ p ∈ ps, p.secret ∉ ysOf s'.1.pending)) ∨
      (r = .error (2, "ln") ∧ (∀ p ∈ ps, p.secret ∉ ysOf s'.1.pending) ∧ s'.1.spent = s.1.spent) := by
  rcases melt_cases cx qid ps s s' r h with ⟨e, he, hs⟩ | ⟨q, hacc, hcase⟩
  · exact Or.inl ⟨e, he, hs⟩
  · right
    refine ⟨q, hacc, ?_⟩
    intro mq hmq
    rcases hcase with ⟨⟨e, hext⟩, _⟩ | ⟨mq', hint, hc⟩
    · rw [hext] at hmq; cases hmq
    · rcases hc with ⟨hr, hdb⟩ | ⟨hr, hdb⟩
      · left
        have ht := (tail_inputs s.1 q { q with state := .pending } ps (mq'.hash + 1) .paid).1 rfl
        refine ⟨⟨_, hr, rfl⟩, ?_, ?_⟩
        · intro p hp; rw [hdb]; exact ht.1 p hp
        · intro p hp; rw [hdb]; exact ht.2 p hp
      · right
        have ht := (tail_inputs s.1 q { q with state := .pending } ps 0 .unpaid).2.2 rfl
        rw [← hdb] at ht
        exact ⟨hr, ht⟩

/-- (d),(e) for polls: polling a PENDING quote adopts a clean `succ` (inputs of the quote SPENT, quote PAID with the
    preimage) or `failed` (inputs released, quote UNPAID) in that same call and changes nothing on any other answer;
    polling a quote that is not PENDING never calls the backend and changes nothing. -/
theorem poll_follows_outcome (qid : Int) (s s' : DL) (r : Except E MeltQ) (hwf : PendingWf s.1)
    (h : runM (getMeltQuoteState qid) s = (s', r)) :
    (dbGetMeltQ s.1 qid = .error .notFound ∧ r = .error eQuoteNotExist ∧ s' = s) ∨
    ∃ q, dbGetMeltQ s.1 qid = .ok q ∧
      ((q.state ≠ .pending ∧ r = .ok q ∧ s' = s) ∨
       (q.state = .pending ∧ r = .ok (tailQuote q (pollOutcome (ans0 s.2))) ∧
         s'.1 = pollDb s.1 q (pollOutcome (ans0 s.2)))) :=
  poll_cases qid s s' r hwf h

/-- Inputs of a polled quote by verdict: paid → all rows of the quote are in `spent` and none is pending;
    unpaid → none is pending and `spent` is unchanged; pending → nothing changes. -/
theorem poll_inputs (db : DB) (q : MeltQ) (o : LQState) :
    (o = .paid → (∀ y ∈ quoteYs db q.id, y ∈ ysOf (pollDb db q o).spent ∧ y ∉ ysOf (pollDb db q o).pending)) ∧
    (o = .unpaid → (∀ y ∈ quoteYs db q.id, y ∉ ysOf (pollDb db q o).pending) ∧ (pollDb db q o).spent = db.spent) ∧
    (o = .pending → pollDb db q o = db) := by
  refine ⟨?_, ?_, ?_⟩
  · rintro rfl y hy
    refine ⟨?_, filter_removes _ _ _ hy⟩
    simp only [pollDb, ysOf_append, List.mem_append]
    right
    simp only [quoteYs, List.mem_map] at hy
    obtain ⟨r, hr, rfl⟩ := hy
    simp only [ysOf, quoteRows, List.map_map, List.mem_map, Function.comp]
    exact ⟨r, hr, rfl⟩
  · rintro rfl
    exact ⟨fun y hy => filter_removes _ _ _ hy, rfl⟩
  · rintro rfl; rfl

/-- Any number of polls: the state after a list of answers is decided by the FIRST definitive one (induction over
    the unbounded list); ambiguous answers in front of it change nothing. -/
def resolve : LQState → List LnAns → LQState
  | .pending, a :: rest => resolve (pollOutcome a) rest
  | st, _ => st

theorem resolve_first_definitive (as : List LnAns) (a : LnAns) (rest : List LnAns)
    (hamb : ∀ x ∈ as, pollOutcome x = .pending) (hdef : pollOutcome a ≠ .pending) :
    resolve .pending (as ++ a :: rest) = pollOutcome a := by
  induction as with
  | nil =>
    simp only [List.nil_append, resolve]
    cases h : pollOutcome a <;> simp_all [resolve]
  | cons x xs ih =>
    simp only [List.cons_append, resolve]
    rw [hamb x (List.mem_cons_self ..)]
    exact ih (fun y hy => hamb y (List.mem_cons_of_mem _ hy))

theorem resolve_all_ambiguous (as : List LnAns) (hamb : ∀ x ∈ as, pollOutcome x = .pending) :
    resolve .pending as = .pending := by
  induction as with
  | nil => rfl
  | cons x xs ih =>
    simp only [resolve]
    rw [hamb x (List.mem_cons_self ..)]
    exact ih (fun y hy => hamb y (List.mem_cons_of_mem _ hy))

/-- Once PAID or UNPAID, further polls never change the verdict. -/
theorem resolve_final (st : LQState) (h : st ≠ .pending) (as : List LnAns) : resolve st as = st := by
  cases st <;> simp_all [resolve]

/-- **When the mint pays.**  For every melt request, every world (any tables, any Lightning script, with or without an armed
    storage fault) and every number `n` of calls already made: if `MeltTokens` is about to call `SendPayment` or
    `PayPartialAmount`, then the tables are EXACTLY the ones the request started with plus its inputs in the pending table
    under the quote and the quote's state PENDING — nothing else has been written, the inputs are locked before any money
    can move.  (`Lemmas/MeltPay.lean`: the write automaton init → locked → PENDING → tail with the payment calls as events
    allowed in PENDING only — so the walk over the program's binds also shows that NO path asks for a payment twice.) -/
theorem payment_only_with_inputs_locked (cx : Cx) (qid : Int) (ps : List Proof) (n : Nat) (w w' : World) (β : Type) (e : Eff β)
    (hn : (meltTokens cx qid ps).run.nextN n w = some (w', ⟨β, e⟩)) (hp : isPayEff e = true) :
    ∃ id t, insertRows w.db.pending (pendRows (ps.map Proof.row) id) = some t ∧
      w'.db = { w.db with pending := t, meltQ := updMeltQ w.db.meltQ id 0 .pending } :=
  melt_pays_only_when_locked cx qid ps n w w' β e hn hp

/-- the syntactic half, stated: every path of `MeltTokens` performs, in this order, only reads, `AddPendingProofs(inputs)`,
    `UpdateMeltQuote(PENDING)`, then at most ONE payment call, and no payment call after any other write -/
theorem melt_write_shape (cx : Cx) (qid : Int) (ps : List Proof) :
    Conf (payAuto (ps.map Proof.row)) (fun _ _ => True) .init (meltTokens cx qid ps).run :=
  conf_meltTokens cx qid ps

example : meltOutcome .failedErr .notfound = .unpaid := by decide
example : meltOutcome .err .err = .pending := by decide
example : resolve .pending [.err, .pending, .notfound, .succ, .failed] = .paid := by decide

end Gonuts.Props.C05
