import Gonuts.Tie.Code
import Gonuts.Lemmas.Spend
/-!
  C12 / C13 for the REGENERATED verifiers.  `Gonuts/Gen/Code.lean` holds `nut11.VerifyP2PKLockedProof` and
  `nut14.VerifyHTLCProof` as translated from the Go source on this run (`extract/translate.go`); `Tie/Code.lean` proves them
  equal to the model's `verifyP2PK` / `verifyHTLC`.  Composed with the soundness / completeness theorems of the model
  (`Lemmas/Spend.lean`), the statements of `Props/C12.lean` / `Props/C13.lean` become statements about the translated code:
  the external calls are parameters — any witness decoder `extU`, any SHA-256 `sh`, any signature parser / verifier
  `extP` / `extV`, the clock `env.now`; `enc` is any injective naming of signature strings and `env.valid (enc s) key msg`
  says "s parses and verifies for sha256(secret) under key".
-/
namespace Gonuts.Props.C12Code
open Gonuts.Gen.Code Gonuts.Model Gonuts.Model.Spend Gonuts.Tie.Code Gonuts.Spec.Spendable Gonuts.Lemmas.Spend

/-- SOUND: when the regenerated `VerifyP2PKLockedProof` returns nil, the proof is spendable according to NUT-11. -/
theorem p2pk_code_sound (env : Env) (extU : String → P2PKWitness → P2PKWitness) (sh : String → List UInt8)
    (extP : String → Signature × Option String) (extV : Signature → List UInt8 → PublicKey → Bool)
    (enc : String → Sig) (henc : Function.Injective enc) (proof : Gen.Code.Proof) (secret : WellKnownSecret)
    (mp : Spend.Proof) (k : Kind)
    (hsig : mp.witness.signatures = (extU proof.Witness default).Signatures.map enc)
    (hv : ∀ s key, env.valid (enc s) key mp.msg = ((extP s).2.isNone && extV (extP s).1 (sh proof.Secret) key))
    (h : nut11_VerifyP2PKLockedProof extU extPI (extPK env) env.now sh extP extV proof secret = none) :
    spendableP2PK env { kind := k, data := secret.Data.Data, tags := secret.Data.Tags } mp.msg mp.witness := by
  have e := VerifyP2PKLockedProof_eq env extU sh extP extV enc henc proof secret mp k hsig hv
  rw [h] at e
  exact verifyP2PK_sound env mp _ e.symm

/-- IFF, when a signature verifies under at most one of the lock's keys. -/
theorem p2pk_code_iff (env : Env) (extU : String → P2PKWitness → P2PKWitness) (sh : String → List UInt8)
    (extP : String → Signature × Option String) (extV : Signature → List UInt8 → PublicKey → Bool)
    (enc : String → Sig) (henc : Function.Injective enc) (proof : Gen.Code.Proof) (secret : WellKnownSecret)
    (mp : Spend.Proof) (k : Kind)
    (hsig : mp.witness.signatures = (extU proof.Witness default).Signatures.map enc)
    (hv : ∀ s key, env.valid (enc s) key mp.msg = ((extP s).2.isNone && extV (extP s).1 (sh proof.Secret) key))
    (hu : UniqueSigner env.valid mp.msg (lockKeys env { kind := k, data := secret.Data.Data, tags := secret.Data.Tags })) :
    nut11_VerifyP2PKLockedProof extU extPI (extPK env) env.now sh extP extV proof secret = none ↔
      spendableP2PK env { kind := k, data := secret.Data.Data, tags := secret.Data.Tags } mp.msg mp.witness := by
  have e := VerifyP2PKLockedProof_eq env extU sh extP extV enc henc proof secret mp k hsig hv
  constructor
  · intro h; rw [h] at e; exact verifyP2PK_sound env mp _ e.symm
  · intro hs
    have hc := verifyP2PK_complete env mp _ hu hs
    rw [hc] at e
    cases hr : nut11_VerifyP2PKLockedProof extU extPI (extPK env) env.now sh extP extV proof secret with
    | none => rfl
    | some x => rw [hr] at e; cases e

/-- SOUND for HTLC locks: when the regenerated `VerifyHTLCProof` returns nil, the proof is spendable according to NUT-14. -/
theorem htlc_code_sound (env : Env) (extU : String → HTLCWitness → HTLCWitness) (sh : String → List UInt8)
    (extP : String → Signature × Option String) (extV : Signature → List UInt8 → PublicKey → Bool)
    (shaB : List UInt8 → List UInt8) (hexE : List UInt8 → String)
    (enc : String → Sig) (henc : Function.Injective enc) (proof : Gen.Code.Proof) (secret : WellKnownSecret)
    (mp : Spend.Proof) (k : Kind)
    (hsig : mp.witness.signatures = (extU proof.Witness default).Signatures.map enc)
    (hpre : mp.witness.preimage = (extU proof.Witness default).Preimage)
    (hsha : ∀ b, hexE (shaB b) = env.sha256hex b)
    (hv : ∀ s key, env.valid (enc s) key mp.msg = ((extP s).2.isNone && extV (extP s).1 (sh proof.Secret) key))
    (h : nut14_VerifyHTLCProof extU extPI (extPK env) env.now sh extP extV extHexD shaB hexE proof secret = none) :
    spendableHTLC env { kind := k, data := secret.Data.Data, tags := secret.Data.Tags } mp.msg mp.witness := by
  have e := VerifyHTLCProof_eq env extU sh extP extV shaB hexE enc henc proof secret mp k hsig hpre hsha hv
  rw [h] at e
  exact verifyHTLC_sound env mp _ e.symm

/-- IFF for HTLC locks, when a signature verifies under at most one listed key. -/
theorem htlc_code_iff (env : Env) (extU : String → HTLCWitness → HTLCWitness) (sh : String → List UInt8)
    (extP : String → Signature × Option String) (extV : Signature → List UInt8 → PublicKey → Bool)
    (shaB : List UInt8 → List UInt8) (hexE : List UInt8 → String)
    (enc : String → Sig) (henc : Function.Injective enc) (proof : Gen.Code.Proof) (secret : WellKnownSecret)
    (mp : Spend.Proof) (k : Kind)
    (hsig : mp.witness.signatures = (extU proof.Witness default).Signatures.map enc)
    (hpre : mp.witness.preimage = (extU proof.Witness default).Preimage)
    (hsha : ∀ b, hexE (shaB b) = env.sha256hex b)
    (hv : ∀ s key, env.valid (enc s) key mp.msg = ((extP s).2.isNone && extV (extP s).1 (sh proof.Secret) key))
    (hu : UniqueSigner env.valid mp.msg (condOf env secret.Data.Tags).pubkeys) :
    nut14_VerifyHTLCProof extU extPI (extPK env) env.now sh extP extV extHexD shaB hexE proof secret = none ↔
      spendableHTLC env { kind := k, data := secret.Data.Data, tags := secret.Data.Tags } mp.msg mp.witness := by
  have e := VerifyHTLCProof_eq env extU sh extP extV shaB hexE enc henc proof secret mp k hsig hpre hsha hv
  constructor
  · intro h; rw [h] at e; exact verifyHTLC_sound env mp _ e.symm
  · intro hs
    have hc := verifyHTLC_complete env mp { kind := k, data := secret.Data.Data, tags := secret.Data.Tags } hu hs
    rw [hc] at e
    cases hr : nut14_VerifyHTLCProof extU extPI (extPK env) env.now sh extP extV extHexD shaB hexE proof secret with
    | none => rfl
    | some x => rw [hr] at e; cases e

end Gonuts.Props.C12Code
