import Gonuts.Gen.Facts
import Gonuts.Spec.NutWire
import Gonuts.Lemmas.Wire
import Gonuts.Lemmas.WireWitness
/-!
  # C20 — the HTTP/JSON surface is a faithful, spec-shaped transport of the mint's decisions; NUT-19 cache

  Theorems about `Model.Wire` (mint/server.go written as `handleX : WSess → Request → WSess × Response × Info`
  around `Model.Mint.applyOp`).  All statements are for ALL sessions, requests, cache contents, clock values and
  strings unless they are explicitly witnesses (`example … := by decide`).

  Where the code does not do what the property text says, the full statement is a `def …_full : Prop`,
  refuted by a concrete witness (`…_full_false`), next to the theorem that does hold with its exact extra
  hypothesis.  These are the cases:

  * `refused_shape_full`     — (handler mapping only) a refusal is `{detail, code}`: false for a non-cashu `error`, which
                               `writeErr` renders `{}`.  The one operation that produced such an error — `MintTokens`'
                               failing "restore previous state" write — was repaired by fix 1c07e11; its witness is kept
                               as a regression example that now shows the constant `StandardErr` body;
  * `internal_generic_full`  — storage failures are answered with the constant `StandardErr`: false (a failing
                               quote lookup is answered "quote does not exist", code 20009);
  * `code_of_cause_full`     — duplicate inputs are answered 11007: false (same secret with another witness
                               passes the struct-equality check and is refused by the storage key: 10000);

  Repaired: `cache_exact_full` — equal keys only for identical (method, URL, body) — was false while the key was the plain
  concatenation; since fix 65f9524 (NUL separators) it is a theorem (`cache_exact_full`, `cache_exact_triple`), and the old
  witness is a regression example.
-/
namespace Gonuts.Props.C20
open Gonuts.Model.Mint Gonuts.Model.Wire Gonuts.Model.Wire.Witness Gonuts.Spec

/-! ## 1. State enums -/

/-- `State.String()` of the source (extracted switch tables) yields the model's — i.e. the NUTs' — strings, and
    `StringToState` maps each back to the same constant: nut04 (mint quotes). -/
theorem enum_roundtrip_nut04 (s : MQState) :
    tbl Gen.nut04_String (mqName s) = some s.str ∧ tbl Gen.nut04_StringToState s.str = some (mqName s) := by
  cases s <;> decide

theorem enum_roundtrip_nut05 (s : LQState) :
    tbl Gen.nut05_String (lqName s) = some s.str ∧ tbl Gen.nut05_StringToState s.str = some (lqName s) := by
  cases s <;> decide

theorem enum_roundtrip_nut07 (s : PState) :
    tbl Gen.nut07_String (psName s) = some s.str ∧ tbl Gen.nut07_StringToState s.str = some (psName s) := by
  cases s <;> decide

/-- The strings are the NUTs' — with one exception, stated: a mint quote can be `PENDING`, which NUT-04 does not list
    (gonuts holds a quote PENDING while it signs; a poll in that window, or after the stranding of C07/K5, shows it). -/
theorem enum_strings_nut (m : MQState) (l : LQState) (p : PState) :
    (m.str ∈ NutWire.mintQuoteStates ∨ m = .pending) ∧ l.str ∈ NutWire.meltQuoteStates ∧ p.str ∈ NutWire.proofStates := by
  cases m <;> cases l <;> cases p <;> decide

/-- Strings that are no state name map to `Unknown` (the switch has no such case). -/
example : tbl Gen.nut04_StringToState "unpaid" = none ∧ tbl Gen.nut07_StringToState "" = none := by decide

/-! ## 2. Key maps -/

/-- `PublicKeys.MarshalJSON`: ascending by amount, the same text for every iteration order of the Go map, nothing
    lost or invented; strictly ascending since map keys are distinct. -/
theorem keys_sorted (amts : List UInt64) :
    (sortAmts amts).Pairwise (· ≤ ·) ∧ (sortAmts amts).Perm amts ∧
    (amts.Nodup → (sortAmts amts).Pairwise (· < ·)) ∧
    (∀ amts', amts.Perm amts' → keysFields 0 amts = keysFields 0 amts') :=
  ⟨sortAmts_sorted amts, sortAmts_perm amts, sortAmts_strict,
   fun amts' h => by unfold keysFields; rw [sortAmts_order_independent h]⟩

/-- The keyset the model renders: 60 keys, 1 … 2^59, in ascending order although `keyAmounts` lists them descending. -/
example : ((keysFields 0 keyAmounts).map (·.1)).take 4 = ["1", "2", "4", "8"] := by decide
example : (keysFields 0 keyAmounts).length = 60 ∧ keyAmounts.head? = some ((1 : UInt64) <<< 59) := by decide

/-! ## 3. Outcome ↔ status and body -/

/-- A request that reaches handler `h` and is not served from the cache is answered 200 iff the operation
    (`Model.Mint.applyOp` on the current mint session) succeeds, and 400 iff it is refused; the mint session
    afterwards is the operation's. -/
theorem ok_iff_200 {s : WSess} {r : Request} {h : Handler} {p : Parsed} {op : Op}
    (hr : Reaches r h p op) (hm : Miss s h r) :
    let res := (applyOp (armLn s.mint r.lnFail) op)
    ((handle s r).2.status = 200 ↔ Res.isOk res.2 = true) ∧
    ((handle s r).2.status = 400 ↔ Res.isOk res.2 = false) ∧
    (handle s r).1.mint = res.1 := by
  simp only [handle_eq, handleX_reaches hr]
  obtain ⟨h1, h2⟩ := runHandler_miss (p := p) (op := op) hm
  rw [h2, respOf_status, execOp_ok hr.op, h1]
  cases Res.isOk (applyOp (armLn s.mint r.lnFail) op).2 <;> simp [execOp]

/-- … and the body is the rendering of the handler's response struct, or of the error the handler passes to `writeErr`. -/
theorem body_of_outcome {s : WSess} {r : Request} {h : Handler} {p : Parsed} {op : Op}
    (hr : Reaches r h p op) (hm : Miss s h r) :
    (handle s r).2 = match resTree p (applyOp (armLn s.mint r.lnFail) op).2 with
      | .ok t => ⟨200, t.render⟩
      | .error e => ⟨400, (errTree (mapErr h e)).render⟩ := by
  simp only [handle_eq, handleX_reaches hr]
  rw [(runHandler_miss (p := p) (op := op) hm).2]
  unfold execOp respOf
  cases resTree p (applyOp (armLn s.mint r.lnFail) op).2 <;> rfl

/-- The success trees carry exactly the NUT field names, in the struct's order (`omitempty` fields may be absent). -/
theorem ok_tree_shape (p : Parsed) (res : Res) (t : Json) (h : resTree p res = .ok t) :
    t.keys = NutWire.mintQuoteFields.1 ∨ t.keys = NutWire.mintQuoteFields.1 ++ ["pubkey"] ∨
    t.keys = NutWire.meltQuoteFields.1 ∨ t.keys = NutWire.meltQuoteFields.1 ++ ["payment_preimage"] ∨
    t.keys = NutWire.signaturesFields ∨ t.keys = NutWire.checkStateFields ∨ t.keys = NutWire.restoreFields := by
  cases res with
  | mintQuote x | quoteState x =>
    cases x with
    | error e => simp [resTree] at h
    | ok q =>
      simp only [resTree, Except.ok.injEq] at h; subst h
      cases hq : q.pubkey <;> simp [mintQuoteTree, hq, objOf, tagsMintQuote, Json.keys, NutWire.mintQuoteFields]
  | meltQuote x =>
    cases x with
    | error e => simp [resTree] at h
    | ok q =>
      simp only [resTree, Except.ok.injEq] at h; subst h
      simp [meltQuoteTree, objOf, tagsMeltQuote, Json.keys, NutWire.meltQuoteFields]
  | melt x =>
    cases x with
    | error e => simp [resTree] at h
    | ok q =>
      simp only [resTree, Except.ok.injEq] at h; subst h
      by_cases hp : q.preimage != 0 <;> simp [meltQuoteTree, hp, objOf, tagsMeltQuote, Json.keys, NutWire.meltQuoteFields]
  | sigs x =>
    cases x with
    | error e => simp [resTree] at h
    | ok q =>
      simp only [resTree, Except.ok.injEq] at h; subst h
      simp [sigsTree, Json.keys, NutWire.signaturesFields]
  | states x =>
    cases x with
    | error e => simp [resTree] at h
    | ok q =>
      cases p <;> simp only [resTree, Except.ok.injEq, reduceCtorEq] at h
      subst h
      simp [statesTree, Json.keys, NutWire.checkStateFields]
  | restored x =>
    cases x with
    | error e => simp [resTree] at h
    | ok q =>
      cases p <;> simp only [resTree, Except.ok.injEq, reduceCtorEq] at h
      subst h
      simp [restoreTree, Json.keys, NutWire.restoreFields]
  | unit | notify _ | balance _ | rotated _ | restarted _ => simp [resTree] at h

/-- Elements of the arrays: a blind signature is `{amount, C_, id, dleq{e,s}}`, a proof state `{Y, state[, witness]}`
    with a NUT-07 state string. -/
theorem element_shapes (sg : BSig) (y : YRef) (st : PState × Nat) :
    (sigTree sg).keys = NutWire.blindSignatureFields.1 ++ NutWire.blindSignatureFields.2 ∧
    ((stateTree y st).keys = NutWire.proofStateFields.1 ∨ (stateTree y st).keys = NutWire.proofStateFields.1 ++ NutWire.proofStateFields.2) ∧
    (stateTree y st).field? "state" = some (.str st.1.str) := by
  refine ⟨by simp [sigTree, objOf, tagsSig, Json.keys, NutWire.blindSignatureFields], ?_, ?_⟩
  · by_cases h : st.2 == 0 <;> simp [stateTree, objOf, tagsProofState, Json.keys, NutWire.proofStateFields, h]
  · by_cases h : st.2 == 0 <;> simp [stateTree, objOf, tagsProofState, Json.field?, List.find?, h]

/-- A refusal is 400 with `{detail, code}` carrying the code the handler passes on — provided that code is not 0,
    i.e. the error is a cashu error. -/
theorem refused_iff_400 (h : Handler) (e : E) (hne : (mapErr h e).1 ≠ 0) :
    (errResp (mapErr h e)).status = 400 ∧ (errTree (mapErr h e)).keys = NutWire.errorFields ∧
    (errTree (mapErr h e)).field? "code" = some (.num (mapErr h e).1) :=
  ⟨rfl, errTree_keys _ hne, errTree_code _ hne⟩

/-- Requests refused before the operation (`{method}` other than bolt11, content type, decoding) are 400
    `{detail, code}` as well, with code 10000 except for the payment method (11003). -/
theorem early_refusals :
    (∀ e ∈ [eCtype, eBadJson, eTypeErr, eEmptyBody, eDecodeOther], e.1 = 10000 ∧ (errTree e).keys = NutWire.errorFields) ∧
    eMethod.1 = 11003 ∧ (errTree eMethod).keys = NutWire.errorFields := by decide

/-- The full statement about the handlers' error mapping — *every* error a handler passes to `writeErr` has the
    `{detail, code}` shape — … -/
def refused_shape_full : Prop := ∀ (h : Handler) (e : E), (errTree (mapErr h e)).keys = NutWire.errorFields

/-- … is false: a Go `error` that is not a `*cashu.Error` (code 0 in the model) is handed to `writeErr` unchanged
    by every handler that type-asserts `err.(*cashu.Error)`, and `json.Marshal` renders it `{}`.  Latent since fix 1c07e11:
    no operation behind an HTTP handler is known to return such an error any more (not proved here). -/
theorem refused_shape_full_false : ¬ refused_shape_full := by
  intro h
  have := h .mintTokensRequest (0, "raw")
  revert this; decide

/-- The handlers for which no raw error can reach `writeErr` (they replace every error by a constant). -/
theorem refused_shape_constant_handlers (e : E) :
    (errTree (mapErr .restoreSignatures e)).keys = NutWire.errorFields ∧
    (errTree (mapErr .mintInfo e)).keys = NutWire.errorFields ∧
    (errTree (mapErr .getKeysetById e)).keys = NutWire.errorFields := by
  refine ⟨?_, ?_, ?_⟩
  · show (errTree eStandard).keys = _; decide
  · show (errTree eStandard).keys = _; decide
  · show (errTree eUnknownKeyset).keys = _; decide

/-! Regression (was: witness of the `{}` body): a paid quote, a mint request refused after the PENDING write (outputs
    above the quote amount), and a storage fault at the fourth storage call (GetMintQuote, UpdateMintQuoteState PAID,
    UpdateMintQuoteState PENDING, then) — the "restore previous state" write.  Since fix 1c07e11 the failure is wrapped as
    a DB error and the client receives the constant body.  The quote is still left PENDING (the stranding recorded under C07). -/
section RawWitness
example : (handle sPaid rMintOver).2 = ⟨400, stdBody⟩ := by decide
example : ((handle sPaid rMintOver).1.mint.w.db.mintQ.map (·.state)) = [.pending] := by decide
end RawWitness


/-! ## 3b. Routing and status codes -/

/-- Every answer carries one of six status codes; 301 / 404 / 405 come from the router alone (unclean path, no route,
    only the method mismatches) and 0 marks what the model does not cover (websocket upgrade, misuse of the model). -/
theorem status_range (s : WSess) (r : Request) : (handle s r).2.status ∈ [200, 400, 301, 404, 405, 0] :=
  handleX_status s r

/-- A request that reaches a handler is answered 200 or 400 — nothing else. -/
theorem status_200_or_400 {s : WSess} {r : Request} {h : Handler} {p : Parsed} {op : Op} (hr : Reaches r h p op) :
    (handle s r).2.status = 200 ∨ (handle s r).2.status = 400 := by
  simp only [handle_eq, handleX_reaches hr]
  exact runHandler_status s h p op r

/-- The `setupHeaders` middleware answers every `OPTIONS` request on a routed path itself: 200, empty body, nothing
    touched — the handler (and so the cache and the mint) is never reached. -/
theorem options_answered (s : WSess) (r : Request) (hm : r.method = "OPTIONS") (hc : unclean r.segs = false)
    {h : Handler} {vars : List (String × String)} (hroute : route r.method r.segs = .found h vars) :
    handle s r = (s, ⟨200, ""⟩) := by
  rw [handle_eq]
  unfold handleX
  rw [hm] at hroute
  simp [hc, hm, hroute]

/-- Routing witnesses (mux tries the routes in source order; `{method}` is checked by the handler, not the router). -/
example : route "POST" ["v1", "swap"] = .found .swapRequest [] := by decide
example : route "POST" ["v1", "mint", "quote", "bolt11"] = .found .mintRequest [("method", "bolt11")] := by decide
example : route "POST" ["v1", "mint", "quote"] = .found .mintTokensRequest [("method", "quote")] := by decide
example : route "POST" ["v1", "mint", "quote", "bolt11", "abc"] = .found .mintQuoteState [("method", "bolt11"), ("quote_id", "abc")] := by decide
example : route "GET" ["v1", "swap"] = .methodNotAllowed ∧ route "get" ["v1", "keys"] = .methodNotAllowed := by decide
example : route "GET" ["v1", "keys", ""] = .notFound ∧ route "OPTIONS" ["v1", "nothing"] = .notFound := by decide
example : unclean ["v1", "", "keys"] = true ∧ unclean ["v1", "..", "keys"] = true ∧ unclean ["v1", "keys", ""] = false := by decide
/-- `{method}` other than bolt11 is refused with 11003 before the body is looked at. -/
example : (handle { mint := initSess 0 false {} }
    { method := "POST", segs := ["v1", "melt", "onchain"], url := "/v1/melt/onchain", body := "garbage", dec := .syntaxErr }).2 =
    ⟨400, "{\"detail\":\"payment method not supported\",\"code\":11003}"⟩ := by decide

/-! ## 4. Codes -/

/-- Every error variable of cashu/cashu.go that expresses a cause of the NUT error table carries the table's code,
    and that code is in the table. -/
theorem code_of_cause :
    ∀ row ∈ Gen.errTable, ∀ c, (NutWire.causeOfVar.find? (·.1 == row.1)).map (·.2) = some c →
      row.2.2 = c ∧ c ∈ NutWire.errorCodes.map (·.1) := by decide

/-- Every cause variable of the spec map exists in the source. -/
theorem code_of_cause_covers : ∀ v ∈ NutWire.causeOfVar, v.1 ∈ Gen.errTable.map (·.1) := by decide

/-- The handlers pass a cashu error of the operation on unchanged unless its code is one of the two internal ones
    (restoreSignatures / mintInfo / getKeysetById answer with their constant). -/
theorem mapErr_passthrough (h : Handler) (e : E) (h1 : e.1 ≠ 1) (h2 : e.1 ≠ 2)
    (hh : h ≠ .restoreSignatures ∧ h ≠ .mintInfo ∧ h ≠ .getKeysetById) : mapErr h e = e := by
  obtain ⟨a, b, c⟩ := hh
  have e1 : (e.1 == 1) = false := by simpa using h1
  have e2 : (e.1 == 2) = false := by simpa using h2
  cases h <;> simp_all [mapErr]

/-- The model's error constants are rows of the source's table (so `code_of_cause` speaks about what `applyOp` returns). -/
theorem model_errors_in_table :
    ∀ e ∈ [eStandard, eUnknownKeyset, eInvalidBMAmount, eInvalidProofAmount, eAlreadySigned, eNotPaid, eAlreadyIssued,
           eMintingDisabled, eMintAmountExceeded, eInvalidSig, eOutputsOverQuote, eProofUsed, eProofPending, eInvalidProof,
           eSecretTooLong, eNoProofs, eDupProofs, eDupOutputs, eQuoteNotExist, eQuotePending, eMeltAlreadyPaid,
           eMeltAmountExceeded, eMeltQuoteExists, eInsufficient, eInactiveKeyset, eEmptyBody, eMethod],
      (e.2, e.1) ∈ Gen.errTable.map (fun r => (r.2.1, r.2.2)) := by decide

/-- Codes the mint answers that the NUT table does not contain, or contains with another meaning (observation,
    not a theorem about behaviour): 11003 payment method, 10004 secret too long are not in the table; 20009 is
    "Pubkey required for mint quote" in the table and "quote does not exist / already exists / invalid invoice" here. -/
theorem codes_outside_table :
    11003 ∉ NutWire.errorCodes.map (·.1) ∧ 10004 ∉ NutWire.errorCodes.map (·.1) ∧
    (NutWire.errorCodes.find? (·.1 == 20009)).map (·.2) = some "Pubkey required for mint quote" ∧
    eQuoteNotExist.1 = 20009 ∧ eMeltQuoteExists.1 = 20009 := by decide

/-- The full statement for one cause — the same secret twice in one request is answered 11007 — … -/
def code_of_cause_full : Prop :=
  ∀ (s : WSess) (r : Request) (p₁ p₂ : Proof) (outs : List BMsg),
    r.method = "POST" → r.segs = ["v1", "swap"] → r.ctype = "" → r.dec = .ok (.swap [p₁, p₂] outs none) →
    p₁.secret = p₂.secret → (handle s r).2.status = 400 → (handle s r).2.body = (errTree eDupProofs).render

/-- … is false: `CheckDuplicateProofs` compares whole structs, so two copies that differ in the witness (or carry
    a `dleq` object: two pointers) pass it; the request is refused only by the primary key of the proofs table and the
    client is told 10000 "unable to process". -/
theorem code_of_cause_full_false : ¬ code_of_cause_full := by
  intro h
  let p : Proof := { amount := 1, ks := .known 0, secret := 7, long := false, c := .sig 0 1 7, cEnc := 0, witness := 0, dleq := 0, lock := .plain }
  let r : Request := { method := "POST", segs := ["v1", "swap"], url := "/v1/swap", body := "x", bodyLen := 1,
                       dec := Decode.ok (Parsed.swap [p, { p with witness := 1 }] [] none) }
  have := h { mint := initSess 0 false {} } r p { p with witness := 1 } [] rfl rfl rfl rfl rfl
  revert this; decide

/-- What does hold: an *identical* copy is answered 11007 (witness). -/
example :
    let p : Proof := { amount := 1, ks := .known 0, secret := 7, long := false, c := .sig 0 1 7, cEnc := 0, witness := 0, dleq := 0, lock := .plain }
    (handle { mint := initSess 0 false {} }
      { method := "POST", segs := ["v1", "swap"], url := "/v1/swap", body := "x", bodyLen := 1,
        dec := Decode.ok (Parsed.swap [p, p] [] none) }).2 = ⟨400, (errTree eDupProofs).render⟩ := by decide

/-! ## 5. Internal failures -/

/-- DB-coded (1) and LN-coded (2) errors of the operation are answered with one constant body, whatever the internal
    message `name` is — by these handlers. -/
theorem internal_generic (name : String) :
    (∀ h ∈ [Handler.mintRequest, .mintQuoteState, .mintTokensRequest, .meltQuoteState, .tokenStateCheck, .restoreSignatures, .mintInfo],
        (errResp (mapErr h (1, name))) = ⟨400, stdBody⟩ ∧ (errResp (mapErr h (2, name))) = ⟨400, stdBody⟩) ∧
    (∀ h ∈ [Handler.swapRequest, .meltQuoteRequest, .meltTokens], (errResp (mapErr h (1, name))) = ⟨400, stdBody⟩) ∧
    -- meltTokens has its own constant for Lightning errors
    (errResp (mapErr .meltTokens (2, name))) = ⟨400, "{\"detail\":\"unable to send payment\",\"code\":10000}"⟩ := by
  have hstd : errResp eStandard = ⟨400, stdBody⟩ := by decide
  refine ⟨?_, ?_, ?_⟩
  · intro h hh
    simp only [List.mem_cons, List.mem_nil_iff, or_false] at hh
    rcases hh with rfl | rfl | rfl | rfl | rfl | rfl | rfl <;> exact ⟨hstd, hstd⟩
  · intro h hh
    simp only [List.mem_cons, List.mem_nil_iff, or_false] at hh
    rcases hh with rfl | rfl | rfl <;> exact hstd
  · show errResp eUnableToPay = _; decide


/-- At the level of whole requests: whenever the operation behind a request fails with an internal code (DB = 1,
    LN = 2), the client receives the constant body — whatever the internal message — for every handler and code except
    the two latent combinations above. -/
theorem internal_generic_response {s : WSess} {r : Request} {h : Handler} {p : Parsed} {op : Op} {c : Nat} {name : String}
    (hr : Reaches r h p op) (hm : Miss s h r)
    (hres : resTree p (applyOp (armLn s.mint r.lnFail) op).2 = .error (c, name))
    (hc : c = 1 ∨ (c = 2 ∧ h ≠ .swapRequest ∧ h ≠ .meltQuoteRequest)) :
    (handle s r).2 = ⟨400, stdBody⟩ ∨
    (h = .meltTokens ∧ c = 2 ∧ (handle s r).2 = ⟨400, "{\"detail\":\"unable to send payment\",\"code\":10000}"⟩) := by
  rw [body_of_outcome hr hm, hres]
  have hstd : (⟨400, (errTree eStandard).render⟩ : Response) = ⟨400, stdBody⟩ := by decide
  have hpay : (⟨400, (errTree eUnableToPay).render⟩ : Response) = ⟨400, "{\"detail\":\"unable to send payment\",\"code\":10000}"⟩ := by decide
  obtain ⟨_, _, _, _, _⟩ := hr.plain
  simp only
  rcases hc with rfl | ⟨rfl, hs, hq⟩
  · left
    have hme : mapErr h (1, name) = eStandard := by cases h <;> first | rfl | contradiction
    rw [hme]; exact hstd
  · by_cases hmt : h = .meltTokens
    · subst hmt
      right
      have hme : mapErr .meltTokens (2, name) = eUnableToPay := rfl
      rw [hme]
      exact ⟨rfl, rfl, hpay⟩
    · left
      have hme : mapErr h (2, name) = eStandard := by cases h <;> first | rfl | contradiction
      rw [hme]; exact hstd

/-- The handlers where this is NOT so, precisely: swapRequest and meltQuoteRequest test only `DBErrCode`; an LN-coded
    error would leave them with its internal code and message.  (Neither `Swap` nor `RequestMeltQuote` builds an
    LN-coded error today — `FeeReserve` cannot fail —, so this is latent.) -/
theorem internal_generic_exceptions (name : String) :
    mapErr .swapRequest (2, name) = (2, name) ∧ mapErr .meltQuoteRequest (2, name) = (2, name) := ⟨rfl, rfl⟩

/-- The full statement at the level of causes — a request that fails *because storage failed* is answered with the
    constant body — … -/
def internal_generic_full : Prop :=
  ∀ (s : WSess) (r : Request), s.mint.w.faultAt = some 0 → r.method = "GET" →
    r.segs = ["v1", "mint", "quote", "bolt11", "q"] → (handle s r).2.status = 400 → (handle s r).2 = ⟨400, stdBody⟩

/-- … is false: `GetMintQuoteState` / `GetMeltQuoteState` / `MeltTokens` answer *any* error of the quote lookup —
    also an unavailable database — with "quote does not exist" (20009). -/
theorem internal_generic_full_false : ¬ internal_generic_full := by
  intro h
  let s : WSess := { mint := (applyOp (initSess 0 false {}) (.armFault 0)).1 }
  let r : Request := { method := "GET", segs := ["v1", "mint", "quote", "bolt11", "q"], url := "/v1/mint/quote/bolt11/q", pathSym := 0 }
  have := h s r rfl rfl rfl
  revert this; decide

/-! ## 6. The NUT-19 cache -/

/-- Keys of cached POSTs and keyset-cache keys live in one map and never collide: a cached key contains the URL,
    which contains `/`; a `{id}` path segment cannot contain `/`, the `ACTIVE_KEYSET` constant has none.
    For ALL strings. -/
theorem no_collision (method url body id : String) (hurl : '/' ∈ url.toList) (hid : '/' ∉ id.toList) :
    method ++ keySep ++ url ++ keySep ++ body ≠ id ∧ method ++ keySep ++ url ++ keySep ++ body ≠ activeKeysetKey := by
  have hk : '/' ∈ (method ++ keySep ++ url ++ keySep ++ body).toList := by simp [String.toList_append, hurl]
  exact ⟨ne_of_slash hk hid, ne_of_slash hk activeKey_no_slash⟩

/-- The `{id}` a routed request carries is a path segment, hence without `/` for a well-formed request. -/
theorem id_no_slash {r : Request} (hwf : ReqWF r) {h : Handler} {vars : List (String × String)}
    (hr : route r.method r.segs = .found h vars) : '/' ∉ (var? vars "id").toList := by
  by_cases hv : var? vars "id" = ""
  · rw [hv]; decide
  · obtain ⟨kv, hkv, heq⟩ := var?_mem hv
    rw [← heq]
    exact hwf.segs _ (route_vars hr kv hkv).1

/-- The two keyset uses of the map do collide with each other in exactly one id (observation about the code:
    `GET /v1/keys/active_keyset_key` is answered with the cached active keyset once `GET /v1/keys` has been served). -/
example :
    let s0 : WSess := { mint := initSess 0 false {} }
    let s1 := (handle s0 { method := "GET", segs := ["v1", "keys"], url := "/v1/keys" }).1
    (handle s0 { method := "GET", segs := ["v1", "keys", "active_keyset_key"], url := "/v1/keys/active_keyset_key" }).2.status = 400 ∧
    (handle s1 { method := "GET", segs := ["v1", "keys", "active_keyset_key"], url := "/v1/keys/active_keyset_key" }).2.status = 200 := by
  decide

/-- **Single step.** A request that reaches a cached handler (`/v1/swap`, `/v1/mint/bolt11`) is served from the cache
    iff the map holds its key `method ++ url ++ body`; then the answer is 200 with the stored bytes, the operation is
    not executed (the mint session is untouched), and the entry is dropped if it had expired (served once more). -/
theorem cache_hit_iff {s : WSess} {r : Request} {h : Handler} {p : Parsed} {op : Op}
    (hr : Reaches r h p op) (hc : isCached h = true) :
    ((∃ k, (handleX s r).2.2 = .hit k) ↔ s.cache.lookup r.key ≠ none) ∧
    (∀ v e, s.cache.lookup r.key = some (v, e) →
        (handle s r).2 = ⟨200, v⟩ ∧ (handle s r).1.mint = s.mint ∧ (handle s r).1.now = s.now ∧
        (handle s r).1.cache = if e < s.now then s.cache.del r.key else s.cache) := by
  rw [handle_eq, handleX_reaches hr]
  constructor
  · cases hl : s.cache.lookup r.key with
    | some x =>
      obtain ⟨v, e⟩ := x
      rw [runHandler_hit hc hl]
      simp
    | none =>
      have heff := runHandler_effect s h p op r
      cases heff with
      | same _ hi _ => simp; exact fun k => hi k
      | keys key _ _ hi _ => simp; exact fun k => hi k
      | hit v e hl' _ _ _ _ => rw [hl] at hl'; simp at hl'
      | store t h' op' _ _ _ _ hi => rw [hi]; simp
  · intro v e hl
    rw [runHandler_hit hc hl]
    simp [expired]

/-- Only the two NUT-19 endpoints are cached handlers. -/
theorem cached_handlers (h : Handler) : isCached h = true ↔ h = .swapRequest ∨ h = .mintTokensRequest := by
  cases h <;> simp [isCached]

/-- … and they are the endpoints the mint advertises under NUT-19 with the TTL it uses. -/
theorem cached_endpoints_advertised :
    (routeTable.filter (fun rt => isCached rt.h)).map (fun rt => patternStr rt.pat) = ["/v1/mint/{method}", "/v1/swap"] ∧
    NutWire.cachedEndpoints = [("POST", "/v1/mint/bolt11"), ("POST", "/v1/swap")] ∧ cacheTtl = 300 * nsPerSec := by decide

/-- **Histories.** From a fresh server (empty cache), over any history of well-formed requests, clock steps, ticks of the
    cleanup loop, mint events and restarts: every entry under a key containing `/` — every NUT-19 entry — was stored by an
    earlier request that (1) was *executed*, (2) was answered 200, (3) went to a cached handler, (4) has exactly this key,
    and the stored bytes are that request's response body.  Keys stay unique and the map holds at most limit + 1 entries. -/
theorem cache_provenance (s : WSess) (hs : s.cache = []) (evs : List Event) (hwf : EventsWF evs) :
    CacheInv (runLog s evs).2 (runLog s evs).1.cache := by
  have h := CacheInv.run (log := []) (s := s) evs (hs ▸ CacheInv.nil []) hwf
  simpa using h

/-- **cache_exact.** In a history from a fresh server, a request reaching `/v1/swap` or `/v1/mint/bolt11` is served from
    the cache IFF an earlier request of the history with the identical key `method ++ url ++ body` was executed
    successfully (200) on a cached handler and its entry is still retained; the answer then is that request's 200 body,
    byte for byte, and the operation is not executed again. -/
theorem cache_exact (s0 : WSess) (hs : s0.cache = []) (evs : List Event) (hwf : EventsWF evs)
    {r : Request} (hrwf : ReqWF r) {h : Handler} {p : Parsed} {op : Op} (hr : Reaches r h p op) (hc : isCached h = true) :
    let s := (runLog s0 evs).1
    let log := (runLog s0 evs).2
    ((∃ k, (handleX s r).2.2 = .hit k) ↔
        ∃ v e, s.cache.lookup r.key = some (v, e) ∧ Stored log r.key v) ∧
    (∀ v e, s.cache.lookup r.key = some (v, e) →
        Stored log r.key v ∧ (handle s r).2 = ⟨200, v⟩ ∧ (handle s r).1.mint = s.mint) := by
  intro s log
  have hinv : CacheInv log s.cache := cache_provenance s0 hs evs hwf
  have hslash := key_has_slash r hrwf.url
  obtain ⟨h1, h2⟩ := cache_hit_iff (s := s) hr hc
  refine ⟨?_, ?_⟩
  · rw [h1]
    constructor
    · intro hne
      cases hl : s.cache.lookup r.key with
      | none => exact absurd hl hne
      | some x => obtain ⟨v, e⟩ := x; exact ⟨v, e, rfl, hinv.prov _ v e hl hslash⟩
    · rintro ⟨v, e, hl, _⟩; rw [hl]; simp
  · intro v e hl
    obtain ⟨ha, hb, _, _⟩ := h2 v e hl
    exact ⟨hinv.prov _ v e hl hslash, ha, hb⟩

/-- "Identical key" is "identical (method, URL incl. query, body)": the parts are separated by NUL bytes, which neither a
    method nor a URL can contain (fix 65f9524). -/
theorem key_eq_iff (r₁ r₂ : Request) (h₁ : NoNul r₁) (h₂ : NoNul r₂) :
    r₁.key = r₂.key ↔ (r₁.method = r₂.method ∧ r₁.url = r₂.url ∧ r₁.body = r₂.body) := by
  constructor
  · exact key_inj h₁ h₂
  · rintro ⟨hm, hu, hb⟩
    unfold Request.key
    rw [hm, hu, hb]

/-- The full statement — equal keys only for byte-identical (method, URL, body) — holds since fix 65f9524. -/
theorem cache_exact_full (r₁ r₂ : Request) (h₁ : NoNul r₁) (h₂ : NoNul r₂) (h : r₁.key = r₂.key) :
    r₁.method = r₂.method ∧ r₁.url = r₂.url ∧ r₁.body = r₂.body := key_inj h₁ h₂ h

/-- `cache_exact` in terms of the request itself: in a history from a fresh server whose requests carry no NUL byte in
    method or URL, a request served from the cache has the byte-identical (method, URL incl. query, body) of an earlier
    request of that history that was executed and answered 200 with exactly the bytes now served. -/
theorem cache_exact_triple (s0 : WSess) (hs : s0.cache = []) (evs : List Event) (hwf : EventsWF evs)
    (hnn : ∀ r', Event.req r' ∈ evs → NoNul r')
    {r : Request} (hrwf : ReqWF r) (hrn : NoNul r) {h : Handler} {p : Parsed} {op : Op} (hr : Reaches r h p op)
    (hc : isCached h = true) (k : String) (hhit : (handleX (runLog s0 evs).1 r).2.2 = .hit k) :
    ∃ r', Event.req r' ∈ evs ∧ r'.method = r.method ∧ r'.url = r.url ∧ r'.body = r.body ∧
      ∃ x ∈ (runLog s0 evs).2, x.req = r' ∧ x.resp = (handle (runLog s0 evs).1 r).2 ∧ x.resp.status = 200 := by
  obtain ⟨h1, h2⟩ := cache_exact s0 hs evs hwf hrwf hr hc
  obtain ⟨v, e, hl, hst⟩ := h1.mp ⟨k, hhit⟩
  obtain ⟨x, hx, hkey, hresp, _⟩ := hst
  have hmem := runLog_mem hx
  obtain ⟨hm, hu, hb⟩ := key_inj (hnn _ hmem) hrn hkey
  refine ⟨x.req, hmem, hm, hu, hb, x, hx, rfl, ?_, ?_⟩
  · rw [hresp, (h2 v e hl).2.1]
  · rw [hresp]

/-! Regression (was: the witness of the key ambiguity).  `POST /v1/swap?x` with body `{A}null` and `POST /v1/swap?x{A}`
    with body `null` had the same concatenated key; with separators the keys differ, and the second request — a swap
    without inputs — is executed and refused instead of being answered with the first one's signatures. -/
section AmbiguityWitness
example : rFirst.key ≠ rSecond.key := by decide
example : (handle sFresh rFirst).2.status = 200 := by decide
example : (handle sFresh rSecond).2.status = 400 := by decide
example : (handle (handle sFresh rFirst).1 rSecond).2 = (handle sFresh rSecond).2 := by decide
example : NoNul rFirst ∧ NoNul rSecond := ⟨⟨by decide, by decide⟩, ⟨by decide, by decide⟩⟩
end AmbiguityWitness

/-- **Replay within retention.** Once a request has been executed and its response stored (entry `(v, exp)` under its
    key), then after ANY further history without restart in which time does not run backwards and `exp` has not passed,
    the same request is answered with the identical bytes and nothing is executed. -/
theorem replay_identical {s : WSess} {r : Request} {h : Handler} {p : Parsed} {op : Op} {v : String} {exp : Int}
    (hr : Reaches r h p op) (hc : isCached h = true) (hrwf : ReqWF r) (hwfc : s.cache.WF)
    (hl : s.cache.lookup r.key = some (v, exp))
    (evs : List Event) (hnr : ∀ e ∈ evs, noRestart e = true) (htf : ∀ e ∈ evs, timeForward e = true)
    (hwf : EventsWF evs) (hfresh : ¬ exp < (runEvents s evs).now) :
    (handle (runEvents s evs) r).2 = ⟨200, v⟩ ∧ (handle (runEvents s evs) r).1.mint = (runEvents s evs).mint ∧
    (handle (runEvents s evs) r).1.cache = (runEvents s evs).cache := by
  have hl' := retained_run evs hwfc hl (key_has_slash r hrwf.url) hnr htf hwf hfresh
  obtain ⟨ha, hb, _, hd⟩ := (cache_hit_iff (s := runEvents s evs) hr hc).2 v exp hl'
  refine ⟨ha, hb, ?_⟩
  rw [hd]; simp [hfresh]

/-- The entry a successful execution stores expires `CACHE_ITEM_TTL` = 300 s later and is stored only if the body is
    below 2 MB and the map holds at most `CACHE_ITEMS_LIMIT` = 10000 entries at that moment. -/
theorem stored_entry {s : WSess} {r : Request} {h : Handler} {p : Parsed} {op : Op} {t : Json}
    (hc : isCached h = true) (hl : s.cache.lookup r.key = none)
    (hok : (execOp p op (armLn s.mint r.lnFail)).2 = .ok t) :
    (runHandler s h p op r).1.cache =
      if r.bodyLen < Gen.requestBodySizeLimit ∧ s.cache.length ≤ Gen.cacheItemsLimit
      then (r.key, t.render, s.now + 300 * 1000000000) :: s.cache.del r.key else s.cache := by
  unfold runHandler
  simp only [hc, if_true]
  rw [get_none hl]
  simp only
  cases hx : execOp p op (armLn s.mint r.lnFail) with
  | mk m1 res =>
    rw [hx] at hok
    simp only at hok
    subst hok
    simp only
    by_cases hb : r.bodyLen < bodyLimit
    · have hb' : r.bodyLen < Gen.requestBodySizeLimit := hb
      simp only [hb, if_true, hb', true_and]
      unfold Cache.set
      by_cases hlen : s.cache.length ≤ cacheLimit
      · have hlen' : s.cache.length ≤ Gen.cacheItemsLimit := hlen
        simp only [hlen, hlen', if_true]
        rfl
      · have hlen' : ¬ s.cache.length ≤ Gen.cacheItemsLimit := hlen
        simp only [hlen, hlen', if_false]
    · have hb' : ¬ r.bodyLen < Gen.requestBodySizeLimit := hb
      simp only [hb, hb', if_false, false_and]

/-- **Beyond retention** — after the TTL (and the one extra answer an expired entry still gives), after eviction by the
    cleanup loop, after a restart, or when the response was never stored (map full, body ≥ 2 MB) — the key is absent and the
    request is *executed again*: the answer is the operation's outcome on the current mint session (for a swap: inputs
    already spent; for a mint: quote already issued).  Stated, not hidden. -/
theorem beyond_retention_executes {s : WSess} {r : Request} {h : Handler} {p : Parsed} {op : Op}
    (hr : Reaches r h p op) (hl : s.cache.lookup r.key = none) :
    (handle s r).2 = respOf h (execOp p op (armLn s.mint r.lnFail)).2 ∧
    (handle s r).1.mint = (applyOp (armLn s.mint r.lnFail) op).1 := by
  simp only [handle_eq, handleX_reaches hr]
  obtain ⟨h1, h2⟩ := runHandler_miss (s := s) (h := h) (p := p) (op := op) (r := r) (.inr hl)
  exact ⟨h2, h1⟩

/-- The map can hold `limit + 1` entries (`<=` in `Set`), never more; at `limit + 1` even an existing key is not
    overwritten.  (Generic in the limit; the server's is 10000.) -/
theorem cache_limit_plus_one (c : Cache) (k v : String) (e : Int) (limit : Nat) :
    (c.length ≤ limit + 1 → (c.set k v e limit).length ≤ limit + 1) ∧
    (limit < c.length → c.set k v e limit = c) := ⟨length_set_le, set_full⟩

example : (Cache.set (Cache.set [] "a" "1" 0 1) "b" "2" 0 1).length = 2 := by decide       -- limit 1, two entries
example : (Cache.set (Cache.set (Cache.set [] "a" "1" 0 1) "b" "2" 0 1) "c" "3" 0 1).length = 2 := by decide
example : Cache.lookup (Cache.set (Cache.set (Cache.set [] "a" "1" 0 1) "b" "2" 0 1) "a" "new" 0 1) "a" = some ("1", 0) := by decide

/-! Witnesses for the clock: replay inside the TTL, the one extra answer of an expired entry, execution afterwards. -/
section ClockWitness
example : Reaches rSwap .swapRequest (.swap [pr7] [out3] none) (.swap [pr7] [out3] none) :=
  ⟨by decide, by decide, ⟨[], rfl, by decide⟩, by decide, rfl, rfl⟩
example : ReqWF rSwap := ⟨by decide, by decide⟩
example : (handle sFresh rSwap).2.status = 200 ∧ s1.cache.length = 1 := by decide
-- byte-identical replay 299 s later: identical bytes, mint untouched
example : (handle (advance s1 (299 * nsPerSec)) rSwap).2 = (handle sFresh rSwap).2 ∧
          (handle (advance s1 (299 * nsPerSec)) rSwap).1.mint.w.db.spent.length = 1 := by decide
-- one changed byte (trailing space): executed, refused — inputs spent
example : (handle s1 { rSwap with body := "{swap} " }).2 = ⟨400, (errTree eProofUsed).render⟩ := by decide
-- 301 s later: the expired entry is served ONCE more (and deleted) …
example : (handle (advance s1 (301 * nsPerSec)) rSwap).2.status = 200 ∧
          (handle (advance s1 (301 * nsPerSec)) rSwap).1.cache = [] := by decide
-- … then the request is executed again and refused
example : (handle (handle (advance s1 (301 * nsPerSec)) rSwap).1 rSwap).2 = ⟨400, (errTree eProofUsed).render⟩ := by decide
-- the cleanup loop evicts it first: executed again
example : (handle (tick (advance s1 (301 * nsPerSec)) false) rSwap).2.status = 400 := by decide
-- a restart builds a new server with an empty cache: executed again
example : (handle (stepEvent s1 (.restart false 0)) rSwap).2.status = 400 := by decide
end ClockWitness

end Gonuts.Props.C20
