import Gonuts.Lemmas.MintLedger
/-!
  C02 — the ledger over whole histories (the statement "at every point …" of the property).

  `Led` (Lemmas/MintLedger.lean) is the potential

      1000·(signed + credit) + paidOut  ≤  1000·(received + redeemed)          (msat)

    signed   = Σ amounts of all stored blind signatures (everything ever issued)
    credit   = Σ amounts of mint quotes that are PAID / PENDING (paid for, not yet issued)
    paidOut  = Σ over melt quotes that are PAID and were paid over Lightning of 1000·(amount + fee reserve): what the
               backend may have sent (invoice msat ≤ 1000·amount: F2; fee ≤ the fee limit = the reserve: F1)
    received = Σ amounts of mint quotes that are not UNPAID and whose invoice the backend reports settled
    redeemed = Σ amounts of all spent proofs

  together with: for every PENDING melt quote the inputs locked under it are worth at least amount + fee reserve (what
  may still go out for it is covered by value that cannot be spent meanwhile: C01, C05).

  PROVED: `Led` holds in EVERY state reached from a fresh mint by any sequential fault-free history of admissible
  operations — no bound on length, every request content (UInt64 semantics incl. Go's wrap-arounds), every fee
  configuration, every script of Lightning answers, internal settlements, MPP, rotations and restarts (`ledger`).
  Admissible (`OpOk`) excludes only: a watcher notification for an invoice the backend has not settled (the backend
  does not send those); a melt whose `amount + fee_reserve + fees` would wrap in 64 bits (fees of ~2^63 sat) or that
  settles internally against a mint quote LARGER than the melt quote (impossible when the invoice carries the mint
  quote's amount, i.e. for every amount BOLT11 can express; the scripted backend's stand-in invoices for amounts
  ≥ 2^40 sat are the only way to build one).
  What is outside this theorem: overlapping requests and storage faults (C01/C03/C07 known findings break the ledger:
  a double spend is inflation), and the link "actual outflow ≤ paidOut + pending cover" (C05: a quote is UNPAID only
  after a definitive failure; C02.fee_limit_eq_reserve / meltquote_covers_msat bound each payment).
-/
namespace Gonuts.Props.C02Ledger
open Gonuts.Model Gonuts.Model.Mint

/-- The ledger invariant along every admissible sequential history. -/
theorem ledger (fee : UInt64) (pct : Bool) (cfg : Cfg) (ops : List Op) (h : HistOk (initSess fee pct cfg) ops) :
    Led (runOps (initSess fee pct cfg) ops).w.db (runOps (initSess fee pct cfg) ops).w.ln.invoices := by
  obtain ⟨hl, hw, hd⟩ := led_init fee pct cfg
  exact runOps_led _ ops h rfl hd hl hw

/-- Read in msat: outstanding ecash (signed − redeemed, in N because redeemed ≤ signed + …) plus unissued credit plus
    everything that may have left over Lightning is covered by what was received. -/
theorem no_inflation (fee : UInt64) (pct : Bool) (cfg : Cfg) (ops : List Op) (h : HistOk (initSess fee pct cfg) ops) :
    let s := runOps (initSess fee pct cfg) ops
    1000 * (amtS s.w.db.sigs + credit s.w.db) + paidOut s.w.db ≤ 1000 * (received s.w.db s.w.ln.invoices + amtP s.w.db.spent) :=
  (ledger fee pct cfg ops h).core

/-- … and every melt still in flight is covered by the inputs locked under it. -/
theorem pending_melts_covered (fee : UInt64) (pct : Bool) (cfg : Cfg) (ops : List Op) (h : HistOk (initSess fee pct cfg) ops) :
    let s := runOps (initSess fee pct cfg) ops
    ∀ m ∈ s.w.db.meltQ, m.state = .pending → m.amount.toNat + m.feeReserve.toNat ≤ amtP (s.w.db.pending.filter (·.quote == m.id)) :=
  (ledger fee pct cfg ops h).pend

/-- C16's non-negativity: the mint never reports (and never has) more redeemed than signed plus received credit … in
    particular with nothing received nothing can be outstanding. -/
theorem nothing_from_nothing (fee : UInt64) (pct : Bool) (cfg : Cfg) (ops : List Op) (h : HistOk (initSess fee pct cfg) ops)
    (h0 : received (runOps (initSess fee pct cfg) ops).w.db (runOps (initSess fee pct cfg) ops).w.ln.invoices = 0) :
    amtS (runOps (initSess fee pct cfg) ops).w.db.sigs ≤ amtP (runOps (initSess fee pct cfg) ops).w.db.spent := by
  have := no_inflation fee pct cfg ops h
  simp only [] at this
  omega

/-! Non-vacuity: a history with a paid quote, an issuance, a swap, an external melt that is first pending and then
    resolved by a poll is admissible, and the tables are what one expects. -/
def o8 : BMsg := { amount := 8, ks := .known 0, b := .pt 1, witness := 0 }
def o8' : BMsg := { amount := 8, ks := .known 0, b := .pt 2, witness := 0 }
def p8 : Proof := { amount := 8, ks := .known 0, secret := 7, long := false, c := .sig 0 8 7, cEnc := 0, witness := 0, dleq := 0, lock := .plain }
def p8' : Proof := { amount := 8, ks := .known 0, secret := 9, long := false, c := .sig 0 8 9, cEnc := 0, witness := 0, dleq := 0, lock := .plain }
def hist : List Op :=
  [.mintQuote 8 true .none false, .settle 0, .quoteState 0 false, .mint 0 [o8] .none, .swap [p8] [o8'] none,
   .extInvoice 1 8000, .meltQuote (.inv 1) true none, .melt 0 [p8'] [.pending] false, .meltState 0 [.succ]]

def q0 : MeltQ := { id := 0, inv := 1, hash := 1, amount := 8, feeReserve := 0, state := .unpaid, preimage := 0, isMpp := false, amountMsat := 0 }

example : HistOk (initSess 0 false {}) hist := by
  refine ⟨rfl, trivial, rfl, trivial, rfl, trivial, rfl, trivial, rfl, trivial, rfl, trivial, rfl, trivial, rfl, ?_, rfl, trivial, trivial⟩
  have e1 : dbGetMeltQ (runOps (initSess 0 false {}) (hist.take 7)).w.db 0 = .ok q0 := by rfl
  have e2 : dbGetMintQByHash (runOps (initSess 0 false {}) (hist.take 7)).w.db 1 = .error .notFound := by rfl
  intro q hq
  have hq' : dbGetMeltQ (runOps (initSess 0 false {}) (hist.take 7)).w.db 0 = .ok q := hq
  rw [e1] at hq'
  injection hq' with hq'
  subst hq'
  refine ⟨by decide, ?_⟩
  intro mq hmq
  have hmq' : dbGetMintQByHash (runOps (initSess 0 false {}) (hist.take 7)).w.db 1 = .ok mq := hmq
  rw [e2] at hmq'
  cases hmq'

example : amtS (runOps (initSess 0 false {}) hist).w.db.sigs = 16 ∧ amtP (runOps (initSess 0 false {}) hist).w.db.spent = 16 ∧
    received (runOps (initSess 0 false {}) hist).w.db (runOps (initSess 0 false {}) hist).w.ln.invoices = 8 ∧
    paidOut (runOps (initSess 0 false {}) hist).w.db = 8000 := by decide

end Gonuts.Props.C02Ledger
