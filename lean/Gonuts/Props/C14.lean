import Gonuts.Lemmas.Token
import Gonuts.Lemmas.TokenWire
/-!
  # C14 — tokens survive serialisation exactly; decoding arbitrary text never crashes

  Theorems over `Model.Token` (the Go code of `cashu/cashu.go` after the `fix:` commit for defect F9).  In the
  general theorems `encoding/json` and `fxamacker/cbor` are the abstract `Codec` (any functions whatsoever);
  everything else (`encoding/hex`, `encoding/base64`, the byte slicing of the string, the Go map grouping, the
  wrapping sums, the panics) is modelled and proved.  `Model.TokenWire` adds executable models of the two
  marshallers and parsers for their canonical output; `wire_lossless` and the `…_closed` theorems are about those.
-/
namespace Gonuts.Props.C14
open Gonuts.Model Gonuts.Model.Token

/-! ## round trip, V3 -/

/-- `NewTokenV3` succeeds exactly for `unit = Sat`. -/
theorem newV3_unit (ps : List Proof) (mint : String) (unit : Int) (dleq : Bool) :
    (unit ≠ 0 → newV3 ps mint unit dleq = .error .invalidUnit) ∧
    (unit = 0 → ∃ t, newV3 ps mint unit dleq = .ok t) := by
  constructor
  · intro h; simp [newV3, h]
  · intro h; simp [newV3, h]

/-- **V3 round trip.**  For every proof list, mint URL and DLEQ flag, `NewTokenV3` yields a token `t`; if
    `json.Unmarshal` inverts `json.Marshal` on `t`, then `DecodeToken (t.Serialize())` is exactly `t`, and its
    accessors give back the mint URL, unit `"sat"`, the proofs — same order, every field, DLEQ complete when
    requested and cleared otherwise — and the wrapping sum of their amounts. -/
theorem v3_roundtrip (cod : Codec) (ps : List Proof) (mint : String) (dleq : Bool) :
    ∃ t, newV3 ps mint 0 dleq = .ok t ∧
      ∀ js, cod.encJson t = some js → cod.decJson js = some t →
        ∃ s, (Token.v3 t).serialize cod = .ok s ∧ decodeToken cod s = .ok (.v3 t) ∧
          (Token.v3 t).proofs = ps.map (Proof.keep dleq) ∧
          (Token.v3 t).mint = .ok mint ∧ t.unit = "sat" ∧
          (Token.v3 t).amount = amountWrap (ps.map (·.amount)) := by
  refine ⟨{ token := [{ mint := mint, proofs := if dleq then ps else ps.map Proof.clearDLEQ }],
            unit := "sat", memo := "" }, by simp [newV3, unitString], ?_⟩
  intro js henc hdec
  obtain ⟨s, hs, hd, _⟩ := decodeToken_serializeV3 cod _ js henc hdec (by simp)
  have hp : (if dleq then ps else ps.map Proof.clearDLEQ) = ps.map (Proof.keep dleq) := by
    cases dleq <;> simp [Proof.keep_true, Proof.keep_false]
  refine ⟨s, by simp only [Token.serialize, hs], hd, ?_, rfl, rfl, ?_⟩
  · simp only [Token.proofs, proofsV3_eq, List.flatMap_cons, List.flatMap_nil, List.append_nil, hp]
  · simp only [Token.amount, amountV3_eq, proofsV3_eq, List.flatMap_cons, List.flatMap_nil, List.append_nil, hp,
      List.map_map]
    congr 1
    apply List.map_congr_left
    intro p _
    cases dleq <;> rfl

-- v3_roundtrip: the codec hypotheses are satisfiable for the token built from `psEx`, and the conclusion then
-- speaks about three distinct proofs
example : ∃ t js, newV3 psEx "https://mint" 0 true = .ok t ∧
    (codEx t default).encJson t = some js ∧ (codEx t default).decJson js = some t ∧ (Token.v3 t).proofs = psEx :=
  ⟨_, [123, 125], rfl, by decide, by decide, by decide⟩

-- … with includeDLEQ = false the DLEQs are cleared (and only they)
example : (psEx.map (Proof.keep false)).map (·.dleq) = [none, none, none] ∧
    (psEx.map (Proof.keep false)).map (·.secret) = psEx.map (·.secret) := by decide


-- the theorem instantiated: all hypotheses discharged for `psEx`
example : ∃ s, decodeToken (codEx ⟨[⟨"https://mint", psEx⟩], "sat", ""⟩ default) s = .ok (.v3 ⟨[⟨"https://mint", psEx⟩], "sat", ""⟩) := by
  obtain ⟨t, ht, h⟩ := v3_roundtrip (codEx ⟨[⟨"https://mint", psEx⟩], "sat", ""⟩ default) psEx "https://mint" true
  cases ht
  obtain ⟨s, _, hd, _⟩ := h [123, 125] (by decide) (by decide)
  exact ⟨s, hd⟩


/-! ## round trip, V4 -/

/-- `NewTokenV4` rejects anything but: `unit = Sat`, every `C` hex, every DLEQ that is to be included with hex
    `e`, `s`, `r` and non-empty `r`, every keyset id hex. -/
theorem newV4_rejects (ord : List String) (ps : List Proof) (mint : String) (unit : Int) (dleq : Bool) (t : TokenV4)
    (h : newV4 ord ps mint unit dleq = .ok t) :
    unit = 0 ∧ (∀ p ∈ ps, V4Acceptable dleq p) ∧ (∀ k ∈ ord, ∃ b, hexDecode k = .ok b) := by
  obtain ⟨h1, h2, h3, _⟩ := newV4_ok ord ps mint unit dleq t h
  exact ⟨h1, h2, h3⟩

/-- … and accepts everything else. -/
theorem newV4_accepts (ord : List String) (ps : List Proof) (mint : String) (dleq : Bool)
    (hps : ∀ p ∈ ps, V4Acceptable dleq p) (hord : ∀ k ∈ ord, ∃ b, hexDecode k = .ok b) :
    ∃ t, newV4 ord ps mint 0 dleq = .ok t :=
  newV4_of_acceptable ord ps mint dleq hps hord

-- newV4_rejects: each check of NewTokenV4 can fail
example : newV4 ["00"] [⟨1, "00", "s", "zz", "", none⟩] "m" 0 true = .error (.invalidC (.invalidByte 122)) := rfl
example : newV4 ["00"] [⟨1, "00", "s", "02", "", some ⟨"0g", "02", "03"⟩⟩] "m" 0 true
    = .error (.invalidE (.invalidByte 103)) := rfl
example : newV4 ["00"] [⟨1, "00", "s", "02", "", some ⟨"01", "02", ""⟩⟩] "m" 0 true = .error .emptyR := rfl
-- … the DLEQ is not even looked at when it is not to be included
example : newV4 ["00"] [⟨1, "00", "s", "02", "", some ⟨"zz", "02", ""⟩⟩] "m" 0 false =
    .ok ⟨[⟨[0], [⟨1, "s", [2], "", none⟩]⟩], "", "m", "sat"⟩ := rfl
example : newV4 ["0"] [⟨1, "0", "s", "02", "", none⟩] "m" 0 true = .error (.invalidKeysetId .oddLength) := rfl
example : newV4 [] [] "m" 1 true = .error .invalidUnit := rfl


/-- `NewTokenV4` reports the error of the first proof (in input order) that fails a check, with the checks
    of one proof in the order `C`, `e`, `s`, `r` non-empty, `r` (`toV4`) — before any keyset id is looked at. -/
theorem newV4_first_error (ord : List String) (pre : List Proof) (p : Proof) (post : List Proof) (mint : String)
    (dleq : Bool) (e : NewErr) (hpre : ∀ x ∈ pre, V4Acceptable dleq x) (hp : toV4 dleq p = .error e) :
    newV4 ord (pre ++ p :: post) mint 0 dleq = .error e := by
  simp [newV4, newV4With, buildMap_first_error dleq pre p post e hpre hp []]

example : newV4 ["zz"] [⟨1, "zz", "s", "02", "", none⟩, ⟨2, "zz", "t", "0", "", none⟩, ⟨3, "zz", "u", "gg", "", none⟩] "m" 0 true
    = .error (.invalidC .oddLength) := rfl

/-- One group per keyset id, non-empty, holding exactly the proofs of that keyset. -/
theorem newV4_groups (ord : List String) (ps : List Proof) (mint : String) (dleq : Bool) (t : TokenV4)
    (hord : OrderOf ps ord) (h : newV4 ord ps mint 0 dleq = .ok t) :
    t.tokenProofs.length = ord.length ∧
    ∀ g ∈ t.tokenProofs, g.proofs ≠ [] ∧ ∃ k ∈ ord, hexDecode k = .ok g.id ∧
      g.proofs.length = (ps.filter (fun p => p.id = k)).length := by
  unfold newV4 newV4With at h
  simp only [ne_eq, not_true_eq_false, if_false] at h
  split at h
  · cases h
  · rename_i m hm
    split at h
    · cases h
    · rename_i gs hgs
      cases h
      obtain ⟨_, h2, _⟩ := buildMap_ok dleq ps [] m hm
      obtain ⟨h4, h5⟩ := buildGroups_length m ord gs hgs
      refine ⟨h4, ?_⟩
      intro g hg
      obtain ⟨k, hk, hid, hpr⟩ := h5 g hg
      have hlen : g.proofs.length = (ps.filter (fun p => p.id = k)).length := by
        rw [hpr, h2 k]; simp [GoMap.get]
      refine ⟨?_, k, hk, hid, hlen⟩
      obtain ⟨p, hp, hpk⟩ := (hord.2 k).1 hk
      intro hnil
      rw [hnil] at hlen
      have : p ∈ ps.filter (fun p => p.id = k) := List.mem_filter.2 ⟨hp, by simp [hpk]⟩
      have := List.length_pos_of_mem this
      simp at hlen
      omega

/-- **V4 round trip, any accepted input (hex of either case).**  `ord` is the order in which Go's map
    iteration visits the keyset ids (any enumeration of the distinct ids of `ps`).  If `NewTokenV4` returns `t`
    and `cbor.Unmarshal` inverts `cbor.Marshal` on `t`, then `DecodeToken (t.Serialize())` is exactly `t`; its
    proofs are, keyset by keyset in the order `ord`, the input proofs of that keyset in input order — a
    permutation of the input — with amount, secret and witness unchanged and the hex fields (`id`, `C`, DLEQ
    `e`/`s`/`r`) as `hex.EncodeToString (hex.DecodeString ·)` leaves them: `A-F` become `a-f` (`normV4`);
    the DLEQ is complete when requested and absent otherwise; mint and unit come back; the amount is the
    wrapping sum of the input amounts. -/
theorem v4_roundtrip_anycase (cod : Codec) (ord : List String) (ps : List Proof) (mint : String) (dleq : Bool)
    (t : TokenV4) (hord : OrderOf ps ord) (hnew : newV4 ord ps mint 0 dleq = .ok t)
    (cb : Bytes) (henc : cod.encCbor t = some cb) (hdec : cod.decCbor cb = some t) :
    ∃ s, (Token.v4 t).serialize cod = .ok s ∧ decodeToken cod s = .ok (.v4 t) ∧
      (Token.v4 t).proofs = ord.flatMap (fun k => (ps.filter (fun p => p.id = k)).map (normV4 dleq)) ∧
      ((Token.v4 t).proofs).Perm (ps.map (normV4 dleq)) ∧
      (Token.v4 t).mint = .ok mint ∧ t.unit = "sat" ∧
      (Token.v4 t).amount = amountWrap (ps.map (·.amount)) := by
  obtain ⟨_, _, _, hm, hu, _, hp⟩ := newV4_ok ord ps mint 0 dleq t hnew
  obtain ⟨s, hs, hd, _⟩ := decodeToken_serializeV4 cod t cb henc hdec
  have hperm : (proofsV4 t).Perm (ps.map (normV4 dleq)) := by
    rw [hp]
    have := (flatMap_filter_perm ps ord hord).map (normV4 dleq)
    rwa [List.map_flatMap] at this
  refine ⟨s, by simp only [Token.serialize, hs], hd, hp, hperm, by simp [Token.mint, mintV4, hm], hu, ?_⟩
  simp only [Token.amount, amountV4]
  rw [amountWrap_perm (hperm.map (·.amount)), List.map_map]
  rfl

-- v4_roundtrip_anycase: an upper-case keyset id / C / DLEQ is accepted and comes back in lower case
example : ∃ t, newV4 ["00AB"] [⟨4, "00AB", "s", "02FF", "", some ⟨"0A", "0b", "0C"⟩⟩] "m" 0 true = .ok t ∧
    (Token.v4 t).proofs = [⟨4, "00ab", "s", "02ff", "", some ⟨"0a", "0b", "0c"⟩⟩] :=
  ⟨_, rfl, by decide⟩

-- two ids that differ only in case are two map keys, hence two groups with the same id bytes
example : OrderOf [(⟨1, "ab", "x", "", "", none⟩ : Proof), ⟨2, "AB", "y", "", "", none⟩] ["AB", "ab"] := by
  refine ⟨by decide, ?_⟩
  intro k
  simp only [List.mem_cons, List.not_mem_nil, or_false, exists_eq_or_imp, exists_eq_left]
  constructor
  · rintro (h | h) <;> simp [h]
  · rintro (h | h) <;> simp [← h]


/-- **V4 round trip, lower-case hex (exact).**  When keyset ids, `C` and the DLEQ fields to be included are
    lower-case hex and `r` is non-empty, `NewTokenV4` succeeds for every iteration order, and the decoded proofs
    are *exactly* the input proofs (DLEQ complete iff requested), keyset by keyset: a permutation of the input
    that preserves the order inside each keyset. -/
theorem v4_roundtrip (cod : Codec) (ord : List String) (ps : List Proof) (mint : String) (dleq : Bool)
    (hord : OrderOf ps ord) (hlow : ∀ p ∈ ps, LowerHexProof dleq p) :
    ∃ t, newV4 ord ps mint 0 dleq = .ok t ∧
      ∀ cb, cod.encCbor t = some cb → cod.decCbor cb = some t →
        ∃ s, (Token.v4 t).serialize cod = .ok s ∧ decodeToken cod s = .ok (.v4 t) ∧
          (Token.v4 t).proofs = ord.flatMap (fun k => (ps.filter (fun p => p.id = k)).map (Proof.keep dleq)) ∧
          ((Token.v4 t).proofs).Perm (ps.map (Proof.keep dleq)) ∧
          (Token.v4 t).mint = .ok mint ∧ t.unit = "sat" ∧
          (Token.v4 t).amount = amountWrap (ps.map (·.amount)) := by
  have hkeys : ∀ k ∈ ord, ∃ b, hexDecode k = .ok b := by
    intro k hk
    obtain ⟨p, hp, rfl⟩ := (hord.2 k).1 hk
    obtain ⟨b, hb, _⟩ := hex_roundtrip_of_isLowerHex _ (hlow p hp).1
    exact ⟨b, hb⟩
  obtain ⟨t, ht⟩ := newV4_of_acceptable ord ps mint dleq (fun p hp => (hlow p hp).acceptable) hkeys
  refine ⟨t, ht, ?_⟩
  intro cb henc hdec
  obtain ⟨s, h1, h2, h3, h4, h5, h6, h7⟩ := v4_roundtrip_anycase cod ord ps mint dleq t hord ht cb henc hdec
  have hnorm : ps.map (normV4 dleq) = ps.map (Proof.keep dleq) :=
    List.map_congr_left (fun p hp => (hlow p hp).norm)
  refine ⟨s, h1, h2, ?_, by rw [← hnorm]; exact h4, h5, h6, h7⟩
  rw [h3]
  congr 1
  funext k
  apply List.map_congr_left
  intro p hp
  exact (hlow p (List.mem_filter.1 hp).1).norm

-- v4_roundtrip: hypotheses hold for `psEx` with Go visiting "00cd" first; the decoded list is then a genuine
-- re-ordering of the input: [p2, p1, p3]
example : ∃ t, newV4 ["00cd", "00ab"] psEx "https://mint" 0 true = .ok t ∧
    (Token.v4 t).proofs = [psEx[1], psEx[0], psEx[2]] ∧ (Token.v4 t).amount = 2 :=
  ⟨_, rfl, by decide, by decide⟩


-- the theorem instantiated: `OrderOf` and `LowerHexProof` discharged for `psEx`
example (cod : Codec) := v4_roundtrip cod ["00cd", "00ab"] psEx "https://mint" true orderEx lowerEx


/-- Consequence for upper-case input (`hex.DecodeString` accepts `A-F`, `hex.EncodeToString` emits `a-f`): a
    field comes back unchanged iff … it already was what `lowerHex` makes of it; in particular a valid
    upper-case keyset id or `C` does NOT survive the V4 round trip literally (it does survive V3). -/
theorem v4_field_survives_iff (dleq : Bool) (p : Proof) :
    (normV4 dleq p).id = p.id ∧ (normV4 dleq p).c = p.c ↔ lowerHex p.id = p.id ∧ lowerHex p.c = p.c := by
  simp [normV4]

/-- The round trips with the *modelled* marshallers (`Model.TokenWire`: the byte strings `json.Marshal` /
    `cbor.Marshal` really emit, compared byte for byte by stream `token`): only the two `Unmarshal` functions stay
    abstract, and the hypothesis is "`Unmarshal` reads back what `Marshal` wrote for this token". -/
theorem roundtrip_wire (cod : Codec) (ps : List Proof) (mint : String) (dleq : Bool) :
    (∃ t, newV3 ps mint 0 dleq = .ok t ∧
      (cod.decJson (Wire.jsonTokenV3 t) = some t →
        decodeToken (Wire.withRealEncoders cod) (Wire.serialize (.v3 t)) = .ok (.v3 t) ∧
        (Token.v3 t).proofs = ps.map (Proof.keep dleq))) ∧
    (∀ ord, OrderOf ps ord → (∀ p ∈ ps, LowerHexProof dleq p) →
      ∃ t, newV4 ord ps mint 0 dleq = .ok t ∧
        (cod.decCbor (Wire.cborTokenV4 t) = some t →
          decodeToken (Wire.withRealEncoders cod) (Wire.serialize (.v4 t)) = .ok (.v4 t) ∧
          ((Token.v4 t).proofs).Perm (ps.map (Proof.keep dleq)))) := by
  constructor
  · obtain ⟨t, ht, h⟩ := v3_roundtrip (Wire.withRealEncoders cod) ps mint dleq
    refine ⟨t, ht, fun hdec => ?_⟩
    obtain ⟨s, hs, hd, hp, _⟩ := h (Wire.jsonTokenV3 t) rfl hdec
    have : s = Wire.serialize (.v3 t) := by
      simp only [Token.serialize, serializeV3, Wire.withRealEncoders] at hs
      cases hs; rfl
    exact ⟨this ▸ hd, hp⟩
  · intro ord hord hlow
    obtain ⟨t, ht, h⟩ := v4_roundtrip (Wire.withRealEncoders cod) ord ps mint dleq hord hlow
    refine ⟨t, ht, fun hdec => ?_⟩
    obtain ⟨s, hs, hd, _, hp, _⟩ := h (Wire.cborTokenV4 t) rfl hdec
    have : s = Wire.serialize (.v4 t) := by
      simp only [Token.serialize, serializeV4, Wire.withRealEncoders] at hs
      cases hs; rfl
    exact ⟨this ▸ hd, hp⟩

/-! ## the wire formats lose nothing -/

/-- **`json.Marshal` of a V3 token and `cbor.Marshal` of a V4 token (as modelled in `Model.TokenWire`, byte for
    byte what the real libraries emit) are lossless**: a parser for exactly that form reads back the token — every
    string (quotes, backslashes, control characters, U+2028, non-BMP …), every `uint64` amount, absent vs present
    witness/DLEQ/`r`/memo.  For CBOR the lengths must fit the 64-bit length fields (`smallToken`). -/
theorem wire_lossless :
    (∀ t : TokenV3, Wire.jsonParse (Wire.jsonTokenV3 t) = some t) ∧
    (∀ t : TokenV4, Wire.smallToken t → Wire.cborParse (Wire.cborTokenV4 t) = some t) :=
  ⟨Wire.jsonParse_enc, Wire.cborParse_enc⟩

/-- … hence both encodings are injective: two different tokens never serialise to the same string. -/
theorem wire_injective :
    (∀ t1 t2 : TokenV3, Wire.jsonTokenV3 t1 = Wire.jsonTokenV3 t2 → t1 = t2) ∧
    (∀ t1 t2 : TokenV4, Wire.smallToken t1 → Wire.smallToken t2 → Wire.cborTokenV4 t1 = Wire.cborTokenV4 t2 → t1 = t2) :=
  ⟨Wire.jsonTokenV3_injective, Wire.cborTokenV4_injective⟩

/-- **V3 round trip without any hypothesis about the libraries**, for the codec made of the modelled marshallers
    and the canonical parsers (`Wire.realCodec`): for every proof list, mint URL and DLEQ flag the serialised
    string decodes to the token, whose proofs are the input proofs. -/
theorem v3_roundtrip_closed (ps : List Proof) (mint : String) (dleq : Bool) :
    ∃ t, newV3 ps mint 0 dleq = .ok t ∧
      decodeToken Wire.realCodec (Wire.serialize (.v3 t)) = .ok (.v3 t) ∧
      (Token.v3 t).proofs = ps.map (Proof.keep dleq) ∧ (Token.v3 t).mint = .ok mint ∧
      (Token.v3 t).amount = amountWrap (ps.map (·.amount)) := by
  obtain ⟨t, ht, h⟩ := v3_roundtrip Wire.realCodec ps mint dleq
  refine ⟨t, ht, ?_⟩
  obtain ⟨s, hs, hd, hp, hm, _, ha⟩ := h (Wire.jsonTokenV3 t) rfl (Wire.jsonParse_enc t)
  have : s = Wire.serialize (.v3 t) := by
    simp only [Token.serialize, serializeV3, Wire.realCodec] at hs
    cases hs; rfl
  exact ⟨this ▸ hd, hp, hm, ha⟩

example : ∃ t, newV3 psEx "https://mint" 0 true = .ok t ∧
    decodeToken Wire.realCodec (Wire.serialize (.v3 t)) = .ok (.v3 t) :=
  let ⟨t, h1, h2, _⟩ := v3_roundtrip_closed psEx "https://mint" true; ⟨t, h1, h2⟩

/-- **V4 round trip without any hypothesis about the libraries** (lower-case hex input; the token must fit the
    64-bit CBOR length fields, as every token in memory does). -/
theorem v4_roundtrip_closed (ord : List String) (ps : List Proof) (mint : String) (dleq : Bool)
    (hord : OrderOf ps ord) (hlow : ∀ p ∈ ps, LowerHexProof dleq p) :
    ∃ t, newV4 ord ps mint 0 dleq = .ok t ∧
      (Wire.smallToken t →
        decodeToken Wire.realCodec (Wire.serialize (.v4 t)) = .ok (.v4 t) ∧
        (Token.v4 t).proofs = ord.flatMap (fun k => (ps.filter (fun p => p.id = k)).map (Proof.keep dleq)) ∧
        ((Token.v4 t).proofs).Perm (ps.map (Proof.keep dleq)) ∧ (Token.v4 t).mint = .ok mint ∧
        (Token.v4 t).amount = amountWrap (ps.map (·.amount))) := by
  obtain ⟨t, ht, h⟩ := v4_roundtrip Wire.realCodec ord ps mint dleq hord hlow
  refine ⟨t, ht, fun hsmall => ?_⟩
  obtain ⟨s, hs, hd, hp, hperm, hm, _, ha⟩ := h (Wire.cborTokenV4 t) rfl (Wire.cborParse_enc t hsmall)
  have : s = Wire.serialize (.v4 t) := by
    simp only [Token.serialize, serializeV4, Wire.realCodec] at hs
    cases hs; rfl
  exact ⟨this ▸ hd, hp, hperm, hm, ha⟩

-- `smallToken` holds for a concrete token with every optional field present, and the parser reads it back
example : Wire.cborParse (Wire.cborTokenV4 ⟨[⟨[0, 0xab], [⟨1, "s", [2], "w", some ⟨[1], [2], [3]⟩⟩]⟩], "", "m", "sat"⟩) =
    some ⟨[⟨[0, 0xab], [⟨1, "s", [2], "w", some ⟨[1], [2], [3]⟩⟩]⟩], "", "m", "sat"⟩ :=
  Wire.cborParse_enc _ (by simp [Wire.smallToken, Wire.smallGroup, Wire.smallProof, Wire.smallDLEQ]; decide)

/-! ## amounts -/

/-- **The token's amount is the sum of its proofs, in both formats, wrapping identically** (Go `uint64`
    addition): as a `UInt64` it is the left fold of `+` over `Proofs()`, i.e. the true sum modulo 2^64. -/
theorem amount_eq_sum (t : Token) :
    t.amount = amountWrap (t.proofs.map (·.amount)) ∧
    t.amount.toNat = natSum (t.proofs.map (·.amount)) % 2 ^ 64 := by
  have h : t.amount = amountWrap (t.proofs.map (·.amount)) := by
    cases t with
    | v3 t => exact amountV3_eq t
    | v4 t => rfl
  exact ⟨h, by rw [h, amountWrap_toNat]⟩

/-- Below 2^64 the amount is the exact sum. -/
theorem amount_exact (t : Token) (h : natSum (t.proofs.map (·.amount)) < 2 ^ 64) :
    t.amount.toNat = natSum (t.proofs.map (·.amount)) := by
  rw [(amount_eq_sum t).2, Nat.mod_eq_of_lt h]

-- amount_eq_sum: a V3 token with two entries and a V4 token whose amounts wrap around 2^64
example : (Token.v3 ⟨[⟨"a", [psEx[1]]⟩, ⟨"b", [psEx[0], psEx[2]]⟩], "sat", ""⟩).amount = 2 := by decide
example : natSum (psEx.map (·.amount)) = 2 ^ 64 + 2 := by decide


/-! ## decoding arbitrary text -/

/-- What C14 asks of `DecodeToken` on one input: an error, or a token on which no accessor panics. -/
def Total (cod : Codec) (o : Out DecErr Token) : Prop :=
  match o with
  | .panic _ => False
  | .err _ => True
  | .ok t => t.accessorsTotal cod

/-- `Mint()` panics exactly on a V3 token without entries (`t.Token[0]`) — still true of the accessor itself
    (a hand-built `TokenV3{}`); `DecodeToken` no longer returns such a token. -/
theorem mint_panic_iff (t : Token) (p : Panic) :
    t.mint = .panic p ↔ ∃ t3, t = .v3 t3 ∧ t3.token = [] ∧ p = .indexRange 0 0 := by
  cases t with
  | v4 t => simp [Token.mint]
  | v3 t =>
    cases h : t.token with
    | nil => simp [Token.mint, mintV3, h]; exact eq_comm
    | cons a b => simp [Token.mint, mintV3, h]

example : (Token.v3 ⟨[], "sat", ""⟩).mint = .panic (.indexRange 0 0) := by decide
example : (Token.v3 ⟨[⟨"https://mint", []⟩], "sat", ""⟩).mint = .ok "https://mint" := by decide

/-- `Serialize()` never panics (it returns what the marshaller returned). -/
theorem serialize_no_panic (cod : Codec) (t : Token) (p : Panic) : t.serialize cod ≠ .panic p := by
  cases t <;> simp only [Token.serialize] <;> split <;> simp

/-- **Decoding any string whatsoever either returns an error or a token on which every accessor can be
    called; it never panics** — for every `String` and for every behaviour of the JSON/CBOR libraries
    (`cod` is universally quantified: whatever `Unmarshal` returns, the token code does not panic). -/
theorem decode_total (cod : Codec) (s : String) : Total cod (decodeToken cod s) := by
  unfold decodeToken
  cases h : decodeTokenBytes cod (strBytes s) with
  | panic p => exact absurd h (decodeTokenBytes_no_panic cod _ p)
  | err e => trivial
  | ok t =>
    refine ⟨fun p hp => ?_, fun p => serialize_no_panic cod t p⟩
    obtain ⟨t3, ht, hnil, _⟩ := (mint_panic_iff t p).1 hp
    subst ht
    exact decodeTokenBytes_ok_v3 cod _ t3 h hnil

/-- `decode_total` for arbitrary Go strings (any byte sequence, valid UTF-8 or not). -/
theorem decode_total_bytes (cod : Codec) (s : Bytes) : Total cod (decodeTokenBytes cod s) := by
  cases h : decodeTokenBytes cod s with
  | panic p => exact absurd h (decodeTokenBytes_no_panic cod _ p)
  | err e => trivial
  | ok t =>
    refine ⟨fun p hp => ?_, fun p => serialize_no_panic cod t p⟩
    obtain ⟨t3, ht, hnil, _⟩ := (mint_panic_iff t p).1 hp
    subst ht
    exact decodeTokenBytes_ok_v3 cod _ t3 h hnil

example : decodeTokenBytes (codEx default default) [0xff, 0xfe, 0x00] = .err .invalidTokenV3 := by decide

/-- The same, spelled out: no panic; and on success `Mint()` and `Serialize()` return (`Proofs()` and
    `Amount()` are total functions of the model: their Go loops contain no index expression, see
    `Tie.Token.accessors_no_index`). -/
theorem decode_total' (cod : Codec) (s : String) :
    (∀ p, decodeToken cod s ≠ .panic p) ∧
    ∀ t, decodeToken cod s = .ok t → (∃ m, t.mint = .ok m) ∧ ∀ p, t.serialize cod ≠ .panic p := by
  have h := decode_total cod s
  constructor
  · intro p hp; rw [hp] at h; exact h
  · intro t ht
    rw [ht] at h
    refine ⟨?_, h.2⟩
    cases hm : t.mint with
    | ok m => exact ⟨m, rfl⟩
    | panic p => exact absurd hm (h.1 p)
    | err e => cases t <;> simp [Token.mint, mintV3] at hm <;> split at hm <;> cases hm

/-- Every string of fewer than 6 bytes is rejected with `ErrInvalidTokenV3` (wrapped in "invalid token: …"). -/
theorem decode_short (cod : Codec) (s : String) (h : (strBytes s).length < 6) :
    decodeToken cod s = .err .invalidTokenV3 :=
  decodeTokenBytes_short cod _ h

/-! ### regression: the code before the `fix:` commit (defect F9) violated the statement -/

private def cod0 : Codec :=
  { encJson := fun _ => none, decJson := fun _ => some ⟨[], "", ""⟩, encCbor := fun _ => none, decCbor := fun _ => none }

/-- The full statement for the code before the fix … -/
def decode_total_old : Prop := ∀ (cod : Codec) (s : String), Total cod (decodeTokenOld cod s)

/-- … was false: the empty string panicked in `tokenstr[:6]`, … -/
theorem decode_total_old_false : ¬ decode_total_old := by
  intro h
  have := h cod0 ""
  have e : decodeTokenOld cod0 "" = .panic (.sliceBounds 6 0) := by decide
  rw [e] at this
  exact this

/-- … and `"cashuAe30"` (base64 of `{}`) decoded without error whenever `json.Unmarshal` does what it does
    on `{}` (a `TokenV3` with no entries), after which `Mint()` panicked. -/
theorem decode_total_old_false' : ∃ cod, ¬ Total cod (decodeTokenOld cod "cashuAe30") := by
  refine ⟨cod0, ?_⟩
  have e : decodeTokenOld cod0 "cashuAe30" = .ok (.v3 ⟨[], "", ""⟩) := by decide
  rw [e]
  intro h
  exact h.1 (.indexRange 0 0) (by decide)

/-- Before the fix `DecodeToken` panicked exactly on strings of fewer than 6 bytes, whatever the libraries do. -/
theorem decodeOld_panic_iff (cod : Codec) (s : String) (p : Panic) :
    decodeTokenOld cod s = .panic p ↔ (strBytes s).length < 6 ∧ p = .sliceBounds 6 (strBytes s).length :=
  decodeTokenBytesOld_panic_iff cod _ p

-- the old witnesses are now rejected with an error (same codec as in the counterexamples)
example : decodeToken cod0 "" = .err .invalidTokenV3 := by decide
example : decodeToken cod0 "cashu" = .err .invalidTokenV3 := by decide
example : decodeToken cod0 "cashuAe30" = .err .invalidTokenV3 := by decide
example : decodeToken cod0 "cashuAeyJ0b2tlbiI6W119" = .err .invalidTokenV3 := by decide
example : decodeTokenOld cod0 "cashu" = .panic (.sliceBounds 6 5) := by decide

-- decode_total: there are strings on which DecodeToken returns a token (so the `ok` branch is inhabited)
example : ∃ cod t, decodeToken cod "cashuAe30" = .ok t :=
  ⟨codEx ⟨[⟨"m", []⟩], "sat", ""⟩ default, .v3 ⟨[⟨"m", []⟩], "sat", ""⟩, by decide⟩
-- … strings on which it returns an error at each stage
example : decodeToken (codEx default default) "cashuC-----" = .err .invalidTokenV3 := by decide
example : decodeToken (codEx default default) "cashuAe3=0" = .err (.base64 2) := by decide
example : decodeToken (codEx default default) "cashuAAAAA" = .err .unmarshal := by decide
-- … and a multi-byte character straddling the cut at byte 6 is sliced by bytes, as in Go
example : (strBytes "cashu€").length = 8 ∧ decodeToken (codEx default default) "cashu€" = .err .invalidTokenV3 := by decide
example : decodeToken (codEx default default) "🥜" = .err .invalidTokenV3 ∧
    decodeTokenOld (codEx default default) "🥜" = .panic (.sliceBounds 6 4) := by decide

end Gonuts.Props.C14
