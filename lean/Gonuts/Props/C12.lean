import Gonuts.Lemmas.SpendExamples
import Gonuts.Lemmas.Nut10Parse
import Gonuts.Lemmas.Nut10RoundTrip
/-!
  C12 — P2PK locks (NUT-11).  Model: `Model.Spend` (the repaired code: F6 "always remove the matched key",
  F7 "ProofsSigAll skips non-NUT-10 secrets"); specification: `Spec.Spendable` (declarative, from NUT-11).
  All statements are for ALL inputs: unbounded lists, any Schnorr-validity relation `valid`, any key parser,
  any clock value `now`.  The witnesses that refuted these statements on the unrepaired code are kept at the
  end as regression examples that are now rejected.
-/
namespace Gonuts.Props.C12
open Gonuts.Model.Spend Gonuts.Spec.Spendable Gonuts.Lemmas.Spend Gonuts.Lemmas.SpendExamples.C12

/-- lock key K1, co-signers K2 K3, threshold 2, SIG_INPUTS, future locktime, refund key K3 -/
def xSecret : Secret :=
  { kind := .p2pk, data := "K1", tags := [["sigflag", "SIG_INPUTS"], ["n_sigs", "2"], ["pubkeys", "K2", "K3"], ["locktime", "5000"], ["refund", "K3"]] }
def xProof : Proof := { secret := some xSecret, msg := 7, witness := { jsonOk := true, signatures := [xSign 3 7, xSign 1 7], preimage := "" } }
/-- the same lock after its locktime -/
def xEnvLate : Env := { xEnv with now := 6000 }
def xProofRefund : Proof := { xProof with witness := { jsonOk := true, signatures := [55, xSign 3 7], preimage := "" } }

/-! ## HasValidSignatures -/

/-- SOUND: an accepted signature list contains `n` signatures that verify under `n` DISTINCT POSITIONS of the key list
    (a sublist of the signatures paired with a sub-permutation of the keys, see `Spec.Spendable.Signed`). -/
theorem hasValidSignatures_sound (valid : Sig → Key → Msg → Bool) (m : Msg) (sigs : List Sig) (n : Nat) (keys : List Key)
    (h : hasValidSignatures valid m sigs n keys = true) : Signed valid m sigs keys n :=
  Lemmas.Spend.hasValidSignatures_sound valid m sigs n keys h

example : hasValidSignatures xValid 7 [xSign 3 7, 5, xSign 1 7] 2 [1, 2, 3] = true := by decide

/-- The same as an explicit INJECTIVE ASSIGNMENT: `n` pairs (signature position, key position) such that any two pairs
    differ in the signature position and in the key position, and the signature at the first position verifies under the
    key at the second. -/
theorem hasValidSignatures_injective_assignment (valid : Sig → Key → Msg → Bool) (m : Msg) (sigs : List Sig) (n : Nat)
    (keys : List Key) (h : hasValidSignatures valid m sigs n keys = true) :
    ∃ pairs : List (Nat × Nat), pairs.length = n ∧ pairs.Pairwise (fun a b => a.1 ≠ b.1 ∧ a.2 ≠ b.2) ∧
      ∀ p ∈ pairs, ∃ s k, sigs[p.1]? = some s ∧ keys[p.2]? = some k ∧ valid s k m = true :=
  (signed_iff_assigned valid m sigs keys n).1 (hasValidSignatures_sound valid m sigs n keys h)

/-- …in particular never more signers than listed keys, whatever the signatures are (the F6 shape is impossible). -/
theorem hasValidSignatures_le_keys (valid : Sig → Key → Msg → Bool) (m : Msg) (sigs : List Sig) (n : Nat) (keys : List Key)
    (h : hasValidSignatures valid m sigs n keys = true) : n ≤ keys.length ∧ n ≤ sigs.length :=
  ⟨(signed_le (hasValidSignatures_sound valid m sigs n keys h)).2, (signed_le (hasValidSignatures_sound valid m sigs n keys h)).1⟩

/-- …and when the key list has no repetition, the `n` signers are `n` DIFFERENT KEYS. -/
theorem hasValidSignatures_distinct_keys (valid : Sig → Key → Msg → Bool) (m : Msg) (sigs : List Sig) (n : Nat) (keys : List Key)
    (hnd : keys.Nodup) (h : hasValidSignatures valid m sigs n keys = true) :
    ∃ ps : List (Sig × Key), ps.length = n ∧ (ps.map Prod.fst).Sublist sigs ∧ (ps.map Prod.snd).Nodup ∧
      (∀ p ∈ ps, p.2 ∈ keys ∧ valid p.1 p.2 m = true) := by
  obtain ⟨ps, hl, hs, ⟨l, hperm, hsub⟩, hv⟩ := hasValidSignatures_sound valid m sigs n keys h
  refine ⟨ps, hl, hs, (hperm.nodup_iff).1 (hnd.sublist hsub), fun p hp => ⟨?_, hv p hp⟩⟩
  exact hsub.subset (hperm.symm.subset (List.mem_map_of_mem hp))

/-- COMPLETE, when a signature verifies under at most one listed key: if `n` distinct key positions signed, the greedy
    loop accepts (it cannot waste a key on a signature that another key needed). -/
theorem hasValidSignatures_complete (valid : Sig → Key → Msg → Bool) (m : Msg) (sigs : List Sig) (n : Nat) (keys : List Key)
    (hu : UniqueSigner valid m keys) (h : Signed valid m sigs keys n) : hasValidSignatures valid m sigs n keys = true :=
  Lemmas.Spend.hasValidSignatures_complete valid m sigs n keys hu h

theorem hasValidSignatures_iff (valid : Sig → Key → Msg → Bool) (m : Msg) (sigs : List Sig) (n : Nat) (keys : List Key)
    (hu : UniqueSigner valid m keys) : hasValidSignatures valid m sigs n keys = true ↔ Signed valid m sigs keys n :=
  ⟨hasValidSignatures_sound valid m sigs n keys, hasValidSignatures_complete valid m sigs n keys hu⟩

/-- …and conversely from ANY injective assignment of `n` positions -/
theorem hasValidSignatures_of_assignment (valid : Sig → Key → Msg → Bool) (m : Msg) (sigs : List Sig) (n : Nat) (keys : List Key)
    (hu : UniqueSigner valid m keys) (h : Assigned valid m sigs keys n) : hasValidSignatures valid m sigs n keys = true :=
  hasValidSignatures_complete valid m sigs n keys hu ((signed_iff_assigned valid m sigs keys n).2 h)

example : Assigned xValid 7 [xSign 2 7, 912, xSign 3 7] [1, 2, 3] 2 :=
  ⟨[(0, 1), (2, 2)], rfl, by decide, by
    intro p hp
    simp only [List.mem_cons, List.not_mem_nil, or_false] at hp
    rcases hp with rfl | rfl
    · exact ⟨_, _, rfl, rfl, by decide⟩
    · exact ⟨_, _, rfl, rfl, by decide⟩⟩

example : UniqueSigner xValid 7 [1, 2, 3] ∧ canSign xValid 7 [xSign 2 7, 912, xSign 3 7] [1, 2, 3] 2 = true :=
  ⟨xValid_unique _ _, by decide⟩

/-- The hypothesis of the completeness direction is NEEDED for a first-fit loop: with a signature (30) that verifies under BOTH
    listed keys and one (31) that verifies only under the first, two distinct positions did sign (30 ↦ key 2, 31 ↦ key 1), yet
    first-fit gives key 1 to signature 30 and rejects.  (With BIP-340 keys this shape does not arise: two keys that verify
    one common signature — a point and its negation — verify exactly the same signatures.) -/
def ambiguousValid : Sig → Key → Msg → Bool := fun (s k _ : Nat) => (s == 30 && (k == 1 || k == 2)) || (s == 31 && k == 1)
example : hasValidSignatures ambiguousValid 7 [30, 31] 2 [1, 2] = false ∧ canSign ambiguousValid 7 [30, 31] [1, 2] 2 = true ∧
    hasValidSignatures ambiguousValid 7 [31, 30] 2 [1, 2] = true := by decide

/-- The threshold 1 (refund rule) needs no hypothesis at all. -/
theorem hasValidSignatures_one_iff (valid : Sig → Key → Msg → Bool) (m : Msg) (sigs : List Sig) (keys : List Key) :
    hasValidSignatures valid m sigs 1 keys = true ↔ ∃ s ∈ sigs, ∃ k ∈ keys, valid s k m = true := by
  rw [Lemmas.Spend.hasValidSignatures_one_iff, signed_one_iff]

/-! ## VerifyP2PKLockedProof = the declarative NUT-11 statement -/

/-- SOUND (no hypothesis): an accepted proof is spendable according to NUT-11: well-formed tags; before the locktime
    `max 1 n_sigs` distinct positions among {data} ∪ (pubkeys if n_sigs>0) signed `sha256(secret)`, no repeated signature
    string, `n_sigs>0` only with a non-empty `pubkeys`; after it, anyone if there is no refund key, else one refund signature. -/
theorem p2pk_sound (env : Env) (p : Proof) (s : Secret) (h : verifyP2PK env p s = .ok ()) :
    spendableP2PK env s p.msg p.witness := verifyP2PK_sound env p s h

/-- IFF, when a signature verifies under at most one of the lock's keys. -/
theorem p2pk_iff_spec (env : Env) (p : Proof) (s : Secret) (hu : UniqueSigner env.valid p.msg (lockKeys env s)) :
    verifyP2PK env p s = .ok () ↔ spendableP2PK env s p.msg p.witness :=
  ⟨verifyP2PK_sound env p s, verifyP2PK_complete env p s hu⟩

example : verifyP2PK xEnv xProof xSecret = .ok () ∧ decideP2PK xEnv xSecret 7 xProof.witness = true := by decide
example : verifyP2PK xEnvLate xProofRefund xSecret = .ok () ∧ verifyP2PK xEnvLate xProof xSecret = .ok ()
    ∧ verifyP2PK xEnvLate { xProof with witness := { jsonOk := true, signatures := [xSign 1 7, xSign 2 7], preimage := "" } } xSecret
        = .err .notEnoughSignatures := by decide

/-- Tag-parsing corner cases are rejections: a malformed tag list (more than 5 tags, a tag shorter than 2, a bad sigflag,
    an `n_sigs` that is not a decimal int8 ≥ 0, a bad locktime, an unparseable key) is refused whatever the witness. -/
theorem p2pk_rejects_malformed (env : Env) (p : Proof) (s : Secret) (h : ¬ WellFormed env s.tags) :
    ∃ e, verifyP2PK env p s = .err e := by
  obtain ⟨e, he⟩ := (parseTags_err_iff env s.tags).2 h
  exact ⟨e, by simp [verifyP2PK, he]⟩

example : ¬ WellFormed xEnv [["n_sigs", "128"]] := by rw [← wellFormedB_iff]; decide

/-- the evaluator run by the driver as `spend.spec-p2pk` is the declarative statement -/
theorem spec_evaluator_p2pk (env : Env) (s : Secret) (m : Msg) (w : Witness) :
    decideP2PK env s m w = true ↔ spendableP2PK env s m w := decideP2PK_iff env s m w

/-! ## SIG_ALL -/

/-- ProofsSigAll sees a SIG_ALL input at ANY position. -/
theorem proofsSigAll_any_position (pre post : List Proof) (p : Proof) (h : CarriesSigAll p) :
    proofsSigAll (pre ++ p :: post) = true :=
  (proofsSigAll_iff _).2 ⟨p, by simp, h⟩

/-- sigall_swap: if ANY input of a swap carries SIG_ALL and the spending-condition part of Swap succeeds, then every
    input passed its own check, every input is a NUT-10 secret with SIG_ALL and the SAME key list and threshold, and every
    output carries `n` signatures by distinct positions of that key list over its hex-decoded `B_`, no repeated signature
    string (for an HTLC first input also the preimage). -/
theorem sigall_swap (env : Env) (proofs : List Proof) (outs : List Output) (h : ∃ p ∈ proofs, CarriesSigAll p)
    (hs : swapSpendCheck env proofs outs = .ok ()) : verifyProofs env proofs = .ok () ∧ SigAllOK env proofs outs := by
  unfold swapSpendCheck at hs
  cases hv : verifyProofs env proofs with
  | err e => simp [hv] at hs
  | ok u =>
    simp only [hv, (proofsSigAll_iff proofs).2 h, if_true] at hs
    exact ⟨rfl, verifyBlindedMessages_sound hs⟩

/-- …and EXACTLY then, when a signature verifies under one key only: the swap check of a list containing a SIG_ALL input
    succeeds iff every input passes its own check and the SIG_ALL demands are met. -/
theorem sigall_swap_iff (env : Env) (proofs : List Proof) (outs : List Output) (h : ∃ p ∈ proofs, CarriesSigAll p)
    (hu : ∀ keys, ∀ o ∈ outs, ∀ m, o.msgDecoded = some m → UniqueSigner env.valid m keys) :
    swapSpendCheck env proofs outs = .ok () ↔ verifyProofs env proofs = .ok () ∧ SigAllOK env proofs outs := by
  refine ⟨sigall_swap env proofs outs h, ?_⟩
  rintro ⟨hv, hok⟩
  unfold swapSpendCheck
  simp only [hv, (proofsSigAll_iff proofs).2 h, if_true]
  exact (verifyBlindedMessages_iff hu).2 hok

/-- without any SIG_ALL input the outputs are not looked at -/
theorem swap_without_sigall (env : Env) (proofs : List Proof) (outs : List Output) (h : ¬ ∃ p ∈ proofs, CarriesSigAll p) :
    swapSpendCheck env proofs outs = verifyProofs env proofs := by
  unfold swapSpendCheck
  have : proofsSigAll proofs = false := by
    cases hs : proofsSigAll proofs with
    | false => rfl
    | true => exact absurd ((proofsSigAll_iff proofs).1 hs) h
  cases verifyProofs env proofs with
  | err e => rfl
  | ok u => simp [this]

/-- "all inputs share the same condition", read declaratively: every input is a NUT-10 secret with SIG_ALL and well-formed
    tags whose key list (last `pubkeys` tag, then the lock key for P2PK) is `keys` and whose threshold max(1, n_sigs) is `n`. -/
theorem sigall_shared_condition_declarative (env : Env) (keys : List Key) (n : Nat) (q : Proof) :
    SameCondition env keys n q ↔
      ∃ sq, q.secret = some sq ∧ isSigAll sq = true ∧ WellFormed env sq.tags ∧
        (if sq.kind = .p2pk then ∃ k, env.parseKey sq.data = some k ∧ keys = (condOf env sq.tags).pubkeys ++ [k]
         else keys = (condOf env sq.tags).pubkeys) ∧
        n = max 1 (condOf env sq.tags).nSigs := sameCondition_spec env keys n q

/-- the same with the position explicit: the locked proof anywhere in the list -/
theorem sigall_swap_any_position (env : Env) (pre post : List Proof) (p : Proof) (outs : List Output) (h : CarriesSigAll p)
    (hs : swapSpendCheck env (pre ++ p :: post) outs = .ok ()) : SigAllOK env (pre ++ p :: post) outs :=
  (sigall_swap env _ outs ⟨p, by simp, h⟩ hs).2

/-- consequence: a plain (non-NUT-10) input next to a SIG_ALL input always fails the swap -/
theorem sigall_swap_no_plain (env : Env) (proofs : List Proof) (outs : List Output) (h : ∃ p ∈ proofs, CarriesSigAll p)
    (q : Proof) (hq : q ∈ proofs) (hplain : q.secret = none) : swapSpendCheck env proofs outs ≠ .ok () := by
  intro hs
  obtain ⟨_, _, _, _, hall, _⟩ := (sigall_swap env proofs outs h hs).2
  obtain ⟨sq, _, hsq, _⟩ := hall q hq
  rw [hplain] at hsq; cases hsq

/-- sigall_melt_refused: inputs carrying SIG_ALL cannot be melted, wherever they sit. -/
theorem sigall_melt_refused (env : Env) (proofs : List Proof) (h : ∃ p ∈ proofs, CarriesSigAll p) :
    meltSpendCheck env proofs ≠ .ok () := by
  unfold meltSpendCheck
  cases verifyProofs env proofs with
  | err e => simp
  | ok u => simp [(proofsSigAll_iff proofs).2 h]

/-- non-vacuity: a swap of two SIG_ALL inputs (lock key K1, threshold 1) with two signed outputs succeeds -/
def xSigAllSecret : Secret := { kind := .p2pk, data := "K1", tags := [["sigflag", "SIG_ALL"]] }
def xLocked (m : Msg) : Proof := { secret := some xSigAllSecret, msg := m, witness := { jsonOk := true, signatures := [xSign 1 m], preimage := "" } }
def xPlain : Proof := { secret := none, msg := 9, witness := { jsonOk := false, signatures := [], preimage := "" } }
def xOut (m : Msg) (sigs : List Sig) : Output := { msgDecoded := some m, msgText := m + 1, witness := { jsonOk := true, signatures := sigs, preimage := "" } }
example : swapSpendCheck xEnv [xLocked 7, xLocked 8] [xOut 20 [xSign 1 20], xOut 22 [xSign 1 22]] = .ok () := by decide
example : swapSpendCheck xEnv [xLocked 7, xLocked 8] [xOut 20 [xSign 1 20], xOut 22 []] = .err .notEnoughSignatures := by decide
example : meltSpendCheck xEnv [xLocked 7] = .err .sigAllOnlySwap ∧ meltSpendCheck xEnv [xPlain, xPlain] = .ok () := by decide

/-! ## the signing helpers -/

/-- helpers_accepted (inputs): the witness written by AddSignatureToInputs passes verifyProofs whenever the signing key is
    entitled to spend each P2PK input alone at the current time (lock key, or listed co-signer with threshold 1, before the
    locktime; refund key or nobody needed after it). -/
theorem helpers_accepted_inputs (env : Env) (sign : Key → Msg → Sig) (hsign : ∀ k m, env.valid (sign k m) k m = true)
    (k : Key) (proofs : List Proof)
    (h : ∀ p ∈ proofs, ∀ s, p.secret = some s → s.kind ≠ .htlc ∧ (s.kind = .p2pk → CanSignP2PK env k s)) :
    verifyProofs env (addSignatureToInputs sign k proofs) = .ok () :=
  addSignatureToInputs_accepted env sign hsign k proofs h

/-- helpers_accepted (outputs): with SIG_ALL P2PK inputs sharing one condition of threshold 1, the output witnesses written
    by AddSignatureToOutputs with a listed key pass verifyBlindedMessages — whenever the helper itself succeeds. -/
theorem helpers_accepted_outputs (env : Env) (sign : Key → Msg → Sig) (hsign : ∀ k m, env.valid (sign k m) k m = true)
    (k : Key) (proofs : List Proof) (s0 : Secret) (keys : List Key) (hshared : SharedCondition env proofs s0 keys 1)
    (hkind : s0.kind = .p2pk) (hk : k ∈ keys) (outs outs' : List Output) (h : addSignatureToOutputs sign k outs = .ok outs') :
    verifyBlindedMessages env proofs outs' = .ok () :=
  addSignatureToOutputs_accepted env sign hsign k proofs s0 keys hshared hkind hk outs outs' h

/-- non-vacuity: the whole honest flow — sign two SIG_ALL inputs and two outputs with the lock key, swap accepted -/
def xBareLocked (m : Msg) : Proof := { xLocked m with witness := { jsonOk := false, signatures := [], preimage := "" } }
def xHelperOuts : List Output := match addSignatureToOutputs xSign 1 [xOut 20 [], xOut 22 []] with | .ok os => os | .err _ => []
example : addSignatureToOutputs xSign 1 [xOut 20 [], xOut 22 []] = .ok xHelperOuts ∧
    swapSpendCheck xEnv (addSignatureToInputs xSign 1 [xBareLocked 7, xBareLocked 8]) xHelperOuts = .ok () := by decide
example : CanSignP2PK xEnv 1 xSigAllSecret := ⟨{ sigflag := "SIG_ALL" }, by decide, by decide⟩

/-! ## regressions: the witnesses that refuted the full statements on the unrepaired code -/

/-- F6: lock key K1 + co-signer K2, threshold 3; K1 signs once, K2 twice (two signature strings). Was accepted. -/
def f6Secret : Secret := { kind := .p2pk, data := "K1", tags := [["n_sigs", "3"], ["pubkeys", "K2"]] }
def f6Proof : Proof := { secret := some f6Secret, msg := 7, witness := { jsonOk := true, signatures := [xSign 1 7, xSign 2 7, 912], preimage := "" } }
example : verifyP2PK xEnv f6Proof f6Secret = .err .notEnoughSignatures := by decide
example : hasValidSignatures xValid 7 [xSign 1 7, xSign 2 7, 912] 3 [1, 2] = false ∧ hvsCount xValid 7 [xSign 1 7, xSign 2 7, 912] [1, 2] = 2 := by decide
/-- F7: `[plain, SIG_ALL-locked]`. ProofsSigAll was false: the swap skipped the output check, the melt was accepted. -/
example : proofsSigAll [xPlain, xLocked 8] = true := by decide
example : swapSpendCheck xEnv [xPlain, xLocked 8] [xOut 20 []] = .err .secretNotNut10 := by decide
example : meltSpendCheck xEnv [xPlain, xLocked 8] = .err .sigAllOnlySwap := by decide

/-! ## the TEXT of the secret (`nut10.DeserializeSecret`, `Model.Nut10Parse` over the JSON scanner of `Model.GoJson`)

  `verifyProofs` enforces a lock only when `DeserializeSecret` succeeds with kind P2PK; whoever builds a locked output
  chooses the text of the secret.  For EVERY text and every amount of JSON whitespace before and after it the secret is
  read the same way, so the lock cannot be switched off (or on) by padding; and the kind is decided by the first array
  element alone, compared with exactly "P2PK". -/

theorem secret_text_whitespace_insignificant (w1 w2 s : String)
    (h1 : ∀ c ∈ w1.toList, Model.GoJson.isWs c = true) (h2 : ∀ c ∈ w2.toList, Model.GoJson.isWs c = true) :
    Model.Nut10Parse.parseSecret (w1 ++ s ++ w2) = Model.Nut10Parse.parseSecret s ∧
    Model.Nut10Parse.lockKind (w1 ++ s ++ w2) = Model.Nut10Parse.lockKind s :=
  ⟨Model.Nut10Parse.parseSecret_ws w1 w2 s h1 h2, Model.Nut10Parse.lockKind_ws w1 w2 s h1 h2⟩

theorem p2pk_kind_by_first_element (s : String) (p : Model.Nut10Parse.Parsed) (h : Model.Nut10Parse.parseSecret s = some p) :
    ∃ k d rest ks, Model.GoJson.parse s = some (Model.GoJson.JV.arr (k :: d :: rest)) ∧ Model.GoJson.intoString "" k = some ks ∧
      (p.kind = .p2pk ↔ ks = "P2PK") := by
  unfold Model.Nut10Parse.parseSecret at h
  cases hv : Model.GoJson.parse s with
  | none => simp [hv] at h
  | some v =>
    rw [hv] at h
    obtain ⟨k, d, rest, ks, rfl, hk, hkind⟩ := Model.Nut10Parse.decodeSecret_kind h
    exact ⟨k, d, rest, ks, rfl, hk, by rw [hkind]; exact Model.Nut10Parse.kindOf_p2pk ks⟩

/-- non-vacuity (kernel evaluation of the scanner on concrete texts): the library's spelling, padded, with an escaped
    letter in the kind, other member order and member-name case — all read as the same P2PK secret; near misses of the
    kind string are not locks; texts that are not JSON arrays of two elements are ordinary secrets. -/
example : Model.Nut10Parse.parseSecret "[\"P2PK\", {\"nonce\":\"n\",\"data\":\"d\",\"tags\":[[\"sigflag\",\"SIG_ALL\"]]}]"
    = some ⟨.p2pk, "n", "d", [["sigflag", "SIG_ALL"]]⟩ := by decide
example : Model.Nut10Parse.parseSecret " \n[ \"\\u00502PK\" ,{\"Tags\":[[\"sigflag\",\"SIG_ALL\"]],\"x\":[1.5e3,{\"y\":null}],\"DATA\":\"d\",\"nonce\":\"\\u006e\"}, true ]\t"
    = some ⟨.p2pk, "n", "d", [["sigflag", "SIG_ALL"]]⟩ := by decide
example : Model.Nut10Parse.lockKind "[\"p2pk\",{}]" = .anyone ∧ Model.Nut10Parse.lockKind "[\"P2PK \",{}]" = .anyone ∧
    Model.Nut10Parse.lockKind "[\"P2PK\"]" = .anyone ∧ Model.Nut10Parse.lockKind "{\"0\":\"P2PK\",\"1\":{}}" = .anyone ∧
    Model.Nut10Parse.lockKind "[\"P2PK\",{\"data\":1}]" = .anyone ∧ Model.Nut10Parse.lockKind "[\"P2PK\",{}] x" = .anyone ∧
    Model.Nut10Parse.lockKind "[\"P2PK\",{}]" = .p2pk := by decide

/-- what the library's `SerializeSecret` writes (the secret of every locked output an honest wallet builds) is read back
    by `DeserializeSecret` as the same kind, nonce, data and tags — for EVERY string content (quotes, backslashes, control
    characters, `<>&`, U+2028/9, any other character) and every tag list incl. nil slices; so a P2PK secret written by
    the library is always recognised as a P2PK lock with exactly the conditions that were written
    (`Lemmas/Nut10RoundTrip.lean`: lexer over the printed characters, unquoting over the escapes, stack parser over the
    printed tokens, decoder over the tree — each by induction). -/
theorem serialized_secret_read_back (k : Kind) (nonce data : String) (tags : Option (List (Option (List String)))) :
    Model.Nut10Parse.parseSecret (Model.Nut10Parse.serializeSecret k nonce data tags)
      = some ⟨k, nonce, data, Model.Nut10Parse.tagsOf tags⟩ :=
  Model.Nut10Parse.parse_serialize k nonce data tags

theorem serialized_p2pk_recognised (nonce data : String) (tags : Option (List (Option (List String)))) :
    Model.Nut10Parse.lockKind (Model.Nut10Parse.serializeSecret .p2pk nonce data tags) = .p2pk := by
  unfold Model.Nut10Parse.lockKind; rw [serialized_secret_read_back]

example : Model.Nut10Parse.serializeSecret .p2pk "n\"<\n" "d" (some [some ["sigflag", "SIG_ALL"], none])
    = "[\"P2PK\", {\"nonce\":\"n\\\"\\u003c\\n\",\"data\":\"d\",\"tags\":[[\"sigflag\",\"SIG_ALL\"],null]}]" := by decide

end Gonuts.Props.C12
