import Gonuts.Lemmas.Spend
/-!
  C12 — P2PK locks (NUT-11).  STATE: the code as it is today (defects F6 and F7 present).
  Each statement the code violates is a `def …_full : Prop` with `theorem …_full_false`, plus the
  `…_partial` theorem that does hold.  Model: `Model.Spend`; specification: `Spec.Spendable`.
-/
namespace Gonuts.Props.C12
open Gonuts.Model.Spend Gonuts.Spec.Spendable Gonuts.Lemmas.Spend

/-! ## concrete witnesses (symbolic ids: keys 1, 2; signatures 10 by key 1, 11 and 12 both by key 2; digest 7) -/
def wValid : Sig → Key → Msg → Bool := fun s k _ => (s == 10 && k == 1) || (s == 11 && k == 2) || (s == 12 && k == 2)
def wEnv : Env where
  valid := wValid
  parseKey := fun s => if s = "K1" then some 1 else if s = "K2" then some 2 else none
  sha256hex := fun _ => ""
  now := 100
/-- lock key K1, co-signer K2, threshold 3 -/
def wSecret : Secret := { kind := .p2pk, data := "K1", tags := [["n_sigs", "3"], ["pubkeys", "K2"]] }
/-- witness: K1 signs once, K2 signs twice (two different signature strings) -/
def wProof : Proof := { secret := some wSecret, msg := 7, witness := { jsonOk := true, signatures := [10, 11, 12], preimage := "" } }
def wSigAllSecret : Secret := { kind := .p2pk, data := "K1", tags := [["sigflag", "SIG_ALL"]] }
def wLocked : Proof := { secret := some wSigAllSecret, msg := 8, witness := { jsonOk := true, signatures := [10], preimage := "" } }
def wPlain : Proof := { secret := none, msg := 9, witness := { jsonOk := false, signatures := [], preimage := "" } }
def wUnsignedOutput : Output := { msgDecoded := some 20, msgText := 21, witness := { jsonOk := false, signatures := [], preimage := "" } }

/-- a signature verifies under at most one key (the hypothesis of the completeness direction) -/
def UniqueSigner (valid : Sig → Key → Msg → Bool) (m : Msg) (keys : List Key) : Prop :=
  ∀ s k k', k ∈ keys → k' ∈ keys → valid s k m = true → valid s k' m = true → k = k'

theorem wValid_unique (m : Msg) (keys : List Key) : UniqueSigner wValid m keys := by
  intro s k k' _ _ h1 h2
  simp [wValid] at h1 h2
  rcases h1 with (⟨h, rfl⟩ | ⟨h, rfl⟩) | ⟨h, rfl⟩ <;> rcases h2 with (⟨h', rfl⟩ | ⟨h', rfl⟩) | ⟨h', rfl⟩ <;>
    first | rfl | (exfalso; subst h; cases h')

/-! ## HasValidSignatures -/

/-- FULL: what the greedy loop accepts is signed by `n` distinct key positions. -/
def hasValidSignatures_sound_full : Prop :=
  ∀ (valid : Sig → Key → Msg → Bool) (m : Msg) (sigs : List Sig) (n : Nat) (keys : List Key),
    hasValidSignatures valid m sigs n keys = true → Signed valid m sigs keys n

/-- F6: three signatures by two keys meet the threshold 3. -/
theorem hasValidSignatures_sound_full_false : ¬ hasValidSignatures_sound_full := by
  intro h
  have h1 := h wValid 7 [10, 11, 12] 3 [1, 2] (by decide)
  have := (signed_le h1).2
  simp at this

/-- PARTIAL (holds with the guard): an accepted witness contains at least `n` signatures each of which verifies
    under some listed key — but not necessarily under distinct ones. -/
theorem hasValidSignatures_sound_partial (valid : Sig → Key → Msg → Bool) (m : Msg) (sigs : List Sig) (n : Nat)
    (keys : List Key) (h : hasValidSignatures valid m sigs n keys = true) : n ≤ countValid valid m sigs keys := by
  have := hvsCount_le_countValid valid m sigs keys keys (fun _ hx => hx)
  simp only [hasValidSignatures, decide_eq_true_eq] at h
  omega

example : hasValidSignatures wValid 7 [10, 11, 12] 3 [1, 2] = true ∧ countValid wValid 7 [10, 11, 12] [1, 2] = 3 := by decide

/-! ## VerifyP2PKLockedProof against the declarative NUT-11 statement -/

/-- the keys that may sign before the locktime -/
def lockKeys (env : Env) (s : Secret) : List Key := (env.parseKey s.data).toList ++ (condOf env s.tags).pubkeys

def p2pk_iff_spec_full : Prop :=
  ∀ (env : Env) (p : Proof) (s : Secret), UniqueSigner env.valid p.msg (lockKeys env s) →
    (verifyP2PK env p s = .ok () ↔ spendableP2PK env s p.msg p.witness)

theorem p2pk_iff_spec_full_false : ¬ p2pk_iff_spec_full := by
  intro h
  have h1 := (h wEnv wProof wSecret (wValid_unique _ _)).1 (by decide)
  have h2 : decideP2PK wEnv wSecret wProof.msg wProof.witness = false := by decide
  rw [← decideP2PK_iff] at h1
  rw [h1] at h2
  cases h2

/-! ## SIG_ALL -/

def sigall_melt_refused_full : Prop :=
  ∀ (env : Env) (proofs : List Proof), (∃ p ∈ proofs, CarriesSigAll p) → meltSpendCheck env proofs ≠ .ok ()

/-- F7: `[plain, SIG_ALL-locked]` is melted. -/
theorem sigall_melt_refused_full_false : ¬ sigall_melt_refused_full := by
  intro h
  exact h wEnv [wPlain, wLocked] ⟨wLocked, by simp, wSigAllSecret, rfl, by decide⟩ (by decide)

/-- PARTIAL: refused when every input is a NUT-10 secret (no plain proof in the list). -/
theorem sigall_melt_refused_partial (env : Env) (proofs : List Proof) (hall : ∀ q ∈ proofs, q.secret ≠ none)
    (h : ∃ p ∈ proofs, CarriesSigAll p) : meltSpendCheck env proofs ≠ .ok () := by
  unfold meltSpendCheck
  cases verifyProofs env proofs with
  | err e => simp
  | ok u => simp [proofsSigAll_of_all_nut10 proofs hall h]

example : meltSpendCheck wEnv [wLocked, wPlain] = .err .sigAllOnlySwap := by decide

/-- FULL (first half; the complete statement follows the repair): a swap with a SIG_ALL input anywhere in the list
    succeeds only if the output check ran and succeeded. -/
def sigall_swap_full : Prop :=
  ∀ (env : Env) (proofs : List Proof) (outs : List Output), (∃ p ∈ proofs, CarriesSigAll p) →
    swapSpendCheck env proofs outs = .ok () → verifyBlindedMessages env proofs outs = .ok ()

/-- F7: `[plain, SIG_ALL-locked]` with an unsigned output is swapped. -/
theorem sigall_swap_full_false : ¬ sigall_swap_full := by
  intro h
  have := h wEnv [wPlain, wLocked] [wUnsignedOutput] ⟨wLocked, by simp, wSigAllSecret, rfl, by decide⟩ (by decide)
  revert this
  decide

theorem sigall_swap_partial (env : Env) (proofs : List Proof) (outs : List Output) (hall : ∀ q ∈ proofs, q.secret ≠ none)
    (h : ∃ p ∈ proofs, CarriesSigAll p) (hs : swapSpendCheck env proofs outs = .ok ()) :
    verifyBlindedMessages env proofs outs = .ok () := by
  unfold swapSpendCheck at hs
  cases hv : verifyProofs env proofs with
  | err e => simp [hv] at hs
  | ok u => simpa [hv, proofsSigAll_of_all_nut10 proofs hall h] using hs

example : swapSpendCheck wEnv [wLocked] [wUnsignedOutput] = .err .invalidWitness := by decide

end Gonuts.Props.C12
