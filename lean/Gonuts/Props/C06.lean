import Gonuts.Lemmas.MintSeq
/-!
  C06 — rejected requests change nothing.  For every request content (all inputs of the model's request types) and
  every reachable fault-free state: an operation that answers with an error leaves every table as it was — with the
  one observable exception the property allows for `MintTokens` (its leading quote-state check may record that the
  invoice was paid: UNPAID → PAID, which any poll would do), and with `MeltTokens`' Lightning-lookup failure during
  internal settlement, where the inputs are released again (F15).

  "Never panics": the model has no panic outcome after the F3 fix (empty IN-lists return no rows); the absence of
  panics in the Go itself is checked by the panic-recovering monitors of streams mint-seq / mint-mon / wire-malformed,
  not by a theorem.
-/
namespace Gonuts.Props.C06
open Gonuts.Model Gonuts.Model.Mint

/-- Swap: any refusal leaves tables and Lightning state untouched. -/
theorem swap_reject_noop (cx : Cx) (ps : List Proof) (outs : List BMsg) (v : Option E) (s s' : DL) (e : E)
    (h : runM (swap cx ps outs v) s = (s', .error e)) : s' = s := by
  rcases swap_cases cx ps outs v s s' _ h with ⟨e', _, hs⟩ | ⟨sigs, he, _⟩
  · exact hs
  · cases he

/-- Melt: any refusal leaves everything untouched, except the failed Lightning lookup of an internal settlement, after
    which `spent` is unchanged and none of the inputs is locked. -/
theorem melt_reject_noop (cx : Cx) (qid : Int) (ps : List Proof) (s s' : DL) (e : E)
    (h : runM (meltTokens cx qid ps) s = (s', .error e)) :
    s' = s ∨ (e = (2, "ln") ∧ s'.1.spent = s.1.spent ∧ s'.1.sigs = s.1.sigs ∧ s'.1.mintQ = s.1.mintQ ∧
              ∀ p ∈ ps, p.secret ∉ ysOf s'.1.pending) := by
  rcases melt_cases cx qid ps s s' _ h with ⟨e', _, hs⟩ | ⟨q, hacc, hcase⟩
  · exact Or.inl hs
  · right
    rcases hcase with ⟨_, hr, _⟩ | ⟨mq, _, ⟨hr, _⟩ | ⟨hr, hdb⟩⟩
    · exfalso; cases ho : meltOutcome (ans0 s.2) (ans1 s.2) <;> simp [tailQuote, ho] at hr
    · cases hr
    · injection hr with hr
      refine ⟨hr, ?_, ?_, ?_, ?_⟩ <;> rw [hdb]
      · rfl
      · rfl
      · rfl
      · intro p hp hm
        simp only [tailDb, ysOf, List.mem_map, List.mem_filter] at hm
        obtain ⟨r, ⟨_, hn⟩, hre⟩ := hm
        have : r.y ∈ ps.map (·.secret) := hre ▸ List.mem_map.2 ⟨p, hp, rfl⟩
        simp [this] at hn

/-- Quote ids are unique in every state any execution reaches (effect-level). -/
theorem mintQ_nodup_db : DbInv (fun db => (db.mintQ.map (·.id)).Nodup) := by
  intro β e db db' r h hq
  db_cases h hq
  · rename_i q hh hany
    simp only [List.map_append, List.map_cons, List.map_nil]
    rw [List.nodup_append]
    refine ⟨hq, by simp, ?_⟩
    intro a ha b hb
    simp at hb; subst hb
    intro hab; subst hab
    apply hany
    obtain ⟨x, hx, hxe⟩ := List.mem_map.1 ha
    simp only [List.any_eq_true]; exact ⟨x, hx, by simp [hxe]⟩
  · have : ∀ (i : Nat) (st : MQState), (updMintQ db.mintQ i st).map (·.id) = db.mintQ.map (·.id) := by
      intro i st
      unfold updMintQ; simp only [List.map_map]; congr 1; funext q; simp only [Function.comp]; split <;> rfl
    show ((updMintQ db.mintQ _ _).map (·.id)).Nodup
    rw [this]; exact hq

theorem updMintQ_same_state (qs : List MintQ) (q : MintQ) (hn : (qs.map (·.id)).Nodup) (hq : q ∈ qs) :
    updMintQ qs q.id q.state = qs := by
  unfold updMintQ
  conv => rhs; rw [← List.map_id qs]
  apply List.map_congr_left
  intro x hx
  by_cases he : (x.id == q.id) = true
  · simp only [he, if_true, id]
    have : x = q := by
      have hid : x.id = q.id := by simpa using he
      clear he
      induction qs with
      | nil => cases hx
      | cons y ys ih =>
        simp only [List.map_cons, List.nodup_cons] at hn
        rcases List.mem_cons.1 hx with rfl | hx' <;> rcases List.mem_cons.1 hq with rfl | hq'
        · rfl
        · exfalso; apply hn.1; rw [hid]; exact List.mem_map.2 ⟨q, hq', rfl⟩
        · exfalso; apply hn.1; rw [← hid]; exact List.mem_map.2 ⟨x, hx', rfl⟩
        · exact ih hn.2 hq' hx'
    rw [this]
  · simp only [he, id]; rfl

theorem dbGetMintQ_mem {db : DB} {qid : Int} {q : MintQ} (h : dbGetMintQ db qid = .ok q) : q ∈ db.mintQ := by
  unfold dbGetMintQ at h
  split at h
  · rename_i q' hf; injection h with h; subst h; exact List.mem_of_find?_eq_some hf
  · cases h

/-- The leading `GetMintQuoteState` of `MintTokens` changes at most one thing: the quote's state from UNPAID to PAID,
    and only when the backend reports the invoice settled. -/
theorem quoteState_only_unpaid_to_paid (qid : Int) (s : DL) :
    (gmqsSpec qid s).1.1 = s.1 ∨
    ∃ q, dbGetMintQ s.1 qid = .ok q ∧ q.state = .unpaid ∧ (lnInvStatus s.2 q.hash).2 = some true ∧
      (gmqsSpec qid s).1.1 = { s.1 with mintQ := updMintQ s.1.mintQ q.id .paid } := by
  unfold gmqsSpec
  cases hq : dbGetMintQ s.1 qid with
  | error e => left; rfl
  | ok q =>
    simp only []
    by_cases hu : (q.state == MQState.unpaid) = true
    · simp only [hu, if_true]
      cases hst : (lnInvStatus s.2 q.hash).2 with
      | none => left; rfl
      | some b =>
        simp only []
        cases b with
        | false => left; rfl
        | true =>
          simp only [if_true]
          split
          · right; exact ⟨q, rfl, by simpa using hu, hst, rfl⟩
          · left; rfl
    · simp only [hu]; left; rfl

/-- The quote the state check returns is a row of the table it leaves behind. -/
theorem gmqs_mem (qid : Int) (s : DL) (q : MintQ) (hq : (gmqsSpec qid s).2 = .ok q) : q ∈ (gmqsSpec qid s).1.1.mintQ := by
  -- `q` is what the check returns: the stored row, possibly just updated to PAID
  unfold gmqsSpec at hq ⊢
  cases hq0 : dbGetMintQ s.1 qid with
  | error e0 => simp only [hq0] at hq; cases hq
  | ok q0 =>
    simp only [hq0] at hq ⊢
    have hm0 := dbGetMintQ_mem hq0
    by_cases hu : (q0.state == MQState.unpaid) = true
    · simp only [hu, if_true] at hq ⊢
      cases hst : (lnInvStatus s.2 q0.hash).2 with
      | none => simp only [hst] at hq; cases hq
      | some b =>
        simp only [hst] at hq ⊢
        cases b with
        | false =>
          simp only [Bool.false_eq_true, if_false] at hq ⊢
          injection hq with hq; subst hq; exact hm0
        | true =>
          simp only [if_true] at hq ⊢
          split at hq
          · rename_i hany
            injection hq with hq; subst hq
            simp only [hany, if_true]
            simp only [updMintQ, List.mem_map]
            exact ⟨q0, hm0, by simp⟩
          · cases hq
    · simp only [hu] at hq ⊢
      injection hq with hq; subst hq; exact hm0

/-- MintTokens: a refusal leaves the tables exactly as the leading quote-state check left them (the PENDING write of
    the issuing closure is always undone: F4) — so the same paid quote stays usable for a corrected request. -/
theorem mint_reject_noop (cx : Cx) (qid : Int) (outs : List BMsg) (sig : QSig) (s s' : DL) (e : E)
    (hn : (s.1.mintQ.map (·.id)).Nodup) (h : runM (mintTokens cx qid outs sig) s = (s', .error e)) :
    s'.1 = (gmqsSpec qid s).1.1 := by
  have hn' : ((gmqsSpec qid s).1.1.mintQ.map (·.id)).Nodup := by
    have := mintQ_nodup_db.runM (getMintQuoteState qid) s hn
    rwa [getMintQuoteState_runM] at this
  rcases mintTokens_cases cx qid outs sig s s' _ h with ⟨e', _, _, hs⟩ | ⟨q, hq, hc⟩
  · rw [hs]
  · rcases hc with ⟨_, _, hs⟩ | ⟨_, _, hs⟩ | ⟨_, _, hs⟩ | ⟨hp, ⟨e', _, _, hs | hs⟩ | ⟨sigs, he, _⟩⟩
    · rw [hs]
    · rw [hs]
    · rw [hs]
    · exact hs
    · rw [hs]
      -- the quote found by the check is PAID; setting it to PAID again is the identity because ids are unique
      have hmem : q ∈ (gmqsSpec qid s).1.1.mintQ := gmqs_mem qid s q hq
      have := updMintQ_same_state _ q hn' hmem
      rw [hp] at this
      rw [this]
    · cases he

/-- Mint-quote and melt-quote requests: a refusal leaves every table untouched. -/
theorem mintQuote_reject_noop (cx : Cx) (qid : Nat) (amount : UInt64) (u : Bool) (pk : PkReq) (s s' : DL) (e : E)
    (h : runM (requestMintQuote cx qid amount u pk) s = (s', .error e)) : s'.1 = s.1 := by
  rcases requestMintQuote_cases cx qid amount u pk s s' _ h with ⟨e', _, hs⟩ | ⟨q, he, _⟩
  · exact hs
  · cases he

theorem meltQuote_reject_noop (cx : Cx) (qid : Nat) (inv : InvReq) (m : Nat → UInt64) (u : Bool) (mpp : Option UInt64)
    (s s' : DL) (e : E) (h : runM (requestMeltQuote cx qid inv m u mpp) s = (s', .error e)) : s' = s := by
  rcases requestMeltQuote_cases cx qid inv m u mpp s s' _ h with ⟨e', _, hs⟩ | ⟨ii, hh, q, _, he, _⟩
  · exact hs
  · cases he

/-- State checks and restores never write outside the re-polling of pending melts; restore never writes at all. -/
theorem restore_noop (bs : List Nat) (s : DL) : (runM (restoreSigs bs) s).1 = s := by rw [restore_runM]

end Gonuts.Props.C06
