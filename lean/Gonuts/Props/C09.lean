import Gonuts.Lemmas.MintSeq
/-!
  C09 — keyset lifecycle, in the mint model where a keyset IS its derivation index (that id and the 60 keys are a
  deterministic function of (seed, index) per NUT-02 is what `Spec.MintKeys` computes and streams `deriv` / `mint-seq`
  compare bit for bit with the Go; see C11).  Proved here: rows never change index or fee; a rotation deactivates the
  old keyset, appends index+1 with the requested fee and makes it the only active one; signatures are produced on the
  active keyset only (other ids refused with 12001 / 12002); proofs of every keyset the mint holds pass the gate and
  are charged their own keyset's fee; a restart rebuilds the cache from the stored rows.
-/
namespace Gonuts.Props.C09
open Gonuts.Model Gonuts.Model.Mint

/-- A stored keyset keeps its derivation index and its input fee through every effect of every program … -/
theorem keyset_row_stable (idx : Nat) (fee : UInt64) {β : Type} (w : World) (e : Eff β)
    (h : ∃ k ∈ w.db.keysets, k.idx = idx ∧ k.fee = fee) : ∃ k ∈ (exec w e).1.db.keysets, k.idx = idx ∧ k.fee = fee :=
  DbInv.effInv (keyset_stable_db idx fee) w e h

/-- … hence through every history (rotations, restarts, crashes, faults included). -/
theorem keyset_row_stable_history (idx : Nat) (fee : UInt64) (s : Sess) (ops : List Op)
    (h : ∃ k ∈ s.w.db.keysets, k.idx = idx ∧ k.fee = fee) : ∃ k ∈ (runOps s ops).w.db.keysets, k.idx = idx ∧ k.fee = fee :=
  runOps_db (keyset_stable_db idx fee) s ops h

def deactivate (mem : Mem) : List KsRow := mem.keysets.map (fun k => if k.idx == mem.active then { k with active := false } else k)

/-- A successful rotation: new index = old active + 1, appended with the requested fee, active; the old active
    keyset is deactivated; every other row is untouched. -/
theorem rotate_ok (mem : Mem) (fee : UInt64) (s : DL) (mem' : Mem) (idx : Nat)
    (h : (runDL (rotateKeyset mem fee) s).2 = (mem', .ok idx)) :
    idx = mem.active + 1 ∧ mem'.active = idx ∧ mem'.keysets = deactivate mem ++ [⟨idx, true, fee⟩] := by
  obtain ⟨db, ln⟩ := s
  simp only [rotateKeyset, Prog.call, bind, Prog.bind, runDL, stepDL, execDb, pure] at h
  by_cases h1 : (db.keysets.any fun x => x.idx == mem.active) = true
  · simp only [h1, if_true, Prog.bind, runDL, stepDL, execDb] at h
    split at h
    · simp only [runDL] at h; injection h with _ h; cases h
    · simp only [runDL] at h
      injection h with h1 h2
      injection h2 with h2
      subst h1; subst h2
      exact ⟨rfl, rfl, rfl⟩
  · simp only [h1, runDL] at h; injection h with _ h; cases h

/-- The in-memory cache is well formed: exactly the keyset with index `active` is marked active. -/
def MemWf (mem : Mem) : Prop :=
  (∀ k ∈ mem.keysets, k.active = (k.idx == mem.active)) ∧ (∃ k ∈ mem.keysets, k.idx = mem.active) ∧
  ∀ k ∈ mem.keysets, k.idx ≤ mem.active

/-- Exactly one keyset is active after a rotation, and it is the new one. -/
theorem rotate_one_active (mem : Mem) (fee : UInt64) (s : DL) (mem' : Mem) (idx : Nat) (hw : MemWf mem)
    (h : (runDL (rotateKeyset mem fee) s).2 = (mem', .ok idx)) : MemWf mem' := by
  obtain ⟨h1, h2, h3⟩ := rotate_ok mem fee s mem' idx h
  obtain ⟨w1, w2, w3⟩ := hw
  subst h1
  refine ⟨?_, ?_, ?_⟩
  · intro k hk
    rw [h3] at hk
    rw [h2]
    rcases List.mem_append.1 hk with hk | hk
    · simp only [deactivate, List.mem_map] at hk
      obtain ⟨k0, hk0, rfl⟩ := hk
      have := w3 k0 hk0
      split
      · simp; omega
      · rename_i hne
        rw [w1 k0 hk0]
        have : k0.idx ≠ mem.active + 1 := by omega
        simp [hne, this]
    · simp at hk; subst hk; simp
  · rw [h3, h2]; exact ⟨⟨mem.active + 1, true, fee⟩, by simp, rfl⟩
  · intro k hk
    rw [h3] at hk
    rw [h2]
    rcases List.mem_append.1 hk with hk | hk
    · simp only [deactivate, List.mem_map] at hk
      obtain ⟨k0, hk0, rfl⟩ := hk
      have := w3 k0 hk0
      split <;> simp <;> omega
    · simp at hk; subst hk; simp

/-- New signatures are produced on the active keyset only: an output naming an unknown id is refused with 12001,
    a known but inactive one with 12002, and every signature returned carries the active index. -/
theorem sign_only_active (mem : Mem) (m : BMsg) :
    (∀ sg, signOne mem m = .ok sg → sg.ks = mem.active ∧ m.ks = .known mem.active) ∧
    (memHas mem m.ks = false → signOne mem m = .error eUnknownKeyset) ∧
    (∀ i, m.ks = .known i → memHas mem m.ks = true → i ≠ mem.active → signOne mem m = .error eInactiveKeyset) := by
  refine ⟨fun sg h => ?_, fun h => ?_, fun i hk hm hi => ?_⟩
  · obtain ⟨_, _, h3, h4, _⟩ := signOne_ok h
    exact ⟨h3, h4⟩
  · unfold signOne; simp [h]
  · unfold signOne
    rw [hk] at hm
    have : (i != mem.active) = true := by simpa using hi
    simp [hk, hm, this]

/-- Old ecash stays valid: a genuine proof of ANY keyset the cache holds passes the gate, whether active or not. -/
theorem old_keysets_accepted (mem : Mem) (p : Proof) (i : Nat) (hk : p.ks = .known i) (hm : mem.keysets.any (·.idx == i) = true)
    (hl : p.long = false) (ha : isKeyAmount p.amount = true) (hc : p.c = .sig i p.amount p.secret) (hlock : lockErr p.lock = none) :
    gate mem p = .ok () := by
  unfold gate; simp [hl, hk, hm, ha, hc, hlock]

/-- Each input is charged its OWN keyset's fee: the fee of a request is ceil(Σ ppk(keyset of input) / 1000). -/
theorem fees_per_keyset (mem : Mem) (ps : List Proof) :
    transactionFees mem ps = feesOfPpks (ps.map (fun p => memFee mem p.ks)) := rfl

theorem memFee_known (mem : Mem) (i : Nat) (k : KsRow) (h : mem.keysets.find? (·.idx == i) = some k) :
    memFee mem (.known i) = k.fee := by
  simp [memFee, h]

/-- A restart rebuilds the cache from the stored rows: same indices, same fees, same active flags. -/
theorem restart_cache (db : DB) : (memOfDb db).keysets = db.keysets := rfl

example : MemWf { keysets := [⟨0, true, 100⟩], active := 0 } := by
  refine ⟨?_, ⟨⟨0, true, 100⟩, by simp, rfl⟩, ?_⟩ <;> intro k hk <;> simp at hk <;> subst hk <;> simp

end Gonuts.Props.C09
