import Gonuts.Lemmas.Algebra
import Gonuts.Gen.Facts

/-!
# C04 — only genuine mint signatures are honoured, at exactly their signed amount

## ALGEBRAIC PART (this section; the protocol-level part lives in the same namespace, further down / other sections)

`gate` mirrors the per-proof cryptographic checks of `Mint.verifyProofs` (`/repo/mint/mint.go`, the `for _, proof`
loop): `len(proof.Secret) > MAX_SECRET_LENGTH`, `m.keysets[proof.Id]` / `keyset.Keys[proof.Amount]`,
`hex.DecodeString(proof.C)` + `secp256k1.ParsePubKey`, `crypto.Verify(proof.Secret, k, C)`.
NOT in this gate (protocol-level part): pending/spent/duplicate checks and the NUT-10/11/14 spending conditions.

Parameters (all arbitrary, hypotheses are stated per theorem, nothing is an axiom):
* `G` a module over `ZMod n` (Lemmas/Algebra.lean); `[Fact n.Prime]` where the field property is used;
* `key : KsId × Amount → Option (ZMod n)` — the mint's private keys; `none` = unknown keyset (`UnknownKeysetErr`) or
  the amount is not a key of that keyset (`InvalidProofErr`);
* `H : Secret → G` — `HashToCurve`; `slen : Secret → ℕ` — Go's `len(secret)` (bytes);
* the proof's `C : Option G` is the RESULT of hex-decoding and `ParsePubKey`; `none` = malformed / not a curve point.

Hypotheses used by `C04_mutation_rejected` (and which mutation needs which):
* `KeyInjective key` (distinct `(keyset, amount)` pairs hold distinct keys) and `H s ≠ 0`      — amount, id;
* `Function.Injective H` (no `HashToCurve` collision) and `KeyNonzero key`                     — secret;
* nothing                                                                                      — `C`, oversize secret.
`KeyInjective`/`KeyNonzero` are checked on the real keysets by stream `bdhke` (all 180 keys of 3 keysets).

Limits of the algebra (read before using the symbolic view `sig(keyset, amount, secret)` of a signature):
single-field mutations are rejected under the hypotheses above, but a SIMULTANEOUS change of two fields is not
excluded by them — in a cyclic group `k•H s = k'•H s'` has solutions with `k ≠ k'`, `s ≠ s'` (`not_jointly_injective`).
Excluding those is the joint hypothesis `SigInjective` (finding such a pair means knowing the discrete log between two
`HashToCurve` outputs); `C04_symbolic_sound` proves that under it the gate IS the symbolic check.
-/

namespace Gonuts.Props.C04
open Gonuts.Algebra

/-! ## ===== ALGEBRAIC PART (begin) ===== -/
section Algebraic

/-- The fields of `cashu.Proof` that the cryptographic gate reads. -/
structure AProof (KsId Amount Secret G : Type*) where
  amount : Amount
  id : KsId
  secret : Secret
  /-- result of `hex.DecodeString(proof.C)` then `secp256k1.ParsePubKey`; `none` = either failed -/
  C : Option G

variable {n : ℕ} {G : Type*} [AddCommGroup G] [Module (ZMod n) G]
variable {KsId Amount Secret : Type*}
variable (slen : Secret → ℕ) (key : KsId × Amount → Option (ZMod n)) (H : Secret → G)

/-- The per-proof cryptographic gate of `verifyProofs`, in the order of the code. -/
def gate (p : AProof KsId Amount Secret G) : Prop :=
  ¬ (slen p.secret > Gen.maxSecretLength) ∧        -- cashu.SecretTooLongErr
    match key (p.id, p.amount) with
    | none => False                                  -- cashu.UnknownKeysetErr / cashu.InvalidProofErr
    | some k =>
      match p.C with
      | none => False                                -- "invalid C: …" / ParsePubKey error
      | some c => verify k (H p.secret) c            -- !crypto.Verify ⇒ cashu.InvalidProofErr

instance [DecidableEq G] (p : AProof KsId Amount Secret G) : Decidable (gate slen key H p) := by
  unfold gate
  cases key (p.id, p.amount) <;> cases p.C <;> infer_instance

/-- `p` carries the mint's signature for exactly its own `(id, amount, secret)`. -/
def Genuine (p : AProof KsId Amount Secret G) : Prop :=
  ∃ k, key (p.id, p.amount) = some k ∧ p.C = some (k • H p.secret)

/-- distinct `(keyset, amount)` pairs hold distinct private keys -/
def KeyInjective : Prop := ∀ x y k, key x = some k → key y = some k → x = y
/-- no private key is zero -/
def KeyNonzero : Prop := ∀ x k, key x = some k → k ≠ 0

/-- `p'` differs from `p` in EXACTLY one of the four fields (to any other value). -/
inductive Mutation (p : AProof KsId Amount Secret G) : AProof KsId Amount Secret G → Prop
  | amount (a : Amount) (h : a ≠ p.amount) : Mutation p { p with amount := a }
  | id (i : KsId) (h : i ≠ p.id) : Mutation p { p with id := i }
  | secret (s : Secret) (h : s ≠ p.secret) : Mutation p { p with secret := s }
  | C (c : Option G) (h : c ≠ p.C) : Mutation p { p with C := c }

/-- The gate accepts exactly: secret ≤ 512 bytes ∧ `(id, amount)` holds a key `k` ∧ `C` parses to `k • H secret`. -/
theorem C04_gate_iff (p : AProof KsId Amount Secret G) :
    gate slen key H p ↔ slen p.secret ≤ 512 ∧ ∃ k, key (p.id, p.amount) = some k ∧ p.C = some (k • H p.secret) := by
  unfold gate verify
  rw [show Gen.maxSecretLength = 512 from rfl, Nat.not_lt]
  cases hk : key (p.id, p.amount) with
  | none => simp
  | some k =>
    cases hc : p.C with
    | none => simp
    | some c => simp [eq_comm]

theorem C04_gate_iff_genuine (p : AProof KsId Amount Secret G) :
    gate slen key H p ↔ slen p.secret ≤ 512 ∧ Genuine key H p := C04_gate_iff slen key H p

/-- Secrets longer than 512 bytes fail regardless of everything else. -/
theorem C04_secret_too_long (p : AProof KsId Amount Secret G) (h : slen p.secret > 512) : ¬ gate slen key H p :=
  fun hg => absurd ((C04_gate_iff slen key H p).mp hg).1 (Nat.not_le.mpr h)

/-- Unknown keyset, or an amount that is not a key of the keyset. -/
theorem C04_no_key (p : AProof KsId Amount Secret G) (h : key (p.id, p.amount) = none) : ¬ gate slen key H p := by
  rw [C04_gate_iff]; rintro ⟨_, k, hk, _⟩; rw [h] at hk; cases hk

/-- Malformed `C` (bad hex, wrong length, not on the curve). -/
theorem C04_malformed_point (p : AProof KsId Amount Secret G) (h : p.C = none) : ¬ gate slen key H p := by
  rw [C04_gate_iff]; rintro ⟨_, k, _, hc⟩; rw [h] at hc; cases hc

/-- A forged proof — `C` is not the holder-of-`(id, amount)`'s signature on the secret — is rejected. -/
theorem C04_forged_rejected (p : AProof KsId Amount Secret G) (h : ¬ Genuine key H p) : ¬ gate slen key H p :=
  fun hg => h ((C04_gate_iff_genuine slen key H p).mp hg).2

/-- Every proof honestly unblinded from the mint's own signature passes (uses C10's `unblind_sign_blind`). -/
theorem C04_honest_accepted (g : G) (i : KsId) (a : Amount) (s : Secret) (r k : ZMod n)
    (hk : key (i, a) = some k) (hs : slen s ≤ 512) :
    gate slen key H { amount := a, id := i, secret := s, C := some (unblind (sign (blind g (H s) r) k) r (k • g)) } := by
  rw [C04_gate_iff]
  exact ⟨hs, k, hk, by rw [unblind_sign_blind_eq]⟩

/-- `C` replaced by any other point, or by something that does not parse. -/
theorem C04_C_mutation_rejected
    (p : AProof KsId Amount Secret G) (hp : Genuine key H p) (c : Option G) (hc : c ≠ p.C) :
    ¬ gate slen key H { p with C := c } := by
  obtain ⟨k, hk, hC⟩ := hp
  intro hg
  obtain ⟨_, k', hk', hc'⟩ := (C04_gate_iff slen key H _).mp hg
  have hkk : k' = k := Option.some.inj (hk'.symm.trans hk)
  subst hkk
  exact hc (hc'.trans hC.symm)

/-- Joint injectivity of `(keyset, amount, secret) ↦ key • H secret` on valid keys: what the SYMBOLIC view of a
signature as a free term `sig(keyset, amount, secret)` assumes. Strictly stronger than `KeyInjective` + `H` injective
(see `not_jointly_injective`). -/
def SigInjective : Prop :=
  ∀ x y k k' s s', key x = some k → key y = some k' → k • H s = k' • H s' → x = y ∧ s = s'

/-- Under `SigInjective` the gate is the symbolic check: a proof whose `C` is (the value of) the term
`sig(i₀, a₀, s₀)` is accepted iff its secret is short enough and its own `(id, amount, secret)` is `(i₀, a₀, s₀)`. -/
theorem C04_symbolic_sound (hsig : SigInjective key H)
    (p : AProof KsId Amount Secret G) (i₀ : KsId) (a₀ : Amount) (s₀ : Secret) (k₀ : ZMod n)
    (hk₀ : key (i₀, a₀) = some k₀) (hC : p.C = some (k₀ • H s₀)) :
    gate slen key H p ↔ slen p.secret ≤ 512 ∧ p.id = i₀ ∧ p.amount = a₀ ∧ p.secret = s₀ := by
  rw [C04_gate_iff]
  constructor
  · rintro ⟨hl, k, hk, hc⟩
    rw [hC] at hc
    obtain ⟨hx, hs⟩ := hsig _ _ _ _ _ _ hk₀ hk (Option.some.inj hc)
    exact ⟨hl, (congrArg Prod.fst hx).symm, (congrArg Prod.snd hx).symm, hs.symm⟩
  · rintro ⟨hl, hi, ha, hs⟩
    exact ⟨hl, k₀, by rw [hi, ha]; exact hk₀, by rw [hC, hs]⟩

/-! ### The same gate with the code's two-level key maps and its error values

`m.keysets[proof.Id]` then `keyset.Keys[proof.Amount]`; the error returned at each exit of the loop body. (The NUT-10
spending-condition block sits between the key lookup and the parsing of `C`; it is not part of this gate, so the codes
below are those of a proof whose secret is not a P2PK/HTLC secret or whose spending condition holds.) -/

/-- The exits of the per-proof loop body of `verifyProofs`. -/
inductive GateErr
  | secretTooLong     -- cashu.SecretTooLongErr  (10004)
  | unknownKeyset     -- cashu.UnknownKeysetErr  (12001)
  | invalidProof      -- cashu.InvalidProofErr   (10003): amount is not a key of the keyset, OR crypto.Verify is false
  | badC              -- BuildCashuError("invalid C: …" / ParsePubKey error, StandardErrCode 10000)
  deriving DecidableEq, Repr

/-- `key` as used by `gate`, from the two-level maps of the code. -/
def keyOf (keysets : KsId → Option (Amount → Option (ZMod n))) : KsId × Amount → Option (ZMod n) :=
  fun x => (keysets x.1).bind (fun ks => ks x.2)

/-- The loop body with its error values, in the order of the code; `none` = this proof passes. -/
def gateCode [DecidableEq G] (keysets : KsId → Option (Amount → Option (ZMod n)))
    (p : AProof KsId Amount Secret G) : Option GateErr :=
  if slen p.secret > Gen.maxSecretLength then some .secretTooLong else
  match keysets p.id with
  | none => some .unknownKeyset
  | some ks =>
    match ks p.amount with
    | none => some .invalidProof
    | some k =>
      match p.C with
      | none => some .badC
      | some c => if k • H p.secret = c then none else some .invalidProof

theorem gateCode_none_iff [DecidableEq G] (keysets : KsId → Option (Amount → Option (ZMod n)))
    (p : AProof KsId Amount Secret G) :
    gateCode slen H keysets p = none ↔ gate slen (keyOf keysets) H p := by
  unfold gateCode gate keyOf verify
  by_cases hl : slen p.secret > Gen.maxSecretLength
  · simp [hl]
  · cases hks : keysets p.id with
    | none => simp [hl]
    | some ks =>
      cases hk : ks p.amount with
      | none => simp [hl, hk]
      | some k =>
        cases hc : p.C with
        | none => simp [hl, hk]
        | some c => by_cases hv : k • H p.secret = c <;> simp [hl, hk, hv]

/-- Which error each rejection produces. -/
theorem gateCode_cases [DecidableEq G] (keysets : KsId → Option (Amount → Option (ZMod n)))
    (p : AProof KsId Amount Secret G) :
    (slen p.secret > 512 → gateCode slen H keysets p = some .secretTooLong) ∧
    (slen p.secret ≤ 512 → keysets p.id = none → gateCode slen H keysets p = some .unknownKeyset) ∧
    (slen p.secret ≤ 512 → ∀ ks, keysets p.id = some ks → ks p.amount = none →
      gateCode slen H keysets p = some .invalidProof) ∧
    (slen p.secret ≤ 512 → ∀ ks k, keysets p.id = some ks → ks p.amount = some k → p.C = none →
      gateCode slen H keysets p = some .badC) ∧
    (slen p.secret ≤ 512 → ∀ ks k c, keysets p.id = some ks → ks p.amount = some k → p.C = some c →
      k • H p.secret ≠ c → gateCode slen H keysets p = some .invalidProof) := by
  unfold gateCode
  rw [show Gen.maxSecretLength = 512 from rfl]
  refine ⟨fun h => by simp [h], fun h hk => ?_, fun h ks hks hk => ?_, fun h ks k hks hk hc => ?_,
    fun h ks k c hks hk hc hv => ?_⟩
  · simp [Nat.not_lt.mpr h, hk]
  · simp [Nat.not_lt.mpr h, hks, hk]
  · simp [Nat.not_lt.mpr h, hks, hk, hc]
  · simp [Nat.not_lt.mpr h, hks, hk, hc, hv]

/-- Name and code of the `cashu.Error` each exit returns (for `badC`: the code of `cashu.StandardErrCode`; its message is
built at run time). -/
def GateErr.wire : GateErr → String × Nat
  | .secretTooLong => ("SecretTooLongErr", 10004)
  | .unknownKeyset => ("UnknownKeysetErr", 12001)
  | .invalidProof => ("InvalidProofErr", 10003)
  | .badC => ("StandardErrCode", 10000)

/-- Tie to the regenerated error table of `/repo/cashu/cashu.go` and to the extracted call skeleton of `verifyProofs`
(`crypto.Verify` is the last call of the loop body, after the NUT-11/NUT-14 verifiers): breaks when the code changes. -/
theorem gate_tie :
    (∀ e : GateErr, e ≠ .badC → ∃ msg, (e.wire.1, msg, e.wire.2) ∈ Gen.errTable) ∧
    (GateErr.badC.wire ∈ Gen.errCodes) ∧
    Gen.maxSecretLength = 512 ∧
    Gen.skel_verifyProofs = ["db.GetPendingProofs", "db.GetProofsUsed", "cashu.CheckDuplicateProofs", "for{", "if{", "if{",
      "nut11.VerifyP2PKLockedProof", "}else{", "if{", "nut14.VerifyHTLCProof", "}", "}", "}", "crypto.Verify", "}"] := by
  refine ⟨fun e he => ?_, by decide, rfl, rfl⟩
  cases e
  · exact ⟨"secret too long", by decide⟩
  · exact ⟨"unknown keyset", by decide⟩
  · exact ⟨"invalid proof", by decide⟩
  · exact absurd rfl he

end Algebraic

section AlgebraicPrime
variable {n : ℕ} {G : Type*} [AddCommGroup G] [Module (ZMod n) G] [Fact n.Prime]
variable {KsId Amount Secret : Type*}
variable (slen : Secret → ℕ) (key : KsId × Amount → Option (ZMod n)) (H : Secret → G)

/-- "At exactly their signed amount": a point that IS the mint's signature for `(i₀, a₀)` on the proof's secret is
honoured only when the proof claims exactly `(i₀, a₀)`. -/
theorem C04_only_at_signed_amount (hinj : KeyInjective key) (hH0 : ∀ s, H s ≠ 0)
    (p : AProof KsId Amount Secret G) (i₀ : KsId) (a₀ : Amount) (k₀ : ZMod n)
    (hk₀ : key (i₀, a₀) = some k₀) (hC : p.C = some (k₀ • H p.secret)) (hg : gate slen key H p) :
    (p.id, p.amount) = (i₀, a₀) := by
  obtain ⟨_, k, hk, hc⟩ := (C04_gate_iff slen key H p).mp hg
  rw [hC] at hc
  have hkk : k₀ = k := smul_left_cancel_of_ne_zero (hH0 p.secret) (Option.some.inj hc)
  exact hinj _ _ k hk (hkk ▸ hk₀)

theorem C04_amount_mutation_rejected (hinj : KeyInjective key) (hH0 : ∀ s, H s ≠ 0)
    (p : AProof KsId Amount Secret G) (hp : Genuine key H p) (a : Amount) (ha : a ≠ p.amount) :
    ¬ gate slen key H { p with amount := a } := by
  obtain ⟨k, hk, hc⟩ := hp
  intro hg
  have := C04_only_at_signed_amount slen key H hinj hH0 { p with amount := a } p.id p.amount k hk hc hg
  exact ha (congrArg Prod.snd this)

theorem C04_id_mutation_rejected (hinj : KeyInjective key) (hH0 : ∀ s, H s ≠ 0)
    (p : AProof KsId Amount Secret G) (hp : Genuine key H p) (i : KsId) (hi : i ≠ p.id) :
    ¬ gate slen key H { p with id := i } := by
  obtain ⟨k, hk, hc⟩ := hp
  intro hg
  have := C04_only_at_signed_amount slen key H hinj hH0 { p with id := i } p.id p.amount k hk hc hg
  exact hi (congrArg Prod.fst this)

theorem C04_secret_mutation_rejected (hnz : KeyNonzero key) (hH : Function.Injective H)
    (p : AProof KsId Amount Secret G) (hp : Genuine key H p) (s : Secret) (hs : s ≠ p.secret) :
    ¬ gate slen key H { p with secret := s } := by
  obtain ⟨k, hk, hc⟩ := hp
  intro hg
  obtain ⟨_, k', hk', hc'⟩ := (C04_gate_iff slen key H _).mp hg
  have hkk : k' = k := Option.some.inj (hk'.symm.trans hk)
  subst hkk
  have : k' • H p.secret = k' • H s := Option.some.inj (hc.symm.trans hc')
  exact hs (hH (smul_right_cancel_of_ne_zero (hnz _ _ hk) this)).symm

/-- If `p` is genuine and `p'` differs in exactly one of amount (to any other value, key or not), id (other or unknown
keyset), secret, `C` (other point or malformed), then `p'` fails the gate. -/
theorem C04_mutation_rejected (hinj : KeyInjective key) (hnz : KeyNonzero key)
    (hH : Function.Injective H) (hH0 : ∀ s, H s ≠ 0)
    (p p' : AProof KsId Amount Secret G) (hp : Genuine key H p) (hm : Mutation p p') :
    ¬ gate slen key H p' := by
  cases hm with
  | amount a h => exact C04_amount_mutation_rejected slen key H hinj hH0 p hp a h
  | id i h => exact C04_id_mutation_rejected slen key H hinj hH0 p hp i h
  | secret s h => exact C04_secret_mutation_rejected slen key H hnz hH p hp s h
  | C c h => exact C04_C_mutation_rejected slen key H p hp c h

end AlgebraicPrime

/-! ### Non-vacuity: `G = ZMod 7` over itself, two keysets × three amounts holding the six nonzero scalars,
six secrets hashed injectively onto the six nonzero points, one of them "too long". -/
section Examples

local instance fact7 : Fact (Nat.Prime 7) := ⟨by decide⟩

private def key7 : Bool × Fin 4 → Option (ZMod 7)
  | (false, 0) => some 1 | (false, 1) => some 2 | (false, 2) => some 3
  | (true, 0) => some 4 | (true, 1) => some 5 | (true, 2) => some 6
  | (_, 3) => none                                   -- amount 3 is not a key of either keyset
private def H7 (s : Fin 6) : ZMod 7 := (s.val + 1 : ℕ)
private def slen7 (s : Fin 6) : ℕ := if s = 5 then 513 else 10 * s.val

private theorem key7_inj : KeyInjective key7 := by unfold KeyInjective; decide
private theorem key7_nz : KeyNonzero key7 := by unfold KeyNonzero; decide
private theorem H7_inj : Function.Injective H7 := by unfold Function.Injective; decide
private theorem H7_nz : ∀ s, H7 s ≠ 0 := by decide

/-- a genuine proof: keyset `false`, amount index 1 (key 2), secret 2 (`H = 3`), `C = 2•3 = 6` -/
private def p7 : AProof Bool (Fin 4) (Fin 6) (ZMod 7) := { amount := 1, id := false, secret := 2, C := some 6 }

example : Genuine key7 H7 p7 := ⟨2, rfl, by decide⟩
example : gate slen7 key7 H7 p7 := by decide
-- every kind of single-field mutation, directly and through the theorem
example : ¬ gate slen7 key7 H7 { p7 with amount := 2 } := by decide
example : ¬ gate slen7 key7 H7 { p7 with amount := 3 } := by decide            -- not a key
example : ¬ gate slen7 key7 H7 { p7 with id := true } := by decide
example : ¬ gate slen7 key7 H7 { p7 with secret := 3 } := by decide
example : ¬ gate slen7 key7 H7 { p7 with secret := 5 } := by decide            -- too long
example : ¬ gate slen7 key7 H7 { p7 with C := some 5 } := by decide
example : ¬ gate slen7 key7 H7 { p7 with C := none } := by decide              -- malformed
example : ¬ gate slen7 key7 H7 { p7 with amount := 2 } :=
  C04_mutation_rejected slen7 key7 H7 key7_inj key7_nz H7_inj H7_nz p7 _ ⟨2, rfl, by decide⟩ (.amount 2 (by decide))
example : ¬ gate slen7 key7 H7 { p7 with secret := 3 } :=
  C04_mutation_rejected slen7 key7 H7 key7_inj key7_nz H7_inj H7_nz p7 _ ⟨2, rfl, by decide⟩ (.secret 3 (by decide))
-- honest issuance passes, for a blinding factor and generator of our choice
example : gate slen7 key7 H7
    { amount := 1, id := false, secret := 2,
      C := some (unblind (sign (blind (1 : ZMod 7) (H7 2) (5 : ZMod 7)) (2 : ZMod 7)) (5 : ZMod 7)
        ((2 : ZMod 7) • (1 : ZMod 7))) } :=
  C04_honest_accepted slen7 key7 H7 1 false 1 2 5 2 rfl (by decide)
-- a too-long secret fails even with the right signature (H7 5 = 6, key 2: C = 12 = 5)
example : ¬ gate slen7 key7 H7 { amount := 1, id := false, secret := 5, C := some 5 } :=
  C04_secret_too_long slen7 key7 H7 _ (by decide)
example : Genuine key7 H7 { amount := 1, id := false, secret := 5, C := some 5 } := ⟨2, rfl, by decide⟩

-- the error values, on the two-level maps that induce `key7`
private def keysets7 : Bool → Option (Fin 4 → Option (ZMod 7)) := fun i => some (fun a => key7 (i, a))
example : gateCode slen7 H7 keysets7 p7 = none := by decide
example : gateCode slen7 H7 keysets7 { p7 with amount := 3 } = some .invalidProof := by decide
example : gateCode slen7 H7 keysets7 { p7 with amount := 2 } = some .invalidProof := by decide
example : gateCode slen7 H7 keysets7 { p7 with secret := 5 } = some .secretTooLong := by decide
example : gateCode slen7 H7 keysets7 { p7 with C := none } = some .badC := by decide
example : gateCode (n := 7) slen7 H7 (fun _ => none) p7 = some .unknownKeyset := by decide

/-- Separate injectivity of `key` and `H` does NOT make `(key, secret) ↦ key • H secret` injective: the genuine
`p7` (key 2, `H = 3`, `C = 6`) is ALSO accepted after changing amount AND secret together (key 3, `H = 2`). A
single-field mutation can never do this (`C04_mutation_rejected`); excluding it needs `SigInjective`. -/
theorem not_jointly_injective :
    KeyInjective key7 ∧ KeyNonzero key7 ∧ Function.Injective H7 ∧ (∀ s, H7 s ≠ 0) ∧ ¬ SigInjective key7 H7 ∧
      gate slen7 key7 H7 { p7 with amount := 2, secret := 1 } := by
  refine ⟨key7_inj, key7_nz, H7_inj, H7_nz, ?_, by decide⟩
  intro h
  have := (h (false, 1) (false, 2) 2 3 2 1 rfl rfl (by decide)).1
  exact absurd this (by decide)

end Examples
/-! ## ===== ALGEBRAIC PART (end) ===== -/

end Gonuts.Props.C04
