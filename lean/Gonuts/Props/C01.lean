import Gonuts.Lemmas.MintSeq
import Gonuts.Lemmas.MintConc
import Gonuts.Lemmas.SwapConc
/-!
  C01 — no double spend.  Theorems over `Model.Mint` (the mint after the `fix:` commits).

  * `spent_forever_*`, `spent_once_*`: hold for EVERY program, every interleaving (an interleaving is a
    sequence of single effects), every crash prefix and every injected storage fault.
  * `swap_rejects_used`, `melt_rejects_used`, `*_inputs_distinct`, `consumed_rejected_forever`: sequential,
    fault-free histories (requests do not overlap).
  * The interleaving window swap‖melt / melt‖melt (two tables, two transactions) is NOT excluded by any
    theorem here: see `Props/C01conc.lean` for the closed witnesses and the partial statement.
-/
namespace Gonuts.Props.C01
open Gonuts.Model Gonuts.Model.Mint

/-- A row of the spent table survives every single storage / Lightning effect, whatever it returns … -/
theorem spent_forever_effect (row : PRow) {β : Type} (w : World) (e : Eff β) (h : row ∈ w.db.spent) :
    row ∈ (exec w e).1.db.spent :=
  DbInv.effInv (spent_mono_db row) w e h

/-- … hence every program, also when it is killed after any number `n` of calls (crash), … -/
theorem spent_forever_crash (row : PRow) {α : Type} (p : Prog α) (n : Nat) (w : World) (h : row ∈ w.db.spent) :
    row ∈ (p.runN n w).1.db.spent :=
  EffInv.runN (P := fun w => row ∈ w.db.spent) (DbInv.effInv (spent_mono_db row)) p n w h

/-- … and every history of the sequential machine, including armed storage faults, rotations and restarts. -/
theorem spent_forever_history (row : PRow) (s : Sess) (ops : List Op) (h : row ∈ s.w.db.spent) :
    row ∈ (runOps s ops).w.db.spent :=
  runOps_db (spent_mono_db row) s ops h

/-- A spent secret is reported SPENT, with the witness it was spent with, by the state-check decision function. -/
theorem find_of_nodup (t : List PRow) (hn : (ysOf t).Nodup) (row : PRow) (h : row ∈ t) :
    t.find? (·.y == row.y) = some row := by
  induction t with
  | nil => cases h
  | cons x rest ih =>
    simp only [ysOf, List.map_cons, List.nodup_cons] at hn
    simp only [List.find?_cons]
    rcases List.mem_cons.1 h with rfl | hr
    · have : (row.y == row.y) = true := by simp
      rw [this]
    · have hx : x.y ≠ row.y := by
        intro he; apply hn.1; rw [he]; exact List.mem_map.2 ⟨row, hr, rfl⟩
      have : (x.y == row.y) = false := by simp [hx]
      rw [this]
      exact ih hn.2 hr

theorem spent_reported (db : DB) (hn : (ysOf db.spent).Nodup) (row : PRow) (h : row ∈ db.spent) :
    stateOf db.spent db.pending (.known row.y) = (.spent, row.witness) := by
  unfold stateOf
  simp [find_of_nodup db.spent hn row h]

/-- No secret is ever recorded as spent twice: every effect keeps the spent table duplicate-free
    (all programs, interleavings, crashes, faults) … -/
theorem spent_once_effect {β : Type} (w : World) (e : Eff β) (h : (ysOf w.db.spent).Nodup) :
    (ysOf (exec w e).1.db.spent).Nodup :=
  DbInv.effInv spent_nodup_db w e h

/-- … in particular in every state a sequential history reaches. -/
theorem spent_once_reachable {s : Sess} (h : Reach s) : (ysOf s.w.db.spent).Nodup := h.wf.1.spentNodup

/-- In sequential histories a secret is never both locked in a melt and spent. -/
theorem locked_not_spent {s : Sess} (h : Reach s) : ∀ r ∈ s.w.db.pending, r.y ∉ ysOf s.w.db.spent := h.wf.1.disjoint

/-- Swap: as soon as ONE input's secret is spent or locked by an in-flight melt — whatever its other fields
    (amount, witness, DLEQ, C, keyset id), wherever it sits in the list — the request is refused and no
    table changes. -/
theorem swap_rejects_used (s : Sess) (ps : List Proof) (outs : List BMsg) (v : Option E) (hf : NoFault s.w)
    (hused : ∃ p ∈ ps, p.secret ∈ ysOf s.w.db.pending ∨ p.secret ∈ ysOf s.w.db.spent) :
    ∃ e, (applyOp s (.swap ps outs v)).2 = .sigs (.error e) ∧ (applyOp s (.swap ps outs v)).1.w.db = s.w.db := by
  obtain ⟨ln', hrun, _⟩ := Sess.runPM_bridge s (swap (cxOf s) ps outs v) [] hf
  simp only [applyOp]
  rcases swap_cases _ ps outs v _ _ _ hrun with ⟨e, hr, hs⟩ | ⟨sigs, _, hok⟩
  · exact ⟨e, by rw [hr], congrArg Prod.fst hs⟩
  · exfalso
    obtain ⟨e, he⟩ := verifySpec_rejects_used (cxOf s) ps s.w.db hused
    have := hok.verified
    simp only [] at this
    rw [he] at this; cases this

/-- Melt: the same, against any melt quote. -/
theorem melt_rejects_used (s : Sess) (q : Int) (ps : List Proof) (script : List LnAns) (lnFail : Bool) (hf : NoFault s.w)
    (hused : ∃ p ∈ ps, p.secret ∈ ysOf s.w.db.pending ∨ p.secret ∈ ysOf s.w.db.spent) :
    ∃ e, (applyOp s (.melt q ps script lnFail)).2 = .melt (.error e) ∧
      (applyOp s (.melt q ps script lnFail)).1.w.db = s.w.db := by
  obtain ⟨ln', hrun, _⟩ := Sess.runPM_bridge
    { s with w := { s.w with ln := { s.w.ln with failInvoiceStatus := if lnFail then 1 else 0 } } }
    (meltTokens (cxOf s) q ps) script hf
  simp only [applyOp]
  rcases melt_cases _ q ps _ _ _ hrun with ⟨e, hr, hs⟩ | ⟨mq, hacc, _⟩
  · exact ⟨e, by rw [hr], congrArg Prod.fst hs⟩
  · exfalso
    obtain ⟨e, he⟩ := verifySpec_rejects_used (cxOf s) ps s.w.db hused
    have := hacc.verified
    simp only [] at this
    rw [he] at this; cases this

/-- A swap that returns signatures took pairwise distinct secrets (a duplicate inside one request — identical,
    or with a changed witness / DLEQ / amount — is never accepted), none of them spent or locked before, and
    every one of them is spent afterwards. -/
theorem swap_ok_consumes (s : Sess) (ps : List Proof) (outs : List BMsg) (v : Option E) (hf : NoFault s.w) (sigs : List BSig)
    (hok : (applyOp s (.swap ps outs v)).2 = .sigs (.ok sigs)) :
    (ps.map (·.secret)).Nodup ∧
    (∀ p ∈ ps, p.secret ∉ ysOf s.w.db.spent ∧ p.secret ∉ ysOf s.w.db.pending) ∧
    (∀ p ∈ ps, p.secret ∈ ysOf (applyOp s (.swap ps outs v)).1.w.db.spent) := by
  obtain ⟨ln', hrun, _⟩ := Sess.runPM_bridge s (swap (cxOf s) ps outs v) [] hf
  simp only [applyOp] at hok ⊢
  rcases swap_cases _ ps outs v _ _ _ hrun with ⟨e, hr, _⟩ | ⟨sigs', _, hk⟩
  · rw [hr] at hok; cases hok
  · obtain ⟨_, h2, h3, _⟩ := verifySpec_ok_fresh hk.verified
    refine ⟨hk.distinct, fun p hp => ⟨h3 p hp, h2 p hp⟩, fun p hp => ?_⟩
    have hdb := hk.db
    simp only [] at hdb
    rw [hdb]
    simp only [ysOf_append, ysOf_rows, List.mem_append]
    exact Or.inr (List.mem_map.2 ⟨p, hp, rfl⟩)

/-- Once consumed, always refused: after ANY later sequential history (polls, melts, rotations, restarts …)
    a swap presenting a secret of the spent table is refused and changes nothing. -/
theorem consumed_rejected_forever {s : Sess} (hr : Reach s) (row : PRow) (h : row ∈ s.w.db.spent)
    (ops : List Op) (ha : ∀ op ∈ ops, op.arms = false) (ps : List Proof) (outs : List BMsg) (v : Option E)
    (hp : ∃ p ∈ ps, p.secret = row.y) :
    ∃ e, (applyOp (runOps s ops) (.swap ps outs v)).2 = .sigs (.error e) ∧
      (applyOp (runOps s ops) (.swap ps outs v)).1.w.db = (runOps s ops).w.db := by
  have hnf := (runOps_wf s ops ha hr.wf.2 hr.wf.1).2
  apply swap_rejects_used _ ps outs v hnf
  obtain ⟨p, hp, hpe⟩ := hp
  refine ⟨p, hp, Or.inr ?_⟩
  have := spent_forever_history row s ops h
  simp only [ysOf, List.mem_map]
  exact ⟨row, this, hpe.symm⟩

/-! Non-vacuity: a concrete reachable state in which a proof was swapped, and the replay is refused. -/
section example_
def k0 : Proof := { amount := 8, ks := .known 0, secret := 7, long := false, c := .sig 0 8 7, cEnc := 0, witness := 0, dleq := 0, lock := .plain }
def o0 : BMsg := { amount := 8, ks := .known 0, b := .pt 1, witness := 0 }
def o1 : BMsg := { amount := 8, ks := .known 0, b := .pt 2, witness := 0 }
def s1 : Sess := (applyOp (initSess 0 false {}) (.swap [k0] [o0] none)).1
example : (applyOp (initSess 0 false {}) (.swap [k0] [o0] none)).2 matches .sigs (.ok _) := by decide
example : ysOf s1.w.db.spent = [7] := by decide
example : (applyOp s1 (.swap [{ k0 with witness := 5, amount := 4 }] [o1] none)).2 matches .sigs (.error _) := by decide
end example_

/-! ## Concurrent requests, injected storage errors, process kills

  `CEvt` (Model/MintConc.lean) is the event alphabet the property quantifies over: requests become threads, the
  scheduler lets one thread perform ONE storage / Lightning call at a time, a call may fail, the process may be killed.
  What holds for EVERY such event sequence — with no assumption on the number of threads, the schedule or the inputs —
  is the storage-level half of the property; the request-level half ("at most one of two overlapping requests is
  accepted") is FALSE of the code (`schedules_full_false`), and holds when requests do not overlap (the theorems
  above). -/

/-- SPENT forever: under any interleaving, fault and crash history. -/
theorem spent_forever_schedule (row : PRow) (c : CSess) (evts : List CEvt) (h : row ∈ c.s.w.db.spent) :
    row ∈ (runCEvts c evts).s.w.db.spent := runCEvts_db (spent_mono_db row) c evts h

/-- The spent table never holds a secret twice, and the pending table never holds a secret twice: under any
    interleaving the unique keys of the two tables are the last line of defence and they always hold. -/
theorem spent_once_schedule (c : CSess) (evts : List CEvt) (h : (ysOf c.s.w.db.spent).Nodup) :
    (ysOf (runCEvts c evts).s.w.db.spent).Nodup := runCEvts_db spent_nodup_db c evts h

theorem locked_once_schedule (c : CSess) (evts : List CEvt) (h : (ysOf c.s.w.db.pending).Nodup) :
    (ysOf (runCEvts c evts).s.w.db.pending).Nodup := runCEvts_db pending_nodup_db c evts h

theorem spent_once_from_start (fee : UInt64) (pct : Bool) (cfg : Cfg) (evts : List CEvt) :
    (ysOf (runCEvts (initC fee pct cfg) evts).s.w.db.spent).Nodup :=
  spent_once_schedule _ evts (by simp [initC, initSess, ysOf])

/-- Whatever happened before — overlapping requests, faults, kills — a request that arrives when nothing else is
    running and presents a secret that is in the spent or the pending table is refused and changes nothing. -/
theorem used_refused_after_anything (c : CSess) (evts : List CEvt) (row : PRow) (h : row ∈ c.s.w.db.spent)
    (hf : NoFault (runCEvts c evts).s.w) (ps : List Proof) (outs : List BMsg) (v : Option E) (hp : ∃ p ∈ ps, p.secret = row.y) :
    ∃ e, (applyOp (runCEvts c evts).s (.swap ps outs v)).2 = .sigs (.error e) ∧
      (applyOp (runCEvts c evts).s (.swap ps outs v)).1.w.db = (runCEvts c evts).s.w.db := by
  apply swap_rejects_used _ ps outs v hf
  obtain ⟨p, hp, hpe⟩ := hp
  refine ⟨p, hp, Or.inr ?_⟩
  have := spent_forever_schedule row c evts h
  simp only [ysOf, List.mem_map]
  exact ⟨row, this, hpe.symm⟩

/-- A successful outgoing payment for invoice `hash` is in the backend's ledger. -/
def paidOut (c : CSess) (hash : Int) : Bool :=
  c.s.w.ln.calls.any (fun x => (x.kind == "SendPayment" || x.kind == "PayPartialAmount") && x.hash == hash && x.ans == "succ")

/-- Thread `tid` ACCEPTED its inputs: a swap that returned signatures, a melt that returned PAID / PENDING, or a
    melt for whose invoice a successful payment went out. -/
def accepted (c : CSess) (tid : Nat) : Bool :=
  finishedOk c tid ||
  match c.ops.find? (·.1 == tid) with
  | some (_, .melt q _ _ _) =>
    match c.s.w.db.meltQ.find? (fun m => (m.id : Int) == q) with
    | some m => paidOut c m.hash
    | none => false
  | _ => false

/-- The property's concurrent half, at full strength. -/
def schedules_full : Prop :=
  ∀ (evts : List CEvt) (t1 t2 sec : Nat), t1 ≠ t2 →
    sec ∈ presented (runCEvts (initC 0 false {}) evts) t1 → sec ∈ presented (runCEvts (initC 0 false {}) evts) t2 →
    accepted (runCEvts (initC 0 false {}) evts) t1 = true → accepted (runCEvts (initC 0 false {}) evts) t2 = true → False

namespace witness

/-- W1 (K1): a swap and a melt present secret 7.  The melt passes `verifyProofs` (3 calls), the swap runs to the end
    (signature for B_ 1 issued, 7 SPENT), the melt continues: `AddPendingProofs` succeeds (other table), the invoice is
    paid, `SaveProofs` fails on the unique key — too late. -/
def w1 : List CEvt :=
  [.seq (.extInvoice 0 8000), .seq (.meltQuote (.inv 0) true none), .script [.succ],
   .spawn 1 (.swap [k0] [o0] none), .spawn 2 (.melt 0 [k0] [] false)] ++
  List.replicate 3 (.step 2 false) ++ List.replicate 5 (.step 1 false) ++ List.replicate 8 (.step 2 false)

theorem w1_swap_accepted : finishedOk (runCEvts (initC 0 false {}) w1) 1 = true := by decide
theorem w1_melt_paid : paidOut (runCEvts (initC 0 false {}) w1) 0 = true := by decide
theorem w1_spent_once : ysOf (runCEvts (initC 0 false {}) w1).s.w.db.spent = [7] := by decide

/-- W2 (K2): two melts against two quotes present secret 7; the second passes `verifyProofs` before the first
    locks the secret and adds its own lock after the first has settled. -/
def w2 : List CEvt :=
  [.seq (.extInvoice 0 8000), .seq (.extInvoice 1 8000), .seq (.meltQuote (.inv 0) true none), .seq (.meltQuote (.inv 1) true none),
   .script [.succ, .succ], .spawn 1 (.melt 0 [k0] [] false), .spawn 2 (.melt 1 [k0] [] false)] ++
  List.replicate 3 (.step 2 false) ++ List.replicate 10 (.step 1 false) ++ List.replicate 8 (.step 2 false)

theorem w2_both_paid : paidOut (runCEvts (initC 0 false {}) w2) 0 = true ∧ paidOut (runCEvts (initC 0 false {}) w2) 1 = true := by decide
end witness

/-- What IS true of overlapping requests: swaps alone never double-spend.  In ANY event sequence — any number of
    threads of any kind (other swaps, melts, mints, polls), every schedule, injected storage errors, process kills,
    sequential operations in between — two different swap requests that both returned signatures presented disjoint
    secrets.  (Lemmas/SwapConc.lean: the swap program reaches a success only through a `SaveProofs(inputs)` call that
    returned ok — a syntactic fact about its decision tree — and that call succeeds only on secrets that are not in the
    spent table, which never shrinks.)  The double acceptances of `schedules_full_false` all involve a melt, whose
    Lightning payment is not tied to such a call. -/
theorem overlapping_swaps_never_share (fee : UInt64) (pct : Bool) (cfg : Cfg) (evts : List CEvt) (t1 t2 : Nat) (hne : t1 ≠ t2)
    (ps1 ps2 : List Proof) (outs1 outs2 : List BMsg) (v1 v2 : Option E) (sigs1 sigs2 : List BSig)
    (ho1 : (runCEvts (initC fee pct cfg) evts).ops.find? (·.1 == t1) = some (t1, Op.swap ps1 outs1 v1))
    (ho2 : (runCEvts (initC fee pct cfg) evts).ops.find? (·.1 == t2) = some (t2, Op.swap ps2 outs2 v2))
    (hr1 : threadResult (runCEvts (initC fee pct cfg) evts) t1 = some (.sigs (.ok sigs1)))
    (hr2 : threadResult (runCEvts (initC fee pct cfg) evts) t2 = some (.sigs (.ok sigs2))) :
    ∀ p1 ∈ ps1, ∀ p2 ∈ ps2, p1.secret ≠ p2.secret :=
  swaps_never_share fee pct cfg evts t1 t2 hne ps1 ps2 outs1 outs2 v1 v2 sigs1 sigs2 ho1 ho2 hr1 hr2

/-- Non-vacuity: in witness w1 the swap thread did return signatures (and the melt, not being a swap, is not covered). -/
example : ∃ sigs, threadResult (runCEvts (initC 0 false {}) witness.w1) 1 = some (.sigs (.ok sigs)) := ⟨_, rfl⟩

/-- The concurrent half of C01 is false of the code as it is: two overlapping requests can both be accepted
    (known findings `C01/sched/swap||melt/…`, `C01/sched/melt||melt/…`; replayed against the real mint by stream
    `mint-sched`, whose every step the model agrees with). -/
theorem schedules_full_false : ¬ schedules_full := by
  intro h
  exact h witness.w1 1 2 7 (by decide) (by decide) (by decide) (by decide) (by decide)

end Gonuts.Props.C01
