import Gonuts.Lemmas.MintSeq
/-!
  C01 — no double spend.  Theorems over `Model.Mint` (the mint after the `fix:` commits).

  * `spent_forever_*`, `spent_once_*`: hold for EVERY program, every interleaving (an interleaving is a
    sequence of single effects), every crash prefix and every injected storage fault.
  * `swap_rejects_used`, `melt_rejects_used`, `*_inputs_distinct`, `consumed_rejected_forever`: sequential,
    fault-free histories (requests do not overlap).
  * The interleaving window swap‖melt / melt‖melt (two tables, two transactions) is NOT excluded by any
    theorem here: see `Props/C01conc.lean` for the closed witnesses and the partial statement.
-/
namespace Gonuts.Props.C01
open Gonuts.Model Gonuts.Model.Mint

/-- A row of the spent table survives every single storage / Lightning effect, whatever it returns … -/
theorem spent_forever_effect (row : PRow) {β : Type} (w : World) (e : Eff β) (h : row ∈ w.db.spent) :
    row ∈ (exec w e).1.db.spent :=
  DbInv.effInv (spent_mono_db row) w e h

/-- … hence every program, also when it is killed after any number `n` of calls (crash), … -/
theorem spent_forever_crash (row : PRow) {α : Type} (p : Prog α) (n : Nat) (w : World) (h : row ∈ w.db.spent) :
    row ∈ (p.runN n w).1.db.spent :=
  EffInv.runN (P := fun w => row ∈ w.db.spent) (DbInv.effInv (spent_mono_db row)) p n w h

/-- … and every history of the sequential machine, including armed storage faults, rotations and restarts. -/
theorem spent_forever_history (row : PRow) (s : Sess) (ops : List Op) (h : row ∈ s.w.db.spent) :
    row ∈ (runOps s ops).w.db.spent :=
  runOps_db (spent_mono_db row) s ops h

/-- A spent secret is reported SPENT, with the witness it was spent with, by the state-check decision function. -/
theorem find_of_nodup (t : List PRow) (hn : (ysOf t).Nodup) (row : PRow) (h : row ∈ t) :
    t.find? (·.y == row.y) = some row := by
  induction t with
  | nil => cases h
  | cons x rest ih =>
    simp only [ysOf, List.map_cons, List.nodup_cons] at hn
    simp only [List.find?_cons]
    rcases List.mem_cons.1 h with rfl | hr
    · have : (row.y == row.y) = true := by simp
      rw [this]
    · have hx : x.y ≠ row.y := by
        intro he; apply hn.1; rw [he]; exact List.mem_map.2 ⟨row, hr, rfl⟩
      have : (x.y == row.y) = false := by simp [hx]
      rw [this]
      exact ih hn.2 hr

theorem spent_reported (db : DB) (hn : (ysOf db.spent).Nodup) (row : PRow) (h : row ∈ db.spent) :
    stateOf db.spent db.pending (.known row.y) = (.spent, row.witness) := by
  unfold stateOf
  simp [find_of_nodup db.spent hn row h]

/-- No secret is ever recorded as spent twice: every effect keeps the spent table duplicate-free
    (all programs, interleavings, crashes, faults) … -/
theorem spent_once_effect {β : Type} (w : World) (e : Eff β) (h : (ysOf w.db.spent).Nodup) :
    (ysOf (exec w e).1.db.spent).Nodup :=
  DbInv.effInv spent_nodup_db w e h

/-- … in particular in every state a sequential history reaches. -/
theorem spent_once_reachable {s : Sess} (h : Reach s) : (ysOf s.w.db.spent).Nodup := h.wf.1.spentNodup

/-- In sequential histories a secret is never both locked in a melt and spent. -/
theorem locked_not_spent {s : Sess} (h : Reach s) : ∀ r ∈ s.w.db.pending, r.y ∉ ysOf s.w.db.spent := h.wf.1.disjoint

/-- Swap: as soon as ONE input's secret is spent or locked by an in-flight melt — whatever its other fields
    (amount, witness, DLEQ, C, keyset id), wherever it sits in the list — the request is refused and no
    table changes. -/
theorem swap_rejects_used (s : Sess) (ps : List Proof) (outs : List BMsg) (v : Option E) (hf : NoFault s.w)
    (hused : ∃ p ∈ ps, p.secret ∈ ysOf s.w.db.pending ∨ p.secret ∈ ysOf s.w.db.spent) :
    ∃ e, (applyOp s (.swap ps outs v)).2 = .sigs (.error e) ∧ (applyOp s (.swap ps outs v)).1.w.db = s.w.db := by
  obtain ⟨ln', hrun, _⟩ := Sess.runPM_bridge s (swap (cxOf s) ps outs v) [] hf
  simp only [applyOp]
  rcases swap_cases _ ps outs v _ _ _ hrun with ⟨e, hr, hs⟩ | ⟨sigs, _, hok⟩
  · exact ⟨e, by rw [hr], congrArg Prod.fst hs⟩
  · exfalso
    obtain ⟨e, he⟩ := verifySpec_rejects_used (cxOf s) ps s.w.db hused
    have := hok.verified
    simp only [] at this
    rw [he] at this; cases this

/-- Melt: the same, against any melt quote. -/
theorem melt_rejects_used (s : Sess) (q : Int) (ps : List Proof) (script : List LnAns) (lnFail : Bool) (hf : NoFault s.w)
    (hused : ∃ p ∈ ps, p.secret ∈ ysOf s.w.db.pending ∨ p.secret ∈ ysOf s.w.db.spent) :
    ∃ e, (applyOp s (.melt q ps script lnFail)).2 = .melt (.error e) ∧
      (applyOp s (.melt q ps script lnFail)).1.w.db = s.w.db := by
  obtain ⟨ln', hrun, _⟩ := Sess.runPM_bridge
    { s with w := { s.w with ln := { s.w.ln with failInvoiceStatus := if lnFail then 1 else 0 } } }
    (meltTokens (cxOf s) q ps) script hf
  simp only [applyOp]
  rcases melt_cases _ q ps _ _ _ hrun with ⟨e, hr, hs⟩ | ⟨mq, hacc, _⟩
  · exact ⟨e, by rw [hr], congrArg Prod.fst hs⟩
  · exfalso
    obtain ⟨e, he⟩ := verifySpec_rejects_used (cxOf s) ps s.w.db hused
    have := hacc.verified
    simp only [] at this
    rw [he] at this; cases this

/-- A swap that returns signatures took pairwise distinct secrets (a duplicate inside one request — identical,
    or with a changed witness / DLEQ / amount — is never accepted), none of them spent or locked before, and
    every one of them is spent afterwards. -/
theorem swap_ok_consumes (s : Sess) (ps : List Proof) (outs : List BMsg) (v : Option E) (hf : NoFault s.w) (sigs : List BSig)
    (hok : (applyOp s (.swap ps outs v)).2 = .sigs (.ok sigs)) :
    (ps.map (·.secret)).Nodup ∧
    (∀ p ∈ ps, p.secret ∉ ysOf s.w.db.spent ∧ p.secret ∉ ysOf s.w.db.pending) ∧
    (∀ p ∈ ps, p.secret ∈ ysOf (applyOp s (.swap ps outs v)).1.w.db.spent) := by
  obtain ⟨ln', hrun, _⟩ := Sess.runPM_bridge s (swap (cxOf s) ps outs v) [] hf
  simp only [applyOp] at hok ⊢
  rcases swap_cases _ ps outs v _ _ _ hrun with ⟨e, hr, _⟩ | ⟨sigs', _, hk⟩
  · rw [hr] at hok; cases hok
  · obtain ⟨_, h2, h3, _⟩ := verifySpec_ok_fresh hk.verified
    refine ⟨hk.distinct, fun p hp => ⟨h3 p hp, h2 p hp⟩, fun p hp => ?_⟩
    have hdb := hk.db
    simp only [] at hdb
    rw [hdb]
    simp only [ysOf_append, ysOf_rows, List.mem_append]
    exact Or.inr (List.mem_map.2 ⟨p, hp, rfl⟩)

/-- Once consumed, always refused: after ANY later sequential history (polls, melts, rotations, restarts …)
    a swap presenting a secret of the spent table is refused and changes nothing. -/
theorem consumed_rejected_forever {s : Sess} (hr : Reach s) (row : PRow) (h : row ∈ s.w.db.spent)
    (ops : List Op) (ha : ∀ op ∈ ops, op.arms = false) (ps : List Proof) (outs : List BMsg) (v : Option E)
    (hp : ∃ p ∈ ps, p.secret = row.y) :
    ∃ e, (applyOp (runOps s ops) (.swap ps outs v)).2 = .sigs (.error e) ∧
      (applyOp (runOps s ops) (.swap ps outs v)).1.w.db = (runOps s ops).w.db := by
  have hnf := (runOps_wf s ops ha hr.wf.2 hr.wf.1).2
  apply swap_rejects_used _ ps outs v hnf
  obtain ⟨p, hp, hpe⟩ := hp
  refine ⟨p, hp, Or.inr ?_⟩
  have := spent_forever_history row s ops h
  simp only [ysOf, List.mem_map]
  exact ⟨row, this, hpe.symm⟩

/-! Non-vacuity: a concrete reachable state in which a proof was swapped, and the replay is refused. -/
section example_
def k0 : Proof := { amount := 8, ks := .known 0, secret := 7, long := false, c := .sig 0 8 7, cEnc := 0, witness := 0, dleq := 0, lock := .plain }
def o0 : BMsg := { amount := 8, ks := .known 0, b := .pt 1, witness := 0 }
def o1 : BMsg := { amount := 8, ks := .known 0, b := .pt 2, witness := 0 }
def s1 : Sess := (applyOp (initSess 0 false {}) (.swap [k0] [o0] none)).1
example : (applyOp (initSess 0 false {}) (.swap [k0] [o0] none)).2 matches .sigs (.ok _) := by decide
example : ysOf s1.w.db.spent = [7] := by decide
example : (applyOp s1 (.swap [{ k0 with witness := 5, amount := 4 }] [o1] none)).2 matches .sigs (.error _) := by decide
end example_

end Gonuts.Props.C01
