import Gonuts.Lemmas.MintSeq
/-!
  C16 — reported balances are exact and limits are enforced (model of the two SQL views, `TotalBalance`,
  `RequestMintQuote`, `RequestMeltQuote`, `RetrieveMintInfo`; `UInt64` semantics incl. Go's wrapping additions).
-/
namespace Gonuts.Props.C16
open Gonuts.Model Gonuts.Model.Mint

theorem mem_groupKeys (rows : List (Nat × UInt64)) (k : Nat) : k ∈ groupKeys rows ↔ k ∈ rows.map (·.1) := by
  induction rows with
  | nil => simp [groupKeys]
  | cons x rest ih =>
    obtain ⟨k0, v0⟩ := x
    simp only [groupKeys, List.map_cons, List.mem_cons]
    split
    · rename_i hc
      rw [ih]
      constructor
      · exact Or.inr
      · rintro (rfl | h)
        · exact ih.1 (by simpa using hc)
        · exact h
    · simp only [List.mem_cons, ih]

theorem groupKeys_nodup (rows : List (Nat × UInt64)) : (groupKeys rows).Nodup := by
  induction rows with
  | nil => simp [groupKeys]
  | cons x rest ih =>
    obtain ⟨k0, v0⟩ := x
    simp only [groupKeys]
    split
    · exact ih
    · rename_i hc
      exact List.nodup_cons.2 ⟨by simpa using hc, ih⟩

/-- The per-keyset view (`SELECT keyset_id, SUM(amount) … GROUP BY keyset_id`): exactly one row per keyset that has
    rows, carrying the true sum (ℕ) of that keyset's amounts; the query fails iff some sum reaches 2^63. -/
theorem groupSum_exact (rows : List (Nat × UInt64)) (out : List (Nat × UInt64)) (h : groupSum rows = .ok out) :
    (∀ k v, (k, v) ∈ out → v.toNat = sumBy k rows ∧ k ∈ rows.map (·.1)) ∧
    (∀ k ∈ rows.map (·.1), ∃ v, (k, v) ∈ out) ∧ (out.map (·.1)).Nodup := by
  unfold groupSum at h
  simp only [] at h
  split at h
  · cases h
  · rename_i hno
    injection h with h
    subst h
    have hlt : ∀ k ∈ groupKeys rows, sumBy k rows < 2 ^ 63 := by
      intro k hk
      have : ¬ (decide (sumBy k rows ≥ 2 ^ 63) = true) := by
        intro hh; apply hno; simp only [List.any_eq_true]; exact ⟨k, hk, hh⟩
      simpa using this
    refine ⟨?_, ?_, ?_⟩
    · intro k v hkv
      simp only [List.mem_map] at hkv
      obtain ⟨k', hk', he⟩ := hkv
      injection he with h1 h2
      subst h1
      refine ⟨?_, (mem_groupKeys rows k').1 hk'⟩
      rw [← h2]
      have := hlt k' hk'
      simp only [UInt64.toNat_ofNat']
      omega
    · intro k hk
      exact ⟨UInt64.ofNat (sumBy k rows), List.mem_map.2 ⟨k, (mem_groupKeys rows k).2 hk, rfl⟩⟩
    · simp only [List.map_map, Function.comp_def, List.map_id']
      exact groupKeys_nodup rows

/-- IssuedEcash / RedeemedEcash / TotalBalance / info: what the balance query reports is the two views over ALL
    stored signatures and ALL spent proofs, their (UInt64) difference, and `nut04.disabled` is true exactly when a
    maximum balance is configured and the balance has reached it. -/
theorem balance_report (cx : Cx) (s s' : DL) (b : Balance) (h : runM (balanceOp cx) s = (s', .ok b)) :
    s' = s ∧
    groupSum (s.1.sigs.map (fun x => (x.ks, x.amount))) = .ok b.issued ∧
    groupSum (s.1.spent.map (fun x => (ksIdx x.ks, x.amount))) = .ok b.redeemed ∧
    b.total = amountWrap (b.issued.map (·.2)) - amountWrap (b.redeemed.map (·.2)) ∧
    (b.disabled = true ↔ cx.cfg.maxBalance > 0 ∧ b.total ≥ cx.cfg.maxBalance) := by
  obtain ⟨hs, hb⟩ := balanceOp_cases cx s s' _ h
  obtain ⟨h1, h2, h3, h4⟩ := hb b rfl
  refine ⟨hs, h1, h2, ?_, ?_⟩
  · unfold balanceOf at h3
    rw [h1, h2] at h3
    simp only [] at h3
    injection h3 with h3
    exact h3.symm
  · rw [h4]; simp

/-- Mint quotes are created only within the limits: amount ≤ MaxAmount (when set) and, when a MaxBalance is set, the
    balance read from the tables plus the amount — in the `uint64` arithmetic of the Go — does not exceed it; the quote
    amount is below 2^63 (larger ones are refused by storage after an invoice was requested). -/
theorem mintquote_accept_only_if (cx : Cx) (qid : Nat) (amount : UInt64) (u : Bool) (pk : PkReq) (s s' : DL) (q : MintQ)
    (h : runM (requestMintQuote cx qid amount u pk) s = (s', .ok q)) :
    (cx.cfg.maxMint = 0 ∨ amount ≤ cx.cfg.maxMint) ∧
    (cx.cfg.maxBalance = 0 ∨ ∃ b, balanceOf s.1 = .ok b ∧ b + amount ≤ cx.cfg.maxBalance) ∧
    amount.toNat < 2 ^ 63 ∧ q.amount = amount ∧ q.state = .unpaid := by
  rcases requestMintQuote_cases cx qid amount u pk s s' _ h with ⟨e, he, _⟩ | ⟨q', he, hok⟩
  · cases he
  · injection he with he; subst he
    refine ⟨?_, ?_, ?_, ?_, ?_⟩
    · have := hok.maxMint
      by_cases hz : cx.cfg.maxMint = 0
      · exact Or.inl hz
      · right
        have hpos : cx.cfg.maxMint > 0 := by
          rw [gt_iff_lt, UInt64.lt_iff_toNat_lt]
          have : cx.cfg.maxMint.toNat ≠ 0 := fun h0 => hz (UInt64.toNat_inj.1 (by simpa using h0))
          simp; omega
        have : ¬ amount > cx.cfg.maxMint := fun hg => this ⟨hpos, hg⟩
        rw [gt_iff_lt, UInt64.lt_iff_toNat_lt] at this
        rw [UInt64.le_iff_toNat_le]; omega
    · have := hok.maxBalance
      unfold balCheck at this
      by_cases hz : cx.cfg.maxBalance = 0
      · exact Or.inl hz
      · right
        have hpos : cx.cfg.maxBalance > 0 := by
          rw [gt_iff_lt, UInt64.lt_iff_toNat_lt]
          have : cx.cfg.maxBalance.toNat ≠ 0 := fun h0 => hz (UInt64.toNat_inj.1 (by simpa using h0))
          simp; omega
        simp only [hpos, if_true] at this
        cases hb : balanceOf s.1 with
        | error e => simp only [hb] at this; cases this
        | ok b =>
          simp only [hb] at this
          split at this
          · cases this
          · rename_i hle
            refine ⟨b, rfl, ?_⟩
            rw [gt_iff_lt, UInt64.lt_iff_toNat_lt] at hle
            rw [UInt64.le_iff_toNat_le]; omega
    · have := hok.low
      unfold high at this
      simp only [decide_eq_false_iff_not, ge_iff_le, UInt64.not_le, UInt64.lt_iff_toNat_lt] at this
      have e2 : (0x8000000000000000 : UInt64).toNat = 2 ^ 63 := by decide
      omega
    · rw [hok.quote]
    · rw [hok.quote]

/-- Melt quotes are created only within the melt maximum (on the quoted amount, MPP included). -/
theorem meltquote_accept_only_if (cx : Cx) (qid : Nat) (inv : InvReq) (m : Nat → UInt64) (u : Bool) (mpp : Option UInt64)
    (s s' : DL) (q : MeltQ) (h : runM (requestMeltQuote cx qid inv m u mpp) s = (s', .ok q)) :
    cx.cfg.maxMelt = 0 ∨ q.amount ≤ cx.cfg.maxMelt := by
  rcases requestMeltQuote_cases cx qid inv m u mpp s s' _ h with ⟨e, he, _⟩ | ⟨ii, hh, q', _, he, hok⟩
  · cases he
  · injection he with he; subst he
    have := hok.maxMelt
    by_cases hz : cx.cfg.maxMelt = 0
    · exact Or.inl hz
    · right
      have hpos : cx.cfg.maxMelt > 0 := by
        rw [gt_iff_lt, UInt64.lt_iff_toNat_lt]
        have : cx.cfg.maxMelt.toNat ≠ 0 := fun h0 => hz (UInt64.toNat_inj.1 (by simpa using h0))
        simp; omega
      have : ¬ q.amount > cx.cfg.maxMelt := fun hg => this ⟨hpos, hg⟩
      rw [gt_iff_lt, UInt64.lt_iff_toNat_lt] at this
      rw [UInt64.le_iff_toNat_le]; omega

/-- The wrap-around corner of the balance limit, stated, not hidden: `balance + amount` is a `uint64` addition; it can
    only wrap for amounts ≥ 2^63 − balance … which `mintquote_accept_only_if` shows are never stored (amount < 2^63 and
    a balance read from signed SQLite integers is < 2^63), so for accepted quotes the comparison is exact in ℕ. -/
theorem balance_limit_exact (b amount max : UInt64) (hb : b.toNat < 2 ^ 63) (ha : amount.toNat < 2 ^ 63)
    (h : b + amount ≤ max) : b.toNat + amount.toNat ≤ max.toNat := by
  rw [UInt64.le_iff_toNat_le, UInt64.toNat_add] at h
  have : (b.toNat + amount.toNat) % 2 ^ 64 = b.toNat + amount.toNat := Nat.mod_eq_of_lt (by omega)
  omega

example : (groupSum [(0, 8), (1, 4), (0, 16)]).toOption = some [(1, 4), (0, 24)] := by decide

end Gonuts.Props.C16
