import Gonuts.Lemmas.WalletWire
/-!
  C08 — unlinkability: the mint never receives a blinding factor.

  `Model.WalletWire` renders every request body a wallet sends as a tagged tree.  `Req.Secure r` says: no leaf of
  `r.body` is tagged `blindingFactor _`, and a leaf showing a secret in clear (`outputSecret s` / `inputSecret s`)
  sits at `inputs[].secret` and `s` is the secret of a proof that is an input of that very request.
  `Req.NoTranscript r` says in addition that no leaf is the mint's own DLEQ transcript `(e, s)`, which identifies the
  blind signature it was issued with just as well as r does.

  History: the code used to violate the property (finding F5): `constructProofs` stores `DLEQ{E,S,R}` on every proof,
  tokens deliver proofs with `dleq{e,s,r}`, and `swap()`, `swapToSend`, `Melt` and `swapProofs` put those proofs as
  they were into `PostSwapRequest.Inputs` / `PostMeltBolt11Request.Inputs`, whose JSON encoding emits `dleq` whenever
  the pointer is set.  Since the `fix:` commit the four sites send `inputsWithoutDLEQ(..)` copies; the model follows the
  fixed code (Tie.WalletWire pins the four literals), the full statement is a theorem, and the former witnesses are
  kept as regression examples that now evaluate to "clean".
-/
namespace Gonuts.Props.C08
open Gonuts.Model.WalletWire

/-! ## the theorem -/

/-- **C08.**  For EVERY wallet state (stored / pending proofs with and without DLEQ, with and without r), every
    operation path of the quantifier — mint, send with and without swap, locked sends, receive (kept, swapped to the
    trusted mint, P2PK with and without SIG_ALL), HTLC receive, melt with NUT-08 blank outputs, mint-to-mint swap,
    reclaim, remove-spent, restore, quotes — every selection, split, token, every answer of the mint and every error:
    no request contains a leaf tagged `blindingFactor _`, and a secret in clear occurs only at `inputs[].secret` and
    only where the proof with that secret is an input of that very request. -/
theorem C08_no_secret_leaf (st : WState) (op : Op) : ∀ r ∈ (step st op).1, r.Secure :=
  fun r hr => (step_ok st op r hr).1

/-- the same over whole histories (any number of operations, the state evolving as the wallet's does) -/
theorem C08_no_secret_leaf_hist (st : WState) (ops : List Op) : ∀ r ∈ runHist st ops, r.Secure :=
  fun r hr => (runHist_ok st ops r hr).1

/-- unfolded: what `Secure` means, leaf by leaf -/
theorem C08_no_secret_leaf_unfolded (st : WState) (ops : List Op) (r : Req) (hr : r ∈ runHist st ops)
    (path : Path) (l : Leaf) (hl : (path, l) ∈ r.body.leaves) :
    (∀ x, l ≠ .blindingFactor x) ∧
    (∀ s, (l = .outputSecret s ∨ l = .inputSecret s) → path = ["inputs", "[]", "secret"] ∧ ∃ p ∈ r.inputs, p.secret = s) := by
  have h := C08_no_secret_leaf_hist st ops r hr (path, l) hl
  refine ⟨h.1, fun s hs => h.2 s ?_⟩
  rcases hs with rfl | rfl <;> rfl

/-- the mint's own DLEQ transcript (e, s) never travels either -/
theorem C08_no_dleq_transcript (st : WState) (ops : List Op) : ∀ r ∈ runHist st ops, r.NoTranscript :=
  fun r hr => (runHist_ok st ops r hr).2

/-- the copies that are sent are the same proofs otherwise (amount, keyset, secret, witness, order): the fix removes
    the DLEQ and nothing else -/
theorem C08_only_dleq_removed (ps : List WProof) :
    (inputsWithoutDLEQ ps).map (fun p => (p.amount, p.id, p.secret, p.witness)) =
      ps.map (fun p => (p.amount, p.id, p.secret, p.witness)) := inputsWithoutDLEQ_same ps

/-! ## why every one of the four sites needs the copy: exact conditions on what is passed as `Inputs:` -/

/-- a swap request is secure iff none of the proofs passed as `Inputs:` carries r -/
theorem C08_swap_exact (ins : List WProof) (outs : List Output) : (postSwapReq ins outs).Secure ↔ NoRs ins :=
  secure_postSwapReq_iff ins outs

/-- a melt request is secure iff none of the proofs passed as `Inputs:` carries r -/
theorem C08_melt_exact (q : String) (ins : List WProof) (outs : List Output) : (postMeltReq q ins outs).Secure ↔ NoRs ins :=
  secure_postMeltReq_iff q ins outs

/-- a swap request is free of the mint's transcript iff none of the proofs passed as `Inputs:` has a DLEQ -/
theorem C08_swap_transcript_exact (ins : List WProof) (outs : List Output) :
    (postSwapReq ins outs).NoTranscript ↔ NoDLEQs ins := noTranscript_postSwapReq_iff ins outs

/-! ## regression: the former witnesses of F5 -/

/-- a fresh wallet mints 8 sat (the mint answers with NUT-12 DLEQs, as gonuts' mint always does) and then sends 3
    through a swap -/
def witnessHist : List Op :=
  [ .mintTokens "q1" (some (some true)) true [{ amount := 8, id := "ks", secret := 1, r := 101 }]
      (some [{ amount := 8, id := "ks", dleq := some (11, 12) }]),
    .send (.viaSwap [{ amount := 8, id := "ks", secret := 1, dleq := some { e := 11, s := 12, r := some 101 } }]
      [{ amount := 1, id := "ks", secret := 2, r := 102 }, { amount := 2, id := "ks", secret := 3, r := 103 }]
      [{ amount := 1, id := "ks", secret := 4, r := 104 }, { amount := 4, id := "ks", secret := 5, r := 105 }]
      none) ]

/-- the proof the second operation selects is exactly what the first one stored: WITH `dleq{e,s,r}` -/
example : (step {} witnessHist[0]).2.store =
    [{ amount := 8, id := "ks", secret := 1, dleq := some { e := 11, s := 12, r := some 101 } }] := by decide

/-- what the wallet would send WITHOUT the copy (the code before the fix) is not secure: r = 101 at `inputs[].dleq.r` -/
example : (["inputs", "[]", "dleq", "r"], Leaf.blindingFactor 101) ∈
    (postSwapReq [{ amount := 8, id := "ks", secret := 1, dleq := some { e := 11, s := 12, r := some 101 } }] []).body.leaves := by
  decide
example : ¬ (postSwapReq [{ amount := 8, id := "ks", secret := 1, dleq := some { e := 11, s := 12, r := some 101 } }] []).Secure := by
  decide

/-- the history that leaked now sends three requests (GET quote, POST mint, POST swap), none with a blinding factor
    or a transcript leaf, and the swap still spends the proof with secret 1 -/
example : (runHist {} witnessHist).map (fun r => (r.ep, r.body.leaves.any (·.2.isBlinding), r.body.leaves.any (·.2.isTranscript),
      r.inputs.map (·.secret))) =
    [(.get "mintquote", false, false, []), (.mint, false, false, []), (.swap, false, false, [1])] := by decide
example : ∀ r ∈ runHist {} witnessHist, r.Unlinkable := by decide

/-- one former witness per request site (state: one stored proof with DLEQ; token: one proof with DLEQ) -/
def leaky : WProof := { amount := 8, id := "ks", secret := 1, dleq := some { e := 11, s := 12, r := some 101 } }

/-- `swap()` via Receive of a token that includes DLEQs -/
example : ∀ r ∈ (step {} (.receive [leaky] { outs := [{ amount := 8, id := "ks", secret := 2, r := 102 }] })).1,
    r.Unlinkable := by decide
/-- `swap()` via ReceiveHTLC -/
example : ∀ r ∈ (step {} (.receiveHTLC [leaky] true true false
    [{ amount := 8, id := "ks", secret := 2, r := 102 }] none)).1, r.Unlinkable := by decide
/-- `swapToSend` via SendToPubkey / HTLCLockedProofs -/
example : ∀ r ∈ (step { store := [leaky] } (.sendLocked true [leaky]
    [{ amount := 8, id := "ks", secret := 2, r := 102 }] [] none)).1, r.Unlinkable := by decide
/-- `Melt` with an exact selection -/
example : ∀ r ∈ (step { store := [leaky] } (.melt "q" none (.exact [leaky]) [] .pending)).1, r.Unlinkable := by decide
/-- `swapProofs` via MintSwap -/
example : ∀ r ∈ (step { store := [leaky] } (.mintSwap (.exact [leaky]) {})).1, r.Unlinkable := by decide
/-- `swapProofs` via Receive(token, swapToTrusted = true) -/
example : ∀ r ∈ (step {} (.receive [leaky] { swapToTrusted := true })).1, r.Unlinkable := by decide
/-- `Melt` whose selection goes through swapToSend: the mint answers the swap with DLEQs, `constructProofs` attaches r,
    the fresh proofs are the inputs of the melt request — without their DLEQ -/
example :
    ((step { store := [{ amount := 8, id := "ks", secret := 1 }] }
      (.melt "q" none (.viaSwap [{ amount := 8, id := "ks", secret := 1 }]
        [{ amount := 4, id := "ks", secret := 2, r := 102 }] [{ amount := 4, id := "ks", secret := 3, r := 103 }]
        (some [{ amount := 4, id := "ks", dleq := some (21, 22) }, { amount := 4, id := "ks", dleq := some (31, 32) }]))
        [] .pending)).1.map fun r => (r.ep, decide r.Unlinkable, r.inputs.map fun p => (p.secret, p.dleq))) =
      [(.swap, true, [(1, none)]), (.melt, true, [(2, none)])] := by decide

/-- reclaiming a pending proof that carries `dleq{e,s,r}`: a state check and a swap whose input has no `dleq` -/
example :
    let m : PendingMint := { proofs := [leaky], unspent := [leaky], outs := [{ amount := 8, id := "ks", secret := 2, r := 102 }] }
    ((step { pending := [leaky] } (.reclaim [m])).1.map
        fun r => (r.ep, r.body.leaves.any (·.2.isBlinding), r.inputs.map (·.dleq))) =
    [(.checkState, false, []), (.swap, false, [none])] := by decide

/-- non-vacuity of the quantifier: a P2PK SIG_ALL token redeemed with swap to the trusted mint sends nine requests
    over five endpoints of two mints; the witnesses added by the wallet are there, the DLEQs are not -/
example :
    let o : ReceiveOracle := { p2pk := true, sigAll := true, swapToTrusted := true, outs := [{ amount := 8, id := "ks", secret := 2, r := 102 }], ans := some [{ amount := 8, id := "ks", dleq := some (21, 22) }], trusted := { retries := 1, mintOuts := [{ amount := 7, id := "kt", secret := 3, r := 103 }] } }
    ((step {} (.receive [leaky] o)).1.map fun r => (r.ep, r.inputs.map fun p => (p.secret, p.witness, p.dleq))) =
    [(.get "keysets", []), (.swap, [(1, true, none)]), (.mintQuote, []), (.meltQuote, []), (.mintQuote, []),
     (.meltQuote, []), (.melt, [(2, false, none)]), (.get "mintquote", []), (.mint, [])] := by decide

/-! ## blinding factors do occur: in values returned to the caller -/

/-- `Send` hands the caller proofs WITH `dleq{e,s,r}` (so a recipient can verify them) ... -/
example :
    ((send {} (.viaSwap [] [{ amount := 1, id := "ks", secret := 2, r := 102 }] []
        (some [{ amount := 1, id := "ks", dleq := some (5, 6) }]))).ret.map fun ps => ps.map (·.dleq)) =
      some [some { e := 5, s := 6, r := some 102 }] := by decide

/-- ... an exact selection hands over the stored proofs themselves, untouched by the copies made for requests ... -/
theorem C08_send_returns_stored (st : WState) (sel : List WProof) : (send st (.exact sel)).ret = some sel := rfl

/-- ... a token for the recipient shows r exactly when the caller asks for DLEQs ... -/
theorem C08_token_includes_r (ps : List WProof) (p : WProof) (hp : p ∈ ps) (d : DLEQ) (r : Nat)
    (hd : p.dleq = some d) (hr : d.r = some r) :
    (["token", "[]", "proofs", "[]", "dleq", "r"], Leaf.blindingFactor r) ∈ (newTokenV3 ps true).leaves :=
  newTokenV3_includes ps p hp d r hd hr

/-- ... and never when built with includeDLEQ = false -/
theorem C08_token_strips_r (ps : List WProof) : ∀ pl ∈ (newTokenV3 ps false).leaves, pl.2.isBlinding = false :=
  newTokenV3_strip ps

example : (newTokenV4 [leaky] true).map (fun t => t.leaves.any (·.2.isBlinding)) = some true := by decide
example : (newTokenV4 [leaky] false).map (fun t => t.leaves.any (·.2.isBlinding)) = some false := by decide
/-- NewTokenV4 refuses a DLEQ without r when asked to include DLEQs -/
example : (newTokenV4 [{ leaky with dleq := some { e := 1, s := 2, r := none } }] true).isNone = true := by decide

end Gonuts.Props.C08
