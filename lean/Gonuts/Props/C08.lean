import Gonuts.Lemmas.WalletWire
/-!
  C08 — unlinkability: the mint never receives a blinding factor.

  `Model.WalletWire` renders every request body a wallet sends as a tagged tree.  `Req.Secure r` says: no leaf of
  `r.body` is tagged `blindingFactor _`, and a leaf showing a secret in clear (`outputSecret s` / `inputSecret s`)
  sits at `inputs[].secret` and `s` is the secret of a proof that is an input of that very request.

  THE CODE AS IT IS VIOLATES THE PROPERTY (finding F5): `constructProofs` stores `DLEQ{E,S,R}` on every proof, tokens
  deliver proofs with `dleq{e,s,r}`, and `swap()`, `swapToSend`, `Melt` and `swapProofs` put those proofs as they are
  into `PostSwapRequest.Inputs` / `PostMeltBolt11Request.Inputs`, whose JSON encoding emits `dleq` whenever the pointer
  is set.  Hence: the full statement is a `def`, refuted by closed witnesses; the partial theorem carries the exact
  extra hypotheses; the paths that are safe today are proved without hypotheses.
-/
namespace Gonuts.Props.C08
open Gonuts.Model.WalletWire

/-! ## the full statement -/

/-- for EVERY wallet state (stored / pending proofs with and without DLEQ), every history of operation paths (every
    selection, split, token, mint answer, error), every request is secure -/
def C08_no_secret_leaf_full : Prop :=
  ∀ (st : WState) (ops : List Op), ∀ r ∈ runHist st ops, r.Secure

/-- the same with the mint's own DLEQ transcript (e, s): it identifies the blind signature just as well as r does -/
def C08_no_dleq_transcript_full : Prop :=
  ∀ (st : WState) (ops : List Op), ∀ r ∈ runHist st ops, r.NoTranscript

/-! ## witnesses: the code as it is sends `dleq{e,s,r}` -/

/-- a fresh wallet mints 8 sat (the mint answers with NUT-12 DLEQs, as gonuts' mint always does) and then sends 3
    through a swap -/
def witnessHist : List Op :=
  [ .mintTokens "q1" (some (some true)) true [{ amount := 8, id := "ks", secret := 1, r := 101 }]
      (some [{ amount := 8, id := "ks", dleq := some (11, 12) }]),
    .send (.viaSwap [{ amount := 8, id := "ks", secret := 1, dleq := some { e := 11, s := 12, r := some 101 } }]
      [{ amount := 1, id := "ks", secret := 2, r := 102 }, { amount := 2, id := "ks", secret := 3, r := 103 }]
      [{ amount := 1, id := "ks", secret := 4, r := 104 }, { amount := 4, id := "ks", secret := 5, r := 105 }]
      none) ]

/-- the proof the second operation selects is exactly what the first one stored -/
example : (step {} witnessHist[0]).2.store =
    [{ amount := 8, id := "ks", secret := 1, dleq := some { e := 11, s := 12, r := some 101 } }] := by decide

/-- the swap request of `Send` carries the blinding factor of the proof being spent at `inputs[].dleq.r` -/
theorem witness_leaks :
    ∃ r ∈ runHist {} witnessHist, r.ep = .swap ∧
      (["inputs", "[]", "dleq", "r"], Leaf.blindingFactor 101) ∈ r.body.leaves := by decide

theorem C08_no_secret_leaf_full_false : ¬ C08_no_secret_leaf_full := by
  intro h
  have := h {} witnessHist
  revert this
  decide

theorem C08_no_dleq_transcript_full_false : ¬ C08_no_dleq_transcript_full := by
  intro h
  have := h {} witnessHist
  revert this
  decide

/-- one witness per request site (state: one stored proof with DLEQ; token: one proof with DLEQ) -/
def leaky : WProof := { amount := 8, id := "ks", secret := 1, dleq := some { e := 11, s := 12, r := some 101 } }

/-- `swap()` via Receive of a token that includes DLEQs -/
theorem witness_receive : ¬ ∀ r ∈ (step {} (.receive [leaky] { outs := [{ amount := 8, id := "ks", secret := 2, r := 102 }] })).1,
    r.Secure := by decide
/-- `swap()` via ReceiveHTLC -/
theorem witness_receiveHTLC : ¬ ∀ r ∈ (step {} (.receiveHTLC [leaky] true true false
    [{ amount := 8, id := "ks", secret := 2, r := 102 }] none)).1, r.Secure := by decide
/-- `swapToSend` via SendToPubkey / HTLCLockedProofs -/
theorem witness_sendLocked : ¬ ∀ r ∈ (step { store := [leaky] } (.sendLocked true [leaky]
    [{ amount := 8, id := "ks", secret := 2, r := 102 }] [] none)).1, r.Secure := by decide
/-- `Melt` with an exact selection -/
theorem witness_melt : ¬ ∀ r ∈ (step { store := [leaky] } (.melt "q" none (.exact [leaky]) [] .pending)).1,
    r.Secure := by decide
/-- `swapProofs` via MintSwap -/
theorem witness_mintSwap : ¬ ∀ r ∈ (step { store := [leaky] } (.mintSwap (.exact [leaky]) {})).1,
    r.Secure := by decide
/-- `swapProofs` via Receive(token, swapToTrusted = true) -/
theorem witness_receiveTrusted : ¬ ∀ r ∈ (step {} (.receive [leaky] { swapToTrusted := true })).1,
    r.Secure := by decide
/-- `Melt` from a wallet WITHOUT any DLEQ: the selection goes through swapToSend, the mint answers the swap with
    DLEQs, `constructProofs` attaches r, and the fresh proofs go straight into the melt request -/
theorem witness_melt_fresh_proofs :
    ¬ ∀ r ∈ (step { store := [{ amount := 8, id := "ks", secret := 1 }] }
      (.melt "q" none (.viaSwap [{ amount := 8, id := "ks", secret := 1 }]
        [{ amount := 4, id := "ks", secret := 2, r := 102 }] [{ amount := 4, id := "ks", secret := 3, r := 103 }]
        (some [{ amount := 4, id := "ks", dleq := some (21, 22) }, { amount := 4, id := "ks", dleq := some (31, 32) }]))
        [] .pending)).1, r.Secure := by decide

/-! ## the partial theorem: exact extra hypotheses -/

/-- One operation from a wallet whose stored proofs carry no blinding factor (no DLEQ, or a DLEQ without r),
    redeeming a token whose proofs carry none, with mint answers inside the operation that carry no DLEQ:
    every request is secure.  (Each hypothesis is necessary: `witness_melt`, `witness_receive`,
    `witness_melt_fresh_proofs`.) -/
theorem C08_no_secret_leaf_partial (st : WState) (op : Op)
    (hsel : ∀ p ∈ op.walletInputs, p ∈ st.store) (hstore : NoRs st.store) (htoken : NoRs (op.token))
    (hmid : ∀ sg ∈ op.midSigs, sg.dleq = none) :
    ∀ r ∈ (step st op).1, r.Secure := by
  have hin : NoRs (op.walletInputs) := fun p hp => hstore p (hsel p hp)
  cases op with
  | requestMint a => simpa [step] using secure_postMintQuoteReq a
  | requestMeltQuote => simpa [step] using secure_postMeltQuoteReq
  | checkMeltQuoteState => simpa [step] using secure_getReq _
  | mintTokens q qs sg outs ans => exact mintTokens_secure st q qs sg outs ans
  | send sel =>
    -- only the inputs matter for Send: the proofs of the answer go to the caller
    simp only [step, send_reqs]
    refine (getProofsForAmount_secure st sel).2 ?_
    cases sel <;> first | trivial | exact hin
  | sendLocked ok pts s c ans => exact sendLocked_secure st ok pts s c ans hin
  | receive tok o =>
    refine receive_secure st tok o htoken ?_
    intro h1 h2 h3 sigs hs sg hsg
    refine hmid sg ?_
    simp [Op.midSigs, h1, h2, h3, hs, hsg]
  | receiveHTLC tok d h sa outs ans => exact receiveHTLC_secure st tok d h sa outs ans htoken
  | melt q pc sel blanks ans =>
    refine melt_secure st q pc sel blanks ans (sel_clean sel hin ?_)
    intro pts s c sigs hs sg hsg
    subst hs
    exact hmid sg (by simpa [Op.midSigs] using hsg)
  | mintSwap sel o =>
    refine mintSwap_secure st sel o (sel_clean sel hin ?_)
    intro pts s c sigs hs sg hsg
    subst hs
    exact hmid sg (by simpa [Op.midSigs] using hsg)
  | reclaim ms => exact reclaimUnspentProofs_secure st ms
  | removeSpent ms => exact removeSpentProofs_secure st ms
  | restore bs =>
    simp only [step]
    intro r hr
    simp only [List.mem_cons] at hr
    rcases hr with rfl | rfl | rfl | hr
    · exact secure_getReq _
    · exact secure_getReq _
    · exact secure_getReq _
    · exact restoreBatches_secure bs r hr

/-- non-vacuity of the partial theorem: a wallet with a DLEQ-less proof and a proof whose DLEQ has no r sends 3 through
    a swap; the hypotheses hold and a swap request with two inputs is sent -/
example :
    let st : WState := { store := [{ amount := 8, id := "ks", secret := 1 },
                                   { amount := 2, id := "ks", secret := 6, dleq := some { e := 1, s := 2, r := none } }] }
    let op : Op := .send (.viaSwap st.store [{ amount := 1, id := "ks", secret := 2, r := 102 }] [] none)
    (∀ p ∈ op.walletInputs, p ∈ st.store) ∧ NoRs st.store ∧ NoRs op.token ∧ (∀ sg ∈ op.midSigs, sg.dleq = none) ∧
    ((step st op).1.map (·.inputs.length)) = [2] := by
  refine ⟨by decide, by decide, by decide, by decide, by decide⟩

/-! ## paths that are safe on the code as it is, for every state and every answer -/

/-- minting, quotes, state checks, reclaiming and restoring never send a blinding factor or a secret that is not an
    input: `MintTokens` sends blinded messages only, `ReclaimUnspentProofs` rebuilds its inputs without the DLEQ,
    `RemoveSpentProofs` sends `Y`s, `Restore` sends `B_` only -/
theorem C08_safe_paths (st : WState) (op : Op) (h : op.safePath = true) : ∀ r ∈ (step st op).1, r.Secure := by
  cases op <;> simp only [Op.safePath, Bool.false_eq_true] at h
  case requestMint a => simpa [step] using secure_postMintQuoteReq a
  case requestMeltQuote => simpa [step] using secure_postMeltQuoteReq
  case checkMeltQuoteState => simpa [step] using secure_getReq _
  case mintTokens q qs sg outs ans => exact mintTokens_secure st q qs sg outs ans
  case reclaim ms => exact reclaimUnspentProofs_secure st ms
  case removeSpent ms => exact removeSpentProofs_secure st ms
  case restore bs =>
    have : AllSecure (getReq "info" :: getReq "keysets" :: getReq "keys" :: restoreBatches bs) := by
      simp [secure_getReq, restoreBatches_secure]
    exact this

/-- non-vacuity: reclaiming a pending proof that carries `dleq{e,s,r}` sends a state check and a swap whose input has
    no `dleq` -/
example :
    let m : PendingMint := { proofs := [leaky], unspent := [leaky], outs := [{ amount := 8, id := "ks", secret := 2, r := 102 }] }
    ((step { pending := [leaky] } (.reclaim [m])).1.map
        fun r => (r.ep, r.body.leaves.any (·.2.isBlinding), r.inputs.map (·.dleq))) =
    [(.checkState, false, []), (.swap, false, [none])] := by decide

/-! ## blinding factors do occur: in values returned to the caller -/

/-- `Send` hands the caller proofs WITH `dleq{e,s,r}` (so a recipient can verify them) ... -/
example :
    ((send {} (.viaSwap [] [{ amount := 1, id := "ks", secret := 2, r := 102 }] []
        (some [{ amount := 1, id := "ks", dleq := some (5, 6) }]))).ret.map fun ps => ps.map (·.dleq)) =
      some [some { e := 5, s := 6, r := some 102 }] := by decide

/-- ... a token for the recipient shows r exactly when the caller asks for DLEQs ... -/
theorem C08_token_includes_r (ps : List WProof) (p : WProof) (hp : p ∈ ps) (d : DLEQ) (r : Nat)
    (hd : p.dleq = some d) (hr : d.r = some r) :
    (["token", "[]", "proofs", "[]", "dleq", "r"], Leaf.blindingFactor r) ∈ (newTokenV3 ps true).leaves :=
  newTokenV3_includes ps p hp d r hd hr

/-- ... and never when built with includeDLEQ = false -/
theorem C08_token_strips_r (ps : List WProof) : ∀ pl ∈ (newTokenV3 ps false).leaves, pl.2.isBlinding = false :=
  newTokenV3_strip ps

example : (newTokenV4 [leaky] true).map (fun t => t.leaves.any (·.2.isBlinding)) = some true := by decide
example : (newTokenV4 [leaky] false).map (fun t => t.leaves.any (·.2.isBlinding)) = some false := by decide
/-- NewTokenV4 refuses a DLEQ without r when asked to include DLEQs -/
example : (newTokenV4 [{ leaky with dleq := some { e := 1, s := 2, r := none } }] true).isNone = true := by decide

end Gonuts.Props.C08
