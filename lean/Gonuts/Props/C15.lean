import Gonuts.Lemmas.MintSeq
import Gonuts.Props.C01
/-!
  C15 — state check and restore tell the truth.  The answers are decided by the tables; the tables are what the
  operations wrote: every issuance path stores the signatures it returns, every spend path stores the inputs with the
  witness they were spent with, a stored signature or spent row is never altered (all interleavings, crashes, faults).
-/
namespace Gonuts.Props.C15
open Gonuts.Model Gonuts.Model.Mint

/-- State check: same length, same order; entry i is decided by the WHOLE tables as they are after the pending melts
    among the requested Ys were re-polled (known, unknown, repeated and malformed Ys alike). -/
theorem checkstate_truth (ys : List YRef) (s s' : DL) (res : List (PState × Nat))
    (h : runM (proofsStateCheck ys) s = (s', .ok res)) :
    res = ys.map (stateOf s'.1.spent s'.1.pending) ∧ res.length = ys.length := by
  rw [checkstate_runM] at h
  generalize runM (pollAll _) s = x at h
  obtain ⟨s1, r1⟩ := x
  cases r1 with
  | error e => cases h
  | ok u =>
    simp only [] at h
    injection h with h1 h2
    injection h2 with h2
    subst h1
    have : res = ys.map (stateOf s1.1.spent s1.1.pending) := by
      rw [← h2]
      apply List.map_congr_left
      intro y hy
      exact stateOf_filter _ _ ys y hy
    exact ⟨this, by rw [this, List.length_map]⟩

/-- What each entry means: SPENT with the stored witness iff the secret is in the spent table; otherwise PENDING with
    the witness iff it is locked by a melt; otherwise (incl. every unknown / malformed Y) UNSPENT. -/
theorem stateOf_meaning (db : DB) (hs : (ysOf db.spent).Nodup) (hp : (ysOf db.pending).Nodup) (y : Nat) :
    (∀ row ∈ db.spent, row.y = y → stateOf db.spent db.pending (.known y) = (.spent, row.witness)) ∧
    (y ∉ ysOf db.spent → ∀ row ∈ db.pending, row.y = y → stateOf db.spent db.pending (.known y) = (.pending, row.witness)) ∧
    (y ∉ ysOf db.spent → y ∉ ysOf db.pending → stateOf db.spent db.pending (.known y) = (.unspent, 0)) ∧
    (∀ t, stateOf db.spent db.pending (.unk t) = (.unspent, 0)) := by
  have none_of : ∀ (t : List PRow), y ∉ ysOf t → t.find? (·.y == y) = none := by
    intro t hn
    rw [List.find?_eq_none]
    intro r hr hre
    apply hn
    simp only [ysOf, List.mem_map]
    exact ⟨r, hr, by simpa using hre⟩
  refine ⟨?_, ?_, ?_, fun t => rfl⟩
  · intro row hr he
    subst he
    exact C01.spent_reported db hs row hr
  · intro hn row hr he
    subst he
    unfold stateOf
    simp only [none_of db.spent hn, C01.find_of_nodup db.pending hp row hr]
  · intro h1 h2
    unfold stateOf
    simp only [none_of db.spent h1, none_of db.pending h2]

/-- Restore: exactly the requested messages the mint has signed, in request order (repeats repeated), each with the
    stored (amount, keyset, C_); nothing for a message it never signed; nothing is written. -/
theorem restore_truth (bs : List Nat) (s : DL) :
    runM (restoreSigs bs) s = (s, .ok (bs.filterMap (fun b => s.1.sigs.find? (·.b == b)))) :=
  restore_runM bs s

theorem restore_only_signed (bs : List Nat) (s : DL) (sg : BSig)
    (h : sg ∈ bs.filterMap (fun b => s.1.sigs.find? (·.b == b))) : sg ∈ s.1.sigs ∧ sg.b ∈ bs := by
  obtain ⟨b, hb, hf⟩ := List.mem_filterMap.1 h
  refine ⟨List.mem_of_find?_eq_some hf, ?_⟩
  have := List.find?_some hf
  simp only [beq_iff_eq] at this
  rw [this]; exact hb

theorem find_sig_of_nodup (t : List BSig) (hn : (t.map (·.b)).Nodup) (sg : BSig) (hs : sg ∈ t) :
    t.find? (·.b == sg.b) = some sg := by
  induction t with
  | nil => cases hs
  | cons x rest ih =>
    simp only [List.map_cons, List.nodup_cons] at hn
    simp only [List.find?_cons]
    rcases List.mem_cons.1 hs with rfl | hr
    · have : (sg.b == sg.b) = true := by simp
      rw [this]
    · have hx : x.b ≠ sg.b := by
        intro he; apply hn.1; rw [he]; exact List.mem_map.2 ⟨sg, hr, rfl⟩
      have : (x.b == sg.b) = false := by simp [hx]
      rw [this]
      exact ih hn.2 hr

theorem restore_all_signed (bs : List Nat) (s : DL) (hn : (s.1.sigs.map (·.b)).Nodup) (sg : BSig) (hs : sg ∈ s.1.sigs)
    (hb : sg.b ∈ bs) : sg ∈ bs.filterMap (fun b => s.1.sigs.find? (·.b == b)) :=
  List.mem_filterMap.2 ⟨sg.b, hb, find_sig_of_nodup _ hn sg hs⟩

/-- Every issuance path stores what it returns: swap … -/
theorem swap_stores (cx : Cx) (ps : List Proof) (outs : List BMsg) (v : Option E) (s s' : DL) (sigs : List BSig)
    (h : runM (swap cx ps outs v) s = (s', .ok sigs)) :
    (∀ sg ∈ sigs, sg ∈ s'.1.sigs) ∧ (∀ p ∈ ps, p.row ∈ s'.1.spent) := by
  rcases swap_cases cx ps outs v s s' _ h with ⟨e, he, _⟩ | ⟨sigs', he, hok⟩
  · cases he
  · injection he with he; subst he
    rw [hok.db]
    exact ⟨fun sg hsg => List.mem_append_right _ hsg, fun p hp => List.mem_append_right _ (List.mem_map.2 ⟨p, hp, rfl⟩)⟩

/-- … and mint. -/
theorem mint_stores (cx : Cx) (qid : Int) (outs : List BMsg) (sig : QSig) (s s' : DL) (sigs : List BSig)
    (h : runM (mintTokens cx qid outs sig) s = (s', .ok sigs)) : ∀ sg ∈ sigs, sg ∈ s'.1.sigs := by
  rcases mintTokens_cases cx qid outs sig s s' _ h with ⟨e, _, he, _⟩ | ⟨q, _, hc⟩
  · cases he
  · rcases hc with ⟨_, he, _⟩ | ⟨_, he, _⟩ | ⟨_, he, _⟩ | ⟨_, ⟨e, he, _⟩ | ⟨sigs', he, hok⟩⟩
    · cases he
    · cases he
    · cases he
    · cases he
    · injection he with he; subst he
      rw [hok.db]
      exact fun sg hsg => List.mem_append_right _ hsg

/-- A stored signature is never removed or altered, by any effect of any program (so restore keeps returning it after
    any interleaving, crash or fault); a spent row likewise (C01.spent_forever_*). -/
theorem signature_forever (sg : BSig) {β : Type} (w : World) (e : Eff β) (h : sg ∈ w.db.sigs) : sg ∈ (exec w e).1.db.sigs :=
  DbInv.effInv (sigs_mono_db sg) w e h

theorem signature_forever_history (sg : BSig) (s : Sess) (ops : List Op) (h : sg ∈ s.w.db.sigs) :
    sg ∈ (runOps s ops).w.db.sigs :=
  runOps_db (sigs_mono_db sg) s ops h

end Gonuts.Props.C15
