import Gonuts.Lemmas.SpecDeriv
import Gonuts.Lemmas.SpecShaConsts
import Gonuts.Spec.SelfTest
/-!
# C11 — derivations match the Cashu spec

WHAT IS PROVED HERE, AND WHAT IS NOT.

The "independent implementation written from the specs" that C11 asks for is `Gonuts.Spec.*`
(FIPS 180-4 SHA-256/512, RFC 2104 HMAC, SEC 1/2 secp256k1, BIP32 CKDpriv, NUT-00 hash_to_curve,
NUT-02 keyset id v00, NUT-13 paths), an executable Lean program linked into the driver.
The theorems of this file are ABOUT THAT SPECIFICATION: they show that the oracle is well defined
and has the shape the NUTs prescribe for EVERY input — what a returned point satisfies, which
counter wins, that the keyset id does not depend on the order in which a key set is enumerated,
that indices never wrap, which BIP32 children are used.

"The Go functions compute the same function as `Spec.*` for every input" is NOT proved: the Go code
is mostly calls into dcrec/secp256k1, btcutil/hdkeychain and crypto/sha256, which are not translated
into Lean.  That for-all link is established
  * statically, for the glue that is gonuts' own (domain separator, counter width and endianness,
    `02` prefix, `2^16` bound, sort key, `[:14]`, `"00"`, big-endian `Uint64`, modulus `2^31 − 1`,
    purpose 129372, coin type 0, child indices 0 / 1, `m/0'/0'/idx'/j'`, `2^j`), by
    `Gonuts/Tie/Spec.lean` against facts extracted from the Go source on every run, and
  * dynamically, by the differential stream `deriv` (real Go code vs the compiled `Spec.*` vs an
    independent math/big implementation, bit for bit), whose reach is bounded by its generators.
So C11 is decided at strength PARTIAL: the spec side is proved, the Go = spec side is correspondence.

The published test vectors (FIPS, RFC 4231, BIP32, NUT-00/02/12/13) and the cross-check of the fast
scalar multiplication against the affine definition run in the compiled driver at start-up
(`spec.selftest`); they are tests, not theorems.  `#guard` lines below are evaluated by the Lean
interpreter at build time (they run SHA-256, which the kernel cannot reduce); `example`s closed by
`decide` are kernel-checked.
-/
namespace Gonuts.Props.C11
open Gonuts.Spec Gonuts.Spec.Secp256k1 Gonuts.Spec.HashToCurve

set_option maxRecDepth 20000

/-! ## hash_to_curve (NUT-00) -/

/-- If `hash_to_curve` returns a point `P` found at counter `i`, then `i < 2^16`; `P = (x, y)` where `x` is
the big-endian value of `h i = SHA256(msg_hash ‖ le32 i)`, `y² ≡ x³ + 7 (mod p)` with `x, y < p` (the point
is on the curve), `y` is even, the compressed serialisation of `P` is exactly `02 ‖ h i`, and `i` is the
FIRST counter that works: for every `j < i` the value `h j` does not lift to the curve. -/
theorem hashToCurve_some_onCurve (msg : Bytes) (i : Nat) (P : Point)
    (h : hashToCurveCounter msg = some (i, P)) :
    i < 2 ^ 16 ∧
    (∃ y, P = Point.aff (beNat (counterHash (msgHash msg) i)) y ∧ y % 2 = 0) ∧
    OnCurve P ∧
    serCompressed P = some (candidate (msgHash msg) i) ∧
    ∀ j, j < i → liftX (beNat (counterHash (msgHash msg) j)) = none := by
  rw [hashToCurveCounter_eq] at h
  obtain ⟨_, hlt, hp, hfirst⟩ := search_spec (msgHash msg) (2 ^ 16) 0 h
  rw [parse_candidate] at hp
  rw [Option.map_eq_some_iff] at hp
  obtain ⟨y, hy, rfl⟩ := hp
  obtain ⟨hx, hyp, hcurve, heven⟩ := liftX_some hy
  refine ⟨by omega, ⟨y, rfl, heven⟩, ⟨hx, hyp, hcurve⟩, ?_, ?_⟩
  · rw [serCompressed_even heven, candidate_eq, natToBE_beNat 32 _ (counterHash_length _ _)]
  · intro j hj
    have := hfirst j (Nat.zero_le _) hj
    rw [parse_candidate] at this
    cases hl : liftX (beNat (counterHash (msgHash msg) j)) with
    | none => rfl
    | some y => rw [hl] at this; exact absurd this (by simp)

/-- `hash_to_curve` fails only if none of the `2^16` counters gives a point ("No valid point found"). -/
theorem hashToCurve_none (msg : Bytes) (h : hashToCurve msg = none) :
    ∀ j, j < 2 ^ 16 → parse (candidate (msgHash msg) j) = none := by
  intro j hj
  rw [hashToCurve_eq, Option.map_eq_none_iff] at h
  exact search_none (msgHash msg) (2 ^ 16) 0 h j (Nat.zero_le _) (by omega)

-- (no example can exhibit the hypothesis of `hashToCurve_none`: a message all of whose 2^16 candidates fail has
-- probability 2^-65536; the theorem says that this is the ONLY way `hash_to_curve` can fail)

/-- The counter is appended as exactly four bytes, least significant first, and the encoding is injective
below `2^32` (a fortiori on the `2^16` counters tried), so distinct counters hash distinct strings. -/
theorem hashToCurve_counter_le32 :
    (∀ c, (le32 c).length = 4) ∧
    (∀ c, le32 c = [UInt8.ofNat (c % 256), UInt8.ofNat (c / 2 ^ 8 % 256), UInt8.ofNat (c / 2 ^ 16 % 256),
                    UInt8.ofNat (c / 2 ^ 24 % 256)]) ∧
    (∀ a b, a < 2 ^ 32 → b < 2 ^ 32 → le32 a = le32 b → a = b) ∧
    (∀ (mh : Bytes) i j, i < 2 ^ 16 → j < 2 ^ 16 → mh ++ le32 i = mh ++ le32 j → i = j) := by
  refine ⟨le32_length, fun c => rfl, fun a b => le32_injective, ?_⟩
  intro mh i j hi hj h
  exact le32_injective (by omega) (by omega) (List.append_cancel_left h)

-- non-vacuity and shape, kernel-checked: little endian, not big endian; a hash that lifts and one that does not
example : le32 0x01020304 = [4, 3, 2, 1] := by decide
example : le32 256 = [0, 1, 0, 0] ∧ le32 65535 = [255, 255, 0, 0] := by decide
example : liftX Gx = some Gy ∧ liftX 5 = none := by decide
example : parse (0x02 :: natToBE 32 Gx) = some G ∧ parse (0x02 :: natToBE 32 5) = none := by decide
-- evaluated (interpreter): the NUT-00 vector whose answer needs more than one iteration, and a one-iteration one
#guard (hashToCurveCounter (natToBE 32 2)).map (fun r => (r.1, (serCompressed r.2).map hex)) ==
  some (3, some "026cdbe15362df59cd1dd3c9c11de8aedac2106eca69236ecd9fbe117af897be4f")
#guard (hashToCurveCounter (natToBE 32 0)).map (fun r => (r.1, (serCompressed r.2).map hex)) ==
  some (0, some "024cce997d3b518f739663b757deaec95bcd9473c30a14ac2fd04023a739d1a725")

/-! ## keyset id (NUT-02, version 00) -/

/-- The id does not depend on the order in which the (amount, key) pairs are presented, provided the
amounts are distinct — which they are in a Go `map[uint64]…`, whose iteration order is random. -/
theorem keysetId_perm (ks ks' : KeysetId.Keys) (hp : ks.Perm ks') (hd : (ks.map (·.1)).Nodup) :
    KeysetId.keysetId ks = KeysetId.keysetId ks' := by
  rw [KeysetId.keysetId_eq, KeysetId.keysetId_eq, KeysetId.sortByAmount_perm_eq hp hd]

/-- The keys are hashed in ascending amount order, and exactly the given keys are hashed. -/
theorem keysetId_sorted (ks : KeysetId.Keys) :
    (KeysetId.sortByAmount ks).Pairwise (fun a b => a.1 ≤ b.1) ∧ (KeysetId.sortByAmount ks).Perm ks :=
  ⟨KeysetId.sortByAmount_ascending ks, KeysetId.sortByAmount_perm ks⟩

/-- The id is `"00"` followed by 14 lowercase hex digits: 16 characters. -/
theorem keysetId_shape (ks : KeysetId.Keys) :
    (KeysetId.keysetId ks).length = 16 ∧
    (KeysetId.keysetId ks).toList.take 2 = ['0', '0'] ∧
    (∀ c ∈ (KeysetId.keysetId ks).toList.drop 2, c ∈ hexDigits) ∧
    (KeysetId.keysetId ks).toList.drop 2 = (hexChars (sha256 ((KeysetId.sortByAmount ks).flatMap (·.2)))).take 14 := by
  rw [KeysetId.keysetId_eq]
  simp only [String.length_ofList, String.toList_ofList, List.length_cons, List.length_take, hexChars_length, sha256_length]
  refine ⟨by decide, rfl, ?_, rfl⟩
  intro c hc
  exact hexChars_mem (List.mem_of_mem_take hc)

-- non-vacuity: two presentations of the same two-key set (distinct amounts) get the same id; they are sorted alike
example : KeysetId.keysetId [(2, [0x02, 0xaa]), (1, [0x03, 0xbb])] = KeysetId.keysetId [(1, [0x03, 0xbb]), (2, [0x02, 0xaa])] :=
  keysetId_perm _ _ (List.Perm.swap _ _ _) (by decide)
example : KeysetId.sortByAmount [(2, [0x02, 0xaa]), (1, [0x03, 0xbb])] = [(1, [0x03, 0xbb]), (2, [0x02, 0xaa])] := by
  rw [KeysetId.sortByAmount_perm_eq (List.Perm.swap _ _ _) (by decide)]
  exact List.mergeSort_of_pairwise (by decide)
-- evaluated: the first published NUT-02 vector, given in descending order
#guard KeysetId.keysetId [
  (8, (unhex? "02fdfd6796bfeac490cbee12f778f867f0a2c68f6508d17c649759ea0dc3547528").getD []),
  (4, (unhex? "02648eccfa4c026960966276fa5a4cae46ce0fd432211a4f449bf84f13aa5f8303").getD []),
  (2, (unhex? "03fd4ce5a16b65576145949e6f99f445f8249fee17c606b688b504a849cdc452de").getD []),
  (1, (unhex? "03a40f20667ed53513075dc51e715ff2046cad64eb68960632269ba7f0210e38bc").getD [])] == "00456a94ab4e1c46"

/-! ## NUT-13 -/

/-- `keyset_id_int` is below `2^31 − 1`, so `keyset_id_int'` is a hardened 32-bit index without wrap-around,
for EVERY id; an 8-byte id is a value below `2^64` (what Go reads with `BigEndian.Uint64`); and every counter
below `2^31` stays a hardened index below `2^32`. -/
theorem nut13_index_lt :
    (∀ id : Bytes, Nut13.keysetIdInt id % (2 ^ 31 - 1) = Nut13.keysetIdInt id ∧
        Nut13.keysetIdInt id + 2 ^ 31 < 2 ^ 32 ∧
        2 ^ 31 ≤ Bip32.hardened (Nut13.keysetIdInt id) ∧ Bip32.hardened (Nut13.keysetIdInt id) < 2 ^ 32) ∧
    (∀ id : Bytes, id.length = 8 → beNat id < 2 ^ 64) ∧
    (∀ c, c < 2 ^ 31 → 2 ^ 31 ≤ Bip32.hardened c ∧ Bip32.hardened c < 2 ^ 32) := by
  refine ⟨fun id => ?_, fun id h => ?_, fun c hc => Bip32.hardened_range hc⟩
  · have h := Nut13.keysetIdInt_lt id
    have hr := Bip32.hardened_range (i := Nut13.keysetIdInt id) (by omega)
    exact ⟨Nat.mod_eq_of_lt h, by omega, hr.1, hr.2⟩
  · have := beNat_lt id
    rw [h] at this
    exact this

/-- The paths: `m/129372'/0'/keyset_id_int'/counter'/0` for the secret, `…/1` for the blinding factor; both
are children (normal, indices 0 and 1) of the same key `m/129372'/0'/keyset_id_int'/counter'`; the secret
is the lowercase hex of the 32-byte child key, `r` is the child key. -/
theorem nut13_paths (M : Nat → Point → Point) (seed id : Bytes) (c : Nat) :
    Nut13.secretPath id c =
      [2 ^ 31 + 129372, 2 ^ 31 + 0, 2 ^ 31 + beNat id % (2 ^ 31 - 1), 2 ^ 31 + c, 0] ∧
    Nut13.blindingFactorPath id c =
      [2 ^ 31 + 129372, 2 ^ 31 + 0, 2 ^ 31 + beNat id % (2 ^ 31 - 1), 2 ^ 31 + c, 1] ∧
    Nut13.deriveSecret M seed id c =
      ((Bip32.fromSeed M seed (Nut13.keysetPath id ++ [Bip32.hardened c])).bind (fun k => Bip32.ckdPriv M k 0)).map
        (fun k => hex (Bip32.ser256 k.key)) ∧
    Nut13.deriveBlindingFactor M seed id c =
      ((Bip32.fromSeed M seed (Nut13.keysetPath id ++ [Bip32.hardened c])).bind (fun k => Bip32.ckdPriv M k 1)).map
        (fun k => k.key) := by
  refine ⟨rfl, rfl, ?_, ?_⟩
  · simp only [Nut13.deriveSecret, Nut13.secretPath_eq, Bip32.fromSeed_append, Bip32.derivePath_cons,
      Bip32.derivePath_nil, Option.bind_fun_some]
  · simp only [Nut13.deriveBlindingFactor, Nut13.blindingFactorPath_eq, Bip32.fromSeed_append, Bip32.derivePath_cons,
      Bip32.derivePath_nil, Option.bind_fun_some]

/-- What comes out: a secret of 64 lowercase hex characters, a blinding factor in `[1, n − 1]`. -/
theorem nut13_outputs (M : Nat → Point → Point) (seed id : Bytes) (c : Nat) :
    (∀ s, Nut13.deriveSecret M seed id c = some s → s.length = 64 ∧ ∀ ch ∈ s.toList, ch ∈ hexDigits) ∧
    (∀ r, Nut13.deriveBlindingFactor M seed id c = some r → 0 < r ∧ r < n) :=
  ⟨fun _ h => Nut13.deriveSecret_shape M seed id c h, fun _ h => Nut13.deriveBlindingFactor_valid M seed id c h⟩

/-- No two derivations share a path: for one keyset the secret paths of different counters differ, the blinding
factor paths differ, a secret path is never a blinding factor path (of any keyset and counter), and the wallet's
P2PK path is none of them. -/
theorem nut13_paths_distinct (id id' : Bytes) (c c' : Nat) :
    (Nut13.secretPath id c = Nut13.secretPath id c' → c = c') ∧
    (Nut13.blindingFactorPath id c = Nut13.blindingFactorPath id c' → c = c') ∧
    Nut13.secretPath id c ≠ Nut13.blindingFactorPath id' c' ∧
    Nut13.p2pkPath ≠ Nut13.secretPath id c ∧ Nut13.p2pkPath ≠ Nut13.blindingFactorPath id c :=
  ⟨Nut13.secretPath_counter_inj id c c', Nut13.blindingFactorPath_counter_inj id c c',
   Nut13.secretPath_ne_blindingFactorPath id id' c c', (Nut13.p2pkPath_ne id c).1, (Nut13.p2pkPath_ne id c).2⟩

-- the reduction of the id modulo 2^31 − 1 is NOT injective (a property of NUT-13 itself, not of any implementation):
-- the ids 0000000000000000 and 000000007fffffff share their secrets
example : Nut13.keysetIdInt (natToBE 8 0) = Nut13.keysetIdInt (natToBE 8 (2 ^ 31 - 1)) := by decide

/-- The wallet's P2PK key is at `m/129372'/0'/1'/0`. -/
theorem p2pk_path : Nut13.p2pkPath = [2 ^ 31 + 129372, 2 ^ 31 + 0, 2 ^ 31 + 1, 0] := rfl

-- non-vacuity, kernel-checked: the published id reduces to the published integer; ids at the edge of the modulus;
-- an id with all bits set; the two paths differ exactly in the last index
example : Nut13.keysetIdInt [0x00, 0x9a, 0x1f, 0x29, 0x32, 0x53, 0xe4, 0x1e] = 864559728 := by decide
example : Nut13.keysetIdInt (natToBE 8 (2 ^ 31 - 1)) = 0 ∧ Nut13.keysetIdInt (natToBE 8 (2 ^ 31 - 2)) = 2 ^ 31 - 2 ∧
    Nut13.keysetIdInt (natToBE 8 (2 ^ 64 - 1)) = 3 := by decide
example : Nut13.secretPath (natToBE 8 (2 ^ 64 - 1)) (2 ^ 31 - 1) = [2147613020, 2147483648, 2147483651, 4294967295, 0] := by decide
example : Nut13.blindingFactorPath (natToBE 8 (2 ^ 64 - 1)) (2 ^ 31 - 1) = [2147613020, 2147483648, 2147483651, 4294967295, 1] := by decide
-- evaluated: counter 0 of the published NUT-13 vector (affine scalar multiplication, i.e. the specification itself)
#guard Nut13.deriveSecret mul SelfTest.nut13Seed SelfTest.nut13Id 0 ==
  some "485875df74771877439ac06339e284c3acfcd9be7abf3bc20b516faeadfe77ae"

/-! ## BIP32 child indices and HMAC inputs -/

/-- Child index ranges and the HMAC input: `i'` for `i < 2^31` is a 32-bit index in the hardened half;
`ser32` separates all 32-bit indices; a hardened child hashes `00 ‖ ser256(k_par) ‖ ser32(i)`, a normal child
`serP(k_par·G) ‖ ser32(i)`; both inputs are 37 bytes; a derived key is a valid scalar with a 32-byte chain code. -/
theorem bip32_child_index_ranges (M : Nat → Point → Point) (par : Bip32.XPrv) :
    (∀ i, i < 2 ^ 31 → 2 ^ 31 ≤ Bip32.hardened i ∧ Bip32.hardened i < 2 ^ 32) ∧
    (∀ i j, Bip32.hardened i = Bip32.hardened j → i = j) ∧
    (∀ i j, i < 2 ^ 32 → j < 2 ^ 32 → Bip32.ser32 i = Bip32.ser32 j → i = j) ∧
    (∀ i, 2 ^ 31 ≤ i → Bip32.ckdData M par i = some (0x00 :: (Bip32.ser256 par.key ++ Bip32.ser32 i))) ∧
    (∀ i, i < 2 ^ 31 → Bip32.ckdData M par i = (serCompressed (M par.key G)).map (· ++ Bip32.ser32 i)) ∧
    (∀ i d, Bip32.ckdData M par i = some d → d.length = 37) ∧
    (∀ i c, Bip32.ckdPriv M par i = some c → 0 < c.key ∧ c.key < n ∧ c.chain.length = 32) :=
  ⟨fun _ h => Bip32.hardened_range h, fun _ _ h => Bip32.hardened_injective h,
   fun _ _ hi hj h => Bip32.ser32_injective hi hj h,
   fun _ h => Bip32.ckdData_hardened M par h, fun _ h => Bip32.ckdData_normal M par h,
   fun i _ h => Bip32.ckdData_length M par i h, fun i _ h => Bip32.ckdPriv_valid M par i h⟩

/-- BIP32 says of an invalid child (`parse256(I_L) ≥ n` or `k_i = 0`) "proceed with the next value for i".
`ckdPrivNext` is that rule; `ckdPriv` is the primitive, which btcutil/hdkeychain (and so gonuts) uses WITHOUT retry,
returning an error instead.  The two agree whenever the child is valid — they differ only on inputs of probability
below `2^-127` — and on an invalid child the rule continues with `i + 1`. -/
theorem bip32_skip_rule (M : Nat → Point → Point) (par : Bip32.XPrv) (t i : Nat) :
    (∀ c, Bip32.ckdPriv M par i = some c → Bip32.ckdPrivNext M par (t + 1) i = some (i, c)) ∧
    (Bip32.ckdPriv M par i = none → Bip32.ckdPrivNext M par (t + 1) i = Bip32.ckdPrivNext M par t (i + 1)) :=
  ⟨fun _ h => Bip32.ckdPrivNext_of_some M par t i h, fun h => Bip32.ckdPrivNext_of_none M par t i h⟩

-- evaluated: for the BIP32 test-vector-1 master key the rule returns child 0' itself (the valid case; the invalid
-- case cannot be exhibited)
#guard ((Bip32.master SelfTest.bip32Seed).bind (fun m => Bip32.ckdPrivNext mulFast m 3 (Bip32.hardened 0))).map (·.1) ==
  some (Bip32.hardened 0)

/-- `ser256`/`parse256` round trip on 256-bit values, and `ser256` is 32 bytes (no leading zero is ever dropped). -/
theorem bip32_ser256 :
    (∀ k, (Bip32.ser256 k).length = 32) ∧ (∀ k, k < 2 ^ 256 → Bip32.parse256 (Bip32.ser256 k) = k) ∧
    (∀ b : Bytes, b.length = 32 → Bip32.ser256 (Bip32.parse256 b) = b) :=
  ⟨Bip32.ser256_length, fun _ h => Bip32.parse256_ser256 h, fun b h => natToBE_beNat 32 b h⟩

example : Bip32.hardened 129372 = 2147613020 ∧ Bip32.ser32 (Bip32.hardened 0) = [0x80, 0, 0, 0] ∧ Bip32.ser32 1 = [0, 0, 0, 1] := by decide
example : Bip32.ser256 1 = List.replicate 31 0 ++ [1] := by decide

/-! ## mint keysets -/

/-- Keyset `idx` of a seed: 60 keys, amounts `2^0 … 2^59` (distinct, so its id is order independent), the key of
amount `2^j` is the BIP32 child `j'` of `m/0'/0'/idx'`, a valid scalar, with public key `priv·G`. -/
theorem mintKeys_spec (M : Nat → Point → Point) (seed : Bytes) (idx : Nat) (keys : List MintKeys.Key)
    (h : MintKeys.mintKeys M seed idx = some keys) :
    MintKeys.keysetPath idx = [2 ^ 31 + 0, 2 ^ 31 + 0, 2 ^ 31 + idx] ∧
    keys.length = 60 ∧
    keys.map (·.amount) = (List.range 60).map (2 ^ ·) ∧
    (keys.map (·.amount)).Nodup ∧
    (∀ k ∈ keys, 0 < k.priv ∧ k.priv < n ∧ k.pub = M k.priv G) ∧
    (∃ ks, Bip32.fromSeed M seed (MintKeys.keysetPath idx) = some ks ∧
      keys.map (fun k => some k.priv) = (List.range 60).map (fun j => (Bip32.ckdPriv M ks (Bip32.hardened j)).map (·.key))) := by
  obtain ⟨ks, hks, hk⟩ := MintKeys.mintKeys_eq_some M seed idx h
  obtain ⟨ha, hv⟩ := MintKeys.keysFrom_spec M ks _ hk
  have hlen : keys.length = 60 := by
    have := congrArg List.length ha
    rw [List.length_map, List.length_map, List.length_range] at this
    exact this
  refine ⟨rfl, hlen, ha, ?_, hv, ks, hks, MintKeys.keysFrom_privs M ks _ hk⟩
  rw [ha]
  decide

-- evaluated (non-vacuity of the hypothesis `mintKeys … = some keys`): keyset 0 of the BIP32 test-vector-1 seed exists;
-- its id is the value gonuts computes for the same seed (compared on every run by stream `deriv`)
#guard ((MintKeys.mintKeys mulFast SelfTest.bip32Seed 0).bind MintKeys.keysetIdOf) == some "006052924f84e702"
#guard ((MintKeys.mintKeys mulFast SelfTest.bip32Seed 0).map (·.length)) == some 60

/-- The id of a generated keyset is the same whatever order its 60 (amount, public key) pairs are enumerated in —
`GenerateKeyset` collects them in a Go map before calling `DeriveKeysetId`. -/
theorem mintKeys_id_order_independent (M : Nat → Point → Point) (seed : Bytes) (idx : Nat) (keys keys' : List MintKeys.Key)
    (h : MintKeys.mintKeys M seed idx = some keys) (hp : keys.Perm keys') :
    MintKeys.keysetIdOf keys = MintKeys.keysetIdOf keys' :=
  MintKeys.keysetIdOf_perm hp (mintKeys_spec M seed idx keys h).2.2.2.1

/-- More generally, for keys given as points: rearranging a key set with distinct amounts does not change its id. -/
theorem keysetIdOfPoints_perm (l l' : List (Nat × Point)) (hp : l.Perm l') (hd : (l.map (·.1)).Nodup) :
    KeysetId.keysetIdOfPoints l = KeysetId.keysetIdOfPoints l' :=
  KeysetId.keysetIdOfPoints_perm hp hd

example : KeysetId.keysetIdOfPoints [(1, G), (2, Point.aff Gx (p - Gy))] = KeysetId.keysetIdOfPoints [(2, Point.aff Gx (p - Gy)), (1, G)] :=
  keysetIdOfPoints_perm _ _ (List.Perm.swap _ _ _) (by decide)

/-! ## hash and MAC output lengths -/

/-- SHA-256 gives 32 bytes, SHA-512 and HMAC-SHA512 give 64 bytes, for every input; the padded messages are
whole numbers of blocks, extend the message, and are minimal. -/
theorem hash_output_lengths :
    (∀ m, (sha256 m).length = 32) ∧ (∀ m, (sha512 m).length = 64) ∧ (∀ k t, (hmacSha512 k t).length = 64) ∧
    (∀ m, (Sha256.pad m).length % 64 = 0 ∧ m.length + 9 ≤ (Sha256.pad m).length ∧ (Sha256.pad m).length < m.length + 9 + 64) ∧
    (∀ m, (Sha512.pad m).length % 128 = 0 ∧ m.length + 17 ≤ (Sha512.pad m).length ∧ (Sha512.pad m).length < m.length + 17 + 128) :=
  ⟨sha256_length, sha512_length, hmacSha512_length,
   fun m => ⟨Sha256.pad_length_mod m, Sha256.pad_length_bounds m⟩,
   fun m => ⟨Sha512.pad_length_mod m, Sha512.pad_length_bounds m⟩⟩

/-- The SHA-2 round constants and initial hash values of the reference are the numbers FIPS 180-4 defines:
the first 32 (SHA-256) / 64 (SHA-512) bits of the fractional parts of the cube roots of the first 64 / 80 primes,
and of the square roots of the first 8 primes (each table entry is checked to be the low bits of the floor root). -/
theorem sha_constants :
    (ShaConsts.primesBelow 312).length = 64 ∧ (ShaConsts.primesBelow 410).length = 80 ∧
    ShaConsts.allFrac 3 32 (ShaConsts.primesBelow 312) (Sha256.K.toList.map UInt32.toNat) = true ∧
    ShaConsts.allFrac 3 64 (ShaConsts.primesBelow 410) (Sha512.K.toList.map UInt64.toNat) = true ∧
    ShaConsts.allFrac 2 32 ((ShaConsts.primesBelow 312).take 8)
      ([Sha256.init.a, Sha256.init.b, Sha256.init.c, Sha256.init.d, Sha256.init.e, Sha256.init.f, Sha256.init.g,
        Sha256.init.h].map UInt32.toNat) = true ∧
    ShaConsts.allFrac 2 64 ((ShaConsts.primesBelow 410).take 8)
      ([Sha512.init.a, Sha512.init.b, Sha512.init.c, Sha512.init.d, Sha512.init.e, Sha512.init.f, Sha512.init.g,
        Sha512.init.h].map UInt64.toNat) = true :=
  ⟨ShaConsts.primes64, ShaConsts.primes80, ShaConsts.sha256_K, ShaConsts.sha512_K, ShaConsts.sha256_H0, ShaConsts.sha512_H0⟩

-- 2 is the first prime and 0x428a2f98 the first 32 fractional bits of its cube root; a wrong entry is rejected
example : ShaConsts.isFrac 3 32 2 0x428a2f98 = true ∧ ShaConsts.isFrac 3 32 2 0x428a2f99 = false ∧
    (ShaConsts.primesBelow 312).take 5 = [2, 3, 5, 7, 11] := by decide +kernel

/-- SEC 2 parameters: `p = 2^256 − 2^32 − 977 ≡ 3 (mod 4)`, `n < p < 2^256`, the base point is on the curve;
a parsed octet string is always a finite point of the curve. -/
theorem curve_parameters :
    p = 2 ^ 256 - 2 ^ 32 - 977 ∧ p % 4 = 3 ∧ n < p ∧ p < 2 ^ 256 ∧ OnCurve G ∧
    (∀ bs P, parse bs = some P → OnCurve P ∧ P ≠ Point.inf) :=
  ⟨p_eq, p_mod4, n_lt_p, p_lt, G_onCurve, fun _ _ h => parse_onCurve h⟩

example : (Sha256.pad (List.replicate 55 0)).length = 64 ∧ (Sha256.pad (List.replicate 56 0)).length = 128 := by decide
#guard hex (sha256 (ascii "abc")) == "ba7816bf8f01cfea414140de5dae2223b00361a396177a9cb410ff61f20015ad"

end Gonuts.Props.C11
