import Gonuts.Lemmas.Algebra
import Gonuts.Lemmas.RandomOracle

/-!
# C10 — blind signatures and DLEQ proofs are algebraically correct and tamper-evident

Everything here is a theorem about `Gonuts.Algebra` (Lemmas/Algebra.lean): `G` is ANY additive commutative group that
is a module over `ZMod n`, `g : G` any "generator", `hashE : G × G × G × G → ZMod n` ANY function. Statements that
need `ZMod n` to be a field carry `[Fact n.Prime]` (and say which point must be `≠ 0`); the others hold for every `n`.

## What is proved
* correctness: `unblind_sign_blind`, `unblind_indep_r`, `verify_unblind`, `dleq_complete`, `mint_dleq_complete`,
  `proofDleq_complete`;
* the negative side of `Verify`: `verify_iff`, `verify_wrong_point`, `verify_wrong_key` (`verify_key_iff`),
  `verify_wrong_secret` (`verify_secret_iff`);
* special soundness (`dleq_extract` — witness extraction —, `dleq_special_sound`, `dleq_special_sound_hash`, `dleq_forgery_unique_challenge`,
  `dleq_wrong_key_unique_challenge`): if `C' ≠ a•B'` (e.g. `C'` was made with another key `a' ≠ a`), every commitment
  `(R1,R2)` admits AT MOST ONE challenge `e` that has a response — so an accepting forged proof must have found a
  commitment whose hash value is that single challenge;
* tamper evidence in REDUCTION form. For a transcript that `VerifyDLEQ` accepts and a second accepted transcript that
  differs in exactly one field and keeps `e`, the theorem EXHIBITS the collision: the two 4-tuples that the verifier
  itself feeds to `hashE` are distinct and have the same hash (`Collides hashE x x'` with `x`, `x'` explicit).
  The explicit pair matters: for a finite `G` the bare `∃ x ≠ x', hashE x = hashE x'` is true by counting and would say
  nothing; `Collides.exists` derives that weaker form. Per field:
    - `s`            (`dleq_tamper_s`, needs `g ≠ 0`): `R1` changes, pure collision;
    - `A`            (`dleq_tamper_A`): third hash input changes, pure collision, no side condition;
    - `C'`           (`dleq_tamper_C'`): fourth hash input changes, pure collision, no side condition;
    - `B'`           (`dleq_tamper_B'`): `s = 0 ∨` collision. The disjunct is real: for `s = 0` the verifier never looks
                      at `B'` (`dleq_s_zero_ignores_B'`), an honest proof has `s = 0` with probability `1/n`;
    - proof-DLEQ `r` (`proofDleq_tamper_r`): changes `B'` and `C' = C + rA`; collision if `A ≠ 0`; in general
                      `(A = 0 ∧ s = 0) ∨` collision (`proofDleq_tamper_r_general`), and `A = 0 ∧ s = 0` really ignores `r`
                      (`proofDleq_degenerate_ignores_r`);
    - proof-DLEQ secret (`proofDleq_tamper_secret`): changes `Y`, hence `B'`; `s = 0 ∨` collision;
    - proof-DLEQ amount (`proofDleq_tamper_amount`): changes the key `A` the verifier looks up (and `C'`): collision;
    - proof-DLEQ `C` (`proofDleq_tamper_C`): changes `C' = C + rA`: collision;
    - proof-DLEQ `s` (`proofDleq_tamper_s`): as `s`;
    - ANY simultaneous change with the same `e` (`dleq_tamper_any`, `proofDleq_tamper_any`, `dleqInput_eq_iff`): collision,
      or the hashed tuple is literally unchanged, which is characterised exactly.

## What is NOT proved (and cannot be, by this technique)
* Changing `e` ALONE: algebra only gives the fixed-point characterisation `dleq_tamper_e_iff`
  (`accept ↔ e = hashE (sG − eA, sB' − eC', A, C')`) and that a changed `e` queries the hash at a different point
  (`dleq_tamper_e_fresh_input`, for `A ≠ 0`). No collision is involved, so there is no reduction to state. That a changed
  `e` is "always" rejected is a RANDOM-ORACLE statement about the hash, which this technique does not prove for the
  concrete function SHA-256; that case is covered by the differential stream `bdhke` only. What IS proved is the
  counting form of the random-oracle argument (section `RandomOracle`, `dleq_tamper_e_random_oracle`): among all
  functions `hashE` under which the original transcript is accepted, exactly a `1/n` fraction accepts the transcript
  with `e` replaced by a fixed `e' ≠ e` — a statement about the uniform distribution on functions, not about SHA-256.
* "Collisions of `hashE` / unique-challenge hits are infeasible to find" is a computational assumption about SHA-256;
  it appears in no statement, only in how the conclusions are read.
* NOT modelled corner of the Go code: `VerifyDLEQ` compares the REDUCED scalar `e` (`e.Serialize()`, `e < n`) with the
  RAW 32-byte SHA-256 output. `GenerateDLEQ` returns `e = PrivKeyFromBytes(hash)`, reduced mod n. So an honest proof
  whose hash is `≥ n` (probability `(2^256 − n)/2^256 ≈ 2^-128`) is REJECTED by the Go verifier. The model maps the hash
  into `ZMod n` and cannot see this.
* That secp256k1 with its base point is such a module with `g ≠ 0`, and that the Go functions compute these
  operations, is validated by stream `bdhke` (every identity and every rejection re-checked on the real functions).
-/

namespace Gonuts.Props.C10
open Gonuts.Algebra

/-- Concrete instance used by the non-vacuity examples: `G = ZMod 7` as a module over itself, `g = 1`. -/
local instance fact7 : Fact (Nat.Prime 7) := ⟨by decide⟩

/-- An arbitrary non-constant "hash" for the examples. -/
private def h7 : ZMod 7 × ZMod 7 × ZMod 7 × ZMod 7 → ZMod 7 :=
  fun x => x.1 + 2 * x.2.1 + 3 * x.2.2.1 + 5 * x.2.2.2

/-- A constant "hash" (every pair of inputs collides): makes the hypotheses of the tamper lemmas satisfiable. -/
private def hconst : ZMod 7 × ZMod 7 × ZMod 7 × ZMod 7 → ZMod 7 := fun _ => 3

theorem Collides.exists {n : ℕ} {G : Type*} {hashE : G × G × G × G → ZMod n} {x x' : G × G × G × G}
    (h : Collides hashE x x') : ∃ x x', x ≠ x' ∧ hashE x = hashE x' := ⟨x, x', h⟩

/-! ## Correctness (every `n`, no side condition) -/
section Correct
variable {n : ℕ} {G : Type*} [AddCommGroup G] [Module (ZMod n) G]
variable (g : G) (hashE : G × G × G × G → ZMod n)

/-- Unblinding the signature on the blinded message yields exactly `k•Y`. -/
theorem unblind_sign_blind (Y : G) (r k : ZMod n) :
    unblind (sign (blind g Y r) k) r (k • g) = k • Y :=
  unblind_sign_blind_eq g Y r k

example : unblind (sign (blind (1 : ZMod 7) 3 (4 : ZMod 7)) (5 : ZMod 7)) (4 : ZMod 7) ((5 : ZMod 7) • (1 : ZMod 7)) = (5 : ZMod 7) • (3 : ZMod 7) := by
  decide

/-- … hence independent of the blinding factor. -/
theorem unblind_indep_r (Y : G) (r r' k : ZMod n) :
    unblind (sign (blind g Y r) k) r (k • g) = unblind (sign (blind g Y r') k) r' (k • g) := by
  rw [unblind_sign_blind, unblind_sign_blind]

example : unblind (sign (blind (1 : ZMod 7) 3 (4 : ZMod 7)) (5 : ZMod 7)) (4 : ZMod 7) ((5 : ZMod 7) • (1 : ZMod 7))
    = unblind (sign (blind (1 : ZMod 7) 3 (6 : ZMod 7)) (5 : ZMod 7)) (6 : ZMod 7) ((5 : ZMod 7) • (1 : ZMod 7)) := by decide

theorem verify_iff (k : ZMod n) (Y C : G) : verify k Y C ↔ C = k • Y := eq_comm

/-- The unblinded signature verifies under the signing key. -/
theorem verify_unblind (Y : G) (r k : ZMod n) :
    verify k Y (unblind (sign (blind g Y r) k) r (k • g)) :=
  (unblind_sign_blind g Y r k).symm

example : verify (5 : ZMod 7) (3 : ZMod 7)
    (unblind (sign (blind (1 : ZMod 7) 3 (4 : ZMod 7)) (5 : ZMod 7)) (4 : ZMod 7) ((5 : ZMod 7) • (1 : ZMod 7))) := by
  decide

/-- Any point other than `k•Y` fails. -/
theorem verify_wrong_point (k : ZMod n) (Y C : G) (h : C ≠ k • Y) : ¬ verify k Y C :=
  fun hv => h hv.symm

example : ¬ verify (5 : ZMod 7) (3 : ZMod 7) (2 : ZMod 7) := by decide

/-- Completeness of the DLEQ proof, for EVERY nonce: what `GenerateDLEQ(a, B', a•B')` returns is accepted by
`VerifyDLEQ` under the public key `a•g`. -/
theorem dleq_complete (nonce a : ZMod n) (B' : G) :
    dleqVerify g hashE (dleqGen g hashE nonce a B' (a • B')).1 (dleqGen g hashE nonce a B' (a • B')).2
      (a • g) B' (a • B') := by
  simp only [dleqVerify, dleqGen, dleqInput_honest]

example : dleqVerify (1 : ZMod 7) h7 (dleqGen (1 : ZMod 7) h7 4 3 2 ((3 : ZMod 7) • 2)).1
    (dleqGen (1 : ZMod 7) h7 4 3 2 ((3 : ZMod 7) • 2)).2 ((3 : ZMod 7) • 1) 2 ((3 : ZMod 7) • 2) := by decide
-- the example is not the trivial transcript:
example : dleqGen (1 : ZMod 7) h7 4 3 2 ((3 : ZMod 7) • 2) = (3, 6) := by decide

/-- The same for what the mint does in `signBlindedMessages`: `C_ = SignBlindedMessage(B_, k)` then
`GenerateDLEQ(k, B_, C_)`; the wallet checks it with `VerifyBlindSignatureDLEQ` under the published key `k•g`. -/
theorem mint_dleq_complete (nonce k r : ZMod n) (Y : G) :
    let B' := blind g Y r
    let C' := sign B' k
    let es := dleqGen g hashE nonce k B' C'
    dleqVerify g hashE es.1 es.2 (k • g) B' C' :=
  dleq_complete g hashE nonce k (blind g Y r)

/-- The proof a wallet attaches to an unblinded token — `(e, s)` from the mint plus its own `r` — is accepted by a
third party that only knows the secret (`Y`), `C` and the published key (`nut12.VerifyProofDLEQ`). -/
theorem proofDleq_complete (nonce k r : ZMod n) (Y : G) :
    let B' := blind g Y r
    let C' := sign B' k
    let es := dleqGen g hashE nonce k B' C'
    proofDleqVerify g hashE es.1 es.2 r (k • g) Y (unblind C' r (k • g)) := by
  intro B' C' es
  have h : unblind C' r (k • g) + r • (k • g) = C' := reblind_eq g Y r k
  simp only [proofDleqVerify, h]
  exact dleq_complete g hashE nonce k (blind g Y r)

example :
    let es := dleqGen (1 : ZMod 7) h7 4 3 (blind (1 : ZMod 7) 2 (5 : ZMod 7)) (sign (blind (1 : ZMod 7) 2 (5 : ZMod 7)) (3 : ZMod 7))
    proofDleqVerify (1 : ZMod 7) h7 es.1 es.2 5 ((3 : ZMod 7) • 1) 2
      (unblind (sign (blind (1 : ZMod 7) 2 (5 : ZMod 7)) (3 : ZMod 7)) (5 : ZMod 7) ((3 : ZMod 7) • 1)) := by decide

/-- Changing `e` alone: `VerifyDLEQ` accepts exactly the fixed points of this map. Nothing more follows from algebra
(see the file header). -/
theorem dleq_tamper_e_iff (e s : ZMod n) (A B' C' : G) :
    dleqVerify g hashE e s A B' C' ↔ e = hashE (s • g - e • A, s • B' - e • C', A, C') := by
  simp only [dleqVerify, dleqInput, neg_smul, sub_eq_add_neg]

-- both directions are inhabited: an accepted and a rejected `e` for the same `(s, A, B', C')`
example : dleqVerify (1 : ZMod 7) h7 3 6 3 2 6 ∧ ¬ dleqVerify (1 : ZMod 7) h7 4 6 3 2 6 := by decide

/-- `A` replaced (other amount / other keyset ⇒ another public key): the two hash inputs differ in their third
component and collide. -/
theorem dleq_tamper_A {e s : ZMod n} {A A₂ B' C' : G} (hA : A ≠ A₂)
    (h : dleqVerify g hashE e s A B' C') (h' : dleqVerify g hashE e s A₂ B' C') :
    Collides hashE (dleqInput g e s A B' C') (dleqInput g e s A₂ B' C') :=
  ⟨fun hx => hA (congrArg (fun x => x.2.2.1) hx), h.symm.trans h'⟩

example : (1 : ZMod 7) ≠ 2 ∧ dleqVerify (1 : ZMod 7) hconst 3 6 1 2 6 ∧ dleqVerify (1 : ZMod 7) hconst 3 6 2 2 6 := by
  decide

/-- `C'` replaced: the two hash inputs differ in their fourth component and collide. -/
theorem dleq_tamper_C' {e s : ZMod n} {A B' C' C₂' : G} (hC : C' ≠ C₂')
    (h : dleqVerify g hashE e s A B' C') (h' : dleqVerify g hashE e s A B' C₂') :
    Collides hashE (dleqInput g e s A B' C') (dleqInput g e s A B' C₂') :=
  ⟨fun hx => hC (congrArg (fun x => x.2.2.2) hx), h.symm.trans h'⟩

example : (6 : ZMod 7) ≠ 5 ∧ dleqVerify (1 : ZMod 7) hconst 3 6 1 2 6 ∧ dleqVerify (1 : ZMod 7) hconst 3 6 1 2 5 := by
  decide

/-- The `s = 0` degeneracy is real: `VerifyDLEQ` with `s = 0` does not depend on `B'` at all. -/
theorem dleq_s_zero_ignores_B' (e : ZMod n) (A B₁ B₂ C' : G) :
    dleqVerify g hashE e 0 A B₁ C' ↔ dleqVerify g hashE e 0 A B₂ C' := by
  simp only [dleqVerify, dleqInput, zero_smul]

/-- proof-DLEQ, amount changed ⇒ the verifier looks up another key `A₂ ≠ A` (`keyset.PublicKeys[proof.Amount]`). -/
theorem proofDleq_tamper_amount {e s r : ZMod n} {A A₂ Y C : G} (hA : A ≠ A₂)
    (h : proofDleqVerify g hashE e s r A Y C) (h' : proofDleqVerify g hashE e s r A₂ Y C) :
    Collides hashE (dleqInput g e s A (blind g Y r) (C + r • A)) (dleqInput g e s A₂ (blind g Y r) (C + r • A₂)) :=
  ⟨fun hx => hA (congrArg (fun x => x.2.2.1) hx), h.symm.trans h'⟩

example : (1 : ZMod 7) ≠ 2 ∧ proofDleqVerify (1 : ZMod 7) hconst 3 6 5 1 2 6 ∧
    proofDleqVerify (1 : ZMod 7) hconst 3 6 5 2 2 6 := by decide

/-- proof-DLEQ, `C` replaced: `C' = C + rA` changes. -/
theorem proofDleq_tamper_C {e s r : ZMod n} {A Y C C₂ : G} (hC : C ≠ C₂)
    (h : proofDleqVerify g hashE e s r A Y C) (h' : proofDleqVerify g hashE e s r A Y C₂) :
    Collides hashE (dleqInput g e s A (blind g Y r) (C + r • A)) (dleqInput g e s A (blind g Y r) (C₂ + r • A)) :=
  dleq_tamper_C' g hashE (fun hx => hC (add_right_cancel hx)) h h'

example : (6 : ZMod 7) ≠ 5 ∧ proofDleqVerify (1 : ZMod 7) hconst 3 6 5 1 2 6 ∧
    proofDleqVerify (1 : ZMod 7) hconst 3 6 5 1 2 5 := by decide

/-- proof-DLEQ, `e` alone: fixed-point characterisation (as `dleq_tamper_e_iff`). -/
theorem proofDleq_tamper_e_iff (e s r : ZMod n) (A Y C : G) :
    proofDleqVerify g hashE e s r A Y C ↔
      e = hashE (s • g - e • A, s • (Y + r • g) - e • (C + r • A), A, C + r • A) := by
  simp only [proofDleqVerify, dleq_tamper_e_iff, blind]

/-! ### `nut12.VerifyProofsDLEQ` (the wallet's check on receive / swap): key lookup by amount, optional DLEQ -/

theorem proofsDleqVerify_iff {Amount : Type*} (pub : Amount → Option G) (ps : List (DProof Amount G n)) :
    proofsDleqVerify g hashE pub ps ↔ ∀ p ∈ ps, proofDleqOk g hashE pub p := by
  induction ps with
  | nil => simp [proofsDleqVerify]
  | cons p ps ih => simp [proofsDleqVerify, ih]

/-- A list of proofs honestly built from mint signatures (any keys of the keyset, any nonces, any blinding factors)
passes. -/
theorem proofsDleq_complete {Amount : Type*} (priv : Amount → Option (ZMod n))
    (ts : List (Amount × ZMod n × ZMod n × ZMod n × G))   -- (amount, key, nonce, r, Y)
    (hk : ∀ t ∈ ts, priv t.1 = some t.2.1) :
    proofsDleqVerify g hashE (fun a => (priv a).map (· • g))
      (ts.map fun (a, k, nonce, r, Y) =>
        let C' := sign (blind g Y r) k
        let es := dleqGen g hashE nonce k (blind g Y r) C'
        { amount := a, Y := Y, C := unblind C' r (k • g), dleq := some (es.1, es.2, some r) }) := by
  rw [proofsDleqVerify_iff]
  intro p hp
  obtain ⟨⟨a, k, nonce, r, Y⟩, ht, rfl⟩ := List.mem_map.mp hp
  have := hk _ ht
  simp only at this
  simp only [proofDleqOk, this, Option.map_some]
  exact proofDleq_complete g hashE nonce k r Y

/-- Amount changed to something that is not a key of the keyset: rejected outright. -/
theorem proofsDleq_amount_not_key {Amount : Type*} (pub : Amount → Option G) (ps : List (DProof Amount G n))
    (p : DProof Amount G n) (hp : p ∈ ps) (hd : p.dleq ≠ none) (ha : pub p.amount = none) :
    ¬ proofsDleqVerify g hashE pub ps := by
  rw [proofsDleqVerify_iff]
  intro h
  have := h p hp
  unfold proofDleqOk at this
  cases hdl : p.dleq with
  | none => exact hd hdl
  | some d => obtain ⟨e, s, r?⟩ := d; simp only [hdl, ha] at this

/-- `r` removed from a DLEQ that is otherwise present: rejected. -/
theorem proofsDleq_r_removed {Amount : Type*} (pub : Amount → Option G) (ps : List (DProof Amount G n))
    (p : DProof Amount G n) (hp : p ∈ ps) (e s : ZMod n) (hd : p.dleq = some (e, s, none)) :
    ¬ proofsDleqVerify g hashE pub ps := by
  rw [proofsDleqVerify_iff]
  intro h
  have := h p hp
  unfold proofDleqOk at this
  simp only [hd] at this
  cases hA : pub p.amount <;> simp only [hA] at this

/-- An accepted list: every proof that carries a DLEQ satisfies `VerifyProofDLEQ` under the key of ITS amount — so the
single-proof tamper lemmas (`proofDleq_tamper_*`) apply to each element. -/
theorem proofsDleq_each {Amount : Type*} (pub : Amount → Option G) (ps : List (DProof Amount G n))
    (h : proofsDleqVerify g hashE pub ps) (p : DProof Amount G n) (hp : p ∈ ps) (e s : ZMod n) (r? : Option (ZMod n))
    (hd : p.dleq = some (e, s, r?)) :
    ∃ A r, pub p.amount = some A ∧ r? = some r ∧ proofDleqVerify g hashE e s r A p.Y p.C := by
  have := (proofsDleqVerify_iff g hashE pub ps).mp h p hp
  unfold proofDleqOk at this
  simp only [hd] at this
  cases hA : pub p.amount with
  | none => simp only [hA] at this
  | some A =>
    cases hr : r? with
    | none => simp only [hA, hr] at this
    | some r => simp only [hA, hr] at this; exact ⟨A, r, rfl, rfl, this⟩

/-- By design (NUT-12: DLEQ is optional) a proof whose DLEQ was STRIPPED altogether is not detected by this check. -/
theorem proofsDleq_stripped {Amount : Type*} (pub : Amount → Option G) (ps : List (DProof Amount G n))
    (h : ∀ p ∈ ps, p.dleq = none) : proofsDleqVerify g hashE pub ps := by
  rw [proofsDleqVerify_iff]
  intro p hp
  simp only [proofDleqOk, h p hp]

-- non-vacuity: a keyset with one key (amount 0 ↦ 3), amount 1 is not a key
example : proofsDleqVerify (1 : ZMod 7) h7 (fun a : Fin 2 => (if a = 0 then some (3 : ZMod 7) else none).map (· • (1 : ZMod 7)))
    ([((0 : Fin 2), (3 : ZMod 7), (4 : ZMod 7), (5 : ZMod 7), (2 : ZMod 7))].map fun (a, k, nonce, r, Y) =>
      let C' := sign (blind (1 : ZMod 7) Y r) k
      let es := dleqGen (1 : ZMod 7) h7 nonce k (blind (1 : ZMod 7) Y r) C'
      { amount := a, Y := Y, C := unblind C' r (k • (1 : ZMod 7)), dleq := some (es.1, es.2, some r) }) :=
  proofsDleq_complete (1 : ZMod 7) h7 (fun a : Fin 2 => if a = 0 then some (3 : ZMod 7) else none) _ (by simp)
example : ¬ proofsDleqVerify (1 : ZMod 7) h7 (fun a : Fin 2 => if a = 0 then some (3 : ZMod 7) else none)
    [{ amount := 1, Y := 2, C := 6, dleq := some (3, 6, some 5) }] :=
  proofsDleq_amount_not_key _ _ _ _ _ (List.mem_singleton.mpr rfl) (by simp) (by decide)
example : ¬ proofsDleqVerify (1 : ZMod 7) h7 (fun a : Fin 2 => if a = 0 then some (3 : ZMod 7) else none)
    [{ amount := 0, Y := 2, C := 6, dleq := some (3, 6, none) }] :=
  proofsDleq_r_removed _ _ _ _ _ (List.mem_singleton.mpr rfl) 3 6 rfl

end Correct

/-! ## Statements that use that `ZMod n` is a field (`n` prime) -/
section Prime
variable {n : ℕ} {G : Type*} [AddCommGroup G] [Module (ZMod n) G] [Fact n.Prime]
variable (g : G) (hashE : G × G × G × G → ZMod n)

/-- A signature made with key `k` fails verification under any other key `k'` (for a non-identity `Y`; `HashToCurve`
never returns the identity). -/
theorem verify_wrong_key {k k' : ZMod n} {Y : G} (hk : k ≠ k') (hY : Y ≠ 0) : ¬ verify k' Y (k • Y) :=
  fun h => hk (smul_left_cancel_of_ne_zero hY h).symm

theorem verify_key_iff {k k' : ZMod n} {Y : G} (hY : Y ≠ 0) : verify k' Y (k • Y) ↔ k' = k :=
  ⟨fun h => smul_left_cancel_of_ne_zero hY h, fun h => by rw [h]; rfl⟩

example : (2 : ZMod 7) ≠ 3 ∧ (1 : ZMod 7) ≠ 0 ∧ ¬ verify (3 : ZMod 7) (1 : ZMod 7) ((2 : ZMod 7) • (1 : ZMod 7)) := by
  decide
-- `Y ≠ 0` cannot be dropped: the identity "verifies" under every key
example : verify (3 : ZMod 7) (0 : ZMod 7) ((2 : ZMod 7) • (0 : ZMod 7)) := by decide

/-- … and under any other secret (`Y' ≠ Y`; needs a nonzero key, the zero key signs everything with the identity). -/
theorem verify_wrong_secret {k : ZMod n} {Y Y' : G} (hY : Y ≠ Y') (hk : k ≠ 0) : ¬ verify k Y' (k • Y) :=
  fun h => hY (smul_right_cancel_of_ne_zero hk h).symm

theorem verify_secret_iff {k : ZMod n} {Y Y' : G} (hk : k ≠ 0) : verify k Y' (k • Y) ↔ Y' = Y :=
  ⟨fun h => smul_right_cancel_of_ne_zero hk h, fun h => by rw [h]; rfl⟩

example : (2 : ZMod 7) ≠ 3 ∧ (5 : ZMod 7) ≠ 0 ∧ ¬ verify (5 : ZMod 7) (3 : ZMod 7) ((5 : ZMod 7) • (2 : ZMod 7)) := by
  decide

/-- Special soundness. Public key `A = a•g` with `g ≠ 0`, and `C' ≠ a•B'` (the signature was NOT made with the
published key). Then for any commitment `(R1, R2)` at most one challenge admits a response. -/
theorem dleq_special_sound {a : ZMod n} {B' C' : G} (hg : g ≠ 0) (hC : C' ≠ a • B') (R1 R2 : G)
    (e e' s s' : ZMod n)
    (h : dleqOpens g R1 R2 e s (a • g) B' C') (h' : dleqOpens g R1 R2 e' s' (a • g) B' C') : e = e' := by
  by_contra hne
  exact hC (opens_two_challenges hg h h' hne)

-- the hypotheses `C' ≠ a•B'` + an opening are satisfiable (a = 3, B' = 2, C' = 5 ≠ 6):
example : (5 : ZMod 7) ≠ (3 : ZMod 7) • (2 : ZMod 7) ∧
    dleqOpens (1 : ZMod 7) 5 4 (1 : ZMod 7) 1 ((3 : ZMod 7) • 1) 2 5 := by decide
-- and `C' ≠ a•B'` cannot be dropped: for `C' = a•B'` one commitment opens for two challenges
example : dleqOpens (1 : ZMod 7) 4 1 (1 : ZMod 7) 0 ((3 : ZMod 7) • 1) 2 6 ∧
    dleqOpens (1 : ZMod 7) 4 1 (2 : ZMod 7) 3 ((3 : ZMod 7) • 1) 2 6 := by decide

/-- Knowledge soundness (witness extraction), the strongest algebraic form: from two openings of one commitment with
different challenges one COMPUTES `w = (s − s')/(e − e')` with `A = w•g` and `C' = w•B'`; nothing is assumed about
`g`, `A`, `B'`, `C'`. (`dleq_special_sound` is the corollary for `A = a•g`, `g ≠ 0`.) -/
theorem dleq_extract {e e' s s' : ZMod n} {R1 R2 A B' C' : G}
    (h : dleqOpens g R1 R2 e s A B' C') (h' : dleqOpens g R1 R2 e' s' A B' C') (hne : e ≠ e') :
    A = ((s - s') * (e - e')⁻¹) • g ∧ C' = ((s - s') * (e - e')⁻¹) • B' :=
  opens_extract h h' hne

-- a = 3 is recovered from the two openings of the commitment (4, 1) above: (0 − 3) = 3·(1 − 2), i.e. w = 3
example : ((0 : ZMod 7) - 3) = 3 * ((1 : ZMod 7) - 2) ∧ (1 : ZMod 7) ≠ 2 := by decide

/-- Contrapositive with the hash in place: two accepted transcripts with the same recomputed `(R1, R2)` and different
challenges prove `C' = a•B'` (the discrete logs are equal). -/
theorem dleq_special_sound_hash {a e e' s s' : ZMod n} {B' C' : G} (hg : g ≠ 0)
    (hR1 : (dleqInput g e s (a • g) B' C').1 = (dleqInput g e' s' (a • g) B' C').1)
    (hR2 : (dleqInput g e s (a • g) B' C').2.1 = (dleqInput g e' s' (a • g) B' C').2.1)
    (hne : e ≠ e') : C' = a • B' :=
  opens_two_challenges (R1 := (dleqInput g e s (a • g) B' C').1) (R2 := (dleqInput g e s (a • g) B' C').2.1)
    hg ⟨rfl, rfl⟩ ⟨hR1.symm, hR2.symm⟩ hne

/-- What an accepted proof for a FALSE statement (`C' ≠ a•B'`) must have achieved: with `(R1, R2)` the commitment the
verifier recomputes, `e` is the only challenge that opens `(R1, R2)` at all, and `hashE (R1, R2, A, C')` hit it. -/
theorem dleq_forgery_unique_challenge {a e s : ZMod n} {B' C' : G} (hg : g ≠ 0) (hC : C' ≠ a • B')
    (h : dleqVerify g hashE e s (a • g) B' C') :
    let x := dleqInput g e s (a • g) B' C'
    hashE x = e ∧ ∀ e' s', dleqOpens g x.1 x.2.1 e' s' (a • g) B' C' → e' = e :=
  ⟨h.symm, fun e' s' h' => dleq_special_sound g hg hC _ _ e' e s' s h' ⟨rfl, rfl⟩⟩

/-- "A signature made with a different key than the published one is detected": `C' = a'•B'` with `a' ≠ a`, `B' ≠ 0`
is a false statement for the published key `a•g`, so `dleq_special_sound` applies. -/
theorem dleq_wrong_key_unique_challenge {a a' : ZMod n} {B' : G} (hg : g ≠ 0) (hB : B' ≠ 0) (ha : a' ≠ a)
    (R1 R2 : G) (e e' s s' : ZMod n)
    (h : dleqOpens g R1 R2 e s (a • g) B' (a' • B')) (h' : dleqOpens g R1 R2 e' s' (a • g) B' (a' • B')) : e = e' :=
  dleq_special_sound g hg (fun hx => ha (smul_left_cancel_of_ne_zero hB hx)) R1 R2 e e' s s' h h'

example : (1 : ZMod 7) ≠ 0 ∧ (2 : ZMod 7) ≠ 0 ∧ (4 : ZMod 7) ≠ 3 ∧
    dleqOpens (1 : ZMod 7) 5 1 (1 : ZMod 7) 1 ((3 : ZMod 7) • 1) 2 ((4 : ZMod 7) • 2) := by decide

/-- For a fixed challenge the response is unique (`g ≠ 0`). -/
theorem dleq_response_unique {e s s' : ZMod n} {A B' C' R1 R2 : G} (hg : g ≠ 0)
    (h : dleqOpens g R1 R2 e s A B' C') (h' : dleqOpens g R1 R2 e s' A B' C') : s = s' :=
  smul_left_cancel_of_ne_zero hg (add_right_cancel (h.1.trans h'.1.symm))

/-- `s` changed (same `e`): `R1 = sG − eA` changes because `g ≠ 0`; the two hash inputs collide. -/
theorem dleq_tamper_s {e s s' : ZMod n} {A B' C' : G} (hg : g ≠ 0) (hs : s ≠ s')
    (h : dleqVerify g hashE e s A B' C') (h' : dleqVerify g hashE e s' A B' C') :
    Collides hashE (dleqInput g e s A B' C') (dleqInput g e s' A B' C') :=
  ⟨fun hx => smul_ne_of_ne hg hs (add_right_cancel (congrArg Prod.fst hx)), h.symm.trans h'⟩

example : (1 : ZMod 7) ≠ 0 ∧ (6 : ZMod 7) ≠ 5 ∧ dleqVerify (1 : ZMod 7) hconst 3 6 1 2 6 ∧
    dleqVerify (1 : ZMod 7) hconst 3 5 1 2 6 := by decide

/-- `B'` replaced: `R2 = sB' − eC'` changes unless `s = 0`. -/
theorem dleq_tamper_B' {e s : ZMod n} {A B₁ B₂ C' : G} (hB : B₁ ≠ B₂)
    (h : dleqVerify g hashE e s A B₁ C') (h' : dleqVerify g hashE e s A B₂ C') :
    s = 0 ∨ Collides hashE (dleqInput g e s A B₁ C') (dleqInput g e s A B₂ C') := by
  by_cases hs : s = 0
  · exact Or.inl hs
  · exact Or.inr ⟨fun hx => hB (smul_right_cancel_of_ne_zero hs
      (add_right_cancel (congrArg (fun x => x.2.1) hx))), h.symm.trans h'⟩

example : (2 : ZMod 7) ≠ 4 ∧ dleqVerify (1 : ZMod 7) hconst 3 6 1 2 6 ∧ dleqVerify (1 : ZMod 7) hconst 3 6 1 4 6 := by
  decide
-- the `s = 0` disjunct with a hash that is NOT constant: accepted for every `B'` although nothing collides
example : dleqVerify (1 : ZMod 7) h7 5 0 1 2 0 ∧ dleqVerify (1 : ZMod 7) h7 5 0 1 4 0 ∧
    dleqInput (1 : ZMod 7) (5 : ZMod 7) 0 1 2 0 = dleqInput (1 : ZMod 7) (5 : ZMod 7) 0 1 4 0 := by decide

/-- When do two transcripts with the same `e` make the verifier hash the SAME tuple? Exactly when `s`, `A`, `C'` agree and
(`s = 0` or `B'` agrees). (`g ≠ 0`.) -/
theorem dleqInput_eq_iff {e s s₂ : ZMod n} {A A₂ B₁ B₂ C₁ C₂ : G} (hg : g ≠ 0) :
    dleqInput g e s A B₁ C₁ = dleqInput g e s₂ A₂ B₂ C₂ ↔ s = s₂ ∧ A = A₂ ∧ C₁ = C₂ ∧ (s = 0 ∨ B₁ = B₂) := by
  constructor
  · intro hx
    have hA : A = A₂ := congrArg (fun x => x.2.2.1) hx
    have hC : C₁ = C₂ := congrArg (fun x => x.2.2.2) hx
    subst hA hC
    have hs : s = s₂ := smul_left_cancel_of_ne_zero hg (add_right_cancel (congrArg Prod.fst hx))
    subst hs
    refine ⟨rfl, rfl, rfl, ?_⟩
    by_cases h0 : s = 0
    · exact Or.inl h0
    · exact Or.inr (smul_right_cancel_of_ne_zero h0 (add_right_cancel (congrArg (fun x => x.2.1) hx)))
  · rintro ⟨rfl, rfl, rfl, h0 | rfl⟩
    · subst h0; simp only [dleqInput, zero_smul]
    · rfl

/-- The general tamper statement (ANY simultaneous change of `s, A, B', C'`, same `e`): if both transcripts are
accepted then either the verifier hashes the same tuple for both — which by `dleqInput_eq_iff` means `s, A, C'` are
unchanged and (`s = 0` or `B'` is unchanged) — or the two hashed tuples are an explicit collision. The single-field
lemmas above and below are the special cases. -/
theorem dleq_tamper_any {e s s₂ : ZMod n} {A A₂ B₁ B₂ C₁ C₂ : G} (hg : g ≠ 0)
    (h : dleqVerify g hashE e s A B₁ C₁) (h' : dleqVerify g hashE e s₂ A₂ B₂ C₂) :
    (s = s₂ ∧ A = A₂ ∧ C₁ = C₂ ∧ (s = 0 ∨ B₁ = B₂)) ∨
      Collides hashE (dleqInput g e s A B₁ C₁) (dleqInput g e s₂ A₂ B₂ C₂) := by
  by_cases hx : dleqInput g e s A B₁ C₁ = dleqInput g e s₂ A₂ B₂ C₂
  · exact Or.inl ((dleqInput_eq_iff g hg).mp hx)
  · exact Or.inr ⟨hx, h.symm.trans h'⟩

/-- proof-DLEQ version: any simultaneous change of `s, r, A, Y, C` (same `e`). The non-colliding case is exactly:
`s`, `A` and the re-blinded `C' = C + rA` unchanged and (`s = 0` or the re-blinded `B' = Y + rG` unchanged), i.e. the
two proofs are re-blindings of one another (`Y₂ = Y + (r − r₂)G`, `C₂ = C + (r − r₂)A`) — three fields changed at
once, and `Y₂` would have to be a `HashToCurve` output with a known discrete-log relation to `Y`. -/
theorem proofDleq_tamper_any {e s s₂ r r₂ : ZMod n} {A A₂ Y Y₂ C C₂ : G} (hg : g ≠ 0)
    (h : proofDleqVerify g hashE e s r A Y C) (h' : proofDleqVerify g hashE e s₂ r₂ A₂ Y₂ C₂) :
    (s = s₂ ∧ A = A₂ ∧ C + r • A = C₂ + r₂ • A₂ ∧ (s = 0 ∨ blind g Y r = blind g Y₂ r₂)) ∨
      Collides hashE (dleqInput g e s A (blind g Y r) (C + r • A)) (dleqInput g e s₂ A₂ (blind g Y₂ r₂) (C₂ + r₂ • A₂)) :=
  dleq_tamper_any g hashE hg h h'

-- the re-blinding degeneracy is real: Y₂ = Y + (r − r₂)g, C₂ = C + (r − r₂)A give the same hashed tuple
example : dleqInput (1 : ZMod 7) (3 : ZMod 7) 6 3 (blind (1 : ZMod 7) 2 (5 : ZMod 7)) (6 + (5 : ZMod 7) • 3)
    = dleqInput (1 : ZMod 7) (3 : ZMod 7) 6 3 (blind (1 : ZMod 7) 4 (3 : ZMod 7)) (5 + (3 : ZMod 7) • 3) := by decide

/-- proof-DLEQ, `s` changed. -/
theorem proofDleq_tamper_s {e s s' r : ZMod n} {A Y C : G} (hg : g ≠ 0) (hs : s ≠ s')
    (h : proofDleqVerify g hashE e s r A Y C) (h' : proofDleqVerify g hashE e s' r A Y C) :
    Collides hashE (dleqInput g e s A (blind g Y r) (C + r • A)) (dleqInput g e s' A (blind g Y r) (C + r • A)) :=
  dleq_tamper_s g hashE hg hs h h'

/-- proof-DLEQ, secret edited ⇒ `Y = HashToCurve(secret)` changes (`Y ≠ Y'`, i.e. no hash-to-curve collision) ⇒ the
re-blinded `B' = Y + rG` changes: `s = 0 ∨` collision. -/
theorem proofDleq_tamper_secret {e s r : ZMod n} {A Y Y' C : G} (hY : Y ≠ Y')
    (h : proofDleqVerify g hashE e s r A Y C) (h' : proofDleqVerify g hashE e s r A Y' C) :
    s = 0 ∨ Collides hashE (dleqInput g e s A (blind g Y r) (C + r • A))
      (dleqInput g e s A (blind g Y' r) (C + r • A)) :=
  dleq_tamper_B' g hashE (fun hx => hY (add_right_cancel hx)) h h'

example : (2 : ZMod 7) ≠ 4 ∧ proofDleqVerify (1 : ZMod 7) hconst 3 6 5 1 2 6 ∧
    proofDleqVerify (1 : ZMod 7) hconst 3 6 5 1 4 6 := by decide

/-- proof-DLEQ, `r` changed, for a real public key (`A ≠ 0`): `C' = C + rA` changes. -/
theorem proofDleq_tamper_r {e s r r' : ZMod n} {A Y C : G} (hA : A ≠ 0) (hr : r ≠ r')
    (h : proofDleqVerify g hashE e s r A Y C) (h' : proofDleqVerify g hashE e s r' A Y C) :
    Collides hashE (dleqInput g e s A (blind g Y r) (C + r • A)) (dleqInput g e s A (blind g Y r') (C + r' • A)) :=
  ⟨fun hx => smul_ne_of_ne hA hr (add_left_cancel (congrArg (fun x => x.2.2.2) hx)), h.symm.trans h'⟩

example : (1 : ZMod 7) ≠ 0 ∧ (5 : ZMod 7) ≠ 4 ∧ proofDleqVerify (1 : ZMod 7) hconst 3 6 5 1 2 6 ∧
    proofDleqVerify (1 : ZMod 7) hconst 3 6 4 1 2 6 := by decide

/-- … and without assuming `A ≠ 0` (only `g ≠ 0`): the exact degeneracy is `A = 0 ∧ s = 0`. -/
theorem proofDleq_tamper_r_general {e s r r' : ZMod n} {A Y C : G} (hg : g ≠ 0) (hr : r ≠ r')
    (h : proofDleqVerify g hashE e s r A Y C) (h' : proofDleqVerify g hashE e s r' A Y C) :
    (A = 0 ∧ s = 0) ∨
      Collides hashE (dleqInput g e s A (blind g Y r) (C + r • A)) (dleqInput g e s A (blind g Y r') (C + r' • A)) := by
  by_cases hA : A = 0
  · by_cases hs : s = 0
    · exact Or.inl ⟨hA, hs⟩
    · refine Or.inr ⟨fun hx => ?_, h.symm.trans h'⟩
      have h2 := congrArg (fun x => x.2.1) hx
      simp only [dleqInput, hA, smul_zero, add_zero] at h2
      exact smul_ne_of_ne hg hr (add_left_cancel (smul_right_cancel_of_ne_zero hs (add_right_cancel h2)))
  · exact Or.inr (proofDleq_tamper_r g hashE hA hr h h')

/-- `A = 0 ∧ s = 0` really ignores `r`. -/
theorem proofDleq_degenerate_ignores_r (e r r' : ZMod n) (Y C : G) :
    proofDleqVerify g hashE e 0 r 0 Y C ↔ proofDleqVerify g hashE e 0 r' 0 Y C := by
  simp only [proofDleqVerify, dleqVerify, dleqInput, zero_smul, smul_zero, add_zero]

/-- A changed `e` (same `s`, and `A ≠ 0`) makes the verifier hash a DIFFERENT input: the starting point of the
random-oracle argument that this file does not (and cannot) carry out. -/
theorem dleq_tamper_e_fresh_input {e e' s : ZMod n} {A B' C' : G} (hA : A ≠ 0) (he : e ≠ e') :
    dleqInput g e s A B' C' ≠ dleqInput g e' s A B' C' := by
  intro hx
  have h1 : (-e) • A = (-e') • A := add_left_cancel (congrArg Prod.fst hx)
  exact he (neg_injective (smul_left_cancel_of_ne_zero hA h1))

end Prime

/-! ## The random-oracle argument in COUNTING form

`Nat.card {h // …}` counts hash FUNCTIONS `h : G⁴ → ZMod n`. "Exactly a `1/n` fraction of the functions that accept
transcript `T` also accept `T'`" is the statement "for a uniformly random function (a random oracle), the probability
that `T'` is accepted given that `T` is accepted is exactly `1/n`" — for transcripts fixed independently of the
function (one non-adaptive attempt; an adversary with `q` hash queries gets `q` attempts). It says nothing about the one
concrete function SHA-256. For infinite `G` all counts are `0`; `dleq_accepting_hashes_pos` is the finite case. -/
section RandomOracle
variable {n : ℕ} {G : Type*} [AddCommGroup G] [Module (ZMod n) G]
variable (g : G)

/-- Any fixed transcript is accepted by exactly a `1/n` fraction of all hash functions (so also: a fixed proof for a
false statement, cf. `dleq_forgery_unique_challenge`). -/
theorem dleq_accept_fraction (e s : ZMod n) (A B' C' : G) :
    Nat.card {h : G × G × G × G → ZMod n // dleqVerify g h e s A B' C'} * n
      = Nat.card (G × G × G × G → ZMod n) := by
  classical
  have := card_fix_value (β := ZMod n) (dleqInput g e s A B' C') e
  rwa [Nat.card_zmod] at this

/-- Two transcripts whose hash inputs differ: among the hash functions accepting the first, exactly a `1/n` fraction
accepts the second. -/
theorem dleq_fresh_input_random_oracle {e e' s s' : ZMod n} {A A₂ B₁ B₂ C₁ C₂ : G}
    (hx : dleqInput g e s A B₁ C₁ ≠ dleqInput g e' s' A₂ B₂ C₂) :
    Nat.card {h : G × G × G × G → ZMod n // dleqVerify g h e s A B₁ C₁ ∧ dleqVerify g h e' s' A₂ B₂ C₂} * n
      = Nat.card {h : G × G × G × G → ZMod n // dleqVerify g h e s A B₁ C₁} := by
  classical
  have := card_fix_one_more (β := ZMod n) (fun h => dleqVerify g h e s A B₁ C₁) (dleqInput g e' s' A₂ B₂ C₂) e'
    (fun h c => by simp only [dleqVerify, Function.update_of_ne hx])
  rwa [Nat.card_zmod] at this

/-- `e` changed alone (real public key `A ≠ 0`): among the hash functions under which the original transcript is
accepted, exactly a `1/n` fraction accepts the transcript with `e` replaced by `e'`. -/
theorem dleq_tamper_e_random_oracle [Fact n.Prime] {e e' s : ZMod n} {A B' C' : G} (hA : A ≠ 0) (he : e ≠ e') :
    Nat.card {h : G × G × G × G → ZMod n // dleqVerify g h e s A B' C' ∧ dleqVerify g h e' s A B' C'} * n
      = Nat.card {h : G × G × G × G → ZMod n // dleqVerify g h e s A B' C'} :=
  dleq_fresh_input_random_oracle g (dleq_tamper_e_fresh_input g hA he)

/-- … and for a finite group that set of hash functions is non-empty (so the fraction is a genuine `1/n`). -/
theorem dleq_accepting_hashes_pos [Fact n.Prime] [Finite G] (e s : ZMod n) (A B' C' : G) :
    0 < Nat.card {h : G × G × G × G → ZMod n // dleqVerify g h e s A B' C'} := by
  have : NeZero n := ⟨(Fact.out : n.Prime).ne_zero⟩
  have : Nonempty {h : G × G × G × G → ZMod n // dleqVerify g h e s A B' C'} := ⟨⟨fun _ => e, rfl⟩⟩
  exact Nat.card_pos

-- hypotheses satisfiable: ZMod 7, A = 3 ≠ 0, e = 3 accepted under h7, e' = 4
example : (3 : ZMod 7) ≠ 0 ∧ (3 : ZMod 7) ≠ 4 ∧ dleqVerify (1 : ZMod 7) h7 3 6 3 2 6 := by decide

end RandomOracle

end Gonuts.Props.C10
