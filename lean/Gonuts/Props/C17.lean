import Gonuts.Lemmas.WalletBooksMint
/-!
  C17 — wallet balance truthful, no value lost (against an honest mint).

  Model: `Gonuts/Model/WalletBooks.lean` (every wallet API call as a program with one effect per `w.db.X` /
  `client.Y` call, the abstract honest mint, histories `runHist`, crash prefixes `applyOpN`).  The property
  predicates are the executable `wBalance`, `wDistinct`, `wPending`, `wConserve` of the model.
-/
namespace Gonuts.Props.C17
open Gonuts.Model Gonuts.Model.WalletBooks

/-- closed selection functions for the witnesses: `Model.Select` with the stable sorter and an integer version
    of `swapProofs`' float arithmetic (any function will do: the theorems quantify over it) -/
def selK : Sel := { selStable with swapAmount := fun a n => a * 99 / 100 - UInt64.ofNat n }

/-- two mints without fees; wallet 0 lives at mint 0, wallet 1 at mint 1 -/
def w0 : World := initWorld selK [0, 0] [(0, 0), (1, 1)]

/-! ## W_balance -/

/-- `GetBalance` is the (wrapping) sum of the spendable bucket, `PendingBalance` that of the pending bucket. -/
theorem W_balance_sum (x : Wallet) :
    getBalance x = amountWrap (x.db.proofs.map (·.amount)) ∧ pendingBalance x = amountWrap (x.db.pending.map (·.p.amount)) :=
  ⟨rfl, rfl⟩

example : getBalance ((runHist selK w0 [.mintReq 0 0 64, .settle 0 0, .mintTokens 0 0]).wallet 0) = 64 := by decide +kernel

/-! ## W_distinct -/

/-- Within each bucket of each wallet the secrets are pairwise distinct — after EVERY history, for every
    selection function, and also when operations are cut short by a wallet crash at any call. -/
theorem W_distinct_buckets (sel : Sel) (w : World) (hw : Keyed w) (ops : List Op) : Keyed (runHist sel w ops) :=
  Keyed_runHist sel w ops hw

theorem W_distinct_buckets_crash (sel : Sel) (w : World) (hw : Keyed w) (ops : List Op) (op : Op) (n : Nat) :
    Keyed (applyOpN sel (runHist sel w ops) op n).1 :=
  Keyed_applyOpN sel _ op n (Keyed_runHist sel w ops hw)

example : Keyed w0 := by decide +kernel

/-! ## the mint's side of the books (used by W_balance / W_conserve) -/

/-- At every mint, after every history and every crash prefix: no output is signed twice, spent and locked
    secrets are distinct and disjoint, and every one of them was signed by this mint with that amount. -/
theorem mint_books_ok (sel : Sel) (w : World) (hw : MintsOK w) (ops : List Op) : MintsOK (runHist sel w ops) :=
  MintsOK_runHist sel w ops hw

theorem mint_books_ok_crash (sel : Sel) (w : World) (hw : MintsOK w) (ops : List Op) (op : Op) (n : Nat) :
    MintsOK (applyOpN sel (runHist sel w ops) op n).1 :=
  MintsOK_applyOpN sel _ op n (MintsOK_runHist sel w ops hw)

/-! ## W_conserve — FALSE on the code as it is -/

/-- Full statement: after every history, every output a mint has signed and not seen spent is in a wallet
    bucket or in a token returned to a caller. -/
def W_conserve_full : Prop := ∀ (sel : Sel) (ops : List Op), wConserve (runHist sel w0 ops) = true

/-- F12: `MintSwap` whose melt is answered UNPAID: the 32 sat selected are in no bucket, unspent at the mint. -/
def opsF12 : List Op :=
  [.mintReq 0 0 64, .settle 0 0, .mintTokens 0 0, .addMint 0 1, .mintSwap 0 32 0 1 [.failed, .failed]]

theorem F12_witness :
    wConserve (runHist selK w0 opsF12) = false ∧ getBalance ((runHist selK w0 opsF12).wallet 0) = 32 ∧
    ((runHist selK w0 opsF12).mint 0).spent = [] := by decide +kernel

theorem W_conserve_full_false : ¬ W_conserve_full := fun h => by
  have := h selK opsF12
  rw [F12_witness.1] at this
  cases this

/-- the same history with the melt PAID conserves value -/
example : wConserve (runHist selK w0
    [.mintReq 0 0 64, .settle 0 0, .mintTokens 0 0, .addMint 0 1, .mintSwap 0 32 0 1 [.succ 0]]) = true := by decide +kernel

end Gonuts.Props.C17
