import Gonuts.Lemmas.MintConc
import Gonuts.Lemmas.MintSeq
import Gonuts.Props.C01
import Gonuts.Lemmas.SwapCrash
import Gonuts.Lemmas.MintCrash
import Gonuts.Lemmas.MeltPay
import Gonuts.Lemmas.PollCrash
/-!
  C07 — mint crash consistency.

  The events are those of `Model/MintConc.lean`: a request becomes a thread, each `step` performs exactly one storage /
  Lightning call (or makes that call fail), `crash` drops every continuation, keeps the tables exactly as the last
  completed call left them and rebuilds the keyset cache from storage (`LoadMint`).

  PROVED for every event sequence (every operation, every interruption point, any number of kills and faults, any
  requests in flight, any inputs):
    durability — a SPENT row, a stored signature, a keyset's index and fee, a quote's terms are never lost;
    safety     — unique keys of the spent / pending / signature tables hold at every point; a secret that is SPENT
                 is refused by every later request; a kill changes no table.
  FALSE of the code, with kernel-checked witnesses replayed against the real mint by stream `mint-crash`:
    atomicity  — `swap_atomic_full_false` (inputs SPENT, outputs not restorable),
                 `mint_atomic_full_false` (quote PENDING / ISSUED for ever, nothing restorable);
    safety     — `melt_safety_full_false` (killed between `RemovePendingProofs` and `SaveProofs`: the invoice is paid
                 and the inputs are spendable again);
    start-up   — `rotate_restart_full_false` (killed between the two writes of a rotation: no active keyset, `LoadMint`
                 dereferences nil).
  The complete interruption tables of the canonical instances (`*_table`) are checked by `decide`; they are TESTS of
  the model (one instance each), kept because stream `mint-crash` compares the real mint with the model on exactly
  these operations at every point.
-/
namespace Gonuts.Props.C07
open Gonuts.Model Gonuts.Model.Mint

/-! ## Durability and safety at every interruption point (all inputs, all histories) -/

theorem durable_spent (row : PRow) (c : CSess) (evts : List CEvt) (h : row ∈ c.s.w.db.spent) :
    row ∈ (runCEvts c evts).s.w.db.spent := runCEvts_db (spent_mono_db row) c evts h

theorem durable_signature (row : BSig) (c : CSess) (evts : List CEvt) (h : row ∈ c.s.w.db.sigs) :
    row ∈ (runCEvts c evts).s.w.db.sigs := runCEvts_db (sigs_mono_db row) c evts h

/-- A keyset is never removed and never changes derivation index or fee: the keys (derived from seed + index) of
    every keyset are the same after any history of kills and faults. -/
theorem durable_keyset (k : KsRow) (c : CSess) (evts : List CEvt) (h : k ∈ c.s.w.db.keysets) :
    ∃ k' ∈ (runCEvts c evts).s.w.db.keysets, k'.idx = k.idx ∧ k'.fee = k.fee :=
  runCEvts_db (keyset_stable_db k.idx k.fee) c evts ⟨k, h, rfl, rfl⟩

theorem durable_mint_quote (q : MintQ) (c : CSess) (evts : List CEvt) (h : q ∈ c.s.w.db.mintQ) :
    ∃ q' ∈ (runCEvts c evts).s.w.db.mintQ, q'.id = q.id ∧ q'.amount = q.amount ∧ q'.hash = q.hash ∧ q'.pubkey = q.pubkey :=
  runCEvts_db (mintQuote_stable_db q) c evts ⟨q, h, rfl, rfl, rfl, rfl⟩

theorem durable_melt_quote (q : MeltQ) (c : CSess) (evts : List CEvt) (h : q ∈ c.s.w.db.meltQ) :
    ∃ q' ∈ (runCEvts c evts).s.w.db.meltQ, q'.id = q.id ∧ q'.inv = q.inv ∧ q'.amount = q.amount ∧
      q'.feeReserve = q.feeReserve ∧ q'.isMpp = q.isMpp ∧ q'.amountMsat = q.amountMsat :=
  runCEvts_db (meltQuote_stable_db q) c evts ⟨q, h, rfl, rfl, rfl, rfl, rfl, rfl⟩

/-- A kill changes no table, and the restarted mint's keyset cache is a function of storage alone. -/
theorem kill_keeps_tables (c : CSess) : (crashAll c).s.w.db = c.s.w.db := rfl
theorem restart_cache_from_storage (c : CSess) : (crashAll c).s.w.mem = memOfDb c.s.w.db := rfl
theorem kill_drops_every_request (c : CSess) : (crashAll c).threads = [] := rfl

/-- The unique keys hold at every point of every history that starts from a fresh mint. -/
theorem unique_keys_always (fee : UInt64) (pct : Bool) (cfg : Cfg) (evts : List CEvt) :
    (ysOf (runCEvts (initC fee pct cfg) evts).s.w.db.spent).Nodup ∧
    (ysOf (runCEvts (initC fee pct cfg) evts).s.w.db.pending).Nodup ∧
    ((runCEvts (initC fee pct cfg) evts).s.w.db.sigs.map (·.b)).Nodup :=
  ⟨runCEvts_db spent_nodup_db _ evts (by simp [initC, initSess, ysOf]),
   runCEvts_db pending_nodup_db _ evts (by simp [initC, initSess, ysOf]),
   runCEvts_db sigs_nodup_db _ evts (by simp [initC, initSess])⟩

/-- Spent stays unspendable: whatever kills, faults and overlapping requests happened, a request presenting a secret
    of the spent table is refused afterwards and changes nothing. -/
theorem spent_refused_after_restart (c : CSess) (evts : List CEvt) (row : PRow) (h : row ∈ c.s.w.db.spent)
    (hf : NoFault (runCEvts c evts).s.w) (ps : List Proof) (outs : List BMsg) (v : Option E) (hp : ∃ p ∈ ps, p.secret = row.y) :
    ∃ e, (applyOp (runCEvts c evts).s (.swap ps outs v)).2 = .sigs (.error e) ∧
      (applyOp (runCEvts c evts).s (.swap ps outs v)).1.w.db = (runCEvts c evts).s.w.db :=
  C01.used_refused_after_anything c evts row h hf ps outs v hp

/-! ## Atomicity of swap, exactly (all requests, all worlds, all interruption points, with or without an armed fault) -/

/-- A killed or faulted swap leaves one of exactly three states: nothing; the inputs in the spent table; the inputs
    spent AND the signatures stored.  (The middle one is the stranding point; `swap_atomic_full_false`.) -/
theorem swap_interrupted_states (cx : Cx) (ps : List Proof) (outs : List BMsg) (v : Option E) (n : Nat) (w : World) :
    ((swap cx ps outs v).run.runN n w).1.db = w.db ∨
    ∃ t, insertRows w.db.spent (ps.map Proof.row) = some t ∧
      (((swap cx ps outs v).run.runN n w).1.db = { w.db with spent := t } ∨
       ∃ sigs t2, insertSigs w.db.sigs sigs = some t2 ∧
         ((swap cx ps outs v).run.runN n w).1.db = { w.db with spent := t, sigs := t2 }) :=
  swap_crash_states cx ps outs v n w

/-- Safety at every interruption point: a swap never stores a signature unless all its inputs are in the spent table. -/
theorem swap_never_signs_without_spending (cx : Cx) (ps : List Proof) (outs : List BMsg) (v : Option E) (n : Nat) (w : World)
    (hs : ((swap cx ps outs v).run.runN n w).1.db.sigs ≠ w.db.sigs) :
    ∀ p ∈ ps, p.secret ∈ ysOf ((swap cx ps outs v).run.runN n w).1.db.spent := by
  rcases swap_crash_states cx ps outs v n w with h | ⟨t, hins, h | ⟨sigs, t2, _, h⟩⟩
  · rw [h] at hs; exact absurd rfl hs
  · rw [h] at hs; exact absurd rfl hs
  · intro p hp
    rw [h]
    obtain ⟨ht, _⟩ := insertRows_some hins
    show p.secret ∈ ysOf t
    rw [ht]
    simp only [ysOf, List.map_append, List.mem_append, List.mem_map]
    right
    exact ⟨p.row, ⟨p, hp, rfl⟩, rfl⟩

/-- A killed or faulted `MintTokens` (any request, world, interruption point, armed fault) leaves one of exactly three
    states: nothing; only the STATE of one mint quote changed; that quote ISSUED and the signatures stored.  No other table
    is touched.  (`Lemmas/WriteShape.lean`: a Hoare logic over the writes of a program; `Lemmas/MintCrash.lean`: the write
    automaton of MintTokens, its soundness for the storage semantics, and the walk over the program's binds.) -/
theorem mint_interrupted_states (cx : Cx) (qid : Int) (outs : List BMsg) (sig : QSig) (n : Nat) (w : World) :
    let db' := ((mintTokens cx qid outs sig).run.runN n w).1.db
    db' = w.db ∨
    (∃ id s, db' = { w.db with mintQ := updMintQ w.db.mintQ id s }) ∨
    (∃ id sigs t2, insertSigs w.db.sigs sigs = some t2 ∧
      db' = { w.db with mintQ := updMintQ w.db.mintQ id .issued, sigs := t2 }) :=
  mint_crash_states cx qid outs sig n w

/-- Safety at every interruption point: `MintTokens` never stores a signature unless, in the same tables, the quote is
    ISSUED — so a restart can never issue for that payment a second time (`C03.issued_refuses`). -/
theorem mint_never_signs_unless_issued (cx : Cx) (qid : Int) (outs : List BMsg) (sig : QSig) (n : Nat) (w : World)
    (hs : ((mintTokens cx qid outs sig).run.runN n w).1.db.sigs ≠ w.db.sigs) :
    ∃ id, ((mintTokens cx qid outs sig).run.runN n w).1.db.mintQ = updMintQ w.db.mintQ id .issued := by
  rcases mint_crash_states cx qid outs sig n w with h | ⟨id, s, h⟩ | ⟨id, sigs, t2, _, h⟩
  · rw [h] at hs; exact absurd rfl hs
  · rw [h] at hs; exact absurd rfl hs
  · exact ⟨id, by rw [h]⟩

/-- … and it never touches the spent, pending, melt-quote or keyset tables, whatever happens -/
theorem mint_touches_only_quote_and_signatures (cx : Cx) (qid : Int) (outs : List BMsg) (sig : QSig) (n : Nat) (w : World) :
    let db' := ((mintTokens cx qid outs sig).run.runN n w).1.db
    db'.spent = w.db.spent ∧ db'.pending = w.db.pending ∧ db'.meltQ = w.db.meltQ ∧ db'.keysets = w.db.keysets := by
  rcases mint_crash_states cx qid outs sig n w with h | ⟨id, s, h⟩ | ⟨id, sigs, t2, _, h⟩ <;> simp [h]

/-! ## Canonical instances: one proof of 8 (secret 7), one output (B_ 1), one quote of 8 -/

def k0 : Proof := { amount := 8, ks := .known 0, secret := 7, long := false, c := .sig 0 8 7, cEnc := 0, witness := 0, dleq := 0, lock := .plain }
def o0 : BMsg := { amount := 8, ks := .known 0, b := .pt 1, witness := 0 }
def o1 : BMsg := { amount := 8, ks := .known 0, b := .pt 2, witness := 0 }

/-- The state after: set-up `pre`, `n` calls of thread `tid`, kill, restart. -/
def killed (pre : List CEvt) (tid n : Nat) : CSess :=
  runCEvts (initC 0 false {}) (pre ++ List.replicate n (.step tid false) ++ [.crash])

def swapPre : List CEvt := [.spawn 1 (.swap [k0] [o0] none)]
def mintPre : List CEvt := [.seq (.mintQuote 8 true .none false), .seq (.settle 0), .spawn 1 (.mint 0 [o0] .none)]
def meltPre : List CEvt :=
  [.seq (.extInvoice 0 8000), .seq (.meltQuote (.inv 0) true none), .script [.succ], .spawn 1 (.melt 0 [k0] [] false)]
def rotPre : List CEvt := [.spawn 1 (.rotate 100)]

/-- swap, killed after n = 0..5 calls: (spent secrets, signed B_s). Point 4 is the stranding point. -/
theorem swap_table : (List.range 6).map (fun n => ((killed swapPre 1 n).s.w.db.spent.map (·.y), (killed swapPre 1 n).s.w.db.sigs.map (·.b))) =
    [([], []), ([], []), ([], []), ([], []), ([7], []), ([7], [1])] := by decide

/-- mint, killed after n = 0..8 calls: (quote state, signed B_s). Points 4–7 leave the paid quote PENDING or ISSUED with
    nothing signed. -/
theorem mint_table : (List.range 9).map (fun n => ((killed mintPre 1 n).s.w.db.mintQ.map (·.state.str), (killed mintPre 1 n).s.w.db.sigs.map (·.b))) =
    [(["UNPAID"], []), (["UNPAID"], []), (["UNPAID"], []), (["PAID"], []), (["PENDING"], []), (["PENDING"], []),
     (["ISSUED"], []), (["ISSUED"], [1]), (["ISSUED"], [1])] := by decide

/-- melt with the payment succeeding, killed after n = 0..10 calls: (locked, spent, quote state, backend answers). -/
theorem melt_table : (List.range 11).map (fun n => ((killed meltPre 1 n).s.w.db.pending.map (·.y), (killed meltPre 1 n).s.w.db.spent.map (·.y),
      (killed meltPre 1 n).s.w.db.meltQ.map (·.state.str), (killed meltPre 1 n).s.w.ln.calls.map (·.ans))) =
    [([], [], ["UNPAID"], []), ([], [], ["UNPAID"], []), ([], [], ["UNPAID"], []), ([], [], ["UNPAID"], []),
     ([7], [], ["UNPAID"], []), ([7], [], ["PENDING"], []), ([7], [], ["PENDING"], []), ([7], [], ["PENDING"], ["succ"]),
     ([], [], ["PENDING"], ["succ"]), ([], [7], ["PENDING"], ["succ"]), ([], [7], ["PAID"], ["succ"])] := by decide

/-- Safety of melt at every interruption point BEFORE the payment: whenever `MeltTokens` is about to ask the backend to
    pay (any request, world, number of calls made, armed fault), the inputs are in the pending table under the quote, the
    quote is PENDING and nothing else has been written (`C05.payment_only_with_inputs_locked`); so a kill at or before the
    payment call can strand locked inputs (the known points of `melt_table`) but never lets money move for inputs that are
    not locked. -/
theorem melt_pays_only_with_inputs_locked (cx : Cx) (qid : Int) (ps : List Proof) (n : Nat) (w w' : World) (β : Type) (e : Eff β)
    (hn : (meltTokens cx qid ps).run.nextN n w = some (w', ⟨β, e⟩)) (hp : isPayEff e = true) :
    ∃ id t, insertRows w.db.pending (pendRows (ps.map Proof.row) id) = some t ∧
      w'.db = { w.db with pending := t, meltQ := updMeltQ w.db.meltQ id 0 .pending } :=
  melt_pays_only_when_locked cx qid ps n w w' β e hn hp

/-- A killed or faulted POLL of a melt quote (`GetMeltQuoteState`; the state check runs it for every pending quote) leaves
    one of exactly six states — nothing; on the succeeded path: pending rows removed, + rows spent, + the quote PAID; on the
    failed path: the quote UNPAID, + pending rows removed — for every quote, world, interruption point and armed fault
    (`Lemmas/PollCrash.lean`).  The state "pending rows removed, nothing spent yet" is the unsafe window of
    `melt_safety_full_false`; there is no other partial state, and signatures, mint quotes and keysets are never touched. -/
theorem poll_interrupted_states (qid : Int) (n : Nat) (w : World) :
    let db' := ((getMeltQuoteState qid).run.runN n w).1.db
    db' = w.db ∨
    (∃ ys, db' = { w.db with pending := dropPending w.db ys }) ∨
    (∃ ys rows t, insertRows w.db.spent rows = some t ∧ db' = { w.db with pending := dropPending w.db ys, spent := t }) ∨
    (∃ ys rows t id pre, insertRows w.db.spent rows = some t ∧
      db' = { w.db with pending := dropPending w.db ys, spent := t, meltQ := updMeltQ w.db.meltQ id pre .paid }) ∨
    (∃ id, db' = { w.db with meltQ := updMeltQ w.db.meltQ id 0 .unpaid }) ∨
    (∃ id ys, db' = { w.db with meltQ := updMeltQ w.db.meltQ id 0 .unpaid, pending := dropPending w.db ys }) :=
  poll_crash_states qid n w

/-- non-vacuity: in the canonical melt the 7th call is the payment, and at that moment input 7 is locked and the quote PENDING -/
def meltSess : Sess := (runCEvts (initC 0 false {}) [.seq (.extInvoice 0 8000), .seq (.meltQuote (.inv 0) true none), .script [.succ]]).s
example : ((meltTokens (cxOf meltSess) 0 [k0]).run.nextN 6 meltSess.w).map
      (fun r => (isPayEff r.2.2, r.1.db.pending.map (·.y), r.1.db.meltQ.map (·.state.str)))
    = some (true, [7], ["PENDING"]) := by decide

/-- rotation, killed after n = 0..3 calls: (keysets with their active flag, does the mint start). -/
theorem rotate_table : (List.range 4).map (fun n => ((killed rotPre 1 n).s.w.db.keysets.map (fun k => (k.idx, k.active)), loadOk (killed rotPre 1 n).s.w.db)) =
    [([(0, true)], true), ([(0, true)], true), ([(0, false)], false), ([(0, false), (1, true)], true)] := by decide

/-! ## The property at full strength, and why it is false -/

/-- Atomicity of swap: after a kill at ANY point and a restart, inputs that are SPENT have restorable outputs. -/
def swap_atomic_full : Prop :=
  ∀ (n : Nat) (ps : List Proof) (outs : List BMsg),
    let c := killed [.spawn 1 (.swap ps outs none)] 1 n
    (∀ p ∈ ps, p.secret ∈ ysOf c.s.w.db.spent) → ∀ o ∈ outs, ∃ b, o.b = .pt b ∧ b ∈ c.s.w.db.sigs.map (·.b)

theorem swap_atomic_full_false : ¬ swap_atomic_full := by
  intro h
  have hs : ysOf (killed swapPre 1 4).s.w.db.spent = [7] := by decide
  have hg : (killed swapPre 1 4).s.w.db.sigs.map (·.b) = [] := by decide
  obtain ⟨b, _, hb⟩ := h 4 [k0] [o0] (by intro p hp; simp at hp; subst hp; show k0.secret ∈ ysOf (killed swapPre 1 4).s.w.db.spent; rw [hs]; decide) o0 (by simp)
  change b ∈ (killed swapPre 1 4).s.w.db.sigs.map (·.b) at hb
  rw [hg] at hb; cases hb

/-- … and the client cannot get out of it: the retry is refused, restore returns nothing. -/
theorem swap_stranded_for_good :
    (applyOp (killed swapPre 1 4).s (.swap [k0] [o0] none)).2 matches .sigs (.error _) ∧
    (applyOp (killed swapPre 1 4).s (.restore [1])).2 matches .restored (.ok []) := by decide

/-- Atomicity of mint: after a kill at any point and restart, a paid quote either can still be issued or its outputs
    are restorable. -/
def mint_atomic_full : Prop :=
  ∀ (n : Nat),
    let c := killed mintPre 1 n
    (applyOp c.s (.mint 0 [o0] .none)).2 matches .sigs (.ok _) ∨ (applyOp c.s (.mint 0 [o1] .none)).2 matches .sigs (.ok _) ∨
    1 ∈ c.s.w.db.sigs.map (·.b)

theorem mint_atomic_full_false : ¬ mint_atomic_full := by
  intro h
  have := h 4
  revert this; decide

/-- Safety of melt: after a kill at any point and restart, inputs whose invoice was paid are not spendable. -/
def melt_safety_full : Prop :=
  ∀ (n : Nat),
    let c := killed meltPre 1 n
    C01.paidOut c 0 = true → (applyOp c.s (.swap [k0] [o0] none)).2 matches .sigs (.error _)

theorem melt_safety_full_false : ¬ melt_safety_full := by
  intro h
  have := h 8 (by decide)
  revert this; decide

/-- Start-up after an interrupted rotation. -/
def rotate_restart_full : Prop := ∀ (n : Nat), loadOk (killed rotPre 1 n).s.w.db = true

theorem rotate_restart_full_false : ¬ rotate_restart_full := by
  intro h
  have := h 2
  revert this; decide

/-- Partial, canonical instance: at every point other than those listed as known findings the swap is atomic (inputs
    spendable again or outputs restorable). -/
theorem swap_atomic_partial : ∀ n ∈ [0, 1, 2, 3, 5],
    (7 ∉ ysOf (killed swapPre 1 n).s.w.db.spent) ∨ (1 ∈ (killed swapPre 1 n).s.w.db.sigs.map (·.b)) := by decide

end Gonuts.Props.C07
