import Gonuts.Lemmas.MintSeq
import Gonuts.Props.C01
/-!
  C04 (protocol half) — only genuine signatures are honoured, at exactly their signed amount: the gate inside
  `verifyProofs` of `Model.Mint` in the symbolic view (`C = sig ks amt secret` iff `C = k_{ks,amt}·H(secret)`); the
  algebraic justification of that view is `Props/C04.lean` (`C04_symbolic_sound` under `SigInjective`).
-/
namespace Gonuts.Props.C04Mint
open Gonuts.Model Gonuts.Model.Mint

/-- The gate accepts a proof iff: secret not too long, keyset known to the mint, amount a key of it, spending
    condition (if any) satisfied, and `C` is the genuine signature term for exactly (keyset, amount, secret). -/
theorem gate_iff (mem : Mem) (p : Proof) :
    gate mem p = .ok () ↔
      p.long = false ∧ ∃ i, p.ks = .known i ∧ mem.keysets.any (·.idx == i) = true ∧ isKeyAmount p.amount = true ∧
        p.c = .sig i p.amount p.secret ∧ lockErr p.lock = none := by
  constructor
  · exact gate_ok
  · rintro ⟨hl, i, hk, hm, ha, hc, hlock⟩
    unfold gate
    simp [hl, hk, hm, ha, hc, hlock]

/-- Swap and melt only ever accept inputs that pass the gate (so: genuine, at their signed amount, of a keyset
    the mint holds — active or not). -/
theorem swap_inputs_genuine (cx : Cx) (ps : List Proof) (outs : List BMsg) (v : Option E) (s s' : DL) (sigs : List BSig)
    (h : runM (swap cx ps outs v) s = (s', .ok sigs)) : ∀ p ∈ ps, gate cx.mem p = .ok () := by
  rcases swap_cases cx ps outs v s s' _ h with ⟨e, he, _⟩ | ⟨sigs', _, hok⟩
  · cases he
  · exact gateAll_ok (verifySpec_ok_fresh hok.verified).2.2.2.2

theorem melt_inputs_genuine (cx : Cx) (qid : Int) (ps : List Proof) (s : DL) (q : MeltQ)
    (hacc : MeltAccepted cx qid ps s q) : ∀ p ∈ ps, gate cx.mem p = .ok () :=
  gateAll_ok (verifySpec_ok_fresh hacc.verified).2.2.2.2

/-- Any single-field mutation of an accepted proof is rejected: another amount (key or not), … -/
theorem mutation_amount (mem : Mem) (p : Proof) (a : UInt64) (h : gate mem p = .ok ()) (ha : a ≠ p.amount) :
    gate mem { p with amount := a } ≠ .ok () := by
  intro h'
  obtain ⟨_, i, hk, _, _, hc, _⟩ := gate_ok h
  obtain ⟨_, i', hk', _, _, hc', _⟩ := gate_ok h'
  simp only [] at hk' hc'
  rw [hc] at hc'
  injection hc' with _ h2 _
  exact ha h2.symm

/-- … another keyset id (known or unknown), … -/
theorem mutation_keyset (mem : Mem) (p : Proof) (k : KsRef) (h : gate mem p = .ok ()) (hk : k ≠ p.ks) :
    gate mem { p with ks := k } ≠ .ok () := by
  intro h'
  obtain ⟨_, i, hk1, _, _, hc, _⟩ := gate_ok h
  obtain ⟨_, i', hk', _, _, hc', _⟩ := gate_ok h'
  simp only [] at hk' hc'
  rw [hc] at hc'
  injection hc' with h1 _ _
  apply hk; rw [hk', hk1, h1]

/-- … an edited secret, … -/
theorem mutation_secret (mem : Mem) (p : Proof) (sec : Nat) (lg : Bool) (h : gate mem p = .ok ()) (hs : sec ≠ p.secret) :
    gate mem { p with secret := sec, long := lg } ≠ .ok () := by
  intro h'
  obtain ⟨_, i, _, _, _, hc, _⟩ := gate_ok h
  obtain ⟨_, i', _, _, _, hc', _⟩ := gate_ok h'
  simp only [] at hc'
  rw [hc] at hc'
  injection hc' with _ _ h3
  exact hs h3.symm

/-- … any other `C` (another proof's signature, any other point, a malformed string), … -/
theorem mutation_C (mem : Mem) (p : Proof) (c : CTerm) (n : Nat) (h : gate mem p = .ok ()) (hc : c ≠ p.c) :
    gate mem { p with c := c, cEnc := n } ≠ .ok () := by
  intro h'
  obtain ⟨_, i, hk, _, _, hc1, _⟩ := gate_ok h
  obtain ⟨_, i', hk', _, _, hc', _⟩ := gate_ok h'
  simp only [] at hk' hc'
  apply hc
  rw [hc', hc1]
  rw [hk] at hk'; injection hk' with hk'; rw [hk']

/-- … and a secret longer than 512 bytes is rejected whatever else the proof says. -/
theorem too_long_rejected (mem : Mem) (p : Proof) (h : p.long = true) : gate mem p = .error eSecretTooLong := by
  unfold gate; simp [h]

/-- Every honestly unblinded proof of any keyset the mint holds passes the gate. -/
theorem honest_accepted (mem : Mem) (i : Nat) (a : UInt64) (sec w d : Nat) (hm : mem.keysets.any (·.idx == i) = true)
    (ha : isKeyAmount a = true) :
    gate mem { amount := a, ks := .known i, secret := sec, long := false, c := .sig i a sec, cEnc := 0, witness := w, dleq := d,
               lock := .plain } = .ok () := by
  rw [gate_iff]; exact ⟨rfl, i, rfl, hm, ha, rfl, rfl⟩

example : gate { keysets := [⟨0, true, 0⟩], active := 0 } C01.k0 = .ok () := rfl
example : gate { keysets := [⟨0, true, 0⟩], active := 0 } { C01.k0 with amount := 4 } = .error eInvalidProof := rfl

end Gonuts.Props.C04Mint
