import Gonuts.Lemmas.SpendExamples
import Gonuts.Lemmas.Nut10Parse
import Gonuts.Lemmas.Nut10RoundTrip
/-!
  C13 — HTLC locks (NUT-14).  Model: `Model.Spend` (the repaired code: F6 "always remove the matched key",
  F8 "AddWitnessHTLCToOutputs hex-decodes B_"); specification: `Spec.Spendable.spendableHTLC`.
  For ALL inputs: unbounded lists, any `valid`, any `sha256hex`, any `now`.
-/
namespace Gonuts.Props.C13
open Gonuts.Model.Spend Gonuts.Spec.Spendable Gonuts.Lemmas.Spend Gonuts.Lemmas.SpendExamples.C13

/-- hash lock, signers K1 K2, threshold 2, future locktime, refund key K2 -/
def xSecret : Secret := { kind := .htlc, data := xHash, tags := [["n_sigs", "2"], ["pubkeys", "K1", "K2"], ["locktime", "5000"], ["refund", "K2"]] }
def xProof : Proof := { secret := some xSecret, msg := 7, witness := { jsonOk := true, signatures := [xSign 2 7, xSign 1 7], preimage := "AB" } }

/-! ## VerifyHTLCProof = the declarative NUT-14 statement -/

/-- SOUND (no hypothesis): before the locktime an accepted proof carries a preimage whose SHA-256 (of the hex-decoded bytes,
    lower-case hex) equals the 64-character lock value and, if `n_sigs>0`, `n_sigs` signatures by distinct positions of
    `pubkeys` with no repeated string; after the locktime only the refund rule applies; malformed tags are rejected. -/
theorem htlc_sound (env : Env) (p : Proof) (s : Secret) (h : verifyHTLC env p s = .ok ()) :
    spendableHTLC env s p.msg p.witness := verifyHTLC_sound env p s h

/-- IFF, when a signature verifies under at most one listed key. -/
theorem htlc_iff_spec (env : Env) (p : Proof) (s : Secret) (hu : UniqueSigner env.valid p.msg (condOf env s.tags).pubkeys) :
    verifyHTLC env p s = .ok () ↔ spendableHTLC env s p.msg p.witness :=
  ⟨verifyHTLC_sound env p s, verifyHTLC_complete env p s hu⟩

example : verifyHTLC xEnv xProof xSecret = .ok () ∧ decideHTLC xEnv xSecret 7 xProof.witness = true := by decide

/-- the rejections the property names: a non-hex preimage, a wrong preimage, a lock value that is not 64 characters -/
theorem htlc_rejects_bad_preimage (env : Env) (p : Proof) (s : Secret)
    (hne : ¬ Expired env (condOf env s.tags))
    (hbad : hexDecode p.witness.preimage = none ∨ s.data.utf8ByteSize ≠ 64 ∨
      ∀ b, hexDecode p.witness.preimage = some b → env.sha256hex b ≠ s.data) :
    verifyHTLC env p s ≠ .ok () := by
  intro h
  obtain ⟨_, hsp⟩ := verifyHTLC_sound env p s h
  simp only [hne, if_false] at hsp
  obtain ⟨⟨h64, b, hb, hh⟩, _⟩ := hsp
  rcases hbad with h1 | h1 | h1
  · rw [hb] at h1; cases h1
  · exact h1 h64
  · exact h1 b hb hh

example : verifyHTLC xEnv { xProof with witness := { xProof.witness with preimage := "zz" } } xSecret = .err .invalidPreimage
    ∧ verifyHTLC xEnv { xProof with witness := { xProof.witness with preimage := "" } } xSecret = .err .invalidPreimage
    ∧ verifyHTLC xEnv xProof { xSecret with data := "HASH" } = .err .invalidHash := by decide

/-- after the locktime only the refund rule applies: the preimage neither helps nor is needed -/
theorem htlc_after_locktime (env : Env) (p : Proof) (s : Secret) (hx : Expired env (condOf env s.tags))
    (h : verifyHTLC env p s = .ok ()) :
    (condOf env s.tags).refund = [] ∨ ∃ sg ∈ p.witness.signatures, ∃ k ∈ (condOf env s.tags).refund, env.valid sg k p.msg = true := by
  obtain ⟨_, hsp⟩ := verifyHTLC_sound env p s h
  simp only [hx, if_true] at hsp
  rcases hsp with h | h
  · exact Or.inl h
  · exact Or.inr (signed_one_iff.1 h)

example : verifyHTLC { xEnv with now := 6000 } { xProof with witness := { jsonOk := true, signatures := [xSign 2 7], preimage := "" } } xSecret = .ok ()
    ∧ verifyHTLC { xEnv with now := 6000 } xProof { xSecret with tags := [["locktime", "5000"], ["refund", "K1"]] } = .ok ()
    ∧ verifyHTLC { xEnv with now := 6000 } { xProof with witness := { jsonOk := true, signatures := [xSign 2 7], preimage := "ab" } }
        { xSecret with tags := [["locktime", "5000"], ["refund", "K1"]] } = .err .notEnoughSignatures := by decide

theorem spec_evaluator_htlc (env : Env) (s : Secret) (m : Msg) (w : Witness) :
    decideHTLC env s m w = true ↔ spendableHTLC env s m w := decideHTLC_iff env s m w

/-! ## SIG_ALL: every output must carry the preimage and the signatures -/

theorem htlc_sigall_outputs (env : Env) (proofs : List Proof) (outs : List Output) (p0 : Proof) (rest : List Proof) (s0 : Secret)
    (hp : proofs = p0 :: rest) (hs0 : p0.secret = some s0) (hkind : s0.kind = .htlc)
    (h : ∃ p ∈ proofs, CarriesSigAll p) (hs : swapSpendCheck env proofs outs = .ok ()) :
    ∃ keys n, (∀ q ∈ proofs, SameCondition env keys n q) ∧
      ∀ o ∈ outs, o.witness.jsonOk = true ∧ Opens env o.witness.preimage s0.data ∧
        ∃ m, o.msgDecoded = some m ∧ o.witness.signatures.Nodup ∧ Signed env.valid m o.witness.signatures keys n := by
  have hsa : proofsSigAll proofs = true := (proofsSigAll_iff proofs).2 h
  unfold swapSpendCheck at hs
  cases hv : verifyProofs env proofs with
  | err e => simp [hv] at hs
  | ok u =>
    simp only [hv, hsa, if_true] at hs
    obtain ⟨s0', keys, n, ⟨p0', rest', hp', hs0'⟩, hall, houts⟩ := verifyBlindedMessages_sound hs
    rw [hp] at hp'
    cases hp'
    rw [hs0] at hs0'
    cases hs0'
    refine ⟨keys, n, hall, fun o ho => ?_⟩
    obtain ⟨_, hj, hopen, hm⟩ := houts o ho
    exact ⟨hj, hopen hkind, hm⟩

def xSigAllSecret : Secret := { kind := .htlc, data := xHash, tags := [["sigflag", "SIG_ALL"], ["n_sigs", "1"], ["pubkeys", "K1"]] }
def xBare (m : Msg) : Proof := { secret := some xSigAllSecret, msg := m, witness := { jsonOk := false, signatures := [], preimage := "" } }
def xOut (m : Msg) : Output := { msgDecoded := some m, msgText := m + 1, witness := { jsonOk := false, signatures := [], preimage := "" } }
example : swapSpendCheck xEnv [{ xBare 7 with witness := { jsonOk := true, signatures := [xSign 1 7], preimage := "ab" } }]
    [{ xOut 20 with witness := { jsonOk := true, signatures := [xSign 1 20], preimage := "ab" } }] = .ok () := by decide
example : swapSpendCheck xEnv [{ xBare 7 with witness := { jsonOk := true, signatures := [xSign 1 7], preimage := "ab" } }]
    [{ xOut 20 with witness := { jsonOk := true, signatures := [xSign 1 20], preimage := "" } }] = .err .invalidPreimage := by decide

/-! ## the helpers -/

/-- htlc_helpers_accepted (inputs): whenever AddWitnessHTLC itself succeeds (threshold ≤ 1, and the signing key listed when a
    signature is needed), the preimage is right and the lock has not expired into a refund-only state, every input it writes
    passes VerifyHTLCProof. -/
theorem htlc_helpers_accepted_inputs (env : Env) (sign : Key → Msg → Sig) (hsign : ∀ k m, env.valid (sign k m) k m = true)
    (k : Key) (s : Secret) (pre : String) (hkind : s.kind = .htlc) (proofs proofs' : List Proof)
    (hsec : ∀ p ∈ proofs, p.secret = some s) (hopen : Opens env pre s.data)
    (hx : ∀ t, parseTags env s.tags = .ok t → expired env t = true → t.refund = [])
    (h : addWitnessHTLC env sign proofs s pre k = .ok proofs') : verifyProofs env proofs' = .ok () :=
  addWitnessHTLC_accepted env sign hsign k s pre hkind proofs proofs' hsec hopen hx h

/-- htlc_helpers_accepted (outputs): with SIG_ALL HTLC inputs sharing one condition of threshold 1, the output witnesses written
    by AddWitnessHTLCToOutputs with a listed key and the right preimage pass verifyBlindedMessages — whenever the helper itself
    succeeds (every `B_` is hex). -/
theorem htlc_helpers_accepted_outputs (env : Env) (sign : Key → Msg → Sig) (hsign : ∀ k m, env.valid (sign k m) k m = true)
    (k : Key) (proofs : List Proof) (s0 : Secret) (keys : List Key) (pre : String)
    (hshared : SharedCondition env proofs s0 keys 1) (hkind : s0.kind = .htlc) (hk : k ∈ keys) (hopen : Opens env pre s0.data)
    (outs outs' : List Output) (h : addWitnessHTLCToOutputs sign pre k outs = .ok outs') :
    verifyBlindedMessages env proofs outs' = .ok () :=
  addWitnessHTLCToOutputs_accepted env sign hsign k proofs s0 keys pre hshared hkind hk hopen outs outs' h

/-- non-vacuity and the regression of F8: the whole honest flow through both helpers is accepted by the swap check
    (on the unrepaired code the output witness signed the hex-text digest `m+1` and was refused). -/
def xIn : List Proof := match addWitnessHTLC xEnv xSign [xBare 7, xBare 8] xSigAllSecret "ab" 1 with | .ok ps => ps | .err _ => []
def xOuts : List Output := match addWitnessHTLCToOutputs xSign "ab" 1 [xOut 20, xOut 22] with | .ok os => os | .err _ => []
example : addWitnessHTLC xEnv xSign [xBare 7, xBare 8] xSigAllSecret "ab" 1 = .ok xIn ∧
    addWitnessHTLCToOutputs xSign "ab" 1 [xOut 20, xOut 22] = .ok xOuts ∧ swapSpendCheck xEnv xIn xOuts = .ok () := by decide
/-- the helper now fails on a `B_` that is not hex, as AddSignatureToOutputs does -/
example : addWitnessHTLCToOutputs xSign "ab" 1 [{ xOut 20 with msgDecoded := none }] = .err .badB_ := by decide
/-- the helper refuses what it cannot satisfy -/
example : addWitnessHTLC xEnv xSign [xBare 7] xSecret "ab" 1 = .err .helperTooManySigs ∧
    addWitnessHTLC xEnv xSign [xBare 7] xSigAllSecret "ab" 2 = .err .helperCannotSign := by decide

/-! ## regression of F6 in the HTLC path: threshold 2 with ONE listed key, met by two signatures of that key. Was accepted. -/
def f6Secret : Secret := { kind := .htlc, data := xHash, tags := [["n_sigs", "2"], ["pubkeys", "K1"]] }
example : verifyHTLC xEnv { secret := some f6Secret, msg := 7, witness := { jsonOk := true, signatures := [xSign 1 7, 912], preimage := "ab" } } f6Secret
    = .err .notEnoughSignatures := by decide

/-! ## the TEXT of the secret (`nut10.DeserializeSecret`, `Model.Nut10Parse` over the JSON scanner of `Model.GoJson`)

  `verifyProofs` enforces a lock only when `DeserializeSecret` succeeds with kind HTLC; whoever builds a locked output
  chooses the text of the secret.  For EVERY text and every amount of JSON whitespace before and after it the secret is
  read the same way, so the lock cannot be switched off (or on) by padding; and the kind is decided by the first array
  element alone, compared with exactly "HTLC". -/

theorem secret_text_whitespace_insignificant (w1 w2 s : String)
    (h1 : ∀ c ∈ w1.toList, Model.GoJson.isWs c = true) (h2 : ∀ c ∈ w2.toList, Model.GoJson.isWs c = true) :
    Model.Nut10Parse.parseSecret (w1 ++ s ++ w2) = Model.Nut10Parse.parseSecret s ∧
    Model.Nut10Parse.lockKind (w1 ++ s ++ w2) = Model.Nut10Parse.lockKind s :=
  ⟨Model.Nut10Parse.parseSecret_ws w1 w2 s h1 h2, Model.Nut10Parse.lockKind_ws w1 w2 s h1 h2⟩

theorem htlc_kind_by_first_element (s : String) (p : Model.Nut10Parse.Parsed) (h : Model.Nut10Parse.parseSecret s = some p) :
    ∃ k d rest ks, Model.GoJson.parse s = some (Model.GoJson.JV.arr (k :: d :: rest)) ∧ Model.GoJson.intoString "" k = some ks ∧
      (p.kind = .htlc ↔ ks = "HTLC") := by
  unfold Model.Nut10Parse.parseSecret at h
  cases hv : Model.GoJson.parse s with
  | none => simp [hv] at h
  | some v =>
    rw [hv] at h
    obtain ⟨k, d, rest, ks, rfl, hk, hkind⟩ := Model.Nut10Parse.decodeSecret_kind h
    exact ⟨k, d, rest, ks, rfl, hk, by rw [hkind]; exact Model.Nut10Parse.kindOf_htlc ks⟩

/-- non-vacuity (kernel evaluation of the scanner on concrete texts): the library's spelling, padded, with an escaped
    letter in the kind, other member order and member-name case — all read as the same HTLC secret; near misses of the
    kind string are not locks; texts that are not JSON arrays of two elements are ordinary secrets. -/
example : Model.Nut10Parse.parseSecret "[\"HTLC\", {\"nonce\":\"n\",\"data\":\"d\",\"tags\":[[\"sigflag\",\"SIG_ALL\"]]}]"
    = some ⟨.htlc, "n", "d", [["sigflag", "SIG_ALL"]]⟩ := by decide
example : Model.Nut10Parse.parseSecret " \n[ \"\\u0048TLC\" ,{\"Tags\":[[\"sigflag\",\"SIG_ALL\"]],\"x\":[1.5e3,{\"y\":null}],\"DATA\":\"d\",\"nonce\":\"\\u006e\"}, true ]\t"
    = some ⟨.htlc, "n", "d", [["sigflag", "SIG_ALL"]]⟩ := by decide
example : Model.Nut10Parse.lockKind "[\"htlc\",{}]" = .anyone ∧ Model.Nut10Parse.lockKind "[\"HTLC \",{}]" = .anyone ∧
    Model.Nut10Parse.lockKind "[\"HTLC\"]" = .anyone ∧ Model.Nut10Parse.lockKind "{\"0\":\"HTLC\",\"1\":{}}" = .anyone ∧
    Model.Nut10Parse.lockKind "[\"HTLC\",{\"data\":1}]" = .anyone ∧ Model.Nut10Parse.lockKind "[\"HTLC\",{}] x" = .anyone ∧
    Model.Nut10Parse.lockKind "[\"HTLC\",{}]" = .htlc := by decide

/-- what the library's `SerializeSecret` writes (the secret of every locked output an honest wallet builds) is read back
    by `DeserializeSecret` as the same kind, nonce, data and tags — for EVERY string content (quotes, backslashes, control
    characters, `<>&`, U+2028/9, any other character) and every tag list incl. nil slices; so a HTLC secret written by
    the library is always recognised as a HTLC lock with exactly the conditions that were written
    (`Lemmas/Nut10RoundTrip.lean`: lexer over the printed characters, unquoting over the escapes, stack parser over the
    printed tokens, decoder over the tree — each by induction). -/
theorem serialized_secret_read_back (k : Kind) (nonce data : String) (tags : Option (List (Option (List String)))) :
    Model.Nut10Parse.parseSecret (Model.Nut10Parse.serializeSecret k nonce data tags)
      = some ⟨k, nonce, data, Model.Nut10Parse.tagsOf tags⟩ :=
  Model.Nut10Parse.parse_serialize k nonce data tags

theorem serialized_htlc_recognised (nonce data : String) (tags : Option (List (Option (List String)))) :
    Model.Nut10Parse.lockKind (Model.Nut10Parse.serializeSecret .htlc nonce data tags) = .htlc := by
  unfold Model.Nut10Parse.lockKind; rw [serialized_secret_read_back]

example : Model.Nut10Parse.serializeSecret .htlc "n\"<\n" "d" (some [some ["sigflag", "SIG_ALL"], none])
    = "[\"HTLC\", {\"nonce\":\"n\\\"\\u003c\\n\",\"data\":\"d\",\"tags\":[[\"sigflag\",\"SIG_ALL\"],null]}]" := by decide

end Gonuts.Props.C13
