import Gonuts.Lemmas.Spend
/-!
  C13 — HTLC locks (NUT-14).  STATE: the code as it is today (defects F6 and F8 present).
-/
namespace Gonuts.Props.C13
open Gonuts.Model.Spend Gonuts.Spec.Spendable Gonuts.Lemmas.Spend

/-! ## concrete witnesses: key 1 ("K1"); `sign k m = 100*k + m`; a signature verifies exactly for its own (key, digest) -/
def wSign : Key → Msg → Sig := fun k m => 100 * k + m
def wValid : Sig → Key → Msg → Bool := fun s k m => s == 100 * k + m
def wEnv : Env where
  valid := wValid
  parseKey := fun s => if s = "K1" then some 1 else none
  sha256hex := fun b => if b = [0xab] then "HASHHASHHASHHASHHASHHASHHASHHASHHASHHASHHASHHASHHASHHASHHASHHASH" else ""
  now := 100
def wHash : String := "HASHHASHHASHHASHHASHHASHHASHHASHHASHHASHHASHHASHHASHHASHHASHHASH"
/-- SIG_ALL HTLC, one listed key, threshold 1 -/
def wSecret : Secret := { kind := .htlc, data := wHash, tags := [["sigflag", "SIG_ALL"], ["n_sigs", "1"], ["pubkeys", "K1"]] }
def wProof : Proof := { secret := some wSecret, msg := 7, witness := { jsonOk := false, signatures := [], preimage := "" } }
/-- an output whose decoded-`B_` digest has id 20 and whose hex-text digest has id 21 -/
def wOutput : Output := { msgDecoded := some 20, msgText := 21, witness := { jsonOk := false, signatures := [], preimage := "" } }
/-- threshold 2 with ONE listed key -/
def wSecret2 : Secret := { kind := .htlc, data := wHash, tags := [["n_sigs", "2"], ["pubkeys", "K1"]] }
def wValid2 : Sig → Key → Msg → Bool := fun s k _ => (s == 11 || s == 12) && k == 1
def wEnv2 : Env := { wEnv with valid := wValid2 }
def wProof2 : Proof := { secret := some wSecret2, msg := 7, witness := { jsonOk := true, signatures := [11, 12], preimage := "ab" } }

/-- what the two helpers write for the witness inputs/outputs -/
def wIn : List Proof := match addWitnessHTLC wEnv wSign [wProof] wSecret "ab" 1 with | .ok ps => ps | .err _ => []
def wOut : List Output := match addWitnessHTLCToOutputs wSign "ab" 1 [wOutput] with | .ok os => os | .err _ => []

/-! ## the helpers -/

/-- FULL: what AddWitnessHTLC writes on the inputs and AddWitnessHTLCToOutputs on the outputs is accepted by the mint
    (SIG_ALL HTLC inputs sharing one secret `s` with threshold ≤ 1, a listed signing key, the right preimage). -/
def htlc_helpers_accepted_full : Prop :=
  ∀ (env : Env) (sign : Key → Msg → Sig) (s : Secret) (proofs : List Proof) (outs : List Output) (pre : String) (k : Key),
    (∀ k m, env.valid (sign k m) k m = true) →
    s.kind = .htlc → isSigAll s = true → proofs ≠ [] → (∀ p ∈ proofs, p.secret = some s) →
    (∃ t, parseTags env s.tags = .ok t ∧ t.nSigs ≤ 1 ∧ k ∈ t.pubkeys ∧ ¬ expired env t) → Opens env pre s.data →
    ∀ proofs' outs', addWitnessHTLC env sign proofs s pre k = .ok proofs' → addWitnessHTLCToOutputs sign pre k outs = .ok outs' →
      verifyProofs env proofs' = .ok () ∧ verifyBlindedMessages env proofs' outs' = .ok ()

/-- F8: the helper signs the digest of the hex text (id 21); the mint checks the digest of the decoded bytes (id 20). -/
theorem htlc_helpers_accepted_full_false : ¬ htlc_helpers_accepted_full := by
  intro h
  have hopen : Opens wEnv "ab" wSecret.data := ⟨by decide, [0xab], by decide, by decide⟩
  have hv : ∀ k m, wEnv.valid (wSign k m) k m = true := by intro k m; simp [wEnv, wValid, wSign]
  have := h wEnv wSign wSecret [wProof] [wOutput] "ab" 1 hv rfl (by decide) (by simp) (by simp [wProof])
    ⟨_, (by decide : parseTags wEnv wSecret.tags = .ok { sigflag := "SIG_ALL", nSigs := 1, pubkeys := [1] }), by decide, by decide, by decide⟩
    hopen wIn wOut (by decide) (by decide)
  revert this
  decide

/-- PARTIAL: the INPUT witnesses of AddWitnessHTLC are accepted (witnessed here; the general theorem follows the repair). -/
example : addWitnessHTLC wEnv wSign [wProof] wSecret "ab" 1 = .ok wIn ∧ verifyProofs wEnv wIn = .ok () := by decide

/-! ## VerifyHTLCProof against the declarative NUT-14 statement -/

def htlc_sound_full : Prop :=
  ∀ (env : Env) (p : Proof) (s : Secret), verifyHTLC env p s = .ok () → spendableHTLC env s p.msg p.witness

/-- F6 in the HTLC path: two signatures of the only listed key meet `n_sigs = 2`. -/
theorem htlc_sound_full_false : ¬ htlc_sound_full := by
  intro h
  have h1 := h wEnv2 wProof2 wSecret2 (by decide)
  have h2 : decideHTLC wEnv2 wSecret2 wProof2.msg wProof2.witness = false := by decide
  rw [← decideHTLC_iff] at h1
  rw [h1] at h2
  cases h2

end Gonuts.Props.C13
