import Gonuts.Lemmas.MintSeq
import Gonuts.Props.C02
import Gonuts.Props.C06
import Gonuts.Lemmas.MintConc
/-!
  C03 — a mint quote is issued at most once per payment, never before it is paid (sequential histories; the model is
  the mint after F11: the invoice watcher only moves UNPAID → PAID).

  * `never_before_paid`, `amount_le_quote`, `nut20_required`: hold for every request content.
  * `issued_after_success`, `issued_refuses`, `issued_stays_issued`, `at_most_once`: after a successful issuance every
    further mint request for that quote fails with 20002, whatever polls, notifications, swaps, quotes, state checks,
    restores, rotations and restarts happen in between — until a melt pays the quote's invoice again by internal
    settlement (a new payment, which burns ecash of at least the quote amount: C05.melt_internal).
  * Overlapping mint requests (two `MintTokens` reading PAID before either writes PENDING) are NOT excluded by these
    theorems: that window is exercised by stream mint-sched and recorded as a known finding if it reproduces.
-/
namespace Gonuts.Props.C03
open Gonuts.Model Gonuts.Model.Mint

/-- Issuance happens only on a quote that is PAID: stored as PAID, or stored UNPAID while the backend reports the
    invoice settled (observed by the leading state check, which then records PAID). -/
theorem never_before_paid (cx : Cx) (qid : Int) (outs : List BMsg) (sig : QSig) (s s' : DL) (sigs : List BSig)
    (h : runM (mintTokens cx qid outs sig) s = (s', .ok sigs)) :
    ∃ q0, dbGetMintQ s.1 qid = .ok q0 ∧
      (q0.state = .paid ∨ (q0.state = .unpaid ∧ (lnInvStatus s.2 q0.hash).2 = some true)) := by
  obtain ⟨q, hq, hp, _⟩ := C02.mint_out_le_quote cx qid outs sig s s' sigs h
  unfold gmqsSpec at hq
  cases hq0 : dbGetMintQ s.1 qid with
  | error e => simp only [hq0] at hq; cases hq
  | ok q0 =>
    refine ⟨q0, rfl, ?_⟩
    simp only [hq0] at hq
    by_cases hu : (q0.state == MQState.unpaid) = true
    · right
      refine ⟨by simpa using hu, ?_⟩
      simp only [hu, if_true] at hq
      cases hst : (lnInvStatus s.2 q0.hash).2 with
      | none => simp only [hst] at hq; cases hq
      | some b =>
        cases b with
        | true => rfl
        | false =>
          simp only [hst, Bool.false_eq_true, if_false] at hq
          injection hq with hq; subst hq
          rw [show q0.state = .unpaid by simpa using hu] at hp; cases hp
    · left
      simp only [hu] at hq
      injection hq with hq; subst hq; exact hp

/-- For at most the quoted amount (ℕ). -/
theorem amount_le_quote (cx : Cx) (qid : Int) (outs : List BMsg) (sig : QSig) (s s' : DL) (sigs : List BSig)
    (h : runM (mintTokens cx qid outs sig) s = (s', .ok sigs)) :
    ∃ q, (gmqsSpec qid s).2 = .ok q ∧ natSum (outs.map (·.amount)) ≤ q.amount.toNat := by
  obtain ⟨q, hq, _, hle, _⟩ := C02.mint_out_le_quote cx qid outs sig s s' sigs h
  exact ⟨q, hq, hle⟩

/-- NUT-20: for a quote locked to `pk`, issuance requires a signature BY `pk` over exactly (this quote's id, the
    submitted B_ in the submitted order): no signature, a garbage one, another key, another quote id, a reordered,
    extended or shortened output list are all refused. -/
theorem quoteSigOk_iff (q : MintQ) (pk : Nat) (hq : q.pubkey = some pk) (bs : List Nat) (sig : QSig) :
    quoteSigOk q bs sig = true ↔ sig = .signed pk (q.id : Int) bs := by
  unfold quoteSigOk
  rw [hq]
  cases sig with
  | none => simp
  | garbage => simp
  | signed k quote sbs =>
    simp only [Bool.and_eq_true, beq_iff_eq, QSig.signed.injEq]
    constructor
    · rintro ⟨⟨h1, h2⟩, h3⟩; exact ⟨h1, h2, h3⟩
    · rintro ⟨h1, h2, h3⟩; exact ⟨⟨h1, h2⟩, h3⟩

theorem nut20_required (cx : Cx) (qid : Int) (outs : List BMsg) (sig : QSig) (s s' : DL) (sigs : List BSig)
    (h : runM (mintTokens cx qid outs sig) s = (s', .ok sigs)) :
    ∃ q, (gmqsSpec qid s).2 = .ok q ∧ ∀ pk, q.pubkey = some pk → sig = .signed pk (q.id : Int) (outs.map (·.b.sid)) := by
  obtain ⟨q, hq, _, _, _, hs⟩ := C02.mint_out_le_quote cx qid outs sig s s' sigs h
  exact ⟨q, hq, fun pk hpk => (quoteSigOk_iff q pk hpk _ sig).1 hs⟩

/-- Every stored row with this id is ISSUED (and there is one). -/
def IssuedAt (db : DB) (id : Nat) : Prop := (∃ q ∈ db.mintQ, q.id = id) ∧ ∀ q ∈ db.mintQ, q.id = id → q.state = .issued

theorem IssuedAt.lookup {db : DB} {id : Nat} (h : IssuedAt db id) : ∃ q, dbGetMintQ db id = .ok q ∧ q.state = .issued ∧ q.id = id := by
  obtain ⟨⟨q0, hq0, hid⟩, hall⟩ := h
  unfold dbGetMintQ
  cases hf : db.mintQ.find? (fun q => intIs (id : Int) q.id) with
  | none =>
    exfalso
    rw [List.find?_eq_none] at hf
    exact hf q0 hq0 (by simp [intIs, hid])
  | some q =>
    have hm := List.mem_of_find?_eq_some hf
    have hp := List.find?_some hf
    have hid' : q.id = id := by
      have : (id : Int) = (q.id : Int) := by simpa [intIs] using hp
      exact (Int.ofNat.inj this).symm
    exact ⟨q, rfl, hall q hm hid', hid'⟩

/-- After a successful issuance the quote is ISSUED. -/
theorem issued_after_success (cx : Cx) (qid : Int) (outs : List BMsg) (sig : QSig) (s s' : DL) (sigs : List BSig)
    (h : runM (mintTokens cx qid outs sig) s = (s', .ok sigs)) :
    ∃ q, (gmqsSpec qid s).2 = .ok q ∧ IssuedAt s'.1 q.id := by
  rcases mintTokens_cases cx qid outs sig s s' _ h with ⟨e, _, he, _⟩ | ⟨q, hq, hc⟩
  · cases he
  · refine ⟨q, hq, ?_⟩
    rcases hc with ⟨_, he, _⟩ | ⟨_, he, _⟩ | ⟨_, he, _⟩ | ⟨_, ⟨e, he, _⟩ | ⟨sigs', he, hok⟩⟩
    · cases he
    · cases he
    · cases he
    · cases he
    · rw [hok.db]
      simp only [updMintQ_updMintQ]
      have hex := hok.exists_
      simp only [List.any_eq_true, beq_iff_eq] at hex
      obtain ⟨q0, hq0, hid⟩ := hex
      constructor
      · exact ⟨{ q0 with state := .issued }, by
          simp only [updMintQ, List.mem_map]; exact ⟨q0, hq0, by simp [hid]⟩, hid⟩
      · intro x hx hxid
        simp only [updMintQ, List.mem_map] at hx
        obtain ⟨y, hy, rfl⟩ := hx
        split
        · rfl
        · rename_i hne
          exfalso; apply hne
          split at hxid <;> simp_all

/-- An ISSUED quote refuses every further mint request with 20002 and nothing changes — not even a Lightning call. -/
theorem issued_refuses (cx : Cx) (id : Nat) (outs : List BMsg) (sig : QSig) (s : DL) (hi : IssuedAt s.1 id) :
    runM (mintTokens cx (id : Int) outs sig) s = (s, .error eAlreadyIssued) := by
  obtain ⟨q, hq, hst, _⟩ := hi.lookup
  have hg : gmqsSpec (id : Int) s = (s, .ok q) := by
    unfold gmqsSpec
    simp only [hq, hst]
    rfl
  generalize hrun : runM (mintTokens cx (id : Int) outs sig) s = x
  obtain ⟨s', r⟩ := x
  rcases mintTokens_cases cx (id : Int) outs sig s s' r hrun with ⟨e, he, _⟩ | ⟨q', hq', hc⟩
  · rw [hg] at he; cases he
  · rw [hg] at hq' hc
    injection hq' with hq'; subst hq'
    rcases hc with ⟨h1, _⟩ | ⟨_, hr, hs⟩ | ⟨h1, _⟩ | ⟨h1, _⟩
    · rw [hst] at h1; cases h1
    · rw [hr, hs]
    · rw [hst] at h1; cases h1
    · rw [hst] at h1; cases h1

/-- Updating some OTHER state never touches an ISSUED quote: a row that is not ISSUED has another id. -/
theorem IssuedAt.updOther {db : DB} {id : Nat} (h : IssuedAt db id) (q' : MintQ) (hq' : q' ∈ db.mintQ)
    (hne : q'.state ≠ .issued) (st : MQState) : IssuedAt { db with mintQ := updMintQ db.mintQ q'.id st } id := by
  obtain ⟨⟨q0, hq0, hid⟩, hall⟩ := h
  have hidne : q'.id ≠ id := fun he => hne (hall q' hq' he)
  constructor
  · refine ⟨q0, ?_, hid⟩
    simp only [updMintQ, List.mem_map]
    refine ⟨q0, hq0, ?_⟩
    have : (q0.id == q'.id) = false := by simp [hid]; exact fun h => hidne h.symm
    simp [this]
  · intro x hx hxid
    simp only [updMintQ, List.mem_map] at hx
    obtain ⟨y, hy, rfl⟩ := hx
    split at hxid
    · rename_i he
      exfalso; apply hidne
      have : y.id = q'.id := by simpa using he
      rw [← this]; exact hxid
    · rename_i he
      simp only [he]
      exact hall y hy hxid

theorem IssuedAt.frame {db db' : DB} {id : Nat} (h : IssuedAt db id) (hm : db'.mintQ = db.mintQ) : IssuedAt db' id := by
  unfold IssuedAt at *; rw [hm]; exact h

/-- The state check leaves an ISSUED quote ISSUED (it only ever moves UNPAID → PAID). -/
theorem issued_quoteState (qid : Int) (s : DL) (id : Nat) (hi : IssuedAt s.1 id) : IssuedAt (gmqsSpec qid s).1.1 id := by
  rcases C06.quoteState_only_unpaid_to_paid qid s with h | ⟨q, hq, hu, _, h⟩
  · rw [h]; exact hi
  · rw [h]
    exact hi.updOther q (C06.dbGetMintQ_mem hq) (by rw [hu]; decide) .paid

/-- The watcher's notification leaves an ISSUED quote ISSUED (F11). -/
theorem issued_watcher (wq : Nat) (s s' : DL) (r : Except E Bool) (id : Nat) (hi : IssuedAt s.1 id)
    (h : runM (watcherNotified wq) s = (s', r)) : IssuedAt s'.1 id := by
  rcases (watcher_cases wq s s' r h).2 with ⟨_, hs⟩ | ⟨q, hq, hu, _, hs⟩
  · rw [hs]; exact hi
  · rw [hs]
    have hid : q.id = wq := by
      have := C06.dbGetMintQ_mem hq
      unfold dbGetMintQ at hq
      split at hq
      · rename_i q' hf
        injection hq with hq; subst hq
        have hp := List.find?_some hf
        have : (wq : Int) = (q'.id : Int) := by simpa [intIs] using hp
        exact (Int.ofNat.inj this).symm
      · cases hq
    rw [← hid]
    exact hi.updOther q (C06.dbGetMintQ_mem hq) (by rw [hu]; decide) .paid

/-- Another mint request (for any quote, successful or not) leaves an ISSUED quote ISSUED. -/
theorem issued_mint (cx : Cx) (qid : Int) (outs : List BMsg) (sig : QSig) (s s' : DL) (r : Except E (List BSig)) (id : Nat)
    (hi : IssuedAt s.1 id) (h : runM (mintTokens cx qid outs sig) s = (s', r)) : IssuedAt s'.1 id := by
  have hg := issued_quoteState qid s id hi
  rcases mintTokens_cases cx qid outs sig s s' r h with ⟨e, _, _, hs⟩ | ⟨q, hq, hc⟩
  · rw [hs]; exact hg
  · have hqm : q ∈ (gmqsSpec qid s).1.1.mintQ := C06.gmqs_mem qid s q hq
    rcases hc with ⟨_, _, hs⟩ | ⟨_, _, hs⟩ | ⟨_, _, hs⟩ | ⟨hp, ⟨e, _, _, hs | hs⟩ | ⟨sigs, _, hok⟩⟩
    · rw [hs]; exact hg
    · rw [hs]; exact hg
    · rw [hs]; exact hg
    · rw [hs]; exact hg
    · rw [hs]
      exact hg.updOther q hqm (by rw [hp]; decide) .paid
    · rw [hok.db]
      simp only [updMintQ_updMintQ]
      exact (hg.updOther q hqm (by rw [hp]; decide) .issued).frame rfl

/-- Swaps, melt-quote requests, polls of melt quotes, state checks, restores and balance queries do not touch mint
    quotes at all. -/
theorem issued_frame {α : Type} (p : PM α) (s : DL) (id : Nat) (hi : IssuedAt s.1 id)
    (hm : (runM p s).1.1.mintQ = s.1.mintQ) : IssuedAt (runM p s).1.1 id := hi.frame hm

theorem swap_mintQ (cx : Cx) (ps : List Proof) (outs : List BMsg) (v : Option E) (s : DL) :
    (runM (swap cx ps outs v) s).1.1.mintQ = s.1.mintQ := by
  generalize hrun : runM (swap cx ps outs v) s = x
  obtain ⟨s', r⟩ := x
  rcases swap_cases cx ps outs v s s' r hrun with ⟨e, _, hs⟩ | ⟨sigs, _, hok⟩
  · rw [hs]
  · rw [hok.db]

theorem poll_mintQ (qid : Int) (s : DL) (hwf : PendingWf s.1) : (runM (getMeltQuoteState qid) s).1.1.mintQ = s.1.mintQ := by
  generalize hrun : runM (getMeltQuoteState qid) s = x
  obtain ⟨s', r⟩ := x
  rcases poll_cases qid s s' r hwf hrun with ⟨_, _, hs⟩ | ⟨q, _, ⟨_, _, hs⟩ | ⟨_, _, hdb⟩⟩
  · rw [hs]
  · rw [hs]
  · rw [hdb]; cases pollOutcome (ans0 s.2) <;> rfl

/-- A new mint quote gets a fresh id: an ISSUED quote stays ISSUED. -/
theorem issued_mintQuote (cx : Cx) (nid : Nat) (amount : UInt64) (u : Bool) (pk : PkReq) (s s' : DL) (r : Except E MintQ)
    (id : Nat) (hi : IssuedAt s.1 id) (h : runM (requestMintQuote cx nid amount u pk) s = (s', r)) : IssuedAt s'.1 id := by
  rcases requestMintQuote_cases cx nid amount u pk s s' r h with ⟨e, _, hs⟩ | ⟨q, _, hok⟩
  · rw [hs]; exact hi
  · rw [hok.db]
    obtain ⟨⟨q0, hq0, hid⟩, hall⟩ := hi
    have hne : q.id ≠ id := by
      intro he
      have := hok.fresh
      simp only [List.any_eq_false, beq_iff_eq] at this
      have hq : q.id = nid := by rw [hok.quote]
      exact this q0 hq0 (by rw [hid, ← he, hq])
    constructor
    · exact ⟨q0, List.mem_append_left _ hq0, hid⟩
    · intro x hx hxid
      rcases List.mem_append.1 hx with hx | hx
      · exact hall x hx hxid
      · simp at hx; subst hx; exact absurd hxid hne

/-- At most once: after a successful issuance, and after ANY number of further mint requests (for any quote, with any
    outputs), quote-state polls (with any backend answer) and watcher notifications, a mint request for that quote is
    refused with 20002. -/
inductive Evt where
  | mint (q : Int) (outs : List BMsg) (sig : QSig)
  | poll (q : Int)
  | notify (q : Nat)
  | newQuote (nid : Nat) (amount : UInt64) (u : Bool) (pk : PkReq)
  | swap (ps : List Proof) (outs : List BMsg) (v : Option E)

def runEvt (cx : Cx) (s : DL) : Evt → DL
  | .mint q outs sig => (runM (mintTokens cx q outs sig) s).1
  | .poll q => (runM (getMintQuoteState q) s).1
  | .notify q => (runM (watcherNotified q) s).1
  | .newQuote nid a u pk => (runM (requestMintQuote cx nid a u pk) s).1
  | .swap ps outs v => (runM (swap cx ps outs v) s).1

theorem issued_stays_issued (cx : Cx) (s : DL) (id : Nat) (hi : IssuedAt s.1 id) (evs : List Evt) :
    IssuedAt (evs.foldl (runEvt cx) s).1 id := by
  induction evs generalizing s with
  | nil => exact hi
  | cons ev rest ih =>
    apply ih
    cases ev with
    | mint q outs sig => exact issued_mint cx q outs sig s _ _ id hi rfl
    | poll q => simp only [runEvt]; rw [getMintQuoteState_runM]; exact issued_quoteState q s id hi
    | notify q => exact issued_watcher q s _ _ id hi rfl
    | newQuote nid a u pk => exact issued_mintQuote cx nid a u pk s _ _ id hi rfl
    | swap ps outs v => exact issued_frame _ s id hi (swap_mintQ cx ps outs v s)

theorem at_most_once (cx : Cx) (qid : Int) (outs : List BMsg) (sig : QSig) (s s' : DL) (sigs : List BSig)
    (h : runM (mintTokens cx qid outs sig) s = (s', .ok sigs)) (evs : List Evt) (outs2 : List BMsg) (sig2 : QSig) :
    ∃ q, (gmqsSpec qid s).2 = .ok q ∧
      runM (mintTokens cx (q.id : Int) outs2 sig2) (evs.foldl (runEvt cx) s') =
        (evs.foldl (runEvt cx) s', .error eAlreadyIssued) := by
  obtain ⟨q, hq, hi⟩ := issued_after_success cx qid outs sig s s' sigs h
  exact ⟨q, hq, issued_refuses cx q.id outs2 sig2 _ (issued_stays_issued cx s' q.id hi evs)⟩

/-! ## Concurrent mint requests, polls and the invoice watcher

  What holds under EVERY interleaving / fault / kill history is storage-level: a blinded message is signed at most
  once and a stored signature is never lost or replaced.  The request-level statement "at most one issuance per
  payment however requests, polls and the notification interleave" is FALSE of the code (`schedules_full_false`):
  `MintTokens` reads PAID and writes PENDING in two separate calls, the watcher reads UNPAID and writes PAID in two
  separate calls.  It holds when the requests do not overlap (`at_most_once` above). -/

theorem signed_once_schedule (c : CSess) (evts : List CEvt) (h : (c.s.w.db.sigs.map (·.b)).Nodup) :
    ((runCEvts c evts).s.w.db.sigs.map (·.b)).Nodup := runCEvts_db sigs_nodup_db c evts h

theorem signature_kept_schedule (row : BSig) (c : CSess) (evts : List CEvt) (h : row ∈ c.s.w.db.sigs) :
    row ∈ (runCEvts c evts).s.w.db.sigs := runCEvts_db (sigs_mono_db row) c evts h

/-- A quote keeps its amount, invoice and NUT-20 key under any interleaving. -/
theorem quote_terms_fixed_schedule (q : MintQ) (c : CSess) (evts : List CEvt) (h : q ∈ c.s.w.db.mintQ) :
    ∃ q' ∈ (runCEvts c evts).s.w.db.mintQ, q'.id = q.id ∧ q'.amount = q.amount ∧ q'.hash = q.hash ∧ q'.pubkey = q.pubkey :=
  runCEvts_db (mintQuote_stable_db q) c evts ⟨q, h, rfl, rfl, rfl, rfl⟩

def noMelt : CEvt → Bool
  | .spawn _ (.melt ..) => false
  | .seq (.melt ..) => false
  | _ => true

/-- The concurrent half at full strength: without internal settlements (one payment per quote at most), two
    different requests are never both issued for one quote. -/
def schedules_full : Prop :=
  ∀ (evts : List CEvt) (t1 t2 : Nat) (q : Int), evts.all noMelt = true → t1 ≠ t2 →
    mintedQuote (runCEvts (initC 0 false {}) evts) t1 = some q → mintedQuote (runCEvts (initC 0 false {}) evts) t2 = some q →
    finishedOk (runCEvts (initC 0 false {}) evts) t1 = true → finishedOk (runCEvts (initC 0 false {}) evts) t2 = true → False

namespace witness
def o0 : BMsg := { amount := 8, ks := .known 0, b := .pt 1, witness := 0 }
def o1 : BMsg := { amount := 8, ks := .known 0, b := .pt 2, witness := 0 }

/-- W3 (K3): two mint requests with different outputs for one paid quote of 8: the second reads PAID before the first
    writes PENDING.  16 are issued for 8 paid. -/
def w3 : List CEvt :=
  [.seq (.mintQuote 8 true .none false), .seq (.settle 0), .spawn 1 (.mint 0 [o0] .none), .spawn 2 (.mint 0 [o1] .none)] ++
  List.replicate 3 (.step 1 false) ++ [.step 2 false] ++ List.replicate 5 (.step 1 false) ++ List.replicate 5 (.step 2 false)

theorem w3_both_issued : finishedOk (runCEvts (initC 0 false {}) w3) 1 = true ∧ finishedOk (runCEvts (initC 0 false {}) w3) 2 = true := by decide
theorem w3_sixteen_for_eight :
    (runCEvts (initC 0 false {}) w3).s.w.db.sigs.map (fun s => (s.b, s.amount)) = [(1, 8), (2, 8)] ∧
    (runCEvts (initC 0 false {}) w3).s.w.db.mintQ.map (fun q => q.amount) = [8] := by decide

/-- W3' (the window F11 left): the watcher reads UNPAID, a mint request runs to the end (ISSUED), the watcher writes
    PAID, the next mint request is issued again. -/
def w3n : List CEvt :=
  [.seq (.mintQuote 8 true .none false), .seq (.settle 0), .spawn 1 (.notify 0), .step 1 false, .spawn 2 (.mint 0 [o0] .none)] ++
  List.replicate 8 (.step 2 false) ++ [.step 1 false, .spawn 3 (.mint 0 [o1] .none)] ++ List.replicate 8 (.step 3 false)

theorem w3n_both_issued : finishedOk (runCEvts (initC 0 false {}) w3n) 2 = true ∧ finishedOk (runCEvts (initC 0 false {}) w3n) 3 = true := by decide
end witness

theorem schedules_full_false : ¬ schedules_full := by
  intro h
  exact h witness.w3 1 2 0 (by decide) (by decide) (by decide) (by decide) (by decide) (by decide)

end Gonuts.Props.C03
