import Gonuts.Model.MintTypes
/-!
  Effects of the mint (one constructor per `storage.MintDB` / `lightning.Client` method the
  operations use), programs as a free monad over them, and the semantics of each effect on the
  `World` (SQLite constraint / transaction behaviour, scripted Lightning backend, fault injection).

  A *step* of the small-step semantics is exactly one effect: the granularity at which the
  properties quantify over interleavings, crash points and injected storage errors.
-/
namespace Gonuts.Model.Mint

inductive DbErr where
  | fault        -- injected storage error
  | constraint   -- PRIMARY KEY / UNIQUE violation (statement fails, transaction rolled back)
  | notFound     -- sql.ErrNoRows
  | notUpdated   -- UPDATE touched no row ("… was not updated")
  | range        -- uint64 with high bit set rejected by database/sql
  | overflow     -- SUM() integer overflow
  deriving DecidableEq, Repr, Inhabited

/-- A `Y` in a state-check request: `H(secret)` of a secret the history knows, or another string. -/
inductive YRef where
  | known (secret : Nat)
  | unk (tag : Nat)
  deriving DecidableEq, Repr, Inhabited

abbrev DbRes (α : Type) := Except DbErr α

/-- Outcome of a Lightning payment / status call as the `lightning.Client` reports it. -/
structure PayRes where
  ans : LnAns
  deriving DecidableEq, Repr, Inhabited

inductive Eff : Type → Type where
  -- keysets / seed
  | getSeed : Eff (DbRes Unit)
  | getKeysets : Eff (DbRes (List KsRow))
  | saveKeyset (k : KsRow) : Eff (DbRes Unit)
  | updateKeysetActive (idx : Nat) (a : Bool) : Eff (DbRes Unit)
  -- proofs
  | saveProofs (rows : List PRow) : Eff (DbRes Unit)
  | getProofsUsed (ys : List YRef) : Eff (DbRes (List PRow))
  | addPending (rows : List PRow) (q : Nat) : Eff (DbRes Unit)
  | getPending (ys : List YRef) : Eff (DbRes (List PRow))
  | getPendingByQuote (q : Nat) : Eff (DbRes (List PRow))
  | removePending (ys : List Nat) : Eff (DbRes Unit)
  -- mint quotes
  | saveMintQuote (q : MintQ) : Eff (DbRes Unit)
  | getMintQuote (id : Int) : Eff (DbRes MintQ)
  | getMintQuoteByHash (h : Nat) : Eff (DbRes MintQ)
  | updateMintQuoteState (id : Nat) (s : MQState) : Eff (DbRes Unit)
  -- melt quotes
  | saveMeltQuote (q : MeltQ) : Eff (DbRes Unit)
  | getMeltQuote (id : Int) : Eff (DbRes MeltQ)
  | getMeltQuoteByReq (inv : Nat) : Eff (DbRes MeltQ)
  | updateMeltQuote (id : Nat) (preimage : Nat) (s : LQState) : Eff (DbRes Unit)
  -- blind signatures
  | saveSigs (sigs : List BSig) : Eff (DbRes Unit)
  | getSig (b : Nat) : Eff (DbRes BSig)
  | getSigs (bs : List Nat) : Eff (DbRes (List BSig))
  -- balance views
  | getIssued : Eff (DbRes (List (Nat × UInt64)))
  | getRedeemed : Eff (DbRes (List (Nat × UInt64)))
  -- lightning
  | lnCreateInvoice (amount : UInt64) : Eff (Option Nat)
  | lnInvoiceStatus (h : Nat) : Eff (Option Bool)
  | lnSendPayment (inv : Nat) (maxFee : UInt64) : Eff LnAns
  | lnPayPartial (inv : Nat) (msat : UInt64) (maxFee : UInt64) : Eff LnAns
  | lnOutgoingStatus (h : Nat) : Eff LnAns
  | lnFeeReserve (amount : UInt64) : Eff UInt64

/-- Label of an effect as the storage proxy of the harness records it (`none`: not a storage call). -/
def Eff.label : Eff α → Option String
  | .getSeed => some "db.GetSeed"
  | .getKeysets => some "db.GetKeysets"
  | .saveKeyset _ => some "db.SaveKeyset"
  | .updateKeysetActive _ _ => some "db.UpdateKeysetActive"
  | .saveProofs _ => some "db.SaveProofs"
  | .getProofsUsed _ => some "db.GetProofsUsed"
  | .addPending _ _ => some "db.AddPendingProofs"
  | .getPending _ => some "db.GetPendingProofs"
  | .getPendingByQuote _ => some "db.GetPendingProofsByQuote"
  | .removePending _ => some "db.RemovePendingProofs"
  | .saveMintQuote _ => some "db.SaveMintQuote"
  | .getMintQuote _ => some "db.GetMintQuote"
  | .getMintQuoteByHash _ => some "db.GetMintQuoteByPaymentHash"
  | .updateMintQuoteState _ _ => some "db.UpdateMintQuoteState"
  | .saveMeltQuote _ => some "db.SaveMeltQuote"
  | .getMeltQuote _ => some "db.GetMeltQuote"
  | .getMeltQuoteByReq _ => some "db.GetMeltQuoteByPaymentRequest"
  | .updateMeltQuote _ _ _ => some "db.UpdateMeltQuote"
  | .saveSigs _ => some "db.SaveBlindSignatures"
  | .getSig _ => some "db.GetBlindSignature"
  | .getSigs _ => some "db.GetBlindSignatures"
  | .getIssued => some "db.GetIssuedEcash"
  | .getRedeemed => some "db.GetRedeemedEcash"
  | .lnCreateInvoice _ => none
  | .lnInvoiceStatus _ => none
  | .lnSendPayment _ _ => none
  | .lnPayPartial _ _ _ => none
  | .lnOutgoingStatus _ => none
  | .lnFeeReserve _ => none

/-- The value an injected storage fault makes a storage effect return (for Lightning effects: a
    neutral value, used only as the unreachable fallback of `exec`). -/
def Eff.faultValue : (e : Eff α) → α
  | .getSeed => .error .fault
  | .getKeysets => .error .fault
  | .saveKeyset _ => .error .fault
  | .updateKeysetActive _ _ => .error .fault
  | .saveProofs _ => .error .fault
  | .getProofsUsed _ => .error .fault
  | .addPending _ _ => .error .fault
  | .getPending _ => .error .fault
  | .getPendingByQuote _ => .error .fault
  | .removePending _ => .error .fault
  | .saveMintQuote _ => .error .fault
  | .getMintQuote _ => .error .fault
  | .getMintQuoteByHash _ => .error .fault
  | .updateMintQuoteState _ _ => .error .fault
  | .saveMeltQuote _ => .error .fault
  | .getMeltQuote _ => .error .fault
  | .getMeltQuoteByReq _ => .error .fault
  | .updateMeltQuote _ _ _ => .error .fault
  | .saveSigs _ => .error .fault
  | .getSig _ => .error .fault
  | .getSigs _ => .error .fault
  | .getIssued => .error .fault
  | .getRedeemed => .error .fault
  | .lnCreateInvoice _ => none
  | .lnInvoiceStatus _ => none
  | .lnSendPayment _ _ => .err
  | .lnPayPartial _ _ _ => .err
  | .lnOutgoingStatus _ => .err
  | .lnFeeReserve _ => 0

/-! ## Programs -/

inductive Prog (α : Type) : Type 1 where
  | ret (a : α) : Prog α
  | eff {β : Type} (e : Eff β) (k : β → Prog α) : Prog α

namespace Prog

def bind {α β : Type} : Prog α → (α → Prog β) → Prog β
  | .ret a, f => f a
  | .eff e k, f => .eff e (fun r => bind (k r) f)

instance : Monad Prog where
  pure := .ret
  bind := bind

def call {β : Type} (e : Eff β) : Prog β := .eff e .ret

end Prog

/-! ## Storage semantics -/

def high (x : UInt64) : Bool := x ≥ 0x8000000000000000

def yMatch (ys : List YRef) (y : Nat) : Bool := ys.contains (.known y)

/-- Insert rows one by one inside a transaction: any key violation or unsupported value fails the
    whole statement (`none` = rolled back). -/
def insertRows (table : List PRow) : List PRow → Option (List PRow)
  | [] => some table
  | r :: rest =>
    if high r.amount then none
    else if table.any (·.y == r.y) then none
    else insertRows (table ++ [r]) rest

def insertSigs (table : List BSig) : List BSig → Option (List BSig)
  | [] => some table
  | s :: rest =>
    if high s.amount then none
    else if table.any (·.b == s.b) then none
    else insertSigs (table ++ [s]) rest

def sumBy (ks : Nat) (rows : List (Nat × UInt64)) : Nat :=
  ((rows.filter (·.1 == ks)).map (·.2.toNat)).sum

def groupKeys : List (Nat × UInt64) → List Nat
  | [] => []
  | (k, _) :: rest => let r := groupKeys rest; if r.contains k then r else k :: r

/-- `SELECT keyset_id, SUM(amount) … GROUP BY keyset_id`; SQLite raises integer overflow past 2^63-1. -/
def groupSum (rows : List (Nat × UInt64)) : DbRes (List (Nat × UInt64)) :=
  let keys := groupKeys rows
  if keys.any (fun k => sumBy k rows ≥ 2 ^ 63) then .error .overflow
  else .ok (keys.map (fun k => (k, UInt64.ofNat (sumBy k rows))))

def ksIdx : KsRef → Nat
  | .known i => i
  | .unknown t => 1000000 + t

def updMintQ (qs : List MintQ) (id : Nat) (s : MQState) : List MintQ :=
  qs.map (fun q => if q.id == id then { q with state := s } else q)

def updMeltQ (qs : List MeltQ) (id : Nat) (pre : Nat) (s : LQState) : List MeltQ :=
  qs.map (fun q => if q.id == id then { q with state := s, preimage := pre } else q)

def intIs (i : Int) (n : Nat) : Bool := i == (n : Int)

/-- Semantics of the storage effects on the tables. -/
def execDb (db : DB) : (e : Eff α) → Option (DB × α)
  | .getSeed => some (db, .ok ())
  | .getKeysets => some (db, .ok db.keysets)
  | .saveKeyset k =>
    if db.keysets.any (·.idx == k.idx) then some (db, .error .constraint)
    else some ({ db with keysets := db.keysets ++ [k] }, .ok ())
  | .updateKeysetActive idx a =>
    if db.keysets.any (·.idx == idx) then
      some ({ db with keysets := db.keysets.map (fun k => if k.idx == idx then { k with active := a } else k) }, .ok ())
    else some (db, .error .notUpdated)
  | .saveProofs rows =>
    match insertRows db.spent rows with
    | some t => some ({ db with spent := t }, .ok ())
    | none => some (db, .error .constraint)
  | .getProofsUsed ys => some (db, .ok (db.spent.filter (fun r => yMatch ys r.y)))
  | .addPending rows q =>
    match insertRows db.pending (rows.map (fun r => { r with quote := q })) with
    | some t => some ({ db with pending := t }, .ok ())
    | none => some (db, .error .constraint)
  | .getPending ys => some (db, .ok (db.pending.filter (fun r => yMatch ys r.y)))
  | .getPendingByQuote q => some (db, .ok (db.pending.filter (·.quote == q)))
  | .removePending ys => some ({ db with pending := db.pending.filter (fun r => !ys.contains r.y) }, .ok ())
  | .saveMintQuote q =>
    if high q.amount then some (db, .error .range)
    else if db.mintQ.any (·.id == q.id) then some (db, .error .constraint)
    else some ({ db with mintQ := db.mintQ ++ [q] }, .ok ())
  | .getMintQuote id =>
    match db.mintQ.find? (fun q => intIs id q.id) with
    | some q => some (db, .ok q)
    | none => some (db, .error .notFound)
  | .getMintQuoteByHash h =>
    match db.mintQ.find? (·.hash == h) with
    | some q => some (db, .ok q)
    | none => some (db, .error .notFound)
  | .updateMintQuoteState id s =>
    if db.mintQ.any (·.id == id) then some ({ db with mintQ := updMintQ db.mintQ id s }, .ok ())
    else some (db, .error .notUpdated)
  | .saveMeltQuote q =>
    if high q.amount || high q.feeReserve || high q.amountMsat then some (db, .error .range)
    else if db.meltQ.any (·.id == q.id) then some (db, .error .constraint)
    else some ({ db with meltQ := db.meltQ ++ [q] }, .ok ())
  | .getMeltQuote id =>
    match db.meltQ.find? (fun q => intIs id q.id) with
    | some q => some (db, .ok q)
    | none => some (db, .error .notFound)
  | .getMeltQuoteByReq inv =>
    match db.meltQ.find? (·.inv == inv) with
    | some q => some (db, .ok q)
    | none => some (db, .error .notFound)
  | .updateMeltQuote id pre s =>
    if db.meltQ.any (·.id == id) then some ({ db with meltQ := updMeltQ db.meltQ id pre s }, .ok ())
    else some (db, .error .notUpdated)
  | .saveSigs sigs =>
    match insertSigs db.sigs sigs with
    | some t => some ({ db with sigs := t }, .ok ())
    | none => some (db, .error .constraint)
  | .getSig b =>
    match db.sigs.find? (·.b == b) with
    | some s => some (db, .ok s)
    | none => some (db, .error .notFound)
  | .getSigs bs => some (db, .ok (db.sigs.filter (fun s => bs.contains s.b)))
  | .getIssued => some (db, groupSum (db.sigs.map (fun s => (s.ks, s.amount))))
  | .getRedeemed => some (db, groupSum (db.spent.map (fun r => (ksIdx r.ks, r.amount))))
  | .lnCreateInvoice _ => none
  | .lnInvoiceStatus _ => none
  | .lnSendPayment _ _ => none
  | .lnPayPartial _ _ _ => none
  | .lnOutgoingStatus _ => none
  | .lnFeeReserve _ => none

/-! ## Lightning semantics (scripted backend) -/

def maxU64 : UInt64 := 0xFFFFFFFFFFFFFFFF

/-- msat written into an own invoice: exact up to 2^40 sat; beyond that BOLT11 cannot carry the
    amount and the scripted backend writes a token 1000 msat (only the limit checks see such quotes). -/
def invoiceMsat (amount : UInt64) : UInt64 :=
  if amount > 0x10000000000 then 1000 else amount * 1000

def popScript (ln : LN) : LN × LnAns :=
  match ln.script with
  | [] => (ln, .err)
  | a :: rest => ({ ln with script := rest }, a)

def invMsat (ln : LN) (inv : Nat) : UInt64 :=
  match ln.invoices.find? (·.id == inv) with
  | some i => i.msat
  | none => 0

def record (ln : LN) (c : LnCall) : LN := { ln with calls := ln.calls ++ [c] }

def execLn (ln : LN) : (e : Eff α) → Option (LN × α)
  | .lnCreateInvoice amount =>
    if ln.failCreateInvoice > 0 then
      some (record { ln with failCreateInvoice := ln.failCreateInvoice - 1 } ⟨"CreateInvoice", -1, 0, 0, "err"⟩, none)
    else
      let id := ln.invoices.length
      let inv : Invoice := { id := id, msat := invoiceMsat amount, settled := false, external := false }
      some (record { ln with invoices := ln.invoices ++ [inv] } ⟨"CreateInvoice", id, invoiceMsat amount, 0, "ok"⟩, some id)
  | .lnInvoiceStatus h =>
    match ln.invoices.find? (·.id == h) with
    | none => some (record ln ⟨"InvoiceStatus", -1, 0, 0, "err"⟩, none)
    | some inv =>
      if ln.failInvoiceStatus > 0 then
        some (record { ln with failInvoiceStatus := ln.failInvoiceStatus - 1 } ⟨"InvoiceStatus", h, 0, 0, "err"⟩, none)
      else
        some (record ln ⟨"InvoiceStatus", h, 0, 0, if inv.settled then "settled" else "unsettled"⟩, some inv.settled)
  | .lnSendPayment inv maxFee =>
    let (ln', a) := popScript ln
    some (record ln' ⟨"SendPayment", inv, invMsat ln inv, maxFee, a.str⟩, a)
  | .lnPayPartial inv msat maxFee =>
    let (ln', a) := popScript ln
    some (record ln' ⟨"PayPartialAmount", inv, if msat == 0 then invMsat ln inv else msat, maxFee, a.str⟩, a)
  | .lnOutgoingStatus h =>
    let (ln', a) := popScript ln
    some (record ln' ⟨"OutgoingPaymentStatus", h, 0, 0, a.str⟩, a)
  | .lnFeeReserve amount =>
    some (ln, if ln.feePct then (amount + 99) / 100 else 0)
  | .getSeed => none
  | .getKeysets => none
  | .saveKeyset _ => none
  | .updateKeysetActive _ _ => none
  | .saveProofs _ => none
  | .getProofsUsed _ => none
  | .addPending _ _ => none
  | .getPending _ => none
  | .getPendingByQuote _ => none
  | .removePending _ => none
  | .saveMintQuote _ => none
  | .getMintQuote _ => none
  | .getMintQuoteByHash _ => none
  | .updateMintQuoteState _ _ => none
  | .saveMeltQuote _ => none
  | .getMeltQuote _ => none
  | .getMeltQuoteByReq _ => none
  | .updateMeltQuote _ _ _ => none
  | .saveSigs _ => none
  | .getSig _ => none
  | .getSigs _ => none
  | .getIssued => none
  | .getRedeemed => none

/-! ## One step: perform an effect on the world -/

/-- Perform one effect. Storage effects are appended to the trace and are subject to fault injection
    (`faultAt = some k`: the `k`-th storage call from now fails without touching the tables). -/
def exec (w : World) (e : Eff α) : World × α :=
  match e.label with
  | some l =>
    let w1 := { w with trace := w.trace ++ [l], nDb := w.nDb + 1 }
    if w.faultAt == some w.nDb then
      ({ w1 with faultAt := none }, e.faultValue)
    else
      match execDb w.db e with
      | some (db', r) => ({ w1 with db := db' }, r)
      | none => (w1, e.faultValue)
  | none =>
    match execLn w.ln e with
    | some (ln', r) => ({ w with ln := ln' }, r)
    | none => (w, e.faultValue)

/-- Run a program to completion (sequential semantics). -/
def Prog.run : Prog α → World → World × α
  | .ret a, w => (w, a)
  | .eff e k, w => let (w', r) := exec w e; (k r).run w'

/-- Run at most `n` effects, then stop (crash after `n` calls): the continuation is dropped. -/
def Prog.runN : Prog α → Nat → World → World × Option α
  | .ret a, _, w => (w, some a)
  | .eff _ _, 0, w => (w, none)
  | .eff e k, n + 1, w => let (w', r) := exec w e; (k r).runN n w'

/-- Number of effects a program performs from a given world. -/
def Prog.steps : Prog α → World → Nat
  | .ret _, _ => 0
  | .eff e k, w => let (w', r) := exec w e; (k r).steps w' + 1

end Gonuts.Model.Mint
