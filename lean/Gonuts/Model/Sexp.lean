/-
  S-expressions: the line protocol between the Go harness and the Lean driver.
  One expression per line.  Atoms are runs of characters other than whitespace,
  parentheses and double quotes; strings are double-quoted with `\"`, `\\`,
  `\n`, `\t`, `\r` and `\uXXXXXX` (six hex digits) escapes, so arbitrary Unicode
  text travels on one line.  The parser is driver glue (not part of any theorem),
  hence `partial`.
-/
namespace Gonuts

inductive Sexp where
  | atom (s : String)
  | str (s : String)
  | list (xs : List Sexp)
  deriving Repr, Inhabited, BEq

namespace Sexp

private def hexVal (c : Char) : Option Nat :=
  if '0' ≤ c ∧ c ≤ '9' then some (c.toNat - '0'.toNat)
  else if 'a' ≤ c ∧ c ≤ 'f' then some (c.toNat - 'a'.toNat + 10)
  else if 'A' ≤ c ∧ c ≤ 'F' then some (c.toNat - 'A'.toNat + 10)
  else none

private def isDelim (c : Char) : Bool :=
  c == ' ' || c == '\t' || c == '\n' || c == '\r' || c == '(' || c == ')' || c == '"'

private partial def parseStr : List Char → List Char → Option (String × List Char)
  | [], _ => none
  | '"' :: rest, a => some (String.ofList a.reverse, rest)
  | '\\' :: 'n' :: rest, a => parseStr rest ('\n' :: a)
  | '\\' :: 't' :: rest, a => parseStr rest ('\t' :: a)
  | '\\' :: 'r' :: rest, a => parseStr rest ('\r' :: a)
  | '\\' :: '"' :: rest, a => parseStr rest ('"' :: a)
  | '\\' :: '\\' :: rest, a => parseStr rest ('\\' :: a)
  | '\\' :: 'u' :: h1 :: h2 :: h3 :: h4 :: h5 :: h6 :: rest, a =>
    match hexVal h1, hexVal h2, hexVal h3, hexVal h4, hexVal h5, hexVal h6 with
    | some a1, some a2, some a3, some a4, some a5, some a6 =>
      parseStr rest (Char.ofNat (((((a1*16+a2)*16+a3)*16+a4)*16+a5)*16+a6) :: a)
    | _, _, _, _, _, _ => none
  | '\\' :: _, _ => none
  | ch :: rest, a => parseStr rest (ch :: a)

private partial def parseAtom : List Char → List Char → (String × List Char)
  | [], a => (String.ofList a.reverse, [])
  | ch :: rest, a =>
    if isDelim ch then (String.ofList a.reverse, ch :: rest) else parseAtom rest (ch :: a)

mutual
  private partial def parseOne : List Char → Option (Sexp × List Char)
    | [] => none
    | c :: cs =>
      if c == ' ' || c == '\t' || c == '\n' || c == '\r' then parseOne cs
      else if c == '(' then
        match parseMany cs [] with
        | some (xs, rest) => some (Sexp.list xs, rest)
        | none => none
      else if c == ')' then none
      else if c == '"' then
        match parseStr cs [] with
        | some (s, rest) => some (Sexp.str s, rest)
        | none => none
      else
        let (s, rest) := parseAtom cs [c]
        some (Sexp.atom s, rest)
  private partial def parseMany : List Char → List Sexp → Option (List Sexp × List Char)
    | [], _ => none
    | c :: cs, acc =>
      if c == ' ' || c == '\t' || c == '\n' || c == '\r' then parseMany cs acc
      else if c == ')' then some (acc.reverse, cs)
      else
        match parseOne (c :: cs) with
        | some (x, rest) => parseMany rest (x :: acc)
        | none => none
end

/-- Parse one line into an S-expression (trailing whitespace allowed). -/
def parse (line : String) : Option Sexp :=
  match parseOne line.toList with
  | some (x, rest) => if rest.all (fun c => c == ' ' || c == '\t' || c == '\n' || c == '\r') then some x else none
  | none => none

private def hexDigit (n : Nat) : Char :=
  if n < 10 then Char.ofNat ('0'.toNat + n) else Char.ofNat ('a'.toNat + n - 10)

private def escChar (c : Char) : String :=
  if c == '"' then "\\\"" else if c == '\\' then "\\\\"
  else if c == '\n' then "\\n" else if c == '\t' then "\\t" else if c == '\r' then "\\r"
  else if c.toNat < 0x20 || c.toNat ≥ 0x7f then
    let n := c.toNat
    "\\u" ++ String.ofList [hexDigit (n / 0x100000 % 16), hexDigit (n / 0x10000 % 16),
      hexDigit (n / 0x1000 % 16), hexDigit (n / 0x100 % 16), hexDigit (n / 0x10 % 16), hexDigit (n % 16)]
  else String.singleton c

def quote (s : String) : String :=
  "\"" ++ String.join (s.toList.map escChar) ++ "\""

partial def render : Sexp → String
  | atom s => s
  | str s => quote s
  | list xs => "(" ++ " ".intercalate (xs.map render) ++ ")"

/-! Accessors used by the driver. -/
def asNat? : Sexp → Option Nat
  | atom s => s.toNat?
  | _ => none

def asStr? : Sexp → Option String
  | atom s => some s
  | str s => some s
  | _ => none

def asList? : Sexp → Option (List Sexp)
  | list xs => some xs
  | _ => none

def ofNat (n : Nat) : Sexp := atom (toString n)
def ofBool (b : Bool) : Sexp := atom (if b then "true" else "false")
def ofNats (ns : List Nat) : Sexp := list (ns.map ofNat)

def asBool? : Sexp → Option Bool
  | atom "true" => some true
  | atom "false" => some false
  | _ => none

def asNats? : Sexp → Option (List Nat)
  | list xs => xs.mapM asNat?
  | _ => none

end Sexp
end Gonuts
