import Gonuts.Model.Amount
/-!
  Types of the mint model (`Model.Mint`): symbolic protocol values, the database tables of
  mint/storage/sqlite, the scripted Lightning backend, configuration.

  Symbolic view of cryptography (DESIGN §3.4): a secret is an id (`Y = H(secret)` is identified
  with it: `H` injective is a stated hypothesis), a blinded message `B_` is an id, and a proof's
  `C` is the term `sig ks amt secret` exactly when it equals `k_{ks,amt} · H(secret)`.
-/
namespace Gonuts.Model.Mint

abbrev Amt := UInt64

/-- Keyset id as a client writes it: the id of the mint's keyset with derivation index `idx`,
    or some other string (`tag` distinguishes different strings). -/
inductive KsRef where
  | known (idx : Nat)
  | unknown (tag : Nat)
  deriving DecidableEq, Repr, Inhabited

/-- The `C` field of a proof, classified by provenance. -/
inductive CTerm where
  | sig (ks : Nat) (amt : Amt) (secret : Nat)  -- k_{ks,amt}·H(secret): a genuine signature
  | other (tag : Nat)                           -- a valid curve point that is no such signature
  | nonhex (tag : Nat)                          -- hex.DecodeString fails
  | nonpoint (tag : Nat)                        -- ParsePubKey fails
  deriving DecidableEq, Repr, Inhabited

/-- The `B_` field of a blinded message. `pt id`: a parseable point (id = identity of the string). -/
inductive BTerm where
  | pt (id : Nat)
  | nonhex (tag : Nat)
  | nonpoint (tag : Nat)
  deriving DecidableEq, Repr, Inhabited

/-- Spending condition of a proof. `plain`: the secret is not NUT-10 JSON (or of kind
    "anyone can spend").  `locked sigAll verdict`: a NUT-10 P2PK/HTLC secret; `verdict` is the outcome of
    the NUT-11/14 input verifier (`none` = accepted, `some (code, name)` = the error it returns) as
    computed by `Model.Spend` on the symbolised secret and witness; `sigAll` is `nut11.IsSigAll`.
    `nut10 sigAll`: NUT-10 JSON of another kind (no verifier runs, but `ProofsSigAll` still sees it). -/
inductive Lock where
  | plain
  | locked (sigAll : Bool) (verdict : Option (Nat × String))
  | nut10other (sigAll : Bool)
  deriving DecidableEq, Repr, Inhabited

structure Proof where
  amount : Amt
  ks : KsRef
  secret : Nat
  long : Bool        -- len(secret) > MAX_SECRET_LENGTH
  c : CTerm
  cEnc : Nat         -- identity of the C *string* beyond the point (0 canonical; case / encoding variants)
  witness : Nat      -- identity of the witness string (0 = "")
  dleq : Nat         -- 0 = nil pointer; otherwise the identity of the decoded *pointer* (never equal between two decoded proofs)
  lock : Lock
  deriving DecidableEq, Repr, Inhabited

structure BMsg where
  amount : Amt
  ks : KsRef
  b : BTerm
  witness : Nat
  deriving DecidableEq, Repr, Inhabited

/-- A blind signature as returned/stored: `C_ = k_{ks,amount}·B_` is determined by these. -/
structure BSig where
  b : Nat
  amount : Amt
  ks : Nat
  deriving DecidableEq, Repr, Inhabited

inductive MQState where | unpaid | paid | issued | pending
  deriving DecidableEq, Repr, Inhabited
inductive LQState where | unpaid | pending | paid
  deriving DecidableEq, Repr, Inhabited
inductive PState where | unspent | pending | spent
  deriving DecidableEq, Repr, Inhabited

def MQState.str : MQState → String
  | .unpaid => "UNPAID" | .paid => "PAID" | .issued => "ISSUED" | .pending => "PENDING"
def LQState.str : LQState → String
  | .unpaid => "UNPAID" | .pending => "PENDING" | .paid => "PAID"
def PState.str : PState → String
  | .unspent => "UNSPENT" | .pending => "PENDING" | .spent => "SPENT"

/-! ## Database (mint/storage/sqlite) -/

structure KsRow where
  idx : Nat
  active : Bool
  fee : UInt64
  deriving DecidableEq, Repr, Inhabited

/-- Row of `proofs` / `pending_proofs` (PK `y`, UNIQUE `secret`; `y = H(secret)` so one key). -/
structure PRow where
  y : Nat
  amount : Amt
  ks : KsRef
  c : CTerm
  cEnc : Nat
  witness : Nat
  quote : Nat := 0   -- melt_quote_id (pending table only)
  deriving DecidableEq, Repr, Inhabited

structure MintQ where
  id : Nat
  amount : Amt
  hash : Nat
  state : MQState
  pubkey : Option Nat
  deriving DecidableEq, Repr, Inhabited

structure MeltQ where
  id : Nat
  inv : Nat          -- identity of the payment request string (= invoice id)
  hash : Nat
  amount : Amt
  feeReserve : Amt
  state : LQState
  preimage : Nat     -- 0 = "", h+1 = preimage of invoice h
  isMpp : Bool
  amountMsat : UInt64
  deriving DecidableEq, Repr, Inhabited

structure DB where
  keysets : List KsRow := []
  spent : List PRow := []
  pending : List PRow := []
  mintQ : List MintQ := []
  meltQ : List MeltQ := []
  sigs : List BSig := []
  deriving Repr, Inhabited

/-! ## Lightning backend: persistent invoice state + a script of answers for the outgoing side -/

structure Invoice where
  id : Nat           -- = payment hash id = request id
  msat : UInt64
  settled : Bool
  external : Bool    -- not created by this mint
  deriving DecidableEq, Repr, Inhabited

/-- Answers of SendPayment / PayPartialAmount / OutgoingPaymentStatus. -/
inductive LnAns where
  | succ | pending | failed | failedErr | err | notfound | notfoundGrpc
  deriving DecidableEq, Repr, Inhabited

def LnAns.str : LnAns → String
  | .succ => "succ" | .pending => "pending" | .failed => "failed" | .failedErr => "failed-err"
  | .err => "err" | .notfound => "notfound" | .notfoundGrpc => "notfound-grpc"

/-- One recorded backend call (the C02 ledger). -/
structure LnCall where
  kind : String
  hash : Int
  msat : UInt64
  maxFee : UInt64
  ans : String
  deriving DecidableEq, Repr, Inhabited

structure LN where
  invoices : List Invoice := []
  script : List LnAns := []
  failInvoiceStatus : Nat := 0   -- upcoming InvoiceStatus calls that fail
  failCreateInvoice : Nat := 0
  feePct : Bool := false         -- FeeReserve = ceil(1%) (LND/CLN) or 0 (fake backend)
  calls : List LnCall := []
  deriving Repr, Inhabited

structure Cfg where
  mpp : Bool := false
  maxMint : UInt64 := 0
  maxBalance : UInt64 := 0
  maxMelt : UInt64 := 0
  deriving Repr, Inhabited

/-- In-memory keyset cache of `Mint` (`keysets` map and `activeKeyset`). -/
structure Mem where
  keysets : List KsRow := []
  active : Nat := 0
  deriving Repr, Inhabited

structure World where
  db : DB := {}
  ln : LN := {}
  mem : Mem := {}
  cfg : Cfg := {}
  /-- effect labels performed (ghost; the harness compares it with the proxy's trace) -/
  trace : List String := []
  /-- fault injection: fail the storage call with this index (counted from arming) -/
  faultAt : Option Nat := none
  nDb : Nat := 0
  nextMintQ : Nat := 0
  nextMeltQ : Nat := 0
  deriving Repr, Inhabited

/-- Result of an API call: the Go `error` is `err code name` (name = the error variable, or a tag
    for `BuildCashuError` messages). -/
inductive Out (α : Type) where
  | ok (a : α)
  | err (code : Nat) (name : String)
  deriving Repr

end Gonuts.Model.Mint
