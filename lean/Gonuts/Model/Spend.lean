import Gonuts.Model.SpendBase
/-!
  Model.Spend — executable model of the NUT-10/11/14 spending-condition code, mirroring the Go
  line by line (cashu/nuts/nut11/nut11.go, cashu/nuts/nut14/nut14.go, and in mint/mint.go the
  dispatch of `verifyProofs`, `verifyBlindedMessages` and the `ProofsSigAll` uses in `Swap` /
  `MeltTokens`).  Core Lean only (linked into the driver).

  The three places where the code used to deviate from NUT-11/14 (F6, F7, F8, repaired by `fix:` commits in
  /repo) are each ONE marked definition (`F6 line`, `F7 line`, `F8 line`); the rest of the model does not know about
  them, and `Tie.Spend` ties each of them to the source line it mirrors.
-/
namespace Gonuts.Model.Spend

/-- The Go error values the functions in scope can return (canonical names = Go variable names;
    the last block are `cashu.BuildCashuError(...)` values identified by their message prefix). -/
inductive Err where
  -- nut11 error variables
  | invalidTag | tooManyTags | nSigsMustBePositive | emptyPubkeys | invalidWitness | invalidKind
  | duplicateSignatures | notEnoughSignatures | noSignatures | allSigAllFlags
  | sigAllKeysMustBeEqual | sigAllOnlySwap | nSigsMustBeEqual
  -- nut14 error variables
  | invalidPreimage | invalidHash
  -- built errors (NUT11ErrCode): "invalig sigflag: …", "invalig n_sigs value: …", "invalid locktime: …", "invalid public key: …"
  | badSigflag | badNSigs | badLocktime | badPublicKey
  -- built errors (StandardErrCode) of verifyBlindedMessages: DeserializeSecret failed / hex.DecodeString(B_) failed
  | secretNotNut10 | badB_
  -- helper failures (plain `errors.New` in AddWitnessHTLC)
  | helperTooManySigs | helperCannotSign
  -- `proofs[0]` on an empty list (run-time panic)
  | panicIndex
  deriving DecidableEq, Repr, Inhabited

def Err.name : Err → String
  | .invalidTag => "InvalidTagErr" | .tooManyTags => "TooManyTagsErr"
  | .nSigsMustBePositive => "NSigsMustBePositiveErr" | .emptyPubkeys => "EmptyPubkeysErr"
  | .invalidWitness => "InvalidWitness" | .invalidKind => "InvalidKindErr"
  | .duplicateSignatures => "DuplicateSignaturesErr" | .notEnoughSignatures => "NotEnoughSignaturesErr"
  | .noSignatures => "NoSignaturesErr" | .allSigAllFlags => "AllSigAllFlagsErr"
  | .sigAllKeysMustBeEqual => "SigAllKeysMustBeEqualErr" | .sigAllOnlySwap => "SigAllOnlySwap"
  | .nSigsMustBeEqual => "NSigsMustBeEqualErr"
  | .invalidPreimage => "InvalidPreimageErr" | .invalidHash => "InvalidHashErr"
  | .badSigflag => "built:sigflag" | .badNSigs => "built:n_sigs" | .badLocktime => "built:locktime"
  | .badPublicKey => "built:pubkey" | .secretNotNut10 => "built:secret" | .badB_ => "built:B_"
  | .helperTooManySigs => "helper:too-many-sigs" | .helperCannotSign => "helper:cannot-sign"
  | .panicIndex => "panic"

/-- Rows `(Go variable name, Detail)` of the error variables the model uses (tied to `Gen.nut11Errs`/`Gen.nut14Errs`). -/
def nut11ErrTable : List (Err × String) :=
  [(.allSigAllFlags, "all flags must be SIG_ALL"), (.duplicateSignatures, "witness has duplicate signatures"),
   (.emptyPubkeys, "pubkeys tag cannot be empty if n_sigs tag is present"), (.invalidKind, "invalid kind in secret"),
   (.invalidTag, "invalid tag"), (.invalidWitness, "invalid witness"),
   (.nSigsMustBeEqual, "all n_sigs must be the same for SIG_ALL"),
   (.nSigsMustBePositive, "n_sigs must be a positive integer"), (.noSignatures, "no signatures provided in witness"),
   (.notEnoughSignatures, "not enough valid signatures provided"),
   (.sigAllKeysMustBeEqual, "all public keys must be the same for SIG_ALL"),
   (.sigAllOnlySwap, "SIG_ALL can only be used in /swap operation"), (.tooManyTags, "too many tags")]
def nut14ErrTable : List (Err × String) :=
  [(.invalidHash, "Invalid hash in secret"), (.invalidPreimage, "Invalid preimage for HTLC")]

/-- `(T, error)` -/
inductive Res (α : Type) where
  | ok (a : α)
  | err (e : Err)
  deriving DecidableEq, Repr, Inhabited

abbrev Outcome := Res Unit

def Res.isOk {α} : Res α → Bool
  | .ok _ => true
  | .err _ => false

/-! ## nut11.ParseP2PKTags -/

/-- nut11.P2PKTags (zero value = all defaults). `nSigs` is a Go `int` that is ≥ 0 after parsing. -/
structure Tags where
  sigflag : String := ""
  nSigs : Nat := 0
  pubkeys : List Key := []
  locktime : Int := 0
  refund : List Key := []
  deriving DecidableEq, Repr, Inhabited

/-- the `for i := 1; i < len(tag); i++ { ParsePublicKey(tag[i]) … }` loops -/
def parseKeys (env : Env) : List String → Res (List Key)
  | [] => .ok []
  | s :: rest =>
    match env.parseKey s with
    | none => .err .badPublicKey
    | some k =>
      match parseKeys env rest with
      | .err e => .err e
      | .ok ks => .ok (k :: ks)

/-- the `for _, tag := range tags { … switch tagType … }` loop; `t` is the accumulated `p2pkTags`. -/
def parseTagsLoop (env : Env) : List (List String) → Tags → Res Tags
  | [], t => .ok t
  | tag :: rest, t =>
    match tag with
    | [] => .err .invalidTag                                  -- len(tag) < 2
    | [_] => .err .invalidTag
    | ty :: v :: more =>
      if ty = SIGFLAG then
        if v = SIGINPUTS ∨ v = SIGALL then parseTagsLoop env rest { t with sigflag := v }
        else .err .badSigflag
      else if ty = NSIGS then
        match parseInt v 8 with
        | none => .err .badNSigs
        | some n => if n < 0 then .err .nSigsMustBePositive else parseTagsLoop env rest { t with nSigs := n.toNat }
      else if ty = PUBKEYS then
        match parseKeys env (v :: more) with
        | .err e => .err e
        | .ok ks => parseTagsLoop env rest { t with pubkeys := ks }
      else if ty = LOCKTIME then
        match parseInt v 64 with
        | none => .err .badLocktime
        | some l => parseTagsLoop env rest { t with locktime := l }
      else if ty = REFUND then
        match parseKeys env (v :: more) with
        | .err e => .err e
        | .ok ks => parseTagsLoop env rest { t with refund := ks }
      else parseTagsLoop env rest t                            -- unknown tag: ignored

/-- nut11.ParseP2PKTags -/
def parseTags (env : Env) (tags : List (List String)) : Res Tags :=
  if tags.length > 5 then .err .tooManyTags
  else parseTagsLoop env tags {}

/-! ## nut11.DuplicateSignatures, nut11.HasValidSignatures -/

/-- nut11.DuplicateSignatures: some signature string occurs twice. -/
def duplicateSignatures : List Sig → Bool
  | [] => false
  | s :: rest => rest.contains s || duplicateSignatures rest

/-- index of the first key of `keys` under which signature `s` verifies for `m`
    (`for i, pubkey := range pubkeysCopy { if sig.Verify(hash, pubkey) {…; break} }`). -/
def findKey (valid : Sig → Key → Msg → Bool) (m : Msg) (s : Sig) : List Key → Option Nat
  | [] => none
  | k :: ks => if valid s k m then some 0 else (findKey valid m s ks).map (· + 1)

/-- The guard in front of `pubkeysCopy = slices.Delete(pubkeysCopy, i, i+1)`.
    **F6 (repaired in /repo: "fix: always remove the matched key in HasValidSignatures")**: the code used to read
    `if len(pubkeysCopy) > 1` — `decide (keys.length > 1)` — so the last remaining key was never removed and could be
    counted again by a second signature of the same signer.  Now the deletion is unconditional. -/
def removeMatchedKey (_keys : List Key) : Bool := true   -- F6 line (was: decide (keys.length > 1))

/-- the outer loop of HasValidSignatures; returns `validSignatures`. -/
def hvsCount (valid : Sig → Key → Msg → Bool) (m : Msg) : List Sig → List Key → Nat
  | [], _ => 0
  | s :: rest, keys =>
    match findKey valid m s keys with
    | none => hvsCount valid m rest keys
    | some i => 1 + hvsCount valid m rest (if removeMatchedKey keys then keys.eraseIdx i else keys)

/-- nut11.HasValidSignatures(hash, signatures, Nsigs, pubkeys) -/
def hasValidSignatures (valid : Sig → Key → Msg → Bool) (m : Msg) (sigs : List Sig) (n : Nat) (keys : List Key) : Bool :=
  decide (hvsCount valid m sigs keys ≥ n)

/-! ## proofs and outputs as the verifiers see them -/

/-- cashu.Proof, reduced to what the spending-condition checks read. -/
structure Proof where
  /-- `nut10.DeserializeSecret(proof.Secret)`; `none` = error (an ordinary random secret) -/
  secret : Option Secret
  /-- id of `sha256([]byte(proof.Secret))` -/
  msg : Msg
  witness : Witness
  deriving DecidableEq, Repr, Inhabited

/-- cashu.BlindedMessage, reduced likewise. -/
structure Output where
  /-- id of `sha256(hexdecode(B_))`; `none` = `hex.DecodeString(B_)` fails -/
  msgDecoded : Option Msg
  /-- id of `sha256([]byte(B_))` (the hex TEXT) -/
  msgText : Msg
  witness : Witness
  deriving DecidableEq, Repr, Inhabited

/-- `p2pkTags.Locktime > 0 && time.Now().Local().Unix() > p2pkTags.Locktime` -/
def expired (env : Env) (t : Tags) : Bool := decide (t.locktime > 0) && decide (env.now > t.locktime)

/-! ## nut11.VerifyP2PKLockedProof -/
def verifyP2PK (env : Env) (p : Proof) (s : Secret) : Outcome :=
  let sigs := p.witness.signatures                              -- json.Unmarshal error ignored
  match parseTags env s.tags with
  | .err e => .err e
  | .ok t =>
    if expired env t then
      if t.refund.length = 0 then .ok ()
      else if sigs.length < 1 then .err .invalidWitness
      else if !hasValidSignatures env.valid p.msg sigs 1 t.refund then .err .notEnoughSignatures
      else .ok ()
    else
      match env.parseKey s.data with
      | none => .err .badPublicKey
      | some k =>
        if t.nSigs > 0 ∧ t.pubkeys.length = 0 then .err .emptyPubkeys
        else
          let required := if t.nSigs > 0 then t.nSigs else 1
          let keys := if t.nSigs > 0 then k :: t.pubkeys else [k]
          if sigs.length < 1 then .err .invalidWitness
          else if duplicateSignatures sigs then .err .duplicateSignatures
          else if !hasValidSignatures env.valid p.msg sigs required keys then .err .notEnoughSignatures
          else .ok ()

/-! ## nut14.VerifyHTLCProof -/

/-- `hex.DecodeString(preimage)` → `sha256` → `hex.EncodeToString`; then the two comparisons with `Secret.data`.
    Shared by VerifyHTLCProof and the HTLC branch of verifyBlindedMessages (same five lines in both). -/
def checkPreimage (env : Env) (preimage data : String) : Outcome :=
  match hexDecode preimage with
  | none => .err .invalidPreimage
  | some bytes =>
    let hash := env.sha256hex bytes
    if data.utf8ByteSize ≠ 64 then .err .invalidHash
    else if hash ≠ data then .err .invalidPreimage
    else .ok ()

def verifyHTLC (env : Env) (p : Proof) (s : Secret) : Outcome :=
  let w := p.witness                                            -- json.Unmarshal error ignored
  match parseTags env s.tags with
  | .err e => .err e
  | .ok t =>
    if expired env t then
      if t.refund.length = 0 then .ok ()
      else if w.signatures.length < 1 then .err .invalidWitness
      else if !hasValidSignatures env.valid p.msg w.signatures 1 t.refund then .err .notEnoughSignatures
      else .ok ()
    else
      match checkPreimage env w.preimage s.data with
      | .err e => .err e
      | .ok () =>
        if t.nSigs > 0 then
          if w.signatures.length < 1 then .err .noSignatures
          else if duplicateSignatures w.signatures then .err .duplicateSignatures
          else if !hasValidSignatures env.valid p.msg w.signatures t.nSigs t.pubkeys then .err .notEnoughSignatures
          else .ok ()
        else .ok ()

/-! ## mint.verifyProofs: the NUT-10 dispatch -/

/-- `nut10Secret, err := nut10.DeserializeSecret(proof.Secret); if err == nil { if Kind == P2PK {…} else if Kind == HTLC {…} }` -/
def verifySpendCond (env : Env) (p : Proof) : Outcome :=
  match p.secret with
  | none => .ok ()
  | some s =>
    match s.kind with
    | .p2pk => verifyP2PK env p s
    | .htlc => verifyHTLC env p s
    | .anyone => .ok ()

/-- the `for _, proof := range proofs` loop of verifyProofs, spending-condition part only -/
def verifyProofs (env : Env) : List Proof → Outcome
  | [] => .ok ()
  | p :: rest =>
    match verifySpendCond env p with
    | .err e => .err e
    | .ok () => verifyProofs env rest

/-! ## nut11.IsSigAll, nut11.ProofsSigAll, nut11.PublicKeys -/

/-- nut11.IsSigAll: some tag is exactly `["sigflag","SIG_ALL"]`. -/
def isSigAll (s : Secret) : Bool :=
  s.tags.any (fun tag => match tag with
    | [a, b] => decide (a = SIGFLAG) && decide (b = SIGALL)
    | _ => false)

/-- What ProofsSigAll does when `DeserializeSecret` fails on one proof.
    **F7 (repaired in /repo: "fix: ProofsSigAll skips secrets that are not NUT-10 …")**: the code used to
    `return false` there (`none` = stop with false), so a SIG_ALL proof behind a plain proof was not seen.
    Now it `continue`s (`some ()` = go on with the remaining proofs). -/
def sigAllOnPlainSecret : Option Unit := some ()   -- F7 line (was: none)

/-- nut11.ProofsSigAll -/
def proofsSigAll : List Proof → Bool
  | [] => false
  | p :: rest =>
    match p.secret with
    | none =>
      match sigAllOnPlainSecret with
      | none => false
      | some () => proofsSigAll rest
    | some s => if isSigAll s then true else proofsSigAll rest

/-- nut11.PublicKeys: the `pubkeys` tag, followed by the key of `data` for a P2PK secret. -/
def publicKeys (env : Env) (s : Secret) : Res (List Key) :=
  match parseTags env s.tags with
  | .err e => .err e
  | .ok t =>
    if s.kind = .p2pk then
      match env.parseKey s.data with
      | none => .err .badPublicKey
      | some k => .ok (t.pubkeys ++ [k])
    else .ok t.pubkeys

/-! ## mint.verifyBlindedMessages -/

def sigsRequired (t : Tags) : Nat := if t.nSigs > 0 then t.nSigs else 1

/-- first loop: every proof has the same condition -/
def sameConditions (env : Env) (pubkeys : List Key) (required : Nat) : List Proof → Outcome
  | [] => .ok ()
  | p :: rest =>
    match p.secret with
    | none => .err .secretNotNut10
    | some s =>
      if !isSigAll s then .err .allSigAllFlags
      else
        match parseTags env s.tags with
        | .err e => .err e
        | .ok t =>
          match publicKeys env s with
          | .err e => .err e
          | .ok cur =>
            if pubkeys ≠ cur then .err .sigAllKeysMustBeEqual            -- !reflect.DeepEqual
            else if required ≠ sigsRequired t then .err .nSigsMustBeEqual
            else sameConditions env pubkeys required rest

/-- body of the second loop for one blinded message -/
def checkOutput (env : Env) (s0 : Secret) (pubkeys : List Key) (required : Nat) (o : Output) : Outcome :=
  match o.msgDecoded with
  | none => .err .badB_
  | some m =>
    let sigsOrErr : Res (List Sig) :=
      match s0.kind with
      | .p2pk => if !o.witness.jsonOk then .err .invalidWitness else .ok o.witness.signatures
      | .htlc =>
        if !o.witness.jsonOk then .err .invalidWitness
        else
          match checkPreimage env o.witness.preimage s0.data with
          | .err e => .err e
          | .ok () => .ok o.witness.signatures
      | .anyone => .err .invalidKind
    match sigsOrErr with
    | .err e => .err e
    | .ok sigs =>
      if duplicateSignatures sigs then .err .duplicateSignatures
      else if !hasValidSignatures env.valid m sigs required pubkeys then .err .notEnoughSignatures
      else .ok ()

def checkOutputs (env : Env) (s0 : Secret) (pubkeys : List Key) (required : Nat) : List Output → Outcome
  | [] => .ok ()
  | o :: rest =>
    match checkOutput env s0 pubkeys required o with
    | .err e => .err e
    | .ok () => checkOutputs env s0 pubkeys required rest

/-- mint.verifyBlindedMessages(proofs, blindedMessages) -/
def verifyBlindedMessages (env : Env) (proofs : List Proof) (outs : List Output) : Outcome :=
  match proofs with
  | [] => .err .panicIndex                                        -- proofs[0]
  | p0 :: _ =>
    match p0.secret with
    | none => .err .secretNotNut10
    | some s0 =>
      match publicKeys env s0 with
      | .err e => .err e
      | .ok pubkeys =>
        match parseTags env s0.tags with
        | .err e => .err e
        | .ok t0 =>
          let required := sigsRequired t0
          match sameConditions env pubkeys required proofs with
          | .err e => .err e
          | .ok () => checkOutputs env s0 pubkeys required outs

/-! ## the spending-condition fragment of Mint.Swap and Mint.MeltTokens

  `Swap`: … `verifyProofs` … `if nut11.ProofsSigAll(proofs) { verifyBlindedMessages(proofs, blindedMessages) }` …
  `MeltTokens`: … `verifyProofs` … `if nut11.ProofsSigAll(proofs) { return SigAllOnlySwap }` …
  (order of these calls tied to `Gen.skel_Swap` / `Gen.skel_MeltTokens` in `Tie.Spend`). -/
def swapSpendCheck (env : Env) (proofs : List Proof) (outs : List Output) : Outcome :=
  match verifyProofs env proofs with
  | .err e => .err e
  | .ok () => if proofsSigAll proofs then verifyBlindedMessages env proofs outs else .ok ()

def meltSpendCheck (env : Env) (proofs : List Proof) : Outcome :=
  match verifyProofs env proofs with
  | .err e => .err e
  | .ok () => if proofsSigAll proofs then .err .sigAllOnlySwap else .ok ()

/-! ## the signing helpers (what an honest holder sends)

  `sign k m` is the id of the signature string `hex(schnorr.Sign(k, m))`. -/

/-- nut11.AddSignatureToInputs -/
def addSignatureToInputs (sign : Key → Msg → Sig) (k : Key) (proofs : List Proof) : List Proof :=
  proofs.map fun p => { p with witness := { jsonOk := true, signatures := [sign k p.msg], preimage := "" } }

/-- nut11.AddSignatureToOutputs: `hex.DecodeString(output.B_)` error → the helper fails. -/
def addSignatureToOutputs (sign : Key → Msg → Sig) (k : Key) : List Output → Res (List Output)
  | [] => .ok []
  | o :: rest =>
    match o.msgDecoded with
    | none => .err .badB_
    | some m =>
      match addSignatureToOutputs sign k rest with
      | .err e => .err e
      | .ok os => .ok ({ o with witness := { jsonOk := true, signatures := [sign k m], preimage := "" } } :: os)

/-- nut14.AddWitnessHTLC -/
def addWitnessHTLC (env : Env) (sign : Key → Msg → Sig) (proofs : List Proof) (s : Secret) (preimage : String)
    (k : Key) : Res (List Proof) :=
  match parseTags env s.tags with
  | .err e => .err e
  | .ok t =>
    if t.nSigs > 1 then .err .helperTooManySigs
    else if t.nSigs > 0 ∧ !t.pubkeys.contains k then .err .helperCannotSign
    else
      let signatureNeeded := decide (t.nSigs > 0)
      .ok (proofs.map fun p =>
        { p with witness := { jsonOk := true, signatures := if signatureNeeded then [sign k p.msg] else [], preimage := preimage } })

/-- The message AddWitnessHTLCToOutputs signs for one output.
    **F8 (repaired in /repo: "fix: hex-decode B_ in AddWitnessHTLCToOutputs before signing")**: the code used to sign
    `sha256([]byte(output.B_))` — the hex TEXT, `some o.msgText` — while the mint verifies over
    `sha256(hexdecode(B_))`.  Now it decodes, returning the decode error (`o.msgDecoded`). -/
def htlcOutputMsg (o : Output) : Option Msg := o.msgDecoded   -- F8 line (was: some o.msgText)

/-- nut14.AddWitnessHTLCToOutputs -/
def addWitnessHTLCToOutputs (sign : Key → Msg → Sig) (preimage : String) (k : Key) : List Output → Res (List Output)
  | [] => .ok []
  | o :: rest =>
    match htlcOutputMsg o with
    | none => .err .badB_
    | some m =>
      match addWitnessHTLCToOutputs sign preimage k rest with
      | .err e => .err e
      | .ok os => .ok ({ o with witness := { jsonOk := true, signatures := [sign k m], preimage := preimage } } :: os)

end Gonuts.Model.Spend
