import Gonuts.Model.Sexp
import Gonuts.Model.MintDriver
import Gonuts.Model.Wire
/-!
  Driver glue for the stateful `wire.*` commands (stream `wire`, C20): a `WSt` holds the model's HTTP
  session (`Wire.WSess` = mint session + response cache + clock).  Core-only.

    (wire.init fee feePct mpp maxMint maxBal maxMelt)            fresh mint, fresh server, now = 0
    (wire.mint (mint.<op> …))                                     an event that reaches the mint without HTTP
                                                                  (settle, extinvoice, notify, rotate, restart, fault, nofault);
                                                                  answers what `mint.<op>` answers; `mint.restart` also
                                                                  builds a new server (empty cache)
    (wire.req METHOD (seg…) "url" "ctype" "body" len DEC pathSym lnFail (script…))
         DEC = (ok PARSED) | syntax | type | empty | other
         PARSED = none | (mintquote amt unit pk) | (mint q outs sig) | (swap ps outs [verdict]) | (meltquote inv unit mpp)
                | (melt q ps) | (checkstate ys) | (restore outs)
       → (status "body" (storage-trace…) (lightning-calls…) cacheLen info)
    (wire.advance ns) (wire.tick stale) (wire.newserver)
    (wire.cache.set "k" "v" durNs) (wire.cache.get "k") (wire.cache.delexp) (wire.cache.len) (wire.cache.reset)
-/
namespace Gonuts.Model.WireDriver
open Gonuts Gonuts.Model Gonuts.Model.Mint Gonuts.Model.Wire Gonuts.Model.MintDriver

structure WSt where
  s : WSess := {}
  deriving Inhabited

def int! (s : Sexp) : Option Int := MintDriver.int? s

def strs? : Sexp → Option (List String)
  | .list xs => xs.mapM Sexp.asStr?
  | _ => none

def parsed? : Sexp → Option Parsed
  | .atom "none" => some .none
  | .list [.atom "mintquote", amt, unit, pk] => do
    some (.mintQuote (← u64? amt) ((← unit.asStr?) == "sat") (← pk? pk))
  | .list [.atom "mint", q, outs, sig] => do some (.mint (← int? q) (← listOf? bmsg? outs) (← qsig? sig))
  | .list [.atom "swap", ps, outs] => do some (.swap (← listOf? proof? ps) (← listOf? bmsg? outs) none)
  | .list [.atom "swap", ps, outs, v] => do some (.swap (← listOf? proof? ps) (← listOf? bmsg? outs) (← verdict? v))
  | .list [.atom "meltquote", inv, unit, mpp] => do
    let inv ← (match inv with
      | .list [.atom "inv", h] => do some (InvReq.inv (← h.asNat?))
      | .list [.atom "noamount", h] => do some (InvReq.inv (← h.asNat?))
      | .atom "bad" => some InvReq.bad
      | _ => none)
    let mpp ← (match mpp with
      | .atom "none" => some none
      | .list [.atom "mpp", m] => do some (some (← u64? m))
      | _ => none)
    some (.meltQuote inv ((← unit.asStr?) == "sat") mpp)
  | .list [.atom "melt", q, ps] => do some (.melt (← int? q) (← listOf? proof? ps))
  | .list [.atom "checkstate", ys] => do some (.checkState (← listOf? yref? ys))
  | .list [.atom "restore", outs] => do some (.restore (← listOf? bmsg? outs))
  | _ => none

def decode? : Sexp → Option Decode
  | .list [.atom "ok", p] => do some (.ok (← parsed? p))
  | .atom "syntax" => some .syntaxErr
  | .atom "type" => some .typeErr
  | .atom "empty" => some .empty
  | .atom "other" => some .other
  | _ => none

def infoAtom : Info → String
  | .static => "static"
  | .refused _ => "refused"
  | .hit _ => "hit"
  | .executed _ _ stored => if stored then "stored" else "executed"
  | .keys true => "keys-cache"
  | .keys false => "keys"
  | .info => "info"
  | .unmodelled => "unmodelled"

def ranMint : Info → Bool
  | .executed .. | .info => true
  | _ => false

def handleSt (st : WSt) (cmd : String) (args : List Sexp) : Option (WSt × Sexp) :=
  match cmd, args with
  | "wire.init", [fee, feePct, mpp, maxMint, maxBal, maxMelt] => do
    let cfg : Cfg := { mpp := ← mpp.asBool?, maxMint := ← u64? maxMint, maxBalance := ← u64? maxBal, maxMelt := ← u64? maxMelt }
    some ({ s := { mint := initSess (← u64? fee) (← feePct.asBool?) cfg } }, l [a "ok"])
  | "wire.mint", [.list (.atom mcmd :: margs)] => do
    if mcmd == "mint.init" then none else
    let (m1, out) ← MintDriver.handle st.s.mint mcmd margs
    let s1 := { st.s with mint := m1 }
    some ({ s := if mcmd == "mint.restart" then newServer s1 else s1 }, out)
  | "wire.req", [method, segs, url, ctype, body, len, dec, pathSym, lnFail, script] => do
    let r : Request := {
      method := ← method.asStr?, segs := ← strs? segs, url := ← url.asStr?, ctype := ← ctype.asStr?,
      body := ← body.asStr?, bodyLen := ← len.asNat?, dec := ← decode? dec, pathSym := ← int? pathSym,
      lnFail := ← lnFail.asBool?, script := ← listOf? ans? script }
    let (s1, resp, inf) := handleX st.s r
    let calls := if ranMint inf then
        (match inf with
         | .executed _ (.checkState ..) _ => s1.mint.w.ln.calls.mergeSort (fun x y => x.hash ≤ y.hash)
         | _ => s1.mint.w.ln.calls)
      else []
    let trace := if ranMint inf then s1.mint.w.trace else []
    -- a state check that re-polls two or more melt quotes does so in Go's map iteration order: compare as a multiset
    let trace := match inf with
      | .executed _ (.checkState ..) _ =>
        if (trace.filter (· == "db.GetMeltQuote")).length ≥ 2 then trace.mergeSort (fun x y => decide (x ≤ y)) else trace
      | _ => trace
    some ({ s := s1 }, l [Sexp.ofNat resp.status, .str resp.body, l (trace.map a), l (calls.map callSx),
                          Sexp.ofNat s1.cache.length, a (infoAtom inf)])
  | "wire.advance", [dt] => do some ({ s := advance st.s (← int? dt) }, l [a "ok"])
  | "wire.tick", [stale] => do
    let s1 := tick st.s (← stale.asBool?)
    some ({ s := s1 }, l [a "ok", Sexp.ofNat s1.cache.length])
  | "wire.newserver", [] => some ({ s := newServer st.s }, l [a "ok"])
  | "wire.cache.reset", [] => some ({ s := { st.s with cache := [] } }, l [a "ok"])
  | "wire.cache.set", [k, v, dur] => do
    let c := st.s.cache.set (← k.asStr?) (← v.asStr?) (st.s.now + (← int? dur)) cacheLimit
    some ({ s := { st.s with cache := c } }, l [a "ok", Sexp.ofNat c.length])
  | "wire.cache.get", [k] => do
    let (c, r) := st.s.cache.get (← k.asStr?) st.s.now
    some ({ s := { st.s with cache := c } },
      match r with
      | some v => l [a "found", .str v, Sexp.ofNat c.length]
      | none => l [a "none", Sexp.ofNat c.length])
  | "wire.cache.delexp", [] =>
    let c := st.s.cache.deleteExpired st.s.now
    some ({ s := { st.s with cache := c } }, l [a "ok", Sexp.ofNat c.length])
  | "wire.cache.len", [] => some (st, l [a "ok", Sexp.ofNat st.s.cache.length])
  | _, _ => none

end Gonuts.Model.WireDriver
