import Gonuts.Model.Sexp
/-! Driver commands `wire.*` (stateless): filled in by the Wire model. Core-only imports. -/
namespace Gonuts.Model.WireDriver
open Gonuts

def handle (_cmd : String) (_args : List Sexp) : Option Sexp := none

end Gonuts.Model.WireDriver
