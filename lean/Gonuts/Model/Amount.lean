/-
  Model of the amount arithmetic in cashu/cashu.go and mint/mint.go:
  OverflowAddUint64, UnderflowSubUint64, BlindedMessages.AmountChecked, the
  unchecked `Amount()` sums, AmountSplit and the ceil(ppk/1000) fee formula.
  Go's `uint64`/`uint` are `UInt64` here: unchecked additions wrap exactly as in Go.
-/
namespace Gonuts.Model

/-- `cashu.OverflowAddUint64`. -/
def overflowAdd (a b : UInt64) : UInt64 × Bool :=
  let s := a + b
  if s < a || s < b then (UInt64.ofNat (2 ^ 64 - 1), true) else (s, false)

/-- `cashu.UnderflowSubUint64`. -/
def underflowSub (a b : UInt64) : UInt64 × Bool :=
  if b > a then (0, true) else (a - b, false)

/-- `BlindedMessages.AmountChecked` over the list of amounts: `none` = ErrAmountOverflows. -/
def amountChecked : List UInt64 → Option UInt64
  | xs => go 0 xs
where
  go (acc : UInt64) : List UInt64 → Option UInt64
    | [] => some acc
    | x :: rest =>
      let (s, o) := overflowAdd acc x
      if o then none else go s rest

/-- `Proofs.Amount()`, `BlindedMessages.Amount()`, … : wrapping sum. -/
def amountWrap (xs : List UInt64) : UInt64 := xs.foldl (· + ·) 0

/-- `cashu.AmountSplit`: powers of two of the set bits, ascending.  `pos` bounded by 64 (fuel). -/
def amountSplitAux : Nat → Nat → Nat → List Nat
  | 0, _, _ => []
  | fuel + 1, pos, amount =>
    if amount = 0 then []
    else
      let rest := amountSplitAux fuel (pos + 1) (amount / 2)
      if amount % 2 = 1 then (2 ^ pos) :: rest else rest

def amountSplit (amount : UInt64) : List UInt64 :=
  (amountSplitAux 64 0 amount.toNat).map UInt64.ofNat

/-- `(fees + 999) / 1000` in Go `uint` arithmetic (`Mint.TransactionFees`, wallet `feesForProofs`,
    `feesForCount`): `ppks` are the per-input `input_fee_ppk` values. -/
def feesOfPpks (ppks : List UInt64) : UInt64 := (amountWrap ppks + 999) / 1000

/-- `cashu.Count`. -/
def countEq (xs : List UInt64) (a : UInt64) : Nat := (xs.filter (· == a)).length

end Gonuts.Model
