import Gonuts.Model.Sexp
/-! Driver commands `spec.*` (stateless): filled in by the Spec model. Core-only imports. -/
namespace Gonuts.Model.SpecDriver
open Gonuts

def handle (_cmd : String) (_args : List Sexp) : Option Sexp := none

end Gonuts.Model.SpecDriver
