import Gonuts.Model.Sexp
import Gonuts.Spec.SelfTest
/-!
  Driver commands `spec.*` (stateless): the executable reference implementation `Gonuts.Spec.*`
  behind the line protocol.  Core-only imports.

  Byte strings travel as hex text (quoted strings, so that the empty string is expressible);
  scalars as 32-byte hex; points as 33-byte compressed hex.  Scalar multiplication is the fast
  path `Secp256k1.mulFast` (cross-checked against the affine definition by `spec.selftest` and
  on demand by `spec.mulcheck`).

    (spec.sha256 "hex") (spec.sha512 "hex") (spec.hmac512 "keyhex" "datahex")   → "hex"
    (spec.h2c "msghex")                         → (ok "point" counter) | (none)
    (spec.keysetid ((amount "keyhex") …))       → (ok "id") | (invalid-key)
    (spec.nut13 "seedhex" "idhex" counter)      → (ok "secret" "r") | (invalid-seed) | (invalid-child)
    (spec.nut13int "idhex")                     → keyset_id_int
    (spec.ckd "seedhex" (i …))                  → (ok "key" "chaincode") | (invalid-seed) | (invalid-child)
    (spec.p2pk "seedhex")                       → (ok "priv") | …
    (spec.mintkeys "seedhex" idx)               → (ok "id" ("pub" …) ("priv" …)) | …
    (spec.pub "k")                              → (ok "K")
    (spec.blind "secrethex" "r")                → (ok "B_") | (none)
    (spec.sign "B_" "k")                        → (ok "C_")
    (spec.unblind "C_" "r" "K")                 → (ok "C")
    (spec.verify "secrethex" "k" "C")           → true | false
    (spec.hashe ("P" …))                        → (ok "hex")
    (spec.dleqverify "e" "s" "A" "B_" "C_")     → true | false
    (spec.parse "hex")                          → (ok "compressed" "uncompressed") | (invalid-point)
    (spec.mulcheck "k" "P")                     → (ok "kP") | (mismatch "affine" "fast")
    (spec.selftest)                             → (ok n) | (fail "name of the first failing vector")
-/
namespace Gonuts.Model.SpecDriver
open Gonuts Gonuts.Spec Gonuts.Spec.Secp256k1

/-- The scalar multiplication the driver runs. -/
def M : Nat → Point → Point := mulFast

def sx (s : String) : Sexp := Sexp.str s
def ok (xs : List Sexp) : Sexp := Sexp.list (Sexp.atom "ok" :: xs)
def tag (s : String) : Sexp := Sexp.list [Sexp.atom s]

def bytes? (s : Sexp) : Option Bytes := do unhex? (← s.asStr?)

/-- A scalar: exactly 32 bytes of hex.  Outer `none` = malformed, inner `none` = not in `[1, n−1]`. -/
def scalar? (s : Sexp) : Option (Option Nat) := do
  let b ← bytes? s
  if b.length ≠ 32 then none
  else
    let k := beNat b
    if k = 0 ∨ n ≤ k then some none else some (some k)

/-- A point in SEC 1 octet form.  Outer `none` = malformed hex, inner `none` = not a point. -/
def point? (s : Sexp) : Option (Option Point) := do
  let b ← bytes? s
  some (parse b)

def comp (P : Point) : Sexp :=
  match serCompressed P with
  | some b => sx (hex b)
  | none => Sexp.atom "inf"

def scalarHex (k : Nat) : Sexp := sx (hex (natToBE 32 k))

def xprvResult (seed : Bytes) (path : List Nat) (f : Bip32.XPrv → Sexp) : Sexp :=
  match Bip32.master seed with
  | none => tag "invalid-seed"
  | some m =>
    match Bip32.derivePath M m path with
    | none => tag "invalid-child"
    | some k => f k

def keyPairs? : List Sexp → Option (List (Nat × Bytes))
  | [] => some []
  | Sexp.list [a, k] :: rest => do
    let a ← a.asNat?
    let k ← bytes? k
    let tl ← keyPairs? rest
    some ((a, k) :: tl)
  | _ => none

/-- Parse every key as a point and serialise it again in compressed form. -/
def canonKeys : List (Nat × Bytes) → Option (List (Nat × Bytes))
  | [] => some []
  | (a, k) :: rest =>
    if k.length ≠ 33 then none
    else
      match (parse k).bind serCompressed, canonKeys rest with
      | some b, some tl => some ((a, b) :: tl)
      | _, _ => none

def handle (cmd : String) (args : List Sexp) : Option Sexp :=
  match cmd, args with
  | "spec.sha256", [m] => do some (sx (hex (sha256 (← bytes? m))))
  | "spec.sha512", [m] => do some (sx (hex (sha512 (← bytes? m))))
  | "spec.hmac512", [k, d] => do some (sx (hex (hmacSha512 (← bytes? k) (← bytes? d))))
  | "spec.h2c", [m] => do
    match HashToCurve.hashToCurveCounter (← bytes? m) with
    | some (c, P) => some (ok [comp P, Sexp.ofNat c])
    | none => some (tag "none")
  | "spec.keysetid", [Sexp.list pairs] => do
    match canonKeys (← keyPairs? pairs) with
    | some ks => some (ok [sx (KeysetId.keysetId ks)])
    | none => some (tag "invalid-key")
  | "spec.nut13int", [id] => do some (Sexp.ofNat (Nut13.keysetIdInt (← bytes? id)))
  | "spec.nut13", [seed, id, counter] => do
    let seed ← bytes? seed
    let id ← bytes? id
    let c ← counter.asNat?
    if Bip32.hardenedStart ≤ c then none
    else
      match Bip32.master seed with
      | none => some (tag "invalid-seed")
      | some _ =>
        match Nut13.deriveSecret M seed id c, Nut13.deriveBlindingFactor M seed id c with
        | some s, some r => some (ok [sx s, scalarHex r])
        | _, _ => some (tag "invalid-child")
  | "spec.ckd", [seed, Sexp.list path] => do
    let seed ← bytes? seed
    let path ← path.mapM Sexp.asNat?
    if path.any (fun i => 2 ^ 32 ≤ i) then none
    else some (xprvResult seed path (fun k => ok [scalarHex k.key, sx (hex k.chain)]))
  | "spec.p2pk", [seed] => do
    some (xprvResult (← bytes? seed) Nut13.p2pkPath (fun k => ok [scalarHex k.key]))
  | "spec.mintkeys", [seed, idx] => do
    let seed ← bytes? seed
    let idx ← idx.asNat?
    if Bip32.hardenedStart ≤ idx then none
    else
      match Bip32.master seed with
      | none => some (tag "invalid-seed")
      | some _ =>
        match MintKeys.mintKeys M seed idx with
        | none => some (tag "invalid-child")
        | some keys =>
          match MintKeys.keysetIdOf keys with
          | none => some (tag "invalid-child")
          | some id => some (ok [sx id, Sexp.list (keys.map (fun k => comp k.pub)), Sexp.list (keys.map (fun k => scalarHex k.priv))])
  | "spec.pub", [k] => do
    match ← scalar? k with
    | some k => some (ok [comp (M k G)])
    | none => some (tag "invalid-scalar")
  | "spec.blind", [secret, r] => do
    let secret ← bytes? secret
    match ← scalar? r with
    | none => some (tag "invalid-scalar")
    | some r =>
      match Bdhke.blind M secret r with
      | some B => some (ok [comp B])
      | none => some (tag "none")
  | "spec.sign", [b, k] => do
    match ← point? b, ← scalar? k with
    | some B, some k => some (ok [comp (Bdhke.sign M B k)])
    | none, _ => some (tag "invalid-point")
    | _, none => some (tag "invalid-scalar")
  | "spec.unblind", [c, r, k] => do
    match ← point? c, ← scalar? r, ← point? k with
    | some C_, some r, some K => some (ok [comp (Bdhke.unblind M C_ r K)])
    | _, none, _ => some (tag "invalid-scalar")
    | _, _, _ => some (tag "invalid-point")
  | "spec.verify", [secret, k, c] => do
    let secret ← bytes? secret
    match ← scalar? k, ← point? c with
    | some k, some C => some (Sexp.ofBool (Bdhke.verify M secret k C))
    | none, _ => some (tag "invalid-scalar")
    | _, none => some (tag "invalid-point")
  | "spec.hashe", [Sexp.list ps] => do
    let ps ← ps.mapM point?
    match ps.mapM id with
    | none => some (tag "invalid-point")
    | some ps =>
      match Bdhke.hashE ps with
      | some h => some (ok [sx (hex h)])
      | none => some (tag "invalid-point")
  | "spec.dleqverify", [e, s, a, b, c] => do
    match ← scalar? e, ← scalar? s, ← point? a, ← point? b, ← point? c with
    | some e, some s, some A, some B, some C => some (Sexp.ofBool (Bdhke.verifyDleq M e s A B C))
    | none, _, _, _, _ => some (tag "invalid-scalar")
    | _, none, _, _, _ => some (tag "invalid-scalar")
    | _, _, _, _, _ => some (tag "invalid-point")
  | "spec.parse", [b] => do
    match ← point? b with
    | some P =>
      match serCompressed P, serUncompressed P with
      | some c, some u => some (ok [sx (hex c), sx (hex u)])
      | _, _ => some (tag "invalid-point")
    | none => some (tag "invalid-point")
  | "spec.mulcheck", [k, pt] => do
    let kb ← bytes? k
    match ← point? pt with
    | none => some (tag "invalid-point")
    | some P =>
      let k := beNat kb
      let a := mul k P
      let f := mulFast k P
      if a = f then some (ok [comp a]) else some (Sexp.list [Sexp.atom "mismatch", comp a, comp f])
  | "spec.selftest", [] =>
    match SelfTest.firstFailure M with
    | none => some (ok [Sexp.ofNat (SelfTest.count M)])
    | some name => some (Sexp.list [Sexp.atom "fail", sx name])
  | _, _ => none

end Gonuts.Model.SpecDriver
