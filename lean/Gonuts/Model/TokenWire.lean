import Gonuts.Model.Token
/-!
  Executable model of what `json.Marshal(TokenV3)` and `cbor.Marshal(TokenV4)` emit (the *encoding* half of
  the codecs; C14).  No theorem depends on it: the theorems of `Props/C14.lean` hold for every `Codec`.  It pins
  the wire format — field names and `omitempty` from the struct tags (tied to the source in `Tie/Token.lean`),
  Go's JSON string escaping, CBOR's definite-length maps in declaration order — and is compared byte for
  byte with the real `Serialize()` on every generated token by stream `token`.

  Slices are modelled as lists, so a nil slice (`null` in JSON, `0xf6` in CBOR) is not representable: the
  encoders describe tokens built by `NewTokenV3/V4` from a non-nil proof slice.

  Core Lean only.
-/
namespace Gonuts.Model.Token.Wire
open Gonuts.Model.Token

/-! ## struct tags (the third column of `Gen.fields_*`) -/

def tagsProof : List String := ["amount", "id", "secret", "C", "witness,omitempty", "dleq,omitempty"]
def tagsDLEQProof : List String := ["e", "s", "r,omitempty"]
def tagsTokenV3 : List String := ["token", "unit", "memo,omitempty"]
def tagsTokenV3Proof : List String := ["mint", "proofs"]
def tagsTokenV4 : List String := ["t", "d,omitempty", "m", "u"]
def tagsTokenV4Proof : List String := ["i", "p"]
def tagsProofV4 : List String := ["a", "s", "c", "w,omitempty", "d,omitempty"]
def tagsDLEQV4 : List String := ["e", "s", "r"]

/-- `name[,omitempty]` -/
def tagName (tag : String) : String := (tag.splitOn ",").headD ""
def tagOmitEmpty (tag : String) : Bool := (tag.splitOn ",").drop 1 |>.contains "omitempty"

/-- One encoded field value and whether it is the Go "empty value" (`""`, nil pointer, `0`, empty slice). -/
structure Field where
  bytes : Bytes
  isEmpty : Bool

/-- The fields that are actually emitted: `(name, encoded value)`, in declaration order. -/
def emitted (tags : List String) (vals : List Field) : List (String × Bytes) :=
  (tags.zip vals).filterMap fun (tag, v) =>
    if tagOmitEmpty tag && v.isEmpty then none else some (tagName tag, v.bytes)

/-! ## encoding/json -/

def hexLower (n : Nat) : UInt8 := hexDigitByte (UInt8.ofNat n)

/-- `appendString` with `escapeHTML = true` (what `json.Marshal` uses), for valid UTF-8. -/
def jsonChar (c : Char) : Bytes :=
  let n := c.toNat
  if n < 0x80 then
    if c = '\\' then [92, 92]
    else if c = '"' then [92, 34]
    else if n = 8 then [92, 98]
    else if n = 12 then [92, 102]
    else if n = 10 then [92, 110]
    else if n = 13 then [92, 114]
    else if n = 9 then [92, 116]
    else if n < 0x20 ∨ c = '<' ∨ c = '>' ∨ c = '&' then [92, 117, 48, 48, hexLower (n / 16), hexLower (n % 16)]
    else [UInt8.ofNat n]
  else if n = 0x2028 then strBytes "\\u2028"
  else if n = 0x2029 then strBytes "\\u2029"
  else String.utf8EncodeChar c

def jsonString (s : String) : Bytes := [34] ++ s.toList.flatMap jsonChar ++ [34]

def jsonNat (n : Nat) : Bytes := strBytes (toString n)

def joinBytes (sep : Bytes) : List Bytes → Bytes
  | [] => []
  | [x] => x
  | x :: rest => x ++ sep ++ joinBytes sep rest

def jsonArray (xs : List Bytes) : Bytes := [91] ++ joinBytes [44] xs ++ [93]

def jsonObject (tags : List String) (vals : List Field) : Bytes :=
  [123] ++ joinBytes [44] ((emitted tags vals).map fun (k, v) => jsonString k ++ [58] ++ v) ++ [125]

def jsonDLEQ (d : DLEQ) : Bytes :=
  jsonObject tagsDLEQProof [⟨jsonString d.e, false⟩, ⟨jsonString d.s, false⟩, ⟨jsonString d.r, d.r.isEmpty⟩]

def jsonProof (p : Proof) : Bytes :=
  jsonObject tagsProof
    [⟨jsonNat p.amount.toNat, false⟩, ⟨jsonString p.id, false⟩, ⟨jsonString p.secret, false⟩, ⟨jsonString p.c, false⟩,
     ⟨jsonString p.witness, p.witness.isEmpty⟩,
     match p.dleq with
     | none => ⟨[], true⟩
     | some d => ⟨jsonDLEQ d, false⟩]

def jsonTokenV3Proof (e : TokenV3Proof) : Bytes :=
  jsonObject tagsTokenV3Proof [⟨jsonString e.mint, false⟩, ⟨jsonArray (e.proofs.map jsonProof), false⟩]

/-- `json.Marshal(t)` for a `TokenV3`. -/
def jsonTokenV3 (t : TokenV3) : Bytes :=
  jsonObject tagsTokenV3
    [⟨jsonArray (t.token.map jsonTokenV3Proof), false⟩, ⟨jsonString t.unit, false⟩, ⟨jsonString t.memo, t.memo.isEmpty⟩]

/-! ## fxamacker/cbor (default options: definite lengths, struct fields in declaration order) -/

def beBytes (n : Nat) : Nat → Bytes
  | 0 => []
  | k + 1 => UInt8.ofNat (n / 256 ^ k % 256) :: beBytes n k

/-- Head of a CBOR data item: major type and argument in the shortest form. -/
def cborHead (major : Nat) (n : Nat) : Bytes :=
  let m := major * 32
  if n < 24 then [UInt8.ofNat (m + n)]
  else if n < 256 then UInt8.ofNat (m + 24) :: beBytes n 1
  else if n < 65536 then UInt8.ofNat (m + 25) :: beBytes n 2
  else if n < 4294967296 then UInt8.ofNat (m + 26) :: beBytes n 4
  else UInt8.ofNat (m + 27) :: beBytes n 8

def cborUInt (n : Nat) : Bytes := cborHead 0 n
def cborBytes (b : Bytes) : Bytes := cborHead 2 b.length ++ b
def cborText (s : String) : Bytes := let b := strBytes s; cborHead 3 b.length ++ b
def cborArray (xs : List Bytes) : Bytes := cborHead 4 xs.length ++ xs.flatten

def cborMap (tags : List String) (vals : List Field) : Bytes :=
  let fs := emitted tags vals
  cborHead 5 fs.length ++ (fs.map fun (k, v) => cborText k ++ v).flatten

def cborDLEQ (d : DLEQV4) : Bytes :=
  cborMap tagsDLEQV4 [⟨cborBytes d.e, false⟩, ⟨cborBytes d.s, false⟩, ⟨cborBytes d.r, false⟩]

def cborProof (p : ProofV4) : Bytes :=
  cborMap tagsProofV4
    [⟨cborUInt p.amount.toNat, false⟩, ⟨cborText p.secret, false⟩, ⟨cborBytes p.c, false⟩,
     ⟨cborText p.witness, p.witness.isEmpty⟩,
     match p.dleq with
     | none => ⟨[], true⟩
     | some d => ⟨cborDLEQ d, false⟩]

def cborGroup (g : TokenV4Proof) : Bytes :=
  cborMap tagsTokenV4Proof [⟨cborBytes g.id, false⟩, ⟨cborArray (g.proofs.map cborProof), false⟩]

/-- `cbor.Marshal(t)` for a `TokenV4`. -/
def cborTokenV4 (t : TokenV4) : Bytes :=
  cborMap tagsTokenV4
    [⟨cborArray (t.tokenProofs.map cborGroup), false⟩, ⟨cborText t.memo, t.memo.isEmpty⟩,
     ⟨cborText t.mintURL, false⟩, ⟨cborText t.unit, false⟩]

/-- The encoding half of the real codec; the decoding half stays abstract. -/
def withRealEncoders (cod : Codec) : Codec :=
  { cod with encJson := fun t => some (jsonTokenV3 t), encCbor := fun t => some (cborTokenV4 t) }

/-- `TokenV3.Serialize()` / `TokenV4.Serialize()` with the modelled marshallers. -/
def serialize (t : Token) : String :=
  match t with
  | .v3 t => prefixStrV3 ++ asciiStr (b64Encode padURLEncoding (jsonTokenV3 t))
  | .v4 t => prefixStrV4 ++ asciiStr (b64Encode padRawURLEncoding (cborTokenV4 t))

end Gonuts.Model.Token.Wire
