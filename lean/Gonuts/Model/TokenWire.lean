import Gonuts.Model.Token
/-!
  Executable model of what `json.Marshal(TokenV3)` and `cbor.Marshal(TokenV4)` emit (the *encoding* half of
  the codecs; C14), and parsers for exactly that canonical form (`jsonParse`, `cborParse`) with
  `parse (encode t) = some t` proved in `Lemmas/TokenWire.lean`: the wire formats lose nothing.  The general
  theorems of `Props/C14.lean` hold for every `Codec`; `realCodec` below is the instance made of these functions.  It pins
  the wire format — field names and `omitempty` from the struct tags (tied to the source in `Tie/Token.lean`),
  Go's JSON string escaping, CBOR's definite-length maps in declaration order — and is compared byte for
  byte with the real `Serialize()` on every generated token by stream `token`.

  Slices are modelled as lists, so a nil slice (`null` in JSON, `0xf6` in CBOR) is not representable: the
  encoders describe tokens built by `NewTokenV3/V4` from a non-nil proof slice.

  Core Lean only.
-/
namespace Gonuts.Model.Token.Wire
open Gonuts.Model.Token

/-! ## struct tags (the third column of `Gen.fields_*`) -/

/-- `(name, omitempty)` of each field, in declaration order. -/
def tagsProof : List (String × Bool) :=
  [("amount", false), ("id", false), ("secret", false), ("C", false), ("witness", true), ("dleq", true)]
def tagsDLEQProof : List (String × Bool) := [("e", false), ("s", false), ("r", true)]
def tagsTokenV3 : List (String × Bool) := [("token", false), ("unit", false), ("memo", true)]
def tagsTokenV3Proof : List (String × Bool) := [("mint", false), ("proofs", false)]
def tagsTokenV4 : List (String × Bool) := [("t", false), ("d", true), ("m", false), ("u", false)]
def tagsTokenV4Proof : List (String × Bool) := [("i", false), ("p", false)]
def tagsProofV4 : List (String × Bool) := [("a", false), ("s", false), ("c", false), ("w", true), ("d", true)]
def tagsDLEQV4 : List (String × Bool) := [("e", false), ("s", false), ("r", false)]

/-- The struct tag text: `name` or `name,omitempty`. -/
def tagText (t : String × Bool) : String := if t.2 then t.1 ++ ",omitempty" else t.1

/-- One encoded field value and whether it is the Go "empty value" (`""`, nil pointer, `0`, empty slice). -/
structure Field where
  bytes : Bytes
  isEmpty : Bool

/-- The fields that are actually emitted: `(name, encoded value)`, in declaration order. -/
def emitted (tags : List (String × Bool)) (vals : List Field) : List (String × Bytes) :=
  (tags.zip vals).filterMap fun (tag, v) =>
    if tag.2 && v.isEmpty then none else some (tag.1, v.bytes)

/-! ## encoding/json -/

def hexLower (n : Nat) : UInt8 := hexDigitByte (UInt8.ofNat n)

/-- `appendString` with `escapeHTML = true` (what `json.Marshal` uses), for valid UTF-8. -/
def jsonChar (c : Char) : Bytes :=
  let n := c.toNat
  if n < 0x80 then
    if n = 92 then [92, 92]
    else if n = 34 then [92, 34]
    else if n = 8 then [92, 98]
    else if n = 12 then [92, 102]
    else if n = 10 then [92, 110]
    else if n = 13 then [92, 114]
    else if n = 9 then [92, 116]
    else if n < 0x20 ∨ n = 60 ∨ n = 62 ∨ n = 38 then [92, 117, 48, 48, hexLower (n / 16), hexLower (n % 16)]
    else [UInt8.ofNat n]
  else if n = 0x2028 then [92, 117, 50, 48, 50, 56]
  else if n = 0x2029 then [92, 117, 50, 48, 50, 57]
  else String.utf8EncodeChar c

def jsonString (s : String) : Bytes := [34] ++ s.toList.flatMap jsonChar ++ [34]

/-- Decimal digits, most significant first (`fuel` bounds the number of digits). -/
def natDigits : Nat → Nat → Bytes
  | 0, _ => []
  | f + 1, n => if n < 10 then [UInt8.ofNat (48 + n)] else natDigits f (n / 10) ++ [UInt8.ofNat (48 + n % 10)]

/-- `strconv.AppendUint(_, n, 10)` for a `uint64` (at most 20 digits). -/
def jsonNat (n : Nat) : Bytes := natDigits 20 n

def joinBytes (sep : Bytes) : List Bytes → Bytes
  | [] => []
  | [x] => x
  | x :: rest => x ++ sep ++ joinBytes sep rest

def jsonArray (xs : List Bytes) : Bytes := [91] ++ joinBytes [44] xs ++ [93]

def jsonObject (tags : List (String × Bool)) (vals : List Field) : Bytes :=
  [123] ++ joinBytes [44] ((emitted tags vals).map fun (k, v) => jsonString k ++ [58] ++ v) ++ [125]

def jsonDLEQ (d : DLEQ) : Bytes :=
  jsonObject tagsDLEQProof [⟨jsonString d.e, false⟩, ⟨jsonString d.s, false⟩, ⟨jsonString d.r, d.r.isEmpty⟩]

def jsonProof (p : Proof) : Bytes :=
  jsonObject tagsProof
    [⟨jsonNat p.amount.toNat, false⟩, ⟨jsonString p.id, false⟩, ⟨jsonString p.secret, false⟩, ⟨jsonString p.c, false⟩,
     ⟨jsonString p.witness, p.witness.isEmpty⟩,
     match p.dleq with
     | none => ⟨[], true⟩
     | some d => ⟨jsonDLEQ d, false⟩]

def jsonTokenV3Proof (e : TokenV3Proof) : Bytes :=
  jsonObject tagsTokenV3Proof [⟨jsonString e.mint, false⟩, ⟨jsonArray (e.proofs.map jsonProof), false⟩]

/-- `json.Marshal(t)` for a `TokenV3`. -/
def jsonTokenV3 (t : TokenV3) : Bytes :=
  jsonObject tagsTokenV3
    [⟨jsonArray (t.token.map jsonTokenV3Proof), false⟩, ⟨jsonString t.unit, false⟩, ⟨jsonString t.memo, t.memo.isEmpty⟩]

/-! ## fxamacker/cbor (default options: definite lengths, struct fields in declaration order) -/

def beBytes (n : Nat) : Nat → Bytes
  | 0 => []
  | k + 1 => UInt8.ofNat (n / 256 ^ k % 256) :: beBytes n k

/-- Head of a CBOR data item: major type and argument in the shortest form. -/
def cborHead (major : Nat) (n : Nat) : Bytes :=
  let m := major * 32
  if n < 24 then [UInt8.ofNat (m + n)]
  else if n < 256 then UInt8.ofNat (m + 24) :: beBytes n 1
  else if n < 65536 then UInt8.ofNat (m + 25) :: beBytes n 2
  else if n < 4294967296 then UInt8.ofNat (m + 26) :: beBytes n 4
  else UInt8.ofNat (m + 27) :: beBytes n 8

def cborUInt (n : Nat) : Bytes := cborHead 0 n
def cborBytes (b : Bytes) : Bytes := cborHead 2 b.length ++ b
def cborText (s : String) : Bytes := let b := strBytes s; cborHead 3 b.length ++ b
def cborArray (xs : List Bytes) : Bytes := cborHead 4 xs.length ++ xs.flatten

def cborMap (tags : List (String × Bool)) (vals : List Field) : Bytes :=
  let fs := emitted tags vals
  cborHead 5 fs.length ++ (fs.map fun (k, v) => cborText k ++ v).flatten

def cborDLEQ (d : DLEQV4) : Bytes :=
  cborMap tagsDLEQV4 [⟨cborBytes d.e, false⟩, ⟨cborBytes d.s, false⟩, ⟨cborBytes d.r, false⟩]

def cborProof (p : ProofV4) : Bytes :=
  cborMap tagsProofV4
    [⟨cborUInt p.amount.toNat, false⟩, ⟨cborText p.secret, false⟩, ⟨cborBytes p.c, false⟩,
     ⟨cborText p.witness, p.witness.isEmpty⟩,
     match p.dleq with
     | none => ⟨[], true⟩
     | some d => ⟨cborDLEQ d, false⟩]

def cborGroup (g : TokenV4Proof) : Bytes :=
  cborMap tagsTokenV4Proof [⟨cborBytes g.id, false⟩, ⟨cborArray (g.proofs.map cborProof), false⟩]

/-- `cbor.Marshal(t)` for a `TokenV4`. -/
def cborTokenV4 (t : TokenV4) : Bytes :=
  cborMap tagsTokenV4
    [⟨cborArray (t.tokenProofs.map cborGroup), false⟩, ⟨cborText t.memo, t.memo.isEmpty⟩,
     ⟨cborText t.mintURL, false⟩, ⟨cborText t.unit, false⟩]

/-! ## a parser for the canonical JSON form, and `parse (encode t) = t` -/

/-- The `String` with the given UTF-8 bytes, if they are valid UTF-8. -/
def bytesToString? (b : Bytes) : Option String := String.fromUTF8? ⟨b.toArray⟩

/-! ### numbers -/

def isDigit (b : UInt8) : Bool := 48 ≤ b && b ≤ 57

def pDigits (acc : Nat) : Bytes → Nat × Bytes
  | [] => (acc, [])
  | b :: rest => if isDigit b then pDigits (acc * 10 + (b.toNat - 48)) rest else (acc, b :: rest)

/-- A JSON number in the form `encoding/json` accepts for a `uint64`: digits, no leading zero. -/
def pNat (s : Bytes) : Option (Nat × Bytes) :=
  match s with
  | [] => none
  | b :: rest =>
    if isDigit b then
      if b = 48 then
        match rest with
        | c :: _ => if isDigit c then none else some (0, rest)
        | [] => some (0, rest)
      else some (pDigits 0 s)
    else none

/-- `rest` does not start with a digit. -/
def noDigitHead : Bytes → Prop
  | [] => True
  | b :: _ => isDigit b = false

/-! ### strings -/

def push (pre : Bytes) : Option (Bytes × Bytes) → Option (Bytes × Bytes)
  | some (bs, r) => some (pre ++ bs, r)
  | none => none

/-- The two-character escapes `encoding/json` emits. -/
def simpleEscape (e : Nat) : Option UInt8 :=
  if e = 92 then some 92 else if e = 34 then some 34 else if e = 98 then some 8 else if e = 102 then some 12
  else if e = 110 then some 10 else if e = 114 then some 13 else if e = 116 then some 9 else none

/-- Where the string scanner is: between characters, after a backslash, or inside `\uXXXX` with `k` digits
    read and value `v` so far. -/
inductive SSt where
  | normal
  | esc
  | u (k v : Nat)

/-- What a `\uXXXX` escape with value `v` stands for (only the escapes `json.Marshal` emits: below 0x80, U+2028,
    U+2029), as UTF-8 bytes. -/
def uEscape (v : Nat) : Option Bytes :=
  if v < 0x80 then some [UInt8.ofNat v]
  else if v = 0x2028 then some [0xE2, 0x80, 0xA8]
  else if v = 0x2029 then some [0xE2, 0x80, 0xA9]
  else none

/-- The contents of a JSON string after the opening quote, up to and including the closing quote:
    `(UTF-8 bytes of the value, rest)`.  Accepts what `json.Marshal` emits (and raw `<`, `>`, `&`). -/
def pStrGo : SSt → Bytes → Option (Bytes × Bytes)
  | _, [] => none
  | .normal, b :: rest =>
    if b.toNat = 34 then some ([], rest)
    else if b.toNat = 92 then pStrGo .esc rest
    else if b.toNat < 0x20 then none
    else push [b] (pStrGo .normal rest)
  | .esc, e :: rest =>
    if e.toNat = 117 then pStrGo (.u 0 0) rest
    else
      match simpleEscape e.toNat with
      | some x => push [x] (pStrGo .normal rest)
      | none => none
  | .u k v, h :: rest =>
    match hexVal? h with
    | none => none
    | some d =>
      if k = 3 then
        match uEscape (v * 16 + d.toNat) with
        | some bs => push bs (pStrGo .normal rest)
        | none => none
      else pStrGo (.u (k + 1) (v * 16 + d.toNat)) rest

def pStrBody (s : Bytes) : Option (Bytes × Bytes) := pStrGo .normal s

def pString (s : Bytes) : Option (String × Bytes) :=
  match s with
  | [] => none
  | q :: rest =>
    if q.toNat = 34 then
      match pStrBody rest with
      | some (bs, r) =>
        match bytesToString? bs with
        | some str => some (str, r)
        | none => none
      | none => none
    else none

/-! ### literals, arrays -/

/-- The literal `lit` is next. -/
def expect (lit : Bytes) (s : Bytes) : Option Bytes :=
  if lit.isPrefixOf s then some (s.drop lit.length) else none

/-- Items of a non-empty array after `[`: `item (',' item)* ']'`; `fuel` bounds the number of items. -/
def pjItems {α : Type} (p : Bytes → Option (α × Bytes)) : Nat → Bytes → Option (List α × Bytes)
  | 0, _ => none
  | f + 1, s =>
    match p s with
    | none => none
    | some (a, r) =>
      match r with
      | [] => none
      | b :: r' =>
        if b.toNat = 44 then
          match pjItems p f r' with
          | some (as, r'') => some (a :: as, r'')
          | none => none
        else if b.toNat = 93 then some ([a], r')
        else none

def pjArray {α : Type} (p : Bytes → Option (α × Bytes)) (s : Bytes) : Option (List α × Bytes) :=
  match s with
  | [] => none
  | o :: r =>
    if o.toNat = 91 then
      match r with
      | [] => none
      | c :: r' => if c.toNat = 93 then some ([], r') else pjItems p r.length r
    else none

/-! ### structs -/

/-- `"name":` -/
def kvKey (name : String) : Bytes := jsonString name ++ [58]

def toU64? (n : Nat) : Option UInt64 := if n < 2 ^ 64 then some (UInt64.ofNat n) else none

def pjDLEQ (s : Bytes) : Option (DLEQ × Bytes) := do
  let r ← expect [123] s
  let r ← expect (kvKey "e") r
  let (e, r) ← pString r
  let r ← expect [44] r
  let r ← expect (kvKey "s") r
  let (sv, r) ← pString r
  match expect [44] r with
  | some r =>
    let r ← expect (kvKey "r") r
    let (rv, r) ← pString r
    let r ← expect [125] r
    some (⟨e, sv, rv⟩, r)
  | none =>
    let r ← expect [125] r
    some (⟨e, sv, ""⟩, r)

def pjProof (s : Bytes) : Option (Proof × Bytes) := do
  let r ← expect [123] s
  let r ← expect (kvKey "amount") r
  let (a, r) ← pNat r
  let a ← toU64? a
  let r ← expect [44] r
  let r ← expect (kvKey "id") r
  let (id, r) ← pString r
  let r ← expect [44] r
  let r ← expect (kvKey "secret") r
  let (sec, r) ← pString r
  let r ← expect [44] r
  let r ← expect (kvKey "C") r
  let (c, r) ← pString r
  match expect [44] r with
  | none =>
    let r ← expect [125] r
    some (⟨a, id, sec, c, "", none⟩, r)
  | some r =>
    match expect (kvKey "witness") r with
    | some r =>
      let (w, r) ← pString r
      match expect [44] r with
      | none =>
        let r ← expect [125] r
        some (⟨a, id, sec, c, w, none⟩, r)
      | some r =>
        let r ← expect (kvKey "dleq") r
        let (d, r) ← pjDLEQ r
        let r ← expect [125] r
        some (⟨a, id, sec, c, w, some d⟩, r)
    | none =>
      let r ← expect (kvKey "dleq") r
      let (d, r) ← pjDLEQ r
      let r ← expect [125] r
      some (⟨a, id, sec, c, "", some d⟩, r)

def pjEntry (s : Bytes) : Option (TokenV3Proof × Bytes) := do
  let r ← expect [123] s
  let r ← expect (kvKey "mint") r
  let (m, r) ← pString r
  let r ← expect [44] r
  let r ← expect (kvKey "proofs") r
  let (ps, r) ← pjArray pjProof r
  let r ← expect [125] r
  some (⟨m, ps⟩, r)

/-- Parser for the canonical JSON form of a `TokenV3` (what `jsonTokenV3` emits). -/
def pjTokenV3 (s : Bytes) : Option (TokenV3 × Bytes) := do
  let r ← expect [123] s
  let r ← expect (kvKey "token") r
  let (es, r) ← pjArray pjEntry r
  let r ← expect [44] r
  let r ← expect (kvKey "unit") r
  let (u, r) ← pString r
  match expect [44] r with
  | some r =>
    let r ← expect (kvKey "memo") r
    let (memo, r) ← pString r
    let r ← expect [125] r
    some (⟨es, u, memo⟩, r)
  | none =>
    let r ← expect [125] r
    some (⟨es, u, ""⟩, r)

/-- `json.Unmarshal` restricted to canonical input: the whole input must be consumed. -/
def jsonParse (s : Bytes) : Option TokenV3 :=
  match pjTokenV3 s with
  | some (t, []) => some t
  | _ => none

/-! ## a parser for the canonical CBOR form, and `parse (encode t) = t` -/

/-- Big-endian value of the first `k` bytes. -/
def beVal : Nat → Bytes → Option (Nat × Bytes)
  | 0, rest => some (0, rest)
  | k + 1, b :: rest =>
    match beVal k rest with
    | some (v, r) => some (b.toNat * 256 ^ k + v, r)
    | none => none
  | _ + 1, [] => none

/-- Head of a data item: `(major, argument, rest)`; shortest-form is not required. -/
def parseHead : Bytes → Option (Nat × Nat × Bytes)
  | [] => none
  | b :: rest =>
    let major := b.toNat / 32
    let info := b.toNat % 32
    if info < 24 then some (major, info, rest)
    else if info = 24 then (beVal 1 rest).map fun (v, r) => (major, v, r)
    else if info = 25 then (beVal 2 rest).map fun (v, r) => (major, v, r)
    else if info = 26 then (beVal 4 rest).map fun (v, r) => (major, v, r)
    else if info = 27 then (beVal 8 rest).map fun (v, r) => (major, v, r)
    else none

/-! ### items -/

def pUInt (s : Bytes) : Option (Nat × Bytes) :=
  match parseHead s with
  | some (0, n, r) => some (n, r)
  | _ => none

def pBytes (s : Bytes) : Option (Bytes × Bytes) :=
  match parseHead s with
  | some (2, n, r) => if n ≤ r.length then some (r.take n, r.drop n) else none
  | _ => none

def pText (s : Bytes) : Option (String × Bytes) :=
  match parseHead s with
  | some (3, n, r) =>
    if n ≤ r.length then
      match bytesToString? (r.take n) with
      | some str => some (str, r.drop n)
      | none => none
    else none
  | _ => none

def pItems {α : Type} (p : Bytes → Option (α × Bytes)) : Nat → Bytes → Option (List α × Bytes)
  | 0, s => some ([], s)
  | n + 1, s =>
    match p s with
    | none => none
    | some (a, r) =>
      match pItems p n r with
      | none => none
      | some (as, r') => some (a :: as, r')

def pArray {α : Type} (p : Bytes → Option (α × Bytes)) (s : Bytes) : Option (List α × Bytes) :=
  match parseHead s with
  | some (4, n, r) => pItems p n r
  | _ => none

/-- Map head with exactly `n` entries. -/
def pMapHead (s : Bytes) : Option (Nat × Bytes) :=
  match parseHead s with
  | some (5, n, r) => some (n, r)
  | _ => none

/-- The key `name` (a text item) is next. -/
def pKey (name : String) (s : Bytes) : Option Bytes :=
  if (cborText name).isPrefixOf s then some (s.drop (cborText name).length) else none

/-! ### structs -/

def pDLEQ (s : Bytes) : Option (DLEQV4 × Bytes) := do
  let (n, r) ← pMapHead s
  if n ≠ 3 then none
  let r ← pKey "e" r
  let (e, r) ← pBytes r
  let r ← pKey "s" r
  let (sv, r) ← pBytes r
  let r ← pKey "r" r
  let (rv, r) ← pBytes r
  some (⟨e, sv, rv⟩, r)

def pProof (s : Bytes) : Option (ProofV4 × Bytes) := do
  let (n, r) ← pMapHead s
  let r ← pKey "a" r
  let (a, r) ← pUInt r
  let a ← toU64? a
  let r ← pKey "s" r
  let (sec, r) ← pText r
  let r ← pKey "c" r
  let (c, r) ← pBytes r
  match n with
  | 3 => some (⟨a, sec, c, "", none⟩, r)
  | 4 =>
    match pKey "w" r with
    | some r =>
      let (w, r) ← pText r
      some (⟨a, sec, c, w, none⟩, r)
    | none =>
      let r ← pKey "d" r
      let (d, r) ← pDLEQ r
      some (⟨a, sec, c, "", some d⟩, r)
  | 5 =>
    let r ← pKey "w" r
    let (w, r) ← pText r
    let r ← pKey "d" r
    let (d, r) ← pDLEQ r
    some (⟨a, sec, c, w, some d⟩, r)
  | _ => none

def pGroup (s : Bytes) : Option (TokenV4Proof × Bytes) := do
  let (n, r) ← pMapHead s
  if n ≠ 2 then none
  let r ← pKey "i" r
  let (i, r) ← pBytes r
  let r ← pKey "p" r
  let (ps, r) ← pArray pProof r
  some (⟨i, ps⟩, r)

/-- Parser for the canonical CBOR form of a `TokenV4` (what `cborTokenV4` emits). -/
def pTokenV4 (s : Bytes) : Option (TokenV4 × Bytes) := do
  let (n, r) ← pMapHead s
  let r ← pKey "t" r
  let (gs, r) ← pArray pGroup r
  match n with
  | 3 =>
    let r ← pKey "m" r
    let (m, r) ← pText r
    let r ← pKey "u" r
    let (u, r) ← pText r
    some (⟨gs, "", m, u⟩, r)
  | 4 =>
    let r ← pKey "d" r
    let (d, r) ← pText r
    let r ← pKey "m" r
    let (m, r) ← pText r
    let r ← pKey "u" r
    let (u, r) ← pText r
    some (⟨gs, d, m, u⟩, r)
  | _ => none

/-- `cbor.Unmarshal` restricted to canonical input: the whole input must be consumed. -/
def cborParse (s : Bytes) : Option TokenV4 :=
  match pTokenV4 s with
  | some (t, []) => some t
  | _ => none

/-! ### size bounds (CBOR lengths are 64-bit; Go slices and strings are shorter than 2^63) -/

def smallDLEQ (d : DLEQV4) : Prop := d.e.length < 2 ^ 64 ∧ d.s.length < 2 ^ 64 ∧ d.r.length < 2 ^ 64

def smallProof (p : ProofV4) : Prop :=
  (strBytes p.secret).length < 2 ^ 64 ∧ p.c.length < 2 ^ 64 ∧ (strBytes p.witness).length < 2 ^ 64 ∧
  ∀ d, p.dleq = some d → smallDLEQ d

def smallGroup (g : TokenV4Proof) : Prop :=
  g.id.length < 2 ^ 64 ∧ g.proofs.length < 2 ^ 64 ∧ ∀ p ∈ g.proofs, smallProof p

def smallToken (t : TokenV4) : Prop :=
  t.tokenProofs.length < 2 ^ 64 ∧ (∀ g ∈ t.tokenProofs, smallGroup g) ∧ (strBytes t.memo).length < 2 ^ 64 ∧
  (strBytes t.mintURL).length < 2 ^ 64 ∧ (strBytes t.unit).length < 2 ^ 64

/-! ## the codec made of the modelled marshallers and the canonical parsers -/

/-- `Marshal` as modelled; `Unmarshal` restricted to canonical input (the real decoders accept more, and agree
    with these on everything these accept — checked by streams `token` and `token-fuzz`). -/
def realCodec : Codec :=
  { encJson := fun t => some (jsonTokenV3 t), decJson := jsonParse,
    encCbor := fun t => some (cborTokenV4 t), decCbor := cborParse }

/-- The encoding half of the real codec; the decoding half stays abstract. -/
def withRealEncoders (cod : Codec) : Codec :=
  { cod with encJson := fun t => some (jsonTokenV3 t), encCbor := fun t => some (cborTokenV4 t) }

/-- `TokenV3.Serialize()` / `TokenV4.Serialize()` with the modelled marshallers. -/
def serialize (t : Token) : String :=
  match t with
  | .v3 t => prefixStrV3 ++ asciiStr (b64Encode padURLEncoding (jsonTokenV3 t))
  | .v4 t => prefixStrV4 ++ asciiStr (b64Encode padRawURLEncoding (cborTokenV4 t))

end Gonuts.Model.Token.Wire
