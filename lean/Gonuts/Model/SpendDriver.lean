import Gonuts.Model.Sexp
import Gonuts.Model.Spend
import Gonuts.Spec.Spendable
import Gonuts.Model.Nut10Parse
/-!
  Driver commands `spend.*` (stateless).  Core-only imports.

  Wire format (all ids are naturals chosen by the harness):
    ENV     = (env NOW ((KEYSTR ID|bad) …) ((SIG KEY MSG) …) ((BYTESHEX HASHHEX) …))
    SECRET  = plain | (secret p2pk|htlc|anyone "data" (("tag" "v" …) …))
    WITNESS = (w true|false (SIG …) "preimage")
    PROOF   = (proof SECRET MSG WITNESS)
    OUTPUT  = (out MSG|none MSGTEXT WITNESS)
    SIGN    = ((KEY MSG SIG) …)            -- table of the signing function used by the helpers
  A key string, preimage or (key,msg) pair the model would have to look up but that is missing from
  its table makes the op malformed (`none` → `(bad-op)`); nothing is defaulted.
-/
namespace Gonuts.Model.SpendDriver
open Gonuts Gonuts.Model.Spend

def asInt? : Sexp → Option Int
  | .atom s =>
    if s.startsWith "-" then (s.drop 1).toNat?.map (fun n => -(n : Int))
    else s.toNat?.map (fun n => (n : Int))
  | _ => none

def ofInt (i : Int) : Sexp := .atom (toString i)

def strs? (s : Sexp) : Option (List String) := do
  let xs ← s.asList?
  xs.mapM Sexp.asStr?

structure EnvTab where
  now : Int
  keys : List (String × Option Key)
  valid : List (Sig × Key × Msg)
  sha : List (List UInt8 × String)

def keyRow? (s : Sexp) : Option (String × Option Key) :=
  match s with
  | .list [k, .atom "bad"] => do some (← k.asStr?, none)
  | .list [k, v] => do some (← k.asStr?, some (← v.asNat?))
  | _ => none

def validRow? (s : Sexp) : Option (Sig × Key × Msg) :=
  match s with
  | .list [a, b, c] => do some (← a.asNat?, ← b.asNat?, ← c.asNat?)
  | _ => none

def shaRow? (s : Sexp) : Option (List UInt8 × String) :=
  match s with
  | .list [a, b] => do some (← hexDecode (← a.asStr?), ← b.asStr?)
  | _ => none

def envTab? (s : Sexp) : Option EnvTab :=
  match s with
  | .list [.atom "env", now, keys, valid, sha] => do
    some { now := ← asInt? now, keys := ← (← keys.asList?).mapM keyRow?,
           valid := ← (← valid.asList?).mapM validRow?, sha := ← (← sha.asList?).mapM shaRow? }
  | _ => none

def EnvTab.toEnv (t : EnvTab) : Env where
  now := t.now
  parseKey := fun s => match t.keys.lookup s with
    | some r => r
    | none => none
  valid := fun s k m => t.valid.contains (s, k, m)
  sha256hex := fun bs => match t.sha.lookup bs with
    | some h => h
    | none => ""

def kind? : Sexp → Option Kind
  | .atom "p2pk" => some .p2pk
  | .atom "htlc" => some .htlc
  | .atom "anyone" => some .anyone
  | _ => none

def tags? (s : Sexp) : Option (List (List String)) := do
  (← s.asList?).mapM strs?

def secret? : Sexp → Option (Option Secret)
  | .atom "plain" => some none
  | .list [.atom "secret", k, d, tg] => do
    some (some { kind := ← kind? k, data := ← d.asStr?, tags := ← tags? tg })
  | _ => none

def witness? : Sexp → Option Witness
  | .list [.atom "w", ok, sigs, pre] => do
    some { jsonOk := ← ok.asBool?, signatures := ← sigs.asNats?, preimage := ← pre.asStr? }
  | _ => none

def proof? : Sexp → Option Proof
  | .list [.atom "proof", s, m, w] => do
    some { secret := ← secret? s, msg := ← m.asNat?, witness := ← witness? w }
  | _ => none

def output? : Sexp → Option Output
  | .list [.atom "out", md, mt, w] => do
    let md' ← (match md with
      | .atom "none" => some none
      | x => x.asNat?.map some)
    some { msgDecoded := md', msgText := ← mt.asNat?, witness := ← witness? w }
  | _ => none

def proofs? (s : Sexp) : Option (List Proof) := do (← s.asList?).mapM proof?
def outputs? (s : Sexp) : Option (List Output) := do (← s.asList?).mapM output?

/-! ### completeness of the tables for one op (nothing is defaulted) -/

def keyStringsOfTags (tags : List (List String)) : List String :=
  tags.flatMap fun tag =>
    match tag with
    | ty :: rest => if ty = PUBKEYS ∨ ty = REFUND then rest else []
    | [] => []

def keyStringsOfSecret (s : Secret) : List String :=
  (if s.kind = .p2pk then [s.data] else []) ++ keyStringsOfTags s.tags

def EnvTab.coversSecret (t : EnvTab) (s : Secret) : Bool :=
  (keyStringsOfSecret s).all fun k => (t.keys.lookup k).isSome

def EnvTab.coversPreimage (t : EnvTab) (pre : String) : Bool :=
  match hexDecode pre with
  | none => true
  | some bs => (t.sha.lookup bs).isSome

def EnvTab.coversProof (t : EnvTab) (p : Proof) : Bool :=
  match p.secret with
  | none => true
  | some s => t.coversSecret s && (s.kind ≠ .htlc || t.coversPreimage p.witness.preimage)

def EnvTab.coversOutput (t : EnvTab) (o : Output) : Bool := t.coversPreimage o.witness.preimage

/-! ### rendering -/

def ofOutcome : Outcome → Sexp
  | .ok () => .atom "ok"
  | .err e => .list [.atom "err", .atom e.name]

def ofStrs (xs : List String) : Sexp := .list (xs.map Sexp.str)

def ofTags (t : Tags) : Sexp :=
  .list [.atom "tags", .str t.sigflag, Sexp.ofNat t.nSigs, Sexp.ofNats t.pubkeys, ofInt t.locktime, Sexp.ofNats t.refund]

def ofWitness (w : Witness) : Sexp :=
  .list [.atom "w", Sexp.ofBool w.jsonOk, Sexp.ofNats w.signatures, .str w.preimage]

/-! ### the signing-function table of the helpers -/

def signRow? (s : Sexp) : Option ((Key × Msg) × Sig) :=
  match s with
  | .list [a, b, c] => do some ((← a.asNat?, ← b.asNat?), ← c.asNat?)
  | _ => none

def signTab? (s : Sexp) : Option (List ((Key × Msg) × Sig)) := do (← s.asList?).mapM signRow?

def signOf (tab : List ((Key × Msg) × Sig)) (k : Key) (m : Msg) : Sig :=
  match tab.lookup (k, m) with
  | some s => s
  | none => 0

def signCovers (tab : List ((Key × Msg) × Sig)) (k : Key) (ms : List Msg) : Bool :=
  ms.all fun m => (tab.lookup (k, m)).isSome

def handle (cmd : String) (args : List Sexp) : Option Sexp :=
  match cmd, args with
  | "spend.parse-secret", [s] => do
    match Nut10Parse.parseSecret (← s.asStr?) with
    | some p =>
      let kind := match p.kind with | .p2pk => "p2pk" | .htlc => "htlc" | .anyone => "anyone"
      some (.list [.atom "secret", .atom kind, .str p.nonce, .str p.data, .list (p.tags.map ofStrs)])
    | none => some (.atom "plain")
  | "spend.serialize-secret", [.atom kind, n, d, tg] => do
    let k ← match kind with | "p2pk" => some Kind.p2pk | "htlc" => some Kind.htlc | "anyone" => some Kind.anyone | _ => none
    let row? : Sexp → Option (Option (List String)) := fun r =>
      match r with
      | .atom "nil" => some none
      | r => (strs? r).map some
    let tags ← match tg with
      | .atom "nil" => some none
      | .list rows => (rows.mapM row?).map some
      | _ => none
    some (.str (Nut10Parse.serializeSecret k (← n.asStr?) (← d.asStr?) tags))
  | "spend.parse-witness", [.atom kind, s] => do
    let w := Nut10Parse.parseWitness (kind == "htlc") (← s.asStr?)
    some (.list [.atom "w", Sexp.ofBool w.jsonOk, ofStrs w.signatures, .str w.preimage])
  | "spend.parseint", [s, bits] => do
    match parseInt (← s.asStr?) (← bits.asNat?) with
    | some v => some (.list [.atom "ok", ofInt v])
    | none => some (.atom "err")
  | "spend.hex", [s] => do
    match hexDecode (← s.asStr?) with
    | some bs => some (.list [.atom "ok", Sexp.ofNats (bs.map UInt8.toNat)])
    | none => some (.atom "err")
  | "spend.tags", [e, tg] => do
    let et ← envTab? e
    let tags ← tags? tg
    if !(keyStringsOfTags tags).all (fun k => (et.keys.lookup k).isSome) then none
    else match parseTags et.toEnv tags with
      | .ok t => some (.list [.atom "ok", ofTags t])
      | .err er => some (.list [.atom "err", .atom er.name])
  | "spend.dup", [sigs] => do some (Sexp.ofBool (duplicateSignatures (← sigs.asNats?)))
  | "spend.hvs", [e, m, sigs, n, keys] => do
    let et ← envTab? e
    let env := et.toEnv
    let m ← m.asNat?
    let sigs ← sigs.asNats?
    let keys ← keys.asNats?
    some (.list [Sexp.ofBool (hasValidSignatures env.valid m sigs (← n.asNat?) keys),
                 Sexp.ofNat (hvsCount env.valid m sigs keys)])
  | "spend.p2pk", [e, p] => do
    let et ← envTab? e
    let p ← proof? p
    let s ← p.secret
    if !et.coversSecret s then none else some (ofOutcome (verifyP2PK et.toEnv p s))
  | "spend.htlc", [e, p] => do
    let et ← envTab? e
    let p ← proof? p
    let s ← p.secret
    if !(et.coversSecret s && et.coversPreimage p.witness.preimage) then none
    else some (ofOutcome (verifyHTLC et.toEnv p s))
  | "spend.verify", [e, ps] => do
    let et ← envTab? e
    let ps ← proofs? ps
    if !ps.all et.coversProof then none else some (ofOutcome (verifyProofs et.toEnv ps))
  | "spend.issigall", [s] => do
    let s ← (← secret? s)
    some (Sexp.ofBool (isSigAll s))
  | "spend.sigall", [ps] => do some (Sexp.ofBool (proofsSigAll (← proofs? ps)))
  | "spend.pubkeys", [e, s] => do
    let et ← envTab? e
    let s ← (← secret? s)
    if !et.coversSecret s then none
    else match publicKeys et.toEnv s with
      | .ok ks => some (.list [.atom "ok", Sexp.ofNats ks])
      | .err er => some (.list [.atom "err", .atom er.name])
  | "spend.outputs", [e, ps, os] => do
    let et ← envTab? e
    let ps ← proofs? ps
    let os ← outputs? os
    if !(ps.all et.coversProof && os.all et.coversOutput) then none
    else some (ofOutcome (verifyBlindedMessages et.toEnv ps os))
  | "spend.swap", [e, ps, os] => do
    let et ← envTab? e
    let ps ← proofs? ps
    let os ← outputs? os
    if !(ps.all et.coversProof && os.all et.coversOutput) then none
    else some (ofOutcome (swapSpendCheck et.toEnv ps os))
  | "spend.melt", [e, ps] => do
    let et ← envTab? e
    let ps ← proofs? ps
    if !ps.all et.coversProof then none else some (ofOutcome (meltSpendCheck et.toEnv ps))
  -- the declarative specification, decided by exhaustive search (Spec.Spendable)
  | "spend.spec-p2pk", [e, p] => do
    let et ← envTab? e
    let p ← proof? p
    let s ← p.secret
    if !et.coversSecret s then none else some (Sexp.ofBool (Spec.Spendable.decideP2PK et.toEnv s p.msg p.witness))
  | "spend.spec-htlc", [e, p] => do
    let et ← envTab? e
    let p ← proof? p
    let s ← p.secret
    if !(et.coversSecret s && et.coversPreimage p.witness.preimage) then none
    else some (Sexp.ofBool (Spec.Spendable.decideHTLC et.toEnv s p.msg p.witness))
  -- helpers: answer = the witnesses the helper writes
  | "spend.help-in", [sg, k, ps] => do
    let tab ← signTab? sg
    let k ← k.asNat?
    let ps ← proofs? ps
    if !signCovers tab k (ps.map (·.msg)) then none
    else some (.list ((addSignatureToInputs (signOf tab) k ps).map (fun p => ofWitness p.witness)))
  | "spend.help-out", [sg, k, os] => do
    let tab ← signTab? sg
    let k ← k.asNat?
    let os ← outputs? os
    if !signCovers tab k (os.filterMap (·.msgDecoded)) then none
    else match addSignatureToOutputs (signOf tab) k os with
      | .ok os' => some (.list [.atom "ok", .list (os'.map (fun o => ofWitness o.witness))])
      | .err er => some (.list [.atom "err", .atom er.name])
  | "spend.help-htlc-in", [e, sg, ps, s, pre, k] => do
    let et ← envTab? e
    let tab ← signTab? sg
    let ps ← proofs? ps
    let s ← (← secret? s)
    let k ← k.asNat?
    if !(et.coversSecret s && signCovers tab k (ps.map (·.msg))) then none
    else match addWitnessHTLC et.toEnv (signOf tab) ps s (← pre.asStr?) k with
      | .ok ps' => some (.list [.atom "ok", .list (ps'.map (fun p => ofWitness p.witness))])
      | .err er => some (.list [.atom "err", .atom er.name])
  | "spend.help-htlc-out", [sg, pre, k, os] => do
    let tab ← signTab? sg
    let k ← k.asNat?
    let os ← outputs? os
    if !signCovers tab k (os.filterMap htlcOutputMsg) then none
    else match addWitnessHTLCToOutputs (signOf tab) (← pre.asStr?) k os with
      | .ok os' => some (.list [.atom "ok", .list (os'.map (fun o => ofWitness o.witness))])
      | .err er => some (.list [.atom "err", .atom er.name])
  | _, _ => none

end Gonuts.Model.SpendDriver
