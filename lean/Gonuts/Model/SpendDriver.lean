import Gonuts.Model.Sexp
/-! Driver commands `spend.*` (stateless): filled in by the Spend model. Core-only imports. -/
namespace Gonuts.Model.SpendDriver
open Gonuts

def handle (_cmd : String) (_args : List Sexp) : Option Sexp := none

end Gonuts.Model.SpendDriver
