import Gonuts.Model.Amount
import Gonuts.Model.Select
/-!
  The wallet's bookkeeping (`/repo/wallet/wallet.go`, `restore.go`, `keyset.go`, `storage/bolt.go`) as a
  small-step machine over an ABSTRACT honest mint (properties C17 and C19).

  * State of a wallet: the bbolt buckets `proofs` (spendable), `pending_proofs` (with optional melt quote id),
    `keysets` (with counter), `mint_quotes`, `melt_quotes`, and the in-memory `w.mints` table.
  * State of a mint (`MintView`): keysets, blind signatures by output, spent secrets, secrets locked by a melt
    quote, quotes.  It answers requests as `mint/mint.go` does as far as a wallet can observe.
  * Identity of a proof is its secret: `det seed ks ctr` is the NUT-13 secret of (seed, keyset, counter) — its
    blinded message `B_` is determined by the same triple, so outputs and secrets share ids — or `rnd n`
    for a random secret (P2PK-locked outputs).
  * Every wallet API call is a program (`Prog`) with ONE effect per `w.db.X` / `client.Y` call, in the Go
    statement order; a wallet crash between two calls is `Prog.runN`.  Programs carry their control
    structure (`sub` = call of a named helper, `ite` = an `if`/`else` that contains calls, `each` = a loop)
    so that `Prog.skel` computes the very skeleton the extractor reads off the Go source
    (`Gonuts/Tie/WalletBooks.lean`).
  * Coin selection and the split are parameters (`Sel`): the theorems hold for every selection that returns
    stored proofs; the driver instantiates them with `Model.Select`.
  Core Lean only (linked into the driver).
-/
namespace Gonuts.Model.WalletBooks
open Gonuts.Model

abbrev KsId := Nat

/-- Secret (= output) identity. -/
inductive SId where
  | det (seed : Nat) (ks : KsId) (ctr : Nat)
  | rnd (n : Nat)
  deriving DecidableEq, Repr, Inhabited

/-- NUT-11 P2PK lock: the wallet (seed) whose receive key can sign, and the SIG_ALL flag. -/
structure Lock where
  owner : Nat
  sigAll : Bool
  deriving DecidableEq, Repr, Inhabited

structure WProof where
  secret : SId
  amount : UInt64
  ks : KsId
  /-- carries a DLEQ proof -/
  dleq : Bool := true
  lock : Option Lock := none
  /-- P2PK witness: the key that signed this input -/
  wit : Option Nat := none
  deriving DecidableEq, Repr, Inhabited

/-- Entry of the `pending_proofs` bucket. -/
structure PProof where
  p : WProof
  quote : Option Nat := none
  deriving DecidableEq, Repr, Inhabited

/-- A blinded message: the output `secret` will belong to, its amount and keyset; `lock` is the spending
    condition inside a locked secret; `osig` the SIG_ALL signature on the output. -/
structure Out where
  secret : SId
  amount : UInt64
  ks : KsId
  lock : Option Lock := none
  osig : Option Nat := none
  deriving DecidableEq, Repr, Inhabited

/-- A blind signature as the mint stores it (by `B_`). -/
structure Sig where
  out : SId
  amount : UInt64
  ks : KsId
  deriving DecidableEq, Repr, Inhabited

structure KsInfo where
  id : KsId
  ppk : UInt64
  active : Bool
  deriving DecidableEq, Repr, Inhabited

inductive MQState where | unpaid | paid | issued
  deriving DecidableEq, Repr, Inhabited
inductive LQState where | unpaid | pending | paid
  deriving DecidableEq, Repr, Inhabited
inductive PState where | unspent | pending | spent
  deriving DecidableEq, Repr, Inhabited

/-- What a melt quote pays: an invoice of an outside node, or the invoice of a mint quote of a mint. -/
inductive InvRef where
  | ext (n : Nat) (amount : UInt64)
  | mq (mint : Nat) (quote : Nat) (amount : UInt64)
  deriving DecidableEq, Repr, Inhabited

def InvRef.amount : InvRef → UInt64
  | .ext _ a => a
  | .mq _ _ a => a

structure MMintQ where
  id : Nat
  amount : UInt64
  state : MQState := .unpaid
  deriving DecidableEq, Repr, Inhabited

structure MMeltQ where
  id : Nat
  inv : InvRef
  amount : UInt64
  feeReserve : UInt64
  state : LQState := .unpaid
  /-- NUT-08 blank outputs submitted with the melt (a mint that returns change signs a prefix of them) -/
  outs : List Out := []
  deriving DecidableEq, Repr, Inhabited

/-- Lightning answers scripted per operation (`SendPayment`, then `OutgoingPaymentStatus` calls).
    `succ refund`: paid; `refund` sat of the fee reserve were not needed (a NUT-08 mint returns them as
    change; this repository's mint never does: the harness always passes 0). -/
inductive LnAns where
  | succ (refund : UInt64) | pending | failed | err | notfound
  deriving DecidableEq, Repr, Inhabited

/-- Key of the mint server's NUT-19 response cache (method + URL + body): a byte-identical `/v1/swap` or
    `/v1/mint/bolt11` request is answered with the response it was answered with before. -/
inductive CacheReq where
  | swap (ins : List WProof) (outs : List Out)
  | mint (quote : Nat) (outs : List Out)
  deriving DecidableEq, Repr

structure MintView where
  keysets : List KsInfo := []
  sigs : List Sig := []
  spent : List (SId × UInt64) := []
  pending : List (SId × UInt64 × Nat) := []
  mintQ : List MMintQ := []
  meltQ : List MMeltQ := []
  /-- ceil(1 %) fee reserve (LND/CLN) or 0 -/
  feePct : Bool := true
  /-- the mint signs change for overpaid fee reserve (NUT-08); false for this repository's mint -/
  nut08 : Bool := false
  /-- ghost ledger -/
  mintedIn : Nat := 0
  melted : Nat := 0
  swapFees : Nat := 0
  /-- ghost: a request contained an output that was already signed -/
  reuse : List SId := []
  /-- NUT-19 cache of successful swap / mint responses (entries live 5 minutes in the real server; the
      model never expires them — in fault-free histories no request is ever repeated) -/
  cache : List (CacheReq × List Sig) := []
  deriving Repr, Inhabited

/-! ## wallet storage -/

structure KsRow where
  mint : Nat
  id : KsId
  active : Bool
  ppk : UInt64
  counter : Nat := 0
  /-- the stored keyset carries the public keys (`AddMint` stores inactive keysets without them) -/
  keys : Bool := true
  deriving DecidableEq, Repr, Inhabited

structure WMintQ where
  id : Nat
  mint : Nat
  amount : UInt64
  state : MQState
  deriving DecidableEq, Repr, Inhabited

structure WMeltQ where
  id : Nat
  mint : Nat
  amount : UInt64
  feeReserve : UInt64
  state : LQState
  deriving DecidableEq, Repr, Inhabited

structure WDb where
  proofs : List WProof := []
  pending : List PProof := []
  keysets : List KsRow := []
  mintQ : List WMintQ := []
  meltQ : List WMeltQ := []
  deriving Repr, Inhabited

/-- `walletMint`: in-memory copy of a mint's keysets (`Counter` as of the time it was read!). -/
structure MemMint where
  mint : Nat
  active : KsRow
  inactive : List KsRow := []
  deriving DecidableEq, Repr, Inhabited

structure WMem where
  mints : List MemMint := []
  defaultMint : Nat := 0
  deriving Repr, Inhabited

structure Wallet where
  seed : Nat
  db : WDb := {}
  mem : WMem := {}
  deriving Repr, Inhabited

/-- A value returned to a caller (`Send`, `SendToPubkey`): the harness holds it. -/
structure Token where
  id : Nat
  mint : Nat
  proofs : List WProof
  /-- wallet that handed it out with `Send` (its proofs are in that wallet's pending bucket); `none` for the
      locked proofs of `SendToPubkey`, which exist only in the token -/
  sender : Option Nat := none
  deriving Repr, Inhabited

structure World where
  wallets : List Wallet := []
  mints : List MintView := []
  tokens : List Token := []
  /-- fresh ids: quotes, invoices, random secrets -/
  nextId : Nat := 0
  /-- Lightning answers for the current operation -/
  script : List LnAns := []
  deriving Repr, Inhabited

/-! ## bucket primitives (bbolt: one value per key) -/

def putProof (b : List WProof) (p : WProof) : List WProof :=
  if b.any (·.secret == p.secret) then b.map (fun q => if q.secret == p.secret then p else q) else b ++ [p]

def putProofs (b : List WProof) (ps : List WProof) : List WProof := ps.foldl putProof b

def putPending (b : List PProof) (p : PProof) : List PProof :=
  if b.any (·.p.secret == p.p.secret) then b.map (fun q => if q.p.secret == p.p.secret then p else q) else b ++ [p]

def putPendings (b : List PProof) (ps : List PProof) : List PProof := ps.foldl putPending b

def putKeyset (b : List KsRow) (k : KsRow) : List KsRow :=
  if b.any (fun r => r.id == k.id && r.mint == k.mint) then b.map (fun r => if r.id == k.id && r.mint == k.mint then k else r)
  else b ++ [k]

def putMintQ (b : List WMintQ) (q : WMintQ) : List WMintQ :=
  if b.any (·.id == q.id) then b.map (fun r => if r.id == q.id then q else r) else b ++ [q]

def putMeltQ (b : List WMeltQ) (q : WMeltQ) : List WMeltQ :=
  if b.any (·.id == q.id) then b.map (fun r => if r.id == q.id then q else r) else b ++ [q]

/-- `IncrementKeysetCounter`: the first bucket that has the id wins in `GetKeyset`; every bucket that has it
    is updated by `IncrementKeysetCounter` (keyset ids are unique across mints in every history). -/
def incCounter (b : List KsRow) (ks : KsId) (n : Nat) : List KsRow :=
  b.map (fun r => if r.id == ks then { r with counter := r.counter + n } else r)

def counterOf (b : List KsRow) (ks : KsId) : Nat :=
  match b.find? (·.id == ks) with
  | some r => r.counter
  | none => 0

/-! ## the abstract honest mint -/

inductive CErr where
  /-- the mint refused the request (`cashu.Error` code) -/
  | mint (code : Nat)
  /-- transport failure (only in fault histories) -/
  | net
  deriving DecidableEq, Repr, Inhabited

abbrev CRes (α : Type) := Except CErr α

structure MeltAns where
  quote : Nat
  amount : UInt64
  feeReserve : UInt64
  state : LQState
  change : List Sig := []
  deriving DecidableEq, Repr, Inhabited

namespace MintView

def ppkOf (m : MintView) (ks : KsId) : UInt64 :=
  match m.keysets.find? (·.id == ks) with
  | some k => k.ppk
  | none => 0

def hasKs (m : MintView) (ks : KsId) : Bool := m.keysets.any (·.id == ks)
def isActive (m : MintView) (ks : KsId) : Bool := m.keysets.any (fun k => k.id == ks && k.active)

/-- `Mint.TransactionFees`. -/
def fees (m : MintView) (ins : List WProof) : UInt64 := feesOfPpks (ins.map (fun p => m.ppkOf p.ks))

def isSigned (m : MintView) (s : SId) : Bool := m.sigs.any (·.out == s)
def isSpent (m : MintView) (s : SId) : Bool := m.spent.any (·.1 == s)
def isPending (m : MintView) (s : SId) : Bool := m.pending.any (·.1 == s)

/-- The proof unblinds a signature this mint made for that secret, amount and keyset. -/
def genuine (m : MintView) (p : WProof) : Bool :=
  m.sigs.any (fun s => s.out == p.secret && s.amount == p.amount && s.ks == p.ks)

def stateOf (m : MintView) (s : SId) : PState :=
  if m.isSpent s then .spent else if m.isPending s then .pending else .unspent

/-- An amount the keysets have a key for: 2^i, i < 60. -/
def keyAmount (a : UInt64) : Bool := a != 0 && (a &&& (a - 1)) == 0 && a < 0x1000000000000000

def dupSecrets : List SId → Bool
  | [] => false
  | s :: rest => rest.contains s || dupSecrets rest

/-- `verifyProofs` as far as a wallet's requests can tell: error code or acceptance. -/
def verifyInputs (m : MintView) (ins : List WProof) : Option Nat :=
  if ins.isEmpty then some 10003
  else if ins.any (fun p => m.isPending p.secret) then some 11001
  else if ins.any (fun p => m.isSpent p.secret) then some 11001
  else if dupSecrets (ins.map (·.secret)) then some 11007
  else if ins.any (fun p => !m.hasKs p.ks) then some 12001
  else if ins.any (fun p => !m.genuine p) then some 10003
  else if ins.any (fun p => match p.lock with | some l => p.wit != some l.owner | none => false) then some 30001
  else none

/-- `signBlindedMessages` + the already-signed test. -/
def verifyOutputs (m : MintView) (outs : List Out) : Option Nat :=
  if dupSecrets (outs.map (·.secret)) then some 11008
  else if outs.any (fun o => m.isSigned o.secret) then some 10002
  else if outs.any (fun o => !m.hasKs o.ks) then some 12001
  else if outs.any (fun o => !m.isActive o.ks) then some 12002
  else if outs.any (fun o => !keyAmount o.amount) then some 10000
  else none

def sigsOf (outs : List Out) : List Sig := outs.map (fun o => { out := o.secret, amount := o.amount, ks := o.ks })

def outSum (outs : List Out) : UInt64 := amountWrap (outs.map (·.amount))
def inSum (ins : List WProof) : UInt64 := amountWrap (ins.map (·.amount))

/-- ghost: outputs of a request that were signed before -/
def reused (m : MintView) (outs : List Out) : List SId := (outs.filter (fun o => m.isSigned o.secret)).map (·.secret)

def noteReuse (m : MintView) (outs : List Out) : MintView := { m with reuse := m.reuse ++ m.reused outs }

def cached (m : MintView) (k : CacheReq) : Option (List Sig) :=
  match m.cache.find? (·.1 == k) with
  | some e => some e.2
  | none => none

/-- `Mint.Swap` behind the server's cache. -/
def swap (m : MintView) (ins : List WProof) (outs : List Out) : MintView × CRes (List Sig) :=
  let m := m.noteReuse outs
  match m.cached (.swap ins outs) with
  | some sigs => (m, .ok sigs)
  | none =>
  match amountChecked (outs.map (·.amount)) with
  | none => (m, .error (.mint 10000))
  | some osum =>
    if dupSecrets (outs.map (·.secret)) then (m, .error (.mint 11008)) else
    let f := m.fees ins
    let isum := inSum ins
    if f > isum then (m, .error (.mint 10000)) else
    if isum - f < osum then (m, .error (.mint 11002)) else
    match m.verifyInputs ins with
    | some c => (m, .error (.mint c))
    | none =>
      match m.verifyOutputs outs with
      | some c => (m, .error (.mint c))
      | none =>
        if ins.any (fun p => match p.lock with | some l => l.sigAll | none => false) &&
           outs.any (fun o => ins.any (fun p => match p.lock with | some l => l.sigAll && o.osig != some l.owner | none => false))
        then (m, .error (.mint 30001)) else
        ({ m with spent := m.spent ++ ins.map (fun p => (p.secret, p.amount)), sigs := m.sigs ++ sigsOf outs,
                  swapFees := m.swapFees + (isum - osum).toNat,
                  cache := m.cache ++ [(.swap ins outs, sigsOf outs)] }, .ok (sigsOf outs))

/-- `Mint.RequestMintQuote`. -/
def mintQuote (m : MintView) (id : Nat) (amount : UInt64) : MintView × CRes MMintQ :=
  -- an amount with the high bit set cannot be stored (database/sql): the mint answers with its generic error
  if amount ≥ 0x8000000000000000 then (m, .error (.mint 10000)) else
  let q : MMintQ := { id := id, amount := amount }
  ({ m with mintQ := m.mintQ ++ [q] }, .ok q)

def mintQuoteState (m : MintView) (id : Nat) : MintView × CRes MQState :=
  match m.mintQ.find? (·.id == id) with
  | some q => (m, .ok q.state)
  | none => (m, .error (.mint 20009))

def setMintQ (m : MintView) (id : Nat) (s : MQState) : MintView :=
  { m with mintQ := m.mintQ.map (fun q => if q.id == id then { q with state := s } else q) }

/-- `Mint.MintTokens` behind the server's cache. -/
def mint (m : MintView) (id : Nat) (outs : List Out) : MintView × CRes (List Sig) :=
  let m := m.noteReuse outs
  match m.cached (.mint id outs) with
  | some sigs => (m, .ok sigs)
  | none =>
  match m.mintQ.find? (·.id == id) with
  | none => (m, .error (.mint 20009))
  | some q =>
    match q.state with
    | .unpaid => (m, .error (.mint 20001))
    | .issued => (m, .error (.mint 20002))
    | .paid =>
      match amountChecked (outs.map (·.amount)) with
      | none => (m, .error (.mint 10000))
      | some osum =>
        if osum > q.amount then (m, .error (.mint 10000)) else
        match m.verifyOutputs outs with
        | some c => (m, .error (.mint c))
        | none =>
          ({ (m.setMintQ id .issued) with sigs := m.sigs ++ sigsOf outs, mintedIn := m.mintedIn + osum.toNat,
                                          cache := m.cache ++ [(.mint id outs, sigsOf outs)] },
           .ok (sigsOf outs))

def feeReserve (m : MintView) (amount : UInt64) : UInt64 := if m.feePct then (amount + 99) / 100 else 0

/-- `Mint.RequestMeltQuote` (invoices of this mint's own mint quotes — internal settlement — are outside the model). -/
def meltQuote (m : MintView) (id : Nat) (inv : InvRef) : MintView × CRes MMeltQ :=
  if inv.amount == 0 then (m, .error (.mint 20000)) else   -- "invoice has no amount"
  if m.meltQ.any (·.inv == inv) then (m, .error (.mint 20009)) else
  let q : MMeltQ := { id := id, inv := inv, amount := inv.amount, feeReserve := m.feeReserve inv.amount }
  ({ m with meltQ := m.meltQ ++ [q] }, .ok q)

def setMeltQ (m : MintView) (id : Nat) (f : MMeltQ → MMeltQ) : MintView :=
  { m with meltQ := m.meltQ.map (fun q => if q.id == id then f q else q) }

def ansOf (q : MMeltQ) (change : List Sig := []) : MeltAns :=
  { quote := q.id, amount := q.amount, feeReserve := q.feeReserve, state := q.state, change := change }

/-- Amounts of the change a NUT-08 mint signs for `refund` sat on `n` blank outputs. -/
def changeAmounts (refund : UInt64) (n : Nat) : List UInt64 := (amountSplit refund).take n

/-- Settle a melt as paid: the locked inputs become spent; a NUT-08 mint signs change on the blank outputs. -/
def settlePaid (m : MintView) (q : MMeltQ) (refund : UInt64) : MintView × List Sig :=
  let mine := m.pending.filter (fun (r : SId × UInt64 × Nat) => r.2.2 == q.id)
  let amts : List UInt64 := if m.nut08 then changeAmounts refund q.outs.length else []
  let blank := (q.outs.zip amts).filter (fun (oa : Out × UInt64) => !m.isSigned oa.1.secret && m.isActive oa.1.ks)
  let change : List Sig := blank.map (fun (oa : Out × UInt64) => { out := oa.1.secret, amount := oa.2, ks := oa.1.ks })
  let m1 := { m with pending := m.pending.filter (fun (r : SId × UInt64 × Nat) => r.2.2 != q.id),
                     spent := m.spent ++ mine.map (fun (r : SId × UInt64 × Nat) => (r.1, r.2.1)),
                     sigs := m.sigs ++ change,
                     melted := m.melted + ((mine.map (fun (r : SId × UInt64 × Nat) => r.2.1.toNat)).sum -
                                           (change.map (fun (c : Sig) => c.amount.toNat)).sum) }
  (m1.setMeltQ q.id (fun x => { x with state := .paid }), change)

def settleUnpaid (m : MintView) (q : MMeltQ) : MintView :=
  ({ m with pending := m.pending.filter (fun (r : SId × UInt64 × Nat) => r.2.2 != q.id) }).setMeltQ q.id (fun x => { x with state := .unpaid })

/-- Decision of `MeltTokens` after `SendPayment` (and the extra `OutgoingPaymentStatus` check after a failure). -/
inductive PayOutcome where | paid (refund : UInt64) | unpaid | pending
  deriving DecidableEq, Repr

def payOutcome : List LnAns → PayOutcome × List LnAns
  | [] => (.pending, [])            -- SendPayment transport error, status check error: left pending
  | .succ r :: rest => (.paid r, rest)
  | .pending :: rest => (.pending, rest)
  | _ :: rest =>                     -- failed / err / notfound from SendPayment: status check
    match rest with
    | [] => (.pending, [])
    | .succ r :: rest' => (.paid r, rest')
    | .failed :: rest' => (.unpaid, rest')
    | .notfound :: rest' => (.unpaid, rest')
    | _ :: rest' => (.pending, rest')

/-- Decision of `GetMeltQuoteState` for a pending quote after `OutgoingPaymentStatus`. -/
def statusOutcome : List LnAns → PayOutcome × List LnAns
  | [] => (.pending, [])
  | .succ r :: rest => (.paid r, rest)
  | .failed :: rest => (.unpaid, rest)
  | _ :: rest => (.pending, rest)

/-- `Mint.MeltTokens`.  Returns also the remaining script and the invoice paid (if any). -/
def melt (m : MintView) (id : Nat) (ins : List WProof) (outs : List Out) (script : List LnAns) :
    MintView × CRes MeltAns × List LnAns × Option InvRef :=
  let m := m.noteReuse outs
  match m.meltQ.find? (·.id == id) with
  | none => (m, .error (.mint 20009), script, none)
  | some q =>
    match q.state with
    | .paid => (m, .error (.mint 20006), script, none)
    | .pending => (m, .error (.mint 20005), script, none)
    | .unpaid =>
      match m.verifyInputs ins with
      | some c => (m, .error (.mint c), script, none)
      | none =>
        if dupSecrets (outs.map (·.secret)) then (m, .error (.mint 11008), script, none) else
        if inSum ins < q.amount + q.feeReserve + m.fees ins then (m, .error (.mint 11002), script, none) else
        if ins.any (fun p => match p.lock with | some l => l.sigAll | none => false) then (m, .error (.mint 30001), script, none) else
        let m1 := ({ m with pending := m.pending ++ ins.map (fun (p : WProof) => (p.secret, p.amount, id)) }).setMeltQ id
                    (fun x => { x with state := .pending, outs := outs })
        let q1 : MMeltQ := { q with state := .pending, outs := outs }
        match payOutcome script with
        | (.paid r, rest) =>
          let (m2, ch) := m1.settlePaid q1 r
          (m2, .ok (ansOf { q1 with state := .paid } ch), rest, some q.inv)
        | (.unpaid, rest) => (m1.settleUnpaid q1, .ok (ansOf { q1 with state := .unpaid }), rest, none)
        | (.pending, rest) => (m1, .ok (ansOf q1), rest, none)

/-- `Mint.GetMeltQuoteState`. -/
def meltQuoteState (m : MintView) (id : Nat) (script : List LnAns) :
    MintView × CRes MeltAns × List LnAns × Option InvRef :=
  match m.meltQ.find? (·.id == id) with
  | none => (m, .error (.mint 20009), script, none)
  | some q =>
    match q.state with
    | .pending =>
      match statusOutcome script with
      | (.paid r, rest) =>
        let (m2, ch) := m.settlePaid q r
        (m2, .ok (ansOf { q with state := .paid } ch), rest, some q.inv)
      | (.unpaid, rest) => (m.settleUnpaid q, .ok (ansOf { q with state := .unpaid }), rest, none)
      | (.pending, rest) => (m, .ok (ansOf q), rest, none)
    | _ => (m, .ok (ansOf q), script, none)

def dedupNat : List Nat → List Nat
  | [] => []
  | x :: rest => let r := dedupNat rest; if r.contains x then r else x :: r

/-- One pending melt quote re-checked by `ProofsStateCheck`. -/
def checkStep (acc : MintView × List LnAns × List InvRef) (q : Nat) : MintView × List LnAns × List InvRef :=
  ((acc.1.meltQuoteState q acc.2.1).1, (acc.1.meltQuoteState q acc.2.1).2.2.1,
    match (acc.1.meltQuoteState q acc.2.1).2.2.2 with
    | some i => acc.2.2 ++ [i]
    | none => acc.2.2)

def pendingQuotesOf (m : MintView) (ss : List SId) : List Nat :=
  dedupNat ((m.pending.filter (fun (r : SId × UInt64 × Nat) => ss.contains r.1)).map (fun (r : SId × UInt64 × Nat) => r.2.2))

/-- `Mint.ProofsStateCheck`: pending melts of the proofs asked about are re-checked first. -/
def checkState (m : MintView) (ss : List SId) (script : List LnAns) :
    MintView × CRes (List PState) × List LnAns × List InvRef :=
  let r := (m.pendingQuotesOf ss).foldl checkStep (m, script, [])
  (r.1, .ok (ss.map r.1.stateOf), r.2.1, r.2.2)

/-- `Mint.RestoreSignatures`. -/
def restore (m : MintView) (outs : List SId) : List Sig :=
  outs.filterMap (fun o => m.sigs.find? (·.out == o))

/-- `Mint.RotateKeyset`. -/
def rotate (m : MintView) (newId : KsId) (ppk : UInt64) : MintView :=
  { m with keysets := m.keysets.map (fun k => { k with active := false }) ++ [{ id := newId, ppk := ppk, active := true }] }

end MintView

/-! ## effects -/

inductive Eff : Type → Type where
  -- wallet storage (`storage.WalletDB`)
  | getMintQuote (id : Nat) : Eff (Option WMintQ)
  | saveMintQuote (q : WMintQ) : Eff Unit
  | getMeltQuote (id : Nat) : Eff (Option WMeltQ)
  | saveMeltQuote (q : WMeltQ) : Eff Unit
  | getProofsByKs (ks : KsId) : Eff (List WProof)
  | saveProofs (ps : List WProof) : Eff Unit
  | deleteProof (s : SId) : Eff Unit
  | addPending (ps : List WProof) : Eff Unit
  | addPendingByQuote (ps : List WProof) (q : Nat) : Eff Unit
  | getPending : Eff (List PProof)
  | getPendingByQuote (q : Nat) : Eff (List PProof)
  | deletePending (ss : List SId) : Eff Unit
  | deletePendingByQuote (q : Nat) : Eff Unit
  | saveKeyset (k : KsRow) : Eff Unit
  | getKeyset (id : KsId) : Eff (Option KsRow)
  | getKeysets : Eff (List KsRow)
  | incCounter (ks : KsId) (n : Nat) : Eff Bool
  | getCounter (ks : KsId) : Eff Nat
  | saveSeed : Eff Unit
  | close : Eff Unit
  -- the wallet's in-memory `w.mints` (not a call: no label, no crash point of its own)
  | memGet : Eff WMem
  | memSet (m : WMem) : Eff Unit
  -- harness-visible value returned to the caller
  | emitToken (mint : Nat) (ps : List WProof) (pending : Bool) : Eff Unit
  | fresh : Eff Nat
  -- client (`wallet/client`)
  | cInfo (mint : Nat) : Eff (CRes Unit)
  | cKeysets (mint : Nat) : Eff (CRes (List KsInfo))
  | cKeysetById (mint : Nat) (ks : KsId) : Eff (CRes Unit)
  | cMintQuote (mint : Nat) (amount : UInt64) : Eff (CRes MMintQ)
  | cMintQuoteState (mint : Nat) (q : Nat) : Eff (CRes MQState)
  | cMint (mint : Nat) (q : Nat) (outs : List Out) : Eff (CRes (List Sig))
  | cSwap (mint : Nat) (ins : List WProof) (outs : List Out) : Eff (CRes (List Sig))
  | cMeltQuote (mint : Nat) (inv : InvRef) : Eff (CRes MMeltQ)
  | cMeltQuoteState (mint : Nat) (q : Nat) : Eff (CRes MeltAns)
  | cMelt (mint : Nat) (q : Nat) (ins : List WProof) (outs : List Out) : Eff (CRes MeltAns)
  | cCheckState (mint : Nat) (ss : List SId) : Eff (CRes (List PState))
  | cRestore (mint : Nat) (outs : List SId) : Eff (CRes (List Sig))

/-- Name of the call as the extractor renders it (`none`: not a call). -/
def Eff.label : Eff α → Option String
  | .getMintQuote _ => some "db.GetMintQuoteById"
  | .saveMintQuote _ => some "db.SaveMintQuote"
  | .getMeltQuote _ => some "db.GetMeltQuoteById"
  | .saveMeltQuote _ => some "db.SaveMeltQuote"
  | .getProofsByKs _ => some "db.GetProofsByKeysetId"
  | .saveProofs _ => some "db.SaveProofs"
  | .deleteProof _ => some "db.DeleteProof"
  | .addPending _ => some "db.AddPendingProofs"
  | .addPendingByQuote _ _ => some "db.AddPendingProofsByQuoteId"
  | .getPending => some "db.GetPendingProofs"
  | .getPendingByQuote _ => some "db.GetPendingProofsByQuoteId"
  | .deletePending _ => some "db.DeletePendingProofs"
  | .deletePendingByQuote _ => some "db.DeletePendingProofsByQuoteId"
  | .saveKeyset _ => some "db.SaveKeyset"
  | .getKeyset _ => some "db.GetKeyset"
  | .getKeysets => some "db.GetKeysets"
  | .incCounter _ _ => some "db.IncrementKeysetCounter"
  | .getCounter _ => some "db.GetKeysetCounter"
  | .saveSeed => some "db.SaveMnemonicSeed"
  | .close => some "db.Close"
  | .memGet => none
  | .memSet _ => none
  | .emitToken _ _ _ => none
  | .fresh => none
  | .cInfo _ => some "client.GetMintInfo"
  | .cKeysets _ => some "client.GetAllKeysets"
  | .cKeysetById _ _ => some "client.GetKeysetById"
  | .cMintQuote _ _ => some "client.PostMintQuoteBolt11"
  | .cMintQuoteState _ _ => some "client.GetMintQuoteState"
  | .cMint _ _ _ => some "client.PostMintBolt11"
  | .cSwap _ _ _ => some "client.PostSwap"
  | .cMeltQuote _ _ => some "client.PostMeltQuoteBolt11"
  | .cMeltQuoteState _ _ => some "client.GetMeltQuoteState"
  | .cMelt _ _ _ _ => some "client.PostMeltBolt11"
  | .cCheckState _ _ => some "client.PostCheckProofState"
  | .cRestore _ _ => some "client.PostRestore"

/-- The answer with which the skeleton walk continues (the "happy path"). -/
def Eff.dflt : (e : Eff α) → α
  | .getMintQuote id => some { id := id, mint := 0, amount := 0, state := .unpaid }
  | .saveMintQuote _ => ()
  | .getMeltQuote id => some { id := id, mint := 0, amount := 0, feeReserve := 0, state := .unpaid }
  | .saveMeltQuote _ => ()
  | .getProofsByKs _ => []
  | .saveProofs _ => ()
  | .deleteProof _ => ()
  | .addPending _ => ()
  | .addPendingByQuote _ _ => ()
  | .getPending => []
  | .getPendingByQuote _ => []
  | .deletePending _ => ()
  | .deletePendingByQuote _ => ()
  | .saveKeyset _ => ()
  | .getKeyset _ => none
  | .getKeysets => []
  | .incCounter _ _ => true
  | .getCounter _ => 0
  | .saveSeed => ()
  | .close => ()
  | .memGet => { mints := [{ mint := 0, active := { mint := 0, id := 0, active := true, ppk := 0 } }] }
  | .memSet _ => ()
  | .emitToken _ _ _ => ()
  | .fresh => 0
  | .cInfo _ => .ok ()
  | .cKeysets _ => .ok [{ id := 0, ppk := 0, active := true }]
  | .cKeysetById _ _ => .ok ()
  | .cMintQuote _ a => .ok { id := 0, amount := a }
  | .cMintQuoteState _ _ => .ok .paid
  | .cMint _ _ outs => .ok (MintView.sigsOf outs)
  | .cSwap _ _ outs => .ok (MintView.sigsOf outs)
  | .cMeltQuote _ inv => .ok { id := 0, inv := inv, amount := 0, feeReserve := 0 }
  | .cMeltQuoteState _ q => .ok { quote := q, amount := 0, feeReserve := 0, state := .pending }
  | .cMelt _ q _ _ => .ok { quote := q, amount := 0, feeReserve := 0, state := .pending }
  | .cCheckState _ ss => .ok (ss.map (fun _ => PState.unspent))
  | .cRestore _ _ => .ok [{ out := .rnd 0, amount := 0, ks := 0 }]

/-! ## programs -/

inductive Prog : Type → Type 1 where
  | ret {α : Type} (a : α) : Prog α
  | eff {α β : Type} (e : Eff β) (k : β → Prog α) : Prog α
  /-- call of the named helper `name` (its own calls are not part of the caller's skeleton; `""`: a helper
      the extractor does not track) -/
  | sub {α β : Type} (name : String) (body : Prog β) (k : β → Prog α) : Prog α
  /-- a block of the control structure that contains calls: `opn body cls` in the skeleton (`if{ … }`,
      `}else{ … }`, `switch{ … }`, `case X{ … }`); it runs only when `run`, otherwise yields `dflt` -/
  | block {α β : Type} (opn cls : String) (run : Bool) (body : Prog β) (dflt : β) (k : β → Prog α) : Prog α
  /-- `for … { body }` with loop state `σ`: `body` returns the new state and whether to go on; an error
      leaves the loop.  `sample` is the state the skeleton walk visits the body with. -/
  | loop {α σ ε : Type} (sample : σ) (fuel : Nat) (init : σ) (body : σ → Prog (Except ε (σ × Bool)))
      (k : Except ε σ → Prog α) : Prog α

namespace Prog

def bind {α β : Type} : Prog α → (α → Prog β) → Prog β
  | .ret a, f => f a
  | .eff e k, f => .eff e (fun r => bind (k r) f)
  | .sub n b k, f => .sub n b (fun r => bind (k r) f)
  | .block o c r b d k, f => .block o c r b d (fun x => bind (k x) f)
  | .loop s n i body k, f => .loop s n i body (fun r => bind (k r) f)

instance : Monad Prog where
  pure := .ret
  bind := bind

def call {β : Type} (e : Eff β) : Prog β := .eff e .ret

end Prog

/-! ## semantics of the effects -/

namespace World

def wallet (w : World) (i : Nat) : Wallet := w.wallets.getD i default
def setWallet (w : World) (i : Nat) (x : Wallet) : World := { w with wallets := w.wallets.set i x }
def mint (w : World) (i : Nat) : MintView := w.mints.getD i default
def setMint (w : World) (i : Nat) (m : MintView) : World := { w with mints := w.mints.set i m }
def updDb (w : World) (i : Nat) (f : WDb → WDb) : World :=
  w.setWallet i { w.wallet i with db := f (w.wallet i).db }

/-- A melt was answered PAID: the invoice it paid is settled (a mint-to-mint swap pays the other mint's
    mint quote). -/
def payInvoice (w : World) : Option InvRef → World
  | some (.mq j q _) =>
    let m := w.mint j
    w.setMint j { m with mintQ := m.mintQ.map (fun x => if x.id == q && x.state == .unpaid then { x with state := .paid } else x) }
  | _ => w

def payInvoices (w : World) (is : List InvRef) : World := is.foldl (fun acc i => acc.payInvoice (some i)) w

end World

/-- One client call served by the honest mint `mi` (`none`: no such mint, transport error). -/
def execClient (w : World) : (e : Eff α) → Option (World × α)
  | .cInfo mi => if mi < w.mints.length then some (w, .ok ()) else some (w, .error .net)
  | .cKeysets mi => if mi < w.mints.length then some (w, .ok (w.mint mi).keysets) else some (w, .error .net)
  | .cKeysetById mi ks =>
    if mi < w.mints.length then some (w, if (w.mint mi).hasKs ks then .ok () else .error (.mint 12001)) else some (w, .error .net)
  | .cMintQuote mi amount =>
    if mi < w.mints.length then
      let (m, r) := (w.mint mi).mintQuote w.nextId amount
      some ({ (w.setMint mi m) with nextId := w.nextId + 1 }, r)
    else some (w, .error .net)
  | .cMintQuoteState mi q =>
    if mi < w.mints.length then let (m, r) := (w.mint mi).mintQuoteState q; some (w.setMint mi m, r) else some (w, .error .net)
  | .cMint mi q outs =>
    if mi < w.mints.length then let (m, r) := (w.mint mi).mint q outs; some (w.setMint mi m, r) else some (w, .error .net)
  | .cSwap mi ins outs =>
    if mi < w.mints.length then let (m, r) := (w.mint mi).swap ins outs; some (w.setMint mi m, r) else some (w, .error .net)
  | .cMeltQuote mi inv =>
    if mi < w.mints.length then
      let (m, r) := (w.mint mi).meltQuote w.nextId inv
      some ({ (w.setMint mi m) with nextId := w.nextId + 1 }, r)
    else some (w, .error .net)
  | .cMeltQuoteState mi q =>
    if mi < w.mints.length then
      let (m, r, sc, inv) := (w.mint mi).meltQuoteState q w.script
      some (({ (w.setMint mi m) with script := sc }).payInvoice inv, r)
    else some (w, .error .net)
  | .cMelt mi q ins outs =>
    if mi < w.mints.length then
      let (m, r, sc, inv) := (w.mint mi).melt q ins outs w.script
      some (({ (w.setMint mi m) with script := sc }).payInvoice inv, r)
    else some (w, .error .net)
  | .cCheckState mi ss =>
    if mi < w.mints.length then
      let (m, r, sc, invs) := (w.mint mi).checkState ss w.script
      some (({ (w.setMint mi m) with script := sc }).payInvoices invs, r)
    else some (w, .error .net)
  | .cRestore mi outs =>
    if mi < w.mints.length then some (w, .ok ((w.mint mi).restore outs)) else some (w, .error .net)
  | _ => none

/-- One storage call / memory access of wallet `wi`. -/
def execDb (wi : Nat) (w : World) : (e : Eff α) → Option (World × α)
  | .getMintQuote id => some (w, (w.wallet wi).db.mintQ.find? (·.id == id))
  | .saveMintQuote q => some (w.updDb wi (fun d => { d with mintQ := putMintQ d.mintQ q }), ())
  | .getMeltQuote id => some (w, (w.wallet wi).db.meltQ.find? (·.id == id))
  | .saveMeltQuote q => some (w.updDb wi (fun d => { d with meltQ := putMeltQ d.meltQ q }), ())
  | .getProofsByKs ks => some (w, (w.wallet wi).db.proofs.filter (·.ks == ks))
  | .saveProofs ps => some (w.updDb wi (fun d => { d with proofs := putProofs d.proofs ps }), ())
  | .deleteProof s => some (w.updDb wi (fun d => { d with proofs := d.proofs.filter (·.secret != s) }), ())
  | .addPending ps => some (w.updDb wi (fun d => { d with pending := putPendings d.pending (ps.map (fun p => { p := p })) }), ())
  | .addPendingByQuote ps q =>
    some (w.updDb wi (fun d => { d with pending := putPendings d.pending (ps.map (fun p => { p := p, quote := some q })) }), ())
  | .getPending => some (w, (w.wallet wi).db.pending)
  | .getPendingByQuote q => some (w, (w.wallet wi).db.pending.filter (·.quote == some q))
  | .deletePending ss => some (w.updDb wi (fun d => { d with pending := d.pending.filter (fun x => !ss.contains x.p.secret) }), ())
  | .deletePendingByQuote q => some (w.updDb wi (fun d => { d with pending := d.pending.filter (·.quote != some q) }), ())
  | .saveKeyset k => some (w.updDb wi (fun d => { d with keysets := putKeyset d.keysets k }), ())
  | .getKeyset id => some (w, (w.wallet wi).db.keysets.find? (·.id == id))
  | .getKeysets => some (w, (w.wallet wi).db.keysets)
  | .incCounter ks n =>
    if (w.wallet wi).db.keysets.any (·.id == ks) then
      some (w.updDb wi (fun d => { d with keysets := incCounter d.keysets ks n }), true)
    else some (w, false)
  | .getCounter ks => some (w, counterOf (w.wallet wi).db.keysets ks)
  | .saveSeed => some (w, ())
  | .close => some (w, ())
  | .memGet => some (w, (w.wallet wi).mem)
  | .memSet m => some (w.setWallet wi { w.wallet wi with mem := m }, ())
  | .emitToken mi ps pend =>
    some ({ w with tokens := w.tokens ++ [{ id := w.tokens.length, mint := mi, proofs := ps, sender := if pend then some wi else none }] }, ())
  | .fresh => some ({ w with nextId := w.nextId + 1 }, w.nextId)
  | _ => none

/-- Perform one effect as wallet `wi`. -/
def exec (wi : Nat) (w : World) (e : Eff α) : World × α :=
  match execDb wi w e with
  | some r => r
  | none =>
    match execClient w e with
    | some r => r
    | none => (w, e.dflt)

/-! ## running programs -/

def loopRun {σ ε : Type} (step : σ → World → World × Except ε (σ × Bool)) : Nat → σ → World → World × Except ε σ
  | 0, st, w => (w, .ok st)
  | n + 1, st, w =>
    match step st w with
    | (w', .ok (st', true)) => loopRun step n st' w'
    | (w', .ok (st', false)) => (w', .ok st')
    | (w', .error e) => (w', .error e)

/-- Run a program of wallet `wi` to completion (sequential, fault-free semantics). -/
def Prog.run (wi : Nat) : Prog α → World → World × α
  | .ret a, w => (w, a)
  | .eff e k, w => (k (exec wi w e).2).run wi (exec wi w e).1
  | .sub _ b k, w => (k (b.run wi w).2).run wi (b.run wi w).1
  | .block _ _ r b d k, w => if r then (k (b.run wi w).2).run wi (b.run wi w).1 else (k d).run wi w
  | .loop _ n i body k, w =>
    let r := loopRun (fun st w' => (body st).run wi w') n i w
    (k r.2).run wi r.1

def loopRunL {σ ε : Type} (step : σ → World → World × Except ε (σ × Bool) × List String) :
    Nat → σ → World → World × Except ε σ × List String
  | 0, st, w => (w, .ok st, [])
  | n + 1, st, w =>
    match step st w with
    | (w', .ok (st', true), l) => let r := loopRunL step n st' w'; (r.1, r.2.1, l ++ r.2.2)
    | (w', .ok (st', false), l) => (w', .ok st', l)
    | (w', .error e, l) => (w', .error e, l)

/-- `Prog.run` together with the names of the storage / client calls it makes, in order (what the harness
    records at the storage proxy and at the transport). -/
def Prog.runL (wi : Nat) : Prog α → World → World × α × List String
  | .ret a, w => (w, a, [])
  | .eff e k, w =>
    let r := (k (exec wi w e).2).runL wi (exec wi w e).1
    (r.1, r.2.1, (match e.label with | some l => [l] | none => []) ++ r.2.2)
  | .sub _ b k, w =>
    let rb := b.runL wi w
    let r := (k rb.2.1).runL wi rb.1
    (r.1, r.2.1, rb.2.2 ++ r.2.2)
  | .block _ _ run b d k, w =>
    if run then
      let rb := b.runL wi w
      let r := (k rb.2.1).runL wi rb.1
      (r.1, r.2.1, rb.2.2 ++ r.2.2)
    else (k d).runL wi w
  | .loop _ n i body k, w =>
    let rl := loopRunL (fun st w' => (body st).runL wi w') n i w
    let r := (k rl.2.1).runL wi rl.1
    (r.1, r.2.1, rl.2.2 ++ r.2.2)

/-- Budgeted step function of a loop: `none` = the wallet died inside. -/
def loopRunN {σ ε : Type} (step : σ → Nat → World → World × Option (Except ε (σ × Bool)) × Nat) :
    Nat → σ → Nat → World → World × Option (Except ε σ) × Nat
  | 0, st, b, w => (w, some (.ok st), b)
  | n + 1, st, b, w =>
    match step st b w with
    | (w', some (.ok (st', true)), b') => loopRunN step n st' b' w'
    | (w', some (.ok (st', false)), b') => (w', some (.ok st'), b')
    | (w', some (.error e), b') => (w', some (.error e), b')
    | (w', none, _) => (w', none, 0)

/-- Run until the wallet process dies: at most `n` calls (storage or client) are performed; the call number
    `n` (0-based) is never made.  Result `none`: died. -/
def Prog.runN (wi : Nat) : Prog α → Nat → World → World × Option α × Nat
  | .ret a, n, w => (w, some a, n)
  | .eff e k, n, w =>
    if e.label.isSome then
      match n with
      | 0 => (w, none, 0)
      | n + 1 => (k (exec wi w e).2).runN wi n (exec wi w e).1
    else (k (exec wi w e).2).runN wi n (exec wi w e).1
  | .sub _ b k, n, w =>
    match b.runN wi n w with
    | (w', some r, n') => (k r).runN wi n' w'
    | (w', none, _) => (w', none, 0)
  | .block _ _ r b d k, n, w =>
    if r then
      match b.runN wi n w with
      | (w', some x, n') => (k x).runN wi n' w'
      | (w', none, _) => (w', none, 0)
    else (k d).runN wi n w
  | .loop _ f i body k, n, w =>
    match loopRunN (fun st b w' => (body st).runN wi b w') f i n w with
    | (w', some r, n') => (k r).runN wi n' w'
    | (w', none, _) => (w', none, 0)

/-! ## the skeleton of a program -/

def wrapSk (opn cls : String) (inner : List String) : List String :=
  (if opn == "" then [] else [opn]) ++ inner ++ (if cls == "" then [] else [cls])

/-- Walk the program once along the default answers, visiting every block: the calls it makes by name, in
    source order, with the control-structure markers — what `extract/main.go` computes from the Go AST. -/
def Prog.walk : Prog α → List String × α
  | .ret a => ([], a)
  | .eff e k =>
    let r := (k e.dflt).walk
    ((match e.label with | some l => [l] | none => []) ++ r.1, r.2)
  | .sub name b k =>
    let r := (k b.walk.2).walk
    ((if name == "" then [] else [name]) ++ r.1, r.2)
  | .block opn cls _ b d k =>
    let r := (k d).walk
    (wrapSk opn cls b.walk.1 ++ r.1, r.2)
  | .loop s _ _ body k =>
    let inner := (body s).walk.1
    let r := (k (.ok s)).walk
    ((if inner.isEmpty then [] else wrapSk "for{" "}" inner) ++ r.1, r.2)

def Prog.skel (p : Prog α) : List String := p.walk.1

/-! ## the wallet's programs -/

abbrev WErr := String
abbrev PM := ExceptT WErr Prog

def eff {β : Type} (e : Eff β) : PM β := ExceptT.lift (Prog.call e)
def subM {β : Type} (name : String) (body : PM β) : PM β := ExceptT.mk (Prog.sub name body.run .ret)
/-- a pure helper the extractor tracks by name -/
def pureSub {β : Type} (name : String) (v : β) : PM β := subM name (pure v)
def blockM {β : Type} (opn cls : String) (run : Bool) (body : PM β) (d : β) : PM β :=
  ExceptT.mk (Prog.block opn cls run body.run (.ok d) .ret)
/-- `if c { body }` -/
def whenM {β : Type} (c : Bool) (body : PM β) (d : β) : PM β := blockM "if{" "}" c body d
/-- `if c { t } else { e }` -/
def iteM {β : Type} (c : Bool) (t e : PM β) (d : β) : PM β := do
  let a ← blockM "if{" "" c t d
  let b ← blockM "}else{" "}" (!c) e d
  pure (if c then a else b)
def loopM {σ : Type} (sample : σ) (fuel : Nat) (init : σ) (body : σ → PM (σ × Bool)) : PM σ :=
  ExceptT.mk (Prog.loop sample fuel init (fun st => (body st).run) .ret)
def forEachStep {X : Type} (body : X → PM Unit) : List X → PM (List X × Bool)
  | [] => pure ([], false)
  | x :: rest => do body x; pure (rest, !rest.isEmpty)

/-- `for _, x := range xs { body x }` -/
def forEachM {X : Type} (sample : X) (xs : List X) (body : X → PM Unit) : PM Unit := do
  let _ ← loopM [sample] xs.length xs (forEachStep body)
  pure ()

def forCollectStep {X Y : Type} (body : X → PM (List Y)) : List X × List Y → PM ((List X × List Y) × Bool)
  | ([], acc) => pure (([], acc), false)
  | (x :: rest, acc) => do let ys ← body x; pure ((rest, acc ++ ys), !rest.isEmpty)

/-- the same, collecting results -/
def forCollectM {X Y : Type} (sample : X) (xs : List X) (body : X → PM (List Y)) : PM (List Y) := do
  let r ← loopM ([sample], ([] : List Y)) xs.length (xs, []) (forCollectStep body)
  pure r.2

def cTry {β : Type} (e : Eff (CRes β)) : PM β := do
  match ← eff e with
  | .ok v => pure v
  | .error (.mint c) => throw s!"mint-{c}"
  | .error .net => throw "net"

/-- Coin selection and split: parameters of the model (see the header). -/
structure Sel where
  /-- `selectProofsToSend(proofs, amount, mint, includeFees)`; `none` = error -/
  toSend : Select.Mint → List WProof → UInt64 → Bool → Option (List WProof)
  /-- `splitWalletTarget`: amounts held at the mint, amount to split -/
  split : List UInt64 → UInt64 → List UInt64
  /-- the float arithmetic of `swapProofs` (`uint64(float64(proofsAmount) * 0.99 * …)` after `tries` rounds) -/
  swapAmount : UInt64 → Nat → UInt64

structure Cx where
  wi : Nat
  seed : Nat
  sel : Sel

def MemMint.toSelect (mm : MemMint) : Select.Mint :=
  { activeId := mm.active.id, activePpk := mm.active.ppk, inactive := mm.inactive.map (fun r => (r.id, r.ppk)) }

/-- `feesForProofs(proofs, mint)`. -/
def feesFor (mm : MemMint) (ps : List WProof) : UInt64 :=
  feesOfPpks (ps.map (fun p => mm.toSelect.ppkOf p.ks))

def proofsAmount (ps : List WProof) : UInt64 := amountWrap (ps.map (·.amount))

/-- keyset id no keyset has (the zero-value `walletMint` of an unknown mint has the empty id) -/
def noKs : KsId := 1000000000

def zeroMint (mi : Nat) : MemMint := { mint := mi, active := { mint := mi, id := noKs, active := false, ppk := 0 } }

def memMint (mem : WMem) (mi : Nat) : MemMint :=
  match mem.mints.find? (·.mint == mi) with
  | some mm => mm
  | none => zeroMint mi

def setMemMint (mem : WMem) (mm : MemMint) : WMem :=
  if mem.mints.any (·.mint == mm.mint) then { mem with mints := mem.mints.map (fun x => if x.mint == mm.mint then mm else x) }
  else { mem with mints := mem.mints ++ [mm] }

def putRow (b : List KsRow) (k : KsRow) : List KsRow :=
  if b.any (·.id == k.id) then b.map (fun r => if r.id == k.id then k else r) else b ++ [k]

/-- `createBlindedMessages(split, keysetId, &counter)`: deterministic outputs from `counter` on. -/
def mkOutputs (seed : Nat) (ks : KsId) (counter : Nat) (split : List UInt64) : List Out :=
  (split.zip (List.range split.length)).map (fun ai => { secret := .det seed ks (counter + ai.2), amount := ai.1, ks := ks })

/-- `constructProofs`: one proof per signature (amount and keyset id from the signature), `none` when the
    lengths differ. -/
def constructProofs (sigs : List Sig) (outs : List Out) : Option (List WProof) :=
  if sigs.length != outs.length then none
  else some ((sigs.zip outs).map (fun so => { secret := so.2.secret, amount := so.1.amount, ks := so.1.ks, dleq := true, lock := so.2.lock }))

/-! ### keysets -/

/-- `GetMintActiveKeyset` -/
def getMintActiveKeyset (mi : Nat) : PM KsRow := do
  let kss ← cTry (.cKeysets mi)
  match kss.find? (·.active) with
  | none => throw "no-active-keyset"
  | some k =>
    cTry (.cKeysetById mi k.id)
    pure { mint := mi, id := k.id, active := true, ppk := k.ppk }

/-- `GetMintInactiveKeysets` -/
def getMintInactiveKeysets (mi : Nat) : PM (List KsRow) := do
  let kss ← cTry (.cKeysets mi)
  pure ((kss.filter (fun k => !k.active)).map (fun k => { mint := mi, id := k.id, active := false, ppk := k.ppk, keys := false }))

/-- `(w *Wallet).getActiveKeyset(mintURL)` (keyset.go). -/
def getActiveKeyset (mi : Nat) : PM KsRow := do
  let mem ← eff .memGet
  match mem.mints.find? (·.mint == mi) with
  | none => getMintActiveKeyset mi
  | some mm =>
    let all ← cTry (.cKeysets mi)
    let active := mm.active
    match all.find? (fun k => k.active && k.id == active.id) with
    | none =>
      -- a new keyset is active: the in-memory copy of the previous one is written back as inactive
      let old : KsRow := { active with active := false }
      let mm1 : MemMint := { mm with inactive := putRow mm.inactive old }
      eff (.memSet (setMemMint mem mm1))
      eff (.saveKeyset old)
      match all.find? (·.active) with
      | none => pure old
      | some k =>
        match ← eff (.getKeyset k.id) with
        | some st =>
          let st' : KsRow := { st with active := true, ppk := k.ppk }
          eff (.saveKeyset st')
          eff (.memSet (setMemMint mem { mm1 with active := st', inactive := mm1.inactive.filter (·.id != st'.id) }))
          pure st'
        | none =>
          cTry (.cKeysetById mi k.id)
          let nk : KsRow := { mint := mi, id := k.id, active := true, ppk := k.ppk }
          eff (.saveKeyset nk)
          eff (.memSet (setMemMint mem { mm1 with active := nk }))
          pure nk
    | some k =>
      if k.ppk != active.ppk then
        let a' : KsRow := { active with ppk := k.ppk }
        eff (.saveKeyset a')
        eff (.memSet (setMemMint mem { mm with active := a' }))
        pure a'
      else pure active

/-- `(w *Wallet).AddMint(mint)`. -/
def addMint (mi : Nat) : PM MemMint := do
  let active ← getMintActiveKeyset mi
  let inactive ← getMintInactiveKeysets mi
  eff (.saveKeyset active)
  forEachM active inactive (fun k => eff (.saveKeyset k))
  let mm : MemMint := { mint := mi, active := active, inactive := inactive }
  let mem ← eff .memGet
  eff (.memSet (setMemMint mem mm))
  pure mm

/-- `loadWalletMints` + the keyset part of `LoadWallet`. -/
def loadWallet (defaultMint : Nat) : PM Unit := do
  let rows0 ← eff .getKeysets
  -- keysets stored without public keys are completed (`GetKeysetKeys` + `SaveKeyset`)
  let rows ← forCollectM (default : KsRow) rows0 (fun r =>
    if r.keys then pure [r]
    else do
      cTry (.cKeysetById r.mint r.id)
      eff (.saveKeyset { r with keys := true })
      pure [{ r with keys := true }])
  let mintIds := MintView.dedupNat (rows.map (·.mint))
  let mints : List MemMint := mintIds.map (fun mi =>
    let mine := rows.filter (·.mint == mi)
    { mint := mi
      active := match (mine.filter (·.active)).getLast? with
        | some a => a
        | none => { mint := mi, id := noKs, active := false, ppk := 0 }
      inactive := mine.filter (fun r => !r.active) })
  eff (.memSet { mints := mints, defaultMint := defaultMint })
  if mints.any (·.mint == defaultMint) then
    let _ ← getActiveKeyset defaultMint
  else
    let _ ← addMint defaultMint

/-! ### proofs held at a mint -/

/-- `getInactiveProofsByMint` -/
def getInactiveProofs (mi : Nat) : PM (List WProof) := do
  let mem ← eff .memGet
  forCollectM (default : KsRow) (memMint mem mi).inactive (fun k => eff (.getProofsByKs k.id))

/-- `getActiveProofsByMint` -/
def getActiveProofs (mi : Nat) : PM (List WProof) := do
  let mem ← eff .memGet
  eff (.getProofsByKs (memMint mem mi).active.id)

/-- `splitWalletTarget(amount, mint)`: reads what is held at the mint (`getProofsFromMint`). -/
def splitWalletTarget (cx : Cx) (amount : UInt64) (mi : Nat) : PM (List UInt64) :=
  subM "splitWalletTarget" (do
    let ina ← getInactiveProofs mi
    let act ← getActiveProofs mi
    pure (cx.sel.split ((ina ++ act).map (·.amount)) amount))

def counterForKeyset (ks : KsId) : PM Nat := subM "counterForKeyset" (eff (.getCounter ks))

/-- `selectProofsForAmount(amount, mint, includeFees)`; `mm` is the caller's copy of the `walletMint`. -/
def selectProofsForAmount (cx : Cx) (amount : UInt64) (mm : MemMint) (includeFees : Bool) : PM (List WProof) := do
  let inactive ← subM "" (getInactiveProofs mm.mint)
  let sm := mm.toSelect
  let (selected, fees) ← whenM (inactive.length > 0) (do
      let selected ← iteM (proofsAmount inactive < amount) (pure inactive)
        (do let r ← pureSub "selectProofsToSend" (cx.sel.toSend sm inactive amount includeFees)
            pure (match r with | some ps => ps | none => []))
        []
      let fees ← whenM includeFees (pureSub "feesForProofs" (feesFor mm selected)) 0
      pure (selected, fees)) (([] : List WProof), (0 : UInt64))
  let totalAmountNeeded := amount + fees
  let selectedAmount := proofsAmount selected
  iteM (selectedAmount ≥ totalAmountNeeded) (pure selected)
    (do let active ← subM "" (getActiveProofs mm.mint)
        match ← pureSub "selectProofsToSend" (cx.sel.toSend sm active (totalAmountNeeded - selectedAmount) includeFees) with
        | some ps => pure (selected ++ ps)
        | none => throw "insufficient")
    []

/-! ### quotes and minting -/

/-- `RequestMint(amount, mint)`. -/
def requestMint (amount : UInt64) (mi : Nat) : PM MMintQ := do
  let mem ← eff .memGet
  if !mem.mints.any (·.mint == mi) then throw "mint-not-exist"
  let q ← cTry (.cMintQuote mi amount)
  eff (.saveMintQuote { id := q.id, mint := mi, amount := amount, state := q.state })
  pure q

/-- `MintQuoteState(quoteId)`. -/
def mintQuoteState (quoteId : Nat) : PM MQState := do
  match ← eff (.getMintQuote quoteId) with
  | none => throw "quote-not-found"
  | some quote =>
    if quote.state == .issued then pure .issued
    else
      let st ← cTry (.cMintQuoteState quote.mint quoteId)
      eff (.saveMintQuote { quote with state := st })
      pure st

/-- `MintTokens(quoteId)`. -/
def mintTokens (cx : Cx) (quoteId : Nat) : PM UInt64 := do
  match ← eff (.getMintQuote quoteId) with
  | none => throw "quote-not-found"
  | some quote =>
    let mi := quote.mint
    let st ← subM "MintQuoteState" (mintQuoteState quoteId)
    if st == .unpaid then throw "not-paid"
    if st == .issued then throw "already-issued"
    let activeKeyset ← subM "getActiveKeyset" (getActiveKeyset mi)
    let counter ← counterForKeyset activeKeyset.id
    let split ← splitWalletTarget cx quote.amount mi
    let outs ← pureSub "createBlindedMessages" (mkOutputs cx.seed activeKeyset.id counter split)
    let sigs ← cTry (.cMint mi quoteId outs)
    match ← pureSub "constructProofs" (constructProofs sigs outs) with
    | none => throw "construct-proofs"
    | some proofs =>
      eff (.saveProofs proofs)
      if !(← eff (.incCounter activeKeyset.id outs.length)) then throw "increment-counter"
      eff (.saveMintQuote { quote with state := .issued })
      pure (proofsAmount proofs)

/-! ### sending -/

/-- `cashu.SortBlindedMessages`: by amount (stable). -/
def sortOuts (outs : List Out) : List Out := Select.sortBy (fun (a b : Out) => a.amount ≤ b.amount) outs

/-- Pick, for every `send` message, the first proof of that amount out of the proofs from the swap. -/
def takeSend : List Out → List WProof → List WProof × List WProof
  | [], rest => ([], rest)
  | o :: os, ps =>
    match ps.find? (·.amount == o.amount) with
    | some p =>
      let r := takeSend os (ps.erase p)
      (p :: r.1, r.2)
    | none => takeSend os ps

/-- `swapToSend(amount, mint, spendingCondition, includeFees)`; `lock`: the spending condition, if any. -/
def swapToSend (cx : Cx) (amount : UInt64) (mm : MemMint) (lock : Option Lock) (includeFees : Bool) :
    PM (List WProof) := do
  let activeKeyset ← subM "getActiveKeyset" (getActiveKeyset mm.mint)
  let splitForSendAmount ← pureSub "cashu.AmountSplit" (amountSplit amount)
  let feesToReceive ← whenM includeFees
    (pureSub "feesForCount" (Select.feesForCount (splitForSendAmount.length + 1) activeKeyset.ppk)) 0
  let amount := amount + feesToReceive
  let proofsToSwap ← subM "selectProofsForAmount" (selectProofsForAmount cx amount mm true)
  let feeSplit ← pureSub "cashu.AmountSplit" (amountSplit feesToReceive)
  let split := Select.sortU64 (splitForSendAmount ++ feeSplit)
  let (send, counter, incBy) ← iteM lock.isNone
    (do let counter ← counterForKeyset activeKeyset.id
        let send ← pureSub "createBlindedMessages" (mkOutputs cx.seed activeKeyset.id counter split)
        pure (send, counter + send.length, send.length))
    (do let base ← eff .fresh
        let send ← pureSub "blindedMessagesFromSpendingCondition"
          ((split.zip (List.range split.length)).map (fun ai =>
            ({ secret := .rnd (base * 1000 + ai.2), amount := ai.1, ks := activeKeyset.id, lock := lock } : Out)))
        let counter ← counterForKeyset activeKeyset.id
        pure (send, counter, 0))
    (([] : List Out), 0, 0)
  let proofsAmt := proofsAmount proofsToSwap
  let fees ← pureSub "feesForProofs" (feesFor mm proofsToSwap)
  let changeAmount := proofsAmt - amount - fees
  let change ← whenM (changeAmount > 0)
    (do let changeSplit ← splitWalletTarget cx changeAmount mm.mint
        pureSub "createBlindedMessages" (mkOutputs cx.seed activeKeyset.id counter changeSplit)) []
  let incBy := incBy + change.length
  let blindedMessages := sortOuts (send ++ change)
  let sigs ← cTry (.cSwap mm.mint proofsToSwap blindedMessages)
  forEachM (default : WProof) proofsToSwap (fun p => eff (.deleteProof p.secret))
  match ← pureSub "constructProofs" (constructProofs sigs blindedMessages) with
  | none => throw "construct-proofs"
  | some proofsFromSwap =>
    let (proofsToSend, rest) := takeSend send proofsFromSwap
    eff (.saveProofs rest)
    if !(← eff (.incCounter activeKeyset.id incBy)) then throw "increment-counter"
    pure proofsToSend

/-- `getProofsForAmount(amount, mint, includeFees)`. -/
def getProofsForAmount (cx : Cx) (amount : UInt64) (mm : MemMint) (includeFees : Bool) : PM (List WProof) := do
  let selected ← subM "selectProofsForAmount" (selectProofsForAmount cx amount mm includeFees)
  let fees ← whenM includeFees (pureSub "feesForProofs" (feesFor mm selected)) 0
  let totalAmount := amount + fees
  let r ← whenM (proofsAmount selected == totalAmount)
    (do forEachM (default : WProof) selected (fun p => eff (.deleteProof p.secret))
        pure (some selected)) none
  match r with
  | some ps => pure ps
  | none => subM "swapToSend" (swapToSend cx amount mm none includeFees)

/-- `Send(amount, mintURL, includeFees)`. -/
def send (cx : Cx) (amount : UInt64) (mi : Nat) (includeFees : Bool) : PM (List WProof) := do
  let mem ← eff .memGet
  match mem.mints.find? (·.mint == mi) with
  | none => throw "mint-not-exist"
  | some mm =>
    let proofsToSend ← subM "getProofsForAmount" (getProofsForAmount cx amount mm includeFees)
    eff (.addPending proofsToSend)
    eff (.emitToken mi proofsToSend true)
    pure proofsToSend

/-- `SendToPubkey(amount, mintURL, pubkey, tags, includeFees)`. -/
def sendToPubkey (cx : Cx) (amount : UInt64) (mi : Nat) (lock : Lock) (includeFees : Bool) : PM (List WProof) := do
  let mem ← eff .memGet
  match mem.mints.find? (·.mint == mi) with
  | none => throw "mint-not-exist"
  | some mm =>
    cTry (.cInfo mi)
    let locked ← subM "swapToSend" (swapToSend cx amount mm (some lock) includeFees)
    eff (.emitToken mi locked false)
    pure locked

/-! ### receiving -/

structure SwapReq where
  inputs : List WProof
  outputs : List Out
  keyset : KsRow

/-- `createSwapRequest(proofs, mint)`. -/
def createSwapRequest (cx : Cx) (proofs : List WProof) (mm : MemMint) : PM SwapReq := do
  let keysetCounter ← counterForKeyset mm.active.id
  let fees ← pureSub "feesForProofs" (feesFor mm proofs)
  let split ← splitWalletTarget cx (proofsAmount proofs - fees) mm.mint
  let outputs ← pureSub "createBlindedMessages" (mkOutputs cx.seed mm.active.id keysetCounter split)
  pure { inputs := proofs, outputs := outputs, keyset := mm.active }

/-- `swap(mint, swapRequest)`. -/
def swap (mi : Nat) (req : SwapReq) : PM (List WProof) := do
  let sigs ← cTry (.cSwap mi req.inputs req.outputs)
  match ← pureSub "constructProofs" (constructProofs sigs req.outputs) with
  | none => throw "construct-proofs"
  | some ps => pure ps

def signOutputs (key : Nat) (outs : List Out) : List Out := outs.map (fun o => { o with osig := some key })

/-- The float arithmetic of `swapProofs`: `uint64(float64(proofsAmount) * 0.99 * Π (0.99 - 0.01 k))` after
    `tries` rounds; evaluated with `Float` in the driver, irrelevant to every theorem. -/
def swapAmountAt (proofsAmount : UInt64) (tries : Nat) : UInt64 :=
  let rec go (n : Nat) (pct amount : Float) : Float :=
    match n with
    | 0 => amount
    | n + 1 => let pct' := pct - 0.01; go n pct' (amount * pct')
  (go tries 0.99 (proofsAmount.toFloat * 0.99)).toUInt64

/-- `swapProofs(proofs, from, to)`: mint quote at `to`, melt quote at `from` for its invoice (retried with a
    lower amount until the proofs cover it), melt WITHOUT change outputs, then `MintTokens`. -/
def swapProofs (cx : Cx) (proofs : List WProof) (from_ : MemMint) (to : MemMint) : PM UInt64 := do
  let proofsAmt := proofsAmount proofs
  let fees ← pureSub "feesForProofs" (feesFor from_ proofs)
  let dq : MMintQ := default
  let dl : MMeltQ := default
  let r ← loopM (0, dq, dl) 100 (0, dq, dl) (fun st => do
    let mintAmountRequest := cx.sel.swapAmount proofsAmt st.1 - fees
    let mq ← subM "RequestMint" (requestMint mintAmountRequest to.mint)
    let lq ← cTry (.cMeltQuote from_.mint (.mq to.mint mq.id mintAmountRequest))
    if lq.amount + lq.feeReserve + fees > proofsAmt then pure ((st.1 + 1, mq, lq), true)
    else pure ((st.1, mq, lq), false))
  let (_, mq, lq) := r
  let ans ← cTry (.cMelt from_.mint lq.id proofs [])
  let minted ← whenM (ans.state == .paid) (subM "MintTokens" (mintTokens cx mq.id)) 0
  if ans.state == .paid then pure minted else throw "mint-could-not-pay"

/-- `swapToTrusted(proofs, mint)`; `mm` describes the token's (untrusted) mint. -/
def swapToTrusted (cx : Cx) (proofs : List WProof) (mm : MemMint) : PM UInt64 := do
  let sigAll := match proofs.head? with
    | some p => (match p.lock with | some l => l.sigAll | none => false)
    | none => false
  let proofsToSwap ← whenM sigAll
    (do let req ← subM "createSwapRequest" (createSwapRequest cx proofs mm)
        let outs ← pureSub "nut11.AddSignatureToOutputs" (signOutputs cx.seed req.outputs)
        subM "swap" (swap mm.mint { req with outputs := outs })) proofs
  let mem ← eff .memGet
  subM "swapProofs" (swapProofs cx proofsToSwap mm (memMint mem mem.defaultMint))

/-- keyset ids in order of first occurrence -/
def firstOccurrences (l : List KsId) : List KsId := l.foldl (fun acc x => if acc.contains x then acc else acc ++ [x]) []

/-- `verifyProofsDLEQ(proofs, mintURL, activeKeyset)` (F19, repaired in /repo 3f789a7: the code used to verify EVERY
    DLEQ proof against the keys of the ACTIVE keyset, `proofs.all (fun p => !p.dleq || p.ks == keyset.id)`, so a token of
    an older keyset was refused as "invalid DLEQ proof" after a rotation): each DLEQ proof is verified against the keys
    of the proof's OWN keyset; the keys of a keyset other than the active one are fetched from the mint, once per
    keyset, at its first proof.  The DLEQ proofs themselves are the honest mint's (valid under their keyset's keys). -/
def verifyProofsDLEQ (mi : Nat) (active : KsId) (proofs : List WProof) : PM Unit :=
  forEachM (0 : KsId) (firstOccurrences ((proofs.filter (fun p => p.dleq && p.ks != active)).map (·.ks)))
    (fun ks => cTry (.cKeysetById mi ks))

/-- `Receive(token, swapToTrusted)`. -/
def receive (cx : Cx) (tokenMint : Nat) (proofs : List WProof) (swapTrusted : Bool) : PM UInt64 := do
  let keyset ← subM "getActiveKeyset" (getActiveKeyset tokenMint)
  subM "verifyProofsDLEQ" (verifyProofsDLEQ tokenMint keyset.id proofs)
  let lock := match proofs.head? with | some p => p.lock | none => none
  if (match lock with | some l => l.owner != cx.seed | none => false) then throw "cannot-sign"
  let proofsToSwap ← whenM lock.isSome
    (pureSub "nut11.AddSignatureToInputs" (proofs.map (fun p => { p with wit := some cx.seed }))) proofs
  let mem ← eff .memGet
  let swapTrusted := if mem.mints.any (·.mint == tokenMint) && tokenMint == mem.defaultMint then false else swapTrusted
  iteM swapTrusted
    (do let inactive ← subM "" (getMintInactiveKeysets tokenMint)
        subM "swapToTrusted" (swapToTrusted cx proofsToSwap { mint := tokenMint, active := keyset, inactive := inactive }))
    (do let known := mem.mints.find? (·.mint == tokenMint)
        let added ← whenM known.isNone (subM "AddMint" (addMint tokenMint)) (zeroMint tokenMint)
        let mem' ← eff .memGet
        let mm := match known with | some _ => memMint mem' tokenMint | none => added
        let req ← subM "createSwapRequest" (createSwapRequest cx proofsToSwap mm)
        let sigAll := match lock with | some l => l.sigAll | none => false
        let outs ← whenM sigAll (pureSub "nut11.AddSignatureToOutputs" (signOutputs cx.seed req.outputs)) req.outputs
        let newProofs ← subM "swap" (swap tokenMint { req with outputs := outs })
        if !(← eff (.incCounter req.keyset.id outs.length)) then throw "increment-counter"
        eff (.saveProofs newProofs)
        pure (proofsAmount newProofs))
    0

/-! ### melting -/

/-- `RequestMeltQuote(request, mint)`. -/
def requestMeltQuote (inv : InvRef) (mi : Nat) : PM MMeltQ := do
  let mem ← eff .memGet
  if !mem.mints.any (·.mint == mi) then throw "mint-not-exist"
  let q ← cTry (.cMeltQuote mi inv)
  eff (.saveMeltQuote { id := q.id, mint := mi, amount := q.amount, feeReserve := q.feeReserve, state := q.state })
  pure q

def stripDleq (p : WProof) : WProof := { p with dleq := false }

/-- `CheckMeltQuoteState(quoteId)`. -/
def checkMeltQuoteState (quoteId : Nat) : PM MeltAns := do
  match ← eff (.getMeltQuote quoteId) with
  | none => throw "quote-not-found"
  | some quote =>
    let resp ← cTry (.cMeltQuoteState quote.mint quoteId)
    whenM (quote.state != .paid)
      (iteM (resp.state == .paid)
        (do -- NOTE: `quote.State` itself is not set to Paid
            eff (.saveMeltQuote quote)
            let pendingProofs ← eff (.getPendingByQuote quoteId)
            let keysetId := match pendingProofs.head? with | some x => x.p.ks | none => noKs
            eff (.deletePendingByQuote quoteId)
            whenM (resp.change.length > 0)
              (do if !(← eff (.incCounter keysetId resp.change.length)) then throw "increment-counter") ())
        (whenM (resp.state == .unpaid)
          (do let pendingProofs ← eff (.getPendingByQuote quoteId)
              whenM (pendingProofs.length > 0)
                (do eff (.deletePendingByQuote quoteId)
                    eff (.saveProofs (pendingProofs.map (fun x => { x.p with wit := none })))) ()
              eff (.saveMeltQuote { quote with state := resp.state })) ())
        ()) ()
    pure resp

/-- `calculateBlankOutputs` blank outputs, amount 0, from `counter`. -/
def blankOutputs (seed : Nat) (ks : KsId) (counter : Nat) (feeReserve : UInt64) : List Out :=
  mkOutputs seed ks counter (List.replicate (Select.calculateBlankOutputs feeReserve) 0)

/-- `Melt(quoteId)`; `lnErr`: the mint answers failures with the NUT-05 `LightningPaymentErrCode` (this
    repository's mint never does). -/
def melt (cx : Cx) (quoteId : Nat) : PM MeltAns := do
  match ← eff (.getMeltQuote quoteId) with
  | none => throw "quote-not-found"
  | some quote =>
    if quote.state == .paid then throw "already-paid"
    whenM (quote.state == .pending)
      (do let st ← subM "CheckMeltQuoteState" (checkMeltQuoteState quoteId)
          if st.state == .pending then throw "still-pending"
          if st.state == .paid then throw "already-paid") ()
    let mem ← eff .memGet
    let mm := memMint mem quote.mint
    let amountNeeded := quote.amount + quote.feeReserve
    let proofs ← subM "getProofsForAmount" (getProofsForAmount cx amountNeeded mm true)
    eff (.addPendingByQuote proofs quote.id)
    let activeKeyset ← subM "getActiveKeyset" (getActiveKeyset mm.mint)
    let counter ← counterForKeyset activeKeyset.id
    let outputs ← pureSub "createBlindedMessages" (blankOutputs cx.seed activeKeyset.id counter quote.feeReserve)
    let r ← eff (.cMelt mm.mint quote.id proofs outputs)
    let isErr := match r with | .error _ => true | .ok _ => false
    let isLnErr := match r with | .error (.mint 20004) => true | _ => false
    whenM isErr
      (do whenM isLnErr (do eff (.saveProofs proofs); eff (.deletePendingByQuote quote.id)) ()
          throw (match r with | .error (.mint c) => s!"melt-mint-{c}" | _ => "melt-net")) ()
    let resp : MeltAns := match r with | .ok a => a | .error _ => default
    blockM "switch{" "}" true
      (do blockM "case nut05.Unpaid{" "}" (resp.state == .unpaid)
            (do eff (.saveProofs proofs); eff (.deletePendingByQuote quote.id)) ()
          blockM "case nut05.Pending{" "}" (resp.state == .pending)
            (eff (.saveMeltQuote { quote with state := .pending })) ()
          blockM "case nut05.Paid{" "}" (resp.state == .paid)
            (do eff (.deletePendingByQuote quote.id)
                eff (.saveMeltQuote { quote with state := .paid })
                let change := resp.change.length
                whenM (change > 0)
                  (do match ← pureSub "constructProofs" (constructProofs resp.change (outputs.take change)) with
                      | none => throw "construct-proofs"
                      | some changeProofs =>
                        eff (.saveProofs changeProofs)
                        if !(← eff (.incCounter activeKeyset.id change)) then throw "increment-counter") ()) ()) ()
    pure resp

/-! ### pending proofs -/

/-- `pendingProofsByMint`: pending proofs grouped by the trusted mint whose keyset they are of. -/
def pendingProofsByMint : PM (List (Nat × List PProof)) := do
  let pend ← eff .getPending
  let mem ← eff .memGet
  pure ((mem.mints.map (fun mm =>
    (mm.mint, pend.filter (fun x => x.p.ks == mm.active.id || mm.inactive.any (·.id == x.p.ks))))).filter (fun g => !g.2.isEmpty))

/-- `RemoveSpentProofs()`. -/
def removeSpentProofs : PM Unit := do
  let groups ← subM "" pendingProofsByMint
  forEachM (0, ([] : List PProof)) groups (fun g => do
    let states ← cTry (.cCheckState g.1 (g.2.map (·.p.secret)))
    let ysToDelete := ((g.2.zip states).filter (fun xs => xs.2 == .spent)).map (·.1.p.secret)
    eff (.deletePending ysToDelete))

/-- `ReclaimUnspentProofs()`. -/
def reclaimUnspentProofs (cx : Cx) : PM UInt64 := do
  let groups ← subM "" pendingProofsByMint
  let r ← loopM ([(0, ([] : List PProof))], (0 : UInt64)) groups.length (groups, (0 : UInt64)) (fun st => match st with
    | ([], acc) => pure (([], acc), false)
    | (g :: rest, acc) => do
      let states ← cTry (.cCheckState g.1 (g.2.map (·.p.secret)))
      let toReclaim := ((g.2.zip states).filter (fun xs => xs.2 == .unspent)).map (fun xs => ({ stripDleq xs.1.p with wit := none } : WProof))
      let got ← whenM (toReclaim.length > 0)
        (do let mem ← eff .memGet
            let mm := memMint mem g.1
            let req ← subM "createSwapRequest" (createSwapRequest cx toReclaim mm)
            let newProofs ← subM "swap" (swap g.1 req)
            if !(← eff (.incCounter req.keyset.id req.outputs.length)) then throw "increment-counter"
            eff (.saveProofs newProofs)
            eff (.deletePending (toReclaim.map (·.secret)))
            pure (some (proofsAmount newProofs))) none
      pure ((rest, match got with | some a => a | none => acc), !rest.isEmpty))
  pure r.2

/-! ### swapping between mints -/

/-- `GetBalanceByMints()`. -/
def getBalanceByMints : PM (List (Nat × UInt64)) := do
  let mem ← eff .memGet
  let r ← loopM ([zeroMint 0], ([] : List (Nat × UInt64))) mem.mints.length (mem.mints, []) (fun st => match st with
    | ([], acc) => pure (([], acc), false)
    | (mm :: rest, acc) => do
      let act ← eff (.getProofsByKs mm.active.id)
      let ina ← forCollectM (default : KsRow) mm.inactive (fun k => eff (.getProofsByKs k.id))
      pure ((rest, acc ++ [(mm.mint, proofsAmount act + proofsAmount ina)]), !rest.isEmpty))
  pure r.2

/-- `MintSwap(amount, from, to)`. -/
def mintSwap (cx : Cx) (amount : UInt64) (from_ to : Nat) : PM UInt64 := do
  let mem ← eff .memGet
  match mem.mints.find? (·.mint == from_), mem.mints.find? (·.mint == to) with
  | some fromMint, some toMint =>
    let bal ← subM "" getBalanceByMints
    let fromBal := match bal.find? (·.1 == from_) with | some b => b.2 | none => 0
    if fromBal < amount then throw "insufficient-mint-balance"
    let proofsToSwap ← subM "getProofsForAmount" (getProofsForAmount cx amount fromMint true)
    subM "swapProofs" (swapProofs cx proofsToSwap fromMint toMint)
  | _, _ => throw "mint-not-exist"

/-! ### restore -/

structure BatchSt where
  counter : Nat := 0
  saved : Nat := 0
  empty : Nat := 0
  restored : List WProof := []
  deriving Inhabited

/-- The proofs a batch of Restore unblinds, with the state the mint reports for each. -/
def batchProofs (sigs : List Sig) (states : List PState) : List (WProof × PState) :=
  (sigs.zip states).map (fun ss =>
    (({ secret := ss.1.out, amount := ss.1.amount, ks := ss.1.ks, dleq := false } : WProof), ss.2))

def batchUnspent (sigs : List Sig) (states : List PState) : List WProof :=
  ((batchProofs sigs states).filter (·.2 == .unspent)).map (·.1)

def batchPending (sigs : List Sig) (states : List PState) : List WProof :=
  ((batchProofs sigs states).filter (·.2 == .pending)).map (·.1)

/-- One iteration of Restore's batch loop for keyset `k` of mint `mi`. -/
def restoreBatch (cx : Cx) (mi : Nat) (k : KsInfo) (fixed : Bool) (b : BatchSt) : PM (BatchSt × Bool) := do
  let outs : List SId := (List.range 100).map (fun i => SId.det cx.seed k.id (b.counter + i))
  forEachM 0 (List.range 100) (fun _ => do let _ ← pureSub "generateDeterministicSecret" (); pure ())
  let counter := b.counter + 100
  let sigs ← cTry (.cRestore mi outs)
  if sigs.isEmpty then pure ({ b with counter := counter, empty := b.empty + 1 }, decide (b.empty + 1 < 3))
  else
    let states ← cTry (.cCheckState mi (sigs.map (·.out)))
    let restored := b.restored ++ batchUnspent sigs states
    let pending := batchPending sigs states
    eff (.saveProofs restored)
    whenM (pending.length > 0) (eff (.addPending pending)) ()
    if !(← eff (.incCounter k.id (if fixed then counter - b.saved else counter))) then throw "increment-counter"
    pure ({ counter := counter, saved := counter, empty := 0, restored := restored }, true)

/-- Restore's batch loop for one keyset: until three batches in a row are empty. -/
def restoreKeyset (cx : Cx) (mi : Nat) (k : KsInfo) (fixed : Bool) (maxBatches : Nat) (acc : List WProof) : PM BatchSt :=
  loopM ({ restored := acc } : BatchSt) maxBatches ({ restored := acc } : BatchSt) (restoreBatch cx mi k fixed)

/-- `Restore(walletPath, mnemonic, mintsToRestore)` into an empty store.  `fixed = false` is the code before
    the `fix:` commit (the cumulative counter is added after every non-empty batch). -/
def restore (cx : Cx) (mints : List Nat) (fixed : Bool := true) (maxBatches : Nat := 1000) : PM UInt64 := do
  eff .saveSeed
  let all ← loopM ([0], ([] : List WProof)) mints.length (mints, ([] : List WProof)) (fun st => match st with
    | ([], acc) => pure (([], acc), false)
    | (mi :: rest, acc0) => do
      cTry (.cInfo mi)
      let kss ← cTry (.cKeysets mi)
      let acc ← loopM ([(default : KsInfo)], acc0) kss.length (kss, acc0) (fun ks => match ks with
        | ([], acc) => pure (([], acc), false)
        | (k :: krest, acc1) => do
          subM "" (cTry (.cKeysetById mi k.id))
          eff (.saveKeyset { mint := mi, id := k.id, active := k.active, ppk := 0, counter := 0 })
          let b ← restoreKeyset cx mi k fixed maxBatches acc1
          pure ((krest, b.restored), !krest.isEmpty))
      pure ((rest, acc.2), !rest.isEmpty))
  eff .close
  pure (proofsAmount all.2)

/-! ### the control skeleton of Restore's batch loop (pure)

`nonEmpty b`: the mint returns at least one signature for batch `b` (counters `100·b … 100·b+99`).  The loop
visits batches in order until three in a row are empty; after every non-empty batch it calls
`IncrementKeysetCounter(id, counter - savedCounter)` (before the `fix:` commit: `(id, counter)`, the cumulative
counter).  `Gonuts/Lemmas/WalletBooksRestore.lean` proves what this computes and that the `restore` program's
loop follows it. -/

structure Scan where
  /-- next batch to ask for -/
  batch : Nat := 0
  /-- `emptyBatches` -/
  empty : Nat := 0
  /-- `savedCounter` -/
  saved : Nat := 0
  /-- the stored keyset counter -/
  stored : Nat := 0
  deriving DecidableEq, Repr, Inhabited

def scanStep (nonEmpty : Nat → Bool) (fixed : Bool) (s : Scan) : Scan :=
  let counter := 100 * (s.batch + 1)
  if nonEmpty s.batch then
    { batch := s.batch + 1, empty := 0, saved := counter,
      stored := s.stored + (if fixed then counter - s.saved else counter) }
  else { s with batch := s.batch + 1, empty := s.empty + 1 }

def scan (nonEmpty : Nat → Bool) (fixed : Bool) : Nat → Scan → Scan
  | 0, s => s
  | fuel + 1, s => if s.empty < 3 then scan nonEmpty fixed fuel (scanStep nonEmpty fixed s) else s

/-- Batch `b` of (seed, keyset) has a signed output at the mint. -/
def batchSigned (m : MintView) (seed : Nat) (ks : KsId) (b : Nat) : Bool :=
  (List.range 100).any (fun i => m.isSigned (.det seed ks (100 * b + i)))

/-! ## operations of a history -/

inductive Op where
  /-- `RequestMint` -/
  | mintReq (w mint : Nat) (amount : UInt64)
  /-- the invoice of a mint quote is paid (by the harness's outside node) -/
  | settle (mint quote : Nat)
  | mintTokens (w quote : Nat)
  | send (w mint : Nat) (amount : UInt64) (fees : Bool)
  | sendLocked (w mint : Nat) (amount : UInt64) (owner : Nat) (sigAll fees : Bool)
  /-- `Receive` of token `tok`; `strip`: the token carries no DLEQ proofs -/
  | receive (w tok : Nat) (swapTrusted strip : Bool) (script : List LnAns)
  /-- `RequestMeltQuote` for a fresh invoice of an outside node over `amount` sat -/
  | meltQuote (w mint : Nat) (amount : UInt64)
  | melt (w quote : Nat) (script : List LnAns)
  | checkMelt (w quote : Nat) (script : List LnAns)
  | removeSpent (w : Nat) (script : List LnAns)
  | reclaim (w : Nat) (script : List LnAns)
  | mintSwap (w : Nat) (amount : UInt64) (from_ to : Nat) (script : List LnAns)
  /-- `Mint.RotateKeyset(fee)` -/
  | rotate (mint : Nat) (newKs : KsId) (ppk : UInt64)
  /-- the wallet process restarts on its store (`LoadWallet`) -/
  | reopen (w : Nat)
  | addMint (w mint : Nat)
  /-- `Restore` from the mnemonic into an EMPTY store which then is wallet `w`'s, followed by `LoadWallet` -/
  | restore (w : Nat) (mints : List Nat)
  deriving Repr, Inhabited

inductive Res where
  | ok (n : UInt64)
  | err (e : String)
  deriving DecidableEq, Repr, Inhabited

/-- The wallet program of an operation (`none`: not a wallet call). -/
def opProg (sel : Sel) (w : World) : Op → Option (Nat × PM UInt64)
  | .mintReq wi mi a => some (wi, do let q ← requestMint a mi; pure (UInt64.ofNat q.id))
  | .settle _ _ => none
  | .mintTokens wi q => some (wi, mintTokens { wi := wi, seed := (w.wallet wi).seed, sel := sel } q)
  | .send wi mi a f => some (wi, do
      let ps ← send { wi := wi, seed := (w.wallet wi).seed, sel := sel } a mi f; pure (proofsAmount ps))
  | .sendLocked wi mi a owner sa f => some (wi, do
      let ps ← sendToPubkey { wi := wi, seed := (w.wallet wi).seed, sel := sel } a mi { owner := owner, sigAll := sa } f
      pure (proofsAmount ps))
  | .receive wi tok st strip _ =>
    match w.tokens.find? (·.id == tok) with
    | none => none
    | some t => some (wi, receive { wi := wi, seed := (w.wallet wi).seed, sel := sel } t.mint
        (if strip then t.proofs.map stripDleq else t.proofs) st)
  | .meltQuote wi mi a => some (wi, do
      let n ← eff .fresh
      let q ← requestMeltQuote (.ext n a) mi; pure (UInt64.ofNat q.id))
  | .melt wi q _ => some (wi, do
      let a ← melt { wi := wi, seed := (w.wallet wi).seed, sel := sel } q
      pure (match a.state with | .unpaid => 0 | .pending => 1 | .paid => 2))
  | .checkMelt wi q _ => some (wi, do
      let a ← checkMeltQuoteState q
      pure (match a.state with | .unpaid => 0 | .pending => 1 | .paid => 2))
  | .removeSpent wi _ => some (wi, do removeSpentProofs; pure 0)
  | .reclaim wi _ => some (wi, reclaimUnspentProofs { wi := wi, seed := (w.wallet wi).seed, sel := sel })
  | .mintSwap wi a f t _ => some (wi, mintSwap { wi := wi, seed := (w.wallet wi).seed, sel := sel } a f t)
  | .rotate _ _ _ => none
  | .reopen wi => some (wi, do loadWallet (w.wallet wi).mem.defaultMint; pure 0)
  | .addMint wi mi => some (wi, do let _ ← addMint mi; pure 0)
  | .restore wi mints => some (wi, do
      let a ← restore { wi := wi, seed := (w.wallet wi).seed, sel := sel } mints
      loadWallet (w.wallet wi).mem.defaultMint
      pure a)

def opScript : Op → List LnAns
  | .receive _ _ _ _ s => s
  | .melt _ _ s => s
  | .checkMelt _ _ s => s
  | .removeSpent _ s => s
  | .reclaim _ s => s
  | .mintSwap _ _ _ _ s => s
  | _ => []

/-- State changes of an operation that are not calls of the wallet (before its program runs). -/
def opPre (w : World) : Op → World
  | .settle mi q => w.setMint mi ((w.mint mi).setMintQ q .paid)
  | .rotate mi ks ppk => w.setMint mi ((w.mint mi).rotate ks ppk)
  | .reopen wi => w.setWallet wi { w.wallet wi with mem := { defaultMint := (w.wallet wi).mem.defaultMint } }
  | .restore wi _ =>
    w.setWallet wi { seed := (w.wallet wi).seed, db := {}, mem := { defaultMint := (w.wallet wi).mem.defaultMint } }
  | _ => w

def resOf : Except WErr UInt64 → Res
  | .ok n => .ok n
  | .error e => .err e

/-- One operation of a sequential, fault-free history. -/
def applyOp (sel : Sel) (w : World) (op : Op) : World × Res :=
  let w0 := { (opPre w op) with script := opScript op }
  match opProg sel w0 op with
  | none => (w0, .ok 0)
  | some (wi, p) =>
    let r := p.run.run wi w0
    (r.1, resOf r.2)

def runHist (sel : Sel) (w : World) (ops : List Op) : World := ops.foldl (fun acc op => (applyOp sel acc op).1) w

/-- The operation is cut after `n` calls: the wallet process dies before call number `n` (its memory is lost;
    a later `reopen` starts it again).  `none` result: it died. -/
def applyOpN (sel : Sel) (w : World) (op : Op) (n : Nat) : World × Option Res :=
  let w0 := { (opPre w op) with script := opScript op }
  match opProg sel w0 op with
  | none => (w0, some (.ok 0))
  | some (wi, p) =>
    match p.run.runN wi n w0 with
    | (w', some r, _) => (w', some (resOf r))
    | (w', none, _) => (w', none)

/-- The calls the operation makes when it runs to the end (the driver's answer to the harness's trace). -/
def opLabels (sel : Sel) (w : World) (op : Op) : List String :=
  let w0 := { (opPre w op) with script := opScript op }
  match opProg sel w0 op with
  | none => []
  | some (wi, p) => (p.run.runL wi w0).2.2

/-- Number of calls the operation makes when it runs to the end. -/
def opCalls (sel : Sel) (w : World) (op : Op) : Nat := (opLabels sel w op).length

/-! ## initial worlds -/

def newMint (ks : KsId) (ppk : UInt64) (feePct : Bool := true) : MintView :=
  { keysets := [{ id := ks, ppk := ppk, active := true }], feePct := feePct }

/-- Mints with one active keyset each (ids `100 * i`), wallets `(seed, default mint)` loaded on empty stores. -/
def initWorld (sel : Sel) (fees : List UInt64) (wallets : List (Nat × Nat)) : World :=
  let w0 : World := {
    mints := (fees.zip (List.range fees.length)).map (fun fi => newMint (100 * fi.2) fi.1)
    wallets := wallets.map (fun sh => { seed := sh.1, mem := { defaultMint := sh.2 } }) }
  (List.range wallets.length).foldl (fun acc wi => (applyOp sel acc (.reopen wi)).1) w0

/-! ## observation functions (what the properties talk about) -/

def getBalance (x : Wallet) : UInt64 := proofsAmount x.db.proofs
def pendingBalance (x : Wallet) : UInt64 := amountWrap (x.db.pending.map (·.p.amount))

/-! ### the properties as executable predicates on a world -/

/-- the mint that has keyset `ks` -/
def World.mintOfKs (w : World) (ks : KsId) : Option Nat := (List.range w.mints.length).find? (fun i => (w.mint i).hasKs ks)

def Wallet.held (x : Wallet) : List WProof := x.db.proofs ++ x.db.pending.map (·.p)

/-- W_balance (second half): every spendable proof is a genuine proof that is UNSPENT at its mint. -/
def wBalance (w : World) : Bool :=
  w.wallets.all (fun x => x.db.proofs.all (fun p =>
    match w.mintOfKs p.ks with
    | some mi => (w.mint mi).genuine p && (w.mint mi).stateOf p.secret == .unspent
    | none => false))

/-- W_distinct: the spendable and pending buckets of all wallets hold pairwise distinct secrets. -/
def wDistinct (w : World) : Bool := !MintView.dupSecrets (w.wallets.flatMap (fun x => x.held.map (·.secret)))

def heldSomewhere (w : World) (s : SId) : Bool :=
  w.wallets.any (fun x => x.held.any (·.secret == s)) || w.tokens.any (fun t => t.proofs.any (·.secret == s))

/-- W_conserve (no value lost): every output a mint signed and has not seen spent is in a wallet bucket or in a
    value returned to a caller. -/
def wConserve (w : World) : Bool :=
  w.mints.all (fun m => m.sigs.all (fun sg => m.isSpent sg.out || heldSomewhere w sg.out))

/-- W_pending: a pending proof was handed out by `Send` (it is in a token of this wallet) or is locked by a melt
    quote of this wallet; a proof handed out by `Send` is pending until the mint has seen it spent. -/
def wPending (w : World) : Bool :=
  (List.range w.wallets.length).all (fun wi =>
    let x := w.wallet wi
    x.db.pending.all (fun e =>
      match e.quote with
      | some q => x.db.meltQ.any (·.id == q)
      | none => w.tokens.any (fun t => t.sender == some wi && t.proofs.any (·.secret == e.p.secret))) &&
    w.tokens.all (fun t => t.sender != some wi || t.proofs.all (fun p =>
      x.db.pending.any (·.p.secret == p.secret) || (w.mint t.mint).isSpent p.secret)))

/-- counter_discipline: no request ever contained an output that was already signed, and every stored counter
    is past every signed counter of (seed, keyset). -/
def cDiscipline (w : World) : Bool :=
  w.mints.all (fun m => m.reuse.isEmpty) &&
  w.wallets.all (fun x => x.db.keysets.all (fun r =>
    (w.mint r.mint).sigs.all (fun sg =>
      match sg.out with
      | .det seed ks c => !(seed == x.seed && ks == r.id) || decide (c < r.counter)
      | .rnd _ => true)))

/-- the same for the keysets that are active at their mint (what survives the stale write-back on rotation) -/
def cDisciplineActive (w : World) : Bool :=
  w.mints.all (fun m => m.reuse.isEmpty) &&
  w.wallets.all (fun x => x.db.keysets.all (fun r =>
    !(w.mint r.mint).isActive r.id ||
    (w.mint r.mint).sigs.all (fun sg =>
      match sg.out with
      | .det seed ks c => !(seed == x.seed && ks == r.id) || decide (c < r.counter)
      | .rnd _ => true)))

/-- value of the seed's signed outputs that are unspent or locked at the mints -/
def seedTruth (w : World) (seed : Nat) : Nat :=
  (w.mints.map (fun m => ((m.sigs.filter (fun sg =>
    (match sg.out with | .det s _ _ => s == seed | .rnd _ => false) && !m.isSpent sg.out)).map (·.amount.toNat)).sum)).sum

def walletValue (x : Wallet) : Nat := (x.held.map (·.amount.toNat)).sum

/-- the default selection: `Model.Select` with the stable sorter -/
def selStable : Sel where
  toSend sm ps amount fees :=
    let idx := (ps.zip (List.range ps.length)).map (fun pi => ({ amount := pi.1.amount, ks := pi.1.ks, uid := pi.2 } : Select.P))
    match Select.selectProofsToSend Select.stableSorter sm idx amount fees with
    | .ok chosen => some (chosen.filterMap (fun q => ps[q.uid]?))
    | _ => none
  split := Select.splitWalletTarget
  swapAmount := swapAmountAt

/-- selection replaying the implementation's tie-breaking: `chosen` = the secrets it picked, in order -/
def selOracle (chosen : List SId) : Sel where
  toSend sm ps amount fees :=
    let idx := (ps.zip (List.range ps.length)).map (fun pi => ({ amount := pi.1.amount, ks := pi.1.ks, uid := pi.2 } : Select.P))
    let uids := chosen.filterMap (fun s => ps.findIdx? (·.secret == s))
    match Select.selectProofsToSend (Select.oracleSorter uids) sm idx amount fees with
    | .ok sel => some (sel.filterMap (fun q => ps[q.uid]?))
    | _ => none
  split := Select.splitWalletTarget
  swapAmount := swapAmountAt

end Gonuts.Model.WalletBooks
