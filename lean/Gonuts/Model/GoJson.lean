/-!
  Model.GoJson — an executable model of the part of Go's `encoding/json` that the NUT-10 code relies on:
  the JSON grammar (RFC 8259, as `encoding/json`'s scanner accepts it: `checkValid` runs over the WHOLE input before
  anything is decoded) and string unquoting (`unquote`: escapes, `\uXXXX`, UTF-16 surrogate pairs, U+FFFD for a lone
  surrogate).  Core Lean only.

  Both passes are STATE MACHINES over the input, by structural recursion on the list of characters resp. tokens (no fuel,
  no well-founded recursion) — like the scanner in `encoding/json/scanner.go`, which is a step function with an explicit
  stack of open containers.  So every function here reduces in the kernel and the theorems of `Lemmas/Nut10Parse.lean`
  are plain inductions over the input.

  Not modelled: the nesting limit of 10 000 (`maxNestingDepth`), invalid UTF-8 (a Lean `String` is a sequence of
  Unicode scalar values; Go replaces invalid bytes inside strings by U+FFFD).
-/
namespace Gonuts.Model.GoJson

/-- JSON values; numbers are not evaluated (no target type in scope is numeric). -/
inductive JV where
  | null
  | bool (b : Bool)
  | num
  | str (s : String)
  | arr (xs : List JV)
  | obj (kvs : List (String × JV))
  deriving Repr, Inhabited

/-- insignificant whitespace: exactly these four (scanner.go `isSpace`) -/
def isWs (c : Char) : Bool := c == ' ' || c == '\t' || c == '\r' || c == '\n'

/-! ## lexer -/

inductive Tok where
  | lbrack | rbrack | lbrace | rbrace | comma | colon
  | str (raw : List Char)          -- the text between the quotes, escapes not yet decoded
  | num | tru | fls | null
  deriving DecidableEq, Repr, Inhabited

/-- where we are inside a number literal -/
inductive NumSt where
  | minus | zero | int | dot | frac | e | esign | exp
  deriving DecidableEq, Repr

def NumSt.accepting : NumSt → Bool
  | .zero | .int | .frac | .exp => true
  | _ => false

def isDigit (c : Char) : Bool := '0' ≤ c && c ≤ '9'
def isDigit19 (c : Char) : Bool := '1' ≤ c && c ≤ '9'
def isE (c : Char) : Bool := c == 'e' || c == 'E'

/-- one more character of a number literal; `none`: the character does not continue the literal -/
def numNext : NumSt → Char → Option NumSt
  | .minus, c => if c == '0' then some .zero else if isDigit19 c then some .int else none
  | .zero, c => if c == '.' then some .dot else if isE c then some .e else none
  | .int, c => if isDigit c then some .int else if c == '.' then some .dot else if isE c then some .e else none
  | .dot, c => if isDigit c then some .frac else none
  | .frac, c => if isDigit c then some .frac else if isE c then some .e else none
  | .e, c => if c == '+' || c == '-' then some .esign else if isDigit c then some .exp else none
  | .esign, c => if isDigit c then some .exp else none
  | .exp, c => if isDigit c then some .exp else none

inductive LexSt where
  | between
  | inStr (acc : List Char) (esc : Bool)     -- acc reversed; esc: the previous character was an unescaped backslash
  | inNum (st : NumSt)
  | inLit (rest : List Char) (t : Tok)       -- the remaining characters of `true` / `false` / `null`
  deriving Repr

/-- a character met between tokens: whitespace, a one-character token, or the start of a longer one -/
def startTok (c : Char) : Option (LexSt × List Tok) :=
  if isWs c then some (.between, [])
  else if c == '[' then some (.between, [.lbrack])
  else if c == ']' then some (.between, [.rbrack])
  else if c == '{' then some (.between, [.lbrace])
  else if c == '}' then some (.between, [.rbrace])
  else if c == ',' then some (.between, [.comma])
  else if c == ':' then some (.between, [.colon])
  else if c == '"' then some (.inStr [] false, [])
  else if c == '-' then some (.inNum .minus, [])
  else if c == '0' then some (.inNum .zero, [])
  else if isDigit19 c then some (.inNum .int, [])
  else if c == 't' then some (.inLit ['r', 'u', 'e'] .tru, [])
  else if c == 'f' then some (.inLit ['a', 'l', 's', 'e'] .fls, [])
  else if c == 'n' then some (.inLit ['u', 'l', 'l'] .null, [])
  else none

/-- the lexer: tokens (reversed accumulator `acc`), `none` = not lexable -/
def lex : LexSt → List Char → List Tok → Option (List Tok)
  | .between, [], acc => some acc.reverse
  | .inNum ns, [], acc => if ns.accepting then some (Tok.num :: acc).reverse else none
  | .inStr _ _, [], _ => none
  | .inLit _ _, [], _ => none
  | .between, c :: cs, acc =>
    match startTok c with
    | some (st, ts) => lex st cs (ts ++ acc)
    | none => none
  | .inStr a esc, c :: cs, acc =>
    if esc then lex (.inStr (c :: a) false) cs acc
    else if c == '"' then lex .between cs (Tok.str a.reverse :: acc)
    else if c == '\\' then lex (.inStr (c :: a) true) cs acc
    else if c.toNat < 0x20 then none
    else lex (.inStr (c :: a) false) cs acc
  | .inNum ns, c :: cs, acc =>
    match numNext ns c with
    | some ns' => lex (.inNum ns') cs acc
    | none =>
      if ns.accepting then
        match startTok c with
        | some (st, ts) => lex st cs (ts ++ Tok.num :: acc)
        | none => none
      else none
  | .inLit [] _, _ :: _, _ => none
  | .inLit [r] t, c :: cs, acc => if c == r then lex .between cs (t :: acc) else none
  | .inLit (r :: r2 :: rest) t, c :: cs, acc => if c == r then lex (.inLit (r2 :: rest) t) cs acc else none

def tokens (s : List Char) : Option (List Tok) := lex .between s []

/-! ## string unquoting (`encoding/json` `unquote`) -/

def hexVal? (c : Char) : Option Nat :=
  if '0' ≤ c ∧ c ≤ '9' then some (c.toNat - '0'.toNat)
  else if 'a' ≤ c ∧ c ≤ 'f' then some (c.toNat - 'a'.toNat + 10)
  else if 'A' ≤ c ∧ c ≤ 'F' then some (c.toNat - 'A'.toNat + 10)
  else none

def hex4? (a b c d : Char) : Option Nat :=
  match hexVal? a, hexVal? b, hexVal? c, hexVal? d with
  | some w, some x, some y, some z => some (((w * 16 + x) * 16 + y) * 16 + z)
  | _, _, _, _ => none

/-- a decoded unit of a string: a character, or a UTF-16 surrogate code unit written as `\uD800`..`\uDFFF` -/
inductive Unit16 where
  | ch (c : Char)
  | sur (u : Nat)
  deriving Repr

def isSurrogate (u : Nat) : Bool := 0xD800 ≤ u && u < 0xE000

/-- pass 1: decode the escapes; `none` = an escape the grammar does not allow -/
def unescape : List Char → Option (List Unit16)
  | [] => some []
  | '\\' :: 'u' :: a :: b :: c :: d :: rest =>
    match hex4? a b c d, unescape rest with
    | some u, some r => some ((if isSurrogate u then Unit16.sur u else Unit16.ch (Char.ofNat u)) :: r)
    | _, _ => none
  | '\\' :: e :: rest =>
    let one (c : Char) : Option (List Unit16) := (unescape rest).map (Unit16.ch c :: ·)
    if e == '"' then one '"' else if e == '\\' then one '\\' else if e == '/' then one '/'
    else if e == 'b' then one (Char.ofNat 8) else if e == 'f' then one (Char.ofNat 12)
    else if e == 'n' then one '\n' else if e == 'r' then one '\r' else if e == 't' then one '\t'
    else none
  | ['\\'] => none
  | c :: rest => (unescape rest).map (Unit16.ch c :: ·)

def replacement : Char := Char.ofNat 0xFFFD

/-- pass 2: a high surrogate followed by a low one is one character; any other surrogate is U+FFFD
    (`utf16.DecodeRune` in `unquote`: the second escape is consumed only when the pair is valid).
    `pend` is a surrogate that has been read and not yet resolved. -/
def combine : Option Nat → List Unit16 → List Char
  | none, [] => []
  | some _, [] => [replacement]
  | none, .ch c :: rest => c :: combine none rest
  | none, .sur u :: rest => combine (some u) rest
  | some _, .ch c :: rest => replacement :: c :: combine none rest
  | some h, .sur l :: rest =>
    if h < 0xDC00 && 0xDC00 ≤ l then Char.ofNat (0x10000 + (h - 0xD800) * 0x400 + (l - 0xDC00)) :: combine none rest
    else replacement :: combine (some l) rest

def unquote (raw : List Char) : Option String := (unescape raw).map (fun us => String.ofList (combine none us))

/-! ## parser: a stack machine over the tokens -/

/-- an open container -/
inductive Frame where
  | arr (done : List JV)                                       -- elements so far, reversed
  | obj (done : List (String × JV)) (key : Option String)      -- members so far, reversed; the key awaiting its value
  deriving Repr

inductive PSt where
  | value            -- a value must follow (start of input, after `,` in an array, after `:`)
  | valueOrClose     -- directly after `[`
  | keyOrClose       -- directly after `{`
  | key              -- after `,` in an object
  | colon            -- after a key
  | afterElem        -- after an element of the innermost array
  | afterMember      -- after a member of the innermost object
  | done (v : JV)    -- the top-level value is complete
  | fail
  deriving Repr

/-- a value is complete: hand it to the innermost open container -/
def finish : List Frame → JV → List Frame × PSt
  | [], v => ([], .done v)
  | .arr d :: rest, v => (.arr (v :: d) :: rest, .afterElem)
  | .obj d (some k) :: rest, v => (.obj ((k, v) :: d) none :: rest, .afterMember)
  | .obj _ none :: rest, _ => (rest, .fail)

def startValue (stack : List Frame) : Tok → List Frame × PSt
  | .lbrack => (.arr [] :: stack, .valueOrClose)
  | .lbrace => (.obj [] none :: stack, .keyOrClose)
  | .str raw => match unquote raw with
    | some s => finish stack (.str s)
    | none => (stack, .fail)
  | .num => finish stack .num
  | .tru => finish stack (.bool true)
  | .fls => finish stack (.bool false)
  | .null => finish stack .null
  | _ => (stack, .fail)

def startKey (stack : List Frame) : Tok → List Frame × PSt
  | .str raw => match unquote raw, stack with
    | some k, .obj d none :: rest => (.obj d (some k) :: rest, .colon)
    | _, _ => (stack, .fail)
  | _ => (stack, .fail)

def pstep (stack : List Frame) (st : PSt) (t : Tok) : List Frame × PSt :=
  match st with
  | .value => startValue stack t
  | .valueOrClose =>
    match t, stack with
    | .rbrack, .arr _ :: rest => finish rest (.arr [])
    | _, _ => startValue stack t
  | .keyOrClose =>
    match t, stack with
    | .rbrace, .obj _ _ :: rest => finish rest (.obj [])
    | _, _ => startKey stack t
  | .key => startKey stack t
  | .colon => if t = .colon then (stack, .value) else (stack, .fail)
  | .afterElem =>
    match t, stack with
    | .comma, _ => (stack, .value)
    | .rbrack, .arr d :: rest => finish rest (.arr d.reverse)
    | _, _ => (stack, .fail)
  | .afterMember =>
    match t, stack with
    | .comma, _ => (stack, .key)
    | .rbrace, .obj d _ :: rest => finish rest (.obj d.reverse)
    | _, _ => (stack, .fail)
  | .done _ => (stack, .fail)
  | .fail => (stack, .fail)

def prun : List Frame → PSt → List Tok → Option JV
  | _, .done v, [] => some v
  | _, _, [] => none
  | stack, st, t :: ts => let r := pstep stack st t; prun r.1 r.2 ts

/-- `json.Valid` + the value: `none` ⇔ `encoding/json` reports a syntax error for this text -/
def parse (s : String) : Option JV :=
  match tokens s.toList with
  | some ts => prun [] .value ts
  | none => none

/-! ## Go's decoding of a JSON value INTO an existing Go value (`Unmarshal` semantics)

  `null` leaves a string as it is and makes a slice nil; a string decodes only from a JSON string, a slice only from an array;
  anything else is an `UnmarshalTypeError` (decoding continues, the error is returned at the end — for every caller in
  scope an error is an error, so it is `none` here).  A slice that already has elements is decoded INTO element by
  element and then cut to the new length (`decodeState.array`), which only matters for a duplicated member name. -/

def intoString (old : String) : JV → Option String
  | .str s => some s
  | .null => some old
  | _ => none

def intoStrings (old : List String) : List JV → Option (List String)
  | [] => some []
  | v :: vs =>
    match intoString (old.headD "") v, intoStrings old.tail vs with
    | some s, some r => some (s :: r)
    | _, _ => none

def intoStringList (old : List String) : JV → Option (List String)
  | .arr xs => intoStrings old xs
  | .null => some []
  | _ => none

def intoStringLists (old : List (List String)) : List JV → Option (List (List String))
  | [] => some []
  | v :: vs =>
    match intoStringList (old.headD []) v, intoStringLists old.tail vs with
    | some s, some r => some (s :: r)
    | _, _ => none

def intoStringListList (old : List (List String)) : JV → Option (List (List String))
  | .arr xs => intoStringLists old xs
  | .null => some []
  | _ => none

/-! ### the same, when the caller IGNORES the error (`json.Unmarshal(witness, &w)` in the NUT-11/14 verifiers)

  An `UnmarshalTypeError` is recorded and decoding goes on: the offending value is skipped and its target keeps what it
  had.  The pair is (what is left behind, no error was recorded). -/

def laxString (old : String) : JV → String × Bool
  | .str s => (s, true)
  | .null => (old, true)
  | _ => (old, false)

def laxStrings (old : List String) : List JV → List String × Bool
  | [] => ([], true)
  | v :: vs =>
    let a := laxString (old.headD "") v
    let r := laxStrings old.tail vs
    (a.1 :: r.1, a.2 && r.2)

def laxStringList (old : List String) : JV → List String × Bool
  | .arr xs => laxStrings old xs
  | .null => ([], true)
  | _ => (old, false)

/-- `foldRune`: the smallest rune of the simple-folding orbit — all that matters against ASCII member names:
    ASCII letters fold to upper case, U+017F (long s) to `S`, U+212A (Kelvin sign) to `K`. -/
def foldChar (c : Char) : Char :=
  if 'a' ≤ c ∧ c ≤ 'z' then Char.ofNat (c.toNat - 32)
  else if c.toNat = 0x17F then 'S'
  else if c.toNat = 0x212A then 'K'
  else c

/-- does the member name `k` select the struct field tagged `f` (exact match, else case-insensitive fold)? -/
def nameIs (k f : String) : Bool := k == f || k.toList.map foldChar == f.toList.map foldChar

end Gonuts.Model.GoJson
