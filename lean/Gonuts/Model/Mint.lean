import Gonuts.Model.MintEff
/-!
  The mint operations of mint/mint.go as programs over the effects of `MintEff`, written to follow
  the Go statement by statement (after the `fix:` commits F1, F2, F3, F4, F11, F14).

  Errors are `(code, name)`: `name` is the `Detail` of the `cashu.Error` variable returned, or a
  short tag for `BuildCashuError` messages (`db`, `ln`, `bad-C-hex`, …; the harness canonicalises the
  real messages to the same tags).  Code 0 / `raw` is a non-cashu `error` value.
-/
namespace Gonuts.Model.Mint

abbrev E := Nat × String
abbrev PM := ExceptT E Prog

def eff {β : Type} (e : Eff β) : PM β := ExceptT.lift (Prog.call e)

/-- A storage call whose every error is reported as the generic DBErrCode. -/
def dbTry {β : Type} (e : Eff (DbRes β)) : PM β := do
  match ← eff e with
  | .ok v => pure v
  | .error _ => throw (1, "db")

/-- `if c { return err }` as a statement (keeps the program a linear chain of binds). -/
def failIf (c : Prop) [Decidable c] (e : E) : PM Unit := if c then throw e else pure ()
/-- The same in the pure `Except` monad (per-proof / per-output checks). -/
def failIfE (c : Prop) [Decidable c] (e : E) : Except E Unit := if c then throw e else pure ()

/-- Propagate a pure check. -/
def liftE {α : Type} (x : Except E α) : PM α := match x with | .ok a => pure a | .error e => throw e
def failOpt (v : Option E) : PM Unit := match v with | some e => throw e | none => pure ()

/-! Error table rows used below (tied to `Gen.errTable` in `Tie/Mint.lean`). -/
def eStandard : E := (10000, "mint is currently unable to process request")
def eUnknownKeyset : E := (12001, "unknown keyset")
def eInvalidBMAmount : E := (10000, "invalid amount in blinded message")
def eInvalidProofAmount : E := (10000, "invalid amount in proof")
def eAlreadySigned : E := (10002, "blinded message already signed")
def eNotPaid : E := (20001, "quote request has not been paid")
def eAlreadyIssued : E := (20002, "quote already issued")
def eMintingDisabled : E := (20003, "minting is disabled")
def eMintAmountExceeded : E := (11006, "max amount for minting exceeded")
def eInvalidSig : E := (20008, "Mint quote with pubkey but no valid signature provided.")
def eOutputsOverQuote : E := (10000, "sum of the output amounts is greater than quote amount")
def eProofUsed : E := (11001, "proof already used")
def eProofPending : E := (11001, "proof is pending")
def eInvalidProof : E := (10003, "invalid proof")
def eSecretTooLong : E := (10004, "secret too long")
def eNoProofs : E := (10003, "no proofs provided")
def eDupProofs : E := (11007, "duplicate inputs")
def eDupOutputs : E := (11008, "duplicate outputs")
def eQuoteNotExist : E := (20009, "quote does not exist")
def eQuotePending : E := (20005, "quote is pending")
def eMeltAlreadyPaid : E := (20006, "quote already paid")
def eMeltAmountExceeded : E := (11006, "max amount for melting exceeded")
def eMeltQuoteExists : E := (20009, "melt quote for payment request already exists")
def eInsufficient : E := (11002, "amount of input proofs is below amount needed for transaction")
def eInactiveKeyset : E := (12002, "requested signature from inactive keyset")
def eSigAllOnlySwap : E := (30001, "SIG_ALL can only be used in /swap operation")

/-! ## Pure helpers -/

/-- An amount the keysets have a key for: 2^i, i < 60 (`GenerateKeyset`, MAX_ORDER = 60). -/
def isKeyAmount (a : UInt64) : Bool :=
  a != 0 && (a &&& (a - 1)) == 0 && a < 0x1000000000000000

def BTerm.sid : BTerm → Nat
  | .pt i => i | .nonhex i => i | .nonpoint i => i

def memFee (mem : Mem) : KsRef → UInt64
  | .known i => match mem.keysets.find? (·.idx == i) with
    | some k => k.fee
    | none => 0
  | .unknown _ => 0

def memHas (mem : Mem) : KsRef → Bool
  | .known i => mem.keysets.any (·.idx == i)
  | .unknown _ => false

/-- `Mint.TransactionFees`. -/
def transactionFees (mem : Mem) (ps : List Proof) : UInt64 :=
  feesOfPpks (ps.map (fun p => memFee mem p.ks))

/-- `cashu.CheckDuplicateProofs`: whole-struct equality (Go map key). -/
def dupProofs : List Proof → Bool
  | [] => false
  | p :: rest => rest.contains p || dupProofs rest

/-- `cashu.CheckDuplicateBlindedMessages` (after F14): by `B_`. -/
def dupOutputs : List BMsg → Bool
  | [] => false
  | m :: rest => rest.any (·.b.sid == m.b.sid) || dupOutputs rest

def Proof.row (p : Proof) : PRow :=
  { y := p.secret, amount := p.amount, ks := p.ks, c := p.c, cEnc := p.cEnc, witness := p.witness }

/-- `nut11.ProofsSigAll` (after F7: a non-NUT-10 secret is skipped). -/
def proofsSigAll (ps : List Proof) : Bool :=
  ps.any (fun p => match p.lock with
    | .plain => false
    | .locked sa _ => sa
    | .nut10other sa => sa)

/-- Error of the NUT-11/14 input verifier for this proof, if any. -/
def lockErr : Lock → Option E
  | .locked _ (some e) => some e
  | _ => none

/-- The per-proof gate of `verifyProofs` (loop body), in source order. -/
def gate (mem : Mem) (p : Proof) : Except E Unit :=
  if p.long then .error eSecretTooLong else
  match p.ks with
  | .unknown _ => .error eUnknownKeyset
  | .known i =>
    if !mem.keysets.any (·.idx == i) then .error eUnknownKeyset else
    if !isKeyAmount p.amount then .error eInvalidProof else
    match lockErr p.lock with
    | some e => .error e
    | none =>
      match p.c with
      | .nonhex _ => .error (10000, "bad-C-hex")
      | .nonpoint _ => .error (10000, "bad-point")
      | .other _ => .error eInvalidProof
      | .sig k a s => if k == i && a == p.amount && s == p.secret then .ok () else .error eInvalidProof

def gateAll (mem : Mem) : List Proof → Except E Unit
  | [] => pure ()
  | p :: rest => do gate mem p; gateAll mem rest

/-- NUT-20 signature carried by a mint request, by provenance. -/
inductive QSig where
  | none
  | garbage
  | signed (key : Nat) (quote : Int) (bs : List Nat)
  deriving DecidableEq, Repr, Inhabited

structure Cx where
  mem : Mem
  cfg : Cfg

/-! ## verifyProofs / signBlindedMessages -/

def verifyProofs (cx : Cx) (ps : List Proof) : PM Unit := do
  failIf (ps.isEmpty) eNoProofs
  let ys := ps.map (fun p => YRef.known p.secret)
  let pending ← dbTry (.getPending ys)
  failIf (!pending.isEmpty) eProofPending
  let used ← dbTry (.getProofsUsed ys)
  failIf (!used.isEmpty) eProofUsed
  failIf (dupProofs ps) eDupProofs
  liftE (gateAll cx.mem ps)

def signOne (mem : Mem) (m : BMsg) : Except E BSig :=
  if !memHas mem m.ks then .error eUnknownKeyset else
  match m.ks with
  | .unknown _ => .error eUnknownKeyset
  | .known i =>
    if i != mem.active then .error eInactiveKeyset else
    if !isKeyAmount m.amount then .error eInvalidBMAmount else
    match m.b with
    | .nonhex _ => .error (10000, "bad-B-hex")
    | .nonpoint _ => .error (10000, "bad-point")
    | .pt b => .ok { b := b, amount := m.amount, ks := i }

def signAll (mem : Mem) : List BMsg → Except E (List BSig)
  | [] => pure []
  | m :: rest => do
    let s ← signOne mem m
    let ss ← signAll mem rest
    pure (s :: ss)

def outAmounts (outs : List BMsg) : List UInt64 := outs.map (·.amount)

/-! ## Quotes -/

def totalBalance : PM UInt64 := do
  let issued ← dbTry .getIssued
  let redeemed ← dbTry .getRedeemed
  pure (amountWrap (issued.map (·.2)) - amountWrap (redeemed.map (·.2)))

/-- Public key field of a mint quote request. -/
inductive PkReq where
  | none | key (k : Nat) | bad
  deriving DecidableEq, Repr, Inhabited

/-- The `MaxBalance` limit check of `RequestMintQuote` (the addition is Go's wrapping `uint64` addition). -/
def checkMaxBalance (cx : Cx) (amount : UInt64) : PM Unit :=
  if cx.cfg.maxBalance > 0 then do
    let balance ← totalBalance
    failIf (balance + amount > cx.cfg.maxBalance) eMintingDisabled
  else pure ()

/-- `Mint.RequestMintQuote`; `qid` is the id the new quote gets (creation order). -/
def requestMintQuote (cx : Cx) (qid : Nat) (amount : UInt64) (unitSat : Bool) (pk : PkReq) : PM MintQ := do
  failIf (!unitSat) (11005, "unit-not-supported")
  failIf (pk == .bad) (10000, "bad-pubkey")
  failIf (cx.cfg.maxMint > 0 && amount > cx.cfg.maxMint) eMintAmountExceeded
  checkMaxBalance cx amount
  match ← eff (.lnCreateInvoice amount) with
  | none => throw (2, "ln")
  | some h =>
    let q : MintQ := { id := qid, amount := amount, hash := h, state := .unpaid,
                       pubkey := match pk with | .key k => some k | _ => none }
    dbTry (.saveMintQuote q)
    -- `go m.checkInvoicePaid`: the watcher's first step is reading the quote back
    let _ ← eff (.getMintQuote qid)
    pure q

/-- `Mint.GetMintQuoteState`. -/
def getMintQuoteState (qid : Int) : PM MintQ := do
  match ← eff (.getMintQuote qid) with
  | .error _ => throw eQuoteNotExist
  | .ok q =>
    if q.state == .unpaid then
      match ← eff (.lnInvoiceStatus q.hash) with
      | none => throw (2, "ln")
      | some settled =>
        if settled then
          dbTry (.updateMintQuoteState q.id .paid)
          pure { q with state := .paid }
        else pure q
    else pure q

/-- NUT-20: a quote locked to `pk` needs a signature by `pk` over (quote id, the submitted `B_`s in order). -/
def quoteSigOk (q : MintQ) (bs : List Nat) (sig : QSig) : Bool :=
  match q.pubkey with
  | none => true
  | some pk =>
    match sig with
    | .signed k quote sbs => k == pk && quote == (q.id : Int) && sbs == bs
    | _ => false

/-- The closure inside `MintTokens` (state PAID). -/
def mintInner (cx : Cx) (q : MintQ) (outs : List BMsg) (sig : QSig) : PM (List BSig) := do
  dbTry (.updateMintQuoteState q.id .pending)
  match amountChecked (outAmounts outs) with
  | none => throw eInvalidBMAmount
  | some total =>
    failIf (dupOutputs outs) eDupOutputs
    failIf (total > q.amount) eOutputsOverQuote
    let bs := outs.map (·.b.sid)
    let existing ← dbTry (.getSigs bs)
    failIf (!existing.isEmpty) eAlreadySigned
    failIf (!quoteSigOk q bs sig) eInvalidSig
    let sigs ← liftE (signAll cx.mem outs)
    dbTry (.updateMintQuoteState q.id .issued)
    dbTry (.saveSigs sigs)
    pure sigs

/-- `Mint.MintTokens`. -/
def mintTokens (cx : Cx) (qid : Int) (outs : List BMsg) (sig : QSig) : PM (List BSig) := do
  let q ← getMintQuoteState qid
  match q.state with
  | .unpaid => throw eNotPaid
  | .issued => throw eAlreadyIssued
  | .pending => throw eQuotePending
  | .paid =>
    let r ← ExceptT.lift ((mintInner cx q outs sig).run)
    match r with
    | .ok sigs => pure sigs
    | .error e =>
      -- restore the previous state (F4: PAID); if that fails the storage error is wrapped as a DB error (fix 1c07e11)
      match ← eff (.updateMintQuoteState q.id .paid) with
      | .ok _ => throw e
      | .error _ => throw (1, "db")

/-- The invoice watcher's reaction to the "settled" notification (`checkInvoicePaid`, after F11). -/
def watcherNotified (qid : Nat) : PM Bool := do
  match ← eff (.getMintQuote qid) with
  | .error _ => pure false
  | .ok q =>
    if q.state != .unpaid then pure false
    else
      let _ ← eff (.updateMintQuoteState qid .paid)
      pure true

/-! ## Swap -/

def swap (cx : Cx) (ps : List Proof) (outs : List BMsg) (outputsVerdict : Option E) : PM (List BSig) := do
  let proofsAmount := amountWrap (ps.map (·.amount))
  match amountChecked (outAmounts outs) with
  | none => throw eInvalidBMAmount
  | some outTotal =>
    failIf (dupOutputs outs) eDupOutputs
    let fees := transactionFees cx.mem ps
    let (minusFees, under) := underflowSub proofsAmount fees
    failIf (under) eInvalidProofAmount
    failIf (minusFees < outTotal) eInsufficient
    verifyProofs cx ps
    let existing ← dbTry (.getSigs (outs.map (·.b.sid)))
    failIf (!existing.isEmpty) eAlreadySigned
    failOpt (if proofsSigAll ps then outputsVerdict else none)
    let sigs ← liftE (signAll cx.mem outs)
    dbTry (.saveProofs (ps.map Proof.row))
    dbTry (.saveSigs sigs)
    pure sigs

/-! ## Melt -/

inductive InvReq where
  | inv (h : Nat)
  /-- an invoice `f` made by somebody else that carries the PAYMENT HASH of invoice `h` (any amount; F17) -/
  | forged (f h : Nat)
  | bad
  deriving DecidableEq, Repr, Inhabited

def ceilSat (msat : UInt64) : UInt64 := (msat + 999) / 1000

/-- The amount logic of `RequestMeltQuote`: (isMpp, amountMsat, quoteAmount) or the refusal. -/
def meltQuotePlan (cfg : Cfg) (msat : UInt64) (mpp : Option UInt64) (isInternal : Bool) : Except E (Bool × UInt64 × UInt64) :=
  match mpp with
  | none => .ok (false, 0, ceilSat msat)
  | some m =>
    if cfg.mpp then
      if isInternal then .error (20009, "mpp-internal")
      else if m ≥ msat then .error (20009, "mpp-not-less")
      else .ok (true, m, ceilSat m)
    else .error (20009, "mpp-unsupported")

/-- Quotes that can be settled internally carry no fee reserve. -/
def reserveFor (internal : Bool) (fee0 : UInt64) : UInt64 := if internal then 0 else fee0

def eForeignInvoice : E := (20009, "invoice does not match the mint quote with the same payment hash")

/-- `Mint.RequestMeltQuote` for the invoice `i` whose payment hash is `h` (the mint's own invoices and ordinary external
    ones: `i = h`).  After F17 a mint quote with that payment hash makes the request an internal one only if the request IS
    that quote's invoice; any other invoice with the same hash is refused. -/
def meltQuoteFor (cx : Cx) (qid : Nat) (i h : Nat) (msatOf : Nat → UInt64) (mpp : Option UInt64) : PM MeltQ := do
  failIf (msatOf i == 0) (20009, "invoice-no-amount")
  let mq ← eff (.getMintQuoteByHash h)
  failIf (mq.toBool && i != h) eForeignInvoice
  let plan ← liftE (meltQuotePlan cx.cfg (msatOf i) mpp mq.toBool)
  failIf (cx.cfg.maxMelt > 0 && plan.2.2 > cx.cfg.maxMelt) eMeltAmountExceeded
  let ex ← eff (.getMeltQuoteByReq i)
  failIf (ex.toBool) eMeltQuoteExists
  let fee0 ← eff (.lnFeeReserve plan.2.2)
  let q : MeltQ := { id := qid, inv := i, hash := h, amount := plan.2.2, feeReserve := reserveFor mq.toBool fee0,
                     state := .unpaid, preimage := 0, isMpp := plan.1, amountMsat := plan.2.1 }
  dbTry (.saveMeltQuote q)
  pure q

/-- `Mint.RequestMeltQuote`; `msatOf` is what `decodepay` reads from the invoice. -/
def requestMeltQuote (cx : Cx) (qid : Nat) (inv : InvReq) (msatOf : Nat → UInt64) (unitSat : Bool) (mpp : Option UInt64) : PM MeltQ := do
  failIf (!unitSat) (11005, "unit-not-supported")
  match inv with
  | .bad => throw (20009, "bad-invoice")
  | .inv h => meltQuoteFor cx qid h h msatOf mpp
  | .forged f h => meltQuoteFor cx qid f h msatOf mpp

/-- `removePendingProofsForQuote`: errors are returned raw (the callers wrap them as DB errors). -/
def removePendingForQuote (qid : Nat) : PM (List PRow) := do
  let rows ← dbTry (.getPendingByQuote qid)
  dbTry (.removePending (rows.map (·.y)))
  pure (rows.map (fun r => { r with quote := 0 }))

def ansHasErr : LnAns → Bool
  | .succ | .pending | .failed => false
  | _ => true

/-- `Mint.GetMeltQuoteState`. -/
def getMeltQuoteState (qid : Int) : PM MeltQ := do
  match ← eff (.getMeltQuote qid) with
  | .error _ => throw eQuoteNotExist
  | .ok q =>
    if q.state != .pending then pure q
    else
      let a ← eff (.lnOutgoingStatus q.hash)
      if ansHasErr a then pure q
      else match a with
        | .succ =>
          let rows ← removePendingForQuote q.id
          dbTry (.saveProofs rows)
          dbTry (.updateMeltQuote q.id (q.hash + 1) .paid)
          pure { q with state := .paid, preimage := q.hash + 1 }
        | .failed =>
          dbTry (.updateMeltQuote q.id 0 .unpaid)
          let _ ← removePendingForQuote q.id
          pure { q with state := .unpaid }
        | _ => pure q

def settleProofs (ps : List Proof) : PM Unit := do
  dbTry (.removePending (ps.map (·.secret)))
  dbTry (.saveProofs (ps.map Proof.row))

/-- `MeltTokens`, internal settlement branch (`settleQuotesInternally` + marking the inputs spent). -/
def meltInternal (q : MeltQ) (ps : List Proof) (mq : MintQ) : PM MeltQ := do
  match ← eff (.lnInvoiceStatus mq.hash) with
  | none =>
    -- F15: nothing was settled; set the quote back to unpaid and release the inputs (errors only logged)
    let _ ← eff (.updateMeltQuote q.id 0 .unpaid)
    let _ ← eff (.removePending (ps.map (·.secret)))
    throw (2, "ln")
  | some _ =>
    dbTry (.updateMeltQuote q.id (mq.hash + 1) .paid)
    dbTry (.updateMintQuoteState mq.id .paid)
    dbTry (.removePending (ps.map (·.secret)))
    dbTry (.saveProofs (ps.map Proof.row))
    pure { q with state := .paid, preimage := mq.hash + 1 }

/-- `MeltTokens`, the switch on the payment answer `a` (incl. the extra status check after a failure). -/
def meltAfterPay (q : MeltQ) (ps : List Proof) (a : LnAns) : PM MeltQ := do
  match a with
  | .succ =>
    settleProofs ps
    dbTry (.updateMeltQuote q.id (q.hash + 1) .paid)
    pure { q with state := .paid, preimage := q.hash + 1 }
  | .pending => pure q
  | _ =>
    -- Failed (or error): extra status check
    let st ← eff (.lnOutgoingStatus q.hash)
    match st with
    | .notfound | .notfoundGrpc =>
      dbTry (.updateMeltQuote q.id 0 .unpaid)
      dbTry (.removePending (ps.map (·.secret)))
      pure { q with state := .unpaid }
    | .failed =>
      dbTry (.updateMeltQuote q.id 0 .unpaid)
      dbTry (.removePending (ps.map (·.secret)))
      pure { q with state := .unpaid }
    | .succ =>
      settleProofs ps
      dbTry (.updateMeltQuote q.id (q.hash + 1) .paid)
      pure { q with state := .paid, preimage := q.hash + 1 }
    | _ => pure q

/-- `Mint.MeltTokens`. -/
def meltTokens (cx : Cx) (qid : Int) (ps : List Proof) : PM MeltQ := do
  let proofsAmount := amountWrap (ps.map (·.amount))
  match ← eff (.getMeltQuote qid) with
  | .error _ => throw eQuoteNotExist
  | .ok q =>
    failIf (q.state == .paid) eMeltAlreadyPaid
    failIf (q.state == .pending) eQuotePending
    verifyProofs cx ps
    let fees := transactionFees cx.mem ps
    failIf (proofsAmount < q.amount + q.feeReserve + fees) eInsufficient
    failIf (proofsSigAll ps) eSigAllOnlySwap
    dbTry (.addPending (ps.map Proof.row) q.id)
    dbTry (.updateMeltQuote q.id 0 .pending)
    let q := { q with state := .pending }
    match ← eff (.getMintQuoteByHash q.hash) with
    | .ok mq => meltInternal q ps mq
    | .error _ =>
      let a ← if q.isMpp then eff (.lnPayPartial q.inv q.amountMsat q.feeReserve)
               else eff (.lnSendPayment q.inv q.feeReserve)
      meltAfterPay q ps a

/-! ## State check / restore / balance -/

def dedupNat : List Nat → List Nat
  | [] => []
  | x :: rest => let r := dedupNat rest; if r.contains x then r else x :: r

def pollAll : List Nat → PM Unit
  | [] => pure ()
  | q :: rest => do
    let _ ← getMeltQuoteState q
    pollAll rest

def stateOf (used pending : List PRow) : YRef → PState × Nat
  | .unk _ => (.unspent, 0)
  | .known y =>
    match used.find? (·.y == y) with
    | some r => (.spent, r.witness)
    | none =>
      match pending.find? (·.y == y) with
      | some r => (.pending, r.witness)
      | none => (.unspent, 0)

/-- `Mint.ProofsStateCheck`. The Go iterates the pending quotes in map order; the model uses ascending
    quote id (the harness scripts identical answers for all polls of one request). -/
def proofsStateCheck (ys : List YRef) : PM (List (PState × Nat)) := do
  let pending ← dbTry (.getPending ys)
  pollAll (dedupNat (pending.map (·.quote))).reverse
  let pending ← dbTry (.getPending ys)
  let used ← dbTry (.getProofsUsed ys)
  pure (ys.map (stateOf used pending))

def restoreSigs : List Nat → PM (List BSig)
  | [] => pure []
  | b :: rest => do
    match ← eff (.getSig b) with
    | .ok s =>
      let ss ← restoreSigs rest
      pure (s :: ss)
    | .error .notFound => restoreSigs rest
    | .error _ => throw (1, "db")

structure Balance where
  issued : List (Nat × UInt64)
  redeemed : List (Nat × UInt64)
  total : UInt64
  disabled : Bool
  deriving Repr

/-- A storage call made by a public accessor that returns the raw (non-cashu) error. -/
def rawTry {β : Type} (e : Eff (DbRes β)) : PM β := do
  match ← eff e with
  | .ok v => pure v
  | .error _ => throw (0, "raw")

/-- `TotalBalance` called from outside a request handler: its error is returned raw. -/
def rawBalance : PM UInt64 := do
  match ← ExceptT.lift (totalBalance.run) with
  | .ok v => pure v
  | .error _ => throw (0, "raw")

/-- The balance query of the harness: IssuedEcash, RedeemedEcash, TotalBalance, RetrieveMintInfo. -/
def balanceOp (cx : Cx) : PM Balance := do
  let issued ← rawTry .getIssued
  let redeemed ← rawTry .getRedeemed
  let total ← rawBalance
  -- RetrieveMintInfo
  let _ ← eff .getSeed
  let bal ← rawBalance
  pure { issued := issued, redeemed := redeemed, total := total,
         disabled := cx.cfg.maxBalance > 0 && bal ≥ cx.cfg.maxBalance }

/-! ## Keyset rotation / restart (memory and storage are updated at different steps) -/

/-- `Mint.RotateKeyset`: returns the new in-memory cache alongside. -/
def rotateKeyset (mem : Mem) (fee : UInt64) : Prog (Mem × Except E Nat) := do
  match ← Prog.call .getSeed with
  | .error _ => pure (mem, .error (0, "raw"))
  | .ok _ =>
    let newIdx := mem.active + 1
    let mem1 : Mem := { mem with keysets := mem.keysets.map (fun k => if k.idx == mem.active then { k with active := false } else k) }
    match ← Prog.call (.updateKeysetActive mem.active false) with
    | .error _ => pure (mem1, .error (0, "raw"))
    | .ok _ =>
      let nk : KsRow := { idx := newIdx, active := true, fee := fee }
      let mem2 : Mem := { keysets := mem1.keysets ++ [nk], active := newIdx }
      match ← Prog.call (.saveKeyset nk) with
      | .error _ => pure (mem2, .error (0, "raw"))
      | .ok _ => pure (mem2, .ok newIdx)

/-- Memory rebuilt from storage as `LoadMint` does. -/
def memOfDb (db : DB) : Mem :=
  { keysets := db.keysets,
    active := match db.keysets.find? (·.active) with
      | some k => (db.keysets.filter (·.active)).getLast?.map (·.idx) |>.getD k.idx
      | none => 0 }

/-! ## The sequential machine: one operation at a time (requests do not overlap)

  `applyOp` is what the driver executes for every op line of the correspondence streams and what
  the history theorems (`Props/`) quantify over. -/

structure Sess where
  w : World := {}
  /-- mint quotes whose invoice watcher goroutine is alive (cleared by a restart) -/
  watchers : List Nat := []
  deriving Inhabited

inductive Op where
  | extInvoice (id : Nat) (msat : UInt64)            -- an invoice created by somebody else's node
  | settle (h : Nat)                                  -- the payer's node settles invoice h
  | mintQuote (amount : UInt64) (unitSat : Bool) (pk : PkReq) (lnFail : Bool)
  | notify (q : Nat)                                  -- the backend's "invoice settled" notification reaches the watcher
  | quoteState (q : Int) (lnFail : Bool)
  | mint (q : Int) (outs : List BMsg) (sig : QSig)
  | swap (ps : List Proof) (outs : List BMsg) (outputsVerdict : Option E)
  | meltQuote (inv : InvReq) (unitSat : Bool) (mpp : Option UInt64)
  | melt (q : Int) (ps : List Proof) (script : List LnAns) (lnFail : Bool)
  | meltState (q : Int) (script : List LnAns)
  | checkState (ys : List YRef) (script : List LnAns)
  | restore (bs : List Nat)
  | balance
  | rotate (fee : UInt64)
  | restart (rotate : Bool) (fee : UInt64)
  | armFault (k : Nat)                                -- the k-th storage call of the next operation fails
  | disarm

inductive Res where
  | unit
  | mintQuote (r : Except E MintQ)
  | notify (r : Option Bool)                          -- none: no live watcher
  | quoteState (r : Except E MintQ)
  | sigs (r : Except E (List BSig))
  | meltQuote (r : Except E MeltQ)
  | melt (r : Except E MeltQ)
  | states (r : Except E (List (PState × Nat)))
  | restored (r : Except E (List BSig))
  | balance (r : Except E Balance)
  | rotated (r : Except E Nat)
  | restarted (r : Except E Nat)

def cxOf (s : Sess) : Cx := { mem := s.w.mem, cfg := s.w.cfg }

/-- Run a program as one operation: fresh trace and call log, the given Lightning script; afterwards the
    unused script and the one-shot failure flags are dropped. -/
def Sess.runPM {α : Type} (s : Sess) (p : PM α) (script : List LnAns) : Sess × Except E α :=
  let w0 := { s.w with trace := [], ln := { s.w.ln with script := script, calls := [] } }
  let (w1, r) := (p.run).run w0
  ({ s with w := { w1 with ln := { w1.ln with script := [], failInvoiceStatus := 0, failCreateInvoice := 0 } } }, r)

def applyOp (s : Sess) : Op → Sess × Res
  | .extInvoice id msat =>
    let inv : Invoice := { id := id, msat := msat, settled := false, external := true }
    ({ s with w := { s.w with ln := { s.w.ln with invoices := s.w.ln.invoices ++ [inv] } } }, .unit)
  | .settle h =>
    let invs := s.w.ln.invoices.map (fun i => if i.id == h then { i with settled := true } else i)
    ({ s with w := { s.w with ln := { s.w.ln with invoices := invs } } }, .unit)
  | .mintQuote amount unitSat pk lnFail =>
    let qid := s.w.nextMintQ
    let s0 := { s with w := { s.w with ln := { s.w.ln with failCreateInvoice := if lnFail then 1 else 0 } } }
    let (s1, r) := s0.runPM (requestMintQuote (cxOf s) qid amount unitSat pk) []
    match r with
    | .ok _ =>
      -- the watcher lives unless its first step, reading the quote back, failed: the only storage call of the program
      -- whose failure does not fail the request — so "the request succeeded although the armed fault fired"
      let watcherDied := s0.w.faultAt.isSome && s1.w.faultAt.isNone
      ({ s1 with w := { s1.w with nextMintQ := qid + 1 }, watchers := if watcherDied then s1.watchers else qid :: s1.watchers },
       .mintQuote r)
    | .error _ => (s1, .mintQuote r)
  | .notify q =>
    if s.watchers.contains q then
      let (s1, r) := s.runPM (watcherNotified q) []
      ({ s1 with watchers := s1.watchers.filter (· != q) }, .notify (match r with | .ok b => some b | .error _ => some false))
    else
      ({ s with w := { s.w with trace := [], ln := { s.w.ln with calls := [] } } }, .notify none)
  | .quoteState q lnFail =>
    let s0 := { s with w := { s.w with ln := { s.w.ln with failInvoiceStatus := if lnFail then 1 else 0 } } }
    let (s1, r) := s0.runPM (getMintQuoteState q) []
    (s1, .quoteState r)
  | .mint q outs sig =>
    let (s1, r) := s.runPM (mintTokens (cxOf s) q outs sig) []
    (s1, .sigs r)
  | .swap ps outs v =>
    let (s1, r) := s.runPM (swap (cxOf s) ps outs v) []
    (s1, .sigs r)
  | .meltQuote inv unitSat mpp =>
    let qid := s.w.nextMeltQ
    let (s1, r) := s.runPM (requestMeltQuote (cxOf s) qid inv (invMsat s.w.ln) unitSat mpp) []
    match r with
    | .ok _ => ({ s1 with w := { s1.w with nextMeltQ := qid + 1 } }, .meltQuote r)
    | .error _ => (s1, .meltQuote r)
  | .melt q ps script lnFail =>
    let s0 := { s with w := { s.w with ln := { s.w.ln with failInvoiceStatus := if lnFail then 1 else 0 } } }
    let (s1, r) := s0.runPM (meltTokens (cxOf s) q ps) script
    (s1, .melt r)
  | .meltState q script =>
    let (s1, r) := s.runPM (getMeltQuoteState q) script
    (s1, .melt r)
  | .checkState ys script =>
    let (s1, r) := s.runPM (proofsStateCheck ys) script
    (s1, .states r)
  | .restore bs =>
    let (s1, r) := s.runPM (restoreSigs bs) []
    (s1, .restored r)
  | .balance =>
    let (s1, r) := s.runPM (balanceOp (cxOf s)) []
    (s1, .balance r)
  | .rotate fee =>
    let w0 := { s.w with trace := [], ln := { s.w.ln with calls := [] } }
    let (w1, (mem', r)) := (rotateKeyset s.w.mem fee).run w0
    ({ s with w := { w1 with mem := mem' } }, .rotated r)
  | .restart rotate fee =>
    -- clean shutdown + LoadMint on the same directory: memory is rebuilt from storage; load-time
    -- storage calls bypass the harness proxy (no trace); every watcher dies
    let mem0 := memOfDb s.w.db
    let w0 := { s.w with mem := mem0, trace := [], ln := { s.w.ln with calls := [] } }
    if rotate then
      let (w1, (mem', r)) := (rotateKeyset mem0 fee).run w0
      ({ w := { w1 with mem := mem', trace := [] }, watchers := [] }, .restarted (r.map (fun _ => mem'.active)))
    else
      ({ w := w0, watchers := [] }, .restarted (.ok mem0.active))
  | .armFault k => ({ s with w := { s.w with faultAt := some k, nDb := 0 } }, .unit)
  | .disarm => ({ s with w := { s.w with faultAt := none } }, .unit)

/-- Initial session of a fresh mint: keyset 0 active with the configured fee. -/
def initSess (fee : UInt64) (feePct : Bool) (cfg : Cfg) : Sess :=
  let k0 : KsRow := { idx := 0, active := true, fee := fee }
  { w := { db := { keysets := [k0] }, mem := { keysets := [k0], active := 0 }, ln := { feePct := feePct }, cfg := cfg } }

/-- A sequential history. -/
def runOps (s : Sess) : List Op → Sess
  | [] => s
  | op :: rest => runOps (applyOp s op).1 rest

end Gonuts.Model.Mint
