import Gonuts.Model.GoJson
import Gonuts.Model.SpendBase
/-!
  Model.Nut10Parse — `nut10.DeserializeSecret` (cashu/nuts/nut10/nut10.go) from the TEXT of a proof's secret:

      var raw []json.RawMessage;  json.Unmarshal(secret, &raw)     -- error, or fewer than 2 elements: not a NUT-10 secret
      json.Unmarshal(raw[0], &kind)   (a Go string)                 -- "P2PK" | "HTLC" | anything else = anyone-can-spend
      json.Unmarshal(raw[1], &secret.Data)   (struct {nonce, data string; tags [][]string})

  `none` = the function returns an error — the mint then treats the proof as an ordinary one (`verifyProofs` only calls
  the NUT-11/14 verifier when `err == nil`), so THIS function decides whether a lock is enforced at all.  Core Lean only.
-/
namespace Gonuts.Model.Nut10Parse
open Gonuts.Model.GoJson Gonuts.Model.Spend

/-- nut10.SecretData -/
structure SecretData where
  nonce : String
  data : String
  tags : List (List String)
  deriving DecidableEq, Repr, Inhabited

/-- one member of the object: the first field (in declaration order) whose name matches takes the value; an
    unknown member is skipped -/
def setMember (d : SecretData) (k : String) (v : JV) : Option SecretData :=
  if nameIs k "nonce" then (intoString d.nonce v).map (fun s => { d with nonce := s })
  else if nameIs k "data" then (intoString d.data v).map (fun s => { d with data := s })
  else if nameIs k "tags" then (intoStringListList d.tags v).map (fun t => { d with tags := t })
  else some d

def setMembers (d : SecretData) : List (String × JV) → Option SecretData
  | [] => some d
  | (k, v) :: rest =>
    match setMember d k v with
    | some d' => setMembers d' rest
    | none => none

/-- `json.Unmarshal(raw, &secret.Data)` -/
def intoSecretData (d : SecretData) : JV → Option SecretData
  | .obj kvs => setMembers d kvs
  | .null => some d
  | _ => none

def kindOf (k : String) : Kind := if k = "P2PK" then .p2pk else if k = "HTLC" then .htlc else .anyone

structure Parsed where
  kind : Kind
  nonce : String
  data : String
  tags : List (List String)
  deriving DecidableEq, Repr, Inhabited

def Parsed.secret (p : Parsed) : Secret := ⟨p.kind, p.data, p.tags⟩

/-- the value-level part of `DeserializeSecret` -/
def decodeSecret : JV → Option Parsed
  | .arr (k :: d :: _) =>
    match intoString "" k, intoSecretData ⟨"", "", []⟩ d with
    | some ks, some sd => some ⟨kindOf ks, sd.nonce, sd.data, sd.tags⟩
    | _, _ => none
  | _ => none      -- not an array (type error), `null` (nil slice) or fewer than two elements

/-- `nut10.DeserializeSecret`; `none` = error -/
def parseSecret (s : String) : Option Parsed :=
  match parse s with
  | some v => decodeSecret v
  | none => none

/-- is a lock enforced for this secret text?  (`verifyProofs`: `err == nil` and kind P2PK / HTLC) -/
def lockKind (s : String) : Kind :=
  match parseSecret s with
  | some p => p.kind
  | none => .anyone

/-! ## `nut10.SerializeSecret`: `fmt.Sprintf("[\"%s\", %v]", kind, json.Marshal(secret.Data))`

  `json.Marshal` of `SecretData`: members in declaration order, compact; strings by `appendString` with HTML escaping
  (`encoding/json/encode.go`): `\"` `\\` `\b` `\f` `\n` `\r` `\t`, `\u00xy` for the other control characters and for
  `<`, `>`, `&`, `\u2028`, `\u2029`, everything else as it is; a nil slice is `null`. -/

def hexDigit (n : Nat) : Char := if n < 10 then Char.ofNat (48 + n) else Char.ofNat (87 + n)

def shortEsc? (c : Char) : Option Char :=
  if c = '"' then some '"' else if c = '\\' then some '\\'
  else if c = Char.ofNat 8 then some 'b' else if c = Char.ofNat 12 then some 'f'
  else if c = '\n' then some 'n' else if c = '\r' then some 'r' else if c = '\t' then some 't'
  else none

def needsU (c : Char) : Bool :=
  c.toNat < 0x20 || c == '<' || c == '>' || c == '&' || c == Char.ofNat 0x2028 || c == Char.ofNat 0x2029

def u4 (n : Nat) : List Char := [hexDigit (n / 4096 % 16), hexDigit (n / 256 % 16), hexDigit (n / 16 % 16), hexDigit (n % 16)]

def escapeChar (c : Char) : List Char :=
  match shortEsc? c with
  | some x => ['\\', x]
  | none => if needsU c then '\\' :: 'u' :: u4 c.toNat else [c]

def escapeChars : List Char → List Char
  | [] => []
  | c :: cs => escapeChar c ++ escapeChars cs

/-- a Go string as `json.Marshal` writes it -/
def goQuote (s : String) : List Char := '"' :: (escapeChars s.toList ++ ['"'])

def printStrsTail : List String → List Char
  | [] => [']']
  | s :: rest => ',' :: (goQuote s ++ printStrsTail rest)

/-- `[]string` (nil = `none`) -/
def printStrs : Option (List String) → List Char
  | none => ['n', 'u', 'l', 'l']
  | some [] => ['[', ']']
  | some (s :: rest) => '[' :: (goQuote s ++ printStrsTail rest)

def printRowsTail : List (Option (List String)) → List Char
  | [] => [']']
  | r :: rest => ',' :: (printStrs r ++ printRowsTail rest)

/-- `[][]string` (nil = `none`) -/
def printRows : Option (List (Option (List String))) → List Char
  | none => ['n', 'u', 'l', 'l']
  | some [] => ['[', ']']
  | some (r :: rest) => '[' :: (printStrs r ++ printRowsTail rest)

def kindString : Kind → String
  | .p2pk => "P2PK"
  | .htlc => "HTLC"
  | .anyone => "anyonecanspend"

/-- Go tags as the model sees them (nil and empty slices are both the empty list) -/
def tagsOf (t : Option (List (Option (List String)))) : List (List String) := (t.getD []).map (·.getD [])

def serializeChars (k : Kind) (nonce data : String) (tags : Option (List (Option (List String)))) : List Char :=
  ['[', '"'] ++ ((kindString k).toList ++ (['"', ',', ' ', '{', '"', 'n', 'o', 'n', 'c', 'e', '"', ':'] ++ (goQuote nonce ++
    ([',', '"', 'd', 'a', 't', 'a', '"', ':'] ++ (goQuote data ++ ([',', '"', 't', 'a', 'g', 's', '"', ':'] ++ (printRows tags ++ ['}', ']'])))))))

/-- `nut10.SerializeSecret` -/
def serializeSecret (k : Kind) (nonce data : String) (tags : Option (List (Option (List String)))) : String :=
  String.ofList (serializeChars k nonce data tags)

/-! ## witnesses: `json.Unmarshal([]byte(proof.Witness), &P2PKWitness | &HTLCWitness)` with the error ignored
     (`VerifyP2PKLockedProof`, `VerifyHTLCProof`) or turned into `InvalidWitness` (`verifyBlindedMessages`) -/

/-- what is left in the Go struct, with the signature STRINGS (the symbolic model numbers them) -/
structure WitnessText where
  jsonOk : Bool
  signatures : List String
  preimage : String
  deriving DecidableEq, Repr, Inhabited

def witnessMember (htlc : Bool) (w : WitnessText) (k : String) (v : JV) : WitnessText :=
  if htlc && nameIs k "preimage" then
    let r := laxString w.preimage v
    { w with preimage := r.1, jsonOk := w.jsonOk && r.2 }
  else if nameIs k "signatures" then
    let r := laxStringList w.signatures v
    { w with signatures := r.1, jsonOk := w.jsonOk && r.2 }
  else w

def witnessMembers (htlc : Bool) (w : WitnessText) : List (String × JV) → WitnessText
  | [] => w
  | (k, v) :: rest => witnessMembers htlc (witnessMember htlc w k v) rest

/-- `htlc = false`: into `nut11.P2PKWitness` (a `preimage` member is unknown there); `true`: into `nut14.HTLCWitness` -/
def parseWitness (htlc : Bool) (s : String) : WitnessText :=
  match parse s with
  | none => ⟨false, [], ""⟩                       -- syntax error (also the empty string): nothing is decoded
  | some (.obj kvs) => witnessMembers htlc ⟨true, [], ""⟩ kvs
  | some .null => ⟨true, [], ""⟩
  | some _ => ⟨false, [], ""⟩                     -- not an object: type error

end Gonuts.Model.Nut10Parse
