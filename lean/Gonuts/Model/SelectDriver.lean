import Gonuts.Model.Sexp
import Gonuts.Model.Select
/-!
  Driver commands `select.*` (stateless).  Core-only imports.

  Encodings: proof `(amount ks uid)`; mint `(activeId activePpk ((id ppk) …))`; sorter `stable` or
  `(oracle uid …)` (the order in which the implementation picked the proofs); view = what is printed of a
  selection: `uid` (uids in selection order), `ak` (`(amount ks)` pairs in selection order), `a` (amounts in
  selection order), `set` (uids sorted), `akset` (`(amount ks)` pairs sorted by keyset, amount), `aset`
  (amounts sorted), `kind` (only ok / which error).
-/
namespace Gonuts.Model.SelectDriver
open Gonuts Gonuts.Model Gonuts.Model.Select

def u64? (s : Sexp) : Option UInt64 := do
  let n ← s.asNat?
  if n < 2 ^ 64 then some (UInt64.ofNat n) else none

def u64s? (s : Sexp) : Option (List UInt64) := do
  (← s.asList?).mapM u64?

def ofU64 (x : UInt64) : Sexp := Sexp.ofNat x.toNat
def ofU64s (xs : List UInt64) : Sexp := Sexp.list (xs.map ofU64)

def proof? : Sexp → Option P
  | .list [a, k, u] => do some { amount := ← u64? a, ks := ← k.asNat?, uid := ← u.asNat? }
  | _ => none

def proofs? (s : Sexp) : Option (List P) := do (← s.asList?).mapM proof?

def mint? : Sexp → Option Mint
  | .list [a, p, .list ina] => do
    let ina ← ina.mapM (fun e => match e with
      | .list [i, q] => do some ((← i.asNat?), (← u64? q))
      | _ => none)
    some { activeId := ← a.asNat?, activePpk := ← u64? p, inactive := ina }
  | _ => none

def sorter? : Sexp → Option Sorter
  | .atom "stable" => some stableSorter
  | .list (.atom "oracle" :: uids) => do some (oracleSorter (← uids.mapM Sexp.asNat?))
  | _ => none

def viewProofs (view : String) (ps : List P) : Option Sexp :=
  match view with
  | "uid" => some (Sexp.ofNats (ps.map (·.uid)))
  | "ak" => some (Sexp.list (ps.map (fun p => Sexp.list [ofU64 p.amount, Sexp.ofNat p.ks])))
  | "a" => some (ofU64s (amounts ps))
  | "set" => some (Sexp.ofNats (sortBy (fun a b => decide (a ≤ b)) (ps.map (·.uid))))
  | "akset" =>
    let sorted := sortBy (fun (a b : P) => decide (a.ks < b.ks) || (a.ks == b.ks && a.amount ≤ b.amount)) ps
    some (Sexp.list (sorted.map (fun p => Sexp.list [ofU64 p.amount, Sexp.ofNat p.ks])))
  | "aset" => some (ofU64s (sortU64 (amounts ps)))
  | "kind" => some (Sexp.list [])
  | _ => none

def viewResult (view : String) : SelResult → Option Sexp
  | .ok ps => do some (Sexp.list [Sexp.atom "ok", ← viewProofs view ps])
  | .errBalance => some (Sexp.list [Sexp.atom "err-balance"])
  | .errFunds a f t =>
    if view == "kind" then some (Sexp.list [Sexp.atom "err-funds"])
    else some (Sexp.list [Sexp.atom "err-funds", ofU64 a, ofU64 f, ofU64 t])

def viewOutcome (view : String) : SendOutcome → Option Sexp
  | .offline ps => do some (Sexp.list [Sexp.atom "offline", ← viewProofs view ps])
  | .swap pl => do
    some (Sexp.list [Sexp.atom "swap", ofU64 pl.amount', ofU64 pl.feesToReceive, ← viewProofs view pl.inputs,
      ofU64s pl.send, ofU64 pl.proofsAmount, ofU64 pl.fees, ofU64 pl.changeAmount, ofU64s pl.change])
  | .err e => viewResult view e

def handle (cmd : String) (args : List Sexp) : Option Sexp :=
  match cmd, args with
  | "select.send", [srt, view, mint, proofs, amount, inc] => do
    viewResult (← view.asStr?)
      (selectProofsToSend (← sorter? srt) (← mint? mint) (← proofs? proofs) (← u64? amount) (← inc.asBool?))
  | "select.spfa", [srt, view, mint, inactive, active, amount, inc] => do
    viewResult (← view.asStr?)
      (selectProofsForAmount (← sorter? srt) (← mint? mint) (← proofs? inactive) (← proofs? active)
        (← u64? amount) (← inc.asBool?))
  | "select.gpfa", [srt, view, mint, inactive, active, amount, inc] => do
    viewOutcome (← view.asStr?)
      (getProofsForAmount (← sorter? srt) (← mint? mint) (← proofs? inactive) (← proofs? active)
        (← u64? amount) (← inc.asBool?))
  | "select.swap-to-send", [srt, view, mint, inactive, active, amount, inc] => do
    viewOutcome (← view.asStr?)
      (swapToSend (← sorter? srt) (← mint? mint) (← proofs? inactive) (← proofs? active)
        (← u64? amount) (← inc.asBool?))
  | "select.fees-proofs", [mint, proofs] => do
    some (ofU64 (feesForProofs (← mint? mint) (← proofs? proofs)))
  | "select.fees-count", [count, ppk] => do
    some (ofU64 (feesForCount (← count.asNat?) (← u64? ppk)))
  | "select.send-split", [ppk, amount, inc] => do
    let ppk ← u64? ppk
    let amount ← u64? amount
    let inc ← inc.asBool?
    let f := feesToReceive ppk amount inc
    some (Sexp.list [ofU64 f, ofU64 (amount + f), ofU64s (sendSplit ppk amount inc)])
  | "select.split-target", [wallet, amount] => do
    some (ofU64s (splitWalletTarget (← u64s? wallet) (← u64? amount)))
  | "select.blank", [x] => do
    let x ← u64? x
    some (Sexp.list [Sexp.ofNat (calculateBlankOutputs x), Sexp.ofBool (blankOutputsCertain x)])
  | _, _ => none

end Gonuts.Model.SelectDriver
