import Gonuts.Model.Sexp
/-! Driver commands `select.*` (stateless): filled in by the Select model. Core-only imports. -/
namespace Gonuts.Model.SelectDriver
open Gonuts

def handle (_cmd : String) (_args : List Sexp) : Option Sexp := none

end Gonuts.Model.SelectDriver
