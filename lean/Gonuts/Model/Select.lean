import Gonuts.Model.Amount
/-!
  Executable model of the wallet's pure coin-selection / fee / split code
  (`/repo/wallet/wallet.go`: selectProofsToSend, selectProofsForAmount, the amount/fee/split
  arithmetic of swapToSend, getProofsForAmount's exactness test, splitWalletTarget,
  calculateBlankOutputs, feesForProofs, feesForCount; `/repo/mint/mint.go`: TransactionFees),
  written statement by statement against the Go text that `Gonuts/Tie/Select.lean` pins.

  * Go `uint64`/`uint` are `UInt64`: every unchecked `+`/`-` wraps exactly as in Go.
  * A proof is `(amount, keyset, uid)`; `uid` only names the proof (Go: its secret) so that the
    harness can replay Go's tie-breaking; no function below inspects it except the oracle sorter.
  * Go's `sort.Slice` is NOT stable and the inactive proofs arrive in map-iteration order, so the order
    of equal amounts is not determined by the source.  Every selection function therefore takes a
    `Sorter` (the two `sort.Slice` calls as functions `List P → List P`).  Go's pdqsort is a
    deterministic function of the sequence of amounts, hence *some* such pair of functions; the
    theorems quantify over all sorters that return a permutation of their input.
  Core Lean only (linked into the driver).
-/
namespace Gonuts.Model.Select
open Gonuts.Model

/-- A wallet proof as far as selection is concerned. -/
structure P where
  amount : UInt64
  ks : Nat
  uid : Nat := 0
  deriving DecidableEq, Repr

/-- `walletMint`: the active keyset's id and `InputFeePpk`, and the map of inactive keysets. -/
structure Mint where
  activeId : Nat
  activePpk : UInt64
  inactive : List (Nat × UInt64)
  deriving Repr

/-- The fee `feesForProofs` adds for a proof of keyset `id`: the active keyset is tested first, then the
    inactive map; a proof of an unknown keyset adds nothing. -/
def Mint.ppkOf (m : Mint) (id : Nat) : UInt64 :=
  if m.activeId = id then m.activePpk
  else match m.inactive.lookup id with
    | some p => p
    | none => 0

def amounts (ps : List P) : List UInt64 := ps.map (·.amount)

/-- `Proofs.Amount()`: wrapping sum. -/
def proofsAmount (ps : List P) : UInt64 := amountWrap (amounts ps)

def ppks (m : Mint) (ps : List P) : List UInt64 := ps.map (fun p => m.ppkOf p.ks)

/-- `feesForProofs`: `fees += InputFeePpk` per proof (wrapping), then `(fees + 999) / 1000`. -/
def feesForProofs (m : Mint) (ps : List P) : UInt64 := feesOfPpks (ppks m ps)

/-- `feesForCount(count, keyset)`: `count` times `fees += keyset.InputFeePpk`, then `(fees + 999) / 1000`. -/
def feesForCount (count : Nat) (ppk : UInt64) : UInt64 := feesOfPpks (List.replicate count ppk)

/-- `Mint.TransactionFees`: `fees += m.keysets[proof.Id].InputFeePpk` (a missing map entry is the zero
    keyset, fee 0), then `(fees + 999) / 1000`.  `ppkOfKeyset` is the mint's keyset table. -/
def transactionFees (ppkOfKeyset : Nat → UInt64) (inputs : List P) : UInt64 :=
  feesOfPpks (inputs.map (fun p => ppkOfKeyset p.ks))

/-! ## sorting -/

/-- Stable insertion sort (structural recursion, so closed instances reduce by `decide`). -/
def insertBy {α : Type} (le : α → α → Bool) (x : α) : List α → List α
  | [] => [x]
  | y :: ys => if le x y then x :: y :: ys else y :: insertBy le x ys

def sortBy {α : Type} (le : α → α → Bool) (l : List α) : List α := l.foldr (insertBy le) []

/-- `slices.Sort` on `[]uint64`. -/
def sortU64 (l : List UInt64) : List UInt64 := sortBy (fun a b => a ≤ b) l

/-- The two `sort.Slice` calls of `selectProofsToSend` as functions. -/
structure Sorter where
  /-- `sort.Slice(proofs, func(i, j) { return proofs[i].Amount < proofs[j].Amount })` -/
  asc : List P → List P
  /-- `sort.Slice(smallerProofs, func(i, j) { return smallerProofs[i].Amount > smallerProofs[j].Amount })` -/
  desc : List P → List P

/-- The deterministic (stable) sorter the driver uses when nothing is known about ties. -/
def stableSorter : Sorter where
  asc := sortBy (fun a b => a.amount ≤ b.amount)
  desc := sortBy (fun a b => a.amount ≥ b.amount)

/-- Position of `uid` in an observed selection order (`chosen.length` when absent). -/
def posIn (chosen : List Nat) (uid : Nat) : Nat := chosen.findIdx (· == uid)

/-- Oracle sorter: sorts by amount exactly like `stableSorter`, and breaks ties between equal amounts
    so that a run of the algorithm that picked the proofs in the order `chosen` is reproduced:
    ascending: earlier-chosen first; descending: the earliest-chosen of the largest amount first, all
    the others later-chosen first (they are reversed when they move to the front of `biggerProofs`). -/
def oracleSorter (chosen : List Nat) : Sorter where
  asc := sortBy (fun a b => a.amount < b.amount || (a.amount == b.amount && posIn chosen a.uid ≤ posIn chosen b.uid))
  desc := fun l =>
    match sortBy (fun a b => a.amount > b.amount || (a.amount == b.amount && posIn chosen a.uid ≥ posIn chosen b.uid)) l with
    | [] => []
    | x :: rest =>
      let run := x :: rest.takeWhile (fun y => y.amount == x.amount)
      let tail := rest.dropWhile (fun y => y.amount == x.amount)
      match run.reverse with
      | [] => x :: rest
      | y :: revInit => y :: (revInit.reverse ++ tail)

/-! ## selectProofsToSend -/

inductive SelResult where
  /-- the selected proofs, in selection order -/
  | ok (ps : List P)
  /-- `ErrInsufficientMintBalance` ("not enough funds in selected mint") -/
  | errBalance
  /-- `"insufficient funds for transaction. Amount needed %v + %v(fees) = %v"` with `amount, fees, amount+fees` -/
  | errFunds (amount fees total : UInt64)
  deriving DecidableEq, Repr

/-- `fees` as computed at each of the three `if includeFees { fees = uint64(feesForProofs(selectedProofs, mint)) }`. -/
def feeOpt (m : Mint) (includeFees : Bool) (selected : List P) : UInt64 :=
  if includeFees then feesForProofs m selected else 0

/-- Loop variables of the `for remainingAmount > 0` loop. -/
structure LoopSt where
  smaller : List P
  bigger : List P
  selected : List P
  sum : UInt64
  remaining : UInt64
  deriving Repr

inductive Step where
  | done (st : LoopSt)   -- loop left (condition false or `break`)
  | next (st : LoopSt)   -- next iteration

/-- The part of the loop body after `selectedProof` has been taken (`smaller`/`bigger` are what is left). -/
def afterPick (m : Mint) (amount : UInt64) (includeFees : Bool) (st : LoopSt)
    (p : P) (smaller bigger : List P) : Step :=
  let selected := st.selected ++ [p]
  let sum := st.sum + p.amount
  let fees := feeOpt m includeFees selected
  if p.amount ≥ st.remaining + fees then
    .done { smaller := smaller, bigger := bigger, selected := selected, sum := sum, remaining := st.remaining }
  else
    let remaining := amount + fees - sum
    -- `for _, small := range smallerProofs`: keep if `small.Amount <= remainingAmount`, otherwise
    -- `slices.Insert(biggerProofs, 0, small)` (one at a time, so the moved ones end up reversed in front)
    let tempSmaller := smaller.filter (fun s => s.amount ≤ remaining)
    let moved := smaller.filter (fun s => !(s.amount ≤ remaining))
    .next { smaller := tempSmaller, bigger := moved.reverse ++ bigger, selected := selected, sum := sum,
            remaining := remaining }

/-- One evaluation of the loop condition and body. -/
def loopStep (srt : Sorter) (m : Mint) (amount : UInt64) (includeFees : Bool) (st : LoopSt) : Step :=
  if st.remaining > 0 then
    match srt.desc st.smaller with
    | p :: rest => afterPick m amount includeFees st p rest st.bigger
    | [] =>
      match st.bigger with
      | p :: rest => afterPick m amount includeFees st p [] rest
      | [] => .done st
  else .done st

/-- The loop; `fuel` bounds the number of iterations (each one removes a proof from `smaller ++ bigger`,
    `Lemmas/Select.lean` proves `proofs.length + 1` is never exhausted). -/
def selectLoop (srt : Sorter) (m : Mint) (amount : UInt64) (includeFees : Bool) : Nat → LoopSt → LoopSt
  | 0, st => st
  | fuel + 1, st =>
    match loopStep srt m amount includeFees st with
    | .done st' => st'
    | .next st' => selectLoop srt m amount includeFees fuel st'

def initSt (srt : Sorter) (proofs : List P) (amount : UInt64) : LoopSt :=
  let sorted := srt.asc proofs
  { smaller := sorted.filter (fun p => p.amount ≤ amount)
    bigger := sorted.filter (fun p => !(p.amount ≤ amount))
    selected := []
    sum := 0
    remaining := amount }

/-- The final `if selectedProofsSum < amount+fees` test. -/
def finish (m : Mint) (amount : UInt64) (includeFees : Bool) (st : LoopSt) : SelResult :=
  let fees := feeOpt m includeFees st.selected
  if st.sum < amount + fees then .errFunds amount fees (amount + fees) else .ok st.selected

/-- `selectProofsToSend(proofs, amount, mint, includeFees)`. -/
def selectProofsToSend (srt : Sorter) (m : Mint) (proofs : List P) (amount : UInt64) (includeFees : Bool) :
    SelResult :=
  if proofsAmount proofs < amount then .errBalance
  else finish m amount includeFees
    (selectLoop srt m amount includeFees (proofs.length + 1) (initSt srt proofs amount))

/-! ## selectProofsForAmount -/

/-- `selectedProofs, _ = selectProofsToSend(…)`: the error is dropped, and on error the returned proofs are nil. -/
def SelResult.proofsDroppingError : SelResult → List P
  | .ok ps => ps
  | _ => []

/-- What `selectProofsForAmount` has after its `if len(inactiveKeysetProofs) > 0 { … }` block:
    `(selectedProofs, fees)`.  An error of the inner `selectProofsToSend` is dropped (`selectedProofs, _ =`),
    which leaves `selectedProofs` nil. -/
def inactivePart (srt : Sorter) (m : Mint) (inactive : List P) (amount : UInt64) (includeFees : Bool) :
    List P × UInt64 :=
  if inactive.length > 0 then
    let selected :=
      if proofsAmount inactive < amount then inactive
      else (selectProofsToSend srt m inactive amount includeFees).proofsDroppingError
    (selected, if includeFees then feesForProofs m selected else 0)
  else ([], 0)

/-- `(w *Wallet).selectProofsForAmount(amount, mint, includeFees)`; `inactive`/`active` are what
    `getInactiveProofsByMint` / `getActiveProofsByMint` return. -/
def selectProofsForAmount (srt : Sorter) (m : Mint) (inactive active : List P) (amount : UInt64)
    (includeFees : Bool) : SelResult :=
  let (selected, fees) := inactivePart srt m inactive amount includeFees
  let totalAmountNeeded := amount + fees
  let selectedAmount := proofsAmount selected
  if selectedAmount ≥ totalAmountNeeded then .ok selected
  else
    let remainingAmount := totalAmountNeeded - selectedAmount
    match selectProofsToSend srt m active remainingAmount includeFees with
    | .ok ps => .ok (selected ++ ps)
    | e => e

/-! ## splitWalletTarget -/

/-- `allPosibleAmounts`: `uint64(math.Pow(2, float64(i)))` for `i < crypto.MAX_ORDER` (= 60, `Tie.maxOrder`);
    every `2^i`, `i < 60`, is an exact float64, so this is `2^i`. -/
def allPossibleAmounts : List UInt64 := (List.range 60).map (fun i => UInt64.ofNat (2 ^ i))

/-- Number of iterations of `for i := 0; i < int(timesToAdd); i++` where
    `timesToAdd := cashu.Max(0, uint64(target)-uint64(count))`, `target = 3`: the subtraction wraps for
    `count > 3`, `Max(0, x) = x`, and `int(x)` is negative for `x ≥ 2^63`, so the loop body does not run. -/
def timesToAdd (count : Nat) : Nat :=
  let t : UInt64 := 3 - UInt64.ofNat count
  let t := if (0 : UInt64) > t then 0 else t   -- cashu.Max(0, t)
  if t.toNat < 2 ^ 63 then t.toNat else 0

def neededAmounts (amountsInWallet : List UInt64) : List UInt64 :=
  sortU64 (allPossibleAmounts.flatMap (fun a => List.replicate (timesToAdd (countEq amountsInWallet a)) a))

/-- The `for amountsSum < amountToSplit` loop: returns `(amounts, amountsSum)`. -/
def fillNeeded (amountToSplit : UInt64) : List UInt64 → List UInt64 → UInt64 → List UInt64 × UInt64
  | [], amounts, sum => (amounts, sum)
  | n :: rest, amounts, sum =>
    if sum < amountToSplit then
      if sum + n > amountToSplit then (amounts, sum)
      else fillNeeded amountToSplit rest (amounts ++ [n]) (sum + n)
    else (amounts, sum)

/-- `(w *Wallet).splitWalletTarget(amountToSplit, mint)`; `walletAmounts` are the amounts of
    `w.getProofsFromMint(mint)`. -/
def splitWalletTarget (walletAmounts : List UInt64) (amountToSplit : UInt64) : List UInt64 :=
  let amountsInWallet := sortU64 walletAmounts
  let (amounts, amountsSum) := fillNeeded amountToSplit (neededAmounts amountsInWallet) [] 0
  let remainingAmount := amountToSplit - amountsSum
  let amounts := if remainingAmount > 0 then amounts ++ amountSplit remainingAmount else amounts
  sortU64 amounts

/-! ## swapToSend arithmetic and getProofsForAmount -/

/-- `feesToReceive`: `feesForCount(len(splitForSendAmount)+1, activeSatKeyset)` when `includeFees`, else 0. -/
def feesToReceive (activePpk : UInt64) (amount : UInt64) (includeFees : Bool) : UInt64 :=
  if includeFees then feesForCount ((amountSplit amount).length + 1) activePpk else 0

/-- `split`: `append(splitForSendAmount, cashu.AmountSplit(uint64(feesToReceive))...)`, sorted: the amounts of
    the proofs the recipient gets. -/
def sendSplit (activePpk : UInt64) (amount : UInt64) (includeFees : Bool) : List UInt64 :=
  sortU64 (amountSplit amount ++ amountSplit (feesToReceive activePpk amount includeFees))

structure SwapPlan where
  /-- `amount` after `amount += uint64(feesToReceive)` -/
  amount' : UInt64
  feesToReceive : UInt64
  /-- `proofsToSwap` -/
  inputs : List P
  /-- amounts of the `send` blinded messages -/
  send : List UInt64
  proofsAmount : UInt64
  /-- `feesForProofs(proofsToSwap, mint)` -/
  fees : UInt64
  /-- `proofsAmount - amount - uint64(fees)` (unchecked) -/
  changeAmount : UInt64
  /-- amounts of the `change` blinded messages (empty when `changeAmount = 0`) -/
  change : List UInt64
  deriving DecidableEq, Repr

inductive SendOutcome where
  /-- stored proofs are handed over as they are -/
  | offline (ps : List P)
  /-- a swap request is built; the proofs handed over are the signed `plan.send` outputs (active keyset) -/
  | swap (plan : SwapPlan)
  | err (e : SelResult)
  deriving DecidableEq, Repr

/-- `swapToSend` up to the swap request (spending condition does not change any amount). -/
def swapToSend (srt : Sorter) (m : Mint) (inactive active : List P) (amount : UInt64) (includeFees : Bool) :
    SendOutcome :=
  let ftr := feesToReceive m.activePpk amount includeFees
  let amount' := amount + ftr
  match selectProofsForAmount srt m inactive active amount' true with
  | .ok proofsToSwap =>
    let split := sendSplit m.activePpk amount includeFees
    let pa := proofsAmount proofsToSwap
    let fees := feesForProofs m proofsToSwap
    let changeAmount := pa - amount' - fees
    let change := if changeAmount > 0 then splitWalletTarget (amounts (inactive ++ active)) changeAmount else []
    .swap { amount' := amount', feesToReceive := ftr, inputs := proofsToSwap, send := split,
            proofsAmount := pa, fees := fees, changeAmount := changeAmount, change := change }
  | e => .err e

/-- `getProofsForAmount`. -/
def getProofsForAmount (srt : Sorter) (m : Mint) (inactive active : List P) (amount : UInt64)
    (includeFees : Bool) : SendOutcome :=
  match selectProofsForAmount srt m inactive active amount includeFees with
  | .ok selectedProofs =>
    let fees := if includeFees then feesForProofs m selectedProofs else 0
    let totalAmount := amount + fees
    if proofsAmount selectedProofs == totalAmount then .offline selectedProofs
    else swapToSend srt m inactive active amount includeFees
  | e => .err e

/-! ## calculateBlankOutputs -/

/-- Number of binary digits. -/
def bitLen : Nat → Nat → Nat
  | 0, _ => 0
  | fuel + 1, n => if n = 0 then 0 else bitLen fuel (n / 2) + 1

/-- `float64(x)` for a `uint64` `x`, as the integer it denotes: round to nearest, ties to even, at 53 bits. -/
def roundTo53 (x : Nat) : Nat :=
  let l := bitLen 64 x
  if l ≤ 53 then x
  else
    let sh := l - 53
    let q := x / 2 ^ sh
    let r := x % 2 ^ sh
    let half := 2 ^ (sh - 1)
    let q := if r > half || (r == half && q % 2 == 1) then q + 1 else q
    q * 2 ^ sh

/-- `calculateBlankOutputs` computed exactly: `max(⌈log2 y⌉, 1)` for `y = float64(feeReserve)`, `0` for `0`.
    `⌈log2 y⌉` is `bitLen (y - 1)`.  What Go evaluates is `math.Ceil(math.Log2(y))` in float64; it equals this
    when `y` is a power of two (`math.Log2` is exact there) and whenever the float `log2 y` does not round
    down to the integer below, which is guaranteed for `y < 2^48`; see `blankOutputsCertain`.  (The conversion
    `float64(x)` itself is exact below `2^53` and rounds to nearest-even above: `roundTo53`.) -/
def calculateBlankOutputs (feeReserve : UInt64) : Nat :=
  if feeReserve = 0 then 0
  else
    let y := roundTo53 feeReserve.toNat
    max (bitLen 65 (y - 1)) 1

def isPow2 (n : Nat) : Bool := n != 0 && 2 ^ (bitLen 65 n - 1) == n

/-- Inputs for which the float evaluation provably equals `calculateBlankOutputs`: `0`, exact powers of two
    (after the conversion to float64; `math.Log2` returns the exponent exactly via `Frexp`), and everything
    below `2^48`.  For a non-power-of-two `y` with `⌊log2 y⌋ = k` the fractional part of `log2 y` is at least
    `log2(1 + 2^-k) ≈ 1.44·2^-k`; Go computes `Log(frac)*(1/Ln2) + float64(exp)` and the last addition rounds
    to the spacing of floats near `k`, `2^-47` for `32 ≤ k < 64` (finer below): for `k ≤ 47` the fractional
    part is at least 1.44 spacings, so the sum stays above `k` and `Ceil` yields `k+1`.  Outside (`k ≥ 48`,
    `y` slightly above `2^k`) the sum may round to `k` exactly: Go then returns `calculateBlankOutputs x - 1`
    (observed from `2^49 + 1` on; the harness accepts exactly these two values there and counts them). -/
def blankOutputsCertain (feeReserve : UInt64) : Bool :=
  feeReserve.toNat < 2 ^ 48 || isPow2 (roundTo53 feeReserve.toNat)

end Gonuts.Model.Select
