/-!
  Model.SpendBase — vocabulary shared by the executable model of the spending-condition code
  (`Model.Spend`, mirrors the Go) and by the declarative specification (`Spec.Spendable`, written
  from NUT-10/11/14).  Only *types*, the *wire constants* and models of two Go **standard library**
  functions live here (`strconv.ParseInt(·,10,·)`, `encoding/hex.DecodeString`); nothing of the
  repository's own logic.  Core Lean only.

  Symbolic view.  Signatures, public keys and 32-byte message digests are identifiers:
  * `Sig`  — one id per distinct signature STRING found in a witness (string equality = id equality),
  * `Key`  — one id per distinct secp256k1 point (two encodings of one point share the id),
  * `Msg`  — one id per distinct 32-byte digest (`sha256(secret)`, `sha256(hexdecode B_)`, `sha256(B_ text)`).
  BIP-340 verification is the parameter `Env.valid`.
-/
namespace Gonuts.Model.Spend

abbrev Sig := Nat
abbrev Key := Nat
abbrev Msg := Nat

/-- nut10.SecretKind -/
inductive Kind where
  | anyone | p2pk | htlc
  deriving DecidableEq, Repr, Inhabited

/-- nut10.WellKnownSecret after `DeserializeSecret` (the nonce plays no role in any check). -/
structure Secret where
  kind : Kind
  data : String
  tags : List (List String)
  deriving DecidableEq, Repr, Inhabited

/-- What `json.Unmarshal(witness, &P2PKWitness|HTLCWitness)` leaves behind.
    `jsonOk = false` ⇔ Unmarshal returned an error (the field values are whatever was filled in). -/
structure Witness where
  jsonOk : Bool
  signatures : List Sig
  preimage : String
  deriving DecidableEq, Repr, Inhabited

/-- The parameters every check is relative to. -/
structure Env where
  /-- `ParseSignature(sigstr)` succeeds and `sig.Verify(msg, key)` holds. -/
  valid : Sig → Key → Msg → Bool
  /-- `nut11.ParsePublicKey` (hex decode + btcec.ParsePubKey); `none` = error. -/
  parseKey : String → Option Key
  /-- `hex.EncodeToString(sha256(bytes))` -/
  sha256hex : List UInt8 → String
  /-- `time.Now().Local().Unix()` -/
  now : Int

/-! ## wire constants (tied to the source by `Tie.Spend`) -/
def SIGFLAG : String := "sigflag"
def NSIGS : String := "n_sigs"
def PUBKEYS : String := "pubkeys"
def LOCKTIME : String := "locktime"
def REFUND : String := "refund"
def SIGINPUTS : String := "SIG_INPUTS"
def SIGALL : String := "SIG_ALL"

/-! ## Go standard library: `strconv.ParseInt(s, 10, bits)` -/

/-- Syntax of a base-10 integer as `strconv.ParseInt(s,10,_)` accepts it: optional `+`/`-`, then one or
    more ASCII digits (no underscores in base 10, no spaces).  Value unbounded. -/
def decimal? (s : String) : Option Int :=
  let cs := s.toList
  let (neg, ds) : Bool × List Char :=
    match cs with
    | '+' :: r => (false, r)
    | '-' :: r => (true, r)
    | _ => (false, cs)
  if ds.isEmpty || !(ds.all Char.isDigit) then none
  else
    let v : Nat := ds.foldl (fun a c => a * 10 + (c.toNat - '0'.toNat)) 0
    some (if neg then -(v : Int) else (v : Int))

/-- `strconv.ParseInt(s, 10, bits)`; `none` = `err != nil` (syntax or range). -/
def parseInt (s : String) (bits : Nat) : Option Int :=
  match decimal? s with
  | none => none
  | some v => if -(2 ^ (bits - 1) : Int) ≤ v ∧ v < (2 ^ (bits - 1) : Int) then some v else none

/-! ## Go standard library: `encoding/hex.DecodeString` -/

def hexVal? (c : Char) : Option Nat :=
  if '0' ≤ c ∧ c ≤ '9' then some (c.toNat - '0'.toNat)
  else if 'a' ≤ c ∧ c ≤ 'f' then some (c.toNat - 'a'.toNat + 10)
  else if 'A' ≤ c ∧ c ≤ 'F' then some (c.toNat - 'A'.toNat + 10)
  else none

def hexDecodeChars : List Char → Option (List UInt8)
  | [] => some []
  | [_] => none                                   -- odd length (or bad char): error either way
  | a :: b :: rest =>
    match hexVal? a, hexVal? b, hexDecodeChars rest with
    | some x, some y, some bs => some (UInt8.ofNat (x * 16 + y) :: bs)
    | _, _, _ => none

/-- `hex.DecodeString`; `none` = error (odd length or a non-hex character; both cases accepted alike by
    every caller in scope). Upper- and lower-case digits are accepted, as in Go. -/
def hexDecode (s : String) : Option (List UInt8) := hexDecodeChars s.toList

end Gonuts.Model.Spend
