import Gonuts.Model.Mint
/-!
  Interleaved and interrupted executions of the mint model: threads are suspended programs; one scheduler
  step performs exactly ONE storage / Lightning effect of one thread on the shared world (the granularity at
  which C01, C03 and C07 quantify over schedules, crash points and injected storage errors).
-/
namespace Gonuts.Model.Mint

/-- Label of any effect as the harness's gate sees it. -/
def Eff.gateLabel : Eff α → String
  | .lnCreateInvoice _ => "ln.CreateInvoice"
  | .lnInvoiceStatus _ => "ln.InvoiceStatus"
  | .lnSendPayment _ _ => "ln.SendPayment"
  | .lnPayPartial _ _ _ => "ln.PayPartialAmount"
  | .lnOutgoingStatus _ => "ln.OutgoingPaymentStatus"
  | .lnFeeReserve _ => "ln.FeeReserve"
  | e => (e.label).getD "?"

/-- A request running as a thread: the program of the operation, closed over the keyset cache it started with. -/
def threadProg (s : Sess) : Op → Option (Prog (Res × Option Mem))
  | .swap ps outs v => some ((swap (cxOf s) ps outs v).run >>= fun r => pure (.sigs r, none))
  | .mint q outs sig => some ((mintTokens (cxOf s) q outs sig).run >>= fun r => pure (.sigs r, none))
  | .melt q ps _ _ => some ((meltTokens (cxOf s) q ps).run >>= fun r => pure (.melt r, none))
  | .meltState q _ => some ((getMeltQuoteState q).run >>= fun r => pure (.melt r, none))
  | .quoteState q _ => some ((getMintQuoteState q).run >>= fun r => pure (.quoteState r, none))
  | .checkState ys _ => some ((proofsStateCheck ys).run >>= fun r => pure (.states r, none))
  | .notify q => some ((watcherNotified q).run >>= fun r => pure (.notify (match r with | .ok b => some b | .error _ => some false), none))
  | .restore bs => some ((restoreSigs bs).run >>= fun r => pure (.restored r, none))
  | .rotate fee => some ((rotateKeyset s.w.mem fee) >>= fun (mem', r) => pure (.rotated r, some mem'))
  | _ => none

structure CSess where
  s : Sess := {}
  threads : List (Nat × Prog (Res × Option Mem)) := []
  /-- the operation each thread runs (for rendering its result only) -/
  ops : List (Nat × Op) := []

/-- Start a request as a thread under a thread id that is not in use.  A notification thread exists only if the
    quote's watcher is subscribed. -/
def spawn (c : CSess) (tid : Nat) (op : Op) : Option CSess :=
  if c.threads.any (·.1 == tid) then none else
  match op with
  | .notify q =>
    if c.s.watchers.contains q then
      (threadProg c.s op).map fun p =>
        { c with s := { c.s with watchers := c.s.watchers.filter (· != q) }, threads := c.threads ++ [(tid, p)], ops := c.ops ++ [(tid, op)] }
    else none
  | _ => (threadProg c.s op).map fun p => { c with threads := c.threads ++ [(tid, p)], ops := c.ops ++ [(tid, op)] }

/-- What a thread is about to do. -/
def Prog.next {α : Type} : Prog α → Option String
  | .ret _ => none
  | .eff e _ => some e.gateLabel

/-- The world a step's effect is performed on: with `fault`, the effect (a storage call) returns the injected error
    instead of being performed. -/
def stepWorld (c : CSess) (fault : Bool) : World :=
  if fault then { c.s.w with faultAt := some c.s.w.nDb } else c.s.w

/-- A finishing keyset rotation publishes the keyset cache it built. -/
def finishMem (p : Prog (Res × Option Mem)) (w : World) : Prog (Res × Option Mem) × World :=
  match p with
  | .ret (res, some m) => (.ret (res, none), { w with mem := m })
  | p => (p, w)

/-- One scheduler step of thread `tid`: perform its next effect on the shared world. -/
def stepThread (c : CSess) (tid : Nat) (fault : Bool) : CSess × Option String :=
  match c.threads.find? (·.1 == tid) with
  | none => (c, none)
  | some (_, .ret _) => (c, none)
  | some (_, .eff e k) =>
    let x := exec (stepWorld c fault) e
    let y := finishMem (k x.2) { x.1 with faultAt := none }
    ({ c with s := { c.s with w := y.2 }, threads := c.threads.map (fun t => if t.1 == tid then (tid, y.1) else t) },
     some e.gateLabel)

/-- Result of a finished thread. -/
def threadResult (c : CSess) (tid : Nat) : Option Res :=
  match c.threads.find? (·.1 == tid) with
  | some (_, .ret r) => some r.1
  | _ => none

/-- `LoadMint` dereferences the active keyset: with none marked active in storage the process dies at start-up. -/
def loadOk (db : DB) : Bool := db.keysets.any (·.active)

/-- Process kill and restart on the same data directory: every thread is gone (no continuation survives), the
    keyset cache is rebuilt from storage, every invoice watcher is dead. -/
def crashAll (c : CSess) : CSess :=
  { s := { w := { c.s.w with mem := memOfDb c.s.w.db, faultAt := none }, watchers := [] }, threads := [], ops := [] }

/-- Run a schedule: a list of (thread id, fault?) choices. -/
def runSchedule (c : CSess) : List (Nat × Bool) → CSess
  | [] => c
  | (tid, f) :: rest => runSchedule (stepThread c tid f).1 rest

/-- Everything that can happen to a running mint, at the granularity the properties quantify over: a request
    arrives and becomes a thread; the scheduler lets one thread perform one storage / Lightning call (or that call
    fails with a storage error); the process is killed and restarted; an operation runs undisturbed (the sequential
    machine, also used for everything that is not a request: invoices being settled, rotation, clean restart). -/
inductive CEvt where
  | spawn (tid : Nat) (op : Op)
  | step (tid : Nat) (fault : Bool)
  | crash
  | seq (op : Op)
  | script (answers : List LnAns)     -- the backend's next answers

def applyCEvt (c : CSess) : CEvt → CSess
  | .spawn tid op => (spawn c tid op).getD c
  | .step tid f => (stepThread c tid f).1
  | .crash => crashAll c
  | .seq op => { c with s := (applyOp c.s op).1 }
  | .script a => { c with s := { c.s with w := { c.s.w with ln := { c.s.w.ln with script := a } } } }

def runCEvts (c : CSess) : List CEvt → CSess
  | [] => c
  | e :: rest => runCEvts (applyCEvt c e) rest

/-- A fresh mint with no request in flight. -/
def initC (fee : UInt64) (feePct : Bool) (cfg : Cfg) : CSess := { s := initSess fee feePct cfg }

/-- Thread `tid` has returned and its answer is a success. -/
def finishedOk (c : CSess) (tid : Nat) : Bool :=
  match threadResult c tid with
  | some (.sigs (.ok _)) => true
  | some (.melt (.ok q)) => q.state != .unpaid
  | _ => false

/-- The secrets thread `tid` presented. -/
def presented (c : CSess) (tid : Nat) : List Nat :=
  match c.ops.find? (·.1 == tid) with
  | some (_, .swap ps _ _) => ps.map (·.secret)
  | some (_, .melt _ ps _ _) => ps.map (·.secret)
  | _ => []

/-- The mint quote thread `tid` asked to be issued. -/
def mintedQuote (c : CSess) (tid : Nat) : Option Int :=
  match c.ops.find? (·.1 == tid) with
  | some (_, .mint q _ _) => some q
  | _ => none

end Gonuts.Model.Mint
