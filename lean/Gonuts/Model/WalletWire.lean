/-
  Model.WalletWire (C08): what a wallet puts on the wire.

  Every HTTP request body the wallet builds is a TAGGED TREE: a JSON-shaped tree whose leaves say what kind of
  value travels (public text, a number, a curve point, the mint's DLEQ transcript, a secret in clear, a blinding
  factor).  The request builders mirror the composite literals of /repo/wallet/wallet.go and restore.go and the
  JSON tags of /repo/cashu/cashu.go line by line (ties: Gonuts/Tie/WalletWire.lean); the operation paths mirror the
  wallet API functions, with everything the wallet does not decide here (coin selection, the split, the mint's
  answers, errors) as explicit oracle arguments, so the theorems quantify over all of them.

  Identities: a secret is a `Nat` (id of the secret string), a blinding factor is a `Nat` (id of the scalar r).
  An `Output` is what `createBlindedMessages` / `blindedMessagesFromSpendingCondition` return for one amount:
  the blinded message together with ITS secret and ITS r (the Go keeps them in three parallel slices).

  CORE LEAN ONLY (the driver links this file).
-/
namespace Gonuts.Model.WalletWire

/-! ## tagged trees -/

inductive Leaf where
  /-- public text: quote ids, keyset ids, unit, invoices, public keys, signatures, witness JSON -/
  | pub (s : String)
  /-- a number (amounts) -/
  | num (n : Nat)
  /-- a curve point computed from the secret with id `s`: kind "B_" (blinded with the output's r), "C" (unblinded
      signature), "Y" (hash_to_curve of the secret) -/
  | point (kind : String) (s : Nat)
  /-- the mint's DLEQ challenge `e` (id) for the blind signature it issued -/
  | dleqE (e : Nat)
  /-- the mint's DLEQ response `s` (id) for the blind signature it issued -/
  | dleqS (s : Nat)
  /-- a blinding factor r in clear -/
  | blindingFactor (r : Nat)
  /-- the secret of a wallet output / of an unspent proof in clear (rendered from a value that is not an input of
      the request being built: tokens and proofs handed to the caller) -/
  | outputSecret (s : Nat)
  /-- the secret of a proof rendered as an element of a request's `inputs` -/
  | inputSecret (s : Nat)
  deriving DecidableEq, Repr, Inhabited

inductive Tree where
  | leaf (l : Leaf)
  | node (fields : List (String × Tree))
  | arr (items : List Tree)
  deriving Repr, Inhabited

/-- Paths use the field names; array elements are the path component "[]". -/
abbrev Path := List String

mutual
/-- all leaves with their paths, in document order -/
def Tree.leaves : Tree → List (Path × Leaf)
  | .leaf l => [([], l)]
  | .node fs => leavesFields fs
  | .arr xs => leavesItems xs
def leavesFields : List (String × Tree) → List (Path × Leaf)
  | [] => []
  | (k, t) :: rest => (t.leaves.map fun pl => (k :: pl.1, pl.2)) ++ leavesFields rest
def leavesItems : List Tree → List (Path × Leaf)
  | [] => []
  | t :: rest => (t.leaves.map fun pl => ("[]" :: pl.1, pl.2)) ++ leavesItems rest
end

def Leaf.isBlinding : Leaf → Bool
  | .blindingFactor _ => true
  | _ => false

/-- the secret a leaf shows in clear, under either tag -/
def Leaf.clearSecret : Leaf → Option Nat
  | .outputSecret s => some s
  | .inputSecret s => some s
  | _ => none

/-- the mint's own DLEQ transcript (e, s): it identifies the blind signature it was issued with -/
def Leaf.isTranscript : Leaf → Bool
  | .dleqE _ => true
  | .dleqS _ => true
  | _ => false

/-! ## wallet-side data -/

/-- cashu.DLEQProof as the wallet holds it: `r` is the empty string or the hex of the blinding factor -/
structure DLEQ where
  e : Nat
  s : Nat
  r : Option Nat
  deriving DecidableEq, Repr, Inhabited

/-- cashu.Proof as the wallet holds it (store, pending, token): `C` is determined by the secret; `witness` says
    whether the Witness string is non-empty; `dleq` is the pointer. -/
structure WProof where
  amount : Nat
  id : String
  secret : Nat
  witness : Bool := false
  dleq : Option DLEQ := none
  deriving DecidableEq, Repr, Inhabited

/-- one element of the three parallel slices (blindedMessages, secrets, rs) -/
structure Output where
  amount : Nat
  id : String
  secret : Nat
  r : Nat
  witness : Bool := false
  deriving DecidableEq, Repr, Inhabited

/-- a blind signature in a mint answer: DLEQ {e, s} optional; `valid` = key found for the amount, DLEQ verifies,
    C_ parses (everything `constructProofs` checks) -/
structure Sig where
  amount : Nat
  id : String
  dleq : Option (Nat × Nat) := none
  valid : Bool := true
  deriving DecidableEq, Repr, Inhabited

/-! ## JSON rendering (cashu/cashu.go struct tags) -/

/-- json name and `omitempty` of each field, in struct order -/
abbrev FieldTable := List (String × Bool)

/-- the Go struct tag of a field -/
def goTag (f : String × Bool) : String := if f.2 then f.1 ++ ",omitempty" else f.1

/-- cashu.Proof -/
def proofFields : FieldTable :=
  [("amount", false), ("id", false), ("secret", false), ("C", false), ("witness", true), ("dleq", true)]
/-- cashu.DLEQProof -/
def dleqFields : FieldTable := [("e", false), ("s", false), ("r", true)]
/-- cashu.BlindedMessage -/
def blindedMessageFields : FieldTable := [("amount", false), ("B_", false), ("id", false), ("witness", true)]
/-- nut03.PostSwapRequest -/
def swapReqFields : FieldTable := [("inputs", false), ("outputs", false)]
/-- nut04.PostMintBolt11Request -/
def mintReqFields : FieldTable := [("quote", false), ("outputs", false), ("signature", true)]
/-- nut04.PostMintQuoteBolt11Request -/
def mintQuoteReqFields : FieldTable := [("amount", false), ("unit", false), ("pubkey", true)]
/-- nut05.PostMeltBolt11Request -/
def meltReqFields : FieldTable := [("quote", false), ("inputs", false), ("outputs", true)]
/-- nut05.PostMeltQuoteBolt11Request -/
def meltQuoteReqFields : FieldTable := [("request", false), ("unit", false), ("options", true)]
/-- nut07.PostCheckStateRequest -/
def checkStateReqFields : FieldTable := [("Ys", false)]
/-- nut09.PostRestoreRequest -/
def restoreReqFields : FieldTable := [("outputs", false)]

/-- the keys of an object -/
def Tree.keys : Tree → List String
  | .node fs => fs.map (·.1)
  | _ => []

/-- the keys encoding/json emits for a struct: every field that is not `omitempty`, and an `omitempty` field iff
    `present` says its value is non-empty -/
def emitted (t : FieldTable) (present : String → Bool) : List String :=
  (t.filter fun f => !f.2 || present f.1).map (·.1)

/-- `DLEQProof`: `e`, `s` always, `r` iff non-empty -/
def renderDLEQ (d : DLEQ) : Tree :=
  .node ([("e", .leaf (.dleqE d.e)), ("s", .leaf (.dleqS d.s))] ++
    (match d.r with
     | some r => [("r", .leaf (.blindingFactor r))]
     | none => []))

/-- who reads the rendered proof: a mint (element of `inputs`) or the wallet's own caller -/
inductive Role where
  | input
  | caller
  deriving DecidableEq, Repr

def Role.secretLeaf : Role → Nat → Leaf
  | .input, s => .inputSecret s
  | .caller, s => .outputSecret s

/-- `Proof`: `witness` iff non-empty, `dleq` iff the pointer is set -/
def renderProof (role : Role) (p : WProof) : Tree :=
  .node ([("amount", .leaf (.num p.amount)), ("id", .leaf (.pub p.id)), ("secret", .leaf (role.secretLeaf p.secret)),
      ("C", .leaf (.point "C" p.secret))] ++
    (if p.witness then [("witness", .leaf (.pub "witness"))] else []) ++
    (match p.dleq with
     | some d => [("dleq", renderDLEQ d)]
     | none => []))

/-- `BlindedMessage`: `{amount, B_, id}` and `witness` iff non-empty.  Neither the secret nor r is a field. -/
def renderOutput (o : Output) : Tree :=
  .node ([("amount", .leaf (.num o.amount)), ("B_", .leaf (.point "B_" o.secret)), ("id", .leaf (.pub o.id))] ++
    (if o.witness then [("witness", .leaf (.pub "witness"))] else []))

/-! ## requests -/

inductive Endpoint where
  | mintQuote   -- POST /v1/mint/quote/bolt11
  | mint        -- POST /v1/mint/bolt11
  | meltQuote   -- POST /v1/melt/quote/bolt11
  | melt        -- POST /v1/melt/bolt11
  | swap        -- POST /v1/swap
  | checkState  -- POST /v1/checkstate
  | restore     -- POST /v1/restore
  | get (what : String)  -- GET requests: no body; the URL carries a quote id or keyset id only
  deriving DecidableEq, Repr

/-- A request as the mint sees it (`body`) plus a ghost field: the proofs the Go passes as `Inputs:` of this very
    request (empty for requests without inputs). -/
structure Req where
  ep : Endpoint
  body : Tree
  inputs : List WProof := []
  deriving Repr

/-- `nut04.PostMintQuoteBolt11Request{Amount, Unit, Pubkey}` (RequestMint always sets the NUT-20 public key) -/
def postMintQuoteReq (amount : Nat) : Req :=
  { ep := .mintQuote,
    body := .node [("amount", .leaf (.num amount)), ("unit", .leaf (.pub "sat")), ("pubkey", .leaf (.pub "pubkey"))] }

/-- `nut05.PostMeltQuoteBolt11Request{Request, Unit}` (`options` is omitempty and only set by MultiMintPayment) -/
def postMeltQuoteReq : Req :=
  { ep := .meltQuote, body := .node [("request", .leaf (.pub "invoice")), ("unit", .leaf (.pub "sat"))] }

/-- `nut04.PostMintBolt11Request{Quote: quoteId, Outputs: blindedMessages, Signature: signature}`;
    `signature` is omitempty (set iff the quote has a NUT-20 key) -/
def postMintReq (quote : String) (outs : List Output) (signed : Bool) : Req :=
  { ep := .mint,
    body := .node ([("quote", .leaf (.pub quote)), ("outputs", .arr (outs.map renderOutput))] ++
      (if signed then [("signature", .leaf (.pub "signature"))] else [])) }

/-- `nut03.PostSwapRequest{Inputs: <ins>, Outputs: <outs>}`: `ins` are rendered exactly as the Go value is,
    i.e. with `witness` and `dleq` whenever the proof carries them (since the fix of F5 the call sites pass
    `inputsWithoutDLEQ(..)`). -/
def postSwapReq (ins : List WProof) (outs : List Output) : Req :=
  { ep := .swap,
    body := .node [("inputs", .arr (ins.map (renderProof .input))), ("outputs", .arr (outs.map renderOutput))],
    inputs := ins }

/-- `nut05.PostMeltBolt11Request{Quote, Inputs, Outputs}`; `outputs` is omitempty (absent for an empty list) -/
def postMeltReq (quote : String) (ins : List WProof) (outs : List Output) : Req :=
  { ep := .melt,
    body := .node ([("quote", .leaf (.pub quote)), ("inputs", .arr (ins.map (renderProof .input)))] ++
      (if outs.isEmpty then [] else [("outputs", .arr (outs.map renderOutput))])),
    inputs := ins }

/-- `nut07.PostCheckStateRequest{Ys: Ys}`: Y = hash_to_curve(secret) of each pending proof -/
def postCheckStateReq (secrets : List Nat) : Req :=
  { ep := .checkState, body := .node [("Ys", .arr (secrets.map fun s => .leaf (.point "Y" s)))] }

/-- `nut09.PostRestoreRequest{Outputs: blindedMessages}` with `cashu.BlindedMessage{B_: B_str, Id: keyset.Id}`
    (amount stays 0, no witness) -/
def postRestoreReq (outs : List Output) : Req :=
  { ep := .restore,
    body := .node [("outputs", .arr (outs.map fun o => renderOutput { o with amount := 0, witness := false }))] }

def getReq (what : String) : Req := { ep := .get what, body := .node [] }

/-! ## helpers of wallet.go -/

/-- wallet state as far as the wire is concerned: `store` = db.GetProofs (proofs as saved, with their DLEQ),
    `pending` = db.GetPendingProofs (DBProof keeps the DLEQ too) -/
structure WState where
  store : List WProof := []
  pending : List WProof := []
  deriving Repr, Inhabited

/-- outcome of running (part of) a wallet API call: requests sent in order, the new state, the value returned to the
    caller (`none` = the Go returned an error) -/
structure Run (α : Type) where
  reqs : List Req
  st : WState
  ret : Option α

/-- `inputsWithoutDLEQ` (wallet.go, fix of F5): a copy of the proofs with `DLEQ = nil`; witness and everything else
    stay; the caller's proofs are not touched -/
def inputsWithoutDLEQ (proofs : List WProof) : List WProof := proofs.map fun proof => { proof with dleq := none }

/-- `constructProofs` (wallet.go 1713-1768): lengths must match, every signature must check; the proof gets
    `DLEQ{E, S, R: hex(rs[i])}` iff the blind signature carried a DLEQ -/
def constructProofs : List Sig → List Output → Option (List WProof)
  | [], [] => some []
  | sg :: sigs, o :: outs =>
    if sg.valid then
      match constructProofs sigs outs with
      | some rest =>
        some ({ amount := sg.amount, id := sg.id, secret := o.secret,
                dleq := sg.dleq.map fun es => { e := es.1, s := es.2, r := some o.r } } :: rest)
      | none => none
    else none
  | _, _ => none

/-- `cashu.SortBlindedMessages`: ascending by amount (the three slices are permuted together, so an `Output` moves as
    a whole) -/
def insertOutput (o : Output) : List Output → List Output
  | [] => [o]
  | x :: xs => if o.amount ≤ x.amount then o :: x :: xs else x :: insertOutput o xs

def sortOutputs : List Output → List Output
  | [] => []
  | o :: os => insertOutput o (sortOutputs os)

/-- `nut11.AddSignatureToInputs` / `nut14.AddWitnessHTLC`: every proof gets a witness -/
def addWitnessToInputs (ps : List WProof) : List WProof := ps.map fun p => { p with witness := true }

/-- `nut11.AddSignatureToOutputs` / `nut14.AddWitnessHTLCToOutputs`: every output gets a witness -/
def addWitnessToOutputs (os : List Output) : List Output := os.map fun o => { o with witness := true }

/-- `w.db.DeleteProof(proof.Secret)` for each proof of `ps` -/
def deleteProofs (store ps : List WProof) : List WProof :=
  store.filter fun q => !(ps.any fun p => p.secret == q.secret)

/-- the loop of swapToSend 1446-1455: for each send message the first remaining proof of the same amount -/
def takeByAmount : List Nat → List WProof → List WProof × List WProof
  | [], ps => ([], ps)
  | a :: as, ps =>
    match ps.find? (fun p => p.amount == a) with
    | some p =>
      let (sent, rest) := takeByAmount as (ps.erase p)
      (p :: sent, rest)
    | none =>
      let (sent, rest) := takeByAmount as ps
      ({ amount := 0, id := "", secret := 0 } :: sent, rest) -- zero-value Proof left in proofsToSend[i]

/-! ## operation paths -/

/-- `swap()`: `nut03.PostSwapRequest{Inputs: inputsWithoutDLEQ(swapRequest.inputs), Outputs: swapRequest.outputs}`,
    then constructProofs.  `ans = none`: PostSwap returned an error. -/
def swap (st : WState) (inputs : List WProof) (outputs : List Output) (ans : Option (List Sig)) : Run (List WProof) :=
  let request := postSwapReq (inputsWithoutDLEQ inputs) outputs
  match ans with
  | none => { reqs := [request], st := st, ret := none }
  | some sigs => { reqs := [request], st := st, ret := constructProofs sigs outputs }

/-- `swapToSend` (wallet.go 1362-1468).  Oracles: `proofsToSwap` = result of selectProofsForAmount (stored proofs as
    they are), `send` / `change` = the outputs created for the send amount (from the counter, or locked with random r)
    and for the change, `ans` = the mint's answer. -/
def swapToSend (st : WState) (proofsToSwap : List WProof) (send change : List Output) (ans : Option (List Sig)) :
    Run (List WProof) :=
  let blindedMessages := sortOutputs (send ++ change)
  -- swapRequest := nut03.PostSwapRequest{Inputs: inputsWithoutDLEQ(proofsToSwap), Outputs: blindedMessages}
  let swapRequest := postSwapReq (inputsWithoutDLEQ proofsToSwap) blindedMessages
  match ans with
  | none => { reqs := [swapRequest], st := st, ret := none }
  | some sigs =>
    let st1 := { st with store := deleteProofs st.store proofsToSwap }
    match constructProofs sigs blindedMessages with
    | none => { reqs := [swapRequest], st := st1, ret := none }
    | some proofsFromSwap =>
      let (proofsToSend, rest) := takeByAmount (send.map (·.amount)) proofsFromSwap
      { reqs := [swapRequest], st := { st1 with store := st1.store ++ rest }, ret := some proofsToSend }

/-- what `getProofsForAmount` does (wallet.go 1472-1504): selection fails, or the offline selection adds up exactly
    (proofs deleted from the store and returned, no request), or `swapToSend` -/
inductive Sel where
  | fail
  | exact (selected : List WProof)
  | viaSwap (proofsToSwap : List WProof) (send change : List Output) (ans : Option (List Sig))
  deriving Repr

def getProofsForAmount (st : WState) : Sel → Run (List WProof)
  | .fail => { reqs := [], st := st, ret := none }
  | .exact sel => { reqs := [], st := { st with store := deleteProofs st.store sel }, ret := some sel }
  | .viaSwap pts send change ans => swapToSend st pts send change ans

/-- `Send` (wallet.go 411-429): getProofsForAmount, then AddPendingProofs; the proofs go to the caller AS THEY ARE
    (with DLEQ, on purpose) -/
def send (st : WState) (sel : Sel) : Run (List WProof) :=
  let r := getProofsForAmount st sel
  match r.ret with
  | none => r
  | some ps => { r with st := { r.st with pending := r.st.pending ++ ps } }

/-- `SendToPubkey` / `HTLCLockedProofs` (wallet.go 432-524): GET /v1/info, then swapToSend with a spending condition
    (the `send` outputs carry NUT-10 secrets and random r) -/
def sendLocked (st : WState) (infoOk : Bool) (proofsToSwap : List WProof) (send change : List Output)
    (ans : Option (List Sig)) : Run (List WProof) :=
  if infoOk then
    let r := swapToSend st proofsToSwap send change ans
    { r with reqs := getReq "info" :: r.reqs }
  else { reqs := [getReq "info"], st := st, ret := none }

/-- `MintQuoteState` + `MintTokens` (wallet.go 278-408).  `quoteState`: none = quote already ISSUED locally (no GET);
    some none = GET failed; some (some paid?) = the mint's state is PAID or not. -/
def mintTokens (st : WState) (quote : String) (quoteState : Option (Option Bool)) (signed : Bool) (outs : List Output)
    (ans : Option (List Sig)) : Run Nat :=
  match quoteState with
  | none => { reqs := [], st := st, ret := none }
  | some none => { reqs := [getReq "mintquote"], st := st, ret := none }
  | some (some false) => { reqs := [getReq "mintquote"], st := st, ret := none }
  | some (some true) =>
    -- 375: postMintRequest := nut04.PostMintBolt11Request{Quote: quoteId, Outputs: blindedMessages, Signature: signature}
    let postMintRequest := postMintReq quote outs signed
    match ans with
    | none => { reqs := [getReq "mintquote", postMintRequest], st := st, ret := none }
    | some sigs =>
      match constructProofs sigs outs with
      | none => { reqs := [getReq "mintquote", postMintRequest], st := st, ret := none }
      | some proofs =>
        { reqs := [getReq "mintquote", postMintRequest], st := { st with store := st.store ++ proofs },
          ret := some (proofs.map (·.amount)).sum }

/-- how the quote loop of swapProofs ends -/
inductive QuoteLoopEnd where
  | ok            -- both quotes obtained, amounts fit: break
  | mintQuoteErr  -- RequestMint failed
  | meltQuoteErr  -- PostMeltQuoteBolt11 failed
  deriving DecidableEq, Repr

/-- oracles of `swapProofs`: `retries` full iterations whose melt quote was too expensive, how the last iteration
    ends, the melt answer (none = error, some paid?), and the oracles of the final `MintTokens` -/
structure SwapProofsOracle where
  retries : Nat := 0
  loopEnd : QuoteLoopEnd := .ok
  meltPaid : Option Bool := some true
  mintQuoteState : Option (Option Bool) := some (some true)
  mintOuts : List Output := []
  mintAns : Option (List Sig) := none
  deriving Repr

/-- `swapProofs` (wallet.go 1157-1210): mint quote at `to` + melt quote at `from` until the amounts fit, then
    `nut05.PostMeltBolt11Request{Quote: meltQuoteResponse.Quote, Inputs: inputsWithoutDLEQ(proofs)}` at `from` (no
    outputs), then
    MintTokens at `to`. -/
def swapProofs (st : WState) (proofs : List WProof) (o : SwapProofsOracle) : Run Nat :=
  let round := [postMintQuoteReq 0, postMeltQuoteReq]
  let retries := (List.replicate o.retries round).flatten
  match o.loopEnd with
  | .mintQuoteErr => { reqs := retries ++ [postMintQuoteReq 0], st := st, ret := none }
  | .meltQuoteErr => { reqs := retries ++ round, st := st, ret := none }
  | .ok =>
    -- meltBolt11Request := nut05.PostMeltBolt11Request{Quote: meltQuoteResponse.Quote, Inputs: inputsWithoutDLEQ(proofs)}
    let meltBolt11Request := postMeltReq "quote" (inputsWithoutDLEQ proofs) []
    match o.meltPaid with
    | some true =>
      let m := mintTokens st "quote" o.mintQuoteState true o.mintOuts o.mintAns
      { m with reqs := retries ++ round ++ [meltBolt11Request] ++ m.reqs }
    | _ => { reqs := retries ++ round ++ [meltBolt11Request], st := st, ret := none }

/-- `createSwapRequest` + optional output witnesses + `swap()` + save (the tail shared by Receive, ReceiveHTLC) -/
def swapAndSave (st : WState) (inputs : List WProof) (outs : List Output) (sigAll : Bool) (ans : Option (List Sig)) :
    Run Nat :=
  let outputs := if sigAll then addWitnessToOutputs outs else outs
  let r := swap st inputs outputs ans
  match r.ret with
  | none => { reqs := r.reqs, st := r.st, ret := none }
  | some newProofs =>
    { reqs := r.reqs, st := { r.st with store := r.st.store ++ newProofs }, ret := some (newProofs.map (·.amount)).sum }

/-- oracles of `Receive` -/
structure ReceiveOracle where
  dleqOk : Bool := true          -- nut12.VerifyProofsDLEQ
  p2pk : Bool := false           -- first secret is a NUT-10 P2PK secret
  canSign : Bool := true         -- nut11.CanSign: the lock's public key is the wallet's
  sigAll : Bool := false         -- SIG_ALL flag
  swapToTrusted : Bool := false  -- after the "already default mint" override
  outs : List Output := []       -- createSwapRequest's outputs (split of amount - fees from the counter)
  ans : Option (List Sig) := none
  trusted : SwapProofsOracle := {}
  deriving Repr

/-- `Receive` (wallet.go 528-612) and `swapToTrusted` (736-765).  `token` = token.Proofs(), i.e. proofs as the sender
    serialised them: with or without `dleq{e,s,r}`. -/
def receive (st : WState) (token : List WProof) (o : ReceiveOracle) : Run Nat :=
  if !o.dleqOk then { reqs := [], st := st, ret := none } else
  if o.p2pk && !o.canSign then { reqs := [], st := st, ret := none } else
  let proofsToSwap := if o.p2pk then addWitnessToInputs token else token
  if o.swapToTrusted then
    if o.p2pk && o.sigAll then
      -- swapToTrusted 742-755: swap at the token's mint first, the NEW proofs are melted
      let r := swap st proofsToSwap (addWitnessToOutputs o.outs) o.ans
      match r.ret with
      | none => { reqs := getReq "keysets" :: r.reqs, st := r.st, ret := none }
      | some newProofs =>
        let t := swapProofs r.st newProofs o.trusted
        { t with reqs := getReq "keysets" :: r.reqs ++ t.reqs }
    else
      let t := swapProofs st proofsToSwap o.trusted
      { t with reqs := getReq "keysets" :: t.reqs }
  else
    swapAndSave st proofsToSwap o.outs (o.p2pk && o.sigAll) o.ans

/-- `ReceiveHTLC` (wallet.go 617-679): `isHTLC` = the first secret is a NUT-10 HTLC secret and the witness could be
    built -/
def receiveHTLC (st : WState) (token : List WProof) (dleqOk isHTLC sigAll : Bool) (outs : List Output)
    (ans : Option (List Sig)) : Run Nat :=
  if !dleqOk || !isHTLC then { reqs := [], st := st, ret := none } else
  swapAndSave st (addWitnessToInputs token) outs sigAll ans

/-- the mint's answer to a melt: state PAID/PENDING/UNPAID and the NUT-08 change signatures -/
inductive MeltAns where
  | err (lightningFailed : Bool)
  | unpaid
  | pending
  | paid (change : List Sig)
  deriving Repr

/-- the state check `Melt` does first when the quote is PENDING locally -/
def meltPre : Option Bool → List Req
  | none => []
  | some _ => [getReq "meltquote"]

/-- `Melt` (wallet.go 877-1002).  `pendingCheck`: the quote was PENDING locally, a GET of its state precedes and may
    stop the call; `sel`: getProofsForAmount(amount + fee reserve); `blanks`: the NUT-08 blank outputs
    (`calculateBlankOutputs(quote.FeeReserve)` many, amount 0, from the counter). -/
def melt (st : WState) (quote : String) (pendingCheck : Option Bool) (sel : Sel) (blanks : List Output) (ans : MeltAns) :
    Run Unit :=
  let pre := meltPre pendingCheck
  if pendingCheck == some false then { reqs := pre, st := st, ret := none } else
  let g := getProofsForAmount st sel
  match g.ret with
  | none => { reqs := pre ++ g.reqs, st := g.st, ret := none }
  | some proofs =>
    let st1 := { g.st with pending := g.st.pending ++ proofs }
    -- meltBolt11Request := nut05.PostMeltBolt11Request{Quote: quote.QuoteId, Inputs: inputsWithoutDLEQ(proofs), Outputs: outputs}
    let meltBolt11Request := postMeltReq quote (inputsWithoutDLEQ proofs) blanks
    let reqs := pre ++ g.reqs ++ [meltBolt11Request]
    let unpend (s : WState) : WState := { s with pending := deleteProofs s.pending proofs }
    match ans with
    | .err true => { reqs, st := { unpend st1 with store := st1.store ++ proofs }, ret := none }
    | .err false => { reqs, st := st1, ret := none }
    | .unpaid => { reqs, st := { unpend st1 with store := st1.store ++ proofs }, ret := some () }
    | .pending => { reqs, st := st1, ret := some () }
    | .paid change =>
      match constructProofs change (blanks.take change.length) with
      | none => { reqs, st := unpend st1, ret := none }
      | some changeProofs => { reqs, st := { unpend st1 with store := st1.store ++ changeProofs }, ret := some () }

/-- `MintSwap` (wallet.go 1130-1154): getProofsForAmount at `from`, then swapProofs -/
def mintSwap (st : WState) (sel : Sel) (o : SwapProofsOracle) : Run Nat :=
  let g := getProofsForAmount st sel
  match g.ret with
  | none => { reqs := g.reqs, st := g.st, ret := none }
  | some proofsToSwap =>
    let t := swapProofs g.st proofsToSwap o
    { t with reqs := g.reqs ++ t.reqs }

/-- per mint with pending proofs: the pending proofs of that mint, and for ReclaimUnspentProofs which of them the mint
    reports UNSPENT, the outputs and the swap answer (`stateAns = false`: the state check failed) -/
structure PendingMint where
  proofs : List WProof
  stateAns : Bool := true
  unspent : List WProof := []
  outs : List Output := []
  ans : Option (List Sig) := none
  deriving Repr

/-- `RemoveSpentProofs` (wallet.go 1914-1942): `nut07.PostCheckStateRequest{Ys: Ys}` per mint -/
def removeSpentProofs (st : WState) : List PendingMint → Run Unit
  | [] => { reqs := [], st := st, ret := some () }
  | m :: rest =>
    let proofStateRequest := postCheckStateReq (m.proofs.map (·.secret))
    if m.stateAns then
      let r := removeSpentProofs st rest
      { r with reqs := proofStateRequest :: r.reqs }
    else { reqs := [proofStateRequest], st := st, ret := none }

/-- the literal of ReclaimUnspentProofs 1968-1973: `cashu.Proof{Amount, Id, Secret, C}` — witness and DLEQ are NOT
    copied -/
def reclaimCopy (p : WProof) : WProof := { amount := p.amount, id := p.id, secret := p.secret }

/-- `ReclaimUnspentProofs` (wallet.go 1946-2008): state check per mint, then createSwapRequest + swap() of the proofs
    reported UNSPENT -/
def reclaimUnspentProofs (st : WState) : List PendingMint → Run Unit
  | [] => { reqs := [], st := st, ret := some () }
  | m :: rest =>
    let proofStateRequest := postCheckStateReq (m.proofs.map (·.secret))
    if !m.stateAns then { reqs := [proofStateRequest], st := st, ret := none } else
    let proofsToReclaim := m.unspent.map reclaimCopy
    if proofsToReclaim.isEmpty then
      let r := reclaimUnspentProofs st rest
      { r with reqs := proofStateRequest :: r.reqs }
    else
      let s := swap st proofsToReclaim m.outs m.ans
      match s.ret with
      | none => { reqs := proofStateRequest :: s.reqs, st := s.st, ret := none }
      | some newProofs =>
        let st1 : WState := { store := s.st.store ++ newProofs, pending := deleteProofs s.st.pending m.unspent }
        let r := reclaimUnspentProofs st1 rest
        { r with reqs := proofStateRequest :: s.reqs ++ r.reqs }

/-- one batch of `Restore` (restore.go 111-218): 100 deterministic outputs; `restored` = the outputs the mint has
    signatures for (`none`: the restore request failed); a non-empty answer is followed by a state check of those -/
structure RestoreBatch where
  outs : List Output
  restored : Option (List Output) := some []
  deriving Repr

/-- `Restore` (restore.go): per mint GET info + keysets, per keyset GET keys and the batches.
    `nut09.PostRestoreRequest{Outputs: blindedMessages}` then `nut07.PostCheckStateRequest{Ys: Ys}` -/
def restoreBatches : List RestoreBatch → List Req
  | [] => []
  | b :: rest =>
    let restoreRequest := postRestoreReq b.outs
    match b.restored with
    | none => [restoreRequest]
    | some [] => restoreRequest :: restoreBatches rest
    | some sigs => restoreRequest :: postCheckStateReq (sigs.map (·.secret)) :: restoreBatches rest

/-! ## tokens: the only values that are MEANT to carry DLEQ{e,s,r}; they go to the caller, not to a mint -/

def stripDLEQ (p : WProof) : WProof := { p with dleq := none }

/-- `cashu.NewTokenV3` (cashu.go 199-212): `includeDLEQ = false` sets DLEQ = nil on every proof (in place) -/
def newTokenV3 (proofs : List WProof) (includeDLEQ : Bool) : Tree :=
  let proofs := if includeDLEQ then proofs else proofs.map stripDLEQ
  .node [("token", .arr [.node [("mint", .leaf (.pub "mint")), ("proofs", .arr (proofs.map (renderProof .caller)))]]),
         ("unit", .leaf (.pub "sat"))]

/-- `ProofV4` with `DLEQV4{e,s,r}` (all three always present) -/
def renderProofV4 (p : WProof) (dleq : Option (Nat × Nat × Nat)) : Tree :=
  .node ([("a", .leaf (.num p.amount)), ("s", .leaf (.outputSecret p.secret)), ("c", .leaf (.point "C" p.secret))] ++
    (if p.witness then [("w", .leaf (.pub "witness"))] else []) ++
    (match dleq with
     | some (e, s, r) => [("d", .node [("e", .leaf (.dleqE e)), ("s", .leaf (.dleqS s)), ("r", .leaf (.blindingFactor r))])]
     | none => []))

/-- `cashu.NewTokenV4` (cashu.go 334-396): with `includeDLEQ` a DLEQ without r is an error; without it no DLEQ is
    copied.  (Proofs are grouped by keyset id in the Go; the grouping does not change the leaves.) -/
def newTokenV4 (proofs : List WProof) (includeDLEQ : Bool) : Option Tree :=
  let conv (p : WProof) : Option Tree :=
    if includeDLEQ then
      match p.dleq with
      | none => some (renderProofV4 p none)
      | some d =>
        match d.r with
        | some r => some (renderProofV4 p (some (d.e, d.s, r)))
        | none => none
    else some (renderProofV4 p none)
  match proofs.mapM conv with
  | some ps => some (.node [("t", .arr [.node [("i", .leaf (.pub "id")), ("p", .arr ps)]]), ("m", .leaf (.pub "mint")),
                            ("u", .leaf (.pub "sat"))])
  | none => none

/-! ## every operation path of the property's quantifier, as one type -/

inductive Op where
  | requestMint (amount : Nat)
  | requestMeltQuote
  | checkMeltQuoteState
  | mintTokens (quote : String) (quoteState : Option (Option Bool)) (signed : Bool) (outs : List Output)
      (ans : Option (List Sig))
  | send (sel : Sel)
  | sendLocked (infoOk : Bool) (proofsToSwap : List WProof) (send change : List Output) (ans : Option (List Sig))
  | receive (token : List WProof) (o : ReceiveOracle)
  | receiveHTLC (token : List WProof) (dleqOk isHTLC sigAll : Bool) (outs : List Output) (ans : Option (List Sig))
  | melt (quote : String) (pendingCheck : Option Bool) (sel : Sel) (blanks : List Output) (ans : MeltAns)
  | mintSwap (sel : Sel) (o : SwapProofsOracle)
  | reclaim (mints : List PendingMint)
  | removeSpent (mints : List PendingMint)
  | restore (batches : List RestoreBatch)
  deriving Repr

/-- requests and new state of one operation -/
def step (st : WState) : Op → List Req × WState
  | .requestMint a => ([postMintQuoteReq a], st)
  | .requestMeltQuote => ([postMeltQuoteReq], st)
  | .checkMeltQuoteState => ([getReq "meltquote"], st)
  | .mintTokens q qs sg outs ans => let r := mintTokens st q qs sg outs ans; (r.reqs, r.st)
  | .send sel => let r := send st sel; (r.reqs, r.st)
  | .sendLocked ok pts s c ans => let r := sendLocked st ok pts s c ans; (r.reqs, r.st)
  | .receive tok o => let r := receive st tok o; (r.reqs, r.st)
  | .receiveHTLC tok d h sa outs ans => let r := receiveHTLC st tok d h sa outs ans; (r.reqs, r.st)
  | .melt q pc sel blanks ans => let r := melt st q pc sel blanks ans; (r.reqs, r.st)
  | .mintSwap sel o => let r := mintSwap st sel o; (r.reqs, r.st)
  | .reclaim ms => let r := reclaimUnspentProofs st ms; (r.reqs, r.st)
  | .removeSpent ms => let r := removeSpentProofs st ms; (r.reqs, r.st)
  | .restore bs => (getReq "info" :: getReq "keysets" :: getReq "keys" :: restoreBatches bs, st)

/-- all requests of a history -/
def runHist (st : WState) : List Op → List Req
  | [] => []
  | op :: ops => (step st op).1 ++ runHist (step st op).2 ops

/-! ## the property, executable -/

/-- no leaf of the body is a blinding factor -/
def Tree.noBlindingB (t : Tree) : Bool := t.leaves.all fun pl => !pl.2.isBlinding

/-- every secret in clear sits at `inputs[].secret` and is the secret of one of the request's inputs -/
def secretsOnlyInputsB (t : Tree) (inputs : List WProof) : Bool :=
  t.leaves.all fun pl =>
    match pl.2.clearSecret with
    | some s => pl.1 == ["inputs", "[]", "secret"] && inputs.any (fun p => p.secret == s)
    | none => true

/-- no leaf of the body is part of the mint's DLEQ transcript -/
def Tree.noTranscriptB (t : Tree) : Bool := t.leaves.all fun pl => !pl.2.isTranscript

def Req.secureB (r : Req) : Bool := r.body.noBlindingB && secretsOnlyInputsB r.body r.inputs

end Gonuts.Model.WalletWire
