import Gonuts.Gen.Facts
import Gonuts.Model.Mint
/-!
  `Model.Wire` — the HTTP/JSON surface of the mint (mint/server.go) as a pure function
  `handle : WSess → Request → WSess × Response` wrapped around `Model.Mint.applyOp`.

  Written to follow server.go statement by statement:

  * gorilla/mux routing (`setupHttpServer`): path cleaning (301), the route table in source order, method
    matching (405 when only the method mismatches, 404 otherwise), the `setupHeaders` middleware
    (answers every matched `OPTIONS` with 200 and an empty body, *before* the handler);
  * per handler: the `{method}` variable must be `bolt11` (else `PaymentMethodNotSupportedErr`),
    `decodeJsonReqBody` (content type, syntax error, type error, empty body = EOF, other), the NUT-19 cache lookup of
    `/v1/swap` and `/v1/mint/bolt11` (`requestCacheKey`: method, URL and body separated by NUL bytes), the operation
    (`Model.Mint.applyOp`), the handler's own error mapping (`mapErr`: which internal codes are replaced by the
    constant `StandardErr`), `writeErr` (status 400 + `json.Marshal(err)`), the success tree of each response type;
  * `Cache` (`Get` returns an expired item once more and deletes it, `Set` stores only while
    `len(items) <= limit` — so the map can hold `limit + 1` entries —, `DeleteExpired`), shared between the
    NUT-19 entries and the keyset entries (`{id}` / `ACTIVE_KEYSET`, TTL one day).

  JSON values are trees with *symbolic* leaves (`Json.sym`): quote ids, invoices, points, times are
  identities, exactly as in `Model.Mint`; the harness canonicalises the real body to the same text.
  Core Lean only (linked into the driver).
-/
namespace Gonuts.Model.Wire
open Gonuts.Model.Mint

/-! ## JSON trees -/

inductive Json where
  | null
  | bool (b : Bool)
  | num (n : Nat)
  | str (s : String)
  /-- opaque value: hex point, id, invoice, time stamp … rendered `"$s"` -/
  | sym (s : String)
  | arr (xs : List Json)
  | obj (kvs : List (String × Json))
  deriving Repr, Inhabited

def escChar (c : Char) : String :=
  if c == '"' then "\\\"" else if c == '\\' then "\\\\" else String.singleton c

def quoteStr (s : String) : String := "\"" ++ String.join (s.toList.map escChar) ++ "\""

mutual
  /-- Compact rendering (`encoding/json`: no whitespace, fields in the given order). -/
  def Json.render : Json → String
    | .null => "null"
    | .bool b => if b then "true" else "false"
    | .num n => toString n
    | .str s => quoteStr s
    | .sym s => quoteStr ("$" ++ s)
    | .arr xs => "[" ++ renderElems xs ++ "]"
    | .obj kvs => "{" ++ renderFields kvs ++ "}"
  def renderElems : List Json → String
    | [] => ""
    | [x] => x.render
    | x :: y :: rest => x.render ++ "," ++ renderElems (y :: rest)
  def renderFields : List (String × Json) → String
    | [] => ""
    | [(k, v)] => quoteStr k ++ ":" ++ v.render
    | (k, v) :: kv :: rest => quoteStr k ++ ":" ++ v.render ++ "," ++ renderFields (kv :: rest)
end

/-- Field names of a JSON object (`[]` for anything else). -/
def Json.keys : Json → List String
  | .obj kvs => kvs.map (·.1)
  | _ => []

def Json.field? : Json → String → Option Json
  | .obj kvs, k => (kvs.find? (·.1 == k)).map (·.2)
  | _, _ => none

/-- Build an object from struct tags and optional values: a `none` value is an `omitempty` field left out. -/
def objOf : List String → List (Option Json) → List (String × Json)
  | t :: ts, some v :: vs => (t, v) :: objOf ts vs
  | _ :: ts, none :: vs => objOf ts vs
  | _, _ => []

/-! ## Constants (from `Gen.Facts`; nanoseconds because `time.Time` comparisons are exact) -/

def nsPerSec : Int := 1000000000
def cacheTtl : Int := (Gen.cacheItemTtl : Int) * nsPerSec
def keysetTtl : Int := (Gen.keysetTtl : Int) * nsPerSec
def cacheLimit : Nat := Gen.cacheItemsLimit
def bodyLimit : Nat := Gen.requestBodySizeLimit
def activeKeysetKey : String := Gen.activeKeysetKey
def bolt11 : String := Gen.bolt11Method

/-! ## The cache (`type Cache`): a Go map as an association list with unique keys -/

/-- `(key, bytes, expiry)` -/
abbrev Cache := List (String × String × Int)

def Cache.lookup (c : Cache) (k : String) : Option (String × Int) :=
  match c.find? (fun e => e.1 == k) with
  | some e => some e.2
  | none => none

def Cache.del (c : Cache) (k : String) : Cache := c.filter (fun e => !(e.1 == k))

/-- `time.Now().After(item.expiration)` -/
def expired (now exp : Int) : Bool := decide (exp < now)

/-- `Cache.Get`: the value is returned *even if expired*; an expired item is deleted on the way. -/
def Cache.get (c : Cache) (k : String) (now : Int) : Cache × Option String :=
  match c.lookup k with
  | none => (c, none)
  | some (v, exp) => (if expired now exp then c.del k else c, some v)

/-- `Cache.Set`: only `if len(c.items) <= c.limit` (checked before the assignment, also when the key exists). -/
def Cache.set (c : Cache) (k v : String) (exp : Int) (limit : Nat) : Cache :=
  if c.length ≤ limit then (k, v, exp) :: c.del k else c

/-- `Cache.DeleteExpired` -/
def Cache.deleteExpired (c : Cache) (now : Int) : Cache := c.filter (fun e => !expired now e.2.2)

/-! ## Requests, responses, sessions -/

/-- Outcome of `json.NewDecoder(body).Decode(&dst)` for the handler's request struct (computed by the
    harness's own schema decoder; the model maps each class to the error `decodeJsonReqBody` builds). -/
inductive Parsed where
  | none                                                          -- handler reads no body
  | mintQuote (amount : UInt64) (unitSat : Bool) (pk : PkReq)
  | mint (q : Int) (outs : List BMsg) (sig : QSig)
  | swap (ps : List Proof) (outs : List BMsg) (verdict : Option E)
  | meltQuote (inv : InvReq) (unitSat : Bool) (mpp : Option UInt64)
  | melt (q : Int) (ps : List Proof)
  | checkState (ys : List YRef)
  | restore (outs : List BMsg)

inductive Decode where
  | ok (p : Parsed)
  | syntaxErr     -- *json.SyntaxError
  | typeErr       -- *json.UnmarshalTypeError
  | empty         -- io.EOF
  | other         -- anything else (io.ErrUnexpectedEOF of a truncated body, …)

structure Request where
  method : String
  /-- `strings.Split(req.URL.Path, "/")[1:]` (decoded path; what mux matches on) -/
  segs : List String
  /-- `req.URL.String()` (escaped path + `?` + raw query; what the cache key is built from) -/
  url : String
  /-- `Content-Type` header ("" = absent) -/
  ctype : String := ""
  body : String := ""
  /-- `len(body)` in bytes -/
  bodyLen : Nat := 0
  dec : Decode := .empty
  /-- symbolic identity of the `{quote_id}` / `{id}` path variable (-1: unknown to the mint) -/
  pathSym : Int := -1
  /-- environment during this request: the Lightning backend fails the next invoice call / its scripted answers -/
  lnFail : Bool := false
  script : List LnAns := []

structure Response where
  status : Nat
  body : String
  deriving DecidableEq, Repr, Inhabited

structure WSess where
  mint : Sess := {}
  cache : Cache := []
  now : Int := 0
  deriving Inhabited

/-! ## Routing -/

inductive Handler where
  | getActiveKeysets | getKeysetsList | getKeysetById | mintRequest | mintQuoteState | mintTokensRequest
  | swapRequest | meltQuoteRequest | meltQuoteState | meltTokens | tokenStateCheck | restoreSignatures
  | mintInfo | serveWS
  deriving DecidableEq, Repr, Inhabited

def Handler.goName : Handler → String
  | .getActiveKeysets => "ms.getActiveKeysets"
  | .getKeysetsList => "ms.getKeysetsList"
  | .getKeysetById => "ms.getKeysetById"
  | .mintRequest => "ms.mintRequest"
  | .mintQuoteState => "ms.mintQuoteState"
  | .mintTokensRequest => "ms.mintTokensRequest"
  | .swapRequest => "ms.swapRequest"
  | .meltQuoteRequest => "ms.meltQuoteRequest"
  | .meltQuoteState => "ms.meltQuoteState"
  | .meltTokens => "ms.meltTokens"
  | .tokenStateCheck => "ms.tokenStateCheck"
  | .restoreSignatures => "ms.restoreSignatures"
  | .mintInfo => "ms.mintInfo"
  | .serveWS => "ms.websocketManager.serveWS"

inductive Seg where
  | lit (s : String)
  | var (name : String)
  deriving DecidableEq, Repr

def Seg.str : Seg → String
  | .lit s => s
  | .var n => "{" ++ n ++ "}"

def patternStr : List Seg → String
  | [] => ""
  | s :: rest => "/" ++ s.str ++ patternStr rest

structure Route where
  pat : List Seg
  methods : List String
  h : Handler

/-- `setupHttpServer`, in source order (mux tries the routes in this order). -/
def routeTable : List Route := [
  ⟨[.lit "v1", .lit "keys"], ["GET", "OPTIONS"], .getActiveKeysets⟩,
  ⟨[.lit "v1", .lit "keysets"], ["GET", "OPTIONS"], .getKeysetsList⟩,
  ⟨[.lit "v1", .lit "keys", .var "id"], ["GET", "OPTIONS"], .getKeysetById⟩,
  ⟨[.lit "v1", .lit "mint", .lit "quote", .var "method"], ["GET", "POST", "OPTIONS"], .mintRequest⟩,
  ⟨[.lit "v1", .lit "mint", .lit "quote", .var "method", .var "quote_id"], ["GET", "POST", "OPTIONS"], .mintQuoteState⟩,
  ⟨[.lit "v1", .lit "mint", .var "method"], ["POST", "OPTIONS"], .mintTokensRequest⟩,
  ⟨[.lit "v1", .lit "swap"], ["POST", "OPTIONS"], .swapRequest⟩,
  ⟨[.lit "v1", .lit "melt", .lit "quote", .var "method"], ["POST", "OPTIONS"], .meltQuoteRequest⟩,
  ⟨[.lit "v1", .lit "melt", .lit "quote", .var "method", .var "quote_id"], ["GET", "OPTIONS"], .meltQuoteState⟩,
  ⟨[.lit "v1", .lit "melt", .var "method"], ["POST", "OPTIONS"], .meltTokens⟩,
  ⟨[.lit "v1", .lit "checkstate"], ["POST", "OPTIONS"], .tokenStateCheck⟩,
  ⟨[.lit "v1", .lit "restore"], ["POST", "OPTIONS"], .restoreSignatures⟩,
  ⟨[.lit "v1", .lit "info"], ["GET", "OPTIONS"], .mintInfo⟩,
  ⟨[.lit "v1", .lit "ws"], ["GET", "OPTIONS"], .serveWS⟩
]

/-- mux path template: a literal segment matches itself, `{name}` matches `[^/]+` (a non-empty segment;
    segments never contain `/`). -/
def matchPat : List Seg → List String → Option (List (String × String))
  | [], [] => some []
  | .lit s :: ps, x :: xs => if x == s then matchPat ps xs else none
  | .var n :: ps, x :: xs =>
    if x == "" then none else
      match matchPat ps xs with
      | some vars => some ((n, x) :: vars)
      | none => none
  | _, _ => none

inductive Routed where
  | found (h : Handler) (vars : List (String × String))
  | methodNotAllowed
  | notFound
  deriving Repr, DecidableEq

/-- `Router.Match`: first route whose path *and* method match; `ErrMethodMismatch` is remembered. -/
def routeGo (m : String) (segs : List String) : List Route → Bool → Routed
  | [], mismatch => if mismatch then .methodNotAllowed else .notFound
  | r :: rest, mismatch =>
    match matchPat r.pat segs with
    | none => routeGo m segs rest mismatch
    | some vars => if r.methods.contains m then .found r.h vars else routeGo m segs rest true

def route (m : String) (segs : List String) : Routed := routeGo m segs routeTable false

/-- `cleanPath(p) != p`: an empty segment other than the last one, `.` or `..` (mux answers 301). -/
def unclean (segs : List String) : Bool :=
  segs.any (fun s => s == "." || s == "..") || segs.dropLast.any (· == "")

def var? (vars : List (String × String)) (n : String) : String :=
  match vars.find? (·.1 == n) with
  | some kv => kv.2
  | none => ""

/-! ## `decodeJsonReqBody` -/

/-- `unicode.ToLower` restricted to what can produce a letter of "application/json". -/
def goLower (c : Char) : Char :=
  if c == Char.ofNat 0x130 then 'i' else if c == Char.ofNat 0x212A then 'k' else c.toLower

/-- `ct == "" || strings.ToLower(strings.Split(ct, ";")[0]) == "application/json"` -/
def ctypeOk (ct : String) : Bool :=
  ct == "" || (ct.toList.takeWhile (· != ';')).map goLower == "application/json".toList

def eCtype : E := (10000, "Content-Type header is not application/json")
def eBadJson : E := (10000, "bad-json")
def eTypeErr : E := (10000, "invalid-type")
def eEmptyBody : E := (10000, "request body cannot be empty")
def eDecodeOther : E := (10000, "decode-other")
def eMethod : E := (11003, "payment method not supported")
def eUnableToPay : E := (10000, "unable to send payment")

def decodeBody (r : Request) : Except E Parsed :=
  if !ctypeOk r.ctype then .error eCtype else
  match r.dec with
  | .ok p => .ok p
  | .syntaxErr => .error eBadJson
  | .typeErr => .error eTypeErr
  | .empty => .error eEmptyBody
  | .other => .error eDecodeOther

/-! ## Error mapping of each handler and `writeErr` -/

/-- What the handler passes to `writeErr` for an error `(code, name)` returned by the operation
    (code 1 = DBErrCode, 2 = LightningBackendErrCode, 0 = a Go `error` that is not a `*cashu.Error`).
    Mirrors each handler's `if cashuErr.Code == …` exactly:
    * mintRequest, mintQuoteState, mintTokensRequest, meltQuoteState, tokenStateCheck: DB and LN → `StandardErr`;
    * swapRequest, meltQuoteRequest: only DB → `StandardErr` (an LN-coded error would be passed through);
    * meltTokens: LN → `{"unable to send payment", 10000}`, DB → `StandardErr`;
    * restoreSignatures, mintInfo: *every* error → `StandardErr`;
    * getKeysetById: every error → `UnknownKeysetErr`;
    * a non-cashu error (`ok == false` in `err.(*cashu.Error)`) is passed to `writeErr` as it is. -/
def mapErr : Handler → E → E
  | .restoreSignatures, _ => eStandard
  | .mintInfo, _ => eStandard
  | .getKeysetById, _ => eUnknownKeyset
  | .swapRequest, e => if e.1 == 1 then eStandard else e
  | .meltQuoteRequest, e => if e.1 == 1 then eStandard else e
  | .meltTokens, e => if e.1 == 2 then eUnableToPay else if e.1 == 1 then eStandard else e
  | _, e => if e.1 == 2 || e.1 == 1 then eStandard else e

/-- A detail that is one of the source's literal strings is compared literally; generated messages
    (`fmt.Sprintf`, library errors) are classes (`bad-json`, `bad-C-hex`, …): tags never contain a space,
    every literal detail does. -/
def isTag (s : String) : Bool := !s.toList.contains ' '

/-- `json.Marshal(errResponse)`: `{detail, code}` for a cashu error; a plain Go `error` (code 0) has no
    exported fields and marshals to `{}`. -/
def errTree (e : E) : Json :=
  if e.1 == 0 then .obj []
  else .obj [("detail", if isTag e.2 then .sym ("detail:" ++ e.2) else .str e.2), ("code", .num e.1)]

def errResp (e : E) : Response := ⟨400, (errTree e).render⟩

/-! ## Success trees (struct tags are tied to `Gen.fields_*` in `Tie/Wire.lean`) -/

def tagsMintQuote : List String := ["quote", "request", "amount", "unit", "state", "expiry", "pubkey"]
def tagsMeltQuote : List String := ["quote", "request", "amount", "unit", "fee_reserve", "state", "expiry", "payment_preimage", "change"]
def tagsSig : List String := ["amount", "C_", "id", "dleq"]
def tagsDleq : List String := ["e", "s", "r"]
def tagsBMsg : List String := ["amount", "B_", "id", "witness"]
def tagsProofState : List String := ["Y", "state", "witness"]
def tagsErr : List String := ["detail", "code"]

def mintQuoteTree (q : MintQ) : Json :=
  .obj (objOf tagsMintQuote [
    some (.sym s!"mq:{q.id}"), some (.sym s!"inv:{q.hash}"), some (.num q.amount.toNat), some (.str "sat"),
    some (.str q.state.str), some (.sym "T"),
    match q.pubkey with | some k => some (.sym s!"key:{k}") | none => none])

/-- `withPreimage`: the melt quote *request* handler does not copy `Preimage` into its response. -/
def meltQuoteTree (q : MeltQ) (withPreimage : Bool) : Json :=
  .obj (objOf tagsMeltQuote [
    some (.sym s!"lq:{q.id}"), some (.sym s!"inv:{q.inv}"), some (.num q.amount.toNat), some (.str "sat"),
    some (.num q.feeReserve.toNat), some (.str q.state.str), some (.sym "T"),
    if withPreimage && q.preimage != 0 then some (.sym s!"pre:{q.preimage - 1}") else none,
    none])

def sigTree (s : BSig) : Json :=
  .obj (objOf tagsSig [
    some (.num s.amount.toNat), some (.sym s!"C_:{s.b}"), some (.sym s!"ks:{s.ks}"),
    some (.obj (objOf tagsDleq [some (.sym "e"), some (.sym "s"), none]))])

def sigsTree (sigs : List BSig) : Json := .obj [("signatures", .arr (sigs.map sigTree))]

def ksRefSym : KsRef → String
  | .known i => s!"ks:{i}"
  | .unknown t => s!"uks:{t}"

def bTermSym : BTerm → String
  | .pt i => s!"b:{i}"
  | .nonhex i => s!"b:{i}"
  | .nonpoint i => s!"b:{i}"

def bmsgTree (m : BMsg) : Json :=
  .obj (objOf tagsBMsg [
    some (.num m.amount.toNat), some (.sym (bTermSym m.b)), some (.sym (ksRefSym m.ks)),
    if m.witness == 0 then none else some (.sym s!"w:{m.witness}")])

def yRefSym : YRef → String
  | .known s => s!"y:{s}"
  | .unk t => s!"unk:{t}"

def stateTree (y : YRef) (st : PState × Nat) : Json :=
  .obj (objOf tagsProofState [
    some (.sym (yRefSym y)), some (.str st.1.str), if st.2 == 0 then none else some (.sym s!"w:{st.2}")])

def statesTree (ys : List YRef) (sts : List (PState × Nat)) : Json :=
  .obj [("states", .arr ((ys.zip sts).map (fun p => stateTree p.1 p.2)))]

/-- `RestoreSignatures` echoes the request's blinded messages that have a stored signature. -/
def restoreTree (outs : List BMsg) (sigs : List BSig) : Json :=
  .obj [("outputs", .arr ((outs.filter (fun m => sigs.any (·.b == m.b.sid))).map bmsgTree)),
        ("signatures", .arr (sigs.map sigTree))]

/-! ### Keys (`crypto.PublicKeys.MarshalJSON`: ascending amounts) -/

def insertAmt (a : UInt64) : List UInt64 → List UInt64
  | [] => [a]
  | b :: rest => if a ≤ b then a :: b :: rest else b :: insertAmt a rest

/-- `slices.Sort(amounts)` -/
def sortAmts : List UInt64 → List UInt64
  | [] => []
  | a :: rest => insertAmt a (sortAmts rest)

/-- The amounts a keyset has keys for (`GenerateKeyset`: 2^i, i < MAX_ORDER), in *some* order (Go map). -/
def keyAmounts : List UInt64 := (List.range Gen.maxOrder).reverse.map (fun i => (1 : UInt64) <<< (UInt64.ofNat i))

/-- The rendered key map: one field per amount, ascending, whatever order the map was iterated in. -/
def keysFields (ks : Nat) (amts : List UInt64) : List (String × Json) :=
  (sortAmts amts).map (fun a => (toString a.toNat, Json.sym s!"K:{ks}:{a.toNat}"))

def keysetTree (ks : Nat) (amts : List UInt64) : Json :=
  .obj [("id", .sym s!"ks:{ks}"), ("unit", .str "sat"), ("keys", .obj (keysFields ks amts))]

def keysResponseTree (ks : Nat) : Json := .obj [("keysets", .arr [keysetTree ks keyAmounts])]

def keysetRowTree (k : KsRow) : Json :=
  .obj [("id", .sym s!"ks:{k.idx}"), ("unit", .str "sat"), ("active", .bool k.active), ("input_fee_ppk", .num k.fee.toNat)]

/-- `ListKeysets` iterates a Go map: the order of the array is unspecified; the model lists by index. -/
def keysetsListTree (mem : Mem) : Json := .obj [("keysets", .arr (mem.keysets.map keysetRowTree))]

/-! ### Mint info (`RetrieveMintInfo`; NUT-06) -/

def methodSetting (minA maxA : UInt64) : Json :=
  .obj (objOf ["method", "unit", "min_amount", "max_amount"] [
    some (.str "bolt11"), some (.str "sat"),
    if minA == 0 then none else some (.num minA.toNat), if maxA == 0 then none else some (.num maxA.toNat)])

def supported (b : Bool) : Json := .obj [("supported", .bool b)]

def infoTree (cfg : Cfg) (disabled : Bool) : Json :=
  .obj [
    ("name", .sym "name"), ("pubkey", .sym "pubkey"), ("version", .sym "version"), ("description", .sym "description"),
    ("time", .sym "T"),
    ("nuts", .obj (objOf ["4", "5", "7", "8", "9", "10", "11", "12", "14", "15", "17", "19", "20"] [
      some (.obj [("methods", .arr [methodSetting 0 cfg.maxMint]), ("disabled", .bool disabled)]),
      some (.obj [("methods", .arr [methodSetting 0 cfg.maxMelt]), ("disabled", .bool false)]),
      some (supported true), some (supported false), some (supported true), some (supported true),
      some (supported true), some (supported true), some (supported true),
      if cfg.mpp then some (.obj [("methods", .arr [methodSetting 0 0]), ("disabled", .bool false)]) else none,
      some (.obj [("supported", .arr [.obj [("method", .str "bolt11"), ("unit", .str "sat"),
                                           ("commands", .arr [.str "bolt11_mint_quote"])]])]),
      some (.obj [("ttl", .num Gen.cacheItemTtl),
                  ("cached_endpoints", .arr [.obj [("method", .str "POST"), ("path", .str "/v1/mint/bolt11")],
                                             .obj [("method", .str "POST"), ("path", .str "/v1/swap")]])]),
      some (supported true)]))]

/-- `RetrieveMintInfo`: `GetSeed`, then `TotalBalance`; the seed error is returned raw. -/
def infoProg (cx : Cx) : PM Bool := do
  match ← eff .getSeed with
  | .error _ => throw (0, "raw")
  | .ok _ =>
    match ← ExceptT.lift (totalBalance.run) with
    | .error _ => throw (1, "db")
    | .ok bal => pure (cx.cfg.maxBalance > 0 && bal ≥ cx.cfg.maxBalance)

/-! ## The operation behind each handler -/

/-- The `Model.Mint` operation a handler performs for a decoded request. -/
def opOf (h : Handler) (p : Parsed) (r : Request) : Option Op :=
  match h, p with
  | .mintRequest, .mintQuote amount unitSat pk => some (.mintQuote amount unitSat pk r.lnFail)
  | .mintQuoteState, .none => some (.quoteState r.pathSym r.lnFail)
  | .mintTokensRequest, .mint q outs sig => some (.mint q outs sig)
  | .swapRequest, .swap ps outs v => some (.swap ps outs v)
  | .meltQuoteRequest, .meltQuote inv unitSat mpp => some (.meltQuote inv unitSat mpp)
  | .meltQuoteState, .none => some (.meltState r.pathSym r.script)
  | .meltTokens, .melt q ps => some (.melt q ps r.script r.lnFail)
  | .tokenStateCheck, .checkState ys => some (.checkState ys r.script)
  | .restoreSignatures, .restore outs => some (.restore (outs.map (·.b.sid)))
  | _, _ => none

/-- The response struct the handler fills from the operation's result. -/
def resTree (p : Parsed) : Res → Except E Json
  | .mintQuote (.ok q) => .ok (mintQuoteTree q)
  | .quoteState (.ok q) => .ok (mintQuoteTree q)
  | .sigs (.ok sigs) => .ok (sigsTree sigs)
  | .meltQuote (.ok q) => .ok (meltQuoteTree q false)
  | .melt (.ok q) => .ok (meltQuoteTree q true)
  | .states (.ok sts) => match p with
    | .checkState ys => .ok (statesTree ys sts)
    | _ => .error (0, "model-misuse")
  | .restored (.ok sigs) => match p with
    | .restore outs => .ok (restoreTree outs sigs)
    | _ => .error (0, "model-misuse")
  | .mintQuote (.error e) | .quoteState (.error e) | .sigs (.error e) | .meltQuote (.error e) | .melt (.error e)
  | .states (.error e) | .restored (.error e) => .error e
  | _ => .error (0, "model-misuse")

/-- Is the operation's result a success? -/
def Res.isOk : Res → Bool
  | .mintQuote (.ok _) | .quoteState (.ok _) | .sigs (.ok _) | .meltQuote (.ok _) | .melt (.ok _)
  | .states (.ok _) | .restored (.ok _) => true
  | _ => false

/-- Environment of the request: the Lightning backend fails its next `InvoiceStatus` call (one-shot; the
    flag is dropped at the end of the operation by `Sess.runPM`). -/
def armLn (m : Sess) (lnFail : Bool) : Sess :=
  if lnFail then { m with w := { m.w with ln := { m.w.ln with failInvoiceStatus := 1 } } } else m

/-- Run the handler's operation on the mint session. -/
def execOp (p : Parsed) (op : Op) (m : Sess) : Sess × Except E Json :=
  ((applyOp m op).1, resTree p (applyOp m op).2)

/-! ## `handle` -/

/-- Ghost description of how a request was answered (never read by `handle`'s decisions). -/
inductive Info where
  | static                                         -- routing / OPTIONS / keysets list: no operation, no cache
  | refused (e : E)                                 -- refused before the operation (`{method}`, decoding)
  | hit (key : String)                              -- served from the NUT-19 cache
  | executed (h : Handler) (op : Op) (stored : Bool)  -- the operation ran; `stored`: the response went into the cache
  | keys (fromCache : Bool)
  | info
  | unmodelled

/-- The separator of the cache key's parts: one NUL byte. -/
def keySep : String := "\x00"

/-- NUT-19 cache key (`requestCacheKey`, fix 65f9524): `req.Method + "\x00" + req.URL.String() + "\x00" + string(body)`. -/
def Request.key (r : Request) : String := r.method ++ keySep ++ r.url ++ keySep ++ r.body

def isCached : Handler → Bool
  | .swapRequest | .mintTokensRequest => true
  | _ => false

def needsMethodVar : Handler → Bool
  | .mintRequest | .mintQuoteState | .mintTokensRequest | .meltQuoteRequest | .meltQuoteState | .meltTokens => true
  | _ => false

def readsBody : Handler → Bool
  | .mintRequest | .mintTokensRequest | .swapRequest | .meltQuoteRequest | .meltTokens | .tokenStateCheck
  | .restoreSignatures => true
  | _ => false

def ok200 (t : Json) : Response := ⟨200, t.render⟩

/-- After decoding: cache lookup (cached handlers), operation, error mapping, cache store. -/
def runHandler (s : WSess) (h : Handler) (p : Parsed) (op : Op) (r : Request) : WSess × Response × Info :=
  if isCached h then
    match s.cache.get r.key s.now with
    | (c1, some bytes) => ({ s with cache := c1 }, ⟨200, bytes⟩, .hit r.key)
    | (c1, none) =>
      match execOp p op (armLn s.mint r.lnFail) with
      | (m1, .error e) => ({ s with mint := m1, cache := c1 }, errResp (mapErr h e), .executed h op false)
      | (m1, .ok t) =>
        if r.bodyLen < bodyLimit then
          ({ s with mint := m1, cache := c1.set r.key t.render (s.now + cacheTtl) cacheLimit }, ok200 t,
            .executed h op (decide (c1.length ≤ cacheLimit)))
        else ({ s with mint := m1, cache := c1 }, ok200 t, .executed h op false)
  else
    match execOp p op (armLn s.mint r.lnFail) with
    | (m1, .error e) => ({ s with mint := m1 }, errResp (mapErr h e), .executed h op false)
    | (m1, .ok t) => ({ s with mint := m1 }, ok200 t, .executed h op false)

/-- The keyset a `{id}` names (`m.keysets[id]`). -/
def keysetOf (mem : Mem) (sym : Int) : Option Nat :=
  match mem.keysets.find? (fun k => (k.idx : Int) == sym) with
  | some k => some k.idx
  | none => none

def handleKeys (s : WSess) (key : String) (ks : Option Nat) : WSess × Response × Info :=
  match s.cache.get key s.now with
  | (c1, some bytes) => ({ s with cache := c1 }, ⟨200, bytes⟩, .keys true)
  | (c1, none) =>
    match ks with
    | none => ({ s with cache := c1 }, errResp (mapErr .getKeysetById eUnknownKeyset), .keys false)
    | some i =>
      let bytes := (keysResponseTree i).render
      ({ s with cache := c1.set key bytes (s.now + keysetTtl) cacheLimit }, ⟨200, bytes⟩, .keys false)

def handleInfo (s : WSess) : WSess × Response × Info :=
  match s.mint.runPM (infoProg (cxOf s.mint)) [] with
  | (m1, .error e) => ({ s with mint := m1 }, errResp (mapErr .mintInfo e), .info)
  | (m1, .ok dis) => ({ s with mint := m1 }, ok200 (infoTree s.mint.w.cfg dis), .info)

/-- The handlers that perform a mint operation: `{method}` check, decoding, then `runHandler`. -/
def callOp (s : WSess) (h : Handler) (vars : List (String × String)) (r : Request) : WSess × Response × Info :=
  if needsMethodVar h && var? vars "method" != bolt11 then (s, errResp eMethod, .refused eMethod) else
  match (if readsBody h then decodeBody r else .ok .none) with
  | .error e => (s, errResp e, .refused e)
  | .ok p =>
    match opOf h p r with
    | none => (s, ⟨0, "model-misuse: parsed request does not fit the handler"⟩, .unmodelled)
    | some op => runHandler s h p op r

/-- One matched, non-OPTIONS request in its handler. -/
def callHandler (s : WSess) (h : Handler) (vars : List (String × String)) (r : Request) : WSess × Response × Info :=
  match h with
  | .serveWS => (s, ⟨0, "websocket"⟩, .unmodelled)
  | .getActiveKeysets => handleKeys s activeKeysetKey (some s.mint.w.mem.active)
  | .getKeysetsList => (s, ok200 (keysetsListTree s.mint.w.mem), .static)
  | .getKeysetById => handleKeys s (var? vars "id") (keysetOf s.mint.w.mem r.pathSym)
  | .mintInfo => handleInfo s
  | _ => callOp s h vars r

def handleX (s : WSess) (r : Request) : WSess × Response × Info :=
  if unclean r.segs then (s, ⟨301, ""⟩, .static) else
  match route r.method r.segs with
  | .notFound => (s, ⟨404, "404 page not found\n"⟩, .static)
  | .methodNotAllowed => (s, ⟨405, ""⟩, .static)
  | .found h vars =>
    if r.method == "OPTIONS" then (s, ⟨200, ""⟩, .static) else callHandler s h vars r

def handle (s : WSess) (r : Request) : WSess × Response := ((handleX s r).1, (handleX s r).2.1)

/-! ## Time and the background loop of `MintServer.Start` -/

def advance (s : WSess) (dt : Int) : WSess := { s with now := s.now + dt }

/-- One tick of the 30 s loop: drop a stale `ACTIVE_KEYSET` entry (`stale`: the cached response names a keyset other
    than the active one), then `DeleteExpired`. -/
def tick (s : WSess) (stale : Bool) : WSess :=
  let c := (s.cache.get activeKeysetKey s.now).1
  let c := if stale then c.del activeKeysetKey else c
  { s with cache := c.deleteExpired s.now }

/-- `SetupMintServer` after a restart: `NewCache()`. -/
def newServer (s : WSess) : WSess := { s with cache := [] }

/-- Events of a server history. -/
inductive Event where
  | req (r : Request)
  | advance (dt : Int)
  | tick (stale : Bool)
  | mintOp (op : Op)          -- something that reaches the mint without HTTP (invoice settled, notification, fault armed, …)
  | restart (rotate : Bool) (fee : UInt64)

def stepEvent (s : WSess) : Event → WSess
  | .req r => (handle s r).1
  | .advance dt => advance s dt
  | .tick stale => tick s stale
  | .mintOp op => { s with mint := (applyOp s.mint op).1 }
  | .restart rotate fee => newServer { s with mint := (applyOp s.mint (.restart rotate fee)).1 }

def runEvents (s : WSess) : List Event → WSess
  | [] => s
  | e :: rest => runEvents (stepEvent s e) rest

end Gonuts.Model.Wire
