import Gonuts.Model.Amount
/-!
  Model of the token code in `cashu/cashu.go` (property C14), mirroring the Go line by line:

  * `Proof`, `DLEQProof`, `TokenV3`, `TokenV3Proof`, `TokenV4`, `TokenV4Proof`, `ProofV4`, `DLEQV4`
    as abstract syntax (field for field, same order as the Go structs; see `Gonuts/Tie/Token.lean`);
  * `NewTokenV3` / `NewTokenV4` (`newV3`, `newV4`), the accessors `Proofs` / `Mint` / `Amount` /
    `Serialize` of both formats;
  * the *string front end* of `DecodeToken`, `DecodeTokenV3`, `DecodeTokenV4` over real `String`s:
    Go strings are byte sequences, so a Lean `String` is first turned into its UTF-8 bytes
    (`strBytes`); `tokenstr[:6]` / `tokenstr[6:]` are *byte* slices, the prefix comparison is a byte
    comparison, and the two base64 attempts (`URLEncoding`, then `RawURLEncoding`) are the executable
    functions `b64Decode true/false` below, which follow `encoding/base64.decodeQuantum` including
    the skipped `\r`/`\n` and the reported error offset;
  * `encoding/hex` (`hexEncodeBytes`, `hexDecodeBytes`): real executable functions;
  * `encoding/json` and `fxamacker/cbor` are NOT modelled: they are the four abstract functions of
    a `Codec`.  Theorems about decoding hold for *every* codec; the round-trip theorems assume
    `dec (enc t) = some t` for the token at hand, which the harness exercises with the real libraries.

  Go `panic`s are explicit outcomes (`Out.panic`, `Res.panic`).

  The model follows the code after the `fix:` commit for defect F9 (length check before `tokenstr[:6]`;
  `DecodeTokenV3` rejects a token without entries).  The code before the fix is kept as `frontOld` /
  `decodeTokenOld` for the regression theorems.  `TokenV3.Mint()` still indexes `Token[0]`: it panics on a
  hand-built `TokenV3{}` value, which `DecodeToken` no longer returns.

  Core Lean only (linked into the driver).
-/
namespace Gonuts.Model.Token

abbrev Bytes := List UInt8

/-- The bytes of a Go string.  A Lean `String` is valid UTF-8; Go indexes and slices strings by byte. -/
def strBytes (s : String) : Bytes := s.toByteArray.data.toList

/-- The Go string with the given ASCII bytes (only used on bytes < 128, where it is exact). -/
def asciiStr (bs : Bytes) : String := String.ofList (bs.map (fun b => Char.ofNat b.toNat))

/-! ## encoding/hex -/

/-- `hextable[n]` for a nibble `n < 16`: lower-case digits. -/
def hexDigitByte (n : UInt8) : UInt8 := if n < 10 then 48 + n else 87 + n

/-- `hex.EncodeToString` (as ASCII bytes). -/
def hexEncodeBytes : Bytes → Bytes
  | [] => []
  | b :: rest => hexDigitByte (b >>> 4) :: hexDigitByte (b &&& 15) :: hexEncodeBytes rest

/-- `reverseHexTable`: accepts `0-9`, `a-f` and `A-F`. -/
def hexVal? (c : UInt8) : Option UInt8 :=
  if 48 ≤ c ∧ c ≤ 57 then some (c - 48)
  else if 97 ≤ c ∧ c ≤ 102 then some (c - 87)
  else if 65 ≤ c ∧ c ≤ 70 then some (c - 55)
  else none

/-- `hex.InvalidByteError(b)` / `hex.ErrLength`. -/
inductive HexErr where
  | invalidByte (b : UInt8)
  | oddLength
  deriving DecidableEq, Repr, Inhabited

/-- `hex.DecodeString` on the bytes of the string: the first invalid byte (in source order) is reported;
    an odd length is reported only if every byte before is valid. -/
def hexDecodeBytes : Bytes → Except HexErr Bytes
  | [] => .ok []
  | [p] =>
    match hexVal? p with
    | none => .error (.invalidByte p)
    | some _ => .error .oddLength
  | p :: q :: rest =>
    match hexVal? p with
    | none => .error (.invalidByte p)
    | some a =>
      match hexVal? q with
      | none => .error (.invalidByte q)
      | some b =>
        match hexDecodeBytes rest with
        | .ok out => .ok ((a <<< 4 ||| b) :: out)
        | .error e => .error e

/-- `hex.EncodeToString`. -/
def hexEncode (b : Bytes) : String := asciiStr (hexEncodeBytes b)

/-- `hex.DecodeString`. -/
def hexDecode (s : String) : Except HexErr Bytes := hexDecodeBytes (strBytes s)

/-- Lower-case hex digit, upper-case hex digit mapped to lower case, everything else unchanged. -/
def lowerHexByte (c : UInt8) : UInt8 := if 65 ≤ c ∧ c ≤ 70 then c + 32 else c

/-- The string with `A-F` replaced by `a-f` (what `hex.EncodeToString (hex.DecodeString s)` yields
    for a valid hex string `s` of either case). -/
def lowerHex (s : String) : String := asciiStr ((strBytes s).map lowerHexByte)

/-- Executable predicate: even number of characters, all in `0-9a-f`. -/
def isLowerHexByte (c : UInt8) : Bool := (48 ≤ c && c ≤ 57) || (97 ≤ c && c ≤ 102)
def isLowerHex (s : String) : Bool := (strBytes s).length % 2 == 0 && (strBytes s).all isLowerHexByte

/-! ## encoding/base64 (URL alphabet), padded (`URLEncoding`) and unpadded (`RawURLEncoding`) -/

/-- `encodeURL[n]` for `n < 64`. -/
def b64Char (n : Nat) : UInt8 :=
  if n < 26 then UInt8.ofNat (65 + n)
  else if n < 52 then UInt8.ofNat (97 + (n - 26))
  else if n < 62 then UInt8.ofNat (48 + (n - 52))
  else if n = 62 then 45 else 95

/-- `decodeMap[c]` (`none` = 0xff). -/
def b64Val? (c : UInt8) : Option Nat :=
  let n := c.toNat
  if 65 ≤ n ∧ n ≤ 90 then some (n - 65)
  else if 97 ≤ n ∧ n ≤ 122 then some (n - 97 + 26)
  else if 48 ≤ n ∧ n ≤ 57 then some (n - 48 + 52)
  else if n = 45 then some 62
  else if n = 95 then some 63
  else none

/-- `Encoding.EncodeToString`; `pad = true` is `URLEncoding`, `false` is `RawURLEncoding`. -/
def b64Encode (pad : Bool) : Bytes → Bytes
  | [] => []
  | [a] =>
    let x := a.toNat
    [b64Char (x / 4), b64Char (x % 4 * 16)] ++ (if pad then [61, 61] else [])
  | [a, b] =>
    let x := a.toNat; let y := b.toNat
    [b64Char (x / 4), b64Char (x % 4 * 16 + y / 16), b64Char (y % 16 * 4)] ++ (if pad then [61] else [])
  | a :: b :: c :: rest =>
    let x := a.toNat; let y := b.toNat; let z := c.toNat
    b64Char (x / 4) :: b64Char (x % 4 * 16 + y / 16) :: b64Char (y % 16 * 4 + z / 64) :: b64Char (z % 64)
      :: b64Encode pad rest

/-- The bytes produced by one quantum of 2, 3 or 4 sextets (non-strict: unused low bits ignored). -/
def b64Emit : List Nat → Bytes
  | [s0, s1] => [UInt8.ofNat (s0 * 4 + s1 / 16)]
  | [s0, s1, s2] => [UInt8.ofNat (s0 * 4 + s1 / 16), UInt8.ofNat (s1 % 16 * 16 + s2 / 4)]
  | [s0, s1, s2, s3] =>
    [UInt8.ofNat (s0 * 4 + s1 / 16), UInt8.ofNat (s1 % 16 * 16 + s2 / 4), UInt8.ofNat (s2 % 4 * 64 + s3)]
  | _ => []

/-- Where `decodeQuantum` is: collecting sextets (`q sx`, `sx.length < 4`), after the first `=` of a
    two-sextet quantum (`pad2`), or after complete padding (`tail`: only `\r`/`\n` may follow). -/
inductive B64St where
  | q (sx : List Nat)
  | pad2 (sx : List Nat)
  | tail (sx : List Nat)
  deriving DecidableEq, Repr

/-- `Encoding.Decode` as a loop over `decodeQuantum`; `si` is the byte offset, `n` the input length.
    `.error k` is `base64.CorruptInputError(k)`. -/
def b64Go (pad : Bool) (n : Nat) : Bytes → Nat → B64St → Except Nat Bytes
  | [], si, .q sx =>
    match sx.length with
    | 0 => .ok []
    | 1 => .error (si - 1)
    | j => if pad then .error (si - j) else .ok (b64Emit sx)
  | [], _, .pad2 _ => .error n
  | [], _, .tail sx => .ok (b64Emit sx)
  | c :: rest, si, .q sx =>
    match b64Val? c with
    | some v =>
      if sx.length = 3 then
        match b64Go pad n rest (si + 1) (.q []) with
        | .ok out => .ok (b64Emit (sx ++ [v]) ++ out)
        | .error e => .error e
      else b64Go pad n rest (si + 1) (.q (sx ++ [v]))
    | none =>
      if c = 10 ∨ c = 13 then b64Go pad n rest (si + 1) (.q sx)
      else if pad = false ∨ c ≠ 61 then .error si
      else
        match sx.length with
        | 0 => .error si
        | 1 => .error si
        | 2 => b64Go pad n rest (si + 1) (.pad2 sx)
        | _ => b64Go pad n rest (si + 1) (.tail sx)
  | c :: rest, si, .pad2 sx =>
    if c = 10 ∨ c = 13 then b64Go pad n rest (si + 1) (.pad2 sx)
    else if c ≠ 61 then .error (si - 1)
    else b64Go pad n rest (si + 1) (.tail sx)
  | c :: rest, si, .tail sx =>
    if c = 10 ∨ c = 13 then b64Go pad n rest (si + 1) (.tail sx)
    else .error si

/-- `Encoding.DecodeString`. -/
def b64Decode (pad : Bool) (s : Bytes) : Except Nat Bytes := b64Go pad s.length s 0 (.q [])

/-- Padding flags of the encodings the token code names (tied to the source in `Gonuts/Tie/Token.lean`):
    `base64.URLEncoding` pads with `=`, `base64.RawURLEncoding` does not. -/
abbrev padURLEncoding : Bool := true
abbrev padRawURLEncoding : Bool := false

/-- The two attempts of `DecodeTokenV3/V4`: `base64.URLEncoding`, on error `base64.RawURLEncoding`
    (whose error is the one reported). -/
def b64Stage (s : Bytes) : Except Nat Bytes :=
  match b64Decode padURLEncoding s with
  | .ok b => .ok b
  | .error _ => b64Decode padRawURLEncoding s

/-! ## abstract syntax (field order = Go struct order) -/

structure DLEQ where
  e : String
  s : String
  r : String
  deriving DecidableEq, Repr, Inhabited

structure Proof where
  amount : UInt64
  id : String
  secret : String
  c : String
  witness : String
  dleq : Option DLEQ
  deriving DecidableEq, Repr, Inhabited

structure TokenV3Proof where
  mint : String
  proofs : List Proof
  deriving DecidableEq, Repr, Inhabited

structure TokenV3 where
  token : List TokenV3Proof
  unit : String
  memo : String
  deriving DecidableEq, Repr, Inhabited

structure DLEQV4 where
  e : Bytes
  s : Bytes
  r : Bytes
  deriving DecidableEq, Repr, Inhabited

structure ProofV4 where
  amount : UInt64
  secret : String
  c : Bytes
  witness : String
  dleq : Option DLEQV4
  deriving DecidableEq, Repr, Inhabited

structure TokenV4Proof where
  id : Bytes
  proofs : List ProofV4
  deriving DecidableEq, Repr, Inhabited

structure TokenV4 where
  tokenProofs : List TokenV4Proof
  memo : String
  mintURL : String
  unit : String
  deriving DecidableEq, Repr, Inhabited

/-- The dynamic type behind the `cashu.Token` interface value returned by `DecodeToken`. -/
inductive Token where
  | v3 (t : TokenV3)
  | v4 (t : TokenV4)
  deriving DecidableEq, Repr, Inhabited

/-! ## outcomes -/

/-- Errors of `NewTokenV3` / `NewTokenV4`. -/
inductive NewErr where
  | invalidUnit                       -- ErrInvalidUnit
  | invalidC (h : HexErr)             -- "invalid C: %v"
  | invalidE (h : HexErr)             -- "invalid e in DLEQ proof: %v"
  | invalidS (h : HexErr)             -- "invalid s in DLEQ proof: %v"
  | invalidR (h : HexErr)             -- "invalid r in DLEQ proof: %v"
  | emptyR                            -- "r in DLEQ proof cannot be empty"
  | invalidKeysetId (h : HexErr)      -- "invalid keyset id: %v"
  deriving DecidableEq, Repr, Inhabited

/-- Errors of `DecodeTokenV3` / `DecodeTokenV4`. -/
inductive DecErr where
  | invalidTokenV3                    -- ErrInvalidTokenV3
  | invalidTokenV4                    -- ErrInvalidTokenV4
  | base64 (offset : Nat)             -- "error decoding token: illegal base64 data at input byte N"
  | unmarshal                         -- "error unmarshaling token: …" / "cbor.Unmarshal: …"
  deriving DecidableEq, Repr, Inhabited

/-- Go run-time panics that the token code can raise. -/
inductive Panic where
  | sliceBounds (hi len : Nat)        -- "slice bounds out of range [:hi] with length len"
  | indexRange (idx len : Nat)        -- "index out of range [idx] with length len"
  deriving DecidableEq, Repr, Inhabited

inductive Out (ε α : Type) where
  | ok (a : α)
  | err (e : ε)
  | panic (p : Panic)
  deriving DecidableEq, Repr, Inhabited

/-! ## NewTokenV3 and the V3 accessors -/

/-- `Unit.String()`: `Sat = 0` is `"sat"`, everything else `"unknown"`. -/
def unitString (unit : Int) : String := if unit = 0 then "sat" else "unknown"

/-- `proofs[i].DLEQ = nil`. -/
def Proof.clearDLEQ (p : Proof) : Proof := { p with dleq := none }

/-- `NewTokenV3`.  (The Go code clears the DLEQs *in the caller's slice*; only the result is modelled.) -/
def newV3 (ps : List Proof) (mint : String) (unit : Int) (includeDLEQ : Bool) : Except NewErr TokenV3 :=
  let ps' := if includeDLEQ then ps else ps.map Proof.clearDLEQ
  if unit ≠ 0 then .error .invalidUnit
  else .ok { token := [{ mint := mint, proofs := ps' }], unit := unitString unit, memo := "" }

/-- `TokenV3.Proofs()`. -/
def proofsV3 (t : TokenV3) : List Proof :=
  t.token.foldl (fun acc tp => acc ++ tp.proofs) []

/-- `TokenV3.Mint()`: `t.Token[0].Mint` — an index expression, which panics on an empty slice. -/
def mintV3 (t : TokenV3) : Out Unit String :=
  match t.token with
  | [] => .panic (.indexRange 0 0)
  | tp :: _ => .ok tp.mint

/-- `TokenV3.Amount()`: two nested loops, `totalAmount += proof.Amount` (wrapping). -/
def amountV3 (t : TokenV3) : UInt64 :=
  t.token.foldl (fun acc tp => tp.proofs.foldl (fun acc p => acc + p.amount) acc) 0

/-! ## NewTokenV4 and the V4 accessors -/

/-- The `ProofV4` of one proof, with the errors in the order the Go code checks them. -/
def toV4 (includeDLEQ : Bool) (p : Proof) : Except NewErr ProofV4 :=
  match hexDecode p.c with
  | .error h => .error (.invalidC h)
  | .ok c =>
    let base : ProofV4 := { amount := p.amount, secret := p.secret, c := c, witness := p.witness, dleq := none }
    if includeDLEQ then
      match p.dleq with
      | none => .ok base
      | some d =>
        match hexDecode d.e with
        | .error h => .error (.invalidE h)
        | .ok e =>
          match hexDecode d.s with
          | .error h => .error (.invalidS h)
          | .ok s =>
            if (strBytes d.r).length > 0 then
              match hexDecode d.r with
              | .error h => .error (.invalidR h)
              | .ok r => .ok { base with dleq := some { e := e, s := s, r := r } }
            else .error .emptyR
    else .ok base

/-- A Go `map[string][]ProofV4` as an association list with distinct keys. -/
abbrev GoMap := List (String × List ProofV4)

/-- `m[k] = append(m[k], p)`. -/
def GoMap.push : GoMap → String → ProofV4 → GoMap
  | [], k, p => [(k, [p])]
  | (k', v) :: rest, k, p => if k' = k then (k', v ++ [p]) :: rest else (k', v) :: GoMap.push rest k p

/-- `m[k]` (the zero value, `nil`, when absent). -/
def GoMap.get : GoMap → String → List ProofV4
  | [], _ => []
  | (k', v) :: rest, k => if k' = k then v else GoMap.get rest k

def GoMap.keys (m : GoMap) : List String := m.map (·.1)

/-- First loop of `NewTokenV4`. -/
def buildMap (includeDLEQ : Bool) : List Proof → GoMap → Except NewErr GoMap
  | [], m => .ok m
  | p :: rest, m =>
    match toV4 includeDLEQ p with
    | .error e => .error e
    | .ok q => buildMap includeDLEQ rest (m.push p.id q)

/-- Second loop of `NewTokenV4`: `for k, v := range proofsMap`, visiting the keys in the order `ord`. -/
def buildGroups (m : GoMap) : List String → Except NewErr (List TokenV4Proof)
  | [] => .ok []
  | k :: ks =>
    match hexDecode k with
    | .error h => .error (.invalidKeysetId h)
    | .ok idBytes =>
      match buildGroups m ks with
      | .error e => .error e
      | .ok gs => .ok ({ id := idBytes, proofs := m.get k } :: gs)

/-- `NewTokenV4`.  Go iterates over the map in an unspecified order: `ord` is that order.  It is
    meaningful when `ord` enumerates each key of the map exactly once (`OrderOf ps ord` below);
    `iterOrder` picks the order for a given map. -/
def newV4With (iterOrder : GoMap → List String) (ps : List Proof) (mint : String) (unit : Int) (includeDLEQ : Bool) :
    Except NewErr TokenV4 :=
  if unit ≠ 0 then .error .invalidUnit
  else
    match buildMap includeDLEQ ps [] with
    | .error e => .error e
    | .ok m =>
      match buildGroups m (iterOrder m) with
      | .error e => .error e
      | .ok gs => .ok { tokenProofs := gs, memo := "", mintURL := mint, unit := unitString unit }

/-- `NewTokenV4` with the keys visited in the fixed order `ord`. -/
def newV4 (ord : List String) (ps : List Proof) (mint : String) (unit : Int) (includeDLEQ : Bool) :
    Except NewErr TokenV4 :=
  newV4With (fun _ => ord) ps mint unit includeDLEQ

/-- `ord` is a possible iteration order of the map built from `ps`: every keyset id of `ps` exactly once. -/
def OrderOf (ps : List Proof) (ord : List String) : Prop :=
  ord.Nodup ∧ ∀ k, k ∈ ord ↔ ∃ p ∈ ps, p.id = k

/-- The `Proof` that `TokenV4.Proofs()` builds for one `ProofV4` of the group with id bytes `idBytes`. -/
def fromV4 (keysetId : String) (q : ProofV4) : Proof :=
  { amount := q.amount, id := keysetId, secret := q.secret, c := hexEncode q.c, witness := q.witness,
    dleq := match q.dleq with
      | none => none
      | some d => some { e := hexEncode d.e, s := hexEncode d.s, r := hexEncode d.r } }

/-- `TokenV4.Proofs()`. -/
def proofsV4 (t : TokenV4) : List Proof :=
  t.tokenProofs.foldl (fun acc g => acc ++ g.proofs.map (fromV4 (hexEncode g.id))) []

/-- `TokenV4.Mint()`. -/
def mintV4 (t : TokenV4) : String := t.mintURL

/-- `TokenV4.Amount()`: loops over `t.Proofs()`, `totalAmount += proof.Amount` (wrapping). -/
def amountV4 (t : TokenV4) : UInt64 := amountWrap ((proofsV4 t).map (·.amount))

/-! ## Serialize and the string front end of DecodeToken -/

/-- `encoding/json` and `fxamacker/cbor` on the token types: abstract (`none` = the library returns an error). -/
structure Codec where
  encJson : TokenV3 → Option Bytes
  decJson : Bytes → Option TokenV3
  encCbor : TokenV4 → Option Bytes
  decCbor : Bytes → Option TokenV4

/-- The version prefixes `"cashuA"` / `"cashuB"` (string literals of `DecodeTokenV3/V4` and `Serialize`). -/
abbrev prefixStrV3 : String := "cashuA"
abbrev prefixStrV4 : String := "cashuB"
def prefixV3 : Bytes := strBytes prefixStrV3
def prefixV4 : Bytes := strBytes prefixStrV4

/-- The constant of the slice expressions `tokenstr[:6]` / `tokenstr[6:]`. -/
abbrev cut : Nat := 6

/-- `TokenV3.Serialize()`: `"cashuA" + base64.URLEncoding.EncodeToString(jsonBytes)`; `none` = `json.Marshal` error. -/
def serializeV3 (cod : Codec) (t : TokenV3) : Option String :=
  match cod.encJson t with
  | none => none
  | some js => some (prefixStrV3 ++ asciiStr (b64Encode padURLEncoding js))

/-- `TokenV4.Serialize()`: `"cashuB" + base64.RawURLEncoding.EncodeToString(cborData)`. -/
def serializeV4 (cod : Codec) (t : TokenV4) : Option String :=
  match cod.encCbor t with
  | none => none
  | some cb => some (prefixStrV4 ++ asciiStr (b64Encode padRawURLEncoding cb))

/-- The part of `DecodeTokenV3` / `DecodeTokenV4` before `Unmarshal` (the two functions differ only in
    the prefix literal and the sentinel error): the length check `len(tokenstr) < 6` (added by the F9 fix;
    it returns the sentinel error), then `prefixVersion := tokenstr[:6]`, `base64Token := tokenstr[6:]` —
    Go slice expressions on a string, which would panic on fewer than 6 bytes — the prefix comparison
    and the two base64 attempts.  The result is the byte string handed to `json.Unmarshal` /
    `cbor.Unmarshal`. -/
def front (pfx : Bytes) (bad : DecErr) (s : Bytes) : Out DecErr Bytes :=
  if s.length < cut then .err bad
  else
    let prefixVersion := s.take cut
    let base64Token := s.drop cut
    if prefixVersion ≠ pfx then .err bad
    else
      match b64Stage base64Token with
      | .error n => .err (.base64 n)
      | .ok tokenBytes => .ok tokenBytes

def frontV3 (s : Bytes) : Out DecErr Bytes := front prefixV3 .invalidTokenV3 s
def frontV4 (s : Bytes) : Out DecErr Bytes := front prefixV4 .invalidTokenV4 s

/-- The check of `DecodeTokenV3` after `json.Unmarshal` (added by the F9 fix): a token without entries is
    rejected with `ErrInvalidTokenV3` (`Mint()` reads `Token[0]`). -/
def checkV3 (t : TokenV3) : Out DecErr TokenV3 :=
  if t.token.length = 0 then .err .invalidTokenV3 else .ok t

/-- `DecodeTokenV3` on the bytes of the string. -/
def decodeV3Bytes (cod : Codec) (s : Bytes) : Out DecErr TokenV3 :=
  match frontV3 s with
  | .panic p => .panic p
  | .err e => .err e
  | .ok tokenBytes =>
    match cod.decJson tokenBytes with
    | none => .err .unmarshal
    | some t => checkV3 t

/-- `DecodeTokenV4` on the bytes of the string. -/
def decodeV4Bytes (cod : Codec) (s : Bytes) : Out DecErr TokenV4 :=
  match frontV4 s with
  | .panic p => .panic p
  | .err e => .err e
  | .ok tokenBytes =>
    match cod.decCbor tokenBytes with
    | none => .err .unmarshal
    | some t => .ok t

/-- `DecodeToken`: V4 first; on error V3, whose error is the one wrapped in `"invalid token: %v"`.
    A panic of either would propagate (there is no `recover`). -/
def decodeTokenBytes (cod : Codec) (s : Bytes) : Out DecErr Token :=
  match decodeV4Bytes cod s with
  | .panic p => .panic p
  | .ok t => .ok (.v4 t)
  | .err _ =>
    match decodeV3Bytes cod s with
    | .panic p => .panic p
    | .ok t => .ok (.v3 t)
    | .err e => .err e

def decodeTokenV3 (cod : Codec) (s : String) : Out DecErr TokenV3 := decodeV3Bytes cod (strBytes s)
def decodeTokenV4 (cod : Codec) (s : String) : Out DecErr TokenV4 := decodeV4Bytes cod (strBytes s)
def decodeToken (cod : Codec) (s : String) : Out DecErr Token := decodeTokenBytes cod (strBytes s)

/-! ### the code before the F9 fix (kept for the regression theorems and examples) -/

/-- Front end before the fix: `tokenstr[:6]` without a length check panics on fewer than 6 bytes. -/
def frontOld (pfx : Bytes) (bad : DecErr) (s : Bytes) : Out DecErr Bytes :=
  if s.length < cut then .panic (.sliceBounds cut s.length)
  else
    let prefixVersion := s.take cut
    let base64Token := s.drop cut
    if prefixVersion ≠ pfx then .err bad
    else
      match b64Stage base64Token with
      | .error n => .err (.base64 n)
      | .ok tokenBytes => .ok tokenBytes

/-- `DecodeToken` before the fix: unguarded slices; any token `json.Unmarshal` yields is accepted. -/
def decodeTokenBytesOld (cod : Codec) (s : Bytes) : Out DecErr Token :=
  let v4 : Out DecErr TokenV4 :=
    match frontOld prefixV4 .invalidTokenV4 s with
    | .panic p => .panic p
    | .err e => .err e
    | .ok tokenBytes =>
      match cod.decCbor tokenBytes with
      | none => .err .unmarshal
      | some t => .ok t
  match v4 with
  | .panic p => .panic p
  | .ok t => .ok (.v4 t)
  | .err _ =>
    match frontOld prefixV3 .invalidTokenV3 s with
    | .panic p => .panic p
    | .err e => .err e
    | .ok tokenBytes =>
      match cod.decJson tokenBytes with
      | none => .err .unmarshal
      | some t => .ok (.v3 t)

def decodeTokenOld (cod : Codec) (s : String) : Out DecErr Token := decodeTokenBytesOld cod (strBytes s)

/-! ## the `Token` interface: every accessor on the dynamic type -/

def Token.proofs : Token → List Proof
  | .v3 t => proofsV3 t
  | .v4 t => proofsV4 t

def Token.mint : Token → Out Unit String
  | .v3 t => mintV3 t
  | .v4 t => .ok (mintV4 t)

def Token.amount : Token → UInt64
  | .v3 t => amountV3 t
  | .v4 t => amountV4 t

/-- `Serialize()`: `.err ()` = the marshaller returned an error. -/
def Token.serialize (cod : Codec) : Token → Out Unit String
  | .v3 t => match serializeV3 cod t with | some s => .ok s | none => .err ()
  | .v4 t => match serializeV4 cod t with | some s => .ok s | none => .err ()

/-- No accessor of the token panics (`Proofs` and `Amount` are total functions in the model: the Go
    loops contain no index expression, no nil dereference and no division). -/
def Token.accessorsTotal (cod : Codec) (t : Token) : Prop :=
  (∀ p, t.mint ≠ .panic p) ∧ (∀ p, t.serialize cod ≠ .panic p)

end Gonuts.Model.Token
