import Gonuts.Model.Sexp
/-! Driver commands `wallet.*` (stateless): filled in by the Wallet model. Core-only imports. -/
namespace Gonuts.Model.WalletDriver
open Gonuts

def handle (_cmd : String) (_args : List Sexp) : Option Sexp := none

end Gonuts.Model.WalletDriver
