import Gonuts.Model.Sexp
import Gonuts.Model.WalletWire
/-!
  Driver commands `wallet.*` (stateless, core-only): the request builders of `Model.WalletWire` per construction site.

  Symbolic inputs
    proof   `(p <amount> <secret-id> <witness:bool> none | (es <e> <s>) | (esr <e> <s> <r>))`
    output  `(o <amount> <secret-id> <r-id> <witness:bool>)`
  Answer    `(req <endpoint> <secure:bool> <no-transcript:bool> <tree>)` where
    tree  = `(node ("field" tree)…)` | `(arr tree…)` | leaf
    leaf  = `(pub)` | `(num)` | `(point <kind>)` | `(dleqE e)` | `(dleqS s)` | `(blindingFactor r)` |
            `(outputSecret s)` | `(inputSecret s)`
  (public text, numbers and the coordinates of points are not compared, only their kind and position).

  Commands
    (wallet.mintquotereq)                                  RequestMint
    (wallet.meltquotereq)                                  RequestMeltQuote / swapProofs
    (wallet.mintreq <signed> (outputs…))                   MintTokens
    (wallet.swapreq swapToSend (proofs…) (outputs…))       swapToSend (Send, SendToPubkey, HTLCLockedProofs, Melt, MintSwap)
    (wallet.swapreq receive <p2pk> <sigall> (token proofs…) (outputs…))   Receive → createSwapRequest → swap()
    (wallet.swapreq receiveHTLC <sigall> (token proofs…) (outputs…))      ReceiveHTLC → swap()
    (wallet.swapreq reclaim (pending proofs…) (outputs…))  ReclaimUnspentProofs → swap()
    (wallet.meltreq melt (proofs…) (blank outputs…))       Melt
    (wallet.meltreq swapProofs (proofs…))                  swapProofs (MintSwap, Receive with swap to trusted)
    (wallet.checkstatereq (secret-ids…))                   RemoveSpentProofs / ReclaimUnspentProofs / Restore
    (wallet.restorereq (outputs…))                         Restore
    (wallet.token v3|v4 <includeDLEQ> (proofs…))           NewTokenV3 / NewTokenV4: `(token <has-blinding:bool> <tree>)` | `(error)`
-/
namespace Gonuts.Model.WalletDriver
open Gonuts Gonuts.Model.WalletWire

def leafSexp : Leaf → Sexp
  | .pub _ => .list [.atom "pub"]
  | .num _ => .list [.atom "num"]
  | .point k _ => .list [.atom "point", .atom k]
  | .dleqE e => .list [.atom "dleqE", Sexp.ofNat e]
  | .dleqS s => .list [.atom "dleqS", Sexp.ofNat s]
  | .blindingFactor r => .list [.atom "blindingFactor", Sexp.ofNat r]
  | .outputSecret s => .list [.atom "outputSecret", Sexp.ofNat s]
  | .inputSecret s => .list [.atom "inputSecret", Sexp.ofNat s]

mutual
def treeSexp : Tree → Sexp
  | .leaf l => leafSexp l
  | .node fs => .list (.atom "node" :: fieldsSexp fs)
  | .arr xs => .list (.atom "arr" :: itemsSexp xs)
def fieldsSexp : List (String × Tree) → List Sexp
  | [] => []
  | (k, t) :: rest => .list [.str k, treeSexp t] :: fieldsSexp rest
def itemsSexp : List Tree → List Sexp
  | [] => []
  | t :: rest => treeSexp t :: itemsSexp rest
end

def epName : Endpoint → String
  | .mintQuote => "mintquote"
  | .mint => "mint"
  | .meltQuote => "meltquote"
  | .melt => "melt"
  | .swap => "swap"
  | .checkState => "checkstate"
  | .restore => "restore"
  | .get w => "get-" ++ w

def reqSexp (r : Req) : Sexp :=
  .list [.atom "req", .atom (epName r.ep), Sexp.ofBool r.secureB, Sexp.ofBool r.body.noTranscriptB, treeSexp r.body]

def dleq? : Sexp → Option (Option DLEQ)
  | .atom "none" => some none
  | .list [.atom "es", e, s] => do some (some { e := ← e.asNat?, s := ← s.asNat?, r := none })
  | .list [.atom "esr", e, s, r] => do some (some { e := ← e.asNat?, s := ← s.asNat?, r := some (← r.asNat?) })
  | _ => none

def proof? : Sexp → Option WProof
  | .list [.atom "p", a, s, w, d] => do
    some { amount := ← a.asNat?, id := "ks", secret := ← s.asNat?, witness := ← w.asBool?, dleq := ← dleq? d }
  | _ => none

def proofs? (s : Sexp) : Option (List WProof) := do (← s.asList?).mapM proof?

def output? : Sexp → Option Output
  | .list [.atom "o", a, s, r, w] => do
    some { amount := ← a.asNat?, id := "ks", secret := ← s.asNat?, r := ← r.asNat?, witness := ← w.asBool? }
  | _ => none

def outputs? (s : Sexp) : Option (List Output) := do (← s.asList?).mapM output?

/-- the first (only) request of a run -/
def firstReq {α : Type} (r : Run α) : Option Sexp := r.reqs.head?.map reqSexp

def handle (cmd : String) (args : List Sexp) : Option Sexp :=
  match cmd, args with
  | "wallet.mintquotereq", [] => some (reqSexp (postMintQuoteReq 0))
  | "wallet.meltquotereq", [] => some (reqSexp postMeltQuoteReq)
  | "wallet.mintreq", [sg, outs] => do
    -- the POST of MintTokens (second request of the path; the first is the GET of the quote state)
    let r := mintTokens {} "quote" (some (some true)) (← sg.asBool?) (← outputs? outs) none
    (r.reqs.drop 1).head?.map reqSexp
  | "wallet.swapreq", [.atom "swapToSend", ps, outs] => do
    firstReq (swapToSend {} (← proofs? ps) (← outputs? outs) [] none)
  | "wallet.swapreq", [.atom "receive", p2pk, sigall, ps, outs] => do
    firstReq (receive {} (← proofs? ps)
      { p2pk := ← p2pk.asBool?, sigAll := ← sigall.asBool?, outs := ← outputs? outs })
  | "wallet.swapreq", [.atom "receiveHTLC", sigall, ps, outs] => do
    firstReq (receiveHTLC {} (← proofs? ps) true true (← sigall.asBool?) (← outputs? outs) none)
  | "wallet.swapreq", [.atom "reclaim", ps, outs] => do
    let ps ← proofs? ps
    -- second request of the path (the first is the state check)
    let r := reclaimUnspentProofs { pending := ps } [{ proofs := ps, unspent := ps, outs := ← outputs? outs }]
    (r.reqs.drop 1).head?.map reqSexp
  | "wallet.meltreq", [.atom "melt", ps, blanks] => do
    firstReq (melt {} "quote" none (.exact (← proofs? ps)) (← outputs? blanks) .pending)
  | "wallet.meltreq", [.atom "swapProofs", ps] => do
    -- third request of the path (after the mint quote and the melt quote)
    let r := swapProofs {} (← proofs? ps) { meltPaid := none }
    (r.reqs.drop 2).head?.map reqSexp
  | "wallet.checkstatereq", [ss] => do
    firstReq (removeSpentProofs {} [{ proofs := (← ss.asNats?).map fun s => { amount := 0, id := "ks", secret := s } }])
  | "wallet.restorereq", [outs] => do
    (restoreBatches [{ outs := ← outputs? outs }]).head?.map reqSexp
  | "wallet.token", [.atom "v3", inc, ps] => do
    let t := newTokenV3 (← proofs? ps) (← inc.asBool?)
    some (.list [.atom "token", Sexp.ofBool (t.leaves.any (·.2.isBlinding)), treeSexp t])
  | "wallet.token", [.atom "v4", inc, ps] => do
    match newTokenV4 (← proofs? ps) (← inc.asBool?) with
    | some t => some (.list [.atom "token", Sexp.ofBool (t.leaves.any (·.2.isBlinding)), treeSexp t])
    | none => some (.list [.atom "error"])
  | _, _ => none

end Gonuts.Model.WalletDriver
