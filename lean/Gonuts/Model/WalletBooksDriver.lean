import Gonuts.Model.Sexp
import Gonuts.Model.WalletBooks
/-!
  Driver glue for the stateful `books.*` commands (wallet bookkeeping model, C17 / C19).  Core-only.

  `(books.init (ppk…) ((seed home)…))`            new world: mints with one active keyset (id 100·i), wallets loaded
  `(books.op OP)`                                  one operation of a fault-free history → `(RES SNAP (trace…))`
  `(books.crash OP n)`                             the wallet dies before call number n → `(died|RES SNAP (trace…))`
  `(books.calls OP)`                               number of calls OP would make (state unchanged)
  `(books.newwallet seed home)`                    a further wallet on an empty store, loaded → `(RES index (trace…))`
  `(books.snap w)`                                 snapshot of wallet w
  `(books.mint m)`                                 mint-side totals `(outstanding issued spent pendingValue reuse)`
  `(books.truth seed)`                             `(unspent pending)` value of the seed's signed outputs at all mints
  `(books.check)`                                  the property predicates of Model.WalletBooks evaluated on the current world

  OP:  (mintreq w m amt) (settle m q) (minttokens w q) (send w m amt fees CH) (sendlocked w m amt owner sigall fees CH)
       (receive w tok swaptrusted strip SCRIPT) (meltquote w m amt) (melt w q SCRIPT CH) (checkmelt w q SCRIPT)
       (removespent w SCRIPT) (reclaim w SCRIPT) (mintswap w amt from to SCRIPT CH) (rotate m ks ppk) (reopen w)
       (addmint w m) (restore w (m…))
  CH = secrets the implementation selected, in order (oracle for the tie-breaking of Go's unstable sort), `()` = none.
  SNAP = (balance pendingBalance ((ks amount…)…) ((ks amount…)…) ((ks counter)…)) — buckets as sorted amount lists per keyset.
-/
namespace Gonuts.Model.WalletBooksDriver
open Gonuts Gonuts.Model Gonuts.Model.WalletBooks

structure BSt where
  w : World := {}

def u64? (s : Sexp) : Option UInt64 := do
  let n ← s.asNat?
  if n < 2 ^ 64 then some (UInt64.ofNat n) else none

def a (s : String) : Sexp := .atom s
def l (xs : List Sexp) : Sexp := .list xs
def ofU64 (x : UInt64) : Sexp := Sexp.ofNat x.toNat

def sid? : Sexp → Option SId
  | .list [.atom "d", s, k, c] => do some (.det (← s.asNat?) (← k.asNat?) (← c.asNat?))
  | .list [.atom "r", n] => do some (.rnd (← n.asNat?))
  | _ => none

def sidSx : SId → Sexp
  | .det s k c => l [a "d", Sexp.ofNat s, Sexp.ofNat k, Sexp.ofNat c]
  | .rnd n => l [a "r", Sexp.ofNat n]

def listOf? {α} (f : Sexp → Option α) : Sexp → Option (List α)
  | .list xs => xs.mapM f
  | _ => none

def ln? : Sexp → Option LnAns
  | .atom "succ" => some (.succ 0)
  | .list [.atom "succ", n] => do some (.succ (← u64? n))
  | .atom "pending" => some .pending
  | .atom "failed" => some .failed
  | .atom "err" => some .err
  | .atom "notfound" => some .notfound
  | _ => none

def op? : Sexp → Option (Op × List SId)
  | .list [.atom "mintreq", w, m, amt] => do some (.mintReq (← w.asNat?) (← m.asNat?) (← u64? amt), [])
  | .list [.atom "settle", m, q] => do some (.settle (← m.asNat?) (← q.asNat?), [])
  | .list [.atom "minttokens", w, q] => do some (.mintTokens (← w.asNat?) (← q.asNat?), [])
  | .list [.atom "send", w, m, amt, fees, ch] => do
    some (.send (← w.asNat?) (← m.asNat?) (← u64? amt) (← fees.asBool?), ← listOf? sid? ch)
  | .list [.atom "sendlocked", w, m, amt, owner, sa, fees, ch] => do
    some (.sendLocked (← w.asNat?) (← m.asNat?) (← u64? amt) (← owner.asNat?) (← sa.asBool?) (← fees.asBool?), ← listOf? sid? ch)
  | .list [.atom "receive", w, tok, st, strip, sc] => do
    some (.receive (← w.asNat?) (← tok.asNat?) (← st.asBool?) (← strip.asBool?) (← listOf? ln? sc), [])
  | .list [.atom "meltquote", w, m, amt] => do some (.meltQuote (← w.asNat?) (← m.asNat?) (← u64? amt), [])
  | .list [.atom "melt", w, q, sc, ch] => do some (.melt (← w.asNat?) (← q.asNat?) (← listOf? ln? sc), ← listOf? sid? ch)
  | .list [.atom "checkmelt", w, q, sc] => do some (.checkMelt (← w.asNat?) (← q.asNat?) (← listOf? ln? sc), [])
  | .list [.atom "removespent", w, sc] => do some (.removeSpent (← w.asNat?) (← listOf? ln? sc), [])
  | .list [.atom "reclaim", w, sc] => do some (.reclaim (← w.asNat?) (← listOf? ln? sc), [])
  | .list [.atom "mintswap", w, amt, f, t, sc, ch] => do
    some (.mintSwap (← w.asNat?) (← u64? amt) (← f.asNat?) (← t.asNat?) (← listOf? ln? sc), ← listOf? sid? ch)
  | .list [.atom "rotate", m, ks, ppk] => do some (.rotate (← m.asNat?) (← ks.asNat?) (← u64? ppk), [])
  | .list [.atom "reopen", w] => do some (.reopen (← w.asNat?), [])
  | .list [.atom "addmint", w, m] => do some (.addMint (← w.asNat?) (← m.asNat?), [])
  | .list [.atom "restore", w, ms] => do some (.restore (← w.asNat?) (← ms.asNats?), [])
  | _ => none

def opWallet : Op → Option Nat
  | .mintReq w _ _ | .mintTokens w _ | .send w _ _ _ | .sendLocked w _ _ _ _ _ | .receive w _ _ _ _ | .meltQuote w _ _
  | .melt w _ _ | .checkMelt w _ _ | .removeSpent w _ | .reclaim w _ | .mintSwap w _ _ _ _ | .reopen w | .addMint w _
  | .restore w _ => some w
  | .settle _ _ | .rotate _ _ _ => none

def natLe (x y : Nat) : Bool := x ≤ y

def keysOf (xs : List Nat) : List Nat := Select.sortBy natLe (MintView.dedupNat xs)

def bucketSx (ps : List WProof) : Sexp :=
  l ((keysOf (ps.map (·.ks))).map (fun k =>
    l (Sexp.ofNat k :: (Select.sortU64 ((ps.filter (·.ks == k)).map (·.amount))).map ofU64)))

def snapSx (x : Wallet) : Sexp :=
  l [ofU64 (getBalance x), ofU64 (pendingBalance x), bucketSx x.db.proofs, bucketSx (x.db.pending.map (·.p)),
     l ((Select.sortBy (fun (r s : KsRow) => natLe r.id s.id) x.db.keysets).map (fun r => l [Sexp.ofNat r.id, Sexp.ofNat r.counter]))]

def resSx : Res → Sexp
  | .ok n => l [a "ok", ofU64 n]
  | .err e => l [a "err", .str e]

def selOf (ch : List SId) : Sel := if ch.isEmpty then selStable else selOracle ch

def sumU (xs : List UInt64) : Nat := (xs.map (·.toNat)).sum

def mintSx (m : MintView) : Sexp :=
  let issued := sumU (m.sigs.map (·.amount))
  let spent := sumU (m.spent.map (·.2))
  l [Sexp.ofNat (issued - spent), Sexp.ofNat issued, Sexp.ofNat spent, Sexp.ofNat (sumU (m.pending.map (·.2.1))),
     Sexp.ofNat m.reuse.length, Sexp.ofNat m.mintedIn, Sexp.ofNat m.melted, Sexp.ofNat m.swapFees]

def seedOf : SId → Option Nat
  | .det s _ _ => some s
  | .rnd _ => none

def truthSx (w : World) (seed : Nat) : Sexp :=
  let per := w.mints.map (fun m =>
    let mine := m.sigs.filter (fun s => seedOf s.out == some seed)
    (sumU ((mine.filter (fun s => m.stateOf s.out == .unspent)).map (·.amount)),
     sumU ((mine.filter (fun s => m.stateOf s.out == .pending)).map (·.amount))))
  l [Sexp.ofNat (per.map (·.1)).sum, Sexp.ofNat (per.map (·.2)).sum]

def handleSt (st : BSt) (cmd : String) (args : List Sexp) : Option (BSt × Sexp) :=
  match cmd, args with
  | "books.init", [fees, wallets] => do
    let fees ← listOf? u64? fees
    let ws ← listOf? (fun s => match s with
      | .list [sd, h] => do some ((← sd.asNat?), (← h.asNat?))
      | _ => none) wallets
    some ({ w := initWorld selStable fees ws }, l [a "ok"])
  | "books.op", [opx] => do
    let (op, ch) ← op? opx
    let (w', r) := applyOp (selOf ch) st.w op
    let snap := match opWallet op with | some wi => snapSx (w'.wallet wi) | none => l []
    some ({ w := w' }, l [resSx r, snap, l ((opLabels (selOf ch) st.w op).map a), Sexp.ofNat w'.tokens.length])
  | "books.crash", [opx, n] => do
    let (op, ch) ← op? opx
    let n ← n.asNat?
    let (w', r) := applyOpN (selOf ch) st.w op n
    let snap := match opWallet op with | some wi => snapSx (w'.wallet wi) | none => l []
    some ({ w := w' }, l [match r with | some x => resSx x | none => l [a "died"], snap,
      l (((opLabels (selOf ch) st.w op).take n).map a), Sexp.ofNat w'.tokens.length])
  | "books.calls", [opx] => do
    let (op, ch) ← op? opx
    some (st, Sexp.ofNat (opCalls (selOf ch) st.w op))
  | "books.newwallet", [seed, home] => do
    let wi := st.w.wallets.length
    let w0 : World := { st.w with wallets := st.w.wallets ++ [{ seed := ← seed.asNat?, mem := { defaultMint := ← home.asNat? } }] }
    let (w', r) := applyOp selStable w0 (.reopen wi)
    some ({ w := w' }, l [resSx r, Sexp.ofNat wi, l ((opLabels selStable w0 (.reopen wi)).map a)])
  | "books.snap", [wi] => do some (st, snapSx (st.w.wallet (← wi.asNat?)))
  | "books.mint", [mi] => do some (st, mintSx (st.w.mint (← mi.asNat?)))
  | "books.truth", [seed] => do some (st, truthSx st.w (← seed.asNat?))
  | "books.check", [] =>
    some (st, l [l [a "W_balance", Sexp.ofBool (wBalance st.w)], l [a "W_distinct", Sexp.ofBool (wDistinct st.w)],
      l [a "W_conserve", Sexp.ofBool (wConserve st.w)], l [a "W_pending", Sexp.ofBool (wPending st.w)],
      l [a "counter_discipline", Sexp.ofBool (cDiscipline st.w)], l [a "counter_discipline_active", Sexp.ofBool (cDisciplineActive st.w)]])
  | "books.tokens", [] =>
    some (st, l (st.w.tokens.map (fun t => l [Sexp.ofNat t.id, Sexp.ofNat t.mint, l (t.proofs.map (fun p => l [sidSx p.secret, ofU64 p.amount, Sexp.ofNat p.ks]))])))
  | _, _ => none

end Gonuts.Model.WalletBooksDriver
