import Gonuts.Model.Sexp
/-! Driver commands `token.*` (stateless): filled in by the Token model. Core-only imports. -/
namespace Gonuts.Model.TokenDriver
open Gonuts

def handle (_cmd : String) (_args : List Sexp) : Option Sexp := none

end Gonuts.Model.TokenDriver
