import Gonuts.Model.Sexp
import Gonuts.Model.Token
import Gonuts.Model.TokenWire
/-!
  Driver commands `token.*` (stateless; core-only imports).

  Wire format (S-expressions; strings quoted, byte strings as lower-case hex in quotes):

    proof    ::= (AMOUNT "id" "secret" "C" "witness" DLEQ)        DLEQ   ::= none | ("e" "s" "r")
    proofv4  ::= (AMOUNT "secret" "chex" "witness" DLEQ4)         DLEQ4  ::= none | ("ehex" "shex" "rhex")
    token    ::= (v3 (("mint" (proof…))…) "unit" "memo")
               | (v4 (("idhex" (proofv4…))…) "memo" "mint" "unit")

    token.newv3  (proof…) "mint" UNIT BOOL      -> (ok token) | (err KIND)
    token.newv4  (proof…) "mint" UNIT BOOL      -> (ok token) with the groups sorted by their rendering
                                                   | (err KIND DETAIL…); for `invalid-keyset-id` every candidate
                                                   detail is listed (which key Go meets first is unspecified)
    token.access token                          -> ((proofs (proof…)) (mint "…") | (mint panic IDX LEN)) (amount N))
    token.front  "hexbytes"                     -> ((v4 STAGE) (v3 STAGE)): what DecodeTokenV4 / DecodeTokenV3 do before Unmarshal
                                                   STAGE ::= (panic HI LEN) | (err invalid-v3) | (err invalid-v4)
                                                           | (err (b64err N)) | (payload "hex")
    token.serialize token                       -> "cashuA…" / "cashuB…" with the modelled json/cbor encoders (Model.TokenWire)
    token.marshal token                         -> "hex" of the modelled json.Marshal / cbor.Marshal output
    token.parse-json "hex" / token.parse-cbor "hex" -> (some token) | none: the canonical parsers of Model.TokenWire
    token.check-v3 token                        -> (ok) | (err invalid-v3): the check of DecodeTokenV3 after Unmarshal
    token.front-old "hexbytes"                  -> as token.front, for the code before the F9 fix
    token.hexdec "s" -> (ok "hex") | (err odd) | (err byte N)     token.hexenc "hex" -> "s"
    token.b64dec BOOL "hexbytes" -> (ok "hex") | (err N)          token.b64enc BOOL "hex" -> "hex"
    token.lower  "s" -> "lowerHex s"
-/
namespace Gonuts.Model.TokenDriver
open Gonuts Gonuts.Model.Token

def u64? (s : Sexp) : Option UInt64 := do
  match s with
  | .atom _ =>
    let n ← s.asNat?
    if n < 2 ^ 64 then some (UInt64.ofNat n) else none
  | _ => none

def str? : Sexp → Option String
  | .str s => some s
  | _ => none

def bytes? (s : Sexp) : Option Bytes := do
  match hexDecode (← str? s) with
  | .ok b => some b
  | .error _ => none

def ofBytes (b : Bytes) : Sexp := .str (hexEncode b)
def ofU64 (x : UInt64) : Sexp := Sexp.ofNat x.toNat

def dleq? : Sexp → Option (Option DLEQ)
  | .atom "none" => some none
  | .list [e, s, r] => do some (some { e := ← str? e, s := ← str? s, r := ← str? r })
  | _ => none

def proof? : Sexp → Option Proof
  | .list [a, id, secret, c, w, d] => do
    some { amount := ← u64? a, id := ← str? id, secret := ← str? secret, c := ← str? c,
           witness := ← str? w, dleq := ← dleq? d }
  | _ => none

def proofs? (s : Sexp) : Option (List Proof) := do (← s.asList?).mapM proof?

def dleq4? : Sexp → Option (Option DLEQV4)
  | .atom "none" => some none
  | .list [e, s, r] => do some (some { e := ← bytes? e, s := ← bytes? s, r := ← bytes? r })
  | _ => none

def proof4? : Sexp → Option ProofV4
  | .list [a, secret, c, w, d] => do
    some { amount := ← u64? a, secret := ← str? secret, c := ← bytes? c, witness := ← str? w, dleq := ← dleq4? d }
  | _ => none

def token? : Sexp → Option Token
  | .list [.atom "v3", .list entries, unit, memo] => do
    let es ← entries.mapM fun e =>
      match e with
      | .list [m, ps] => do some ({ mint := ← str? m, proofs := ← proofs? ps } : TokenV3Proof)
      | _ => none
    some (.v3 { token := es, unit := ← str? unit, memo := ← str? memo })
  | .list [.atom "v4", .list groups, memo, mint, unit] => do
    let gs ← groups.mapM fun g =>
      match g with
      | .list [id, ps] => do
        some ({ id := ← bytes? id, proofs := ← (← ps.asList?).mapM proof4? } : TokenV4Proof)
      | _ => none
    some (.v4 { tokenProofs := gs, memo := ← str? memo, mintURL := ← str? mint, unit := ← str? unit })
  | _ => none

def ofDleq : Option DLEQ → Sexp
  | none => .atom "none"
  | some d => .list [.str d.e, .str d.s, .str d.r]

def ofProof (p : Proof) : Sexp :=
  .list [ofU64 p.amount, .str p.id, .str p.secret, .str p.c, .str p.witness, ofDleq p.dleq]

def ofDleq4 : Option DLEQV4 → Sexp
  | none => .atom "none"
  | some d => .list [ofBytes d.e, ofBytes d.s, ofBytes d.r]

def ofProof4 (p : ProofV4) : Sexp :=
  .list [ofU64 p.amount, .str p.secret, ofBytes p.c, .str p.witness, ofDleq4 p.dleq]

def ofToken : Token → Sexp
  | .v3 t => .list [.atom "v3",
      .list (t.token.map fun e => .list [.str e.mint, .list (e.proofs.map ofProof)]), .str t.unit, .str t.memo]
  | .v4 t => .list [.atom "v4",
      .list (t.tokenProofs.map fun g => .list [ofBytes g.id, .list (g.proofs.map ofProof4)]),
      .str t.memo, .str t.mintURL, .str t.unit]

/-- `NewTokenV4` answer: the group order of the Go code comes from map iteration, so both sides compare the
    groups sorted by their rendering (pure ASCII, hence the same order in Go and Lean). -/
def ofV4Sorted (t : TokenV4) : Sexp :=
  let gs : List Sexp := t.tokenProofs.map fun g => .list [ofBytes g.id, .list (g.proofs.map ofProof4)]
  let keyed := gs.map fun g => (g.render, g)
  let sorted := keyed.mergeSort (fun a b => decide (a.1 ≤ b.1))
  .list [.atom "v4", .list (sorted.map (·.2)), .str t.memo, .str t.mintURL, .str t.unit]

def ofHexErr : HexErr → List Sexp
  | .oddLength => [.atom "odd"]
  | .invalidByte b => [.atom "byte", Sexp.ofNat b.toNat]

def ofNewErr : NewErr → Sexp
  | .invalidUnit => .list [.atom "err", .atom "invalid-unit"]
  | .invalidC h => .list ([.atom "err", .atom "invalid-C"] ++ ofHexErr h)
  | .invalidE h => .list ([.atom "err", .atom "invalid-e"] ++ ofHexErr h)
  | .invalidS h => .list ([.atom "err", .atom "invalid-s"] ++ ofHexErr h)
  | .invalidR h => .list ([.atom "err", .atom "invalid-r"] ++ ofHexErr h)
  | .emptyR => .list [.atom "err", .atom "empty-r"]
  | .invalidKeysetId h => .list ([.atom "err", .atom "invalid-keyset-id"] ++ ofHexErr h)

def int? (s : Sexp) : Option Int :=
  match s with
  | .atom a => a.toInt?
  | _ => none

def ofDecErr : DecErr → Sexp
  | .invalidTokenV3 => .atom "invalid-v3"
  | .invalidTokenV4 => .atom "invalid-v4"
  | .base64 n => .list [.atom "b64err", Sexp.ofNat n]
  | .unmarshal => .atom "unmarshal"

/-- Outcome of the part of `DecodeTokenV3/V4` that precedes `Unmarshal`. -/
def ofFront : Out DecErr Bytes → Sexp
  | .panic (.sliceBounds hi len) => .list [.atom "panic", Sexp.ofNat hi, Sexp.ofNat len]
  | .panic (.indexRange i len) => .list [.atom "panic-index", Sexp.ofNat i, Sexp.ofNat len]
  | .err e => .list [.atom "err", ofDecErr e]
  | .ok b => .list [.atom "payload", ofBytes b]

def handle (cmd : String) (args : List Sexp) : Option Sexp :=
  match cmd, args with
  | "token.newv3", [ps, mint, unit, dleq] => do
    match newV3 (← proofs? ps) (← str? mint) (← int? unit) (← dleq.asBool?) with
    | .ok t => some (.list [.atom "ok", ofToken (.v3 t)])
    | .error e => some (ofNewErr e)
  | "token.newv4", [ps, mint, unit, dleq] => do
    let ps ← proofs? ps
    let mint ← str? mint
    let unit ← int? unit
    let dleq ← dleq.asBool?
    -- every key that does not decode is a candidate for the reported error: list them all
    let bad (m : GoMap) : List Sexp := m.keys.filterMap fun k =>
      match hexDecode k with
      | .error h => some (.list (ofHexErr h))
      | .ok _ => none
    match newV4With (fun m => m.keys) ps mint unit dleq with
    | .ok t => some (.list [.atom "ok", ofV4Sorted t])
    | .error (.invalidKeysetId _) =>
      match buildMap dleq ps [] with
      | .ok m => some (.list ([.atom "err", .atom "invalid-keyset-id"] ++ bad m))
      | .error _ => none
    | .error e => some (ofNewErr e)
  | "token.access", [t] => do
    let t ← token? t
    let mint : Sexp := match t.mint with
      | .ok m => .list [.atom "mint", .str m]
      | .panic (.indexRange i l) => .list [.atom "mint", .atom "panic", Sexp.ofNat i, Sexp.ofNat l]
      | _ => .list [.atom "mint", .atom "?"]
    some (.list [.list [.atom "proofs", .list (t.proofs.map ofProof)], mint, .list [.atom "amount", ofU64 t.amount]])
  | "token.front", [s] => do
    let s ← bytes? s
    some (.list [.list [.atom "v4", ofFront (frontV4 s)], .list [.atom "v3", ofFront (frontV3 s)]])
  | "token.serialize", [t] => do some (.str (Wire.serialize (← token? t)))
  | "token.marshal", [t] => do
    match ← token? t with
    | .v3 t3 => some (ofBytes (Wire.jsonTokenV3 t3))
    | .v4 t4 => some (ofBytes (Wire.cborTokenV4 t4))
  | "token.parse-json", [b] => do
    match Wire.jsonParse (← bytes? b) with
    | some t => some (.list [.atom "some", ofToken (.v3 t)])
    | none => some (.atom "none")
  | "token.parse-cbor", [b] => do
    match Wire.cborParse (← bytes? b) with
    | some t => some (.list [.atom "some", ofToken (.v4 t)])
    | none => some (.atom "none")
  | "token.check-v3", [t] => do
    match ← token? t with
    | .v3 t3 =>
      match checkV3 t3 with
      | .ok _ => some (.list [.atom "ok"])
      | .err e => some (.list [.atom "err", ofDecErr e])
      | .panic _ => none
    | .v4 _ => none
  | "token.front-old", [s] => do
    let s ← bytes? s
    some (.list [.list [.atom "v4", ofFront (frontOld prefixV4 .invalidTokenV4 s)],
                 .list [.atom "v3", ofFront (frontOld prefixV3 .invalidTokenV3 s)]])
  | "token.hexdec", [s] => do
    match hexDecode (← str? s) with
    | .ok b => some (.list [.atom "ok", ofBytes b])
    | .error h => some (.list (.atom "err" :: ofHexErr h))
  | "token.hexenc", [b] => do some (.str (hexEncode (← bytes? b)))
  | "token.lower", [s] => do some (.str (lowerHex (← str? s)))
  | "token.b64dec", [pad, s] => do
    match b64Decode (← pad.asBool?) (← bytes? s) with
    | .ok b => some (.list [.atom "ok", ofBytes b])
    | .error n => some (.list [.atom "err", Sexp.ofNat n])
  | "token.b64enc", [pad, b] => do some (ofBytes (b64Encode (← pad.asBool?) (← bytes? b)))
  | "token.b64stage", [s] => do
    match b64Stage (← bytes? s) with
    | .ok b => some (.list [.atom "ok", ofBytes b])
    | .error n => some (.list [.atom "err", Sexp.ofNat n])
  | _, _ => none

end Gonuts.Model.TokenDriver
