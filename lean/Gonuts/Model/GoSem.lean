/-
  Semantics of the Go constructs that `/verif/extract/translate.go` emits (`Gonuts/Gen/Code.lean`): the translator
  turns a pure Go function into a Lean term made of `let`, `if`, tuples and the combinators below.  Everything
  here is structural recursion over a list or a fuel counter, so closed instances reduce in the kernel and the
  tie theorems (`Gonuts/Tie/Code.lean`) are ordinary inductions.

  What is Go here and what is not (part of the trusted base, DESIGN.md §3):
  * `uint64`, `uint` are `UInt64` (`uint` is 64 bits on the platforms gonuts is built for): `+ - *` wrap, `/ %` by a
    constant; `int` is `Int` (no wrap-around: the translated functions only count with it);
  * a slice is a `List`, a map is an association list read with `mapGet` (missing key = zero value = `default`),
    written with `mapSet`; a nil map / nil slice is the empty one; pointers to structs are the struct;
  * a shift by 64 or more gives 0 as in Go (`shl`, `shr`), not Lean's shift modulo 64;
  * panics (index out of range, division by zero, nil dereference) are NOT modelled: `idx` returns the zero value.
  Core Lean only.
-/
namespace Gonuts.Model.Go

/-- how a loop body ended: fell through / `continue`, `break`, or `return r` -/
inductive Ctl (ρ : Type) where
  | next
  | brk
  | ret (r : ρ)
  deriving Repr

/-- `for i, x := range xs { body }` with loop-carried variables `σ`; `i` is the index -/
def rangeLoopFrom {α σ ρ : Type} (body : Nat → α → σ → Ctl ρ × σ) : Nat → List α → σ → Ctl ρ × σ
  | _, [], s => (.next, s)
  | i, x :: xs, s =>
    match body i x s with
    | (.next, s') => rangeLoopFrom body (i + 1) xs s'
    | (.brk, s') => (.next, s')
    | (.ret r, s') => (.ret r, s')

def rangeLoop {α σ ρ : Type} (xs : List α) (s : σ) (body : Nat → α → σ → Ctl ρ × σ) : Ctl ρ × σ :=
  rangeLoopFrom body 0 xs s

/-- `for i := lo; i < hi; i++ { body }` where the body assigns neither `i` nor `hi` -/
def countLoop {σ ρ : Type} (lo hi : Int) (s : σ) (body : Int → σ → Ctl ρ × σ) : Ctl ρ × σ :=
  rangeLoopFrom (fun k (_ : Unit) st => body (lo + Int.ofNat k) st) 0 (List.replicate (hi - lo).toNat ()) s

/-- `for cond { body }` (the post statement is part of `body`); `none` = out of fuel -/
def whileLoop {σ ρ : Type} (cond : σ → Bool) (body : σ → Ctl ρ × σ) : Nat → σ → Option (Ctl ρ × σ)
  | 0, s => if cond s then none else some (.next, s)
  | fuel + 1, s =>
    if cond s then
      match body s with
      | (.next, s') => whileLoop cond body fuel s'
      | (.brk, s') => some (.next, s')
      | (.ret r, s') => some (.ret r, s')
    else some (.next, s)

/-- `m[k]` on a map: the zero value when the key is missing -/
def mapGet {κ ν : Type} [BEq κ] [Inhabited ν] (m : List (κ × ν)) (k : κ) : ν :=
  match m.lookup k with
  | some v => v
  | none => default

/-- `v, ok := m[k]` -/
def mapGet2 {κ ν : Type} [BEq κ] [Inhabited ν] (m : List (κ × ν)) (k : κ) : ν × Bool :=
  match m.lookup k with
  | some v => (v, true)
  | none => (default, false)

/-- `m[k] = v` -/
def mapSet {κ ν : Type} (m : List (κ × ν)) (k : κ) (v : ν) : List (κ × ν) := (k, v) :: m

/-- `xs[i]` (Go panics out of range; here: the zero value) -/
def idx {α : Type} [Inhabited α] (xs : List α) (i : Int) : α := xs.getD i.toNat default

/-- `a << n` on `uint64`: 0 once `n ≥ 64` -/
def shl (a : UInt64) (n : Nat) : UInt64 := if n < 64 then a <<< UInt64.ofNat n else 0

/-- `a >> n` on `uint64`: 0 once `n ≥ 64` -/
def shr (a : UInt64) (n : Nat) : UInt64 := if n < 64 then a >>> UInt64.ofNat n else 0

/-- `slices.Delete(s, i, j)`: the slice without the elements `[i, j)` (Go panics when the range is invalid) -/
def sliceDelete {α : Type} (s : List α) (i j : Nat) : List α := s.take i ++ s.drop j

/-- `copy(dst, src)`: the first `min(len(dst), len(src))` elements of `dst` are overwritten -/
def copySlice {α : Type} (dst src : List α) : List α := src.take dst.length ++ dst.drop src.length

/-- `fmt.Sprintf(format, …)`: only the format is kept (the rendered arguments never influence control flow in
    the translated functions; the string is used to identify the error value that is built from it) -/
def sprintf (format : String) : String := format

/-- `uint64(i)` for an `int` -/
def intToU64 (i : Int) : UInt64 := UInt64.ofInt i

/-- `int(u)` for a `uint64` (two's complement) -/
def u64ToInt (u : UInt64) : Int := u.toInt64.toInt

end Gonuts.Model.Go
