import Gonuts.Model.Sexp
import Gonuts.Model.Mint
import Gonuts.Model.MintConc
/-!
  Driver glue for the stateful `mint.*` commands: parse an op line into `Mint.Op`, run
  `Mint.applyOp` on the session, render `(outcome (storage-trace…) (lightning-calls…))` exactly as
  the harness canonicalises the real mint's behaviour.  Core-only.
-/
namespace Gonuts.Model.MintDriver
open Gonuts Gonuts.Model Gonuts.Model.Mint

def u64? (s : Sexp) : Option UInt64 := do
  let n ← s.asNat?
  if n < 2 ^ 64 then some (UInt64.ofNat n) else none

def int? : Sexp → Option Int
  | .atom s => s.toInt?
  | _ => none

def ofU64 (x : UInt64) : Sexp := Sexp.ofNat x.toNat
def a (s : String) : Sexp := .atom s
def l (xs : List Sexp) : Sexp := .list xs
def ofInt (i : Int) : Sexp := .atom (toString i)

def ksRef? : Sexp → Option KsRef
  | .list [.atom "k", i] => do some (.known (← i.asNat?))
  | .list [.atom "u", t] => do some (.unknown (← t.asNat?))
  | _ => none

def cTerm? : Sexp → Option CTerm
  | .list [.atom "sig", k, amt, s] => do some (.sig (← k.asNat?) (← u64? amt) (← s.asNat?))
  | .list [.atom "other", t] => do some (.other (← t.asNat?))
  | .list [.atom "nonhex", t] => do some (.nonhex (← t.asNat?))
  | .list [.atom "nonpoint", t] => do some (.nonpoint (← t.asNat?))
  | _ => none

def verdict? : Sexp → Option (Option E)
  | .atom "none" => some none
  | .list [c, n] => do some (some ((← c.asNat?), (← n.asStr?)))
  | _ => none

def lock? : Sexp → Option Lock
  | .atom "plain" => some .plain
  | .list [.atom "locked", sa, v] => do some (.locked (← sa.asBool?) (← verdict? v))
  | .list [.atom "nut10", sa] => do some (.nut10other (← sa.asBool?))
  | _ => none

def proof? : Sexp → Option Proof
  | .list [amt, ks, sec, long, c, enc, w, dleq, lock] => do
    some { amount := ← u64? amt, ks := ← ksRef? ks, secret := ← sec.asNat?, long := ← long.asBool?, c := ← cTerm? c,
           cEnc := ← enc.asNat?, witness := ← w.asNat?, dleq := ← dleq.asNat?, lock := ← lock? lock }
  | _ => none

def bTerm? : Sexp → Option BTerm
  | .list [.atom "pt", i] => do some (.pt (← i.asNat?))
  | .list [.atom "nonhex", i] => do some (.nonhex (← i.asNat?))
  | .list [.atom "nonpoint", i] => do some (.nonpoint (← i.asNat?))
  | _ => none

def bmsg? : Sexp → Option BMsg
  | .list [amt, ks, b, w] => do
    some { amount := ← u64? amt, ks := ← ksRef? ks, b := ← bTerm? b, witness := ← w.asNat? }
  | _ => none

def listOf? {α} (f : Sexp → Option α) : Sexp → Option (List α)
  | .list xs => xs.mapM f
  | _ => none

def ans? : Sexp → Option LnAns
  | .atom "succ" => some .succ
  | .atom "pending" => some .pending
  | .atom "failed" => some .failed
  | .atom "failed-err" => some .failedErr
  | .atom "err" => some .err
  | .atom "notfound" => some .notfound
  | .atom "notfound-grpc" => some .notfoundGrpc
  | _ => none

def qsig? : Sexp → Option QSig
  | .atom "none" => some .none
  | .atom "garbage" => some .garbage
  | .list [.atom "s", k, q, bs] => do some (.signed (← k.asNat?) (← int? q) (← listOf? Sexp.asNat? bs))
  | _ => none

def pk? : Sexp → Option PkReq
  | .atom "none" => some .none
  | .atom "bad" => some .bad
  | .list [.atom "key", k] => do some (.key (← k.asNat?))
  | _ => none

def yref? : Sexp → Option YRef
  | .list [.atom "y", s] => do some (.known (← s.asNat?))
  | .list [.atom "unk", t] => do some (.unk (← t.asNat?))
  | _ => none

/-- Parse an op line. -/
def op? (cmd : String) (args : List Sexp) : Option Op :=
  match cmd, args with
  | "mint.extinvoice", [id, msat] => do some (.extInvoice (← id.asNat?) (← u64? msat))
  | "mint.settle", [h] => do some (.settle (← h.asNat?))
  | "mint.mintquote", [amt, unit, pk, lnFail] => do
    some (.mintQuote (← u64? amt) ((← unit.asStr?) == "sat") (← pk? pk) (← lnFail.asBool?))
  | "mint.notify", [q] => do some (.notify (← q.asNat?))
  | "mint.quotestate", [q, lnFail] => do some (.quoteState (← int? q) (← lnFail.asBool?))
  | "mint.mint", [q, outs, sig] => do some (.mint (← int? q) (← listOf? bmsg? outs) (← qsig? sig))
  | "mint.swap", [ps, outs] => do some (.swap (← listOf? proof? ps) (← listOf? bmsg? outs) none)
  | "mint.swap", [ps, outs, v] => do some (.swap (← listOf? proof? ps) (← listOf? bmsg? outs) (← verdict? v))
  | "mint.meltquote", [inv, unit, mpp] => do
    let inv ← (match inv with
      | .list [.atom "inv", h] => do some (InvReq.inv (← h.asNat?))
      | .list [.atom "noamount", h] => do some (InvReq.inv (← h.asNat?))
      | .list [.atom "forged", f, h] => do some (InvReq.forged (← f.asNat?) (← h.asNat?))
      | .atom "bad" => some InvReq.bad
      | _ => none)
    let mpp ← (match mpp with
      | .atom "none" => some none
      | .list [.atom "mpp", m] => do some (some (← u64? m))
      | _ => none)
    some (.meltQuote inv ((← unit.asStr?) == "sat") mpp)
  | "mint.melt", [q, ps, script] => do some (.melt (← int? q) (← listOf? proof? ps) (← listOf? ans? script) false)
  | "mint.melt", [q, ps, script, lnFail] => do
    some (.melt (← int? q) (← listOf? proof? ps) (← listOf? ans? script) (← lnFail.asBool?))
  | "mint.meltstate", [q, script] => do some (.meltState (← int? q) (← listOf? ans? script))
  | "mint.checkstate", [ys, script] => do some (.checkState (← listOf? yref? ys) (← listOf? ans? script))
  | "mint.restore", [bs] => do some (.restore (← listOf? Sexp.asNat? bs))
  | "mint.balance", [] => some .balance
  | "mint.rotate", [fee] => do some (.rotate (← u64? fee))
  | "mint.restart", [rotate, fee] => do some (.restart (← rotate.asBool?) (← u64? fee))
  | "mint.fault", [k] => do some (.armFault (← k.asNat?))
  | "mint.nofault", [] => some .disarm
  | _, _ => none

def errSx (e : E) : Sexp := l [a "err", Sexp.ofNat e.1, .str e.2]

def exc {α} (r : Except E α) (f : α → Sexp) : Sexp :=
  match r with
  | .ok v => f v
  | .error e => errSx e

def sigsSx (sigs : List BSig) : Sexp :=
  l [a "ok", l (sigs.map (fun s => l [ofU64 s.amount, Sexp.ofNat s.ks, Sexp.ofNat s.b]))]

def callSx (c : LnCall) : Sexp := l [a c.kind, ofInt c.hash, ofU64 c.msat, ofU64 c.maxFee, a c.ans]

def lqPre (q : MeltQ) : Nat := if q.preimage == 0 then 0 else if q.preimage == q.hash + 1 then 1 else 2

def sortKs (xs : List (Nat × UInt64)) : List (Nat × UInt64) := xs.mergeSort (fun x y => x.1 ≤ y.1)

def meltSx (q : MeltQ) : Sexp := l [a "ok", a q.state.str, Sexp.ofNat (lqPre q)]

/-- Render a result the way the harness canonicalises the real outcome. `fee`: the rotate op echoes it. -/
def resSx (op : Op) : Res → Sexp
  | .unit => l [a "ok"]
  | .mintQuote r => exc r (fun q => l [a "ok", Sexp.ofNat q.id, ofU64 q.amount, Sexp.ofNat q.hash, a q.state.str])
  | .notify none => l [a "ok", a "no-subscriber"]
  | .notify (some b) => l [a "ok", a (if b then "wrote" else "no-write")]
  | .quoteState r => exc r (fun q => l [a "ok", a q.state.str])
  | .sigs r => exc r sigsSx
  | .meltQuote r => exc r (fun q => l [a "ok", Sexp.ofNat q.id, ofU64 q.amount, ofU64 q.feeReserve, Sexp.ofBool q.isMpp])
  | .melt r => exc r meltSx
  | .states r => exc r (fun sts => l [a "ok", l (sts.map (fun (st, w) => l [a st.str, Sexp.ofNat w]))])
  | .restored r => exc r (fun sigs => l [a "ok", l (sigs.map (fun sg => l [Sexp.ofNat sg.b, ofU64 sg.amount, Sexp.ofNat sg.ks]))])
  | .balance r =>
    let kv (xs : List (Nat × UInt64)) : Sexp := l ((sortKs xs).map (fun (k, v) => l [Sexp.ofNat k, ofU64 v]))
    exc r (fun b => l [a "ok", kv b.issued, kv b.redeemed, ofU64 b.total, Sexp.ofBool b.disabled])
  | .rotated r => exc r (fun idx => l [a "ok", Sexp.ofNat idx, match op with | .rotate fee => ofU64 fee | _ => a "?"])
  | .restarted r => exc r (fun idx => l [a "ok", Sexp.ofNat idx])

def plainOps : Op → Bool
  | .extInvoice .. | .settle .. | .armFault .. | .disarm => true
  | _ => false

def handle (s : Sess) (cmd : String) (args : List Sexp) : Option (Sess × Sexp) :=
  match cmd, args with
  | "mint.init", [fee, feePct, mpp, maxMint, maxBal, maxMelt] => do
    let cfg : Cfg := { mpp := ← mpp.asBool?, maxMint := ← u64? maxMint, maxBalance := ← u64? maxBal, maxMelt := ← u64? maxMelt }
    some (initSess (← u64? fee) (← feePct.asBool?) cfg, l [a "ok"])
  | _, _ => do
    let op ← op? cmd args
    match op with
    | .extInvoice id _ => if id != s.w.ln.invoices.length then none else pure ()
    | _ => pure ()
    let (s1, r) := applyOp s op
    if plainOps op then some (s1, resSx op r)
    else
      let calls := match op with
        | .checkState .. => s1.w.ln.calls.mergeSort (fun x y => x.hash ≤ y.hash)
        | _ => s1.w.ln.calls
      let trace := match op with
        | .restart .. => []
        | _ => s1.w.trace
      some (s1, l [resSx op r, l (trace.map a), l (calls.map callSx)])


/-! Interleaved / interrupted execution (`Model/MintConc.lean`). -/

def nextSx (c : CSess) (tid : Nat) : Sexp :=
  match c.threads.find? (·.1 == tid) with
  | none => l [a "no-thread"]
  | some (_, .ret r) =>
    match c.ops.find? (·.1 == tid) with
    | some (_, op) => l [a "done", resSx op r.1]
    | none => l [a "done"]
  | some (_, .eff e _) => l [a "next", a e.gateLabel]

def handleC (c : CSess) (cmd : String) (args : List Sexp) : Option (CSess × Sexp) :=
  match cmd, args with
  | "mint.spawn", [tid, .list (.atom ocmd :: oargs)] =>
    match tid.asNat?, op? ocmd oargs with
    | some tid, some op =>
      match spawn c tid op with
      | some c' => some (c', l [a "spawned", nextSx c' tid])
      | none => some (c, l [a "no-thread"])
    | _, _ => none
  | "mint.step", [tid, fault] =>
    match tid.asNat?, fault.asBool? with
    | some tid, some f =>
      match stepThread c tid f with
      | (c', some lb) => some (c', l [a "did", a lb, nextSx c' tid])
      | (c', none) => some (c', l [a "no-step"])
    | _, _ => none
  | "mint.crash", [] => some (crashAll c, l [a (if loadOk c.s.w.db then "ok" else "load-panic")])
  | "mint.reap", [] => some ({ c with threads := [], ops := [] }, l [a "ok"])
  | "mint.cscript", [xs] =>
    match listOf? ans? xs with
    | some sc =>
      some ({ c with s := { c.s with w := { c.s.w with ln := { c.s.w.ln with script := sc, calls := [] }, trace := [] } } }, l [a "ok"])
    | none => none
  | "mint.ccalls", [] =>
    some ({ c with s := { c.s with w := { c.s.w with ln := { c.s.w.ln with calls := [] }, trace := [] } } },
          l [l (c.s.w.trace.map a), l (c.s.w.ln.calls.map callSx)])
  | _, _ =>
    match handle c.s cmd args with
    | some (s', out) => some ({ c with s := s' }, out)
    | none => none

end Gonuts.Model.MintDriver
