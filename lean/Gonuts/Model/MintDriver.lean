import Gonuts.Model.Sexp
import Gonuts.Model.Mint
/-!
  Driver glue for the stateful `mint.*` commands: parse an op line, run the model program on the
  session's world, render `(outcome (storage-trace…) (lightning-calls…))` exactly as the harness
  canonicalises the real mint's behaviour.  Core-only.
-/
namespace Gonuts.Model.MintDriver
open Gonuts Gonuts.Model Gonuts.Model.Mint

structure Sess where
  w : World := {}
  /-- mint quotes whose invoice watcher goroutine is alive (cleared by a restart) -/
  watchers : List Nat := []
  deriving Inhabited

def u64? (s : Sexp) : Option UInt64 := do
  let n ← s.asNat?
  if n < 2 ^ 64 then some (UInt64.ofNat n) else none

def int? : Sexp → Option Int
  | .atom s => s.toInt?
  | _ => none

def ofU64 (x : UInt64) : Sexp := Sexp.ofNat x.toNat
def a (s : String) : Sexp := .atom s
def l (xs : List Sexp) : Sexp := .list xs
def ofInt (i : Int) : Sexp := .atom (toString i)

def ksRef? : Sexp → Option KsRef
  | .list [.atom "k", i] => do some (.known (← i.asNat?))
  | .list [.atom "u", t] => do some (.unknown (← t.asNat?))
  | _ => none

def cTerm? : Sexp → Option CTerm
  | .list [.atom "sig", k, amt, s] => do some (.sig (← k.asNat?) (← u64? amt) (← s.asNat?))
  | .list [.atom "other", t] => do some (.other (← t.asNat?))
  | .list [.atom "nonhex", t] => do some (.nonhex (← t.asNat?))
  | .list [.atom "nonpoint", t] => do some (.nonpoint (← t.asNat?))
  | _ => none

def verdict? : Sexp → Option (Option E)
  | .atom "none" => some none
  | .list [c, n] => do some (some ((← c.asNat?), (← n.asStr?)))
  | _ => none

def lock? : Sexp → Option Lock
  | .atom "plain" => some .plain
  | .list [.atom "locked", sa, v] => do some (.locked (← sa.asBool?) (← verdict? v))
  | .list [.atom "nut10", sa] => do some (.nut10other (← sa.asBool?))
  | _ => none

def proof? : Sexp → Option Proof
  | .list [amt, ks, sec, long, c, enc, w, dleq, lock] => do
    some { amount := ← u64? amt, ks := ← ksRef? ks, secret := ← sec.asNat?, long := ← long.asBool?, c := ← cTerm? c,
           cEnc := ← enc.asNat?, witness := ← w.asNat?, dleq := ← dleq.asNat?, lock := ← lock? lock }
  | _ => none

def bTerm? : Sexp → Option BTerm
  | .list [.atom "pt", i] => do some (.pt (← i.asNat?))
  | .list [.atom "nonhex", i] => do some (.nonhex (← i.asNat?))
  | .list [.atom "nonpoint", i] => do some (.nonpoint (← i.asNat?))
  | _ => none

def bmsg? : Sexp → Option BMsg
  | .list [amt, ks, b, w] => do
    some { amount := ← u64? amt, ks := ← ksRef? ks, b := ← bTerm? b, witness := ← w.asNat? }
  | _ => none

def listOf? {α} (f : Sexp → Option α) : Sexp → Option (List α)
  | .list xs => xs.mapM f
  | _ => none

def ans? : Sexp → Option LnAns
  | .atom "succ" => some .succ
  | .atom "pending" => some .pending
  | .atom "failed" => some .failed
  | .atom "failed-err" => some .failedErr
  | .atom "err" => some .err
  | .atom "notfound" => some .notfound
  | .atom "notfound-grpc" => some .notfoundGrpc
  | _ => none

def qsig? : Sexp → Option QSig
  | .atom "none" => some .none
  | .atom "garbage" => some .garbage
  | .list [.atom "s", k, q, bs] => do some (.signed (← k.asNat?) (← int? q) (← listOf? Sexp.asNat? bs))
  | _ => none

def pk? : Sexp → Option PkReq
  | .atom "none" => some .none
  | .atom "bad" => some .bad
  | .list [.atom "key", k] => do some (.key (← k.asNat?))
  | _ => none

def yref? : Sexp → Option YRef
  | .list [.atom "y", s] => do some (.known (← s.asNat?))
  | .list [.atom "unk", t] => do some (.unk (← t.asNat?))
  | _ => none

def errSx (e : E) : Sexp := l [a "err", Sexp.ofNat e.1, .str e.2]

def sigsSx (sigs : List BSig) : Sexp :=
  l [a "ok", l (sigs.map (fun s => l [ofU64 s.amount, Sexp.ofNat s.ks, Sexp.ofNat s.b]))]

def callSx (c : LnCall) : Sexp := l [a c.kind, ofInt c.hash, ofU64 c.msat, ofU64 c.maxFee, a c.ans]

def cx (s : Sess) : Cx := { mem := s.w.mem, cfg := s.w.cfg }

/-- Run a program as one operation: fresh trace and call log, the given Lightning script. -/
def runOp {α} (s : Sess) (p : PM α) (script : List LnAns) (render : α → Sexp) (sortCalls : Bool := false) :
    Sess × Sexp × Except E α :=
  let w0 := { s.w with trace := [], ln := { s.w.ln with script := script, calls := [] } }
  let (w1, r) := (p.run).run w0
  let out := match r with
    | .ok v => render v
    | .error e => errSx e
  let calls := if sortCalls then w1.ln.calls.mergeSort (fun x y => x.hash ≤ y.hash) else w1.ln.calls
  let res := l [out, l (w1.trace.map a), l (calls.map callSx)]
  ({ s with w := { w1 with ln := { w1.ln with script := [], failInvoiceStatus := 0, failCreateInvoice := 0 } } }, res, r)

def lqPre (q : MeltQ) : Nat := if q.preimage == 0 then 0 else if q.preimage == q.hash + 1 then 1 else 2

def sortKs (xs : List (Nat × UInt64)) : List (Nat × UInt64) := xs.mergeSort (fun x y => x.1 ≤ y.1)

def msatOf (s : Sess) (h : Nat) : UInt64 := invMsat s.w.ln h

def handle (s : Sess) (cmd : String) (args : List Sexp) : Option (Sess × Sexp) :=
  match cmd, args with
  | "mint.init", [fee, feePct, mpp, maxMint, maxBal, maxMelt] => do
    let k0 : KsRow := { idx := 0, active := true, fee := ← u64? fee }
    let w : World := { db := { keysets := [k0] }, mem := { keysets := [k0], active := 0 },
                       ln := { feePct := ← feePct.asBool? },
                       cfg := { mpp := ← mpp.asBool?, maxMint := ← u64? maxMint, maxBalance := ← u64? maxBal, maxMelt := ← u64? maxMelt } }
    some ({ w := w, watchers := [] }, l [a "ok"])
  | "mint.extinvoice", [id, msat] => do
    let id ← id.asNat?
    if id != s.w.ln.invoices.length then none
    let inv : Invoice := { id := id, msat := ← u64? msat, settled := false, external := true }
    some ({ s with w := { s.w with ln := { s.w.ln with invoices := s.w.ln.invoices ++ [inv] } } }, l [a "ok"])
  | "mint.settle", [h] => do
    let h ← h.asNat?
    let invs := s.w.ln.invoices.map (fun i => if i.id == h then { i with settled := true } else i)
    some ({ s with w := { s.w with ln := { s.w.ln with invoices := invs } } }, l [a "ok"])
  | "mint.mintquote", [amt, unit, pk, lnFail] => do
    let amt ← u64? amt
    let unitSat := (← unit.asStr?) == "sat"
    let pk ← pk? pk
    let lnFail ← lnFail.asBool?
    let qid := s.w.nextMintQ
    let s0 := { s with w := { s.w with ln := { s.w.ln with failCreateInvoice := if lnFail then 1 else 0 } } }
    let (s1, res, r) := runOp s0 (requestMintQuote (cx s) qid amt unitSat pk) []
      (fun q => l [a "ok", Sexp.ofNat q.id, ofU64 q.amount, Sexp.ofNat q.hash, a q.state.str])
    match r with
    | .ok _ => some ({ s1 with w := { s1.w with nextMintQ := qid + 1 }, watchers := qid :: s1.watchers }, res)
    | .error _ => some (s1, res)
  | "mint.notify", [q] => do
    let q ← q.asNat?
    if s.watchers.contains q then
      let (s1, res, _) := runOp s (watcherNotified q) [] (fun wrote => l [a "ok", a (if wrote then "wrote" else "no-write")])
      some ({ s1 with watchers := s1.watchers.filter (· != q) }, res)
    else
      some (s, l [l [a "ok", a "no-subscriber"], l [], l []])
  | "mint.quotestate", [q, lnFail] => do
    let q ← int? q
    let lnFail ← lnFail.asBool?
    let s0 := { s with w := { s.w with ln := { s.w.ln with failInvoiceStatus := if lnFail then 1 else 0 } } }
    let (s1, res, _) := runOp s0 (getMintQuoteState q) [] (fun mq => l [a "ok", a mq.state.str])
    some (s1, res)
  | "mint.mint", [q, outs, sig] => do
    let q ← int? q
    let outs ← listOf? bmsg? outs
    let sig ← qsig? sig
    let (s1, res, _) := runOp s (mintTokens (cx s) q outs sig) [] sigsSx
    some (s1, res)
  | "mint.swap", [ps, outs] => do
    let ps ← listOf? proof? ps
    let outs ← listOf? bmsg? outs
    let (s1, res, _) := runOp s (swap (cx s) ps outs none) [] sigsSx
    some (s1, res)
  | "mint.swap", [ps, outs, v] => do
    let ps ← listOf? proof? ps
    let outs ← listOf? bmsg? outs
    let v ← verdict? v
    let (s1, res, _) := runOp s (swap (cx s) ps outs v) [] sigsSx
    some (s1, res)
  | "mint.meltquote", [inv, unit, mpp] => do
    let inv ← (match inv with
      | .list [.atom "inv", h] => do some (InvReq.inv (← h.asNat?))
      | .list [.atom "noamount", h] => do some (InvReq.inv (← h.asNat?))
      | .atom "bad" => some InvReq.bad
      | _ => none)
    let unitSat := (← unit.asStr?) == "sat"
    let mpp ← (match mpp with
      | .atom "none" => some none
      | .list [.atom "mpp", m] => do some (some (← u64? m))
      | _ => none)
    let qid := s.w.nextMeltQ
    let (s1, res, r) := runOp s (requestMeltQuote (cx s) qid inv (msatOf s) unitSat mpp) []
      (fun q => l [a "ok", Sexp.ofNat q.id, ofU64 q.amount, ofU64 q.feeReserve, Sexp.ofBool q.isMpp])
    match r with
    | .ok _ => some ({ s1 with w := { s1.w with nextMeltQ := qid + 1 } }, res)
    | .error _ => some (s1, res)
  | "mint.melt", [q, ps, script] => do
    let q ← int? q
    let ps ← listOf? proof? ps
    let script ← listOf? ans? script
    let (s1, res, _) := runOp s (meltTokens (cx s) q ps) script
      (fun mq => l [a "ok", a mq.state.str, Sexp.ofNat (lqPre mq)])
    some (s1, res)
  | "mint.meltstate", [q, script] => do
    let q ← int? q
    let script ← listOf? ans? script
    let (s1, res, _) := runOp s (getMeltQuoteState q) script
      (fun mq => l [a "ok", a mq.state.str, Sexp.ofNat (lqPre mq)])
    some (s1, res)
  | "mint.checkstate", [ys, script] => do
    let ys ← listOf? yref? ys
    let script ← listOf? ans? script
    let (s1, res, _) := runOp s (proofsStateCheck ys) script
      (fun sts => l [a "ok", l (sts.map (fun (st, w) => l [a st.str, Sexp.ofNat w]))]) (sortCalls := true)
    some (s1, res)
  | "mint.restore", [bs] => do
    let bs ← listOf? Sexp.asNat? bs
    let (s1, res, _) := runOp s (restoreSigs bs) []
      (fun sigs => l [a "ok", l (sigs.map (fun sg => l [Sexp.ofNat sg.b, ofU64 sg.amount, Sexp.ofNat sg.ks]))])
    some (s1, res)
  | "mint.balance", [] => do
    let kv (xs : List (Nat × UInt64)) : Sexp := l ((sortKs xs).map (fun (k, v) => l [Sexp.ofNat k, ofU64 v]))
    let (s1, res, _) := runOp s (balanceOp (cx s)) []
      (fun b => l [a "ok", kv b.issued, kv b.redeemed, ofU64 b.total, Sexp.ofBool b.disabled])
    some (s1, res)
  | "mint.rotate", [fee] => do
    let fee ← u64? fee
    let w0 := { s.w with trace := [], ln := { s.w.ln with calls := [] } }
    let (w1, (mem', r)) := (rotateKeyset s.w.mem fee).run w0
    let out := match r with
      | .ok idx => l [a "ok", Sexp.ofNat idx, ofU64 fee]
      | .error e => errSx e
    some ({ s with w := { w1 with mem := mem' } }, l [out, l (w1.trace.map a), l []])
  | "mint.restart", [rotate, fee] => do
    let rotate ← rotate.asBool?
    let fee ← u64? fee
    -- clean shutdown + LoadMint on the same directory: memory is rebuilt from storage; load-time
    -- storage calls bypass the proxy (no trace)
    let mem0 := memOfDb s.w.db
    let w0 := { s.w with mem := mem0, trace := [], ln := { s.w.ln with calls := [] } }
    if rotate then
      let (w1, (mem', r)) := (rotateKeyset mem0 fee).run w0
      match r with
      | .ok _ => some ({ w := { w1 with mem := mem', trace := [] }, watchers := [] }, l [l [a "ok", Sexp.ofNat mem'.active], l [], l []])
      | .error e => some ({ w := { w1 with mem := mem', trace := [] }, watchers := [] }, l [errSx e, l [], l []])
    else
      some ({ w := w0, watchers := [] }, l [l [a "ok", Sexp.ofNat mem0.active], l [], l []])
  | "mint.fault", [k] => do
    -- arm a storage fault: the k-th storage call of the next operation fails
    let k ← k.asNat?
    some ({ s with w := { s.w with faultAt := some k, nDb := 0 } }, l [a "ok"])
  | "mint.nofault", [] => some ({ s with w := { s.w with faultAt := none } }, l [a "ok"])
  | _, _ => none

end Gonuts.Model.MintDriver
