import Gonuts.Model.Sexp
import Gonuts.Model.Amount
import Gonuts.Lemmas.Amount
import Gonuts.Gen.Facts
import Gonuts.Tie.Consts
import Gonuts.Props.C18
