import Gonuts.Model.Sexp
import Gonuts.Model.Amount
import Gonuts.Model.SpendDriver
import Gonuts.Model.TokenDriver
import Gonuts.Model.SelectDriver
import Gonuts.Model.SpecDriver
import Gonuts.Model.WireDriver
import Gonuts.Model.WalletDriver
import Gonuts.Model.MintDriver
import Gonuts.Model.WalletBooksDriver
/-!
  Line-protocol driver.  Reads one S-expression per line `(cmd arg…)`, answers one line.
  Stateless commands are dispatched by name; stateful sessions (mint model) live in `St`.
  Core-only imports: this file is compiled to a native executable.
-/
open Gonuts Gonuts.Model

structure St where
  mint : Model.Mint.CSess := {}
  wire : Model.WireDriver.WSt := {}
  books : Model.WalletBooksDriver.BSt := {}

def u64? (s : Sexp) : Option UInt64 := do
  let n ← s.asNat?
  if n < 2 ^ 64 then some (UInt64.ofNat n) else none

def u64s? (s : Sexp) : Option (List UInt64) := do
  let xs ← s.asList?
  xs.mapM u64?

def ofU64 (x : UInt64) : Sexp := Sexp.ofNat x.toNat
def ofU64s (xs : List UInt64) : Sexp := Sexp.list (xs.map ofU64)

def arith (cmd : String) (args : List Sexp) : Option Sexp :=
  match cmd, args with
  | "arith.add", [a, b] => do
    let (s, o) := overflowAdd (← u64? a) (← u64? b)
    some (Sexp.list [ofU64 s, Sexp.ofBool o])
  | "arith.sub", [a, b] => do
    let (s, o) := underflowSub (← u64? a) (← u64? b)
    some (Sexp.list [ofU64 s, Sexp.ofBool o])
  | "arith.checked", [xs] => do
    match amountChecked (← u64s? xs) with
    | some s => some (Sexp.list [Sexp.atom "ok", ofU64 s])
    | none => some (Sexp.list [Sexp.atom "overflow"])
  | "arith.wrap", [xs] => do some (ofU64 (amountWrap (← u64s? xs)))
  | "arith.split", [a] => do some (ofU64s (amountSplit (← u64? a)))
  | "arith.fees", [xs] => do some (ofU64 (feesOfPpks (← u64s? xs)))
  | _, _ => none

def step (st : St) (line : String) : St × String :=
  match Sexp.parse line with
  | some (Sexp.list (Sexp.atom cmd :: args)) =>
    if cmd.startsWith "arith." then
      match arith cmd args with
      | some out => (st, out.render)
      | none => (st, "(bad-op)")
    else if cmd.startsWith "mint." then
      match Model.MintDriver.handleC st.mint cmd args with
      | some (m', out) => ({ st with mint := m' }, out.render)
      | none => (st, "(bad-op)")
    else if cmd.startsWith "wire." then
      match Model.WireDriver.handleSt st.wire cmd args with
      | some (w', out) => ({ st with wire := w' }, out.render)
      | none => (st, "(bad-op)")
    else if cmd.startsWith "books." then
      match Model.WalletBooksDriver.handleSt st.books cmd args with
      | some (b', out) => ({ st with books := b' }, out.render)
      | none => (st, "(bad-op)")
    else
      let r :=
        if cmd.startsWith "spend." then Model.SpendDriver.handle cmd args
        else if cmd.startsWith "token." then Model.TokenDriver.handle cmd args
        else if cmd.startsWith "select." then Model.SelectDriver.handle cmd args
        else if cmd.startsWith "spec." then Model.SpecDriver.handle cmd args
        else if cmd.startsWith "wallet." then Model.WalletDriver.handle cmd args
        else none
      match r with
      | some out => (st, out.render)
      | none => (st, "(bad-op)")
  | _ => (st, "(bad-line)")

partial def loop (h : IO.FS.Stream) (out : IO.FS.Stream) (st : St) : IO Unit := do
  let line ← h.getLine
  if line.isEmpty then return ()
  let (st', o) := step st line
  out.putStrLn o
  out.flush
  loop h out st'

def main : IO Unit := do
  loop (← IO.getStdin) (← IO.getStdout) {}
