import Gonuts.Gen.Code
import Gonuts.Model.Amount
import Gonuts.Model.Select
open Gonuts.Gen.Code Gonuts.Model
#eval AmountSplit 64 13
#eval AmountSplit 3 13
#eval OverflowAddUint64 18446744073709551615 1
#eval CheckDuplicateBlindedMessages [{Amount:=1,B_:="a",Id:="",Witness:=""},{Amount:=2,B_:="a",Id:="",Witness:=""}]
#eval feesForCount 3 {Id:="",MintURL:="",Unit:="",Active:=true,Counter:=0,InputFeePpk:=100}

theorem t1 (a b : UInt64) : OverflowAddUint64 a b = overflowAdd a b := by
  unfold OverflowAddUint64 overflowAdd
  simp only [Bool.decide_or, Bool.or_eq_true, decide_eq_true_eq]
  rfl
