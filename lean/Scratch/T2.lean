import Gonuts.Gen.Code
import Gonuts.Lemmas.Amount
import Gonuts.Model.Select
namespace Gonuts.Tie.Code
open Gonuts.Gen.Code Gonuts.Model Gonuts.Model.Go

/-! ## loops that neither return nor break are folds -/
theorem rangeLoopFrom_fold {α σ ρ : Type} (body : Nat → α → σ → Ctl ρ × σ) (f : σ → α → σ)
    (h : ∀ i x s, body i x s = (.next, f s x)) (i : Nat) (xs : List α) (s : σ) :
    rangeLoopFrom body i xs s = (.next, xs.foldl f s) := by
  induction xs generalizing i s with
  | nil => rfl
  | cons x xs ih => simp only [rangeLoopFrom, h, List.foldl_cons, ih]

theorem rangeLoop_fold {α σ ρ : Type} (body : Nat → α → σ → Ctl ρ × σ) (f : σ → α → σ)
    (h : ∀ i x s, body i x s = (.next, f s x)) (xs : List α) (s : σ) :
    rangeLoop xs s body = (.next, xs.foldl f s) := rangeLoopFrom_fold body f h 0 xs s

theorem countLoop_fold {σ ρ : Type} (body : Int → σ → Ctl ρ × σ) (f : σ → σ)
    (h : ∀ i s, body i s = (.next, f s)) (lo hi : Int) (s : σ) :
    countLoop lo hi s body = (.next, (List.replicate (hi - lo).toNat ()).foldl (fun s _ => f s) s) :=
  rangeLoopFrom_fold _ (fun s _ => f s) (fun _ _ _ => h _ _) 0 _ s

theorem amountWrap_map {α : Type} (g : α → UInt64) (xs : List α) :
    amountWrap (xs.map g) = xs.foldl (fun s x => s + g x) 0 := by
  simp only [amountWrap, List.foldl_map]

/-! ## cashu/cashu.go -/
theorem OverflowAddUint64_eq (a b : UInt64) : OverflowAddUint64 a b = overflowAdd a b := by
  unfold OverflowAddUint64 overflowAdd
  simp only [Bool.or_eq_true, decide_eq_true_eq]
  rfl

theorem UnderflowSubUint64_eq (a b : UInt64) : UnderflowSubUint64 a b = underflowSub a b := by
  unfold UnderflowSubUint64 underflowSub
  simp only [decide_eq_true_eq]

theorem BlindedMessages_Amount_eq (bm : List BlindedMessage) :
    BlindedMessages_Amount bm = amountWrap (bm.map (·.Amount)) := by
  unfold BlindedMessages_Amount
  simp only [rangeLoop_fold _ (fun (s : UInt64) (x : BlindedMessage) => s + x.Amount) (fun _ _ _ => rfl), amountWrap_map]

theorem BlindedSignatures_Amount_eq (bs : List BlindedSignature) :
    BlindedSignatures_Amount bs = amountWrap (bs.map (·.Amount)) := by
  unfold BlindedSignatures_Amount
  simp only [rangeLoop_fold _ (fun (s : UInt64) (x : BlindedSignature) => s + x.Amount) (fun _ _ _ => rfl), amountWrap_map]

theorem Proofs_Amount_eq (ps : List Proof) : Proofs_Amount ps = amountWrap (ps.map (·.Amount)) := by
  unfold Proofs_Amount
  simp only [rangeLoop_fold _ (fun (s : UInt64) (x : Proof) => s + x.Amount) (fun _ _ _ => rfl), amountWrap_map]

theorem Max_spec (x y : UInt64) :
    x ≤ Gen.Code.Max x y ∧ y ≤ Gen.Code.Max x y ∧ (Gen.Code.Max x y = x ∨ Gen.Code.Max x y = y) := by
  unfold Gen.Code.Max
  simp only [decide_eq_true_eq, UInt64.lt_iff_toNat_lt, UInt64.le_iff_toNat_le, gt_iff_lt]
  split
  · exact ⟨Nat.le_refl _, by omega, .inl rfl⟩
  · exact ⟨by omega, Nat.le_refl _, .inr rfl⟩

theorem Count_eq (amounts : List UInt64) (amount : UInt64) :
    Count amounts amount = UInt64.ofNat (countEq amounts amount) := by
  unfold Count
  dsimp only
  rw [rangeLoop_fold _ (fun (s : UInt64) (x : UInt64) => if x == amount then s + 1 else s)]
  · suffices h : ∀ (s : UInt64), amounts.foldl (fun s x => if x == amount then s + 1 else s) s =
        s + UInt64.ofNat (countEq amounts amount) by simpa using h 0
    induction amounts with
    | nil => intro s; simp [countEq]
    | cons x xs ih =>
      intro s
      simp only [List.foldl_cons, ih, countEq, List.filter_cons]
      by_cases h : (x == amount) = true
      · simp only [h, if_true, List.length_cons, UInt64.ofNat_add]
        rw [UInt64.add_assoc, UInt64.add_comm 1]; rfl
      · simp only [h]; rfl
  · intro _ x s
    by_cases h : (x == amount) = true <;> simp [h]

/-! ## fees: wallet/wallet.go, mint/mint.go -/
theorem foldl_replicate_unit (ppk : UInt64) (n : Nat) (s : UInt64) :
    (List.replicate n ()).foldl (fun s _ => s + ppk) s = (List.replicate n ppk).foldl (· + ·) s := by
  induction n generalizing s with
  | zero => rfl
  | succ n ih => simp only [List.replicate_succ, List.foldl_cons, ih]

/-- `feesForCount(count, keyset)` is the model's `feesOfPpks` of `count` copies of the keyset's fee -/
theorem feesForCount_eq (count : Int) (ks : WalletKeyset) :
    Gen.Code.feesForCount count ks = Model.Select.feesForCount count.toNat ks.InputFeePpk := by
  unfold Gen.Code.feesForCount Model.Select.feesForCount feesOfPpks amountWrap
  simp only [countLoop_fold _ (fun (s : UInt64) => s + ks.InputFeePpk) (fun _ _ => rfl), Int.sub_zero, foldl_replicate_unit]

/-- the fee `feesForProofs` adds for a proof of keyset `id`: active keyset first, then the inactive map, else nothing -/
def ppkOf (mint : walletMint) (id : String) : UInt64 :=
  if mint.activeKeyset.Id == id then mint.activeKeyset.InputFeePpk
  else match mint.inactiveKeysets.lookup id with
    | some ks => ks.InputFeePpk
    | none => 0

theorem feesForProofs_eq (proofs : List Proof) (mint : walletMint) :
    Gen.Code.feesForProofs proofs mint = feesOfPpks (proofs.map (fun p => ppkOf mint p.Id)) := by
  unfold Gen.Code.feesForProofs feesOfPpks
  dsimp only
  rw [rangeLoop_fold _ (fun (s : UInt64) (p : Proof) => s + ppkOf mint p.Id), amountWrap_map]
  intro _ p s
  unfold ppkOf mapGet2
  by_cases h : (mint.activeKeyset.Id == p.Id) = true
  · simp only [h, if_true]
  · simp only [h]
    cases hl : mint.inactiveKeysets.lookup p.Id <;> simp

theorem Mint_TransactionFees_eq (m : Mint) (inputs : List Proof) :
    Mint_TransactionFees m inputs = feesOfPpks (inputs.map (fun p => (mapGet m.keysets p.Id).InputFeePpk)) := by
  unfold Mint_TransactionFees feesOfPpks
  simp only [rangeLoop_fold _ (fun (s : UInt64) (p : Proof) => s + (mapGet m.keysets p.Id).InputFeePpk) (fun _ _ _ => rfl),
    amountWrap_map]

/-! ## loops with an early return -/

/-- reasoning rule for a loop whose body may return: a relation between the remaining elements, the carried
    state and the loop's result that holds for the empty list and is preserved backwards by every iteration -/
theorem rangeLoopFrom_spec {α σ ρ : Type} (body : Nat → α → σ → Ctl ρ × σ) (R : List α → σ → Ctl ρ × σ → Prop)
    (hnil : ∀ s, R [] s (.next, s))
    (hcons : ∀ i x xs s, match body i x s with
      | (.next, s') => ∀ r, R xs s' r → R (x :: xs) s r
      | (.brk, s') => R (x :: xs) s (.next, s')
      | (.ret v, s') => R (x :: xs) s (.ret v, s')) :
    ∀ i xs s, R xs s (rangeLoopFrom body i xs s) := by
  intro i xs
  induction xs generalizing i with
  | nil => intro s; exact hnil s
  | cons x xs ih =>
    intro s
    have h := hcons i x xs s
    simp only [rangeLoopFrom]
    rcases hb : body i x s with ⟨c, s'⟩
    rw [hb] at h
    cases c with
    | next => exact h _ (ih (i + 1) s')
    | brk => exact h
    | ret v => exact h

/-- `BlindedMessages.AmountChecked` is the model's `amountChecked` over the amounts: the checked sum, or
    `(0, ErrAmountOverflows)` as soon as a partial sum overflows. -/
theorem BlindedMessages_AmountChecked_eq (bm : List BlindedMessage) :
    BlindedMessages_AmountChecked bm =
      match amountChecked (bm.map (·.Amount)) with
      | some r => (r, none)
      | none => (0, some "ErrAmountOverflows") := by
  unfold BlindedMessages_AmountChecked amountChecked rangeLoop
  dsimp only
  generalize hL : rangeLoopFrom _ 0 bm ((0 : UInt64), false) = L
  have h : (∀ r, amountChecked.go 0 (bm.map (·.Amount)) = some r → ∃ ov', L = (.next, (r, ov'))) ∧
      (amountChecked.go 0 (bm.map (·.Amount)) = none → ∃ st', L = (.ret (0, some "ErrAmountOverflows"), st')) := by
    rw [← hL]
    refine rangeLoopFrom_spec _
      (fun (xs : List BlindedMessage) (st : UInt64 × Bool) (res : Ctl (UInt64 × Option String) × UInt64 × Bool) =>
        (∀ r, amountChecked.go st.1 (xs.map (·.Amount)) = some r → ∃ ov', res = (.next, (r, ov'))) ∧
        (amountChecked.go st.1 (xs.map (·.Amount)) = none → ∃ st', res = (.ret (0, some "ErrAmountOverflows"), st')))
      ?_ ?_ 0 bm ((0 : UInt64), false)
    · intro s; rcases s with ⟨a, o⟩; simp [amountChecked.go]
    · intro i x xs s
      rcases s with ⟨acc, ov⟩
      simp only [OverflowAddUint64_eq, List.map_cons, amountChecked.go]
      rcases hoa : overflowAdd acc x.Amount with ⟨s, o⟩
      cases o <;> simp
  cases hg : amountChecked.go 0 (bm.map (·.Amount)) with
  | some r => obtain ⟨ov', e⟩ := h.1 r hg; simp [e]
  | none => obtain ⟨st', e⟩ := h.2 hg; simp [e]

theorem dupLoop_spec (bms : List BlindedMessage) : ∀ (i : Nat) (m : List (String × Bool)) (seen : List String),
    (∀ k, mapGet m k = true ↔ k ∈ seen) → seen.Nodup →
    ((¬ (seen ++ bms.map (·.B_)).Nodup → ∃ m', rangeLoopFrom (ρ := Bool) (fun _ (bm : BlindedMessage) (st : List (String × Bool)) =>
        if mapGet st bm.B_ = true then (Ctl.ret true, st) else (Ctl.next, mapSet st bm.B_ true)) i bms m = (Ctl.ret true, m')) ∧
     ((seen ++ bms.map (·.B_)).Nodup → ∃ m', rangeLoopFrom (ρ := Bool) (fun _ (bm : BlindedMessage) (st : List (String × Bool)) =>
        if mapGet st bm.B_ = true then (Ctl.ret true, st) else (Ctl.next, mapSet st bm.B_ true)) i bms m = (Ctl.next, m'))) := by
  induction bms with
  | nil => intro i m seen _ hn; simp [rangeLoopFrom, hn]
  | cons x xs ih =>
    intro i m seen hm hn
    simp only [rangeLoopFrom, List.map_cons]
    by_cases hx : mapGet m x.B_ = true
    · simp only [hx, if_true]
      refine ⟨fun _ => ⟨m, rfl⟩, fun hnd => ?_⟩
      have := (hm x.B_).mp hx
      rw [List.nodup_append] at hnd
      exact absurd rfl (hnd.2.2 _ this _ List.mem_cons_self)
    · simp only [hx]
      have hnot : x.B_ ∉ seen := fun h => hx ((hm x.B_).mpr h)
      have := ih (i + 1) (mapSet m x.B_ true) (seen ++ [x.B_]) (by
        intro k
        simp only [mapSet, mapGet, List.lookup_cons, List.mem_append, List.mem_singleton]
        by_cases hk : k = x.B_
        · simp [hk]
        · have hk' : (k == x.B_) = false := by simpa using hk
          simp only [hk', hk, or_false]
          exact hm k) (by
        rw [List.nodup_append]
        exact ⟨hn, by simp, by intro a ha b hb; simp at hb; subst hb; intro h; exact hnot (h ▸ ha)⟩)
      simpa [List.append_assoc] using this

/-- `CheckDuplicateBlindedMessages` answers true exactly when two blinded messages of the list have the same `B_` -/
theorem CheckDuplicateBlindedMessages_iff (bms : List BlindedMessage) :
    CheckDuplicateBlindedMessages bms = true ↔ ¬ (bms.map (·.B_)).Nodup := by
  unfold CheckDuplicateBlindedMessages rangeLoop
  dsimp only
  have h := dupLoop_spec bms 0 [] [] (by intro k; simp [mapGet]) List.nodup_nil
  simp only [List.nil_append] at h
  by_cases hn : (bms.map (·.B_)).Nodup
  · obtain ⟨m', hm⟩ := h.2 hn
    simp [hm, hn]
  · obtain ⟨m', hm⟩ := h.1 hn
    simp [hm, hn]

/-! ## a general loop (fuel) -/

theorem whileLoop_spec {σ ρ : Type} (cond : σ → Bool) (body : σ → Ctl ρ × σ) (R : Nat → σ → Option (Ctl ρ × σ) → Prop)
    (hstop : ∀ fuel s, cond s = false → R fuel s (some (.next, s)))
    (hout : ∀ s, cond s = true → R 0 s none)
    (hstep : ∀ fuel s, cond s = true → match body s with
      | (.next, s') => ∀ r, R fuel s' r → R (fuel + 1) s r
      | (.brk, s') => R (fuel + 1) s (some (.next, s'))
      | (.ret v, s') => R (fuel + 1) s (some (.ret v, s'))) :
    ∀ fuel s, R fuel s (whileLoop cond body fuel s) := by
  intro fuel
  induction fuel with
  | zero =>
    intro s
    cases hc : cond s
    · simpa [whileLoop, hc] using hstop 0 s hc
    · simpa [whileLoop, hc] using hout s hc
  | succ n ih =>
    intro s
    cases hc : cond s
    · simpa [whileLoop, hc] using hstop (n + 1) s hc
    · have h := hstep n s hc
      simp only [whileLoop, hc, if_true]
      rcases hb : body s with ⟨c, s'⟩
      rw [hb] at h
      cases c with
      | next => exact h _ (ih s')
      | brk => exact h
      | ret v => exact h

theorem and_one_eq_one_iff (a : UInt64) : ((a &&& 1) == 1) = decide (a.toNat % 2 = 1) := by
  have h : (a &&& 1).toNat = a.toNat % 2 := by rw [UInt64.toNat_and]; exact Nat.and_one_is_mod _
  by_cases h1 : a.toNat % 2 = 1
  · have : a &&& 1 = 1 := UInt64.toNat_inj.mp (by rw [h, h1]; rfl)
    simp [this, h1]
  · have : ¬ (a &&& 1 = 1) := fun e => h1 (by rw [← h, e]; rfl)
    simp [this, h1]

theorem shr_one_toNat (a : UInt64) : (Go.shr a (Int.toNat 1)).toNat = a.toNat / 2 := by
  show (Go.shr a 1).toNat = a.toNat / 2
  unfold Go.shr
  simp only [show (1 : Nat) < 64 by omega, if_true, UInt64.toNat_shiftRight]
  show a.toNat >>> (1 % 64) = a.toNat / 2
  rw [Nat.shiftRight_eq_div_pow]

theorem shl_one (n : Nat) : Go.shl 1 n = UInt64.ofNat (2 ^ n) := by
  unfold Go.shl
  apply UInt64.toNat_inj.mp
  by_cases h : n < 64
  · simp only [h, if_true, UInt64.toNat_shiftLeft, UInt64.toNat_ofNat']
    have e : n % 2 ^ 64 % 64 = n := by omega
    rw [e, Nat.shiftLeft_eq, show (1 : UInt64).toNat = 1 from rfl, Nat.one_mul]
  · simp only [h, if_false, UInt64.toNat_ofNat']
    have : 2 ^ n = 2 ^ 64 * 2 ^ (n - 64) := by rw [← Nat.pow_add]; congr 1; omega
    rw [this, Nat.mul_mod_right]; rfl

/-- `AmountSplit` with 64 rounds of fuel always terminates, and returns the model's `amountSplit` -/
theorem AmountSplit_eq (a : UInt64) : AmountSplit 64 a = some (amountSplit a) := by
  unfold AmountSplit amountSplit
  dsimp only
  generalize hL : whileLoop _ _ 64 (([] : List UInt64), a, (0 : Int)) = L
  have h : a.toNat < 2 ^ 64 → (0 : Int) ≤ 0 → ∃ a' p', L = some (.next,
      (([] : List UInt64) ++ (amountSplitAux 64 (0 : Int).toNat a.toNat).map UInt64.ofNat, a', p')) := by
    rw [← hL]
    refine whileLoop_spec _ _
      (fun (fuel : Nat) (st : List UInt64 × UInt64 × Int) (res : Option (Ctl (List UInt64) × List UInt64 × UInt64 × Int)) =>
        st.2.1.toNat < 2 ^ fuel → 0 ≤ st.2.2 → ∃ a' p', res = some (.next,
          (st.1 ++ (amountSplitAux fuel st.2.2.toNat st.2.1.toNat).map UInt64.ofNat, a', p')))
      ?_ ?_ ?_ 64 (([] : List UInt64), a, (0 : Int))
    · rintro fuel ⟨rv, amt, pos⟩ hc _ _
      have h0 : amt.toNat = 0 := by
        simp only [decide_eq_false_iff_not, UInt64.lt_iff_toNat_lt, gt_iff_lt] at hc
        simpa using hc
      refine ⟨amt, pos, ?_⟩
      cases fuel <;> simp [amountSplitAux, h0]
    · rintro ⟨rv, amt, pos⟩ hc hlt _
      simp only [decide_eq_true_eq, UInt64.lt_iff_toNat_lt, gt_iff_lt] at hc
      simp at hlt hc
      omega
    · rintro fuel ⟨rv, amt, pos⟩ hc
      simp only [decide_eq_true_eq, UInt64.lt_iff_toNat_lt, gt_iff_lt] at hc
      have hpos : 0 < amt.toNat := by simpa using hc
      simp only [and_one_eq_one_iff]
      by_cases hb : amt.toNat % 2 = 1
      · simp only [hb, decide_true, if_true]
        intro r hr hlt hp
        obtain ⟨a', p', e⟩ := hr (by rw [shr_one_toNat]; omega) (by omega)
        refine ⟨a', p', ?_⟩
        rw [e]
        simp only [shr_one_toNat, shl_one]
        have e2 : (pos + 1).toNat = pos.toNat + 1 := by omega
        rw [e2]
        conv => rhs; rw [amountSplitAux]
        simp [Nat.ne_of_gt hpos, hb]
      · simp only [hb, decide_false, Bool.false_eq_true, if_false]
        intro r hr hlt hp
        obtain ⟨a', p', e⟩ := hr (by rw [shr_one_toNat]; omega) (by omega)
        refine ⟨a', p', ?_⟩
        rw [e]
        simp only [shr_one_toNat]
        have e2 : (pos + 1).toNat = pos.toNat + 1 := by omega
        rw [e2]
        conv => rhs; rw [amountSplitAux]
        simp [Nat.ne_of_gt hpos, hb]
  obtain ⟨a', p', e⟩ := h a.toNat_lt (Int.le_refl 0)
  simp [e]

end Gonuts.Tie.Code
