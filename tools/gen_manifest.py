#!/usr/bin/env python3
"""Generate /verif/MANIFEST.json from tools/proptable.py (single source of truth)."""
import json, os, sys
VERIF = os.path.dirname(os.path.dirname(os.path.abspath(__file__)))
sys.path.insert(0, os.path.join(VERIF, "tools"))
from proptable import PROPS

all_ids = [json.loads(l)["id"] for l in open(os.path.join(VERIF, "properties.jsonl"))]
checks, na = [], []
for pid in all_ids:
    P = PROPS.get(pid)
    if not P or not P.get("claimed"):
        na.append({"property_id": pid, "reason": (P or {}).get("na_reason", "check not built yet in this round; see DESIGN.md §5 for the planned theorems and streams")})
        continue
    checks.append({
        "property_id": pid,
        "quick_cmd": "./check %s quick" % pid,
        "thorough_cmd": "./check %s thorough" % pid,
        "evidence_file": "/verif/evidence/%s.json" % pid,
        "replay_cmd_template": "./check %s quick --replay {path}" % pid,
        "engine": "lean4-proof+correspondence",
        "level_claimed": {"category": P.get("level", "proof"), "text": P["text"], "design_ref": P.get("design_ref", "DESIGN.md §5")},
        "level_note": P["note"],
        "technique": P["technique"],
    })
man = {
    "version": 1,
    "setup_cmd": "python3 tools/check.py --setup",
    "hooks": {
        "guard": "verif",
        "enable": "go build -tags verif (the harness is an external module with `replace github.com/elnosh/gonuts => /repo`)",
        "baseline_off_cmd": "cd /repo && GOFLAGS=-mod=mod GOPROXY=off go test -vet=off -count=1 -timeout 25m ./...",
        "source_commits": [l.strip() for l in open(os.path.join(VERIF, "tools", "hook_commits.txt"))] if os.path.exists(os.path.join(VERIF, "tools", "hook_commits.txt")) else [],
        "add_only": True,
    },
    "engines": [
        {"name": "lean4-proof+correspondence", "path": "/verif/lean, /verif/harness, /verif/extract, /verif/tools/check.py",
         "serves_properties": [c["property_id"] for c in checks],
         "kind_free_text": "Lean 4 theorems over hand-written executable models; models tied to /repo by a regenerated fact file (go/ast extractor -> Gonuts/Gen/Facts.lean, equalities proved in Gonuts/Tie), by a Go->Lean translator for the pure arithmetic / decision functions incl. the NUT-11 / NUT-14 verifiers (extract/translate.go -> Gonuts/Gen/Code.lean, regenerated on every run; Gonuts/Tie/Code.lean proves the regenerated definitions equal to the model for all inputs) and by a differential correspondence harness (real Go code in-process vs compiled Lean driver) with model-free property monitors"}
    ],
    "checks": checks,
    "not_applicable": na,
    "notes": "All checks share one build phase (extract facts, lake build, go build -tags verif) serialised by a file lock under $VERIF_SCRATCH (default /var/tmp/gonuts-verif). Known findings: /verif/known_findings.json.",
}
json.dump(man, open(os.path.join(VERIF, "MANIFEST.json"), "w"), indent=1)
print("claimed:", [c["property_id"] for c in checks])
