#!/usr/bin/env python3
"""
./check <Cxx> <quick|thorough> [--replay FILE]

One run =
  1. regenerate Gonuts/Gen/Facts.lean from /repo (extractor), `lake build` the models,
     theorems, ties and the driver; audit axioms of every theorem the property rests on;
     grep gate (no sorry/admit/axiom/native_decide/...).
  2. rebuild the Go correspondence harness against /repo's working tree (-tags verif) and
     run the property's streams: real implementation vs Lean driver, plus model-free monitors.
  3. verdict: any broken obligation / correspondence / monitor failure not listed in
     known_findings.json => `VIOLATION property=<id> replay=<path>` and exit 1.
  4. write evidence/<id>.json.
"""
import fcntl
import hashlib
import json
import os
import re
import shutil
import subprocess
import sys
import time
from concurrent.futures import ThreadPoolExecutor

VERIF = os.path.dirname(os.path.dirname(os.path.abspath(__file__)))
REPO = os.environ.get("VERIF_REPO", "/repo")
LEAN = os.path.join(VERIF, "lean")
HARNESS = os.path.join(VERIF, "harness")
EXTRACT = os.path.join(VERIF, "extract")
SCRATCH = os.environ.get("VERIF_SCRATCH", "/var/tmp/gonuts-verif")
OUT = os.path.join(VERIF, "out")

sys.path.insert(0, os.path.join(VERIF, "tools"))
from proptable import PROPS, ALLOWED_AXIOMS  # noqa: E402

ENV = dict(os.environ)
ENV["GOFLAGS"] = "-mod=mod"
ENV["GOPROXY"] = "off"
ENV.pop("GOTOOLCHAIN", None) if ENV.get("GOTOOLCHAIN") == "local" else None
ENV.pop("GOSUMDB", None) if ENV.get("GOSUMDB") == "off" else None


def log(*a):
    print("[check]", *a, file=sys.stderr, flush=True)


def run(cmd, cwd=None, timeout=None, env=None):
    p = subprocess.run(cmd, cwd=cwd, env=env or ENV, stdout=subprocess.PIPE, stderr=subprocess.STDOUT,
                       text=True, timeout=timeout)
    return p.returncode, p.stdout


class Lock:
    def __init__(self, name):
        os.makedirs(SCRATCH, exist_ok=True)
        self.path = os.path.join(SCRATCH, name + ".lock")

    def __enter__(self):
        self.f = open(self.path, "w")
        fcntl.flock(self.f, fcntl.LOCK_EX)
        return self

    def __exit__(self, *a):
        fcntl.flock(self.f, fcntl.LOCK_UN)
        self.f.close()


# ---------------------------------------------------------------- build phase

def regen_harness_gomod():
    src = open(os.path.join(REPO, "go.mod")).read()
    out = ["module gonutsverif/harness\n"]
    m = re.search(r"^go .*$", src, re.M)
    out.append(m.group(0) + "\n")
    m = re.search(r"^toolchain .*$", src, re.M)
    if m:
        out.append(m.group(0) + "\n")
    for blk in re.findall(r"^require \((?:.|\n)*?^\)", src, re.M):
        out.append(blk + "\n")
    for l in re.findall(r"^require [^(\n]+$", src, re.M):
        out.append(l + "\n")
    for l in re.findall(r"^replace [^(\n]+$", src, re.M):
        out.append(l + "\n")
    for blk in re.findall(r"^replace \((?:.|\n)*?^\)", src, re.M):
        out.append(blk + "\n")
    out.append("require github.com/elnosh/gonuts v0.0.0\n")
    out.append("replace github.com/elnosh/gonuts => %s\n" % REPO)
    new = "\n".join(out)
    p = os.path.join(HARNESS, "go.mod")
    if not os.path.exists(p) or open(p).read() != new:
        open(p, "w").write(new)
    shutil.copyfile(os.path.join(REPO, "go.sum"), os.path.join(HARNESS, "go.sum"))


def build_all():
    """Returns dict(lean_ok, lean_log, failed_modules, harness_ok, harness_log, extract_ok)."""
    res = {}
    os.makedirs(SCRATCH, exist_ok=True)
    bindir = os.path.join(SCRATCH, "bin")
    os.makedirs(bindir, exist_ok=True)
    with Lock("build"):
        # 1. extractor -> Facts.lean
        facts = os.path.join(LEAN, "Gonuts", "Gen", "Facts.lean")
        rc, o = run(["go", "build", "-o", os.path.join(bindir, "extract"), "."], cwd=EXTRACT)
        res["extract_ok"] = rc == 0
        res["extract_log"] = o
        if rc == 0:
            # Facts.lean (data) and Code.lean (translated pure functions, extract/translate.go) are both regenerated
            code = os.path.join(LEAN, "Gonuts", "Gen", "Code.lean")
            tmp, tmpc = facts + ".new", code + ".new"
            for t in (tmp, tmpc):
                if os.path.exists(t):
                    os.remove(t)
            os.makedirs(os.path.dirname(tmp), exist_ok=True)  # a fresh checkout has no Gen/ directory (generated files are untracked)
            rc, o = run([os.path.join(bindir, "extract"), REPO, tmp, tmpc])
            if rc != 0 or not os.path.exists(tmp) or not os.path.exists(tmpc):
                res["extract_ok"] = False
                res["extract_log"] += o
            else:
                # delete-then-regenerate, but keep the old file when the content is identical (no rebuild)
                for t, dst in ((tmp, facts), (tmpc, code)):
                    if os.path.exists(dst) and open(dst).read() == open(t).read():
                        os.remove(t)
                    else:
                        if os.path.exists(dst):
                            os.remove(dst)
                        os.rename(t, dst)
        # 2. lake build
        t0 = time.time()
        rc, o = run(["lake", "build", "Gonuts", "driver"], cwd=LEAN, timeout=3000)
        res["lean_ok"] = rc == 0
        res["lean_log"] = o
        res["lean_s"] = time.time() - t0
        failed = set()
        for m in re.finditer(r"^✖ \[\d+/\d+\] (?:Building|Built|Compiling) (\S+)", o, re.M):
            failed.add(m.group(1))
        for m in re.finditer(r"^- (Gonuts\.\S+|Driver)\s*$", o, re.M):
            failed.add(m.group(1))
        res["failed_modules"] = sorted(failed)
        # 3. harness
        regen_harness_gomod()
        t0 = time.time()
        rc, o = run(["go", "build", "-tags", "verif", "-o", os.path.join(bindir, "harness"), "."], cwd=HARNESS, timeout=1200)
        res["harness_ok"] = rc == 0
        res["harness_log"] = o
        res["harness_s"] = time.time() - t0
    res["driver"] = os.path.join(LEAN, ".lake", "build", "bin", "driver")
    res["harness"] = os.path.join(bindir, "harness")
    return res


def module_file(mod):
    return os.path.join(LEAN, *mod.split(".")) + ".lean"


def broken_theorems(path, errs):
    """Names of the theorems / definitions of `path` that enclose the lines of the error messages."""
    try:
        src = open(path).read().splitlines()
    except OSError:
        return []
    decl = []  # (line number, name)
    for i, l in enumerate(src, 1):
        m = re.match(r"\s*(?:private\s+)?(?:theorem|lemma|def|example|instance)\s+([^\s:({\[]+)?", l)
        if m and not l.startswith(" " * 4):
            decl.append((i, m.group(1) or "example"))
    out = []
    for e in errs:
        m = re.search(r":(\d+):\d+:", e)
        if not m:
            continue
        ln = int(m.group(1))
        name = None
        for i, n in decl:
            if i <= ln:
                name = n
        if name and name not in out:
            out.append(name)
    return out


def imports_of(mod, seen=None):
    """Transitive Gonuts.* imports of a module (from source text)."""
    if seen is None:
        seen = set()
    if mod in seen:
        return seen
    seen.add(mod)
    try:
        txt = open(module_file(mod)).read()
    except OSError:
        return seen
    for m in re.finditer(r"^\s*(?:public\s+)?import\s+(Gonuts\.\S+)", txt, re.M):
        imports_of(m.group(1), seen)
    return seen


def strip_comments(txt):
    # remove nested block comments and line comments
    out = []
    i, depth = 0, 0
    while i < len(txt):
        if txt.startswith("/-", i):
            depth += 1
            i += 2
        elif txt.startswith("-/", i) and depth > 0:
            depth -= 1
            i += 2
        elif depth > 0:
            i += 1
        elif txt.startswith("--", i):
            j = txt.find("\n", i)
            i = len(txt) if j < 0 else j
        else:
            out.append(txt[i])
            i += 1
    return "".join(out)


FORBIDDEN = re.compile(r"\b(sorry|admit|native_decide|bv_decide|implemented_by|unsafe)\b|^\s*axiom\s|maxHeartbeats\s+0\b", re.M)


def grep_gate(mods):
    hits = []
    for mod in sorted(mods):
        if mod.startswith("Gonuts.Gen."):
            continue
        try:
            txt = strip_comments(open(module_file(mod)).read())
        except OSError:
            continue
        for m in FORBIDDEN.finditer(txt):
            line = txt.count("\n", 0, m.start()) + 1
            hits.append("%s:%d: %s" % (mod, line, m.group(0).strip()))
    return hits


AUDIT_TMPL = """import Lean
%(imports)s
open Lean Elab Command
run_cmd do
  let env ← getEnv
  let mods : List Name := [%(mods)s]
  for m in mods do
    match env.getModuleIdx? m with
    | none => logInfo m!"AUDIT-MISSING {m}"
    | some idx =>
      let names := env.constants.fold (init := (#[] : Array Name)) fun acc n ci =>
        match ci with
        | .thmInfo _ => if env.getModuleIdxFor? n == some idx && !n.isInternal then acc.push n else acc
        | _ => acc
      for n in names.qsort (fun a b => a.toString < b.toString) do
        let axs ← Lean.collectAxioms n
        logInfo m!"AUDIT {m} {n} {axs.toList}"
"""


def audit(mods, pid):
    """#print axioms for every theorem in the given modules. Returns (theorems, bad, log)."""
    mods = [m for m in mods if os.path.exists(module_file(m))]
    if not mods:
        return [], [], "no modules"
    src = AUDIT_TMPL % {
        "imports": "\n".join("import " + m for m in mods),
        "mods": ", ".join("`" + m for m in mods),
    }
    path = os.path.join(SCRATCH, "Audit_%s_%d.lean" % (pid, os.getpid()))
    open(path, "w").write(src)
    rc, o = run(["lake", "env", "lean", path], cwd=LEAN, timeout=1200)
    os.remove(path)
    thms, bad = [], []
    flat = re.sub(r"\n\s+", " ", o)
    for m in re.finditer(r"AUDIT (\S+) (\S+) \[(.*?)\]", flat):
        mod, name, axs = m.group(1), m.group(2), [a.strip() for a in m.group(3).split(",") if a.strip()]
        # equation / injectivity / sizeOf lemmas Lean generates for definitions and inductive types are audited for
        # axioms like everything else but are not counted as proof obligations
        if re.search(r"\.(inj|injEq|sizeOf_spec|noConfusion\w*|eq_\d+|eq_def|induct\w*|fun_cases\w*|congr_simp|ctorIdx\w*|match_\d+\S*|below\S*|brecOn\S*|unfold\S*)$", name):
            if any(a not in ALLOWED_AXIOMS for a in axs):
                bad.append({"module": mod, "theorem": name, "axioms": axs})
            continue
        thms.append({"module": mod, "theorem": name, "axioms": axs})
        if any(a not in ALLOWED_AXIOMS for a in axs):
            bad.append({"module": mod, "theorem": name, "axioms": axs})
    missing = re.findall(r"AUDIT-MISSING (\S+)", o)
    if rc != 0 and not thms:
        return thms, [{"module": "?", "theorem": "audit-failed", "axioms": [o[-2000:]]}], o
    for mm in missing:
        bad.append({"module": mm, "theorem": "module-missing", "axioms": []})
    return thms, bad, o


# ---------------------------------------------------------------- streams

def run_stream(b, stream, seed, tier, tag, shard="0/1"):
    outp = os.path.join(SCRATCH, "res-%s-%s-%d-%d.json" % (tag, stream, seed, os.getpid()))
    cmd = [b["harness"], "-stream", stream, "-seed", str(seed), "-tier", tier, "-driver", b["driver"],
           "-out", outp, "-scratch", SCRATCH, "-shard", shard]
    t0 = time.time()
    try:
        rc, o = run(cmd, cwd=HARNESS, timeout=7200 if tier == "thorough" else 1500)
    except subprocess.TimeoutExpired:
        rc, o = 124, "timeout"
    dt = time.time() - t0
    res = None
    if os.path.exists(outp):
        try:
            res = json.load(open(outp))
        except Exception as e:  # noqa
            o += "\nbad result json: %s" % e
        os.remove(outp)
    return {"stream": stream, "seed": seed, "rc": rc, "log": o[-4000:], "wall_s": dt, "result": res}


# ---------------------------------------------------------------- main

def load_known():
    p = os.path.join(VERIF, "known_findings.json")
    if not os.path.exists(p):
        return []
    return json.load(open(p)).get("findings", [])


def main():
    if len(sys.argv) >= 2 and sys.argv[1] == "--setup":
        b = build_all()
        ok = b["extract_ok"] and b["lean_ok"] and b["harness_ok"]
        if not ok:
            print(b.get("extract_log", "")[-2000:], b["lean_log"][-4000:], b["harness_log"][-2000:])
        print("setup", "ok" if ok else "FAILED", "lean %.0fs harness %.0fs" % (b.get("lean_s", 0), b.get("harness_s", 0)))
        sys.exit(0 if ok else 1)
    if len(sys.argv) < 3:
        print(__doc__)
        sys.exit(2)
    pid, tier = sys.argv[1], sys.argv[2]
    if pid not in PROPS:
        print("unknown property", pid)
        sys.exit(2)
    seed = int(os.environ.get("VERIF_SEED", "1") or "1")
    tier = os.environ.get("VERIF_TIER", tier) or tier
    if tier not in ("quick", "thorough"):
        tier = "quick"
    P = PROPS[pid]
    t_start = time.time()
    os.makedirs(OUT, exist_ok=True)
    replay_dir = os.path.join(OUT, "replays", pid)
    shutil.rmtree(replay_dir, ignore_errors=True)
    os.makedirs(replay_dir, exist_ok=True)

    violations = []  # (description, replay_obj, found_input: bool)
    known_lines = []

    b = build_all()
    if not b["extract_ok"]:
        violations.append(("fact extractor failed on the current source tree", {"log": b["extract_log"][-3000:]}, False))
    if not b["harness_ok"]:
        violations.append(("correspondence harness does not build against the current source tree",
                           {"log": b["harness_log"][-3000:]}, False))

    # ---- proof obligations
    prop_mods = list(P["lean"])
    deps = set()
    for m in prop_mods:
        deps |= imports_of(m)
    failed = [m for m in b["failed_modules"] if m in deps]
    broken_obligations = []
    if not b["lean_ok"]:
        if failed:
            for m in failed:
                # first error lines for that module
                errs = [l for l in b["lean_log"].splitlines() if l.startswith("error:") and module_file(m).split(LEAN + "/")[-1] in l]
                broken_obligations.append({"module": m, "errors": errs[:5], "theorems": broken_theorems(module_file(m), errs)})
        elif not os.path.exists(b["driver"]) or "Driver" in b["failed_modules"]:
            broken_obligations.append({"module": "Driver", "errors": [b["lean_log"][-1500:]]})
    thms, bad, audit_log = ([], [], "")
    if not failed:
        thms, bad, audit_log = audit(prop_mods, pid)
    gate = grep_gate(deps)
    # thorough tier: the compiled .olean files of the property's modules are re-checked by leanchecker (the toolchain's
    # independent re-checker of the kernel's verdict: every declaration is replayed through the kernel from the file)
    rechecked = []
    if tier == "thorough" and not failed:
        for m in prop_mods:
            if not os.path.exists(module_file(m)):
                continue
            rc, o = run(["lake", "env", "leanchecker", m], cwd=LEAN, timeout=1800)
            rechecked.append({"module": m, "ok": rc == 0})
            if rc != 0:
                broken_obligations.append({"module": m, "errors": ["leanchecker: " + o[-1500:]], "theorems": []})
    obligations = len(thms) + len(broken_obligations) + 0
    discharged = len(thms) - len(bad)
    for bo in broken_obligations:
        what = "proof obligation no longer checks: %s" % bo["module"]
        if bo.get("theorems"):
            what += " (theorem%s %s)" % ("s" if len(bo["theorems"]) > 1 else "", ", ".join(bo["theorems"][:4]))
        violations.append((what, bo, False))
    for x in bad:
        violations.append(("theorem depends on a non-permitted axiom or is missing: %s" % x["theorem"], x, False))
    for g in gate:
        violations.append(("forbidden construct in proof sources: %s" % g, {"hit": g}, False))
    if not thms and not broken_obligations:
        violations.append(("no theorem found for this property", {"audit_log": audit_log[-2000:]}, False))

    # ---- correspondence streams + monitors
    stream_runs = []
    if b["harness_ok"] and os.path.exists(b["driver"]):
        jobs = []
        for s in P["streams"]:
            if tier == "thorough":
                shards = P.get("thorough_shards", {}).get(s, 2)
                for k in range(shards):
                    jobs.append((s, seed + 1000 * k, "%d/%d" % (k, shards)))
            else:
                shards = P.get("quick_shards", {}).get(s, 1)
                for k in range(shards):
                    jobs.append((s, seed + 1000 * k, "%d/%d" % (k, shards)))
        with ThreadPoolExecutor(max_workers=min(12, max(1, len(jobs)))) as ex:
            futs = [ex.submit(run_stream, b, s, sd, tier, pid, sh) for (s, sd, sh) in jobs]
            stream_runs = [f.result() for f in futs]
    known = load_known()
    evaluations = 0
    distinct = 0
    samples = []
    hist = {}
    rules = []
    traces = 0
    disagreements_checked = 0
    known_seen = set()
    for r in stream_runs:
        res = r["result"]
        if res is None:
            violations.append(("stream %s crashed or produced no result (rc=%s)" % (r["stream"], r["rc"]),
                               {"log": r["log"]}, False))
            continue
        evaluations += res["evaluations"]
        distinct += res["distinct_nontrivial"]
        traces += res["evaluations"]
        if res["rule"] not in rules:
            rules.append("%s: %s" % (res["stream"], res["rule"]))
        for s in res["samples"][:3]:
            samples.append({"stream": res["stream"], "case": s})
        for t, h in (res.get("histograms") or {}).items():
            hist.setdefault(res["stream"] + "/" + t, {})
            for k, v in h.items():
                hist[res["stream"] + "/" + t][k] = hist[res["stream"] + "/" + t].get(k, 0) + v
        for d in res["disagreements"]:
            if pid in d["props"]:
                disagreements_checked += 1
                violations.append(("model and implementation disagree in stream %s (seed %d)" % (res["stream"], res["seed"]),
                                   {"stream": res["stream"], "seed": res["seed"], "tier": tier, "disagreement": d}, False))
        for f in res["monitor_failures"]:
            if f["prop"] != pid:
                continue
            k = next((kf for kf in known if kf.get("property") == pid and kf.get("status", "known") == "known"
                      and kf.get("signature") == f["signature"]), None)
            if k is not None:
                if f["signature"] not in known_seen:
                    known_seen.add(f["signature"])
                    known_lines.append("KNOWN-FINDING: property=%s %s [%s]" % (pid, k.get("what", f["what"]), f["signature"]))
                continue
            violations.append(("property monitor failed in stream %s (seed %d): %s" % (res["stream"], res["seed"], f["what"]),
                               {"stream": res["stream"], "seed": res["seed"], "tier": tier, "failure": f}, True))
        for f in res.get("known_witnesses", []):
            if f["prop"] != pid:
                continue
            k = next((kf for kf in known if kf.get("property") == pid and kf.get("status", "known") == "known"
                      and kf.get("signature") == f["signature"]), None)
            if k is not None:
                if f["signature"] not in known_seen:
                    known_seen.add(f["signature"])
                    known_lines.append("KNOWN-FINDING: property=%s %s [%s]" % (pid, k.get("what", f["what"]), f["signature"]))
            else:
                violations.append(("witness replay fails but is not a listed known finding: %s" % f["what"],
                                   {"stream": res["stream"], "seed": res["seed"], "failure": f}, True))

    # ---- verdict
    for l in known_lines:
        print(l)
    # a concrete failing input (monitor) is reported in preference to no-failing-input-found
    violations.sort(key=lambda v: (not v[2],))
    lines = []
    for i, (desc, rep, found) in enumerate(violations[:10]):
        path = os.path.join(replay_dir, "%s-%s-%d.json" % (pid, tier, i))
        json.dump({"property": pid, "what": desc, "found_failing_input": found, "replay": rep,
                   "how_to_replay": "VERIF_SEED=%d ./check %s %s" % (seed, pid, tier)}, open(path, "w"), indent=1)
        tail = "" if found else " no-failing-input-found"
        lines.append("VIOLATION property=%s replay=%s %s%s" % (pid, path, desc.replace("\n", " ")[:200], tail))
    # ---- evidence
    wall = time.time() - t_start
    ev = {
        "property_id": pid,
        "tier": tier,
        "seed": seed,
        "level": P.get("level", "proof"),
        "coverage": {
            "obligations": max(obligations, 0),
            "discharged": max(discharged, 0),
            "checker_cmd": "cd lean && lake build Gonuts driver && lake env lean <generated Audit: Lean.collectAxioms on every theorem of %s>" % ", ".join(prop_mods),
            "leanchecker": rechecked,
            "trusted_base": P.get("trusted_base", []) + [
                "Lean 4 kernel; axioms allowed: propext, Classical.choice, Quot.sound",
                "fact extractor /verif/extract (go/ast, data only)",
            ] + (["Go->Lean translator /verif/extract/translate.go and the semantics of its combinators (Gonuts/Model/GoSem.lean): "
                  "the translated functions (Gonuts/Gen/Code.lean, regenerated on this run) are what Tie.Code's theorems are about"]
                 if "Gonuts.Tie.Code" in prop_mods else []) + [
                "correspondence harness /verif/harness (real code in-process vs Lean driver)"],
            "theorems": thms,
            "evaluations": evaluations,
            "distinct_nontrivial": distinct,
            "rule": " || ".join(rules) if rules else "no correspondence stream ran",
            "samples": samples[:8] if samples else [{"note": "no stream case recorded"}],
            "traces_validated_against_impl": traces,
            "disagreements_checked": disagreements_checked,
            "histograms": hist,
            "streams": [{"stream": r["stream"], "seed": r["seed"], "wall_s": round(r["wall_s"], 2), "rc": r["rc"]} for r in stream_runs],
            "lean_build_s": round(b.get("lean_s", 0), 2),
            "known_findings_reproduced": sorted(known_seen),
        },
        "assumptions": P.get("assumptions", []),
        "wall_s": round(wall, 2),
        "violations": len(violations),
    }
    if ev["coverage"]["obligations"] < 1:
        ev["coverage"]["obligations"] = 1
        ev["coverage"]["discharged"] = 0 if violations else 1
    os.makedirs(os.path.join(VERIF, "evidence"), exist_ok=True)
    json.dump(ev, open(os.path.join(VERIF, "evidence", pid + ".json"), "w"), indent=1)
    for l in lines:
        print(l)
    if violations:
        sys.exit(1)
    print("OK property=%s tier=%s theorems=%d evaluations=%d distinct=%d wall=%.1fs" %
          (pid, tier, len(thms), evaluations, distinct, wall))
    sys.exit(0)


if __name__ == "__main__":
    main()
