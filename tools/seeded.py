#!/usr/bin/env python3
"""Run the registered checks against a seeded change.

  tools/seeded.py eval <seeded/ID> [--tier quick|thorough] [--props C01,C02]
      apply <seeded/ID>/patch.diff to /repo (which must be clean), run ./check for the change's property (meta.json
      "property") and any extra --props, write <seeded/ID>/result.json, undo the change (always, also on error).
  tools/seeded.py table
      print the catch table (markdown) from all seeded/*/result.json
"""
import json, os, subprocess, sys, time, glob

VERIF = os.path.dirname(os.path.dirname(os.path.abspath(__file__)))
REPO = os.environ.get("VERIF_REPO", "/repo")


def sh(cmd, **kw):
    return subprocess.run(cmd, shell=True, stdout=subprocess.PIPE, stderr=subprocess.STDOUT, text=True, **kw)


def clean():
    return sh("git -C %s status --porcelain" % REPO).stdout.strip() == ""


def evaluate(d, tier, extra):
    meta = json.load(open(os.path.join(d, "meta.json")))
    props = [meta["property"]] + [p for p in extra if p != meta["property"]]
    if not clean():
        print("refusing: /repo is not clean")
        return 2
    patch = os.path.abspath(os.path.join(d, "patch.diff"))
    r = sh("git -C %s apply --whitespace=nowarn %s" % (REPO, patch))
    if r.returncode != 0:
        print("patch does not apply:", r.stdout)
        return 2
    results = {}
    try:
        for p in props:
            t0 = time.time()
            r = sh("./check %s %s" % (p, tier), cwd=VERIF)
            lines = [l for l in r.stdout.splitlines() if l.startswith("VIOLATION") or l.startswith("OK ") or l.startswith("FAIL")]
            viol = [l for l in r.stdout.splitlines() if l.startswith("VIOLATION")]
            reasons = []
            for v in viol:
                rp = v.split("replay=")[-1].split()[0]
                try:
                    j = json.load(open(rp))
                    reasons.append(j.get("what") or j.get("reason") or "")
                except Exception:
                    pass
            results[p] = {"exit": r.returncode, "wall_s": round(time.time() - t0, 1), "lines": lines[:12], "reasons": [x[:400] for x in reasons[:6]]}
            print(p, "exit", r.returncode, "caught" if r.returncode == 1 and viol else "MISSED", "%.0fs" % (time.time() - t0))
            for x in reasons[:3]:
                print("    ", x[:300])
    finally:
        sh("git -C %s checkout -- ." % REPO)
        sh("git -C %s clean -fdq" % REPO)
    res = {"id": meta.get("id"), "property": meta["property"], "tier": tier, "repo_head": sh("git -C %s rev-parse --short HEAD" % REPO).stdout.strip(),
           "checks": results, "caught_by": [p for p, v in results.items() if v["exit"] == 1]}
    json.dump(res, open(os.path.join(d, "result.json"), "w"), indent=1)
    assert clean()
    return 0


def table():
    rows = []
    for f in sorted(glob.glob(os.path.join(VERIF, "seeded", "*", "meta.json"))):
        d = os.path.dirname(f)
        m = json.load(open(f))
        r = {}
        if os.path.exists(os.path.join(d, "result.json")):
            r = json.load(open(os.path.join(d, "result.json")))
        own = r.get("checks", {}).get(m["property"], {})
        how = "; ".join(own.get("reasons", [])[:1])[:160]
        rows.append("| %s | %s | %s | %s | %s |" % (m.get("id"), m["property"], m.get("title", "")[:90].replace("|", "/"),
                                                 ",".join(r.get("caught_by", [])) or "—", how.replace("|", "/")))
    print("| id | property | change | caught by | first reported reason |\n|---|---|---|---|---|")
    print("\n".join(rows))


if __name__ == "__main__":
    if len(sys.argv) >= 3 and sys.argv[1] == "eval":
        tier, extra = "quick", []
        a = sys.argv[3:]
        while a:
            if a[0] == "--tier":
                tier = a[1]; a = a[2:]
            elif a[0] == "--props":
                extra = a[1].split(","); a = a[2:]
            else:
                a = a[1:]
        sys.exit(evaluate(sys.argv[2], tier, extra))
    elif len(sys.argv) >= 2 and sys.argv[1] == "table":
        table()
    else:
        print(__doc__)
